(* Decimal printing / parsing of u64-range numbers as Rust's Display for u64 and u64::from_str do it. *)
From BP7 Require Import Base.Prelude.

Fixpoint digits_rev (fuel : nat) (n : N) : list byte :=
  match fuel with
  | O => []
  | S f => let d := n2b (48 + n mod 10) in
           if n <? 10 then [d] else d :: digits_rev f (n / 10)
  end.
(* Display for u64: no leading zeros, "0" for 0 (20 digits suffice below 2^64) *)
Definition dec (n : N) : list byte := rev (digits_rev 20 n).
(* unbounded variant used by the case-line protocol only *)
Definition dec_any (n : N) : list byte := rev (digits_rev (S (N.to_nat (N.size n))) n).

Definition is_digit (b : byte) : bool := (48 <=? b2n b) && (b2n b <=? 57).
Fixpoint parse_digits (l : list byte) (acc : N) : option N :=
  match l with
  | [] => Some acc
  | b :: t => if is_digit b then
                let acc' := acc * 10 + (b2n b - 48) in
                if acc' <? two64 then parse_digits t acc' else None
              else None
  end.
(* digits only, non-empty, fits u64 *)
Definition parse_u64_digits (l : list byte) : option N :=
  match l with [] => None | _ => parse_digits l 0 end.
(* Rust's u64::from_str: an optional leading '+' (not alone), then digits *)
Definition parse_u64 (l : list byte) : option N :=
  match l with
  | [] => None
  | [c] => parse_u64_digits [c]                       (* a lone "+" or "-" is InvalidDigit *)
  | c :: rest => if b2n c =? 43 then parse_u64_digits rest else parse_u64_digits l
  end.
(* unbounded decimal parse (protocol only) *)
Fixpoint parse_digits_any (l : list byte) (acc : N) : option N :=
  match l with
  | [] => Some acc
  | b :: t => if is_digit b then parse_digits_any t (acc * 10 + (b2n b - 48)) else None
  end.
Definition parse_dec_any (l : list byte) : option N :=
  match l with [] => None | _ => parse_digits_any l 0 end.

Lemma parse_digits_app l1 l2 acc : parse_digits (l1 ++ l2) acc =
  match parse_digits l1 acc with Some a => parse_digits l2 a | None => None end.
Proof.
  revert acc; induction l1 as [|b t IH]; intros acc; cbn [app parse_digits]; [reflexivity|].
  destruct (is_digit b); [|reflexivity]. destruct (_ <? two64); [apply IH|reflexivity].
Qed.

Lemma digit_byte x : x < 10 -> is_digit (n2b (48 + x)) = true /\ b2n (n2b (48 + x)) - 48 = x.
Proof. intros H. unfold is_digit. rewrite b2n_n2b by lia. split; [apply andb_true_iff; split; apply N.leb_le; lia|lia]. Qed.

Lemma parse_rev_digits fuel : forall n, n < 10 ^ N.of_nat fuel -> n < two64 -> (0 < fuel)%nat ->
  forall acc, (acc * 10 ^ N.of_nat (length (digits_rev fuel n)) + n < two64) ->
  parse_digits (rev (digits_rev fuel n)) acc = Some (acc * 10 ^ N.of_nat (length (digits_rev fuel n)) + n)
  /\ digits_rev fuel n <> [].
Proof.
  induction fuel as [|f IH]; intros n Hn H64 Hf acc Hacc; [lia|].
  cbn [digits_rev] in *.
  destruct (n <? 10) eqn:E.
  - apply N.ltb_lt in E. rewrite N.mod_small by lia. cbn [rev app length parse_digits] in *.
    destruct (digit_byte n E) as [-> ->]. change (N.of_nat 1) with 1 in *. rewrite N.pow_1_r in *.
    assert (acc * 10 + n <? two64 = true) as -> by (apply N.ltb_lt; lia). split; [reflexivity|discriminate].
  - apply N.ltb_ge in E. cbn [rev length] in *. rewrite parse_digits_app.
    rewrite Nat2N.inj_succ, N.pow_succ_r' in *.
    assert (Hdiv : n / 10 < 10 ^ N.of_nat f) by (apply N.div_lt_upper_bound; lia).
    assert (Hf' : (0 < f)%nat).
    { destruct f; [|apply Nat.lt_0_succ]. change (N.of_nat 0) with 0 in Hn. rewrite N.pow_0_r in Hn. lia. }
    pose proof (N.div_mod n 10 ltac:(lia)) as Hdm.
    pose proof (N.mod_lt n 10 ltac:(lia)) as Hm.
    set (L := 10 ^ N.of_nat (length (digits_rev f (n / 10)))) in *.
    assert (HH : forall L q m, acc * (10 * L) + n < two64 -> n = 10 * q + m -> acc * L + q < two64) by (intros; nia).
    assert (acc * L + n / 10 < two64) by (eapply HH; eassumption).
    assert (n / 10 < two64) by (apply N.div_lt_upper_bound; [discriminate|clear - H64; unfold two64 in *; lia]).
    destruct (IH (n / 10) Hdiv H0 Hf' acc H) as [-> _].
    fold L. cbn [parse_digits]. destruct (digit_byte (n mod 10) Hm) as [-> ->].
    assert ((acc * L + n / 10) * 10 + n mod 10 = acc * (10 * L) + n) as Heq by (clearbody L; clear - Hdm; lia).
    rewrite Heq. assert (acc * (10 * L) + n <? two64 = true) as -> by (apply N.ltb_lt; exact Hacc).
    split; [reflexivity|discriminate].
Qed.

Lemma digits_all fuel n : forallb is_digit (digits_rev fuel n) = true.
Proof.
  revert n; induction fuel as [|f IH]; intros n; cbn [digits_rev]; [reflexivity|].
  pose proof (N.mod_lt n 10 ltac:(lia)) as Hm. destruct (digit_byte (n mod 10) Hm) as [Hd _].
  destruct (n <? 10); cbn [forallb]; rewrite Hd; [reflexivity|apply IH].
Qed.
Theorem dec_digits n : forallb is_digit (dec n) = true.
Proof. unfold dec. rewrite forallb_forall. intros x Hx. apply in_rev in Hx.
  pose proof (digits_all 20 n) as H. rewrite forallb_forall in H. auto. Qed.
Lemma dec_nonempty n : dec n <> [].
Proof.
  unfold dec. cbn [digits_rev]. destruct (n <? 10); cbn [rev]; intros H; apply app_eq_nil in H as [_ H]; discriminate.
Qed.

Theorem parse_digits_dec n : n < two64 -> parse_u64_digits (dec n) = Some n.
Proof.
  intros H. unfold parse_u64_digits, dec.
  assert (n < 10 ^ N.of_nat 20).
  { assert (10 ^ N.of_nat 20 = 100000000000000000000) as -> by (vm_compute; reflexivity). unfold two64 in H. lia. }
  destruct (parse_rev_digits 20 n H0 H ltac:(lia) 0 ltac:(lia)) as [Hp Hne].
  destruct (rev (digits_rev 20 n)) eqn:E.
  - exfalso. apply Hne. apply (f_equal (@rev byte)) in E. rewrite rev_involutive in E. exact E.
  - rewrite Hp. f_equal.
Qed.

Lemma dec_first_digit n : exists c t, dec n = c :: t /\ is_digit c = true.
Proof.
  pose proof (dec_digits n) as H. pose proof (dec_nonempty n) as Hn.
  destruct (dec n) as [|c t]; [congruence|]. cbn [forallb] in H. apply andb_true_iff in H as [H _]. eauto.
Qed.

Theorem parse_dec n : n < two64 -> parse_u64 (dec n) = Some n.
Proof.
  intros H. pose proof (parse_digits_dec n H) as Hp.
  destruct (dec_first_digit n) as (c & t & E & Hc). rewrite E in *.
  unfold parse_u64. destruct t as [|c2 t]; [exact Hp|].
  assert (b2n c =? 43 = false) as ->; [|exact Hp].
  unfold is_digit in Hc. apply andb_true_iff in Hc as [Hc _]. apply N.leb_le in Hc. apply N.eqb_neq. lia.
Qed.
