(* Base library: outcome type with explicit Panic, bytes <-> N, big-endian, list helpers.
   Definitions and their basic lemmas; used by Model/, Spec/ and Proofs/. *)
From Coq Require Export Arith NArith List Lia Bool.
From Coq Require Export Strings.Byte.
Export ListNotations.
Open Scope N_scope.

Arguments N.add : simpl never.
Arguments N.sub : simpl never.
Arguments N.mul : simpl never.
Arguments N.div : simpl never.
Arguments N.modulo : simpl never.
Arguments N.pow : simpl never.
Arguments N.eqb : simpl never.
Arguments N.ltb : simpl never.
Arguments N.leb : simpl never.

(* ---------- outcome of a Rust computation ---------- *)
Inductive err :=
  | EEof | EUnassigned | EUnexpected | EType | EValue | EDepth | ETrailing | ELength | EUtf8
  | EFuel | ECustom | ERange.
Inductive psite :=            (* where a Rust panic would be raised *)
  | PSlice | PUnwrap | POverflow | PExpect | PUnimplemented | PCrcType | PFormat.
Inductive res (A : Type) := Ok (a : A) | Err (e : err) | Panic (p : psite).
Arguments Ok {A}. Arguments Err {A}. Arguments Panic {A}.

Definition bind {A B} (r : res A) (f : A -> res B) : res B :=
  match r with Ok a => f a | Err e => Err e | Panic p => Panic p end.
Notation "'do' x <- r ; k" := (bind r (fun x => k)) (at level 200, x pattern, r at level 100, k at level 200).
Definition rmap {A B} (f : A -> B) (r : res A) : res B := bind r (fun a => Ok (f a)).
Definition no_panic {A} (r : res A) : Prop := forall p, r <> Panic p.
Definition is_ok {A} (r : res A) : bool := match r with Ok _ => true | _ => false end.
Definition is_err {A} (r : res A) : bool := match r with Err _ => true | _ => false end.
Definition is_panic {A} (r : res A) : bool := match r with Panic _ => true | _ => false end.

(* overflow mode of the Rust build: debug (checked, panics) or release (wrapping) *)
Inductive ovf_mode := Checked | Wrapping.
Definition two64 : N := 18446744073709551616.
Definition add64 (m : ovf_mode) (x y : N) : res N :=
  if x + y <? two64 then Ok (x + y)
  else match m with Checked => Panic POverflow | Wrapping => Ok ((x + y) mod two64) end.
Definition sub64 (m : ovf_mode) (x y : N) : res N :=
  if y <=? x then Ok (x - y)
  else match m with Checked => Panic POverflow | Wrapping => Ok ((two64 + x - y) mod two64) end.

(* ---------- bytes ---------- *)
Definition b2n (b : byte) : N := Byte.to_N b.
Definition n2b (n : N) : byte := match Byte.of_N (n mod 256) with Some b => b | None => x00 end.

Lemma b2n_lt b : b2n b < 256.
Proof. unfold b2n. pose proof (Byte.to_N_bounded b). lia. Qed.
Lemma b2n_n2b n : n < 256 -> b2n (n2b n) = n.
Proof.
  intros H. unfold n2b, b2n. rewrite N.mod_small by lia.
  destruct (Byte.of_N n) eqn:E.
  - apply Byte.to_of_N in E. exact E.
  - apply Byte.of_N_None_iff in E. lia.
Qed.
Lemma n2b_b2n b : n2b (b2n b) = b.
Proof. unfold n2b, b2n. rewrite N.mod_small by (pose proof (Byte.to_N_bounded b); lia).
  rewrite Byte.of_to_N. reflexivity. Qed.
Lemma b2n_inj a b : b2n a = b2n b -> a = b.
Proof. intros H. rewrite <- (n2b_b2n a), <- (n2b_b2n b), H. reflexivity. Qed.
Definition byte_eqb (a b : byte) : bool := b2n a =? b2n b.
Lemma byte_eqb_eq a b : byte_eqb a b = true <-> a = b.
Proof. unfold byte_eqb. rewrite N.eqb_eq. split; [apply b2n_inj|intros ->; reflexivity]. Qed.
Lemma byte_eqb_refl a : byte_eqb a a = true.
Proof. apply byte_eqb_eq. reflexivity. Qed.

Fixpoint bytes_eqb (x y : list byte) : bool :=
  match x, y with
  | [], [] => true
  | a :: x', b :: y' => byte_eqb a b && bytes_eqb x' y'
  | _, _ => false
  end.
Lemma bytes_eqb_eq x y : bytes_eqb x y = true <-> x = y.
Proof.
  revert y; induction x as [|a x IH]; intros [|b y]; cbn [bytes_eqb]; try (split; [discriminate|discriminate]); try tauto.
  rewrite andb_true_iff, byte_eqb_eq, IH. split; [intros [-> ->]; reflexivity|intros H; inversion H; auto].
Qed.
Lemma bytes_eqb_refl x : bytes_eqb x x = true.
Proof. apply bytes_eqb_eq. reflexivity. Qed.

(* ---------- big endian ---------- *)
Fixpoint be_enc (w : nat) (n : N) : list byte :=
  match w with O => [] | S w' => n2b (n / 256 ^ N.of_nat w') :: be_enc w' (n mod 256 ^ N.of_nat w') end.
Fixpoint be_dec (l : list byte) (acc : N) : N :=
  match l with [] => acc | b :: t => be_dec t (acc * 256 + b2n b) end.

Lemma be_dec_enc w : forall n acc, n < 256 ^ N.of_nat w -> be_dec (be_enc w n) acc = acc * 256 ^ N.of_nat w + n.
Proof.
  induction w as [|w IH]; intros n acc H.
  - cbn [be_enc be_dec]. change (N.of_nat 0) with 0 in *. rewrite N.pow_0_r in *. lia.
  - cbn [be_enc be_dec].
    rewrite Nat2N.inj_succ, N.pow_succ_r' in *.
    set (p := 256 ^ N.of_nat w) in *.
    assert (Hp : 0 < p) by (apply N.neq_0_lt_0, N.pow_nonzero; lia).
    rewrite b2n_n2b by (apply N.div_lt_upper_bound; lia).
    rewrite IH by (apply N.mod_lt; lia).
    pose proof (N.div_mod n p ltac:(lia)). nia.
Qed.
Lemma be_enc_length w n : length (be_enc w n) = w.
Proof. revert n; induction w; intros; cbn [be_enc length]; auto. Qed.
Lemma be_dec_bound l : forall acc, be_dec l acc < (acc + 1) * 256 ^ N.of_nat (length l).
Proof.
  induction l as [|b t IH]; intros acc; cbn [be_dec length].
  - change (N.of_nat 0) with 0. rewrite N.pow_0_r. lia.
  - rewrite Nat2N.inj_succ, N.pow_succ_r'. specialize (IH (acc * 256 + b2n b)).
    pose proof (b2n_lt b). set (p := 256 ^ N.of_nat (length t)) in *. nia.
Qed.
Lemma be_enc_dec l : forall acc, be_enc (length l) (be_dec l acc mod 256 ^ N.of_nat (length l)) = l.
Proof.
  induction l as [|b t IH]; intros acc; [reflexivity|].
  cbn [length be_dec be_enc].
  set (p := 256 ^ N.of_nat (length t)).
  assert (Hp : 0 < p) by (apply N.neq_0_lt_0, N.pow_nonzero; lia).
  rewrite Nat2N.inj_succ, N.pow_succ_r'. fold p.
  (* be_dec t (acc*256+b) = (acc*256+b) * p + low,  low < p *)
  assert (Hsplit : forall a, be_dec t a = a * p + be_dec t 0).
  { clear. unfold p. induction t as [|c t IHt]; intros a; cbn [be_dec length].
    - change (N.of_nat 0) with 0. rewrite N.pow_0_r. lia.
    - rewrite Nat2N.inj_succ, N.pow_succ_r'. rewrite IHt, (IHt (0 * 256 + b2n c)). lia. }
  pose proof (be_dec_bound t 0) as Hlow. fold p in Hlow.
  rewrite (Hsplit (acc * 256 + b2n b)).
  set (low := be_dec t 0) in *.
  pose proof (b2n_lt b) as Hb.
  assert (E : ((acc * 256 + b2n b) * p + low) mod (256 * p) = b2n b * p + low).
  { replace ((acc * 256 + b2n b) * p + low) with ((b2n b * p + low) + acc * (256 * p)) by lia.
    rewrite N.mod_add by lia. apply N.mod_small. nia. }
  rewrite E. f_equal.
  - replace (b2n b * p + low) with (low + b2n b * p) by lia.
    rewrite N.div_add by lia. rewrite (N.div_small low p) by lia. cbn. apply n2b_b2n.
  - replace (b2n b * p + low) with (low + b2n b * p) by lia.
    rewrite N.mod_add by lia. rewrite (N.mod_small low p) by lia.
    specialize (IH 0). fold p in IH. fold low in IH. rewrite (N.mod_small low p) in IH by lia. exact IH.
Qed.

(* ---------- take: bounds-checked slice read ---------- *)
(* "does l have at least k elements?" looks at no more than k of them (computing `length l` for every string item made the decoder
   model quadratic in the number of blocks) *)
Fixpoint has_len (k : nat) (l : list byte) : bool :=
  match k, l with O, _ => true | S _, [] => false | S k', _ :: t => has_len k' t end.
Lemma has_len_leb k : forall l, has_len k l = Nat.leb k (length l).
Proof. induction k as [|k IH]; intros l; [reflexivity|]. destruct l as [|x t]; [reflexivity|]. cbn [has_len length Nat.leb]. apply IH. Qed.
Definition take (k : nat) (l : list byte) : option (list byte * list byte) :=
  if has_len k l then Some (firstn k l, skipn k l) else None.
Lemma take_app w x r : length x = w -> take w (x ++ r) = Some (x, r).
Proof.
  intros H. unfold take. rewrite has_len_leb, app_length, H.
  replace (Nat.leb w (w + length r)) with true by (symmetry; apply Nat.leb_le; lia).
  subst w. rewrite firstn_app, firstn_all, Nat.sub_diag, skipn_app, skipn_all, Nat.sub_diag. cbn [firstn skipn app].
  rewrite app_nil_r. reflexivity.
Qed.
Lemma take_some k l x r : take k l = Some (x, r) -> l = x ++ r /\ length x = k.
Proof.
  unfold take. rewrite has_len_leb. destruct (Nat.leb k (length l)) eqn:E; [|discriminate]. apply Nat.leb_le in E.
  intros H; inversion H; subst. split; [symmetry; apply firstn_skipn|apply firstn_length_le; exact E].
Qed.
(* N-indexed variant: a length claim larger than the input fails before any nat of that size is built, and without measuring the input *)
Fixpoint at_least (l : list byte) (n : N) : bool :=
  match l with
  | [] => n =? 0
  | _ :: t => if n =? 0 then true else at_least t (N.pred n)
  end.
Lemma at_least_leb l : forall n, at_least l n = (n <=? N.of_nat (length l)).
Proof.
  induction l as [|x t IH]; intros n; cbn [at_least length].
  - destruct (n =? 0) eqn:E; [apply N.eqb_eq in E; subst; reflexivity|]. apply N.eqb_neq in E. symmetry. apply N.leb_gt. lia.
  - destruct (n =? 0) eqn:E; [apply N.eqb_eq in E; subst; reflexivity|]. apply N.eqb_neq in E. rewrite IH.
    destruct (N.pred n <=? N.of_nat (length t)) eqn:A; symmetry; [apply N.leb_le in A; apply N.leb_le; lia|apply N.leb_gt in A; apply N.leb_gt; lia].
Qed.
Definition takeN (n : N) (l : list byte) : option (list byte * list byte) :=
  if at_least l n then take (N.to_nat n) l else None.
Lemma takeN_app x r : takeN (N.of_nat (length x)) (x ++ r) = Some (x, r).
Proof.
  unfold takeN. rewrite at_least_leb, app_length, Nat2N.inj_add.
  replace (N.of_nat (length x) <=? N.of_nat (length x) + N.of_nat (length r)) with true
    by (symmetry; apply N.leb_le; lia).
  rewrite Nat2N.id. apply take_app. reflexivity.
Qed.
Lemma takeN_some n l x r : takeN n l = Some (x, r) -> l = x ++ r /\ N.of_nat (length x) = n.
Proof.
  unfold takeN. rewrite at_least_leb. destruct (n <=? N.of_nat (length l)); [|discriminate].
  intros H. apply take_some in H as [-> H]. split; [reflexivity|]. rewrite H. apply N2Nat.id.
Qed.

(* ---------- misc list helpers ---------- *)
Fixpoint repeat_byte (b : byte) (n : nat) : list byte := match n with O => [] | S k => b :: repeat_byte b k end.
Definition zeros (n : nat) : list byte := repeat_byte x00 n.
Definition Nlen {A} (l : list A) : N := N.of_nat (length l).
Fixpoint forall2b {A} (f : A -> A -> bool) (x y : list A) : bool :=
  match x, y with
  | [], [] => true
  | a :: x', b :: y' => f a b && forall2b f x' y'
  | _, _ => false
  end.
Fixpoint last_opt {A} (l : list A) : option A :=
  match l with [] => None | [a] => Some a | _ :: t => last_opt t end.
Fixpoint memN (x : N) (l : list N) : bool := match l with [] => false | y :: t => (x =? y) || memN x t end.
Lemma memN_In x l : memN x l = true <-> In x l.
Proof.
  induction l as [|y t IH]; cbn [memN In]; [split; [discriminate|tauto]|].
  rewrite orb_true_iff, N.eqb_eq, IH. split; intros [H|H]; auto.
Qed.
