(* Rust `str` operations used by eid.rs / bundle.rs on UTF-8 byte lists, with their characterising lemmas:
   contains(char) / starts_with / split(char) / splitn(n, char) for ASCII delimiters (splitting UTF-8 bytes on an
   ASCII byte equals splitting chars), slicing `s[k..]` with its char-boundary panic, and trim()
   (char::is_whitespace = Unicode White_Space) on the UTF-8 encodings. *)
From BP7 Require Import Base.Prelude Base.Utf8.

(* ---------- contains(c), starts_with(p), counting ---------- *)
Fixpoint mem_byte (c : byte) (l : list byte) : bool :=
  match l with [] => false | b :: t => byte_eqb b c || mem_byte c t end.
Fixpoint count_byte (c : byte) (l : list byte) : nat :=
  match l with [] => O | b :: t => if byte_eqb b c then S (count_byte c t) else count_byte c t end.
Fixpoint starts_with (p l : list byte) : bool :=
  match p, l with
  | [], _ => true
  | a :: p', b :: l' => byte_eqb a b && starts_with p' l'
  | _ :: _, [] => false
  end.

(* ---------- split at the first occurrence ---------- *)
Fixpoint break (sep : byte) (l : list byte) : option (list byte * list byte) :=
  match l with
  | [] => None
  | b :: t => if byte_eqb b sep then Some ([], t)
              else match break sep t with Some (a, r) => Some (b :: a, r) | None => None end
  end.
(* str::split(sep): all pieces, never empty ("" gives one empty piece) *)
Fixpoint split (sep : byte) (l : list byte) : list (list byte) :=
  match l with
  | [] => [[]]
  | b :: t => if byte_eqb b sep then [] :: split sep t
              else match split sep t with h :: r => (b :: h) :: r | [] => [[b]] end
  end.
(* str::splitn(n, sep): at most n pieces, the last one is the unsplit remainder *)
Fixpoint splitn (n : nat) (sep : byte) (l : list byte) : list (list byte) :=
  match n with
  | O => []
  | S O => [l]
  | S n' => match break sep l with Some (a, r) => a :: splitn n' sep r | None => [l] end
  end.

(* ---------- slicing s[k..]: panics unless k is a char boundary (str::is_char_boundary) ---------- *)
Definition is_char_boundary (k : nat) (l : list byte) : bool :=
  match k with
  | O => true
  | _ => if Nat.ltb k (length l) then negb (cont (nth k l x00)) else Nat.eqb k (length l)
  end.
Definition str_from (k : nat) (l : list byte) : option (list byte) :=      (* None = panic *)
  if is_char_boundary k l then Some (skipn k l) else None.

(* ---------- trim(): char::is_whitespace on the UTF-8 encoding ----------
   White_Space (Unicode, unchanged since 6.3): U+0009..000D, 0020, 0085, 00A0, 1680, 2000..200A, 2028, 2029,
   202F, 205F, 3000.  UTF-8: 09..0D 20 | C2 85, C2 A0 | E1 9A 80 | E2 80 80..8A, E2 80 A8, E2 80 A9, E2 80 AF |
   E2 81 9F | E3 80 80. *)
Definition ws1 (a : byte) : bool := let x := b2n a in ((9 <=? x) && (x <=? 13)) || (x =? 32).
Definition ws2 (a b : byte) : bool := (b2n a =? 194) && ((b2n b =? 133) || (b2n b =? 160)).
Definition ws3 (a b c : byte) : bool :=
  let x := b2n a in let y := b2n b in let z := b2n c in
  ((x =? 225) && (y =? 154) && (z =? 128))
  || ((x =? 226) && (y =? 128) && (((128 <=? z) && (z <=? 138)) || (z =? 168) || (z =? 169) || (z =? 175)))
  || ((x =? 226) && (y =? 129) && (z =? 159))
  || ((x =? 227) && (y =? 128) && (z =? 128)).
(* the string without its first char when that char is white space *)
Definition ws_first (l : list byte) : option (list byte) :=
  match l with
  | a :: t =>
    if ws1 a then Some t
    else match t with
         | b :: t2 =>
           if ws2 a b then Some t2
           else match t2 with c :: t3 => if ws3 a b c then Some t3 else None | [] => None end
         | [] => None
         end
  | [] => None
  end.
(* same on the reversed string (last char first, bytes reversed) *)
Definition ws_last_rev (r : list byte) : option (list byte) :=
  match r with
  | c :: t =>
    if ws1 c then Some t
    else match t with
         | b :: t2 =>
           if ws2 b c then Some t2
           else match t2 with a :: t3 => if ws3 a b c then Some t3 else None | [] => None end
         | [] => None
         end
  | [] => None
  end.
Fixpoint drop_while_some (f : list byte -> option (list byte)) (fuel : nat) (l : list byte) : list byte :=
  match fuel with
  | O => l
  | S k => match f l with Some r => drop_while_some f k r | None => l end
  end.
Definition trim_start (l : list byte) : list byte := drop_while_some ws_first (length l) l.
Definition trim_end (l : list byte) : list byte := rev (drop_while_some ws_last_rev (length l) (rev l)).
Definition trim (l : list byte) : list byte := trim_end (trim_start l).

(* ======================= lemmas ======================= *)
Lemma byte_eqb_neq a b : byte_eqb a b = false <-> a <> b.
Proof. rewrite <- byte_eqb_eq. destruct (byte_eqb a b); split; congruence. Qed.
Lemma byte_eqb_sym a b : byte_eqb a b = byte_eqb b a.
Proof. unfold byte_eqb. apply N.eqb_sym. Qed.

Lemma mem_byte_In c l : mem_byte c l = true <-> In c l.
Proof.
  induction l as [|b t IH]; cbn [mem_byte In]; [split; [discriminate|tauto]|].
  rewrite orb_true_iff, byte_eqb_eq, IH. tauto.
Qed.
Lemma mem_byte_app c x y : mem_byte c (x ++ y) = mem_byte c x || mem_byte c y.
Proof. induction x as [|b t IH]; cbn [app mem_byte]; [reflexivity|]. rewrite IH, orb_assoc. reflexivity. Qed.
Lemma mem_byte_count c l : mem_byte c l = false <-> count_byte c l = O.
Proof.
  induction l as [|b t IH]; cbn [mem_byte count_byte]; [tauto|].
  destruct (byte_eqb b c); cbn [orb]; [split; discriminate|exact IH].
Qed.
Lemma count_byte_app c x y : count_byte c (x ++ y) = (count_byte c x + count_byte c y)%nat.
Proof. induction x as [|b t IH]; cbn [app count_byte]; [reflexivity|]. destruct (byte_eqb b c); rewrite IH; reflexivity. Qed.

Lemma starts_with_app p r : starts_with p (p ++ r) = true.
Proof. induction p as [|a p IH]; cbn [app starts_with]; [reflexivity|]. rewrite byte_eqb_refl. exact IH. Qed.
Lemma starts_with_inv p : forall l, starts_with p l = true -> exists r, l = p ++ r.
Proof.
  induction p as [|a p IH]; intros l H; [exists l; reflexivity|].
  destruct l as [|b l]; cbn [starts_with] in H; [discriminate|]. apply andb_true_iff in H as [H1 H2].
  apply byte_eqb_eq in H1. subst b. destruct (IH l H2) as [r ->]. exists r. reflexivity.
Qed.
Lemma starts_with_skipn p l : starts_with p l = true -> l = p ++ skipn (length p) l.
Proof. intros H. destruct (starts_with_inv p l H) as [r ->]. rewrite skipn_app, skipn_all, Nat.sub_diag. reflexivity. Qed.

(* break *)
Lemma break_none sep l : break sep l = None <-> mem_byte sep l = false.
Proof.
  induction l as [|b t IH]; cbn [break mem_byte]; [tauto|].
  destruct (byte_eqb b sep); cbn [orb]; [split; discriminate|].
  destruct (break sep t) as [[a r]|]; [|tauto]. split; [discriminate|]. intros H. apply IH in H. discriminate.
Qed.
Lemma break_app sep a r : mem_byte sep a = false -> break sep (a ++ sep :: r) = Some (a, r).
Proof.
  induction a as [|b a IH]; cbn [app break mem_byte]; intros H.
  - rewrite byte_eqb_refl. reflexivity.
  - apply orb_false_iff in H as [H1 H2]. rewrite H1, (IH H2). reflexivity.
Qed.
Lemma break_some sep : forall l a r, break sep l = Some (a, r) -> l = a ++ sep :: r /\ mem_byte sep a = false.
Proof.
  induction l as [|b t IH]; intros a r H; cbn [break] in H; [discriminate|].
  destruct (byte_eqb b sep) eqn:E.
  - inversion H; subst. apply byte_eqb_eq in E. subst. split; reflexivity.
  - destruct (break sep t) as [[a' r']|] eqn:E2; [|discriminate]. inversion H; subst.
    destruct (IH a' r eq_refl) as [-> Hm]. split; [reflexivity|]. cbn [mem_byte]. rewrite E, Hm. reflexivity.
Qed.
Lemma break_mem sep l : mem_byte sep l = true -> exists a r, break sep l = Some (a, r).
Proof.
  intros H. destruct (break sep l) as [[a r]|] eqn:E; [eauto|]. apply break_none in E. congruence.
Qed.

(* split *)
Lemma split_nonempty sep l : split sep l <> [].
Proof.
  destruct l as [|b t]; cbn [split]; [discriminate|]. destruct (byte_eqb b sep); [discriminate|].
  destruct (split sep t); discriminate.
Qed.
Lemma split_nosep sep a : mem_byte sep a = false -> split sep a = [a].
Proof.
  induction a as [|b a IH]; cbn [split mem_byte]; intros H; [reflexivity|].
  apply orb_false_iff in H as [H1 H2]. rewrite H1, (IH H2). reflexivity.
Qed.
Lemma split_app sep a r : mem_byte sep a = false -> split sep (a ++ sep :: r) = a :: split sep r.
Proof.
  induction a as [|b a IH]; cbn [app split mem_byte]; intros H.
  - rewrite byte_eqb_refl. reflexivity.
  - apply orb_false_iff in H as [H1 H2]. rewrite H1, (IH H2). reflexivity.
Qed.
Lemma split_sep sep r : split sep (sep :: r) = [] :: split sep r.
Proof. cbn [split]. rewrite byte_eqb_refl. reflexivity. Qed.
Lemma split_break sep l :
  split sep l = match break sep l with Some (a, r) => a :: split sep r | None => [l] end.
Proof.
  destruct (break sep l) as [[a r]|] eqn:E.
  - apply break_some in E as [-> Hm]. apply split_app. exact Hm.
  - apply break_none in E. apply split_nosep. exact E.
Qed.
Lemma split_length sep l : length (split sep l) = S (count_byte sep l).
Proof.
  induction l as [|b t IH]; cbn [split count_byte]; [reflexivity|].
  destruct (byte_eqb b sep); cbn [length]; [rewrite IH; reflexivity|].
  destruct (split sep t) eqn:E; [exfalso; eapply split_nonempty; eassumption|]. cbn [length] in *. exact IH.
Qed.
Lemma split_pieces sep : forall l p, In p (split sep l) -> mem_byte sep p = false.
Proof.
  induction l as [|b t IH]; cbn [split]; intros p H.
  - destruct H as [<-|[]]. reflexivity.
  - destruct (byte_eqb b sep) eqn:E.
    + destruct H as [<-|H]; [reflexivity|apply IH; exact H].
    + destruct (split sep t) as [|h r] eqn:E2.
      * destruct H as [<-|[]]. cbn [mem_byte]. rewrite E. reflexivity.
      * destruct H as [<-|H]; [|apply IH; right; exact H].
        cbn [mem_byte]. rewrite E. apply IH. left. reflexivity.
Qed.

(* splitn *)
Lemma splitn_app n sep a r : mem_byte sep a = false ->
  splitn (S (S n)) sep (a ++ sep :: r) = a :: splitn (S n) sep r.
Proof. intros H. change (splitn (S (S n)) sep (a ++ sep :: r)) with
  (match break sep (a ++ sep :: r) with Some (a0, r0) => a0 :: splitn (S n) sep r0 | None => [a ++ sep :: r] end).
  rewrite (break_app sep a r H). reflexivity. Qed.
Lemma splitn_sep n sep r : splitn (S (S n)) sep (sep :: r) = [] :: splitn (S n) sep r.
Proof. apply (splitn_app n sep [] r). reflexivity. Qed.
Lemma splitn_nosep n sep a : mem_byte sep a = false -> splitn (S n) sep a = [a].
Proof.
  intros H. destruct n; [reflexivity|].
  change (splitn (S (S n)) sep a) with (match break sep a with Some (a0, r0) => a0 :: splitn (S n) sep r0 | None => [a] end).
  apply break_none in H. rewrite H. reflexivity.
Qed.
Lemma splitn2 sep l : splitn 2 sep l = match break sep l with Some (a, r) => [a; r] | None => [l] end.
Proof. reflexivity. Qed.

(* ---------- UTF-8 validity of the pieces around an ASCII delimiter ---------- *)
Lemma utf8_valid_first b t : utf8_valid (b :: t) = true -> cont b = false.
Proof.
  cbn [utf8_valid]. unfold cont, in_range. intros H.
  destruct (b2n b <? 128) eqn:E1.
  { apply N.ltb_lt in E1. apply andb_false_iff. left. apply N.leb_gt. exact E1. }
  destruct ((194 <=? b2n b) && (b2n b <=? 223)) eqn:E2.
  { apply andb_true_iff in E2 as [E2 _]. apply N.leb_le in E2. apply andb_false_iff. right. apply N.leb_gt. lia. }
  destruct ((224 <=? b2n b) && (b2n b <=? 239)) eqn:E3.
  { apply andb_true_iff in E3 as [E3 _]. apply N.leb_le in E3. apply andb_false_iff. right. apply N.leb_gt. lia. }
  destruct ((240 <=? b2n b) && (b2n b <=? 244)) eqn:E4; [|discriminate].
  apply andb_true_iff in E4 as [E4 _]. apply N.leb_le in E4. apply andb_false_iff. right. apply N.leb_gt. lia.
Qed.
Lemma cont_ascii b : b2n b < 128 -> cont b = false.
Proof. intros H. unfold cont, in_range. apply andb_false_iff. left. apply N.leb_gt. exact H. Qed.
Lemma in_range_ascii b lo hi : b2n b < 128 -> 128 <= lo -> in_range b lo hi = false.
Proof. intros H H2. unfold in_range. apply andb_false_iff. left. apply N.leb_gt. lia. Qed.

Lemma utf8_valid_sep sep r : b2n sep < 128 -> utf8_valid (sep :: r) = utf8_valid r.
Proof. intros H. cbn [utf8_valid]. apply N.ltb_lt in H. rewrite H. reflexivity. Qed.

Lemma utf8_valid_split sep : b2n sep < 128 -> forall a r,
  utf8_valid (a ++ sep :: r) = true -> utf8_valid a = true /\ utf8_valid r = true.
Proof.
  intros Hs a. induction a as [a IH] using (well_founded_induction (Wf_nat.well_founded_ltof _ (@length byte))).
  intros r H. destruct a as [|x t].
  - cbn [app] in H. rewrite utf8_valid_sep in H by exact Hs. split; [reflexivity|exact H].
  - cbn [app utf8_valid] in *.
    pose proof (cont_ascii sep Hs) as Hc.
    pose proof (fun lo hi => in_range_ascii sep lo hi Hs) as Hr.
    destruct (b2n x <? 128).
    { apply IH; [unfold ltof; cbn; lia|exact H]. }
    destruct (in_range x 194 223).
    { destruct t as [|b t']; cbn [app] in H.
      - rewrite Hc in H. discriminate.
      - apply andb_true_iff in H as [H1 H2]. rewrite H1. cbn [andb]. apply IH; [unfold ltof; cbn; lia|exact H2]. }
    destruct (in_range x 224 239).
    { destruct t as [|b [|c t']]; cbn [app] in H.
      - destruct r as [|c r]; [discriminate|].
        apply andb_true_iff in H as [H _]. apply andb_true_iff in H as [H _].
        destruct (b2n x =? 224); [rewrite Hr in H by lia; discriminate|].
        destruct (b2n x =? 237); [rewrite Hr in H by lia; discriminate|]. rewrite Hc in H. discriminate.
      - apply andb_true_iff in H as [H _]. apply andb_true_iff in H as [_ H]. rewrite Hc in H. discriminate.
      - apply andb_true_iff in H as [H1 H2]. rewrite H1. cbn [andb]. apply IH; [unfold ltof; cbn; lia|exact H2]. }
    destruct (in_range x 240 244); [|discriminate].
    destruct t as [|b [|c [|d t']]]; cbn [app] in H.
    + destruct r as [|c [|d r]]; try discriminate.
      apply andb_true_iff in H as [H _]. apply andb_true_iff in H as [H _]. apply andb_true_iff in H as [H _].
      destruct (b2n x =? 240); [rewrite Hr in H by lia; discriminate|].
      destruct (b2n x =? 244); [rewrite Hr in H by lia; discriminate|]. rewrite Hc in H. discriminate.
    + destruct r as [|d r]; [discriminate|].
      apply andb_true_iff in H as [H _]. apply andb_true_iff in H as [H _]. apply andb_true_iff in H as [_ H].
      rewrite Hc in H. discriminate.
    + apply andb_true_iff in H as [H _]. apply andb_true_iff in H as [_ H]. rewrite Hc in H. discriminate.
    + apply andb_true_iff in H as [H1 H2]. rewrite H1. cbn [andb]. apply IH; [unfold ltof; cbn; lia|exact H2].
Qed.

Lemma utf8_valid_cons_ascii b t : b2n b < 128 -> utf8_valid t = true -> utf8_valid (b :: t) = true.
Proof. intros H Ht. rewrite utf8_valid_sep by exact H. exact Ht. Qed.

(* slicing after an ASCII prefix of a valid string is always at a char boundary *)
Lemma str_from_2 a b t : utf8_valid t = true -> str_from 2 (a :: b :: t) = Some t.
Proof.
  intros H. unfold str_from, is_char_boundary.
  destruct t as [|c t]; [reflexivity|].
  cbn [length nth skipn]. change (Nat.ltb 2 (S (S (S (length t))))) with true. cbn iota.
  rewrite (utf8_valid_first c t H). reflexivity.
Qed.

(* ---------- trim on a core that neither starts nor ends with white space ---------- *)
Lemma drop_while_none f fuel l : f l = None -> drop_while_some f fuel l = l.
Proof. intros H. destruct fuel; cbn [drop_while_some]; [reflexivity|]. rewrite H. reflexivity. Qed.
Lemma drop_while_ws1 f : (forall a t, ws1 a = true -> f (a :: t) = Some t) ->
  forall pad core fuel, forallb ws1 pad = true -> f core = None -> (length pad <= fuel)%nat ->
  drop_while_some f fuel (pad ++ core) = core.
Proof.
  intros Hf pad core. induction pad as [|a pad IH]; intros fuel Hp Hc Hl.
  - apply drop_while_none. exact Hc.
  - cbn [forallb] in Hp. apply andb_true_iff in Hp as [H1 H2]. cbn [length] in Hl.
    destruct fuel as [|fuel]; [lia|]. cbn [app drop_while_some]. rewrite (Hf a _ H1). apply IH; [exact H2|exact Hc|lia].
Qed.
Lemma ws_first_ws1 a t : ws1 a = true -> ws_first (a :: t) = Some t.
Proof. intros H. cbn [ws_first]. rewrite H. reflexivity. Qed.
Lemma ws_last_ws1 a t : ws1 a = true -> ws_last_rev (a :: t) = Some t.
Proof. intros H. cbn [ws_last_rev]. rewrite H. reflexivity. Qed.

(* a byte that can neither start nor end a white-space char: everything below 128 except 09..0D and 20 *)
Definition plain_ascii (b : byte) : bool := (b2n b <? 128) && negb (ws1 b).
Lemma ws_first_plain b t : plain_ascii b = true -> ws_first (b :: t) = None.
Proof.
  unfold plain_ascii. intros H. apply andb_true_iff in H as [H1 H2]. apply negb_true_iff in H2. apply N.ltb_lt in H1.
  cbn [ws_first]. rewrite H2. destruct t as [|c t]; [reflexivity|].
  assert (ws2 b c = false) as ->.
  { unfold ws2. replace (b2n b =? 194) with false by (symmetry; apply N.eqb_neq; lia). reflexivity. }
  destruct t as [|d t]; [reflexivity|].
  assert (ws3 b c d = false) as ->; [|reflexivity].
  unfold ws3. replace (b2n b =? 225) with false by (symmetry; apply N.eqb_neq; lia).
  replace (b2n b =? 226) with false by (symmetry; apply N.eqb_neq; lia).
  replace (b2n b =? 227) with false by (symmetry; apply N.eqb_neq; lia). reflexivity.
Qed.
Lemma ws_last_plain b t : plain_ascii b = true -> ws_last_rev (b :: t) = None.
Proof.
  unfold plain_ascii. intros H. apply andb_true_iff in H as [H1 H2]. apply negb_true_iff in H2. apply N.ltb_lt in H1.
  cbn [ws_last_rev]. rewrite H2. destruct t as [|c t]; [reflexivity|].
  assert (ws2 c b = false) as ->.
  { unfold ws2. replace (b2n b =? 133) with false by (symmetry; apply N.eqb_neq; lia).
    replace (b2n b =? 160) with false by (symmetry; apply N.eqb_neq; lia). apply andb_false_r. }
  destruct t as [|d t]; [reflexivity|].
  assert (ws3 d c b = false) as ->; [|reflexivity].
  unfold ws3. replace (b2n b =? 128) with false by (symmetry; apply N.eqb_neq; lia).
  replace (128 <=? b2n b) with false by (symmetry; apply N.leb_gt; lia).
  replace (b2n b =? 168) with false by (symmetry; apply N.eqb_neq; lia).
  replace (b2n b =? 169) with false by (symmetry; apply N.eqb_neq; lia).
  replace (b2n b =? 175) with false by (symmetry; apply N.eqb_neq; lia).
  replace (b2n b =? 159) with false by (symmetry; apply N.eqb_neq; lia).
  cbn [andb orb]. rewrite !andb_false_r. reflexivity.
Qed.

(* trim removes ASCII white-space padding around a core delimited by plain ASCII bytes (e.g. a decimal number) *)
Theorem trim_padded p1 p2 b mid e :
  forallb ws1 p1 = true -> forallb ws1 p2 = true -> plain_ascii b = true -> plain_ascii e = true ->
  trim (p1 ++ (b :: mid ++ [e]) ++ p2) = b :: mid ++ [e].
Proof.
  intros H1 H2 Hb He. unfold trim, trim_start.
  rewrite (drop_while_ws1 ws_first ws_first_ws1 p1 ((b :: mid ++ [e]) ++ p2)); [|exact H1| |rewrite app_length; lia].
  2:{ cbn [app]. apply ws_first_plain. exact Hb. }
  unfold trim_end. rewrite rev_app_distr.
  rewrite (drop_while_ws1 ws_last_rev ws_last_ws1 (rev p2) (rev (b :: mid ++ [e]))).
  - apply rev_involutive.
  - rewrite forallb_forall in *. intros x Hx. apply H2. apply in_rev. exact Hx.
  - change (b :: mid ++ [e]) with ((b :: mid) ++ [e]). rewrite rev_app_distr. cbn [rev app]. apply ws_last_plain. exact He.
  - rewrite app_length, rev_length. lia.
Qed.
Theorem trim_single p1 p2 b :
  forallb ws1 p1 = true -> forallb ws1 p2 = true -> plain_ascii b = true -> trim (p1 ++ [b] ++ p2) = [b].
Proof.
  intros H1 H2 Hb. unfold trim, trim_start.
  rewrite (drop_while_ws1 ws_first ws_first_ws1 p1 ([b] ++ p2)); [|exact H1| |rewrite app_length; lia].
  2:{ cbn [app]. apply ws_first_plain. exact Hb. }
  unfold trim_end. rewrite rev_app_distr.
  rewrite (drop_while_ws1 ws_last_rev ws_last_ws1 (rev p2) (rev [b])).
  - reflexivity.
  - rewrite forallb_forall in *. intros x Hx. apply H2. apply in_rev. exact Hx.
  - cbn [rev app]. apply ws_last_plain. exact Hb.
  - rewrite app_length, rev_length. lia.
Qed.
