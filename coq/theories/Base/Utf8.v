(* UTF-8 well-formedness exactly as core::str::from_utf8 checks it (Unicode table 3-7:
   no overlong forms, no surrogates, nothing above U+10FFFF). *)
From BP7 Require Import Base.Prelude.

Definition in_range (b : byte) (lo hi : N) : bool := (lo <=? b2n b) && (b2n b <=? hi).
Definition cont (b : byte) : bool := in_range b 128 191.

Fixpoint utf8_valid (l : list byte) : bool :=
  match l with
  | [] => true
  | a :: t =>
    if b2n a <? 128 then utf8_valid t
    else if in_range a 194 223 then
      match t with b :: t' => cont b && utf8_valid t' | _ => false end
    else if in_range a 224 239 then
      match t with
      | b :: c :: t' =>
          (if b2n a =? 224 then in_range b 160 191
           else if b2n a =? 237 then in_range b 128 159
           else cont b) && cont c && utf8_valid t'
      | _ => false
      end
    else if in_range a 240 244 then
      match t with
      | b :: c :: d :: t' =>
          (if b2n a =? 240 then in_range b 144 191
           else if b2n a =? 244 then in_range b 128 143
           else cont b) && cont c && cont d && utf8_valid t'
      | _ => false
      end
    else false
  end.

Lemma utf8_valid_app x y : utf8_valid x = true -> utf8_valid y = true -> utf8_valid (x ++ y) = true.
Proof.
  revert y. induction x as [x IH] using (well_founded_induction (Wf_nat.well_founded_ltof _ (@length byte))).
  intros y Hx Hy. destruct x as [|a t]; [exact Hy|].
  cbn [app utf8_valid] in *.
  destruct (b2n a <? 128).
  - apply IH; [unfold ltof; cbn; lia|assumption|assumption].
  - destruct (in_range a 194 223).
    + destruct t as [|b t']; [discriminate|]. cbn [app]. apply andb_true_iff in Hx as [H1 H2]. rewrite H1. cbn [andb].
      apply IH; [unfold ltof; cbn; lia|assumption|assumption].
    + destruct (in_range a 224 239).
      * destruct t as [|b [|c t']]; try discriminate. cbn [app].
        apply andb_true_iff in Hx as [H1 H2]. rewrite H1. cbn [andb].
        apply IH; [unfold ltof; cbn; lia|assumption|assumption].
      * destruct (in_range a 240 244); [|discriminate].
        destruct t as [|b [|c [|d t']]]; try discriminate. cbn [app].
        apply andb_true_iff in Hx as [H1 H2]. rewrite H1. cbn [andb].
        apply IH; [unfold ltof; cbn; lia|assumption|assumption].
Qed.

Definition ascii_only (l : list byte) : bool := forallb (fun b => b2n b <? 128) l.
Lemma ascii_utf8 l : ascii_only l = true -> utf8_valid l = true.
Proof.
  induction l as [|a t IH]; [reflexivity|]. cbn [ascii_only forallb utf8_valid].
  intros H. apply andb_true_iff in H as [H1 H2]. rewrite H1. apply IH. exact H2.
Qed.
