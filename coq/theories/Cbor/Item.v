(* CBOR data items (RFC 8949) and the generic shortest-form serializer `ser` — the specification
   side's writer.  `Raw` lets fault injectors emit arbitrary bytes (non-shortest heads etc.). *)
From BP7 Require Import Base.Prelude.

(* initial byte + argument, shortest form (RFC 8949 section 3 / 4.2.1) *)
Definition head (major : N) (n : N) : list byte :=
  let m := major * 32 in
  if n <? 24 then [n2b (m + n)]
  else if n <? 256 then n2b (m + 24) :: be_enc 1 n
  else if n <? 65536 then n2b (m + 25) :: be_enc 2 n
  else if n <? 4294967296 then n2b (m + 26) :: be_enc 4 n
  else n2b (m + 27) :: be_enc 8 n.

Inductive item :=
  | UInt (n : N)
  | NInt (n : N)                      (* the value -1 - n *)
  | BStr (b : list byte)
  | TStr (b : list byte)
  | Arr (l : list item)
  | ArrIndef (l : list item)
  | Map (l : list (item * item))
  | Tag (t : N) (i : item)
  | Bool (b : bool)
  | Null
  | Undef
  | F16 (raw : N) | F32 (raw : N) | F64 (raw : N)
  | Raw (b : list byte).

Fixpoint ser (i : item) : list byte :=
  match i with
  | UInt n => head 0 n
  | NInt n => head 1 n
  | BStr b => head 2 (Nlen b) ++ b
  | TStr b => head 3 (Nlen b) ++ b
  | Arr l => head 4 (Nlen l) ++ concat (map ser l)
  | ArrIndef l => n2b 159 :: concat (map ser l) ++ [n2b 255]
  | Map l => head 5 (Nlen l) ++ concat (map (fun kv => ser (fst kv) ++ ser (snd kv)) l)
  | Tag t i => head 6 t ++ ser i
  | Bool false => [n2b 244]
  | Bool true => [n2b 245]
  | Null => [n2b 246]
  | Undef => [n2b 247]
  | F16 r => n2b 249 :: be_enc 2 r
  | F32 r => n2b 250 :: be_enc 4 r
  | F64 r => n2b 251 :: be_enc 8 r
  | Raw b => b
  end.

(* RFC 8949 Appendix A anchors for the writer *)
Example ser_ex_0 : ser (UInt 0) = [n2b 0]. Proof. reflexivity. Qed.
Example ser_ex_23 : ser (UInt 23) = [n2b 23]. Proof. reflexivity. Qed.
Example ser_ex_24 : ser (UInt 24) = map n2b [24; 24]. Proof. vm_compute. reflexivity. Qed.
Example ser_ex_100 : ser (UInt 100) = map n2b [24; 100]. Proof. vm_compute. reflexivity. Qed.
Example ser_ex_1000 : ser (UInt 1000) = map n2b [25; 3; 232]. Proof. vm_compute. reflexivity. Qed.
Example ser_ex_1000000 : ser (UInt 1000000) = map n2b [26; 0; 15; 66; 64]. Proof. vm_compute. reflexivity. Qed.
Example ser_ex_1e12 : ser (UInt 1000000000000) = map n2b [27; 0; 0; 0; 232; 212; 165; 16; 0]. Proof. vm_compute. reflexivity. Qed.
Example ser_ex_max : ser (UInt 18446744073709551615) = map n2b [27; 255; 255; 255; 255; 255; 255; 255; 255]. Proof. vm_compute. reflexivity. Qed.
Example ser_ex_neg : ser (NInt 999) = map n2b [57; 3; 231]. Proof. vm_compute. reflexivity. Qed.  (* -1000 *)
Example ser_ex_bstr : ser (BStr (map n2b [1;2;3;4])) = map n2b [68; 1; 2; 3; 4]. Proof. vm_compute. reflexivity. Qed.
Example ser_ex_tstr : ser (TStr (map n2b [73; 69; 84; 70])) = map n2b [100; 73; 69; 84; 70]. Proof. vm_compute. reflexivity. Qed. (* "IETF" *)
Example ser_ex_arr : ser (Arr [UInt 1; Arr [UInt 2; UInt 3]; Arr [UInt 4; UInt 5]]) = map n2b [131; 1; 130; 2; 3; 130; 4; 5].
Proof. vm_compute. reflexivity. Qed.
Example ser_ex_indef : ser (ArrIndef [UInt 1; Arr [UInt 2; UInt 3]]) = map n2b [159; 1; 130; 2; 3; 255]. Proof. vm_compute. reflexivity. Qed.
Example ser_ex_25 : ser (Arr (map UInt [1;2;3;4;5;6;7;8;9;10;11;12;13;14;15;16;17;18;19;20;21;22;23;24;25]))
  = map n2b [152; 25; 1;2;3;4;5;6;7;8;9;10;11;12;13;14;15;16;17;18;19;20;21;22;23;24;24;24;25].
Proof. vm_compute. reflexivity. Qed.
