(* Stream-parser model of serde_cbor 0.11.2 `de.rs` on `SliceRead` (features: std, no "tags"), as
   bp7 uses it through serde visitors.  The parser returns the remaining input and the remaining
   recursion depth ON ERROR AS WELL AS ON SUCCESS, because bp7 swallows one deserializer error
   (eid.rs: `seq.next_element().unwrap_or_default()`), after which parsing continues wherever
   the failed sub-parse stopped.  Definitions only. *)
From BP7 Require Import Base.Prelude Base.Utf8.

Record st := mkst { inp : list byte; depth : N }.        (* remaining input, remaining_depth *)
Definition set_inp (s : st) (l : list byte) : st := mkst l (depth s).

Inductive seq_access := Definite (remaining : N) | Indefinite.
Definition size_hint (a : seq_access) : option N :=
  match a with Definite n => Some n | Indefinite => None end.

(* what a serde Visitor accepts; v_seq is the body of visit_seq *)
Record visitor (A : Type) := {
  v_uint : N -> res A;                 (* visit_u8/u16/u32/u64 *)
  v_nint : res A;                      (* visit_i8..i128 with a negative value *)
  v_bytes : list byte -> res A;
  v_text : list byte -> res A;         (* already UTF-8 validated *)
  v_bool : bool -> res A;
  v_unit : res A;
  v_float : res A;
  v_map : res A;                       (* visit_map: no bp7 visitor implements it *)
  v_seq : option (seq_access -> st -> res A * seq_access * st)
}.
Arguments v_uint {A}. Arguments v_nint {A}. Arguments v_bytes {A}. Arguments v_text {A}.
Arguments v_bool {A}. Arguments v_unit {A}. Arguments v_float {A}. Arguments v_map {A}. Arguments v_seq {A}.

(* parse_u8 / read_into: nothing is consumed when the input is too short *)
Definition arg_width (ai : N) : nat :=
  if ai =? 24 then 1%nat else if ai =? 25 then 2%nat else if ai =? 26 then 4%nat else 8%nat.
Definition read_arg (ai : N) (s : st) : res N * st :=
  match take (arg_width ai) (inp s) with
  | Some (x, r) => (Ok (be_dec x 0), set_inp s r)
  | None => (Err EEof, s)
  end.
Definition arg_of (ai : N) (s1 : st) : res N * st :=
  if ai <? 24 then (Ok ai, s1) else if ai <? 28 then read_arg ai s1 else (Err EUnassigned, s1).

(* recursion_checked: decrement first; at 0 fail WITHOUT restoring; restore after the callee on both paths *)
Definition recursion_checked {A} (f : st -> res A * st) (s : st) : res A * st :=
  let d := depth s - 1 in
  let s1 := mkst (inp s) d in
  if d =? 0 then (Err EDepth, s1)
  else let '(r, s2) := f s1 in (r, mkst (inp s2) (depth s2 + 1)).

Definition parse_array {A} (v : visitor A) (len : N) (s : st) : res A * st :=
  recursion_checked (fun s =>
    match v_seq v with
    | None => (Err EType, s)
    | Some body =>
      let '(r, acc, s') := body (Definite len) s in
      match r with
      | Ok a => match acc with Definite 0 => (Ok a, s') | _ => (Err ETrailing, s') end
      | Err e => (Err e, s')
      | Panic p => (Panic p, s')
      end
    end) s.

Definition parse_indef_array {A} (v : visitor A) (s : st) : res A * st :=
  recursion_checked (fun s =>
    match v_seq v with
    | None => (Err EType, s)
    | Some body =>
      let '(r, acc, s') := body Indefinite s in
      match r with
      | Ok a => match inp s' with
                | [] => (Err EEof, s')
                | b :: t => if b2n b =? 255 then (Ok a, set_inp s' t) else (Err ETrailing, set_inp s' t)
                end
      | Err e => (Err e, s')
      | Panic p => (Panic p, s')
      end
    end) s.

(* chunk loop of parse_indefinite_bytes / parse_indefinite_str (major = 2 or 3): returns the
   concatenated buffer; chunks must be definite strings of the same major type *)
Fixpoint chunks (major : N) (fuel : nat) (buf : list byte) (s : st) : res (list byte) * st :=
  match fuel with
  | O => (Err EFuel, s)
  | S f =>
    match inp s with
    | [] => (Err EEof, s)
    | b :: r =>
      let s1 := set_inp s r in
      if b2n b =? 255 then (Ok buf, s1)
      else if (b2n b / 32 =? major) && (b2n b mod 32 <? 28) then
        match arg_of (b2n b mod 32) s1 with
        | (Ok n, s2) => match takeN n (inp s2) with
                        | Some (x, r') => chunks major f (buf ++ x) (set_inp s2 r')
                        | None => (Err EEof, s2)
                        end
        | (Err e, s2) => (Err e, s2)
        | (Panic p, s2) => (Panic p, s2)
        end
      else (Err EUnexpected, s1)
    end
  end.

Fixpoint parse_value {A} (v : visitor A) (fuel : nat) (s : st) {struct fuel} : res A * st :=
  match fuel with O => (Err EFuel, s) | S fuel' =>
  match inp s with
  | [] => (Err EEof, s)
  | b :: r =>
    let s1 := set_inp s r in
    let mt := b2n b / 32 in
    let ai := b2n b mod 32 in
    if mt =? 0 then
      match arg_of ai s1 with (Ok n, s2) => (v_uint v n, s2) | (Err e, s2) => (Err e, s2) | (Panic p, s2) => (Panic p, s2) end
    else if mt =? 1 then
      match arg_of ai s1 with (Ok _, s2) => (v_nint v, s2) | (Err e, s2) => (Err e, s2) | (Panic p, s2) => (Panic p, s2) end
    else if mt =? 2 then
      if ai =? 31 then
        match chunks 2 fuel' [] s1 with
        | (Ok buf, s2) => (v_bytes v buf, s2)
        | (Err e, s2) => (Err e, s2) | (Panic p, s2) => (Panic p, s2)
        end
      else match arg_of ai s1 with
           | (Ok n, s2) => match takeN n (inp s2) with
                           | Some (x, r') => (v_bytes v x, set_inp s2 r')
                           | None => (Err EEof, s2) end
           | (Err e, s2) => (Err e, s2) | (Panic p, s2) => (Panic p, s2) end
    else if mt =? 3 then
      if ai =? 31 then
        match chunks 3 fuel' [] s1 with
        | (Ok buf, s2) => if utf8_valid buf then (v_text v buf, s2) else (Err EUtf8, s2)
        | (Err e, s2) => (Err e, s2) | (Panic p, s2) => (Panic p, s2)
        end
      else match arg_of ai s1 with
           | (Ok n, s2) => match takeN n (inp s2) with
                           | Some (x, r') => if utf8_valid x then (v_text v x, set_inp s2 r') else (Err EUtf8, set_inp s2 r')
                           | None => (Err EEof, s2) end
           | (Err e, s2) => (Err e, s2) | (Panic p, s2) => (Panic p, s2) end
    else if mt =? 4 then
      if ai =? 31 then parse_indef_array v s1
      else match arg_of ai s1 with (Ok n, s2) => parse_array v n s2 | (Err e, s2) => (Err e, s2) | (Panic p, s2) => (Panic p, s2) end
    else if mt =? 5 then
      if ai =? 31 then recursion_checked (fun s => (v_map v, s)) s1
      else match arg_of ai s1 with
           | (Ok n, s2) => recursion_checked (fun s => (v_map v, s)) s2
           | (Err e, s2) => (Err e, s2) | (Panic p, s2) => (Panic p, s2) end
    else if mt =? 6 then
      (* tags are transparent (feature "tags" is off) and cost one unit of depth *)
      match arg_of ai s1 with
      | (Ok _, s2) => recursion_checked (parse_value v fuel') s2
      | (Err e, s2) => (Err e, s2) | (Panic p, s2) => (Panic p, s2) end
    else (* major 7 *)
      if ai =? 20 then (v_bool v false, s1) else if ai =? 21 then (v_bool v true, s1)
      else if (ai =? 22) || (ai =? 23) then (v_unit v, s1)
      else if ai =? 25 then match take 2 (inp s1) with Some (_, r') => (v_float v, set_inp s1 r') | None => (Err EEof, s1) end
      else if ai =? 26 then match take 4 (inp s1) with Some (_, r') => (v_float v, set_inp s1 r') | None => (Err EEof, s1) end
      else if ai =? 27 then match take 8 (inp s1) with Some (_, r') => (v_float v, set_inp s1 r') | None => (Err EEof, s1) end
      else if ai =? 31 then (Err EUnexpected, s1)
      else (Err EUnassigned, s1)
  end end.

(* SeqAccess::next_element_seed for the definite and the indefinite access *)
Definition next_element {A} (p : st -> res A * st) (acc : seq_access) (s : st) : res (option A) * seq_access * st :=
  match acc with
  | Definite n =>
    if n =? 0 then (Ok None, acc, s)
    else let '(r, s') := p s in (rmap Some r, Definite (n - 1), s')
  | Indefinite =>
    match inp s with
    | [] => (Err EEof, acc, s)
    | b :: _ => if b2n b =? 255 then (Ok None, acc, s)
                else let '(r, s') := p s in (rmap Some r, acc, s')
    end
  end.

(* `while let Some(x) = seq.next_element()? { v.push(x) }` *)
Fixpoint seq_loop {A} (p : st -> res A * st) (fuel : nat) (acc : seq_access) (s : st)
  : res (list A) * seq_access * st :=
  match fuel with
  | O => (Err EFuel, acc, s)
  | S f =>
    let '(r, acc, s) := next_element p acc s in
    match r with
    | Ok None => (Ok [], acc, s)
    | Ok (Some a) =>
      let '(r', acc, s) := seq_loop p f acc s in (rmap (cons a) r', acc, s)
    | Err e => (Err e, acc, s)
    | Panic q => (Panic q, acc, s)
    end
  end.

(* `seq.next_element()?.ok_or_else(|| invalid_length(..))?` then continue with k *)
Definition field {A B} (p : st -> res A * st) (acc : seq_access) (s : st)
  (k : A -> seq_access -> st -> res B * seq_access * st) : res B * seq_access * st :=
  let '(r, acc, s) := next_element p acc s in
  match r with
  | Ok (Some a) => k a acc s
  | Ok None => (Err ELength, acc, s)
  | Err e => (Err e, acc, s)
  | Panic q => (Panic q, acc, s)
  end.

(* ---------- primitive visitors (serde / serde_bytes impls) ---------- *)
Definition vis_reject {A} : visitor A :=
  {| v_uint := fun _ => Err EType; v_nint := Err EType; v_bytes := fun _ => Err EType; v_text := fun _ => Err EType;
     v_bool := fun _ => Err EType; v_unit := Err EType; v_float := Err EType; v_map := Err EType; v_seq := None |}.
Definition vis_seq {A} (body : seq_access -> st -> res A * seq_access * st) : visitor A :=
  {| v_uint := fun _ => Err EType; v_nint := Err EType; v_bytes := fun _ => Err EType; v_text := fun _ => Err EType;
     v_bool := fun _ => Err EType; v_unit := Err EType; v_float := Err EType; v_map := Err EType; v_seq := Some body |}.
(* u8/u32/u64: any non-negative integer below the bound, of any encoded width *)
Definition vis_uint (bound : N) : visitor N :=
  {| v_uint := fun n => if n <? bound then Ok n else Err EValue; v_nint := Err EValue; v_bytes := fun _ => Err EType;
     v_text := fun _ => Err EType; v_bool := fun _ => Err EType; v_unit := Err EType; v_float := Err EType;
     v_map := Err EType; v_seq := None |}.
Definition vis_bool : visitor bool :=
  {| v_uint := fun _ => Err EType; v_nint := Err EType; v_bytes := fun _ => Err EType; v_text := fun _ => Err EType;
     v_bool := fun b => Ok b; v_unit := Err EType; v_float := Err EType; v_map := Err EType; v_seq := None |}.
(* String: text, or a byte string that is valid UTF-8 *)
Definition vis_string : visitor (list byte) :=
  {| v_uint := fun _ => Err EType; v_nint := Err EType;
     v_bytes := fun x => if utf8_valid x then Ok x else Err EValue;
     v_text := fun x => Ok x; v_bool := fun _ => Err EType; v_unit := Err EType; v_float := Err EType;
     v_map := Err EType; v_seq := None |}.
Definition u8_bound : N := 256.
Definition u32_bound : N := 4294967296.
(* serde_bytes::ByteBuf: byte string, text, or a sequence of u8 *)
Definition vis_bytebuf (fuel : nat) : visitor (list byte) :=
  {| v_uint := fun _ => Err EType; v_nint := Err EType;
     v_bytes := fun x => Ok x; v_text := fun x => Ok x;
     v_bool := fun _ => Err EType; v_unit := Err EType; v_float := Err EType; v_map := Err EType;
     v_seq := Some (fun acc s =>
                let '(r, acc, s) := seq_loop (parse_value (vis_uint u8_bound) fuel) fuel acc s in
                (rmap (map n2b) r, acc, s)) |}.

(* serde_cbor::from_slice: fresh deserializer (depth 128), then `end()` *)
Definition from_slice {A} (p : nat -> st -> res A * st) (bs : list byte) : res A :=
  let fuel := S (length bs) in
  let '(r, s) := p fuel (mkst bs 128) in
  match r with
  | Ok a => match inp s with [] => Ok a | _ => Err ETrailing end
  | Err e => Err e
  | Panic q => Panic q
  end.
