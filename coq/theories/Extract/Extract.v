From Coq Require Import ExtrOcamlBasic.
From BP7 Require Import Base.Prelude Run.Main.
Extraction Language OCaml.
(* stable names for the two conversions the OCaml driver needs *)
Definition byte_of_N (n : N) : option byte := Byte.of_N n.
Definition byte_to_N (b : byte) : N := Byte.to_N b.
Extraction "model.ml" run_line byte_of_N byte_to_N.
