From Coq Require Import ExtrOcamlBasic.
From BP7 Require Import Base.Prelude Run.Main.
Extraction Language OCaml.
Extraction "model.ml" run_line Byte.of_N Byte.to_N.
