(* Model of src/administrative_record.rs: the hand-written Serialize / Deserialize impls of
   AdministrativeRecord, StatusReport and BundleStatusItem as they execute on serde_cbor (encoders:
   byte level, element counts exactly as passed to serialize_seq; decoders: serde visitors on the stream
   parser of Cbor/SerdeDe.v, including the two that branch on `seq.size_hint()`), to_payload,
   new_status_report and new_status_report_bundle (with PrimaryBlockBuilder::build, BundleBuilder::build,
   CreationTimestamp::now on the repaired one-mutex generator, dtn_time_now through the clock hook).
   Definitions only; proofs in Proofs/AdminProofs.v, statements in Props/C12.v.

   Field names carry a prefix (si_ / sr_) so that `src`, `reason`, `time`, `items` stay free as binder
   names in statements. *)
From BP7 Require Import Base.Prelude Base.Utf8 Gen.Consts Cbor.Item Cbor.SerdeDe.
From BP7 Require Import Model.Types Model.Encode Model.Decode Model.Wf Model.Validate Model.DtnTime Model.Ops.

(* administrative_record.rs:144-149 BundleStatusItem { asserted: bool, time: DtnTime, status_requested: bool } *)
Record status_item := mk_item { si_asserted : bool; si_time : N; si_requested : bool }.

(* administrative_record.rs:256-264 StatusReport; `timestamp: CreationTimestamp(time, seq)` is flattened *)
Record status_report := mk_sr {
  sr_items : list status_item;       (* status_information: Vec<BundleStatusItem> *)
  sr_reason : N;                     (* report_reason: u32 *)
  sr_src : eid;                      (* source_node *)
  sr_time : N; sr_seq : N;           (* timestamp *)
  sr_frag_off : N; sr_frag_len : N }.

(* administrative_record.rs:20-25 *)
Inductive admin_record :=
  | BundleStatusReport (sr : status_report)
  | UnknownRecord (code : N) (data : list byte)
  | Mismatched (code : N) (data : list byte).

(* ------------------------------------------------------------------------------------------- *)
(* Serialize                                                                                     *)
(* ------------------------------------------------------------------------------------------- *)

(* serde_cbor serialize_bool: 0xf5 / 0xf4 *)
Definition enc_bool (b : bool) : list byte := [n2b (if b then 245 else 244)].

(* administrative_record.rs:151-170: 2 elements iff asserted && status_requested *)
Definition item_has_time (i : status_item) : bool := si_asserted i && si_requested i.
Definition enc_status_item (i : status_item) : list byte :=
  if item_has_time i then enc_arr 2 ++ enc_bool (si_asserted i) ++ enc_uint (si_time i)
  else enc_arr 1 ++ enc_bool (si_asserted i).

(* Vec<BundleStatusItem>: serialize_seq(Some(len)), every element *)
Definition enc_items (l : list status_item) : list byte :=
  enc_arr (Nlen l) ++ concat (map enc_status_item l).

(* administrative_record.rs:281-299: 6 elements iff frag_len != 0, else 4 *)
Definition report_num_elems (sr : status_report) : N := if sr_frag_len sr =? 0 then 4 else 6.
Definition enc_status_report (sr : status_report) : list byte :=
  enc_arr (report_num_elems sr) ++
  enc_items (sr_items sr) ++ enc_uint (sr_reason sr) ++ enc_eid (sr_src sr) ++
  (enc_arr 2 ++ enc_uint (sr_time sr) ++ enc_uint (sr_seq sr)) ++
  (if 4 <? report_num_elems sr then enc_uint (sr_frag_off sr) ++ enc_uint (sr_frag_len sr) else []).

(* administrative_record.rs:27-50: always 2 elements; Unknown and Mismatched alike *)
Definition enc_admin_record (r : admin_record) : list byte :=
  enc_arr 2 ++
  match r with
  | BundleStatusReport sr => enc_uint BUNDLE_STATUS_REPORT_TYPE_CODE ++ enc_status_report sr
  | UnknownRecord code data => enc_uint code ++ enc_bytes data
  | Mismatched code data => enc_uint code ++ enc_bytes data
  end.

(* ------------------------------------------------------------------------------------------- *)
(* Deserialize                                                                                   *)
(* ------------------------------------------------------------------------------------------- *)

Definition p_bool (fuel : nat) := parse_value vis_bool fuel.
Definition hint_is (acc : seq_access) (n : N) : bool :=
  match size_hint acc with Some k => k =? n | None => false end.

(* administrative_record.rs:171-213: the time is read iff exactly one element remains *)
Definition status_item_body (fuel : nat) (acc : seq_access) (s : st) : res status_item * seq_access * st :=
  field (p_bool fuel) acc s (fun a acc s =>
    if hint_is acc 1 then
      field (p_u64 fuel) acc s (fun t acc s => (Ok (mk_item a t true), acc, s))
    else (Ok (mk_item a 0 false), acc, s)).
Definition p_status_item (fuel : nat) := parse_value (vis_seq (status_item_body fuel)) fuel.

(* serde's VecVisitor: visit_seq only; `while let Some(v) = seq.next_element()? { values.push(v) }` *)
Definition items_body (fuel : nat) (acc : seq_access) (s : st) : res (list status_item) * seq_access * st :=
  seq_loop (p_status_item fuel) fuel acc s.
Definition p_items (fuel : nat) := parse_value (vis_seq (items_body fuel)) fuel.

(* administrative_record.rs:300-358: the fragment fields are read iff exactly two elements remain *)
Definition status_report_body (fuel : nat) (acc : seq_access) (s : st) : res status_report * seq_access * st :=
  field (p_items fuel) acc s (fun its acc s =>
  field (p_u32 fuel) acc s (fun rsn acc s =>
  field (p_eid fuel) acc s (fun e acc s =>
  field (p_pair two64 two64 fuel) acc s (fun ts acc s =>
    if hint_is acc 2 then
      field (p_u64 fuel) acc s (fun off acc s =>
      field (p_u64 fuel) acc s (fun len acc s =>
        (Ok (mk_sr its rsn e (fst ts) (snd ts) off len), acc, s)))
    else (Ok (mk_sr its rsn e (fst ts) (snd ts) 0 0), acc, s))))).
Definition p_status_report (fuel : nat) := parse_value (vis_seq (status_report_body fuel)) fuel.

(* administrative_record.rs:52-93: code 1 -> StatusReport, any other code -> serde_bytes::ByteBuf *)
Definition admin_record_body (fuel : nat) (acc : seq_access) (s : st) : res admin_record * seq_access * st :=
  field (p_u32 fuel) acc s (fun code acc s =>
    if code =? BUNDLE_STATUS_REPORT_TYPE_CODE then
      field (p_status_report fuel) acc s (fun sr acc s => (Ok (BundleStatusReport sr), acc, s))
    else
      field (p_bytebuf fuel) acc s (fun data acc s => (Ok (UnknownRecord code data), acc, s))).
Definition p_admin_record (fuel : nat) := parse_value (vis_seq (admin_record_body fuel)) fuel.

(* serde_cbor::from_slice::<AdministrativeRecord> (what a receiver does with the payload of an
   administrative-record bundle) *)
Definition admin_from_bytes (bs : list byte) : res admin_record := from_slice p_admin_record bs.

(* ------------------------------------------------------------------------------------------- *)
(* Constructors                                                                                  *)
(* ------------------------------------------------------------------------------------------- *)

Definition unwrap {A} (r : res A) : res A := match r with Err _ => Panic PUnwrap | r => r end.

Fixpoint mapM {A B} (f : A -> res B) (l : list A) : res (list B) :=
  match l with
  | [] => Ok []
  | a :: t => do b <- f a; do r <- mapM f t; Ok (b :: r)
  end.

Definition requests_status_time (p : primary) : bool := bundle_flag (p_flags p) BUNDLE_REQUEST_STATUS_TIME.

(* administrative_record.rs:215-233 and the loop body 384-396; dtn_time_now() is read only for the
   asserted item of a bundle that requests status times *)
Definition status_item_at (m : ovf_mode) (clock_ms : N) (req_time : bool) (pos i : N) : res status_item :=
  if (i =? pos) && req_time then do t <- now m clock_ms; Ok (mk_item true t true)
  else if i =? pos then Ok (mk_item true DTN_TIME_EPOCH false)
  else Ok (mk_item false DTN_TIME_EPOCH false).

(* 0 .. MAX_STATUS_INFORMATION_POS - 1 *)
Definition status_positions : list N := map N.of_nat (seq 0 (N.to_nat MAX_STATUS_INFORMATION_POS)).

(* administrative_record.rs:364-400 *)
Definition new_status_report (m : ovf_mode) (clock_ms : N) (B : bundle) (pos reason : N) : res status_report :=
  let p := b_primary B in
  if has_fragmentation p then Panic PUnimplemented
  else
    do its <- mapM (status_item_at m clock_ms (requests_status_time p) pos) status_positions;
    Ok (mk_sr its reason (p_src p) (p_time p) (p_seq p) 0 0).

(* administrative_record.rs:95-101: serde_cbor::to_vec cannot fail on this type *)
Definition to_payload (r : admin_record) : canonical :=
  new_payload_block 0 (enc_admin_record r).

(* dtntime.rs CreationTimestamp::now(), repaired generator: `gen` = contents of `static LAST` before
   the call (None before the first call); the pair returned is also the new contents of LAST *)
Definition gen_state := option (N * N).
Definition creation_now (m : ovf_mode) (clock_ms : N) (gen : gen_state) : res (N * N) :=
  do n <- now m clock_ms;
  match gen with
  | Some (last_time, last_seq) =>
      if n <=? last_time then do q <- add64 m last_seq 1; Ok (last_time, q) else Ok (n, 0)
  | None => Ok (n, 0)
  end.
Definition gen_after (ts : N * N) : gen_state := Some ts.
(* `last_seq + 1` is a u64 addition: it overflows after 2^64 calls within one millisecond; a generator state
   that has not reached that point *)
Definition gen_ok (g : gen_state) : bool :=
  match g with Some (_, q) => q + 1 <? two64 | None => true end.

(* primary.rs:83-100 PrimaryBlockBuilder::build: dtn:none as destination is refused *)
Definition primary_build (flags : N) (dst src rpt : eid) (ts : N * N) (lifetime : N) : res primary :=
  if eid_eqb dst eid_none then Err ECustom
  else Ok (mkprimary DTN_VERSION flags CrcNo dst src rpt (fst ts) (snd ts) lifetime 0 0).

(* bundle.rs:73-85 BundleBuilder::build: stable sort by descending block number; the last block must
   carry payload data *)
Definition bundle_build (p : primary) (cs : list canonical) : res bundle :=
  let cs' := sort_desc cs in
  match last_opt cs' with
  | Some c => match c_data c with Data _ => Ok (mkbundle p cs') | _ => Err ECustom end
  | None => Err ECustom
  end.

(* administrative_record.rs:402-432 *)
Definition new_status_report_bundle (m : ovf_mode) (clock_ms : N) (gen : gen_state) (B : bundle) (src : eid)
    (crc_type pos reason : N) : res bundle :=
  do sr <- new_status_report m clock_ms B pos reason;
  let adm := BundleStatusReport sr in
  do ts <- creation_now m clock_ms gen;
  do pb <- unwrap (primary_build BUNDLE_ADMINISTRATIVE_RECORD_PAYLOAD (p_rpt (b_primary B)) src src ts
                                 (p_lifetime (b_primary B)));
  do b <- unwrap (bundle_build pb [to_payload adm]);
  Ok (set_crc b crc_type).

(* ------------------------------------------------------------------------------------------- *)
(* Normal form: the domain of the round-trip clause of C12                                       *)
(* ------------------------------------------------------------------------------------------- *)
(* time present only on asserted, time-reporting items (an item that is not both asserted and
   time-reporting has time 0 and `status_requested` false -- neither is on the wire);
   fragment offset only with a non-zero fragment length; unknown records with a type code other than 1;
   no `Mismatched`; integers within their Rust types, the source a constructor-normal EID, lengths
   below 2^64. *)
Definition nf_item (i : status_item) : bool :=
  if item_has_time i then si_time i <? two64
  else (si_time i =? 0) && negb (si_requested i).
Definition nf_report (sr : status_report) : bool :=
  forallb nf_item (sr_items sr) && (Nlen (sr_items sr) <? two64) && (sr_reason sr <? u32_bound)
  && Wf.wf_eid (sr_src sr) && (sr_time sr <? two64) && (sr_seq sr <? two64)
  && (sr_frag_off sr <? two64) && (sr_frag_len sr <? two64)
  && (negb (sr_frag_len sr =? 0) || (sr_frag_off sr =? 0)).
Definition normal_form (r : admin_record) : bool :=
  match r with
  | BundleStatusReport sr => nf_report sr
  | UnknownRecord code data =>
      negb (code =? BUNDLE_STATUS_REPORT_TYPE_CODE) && (code <? u32_bound) && (Nlen data <? two64)
  | Mismatched _ _ => false
  end.

(* derived PartialEq *)
Definition item_eqb (a b : status_item) : bool :=
  Bool.eqb (si_asserted a) (si_asserted b) && (si_time a =? si_time b) && Bool.eqb (si_requested a) (si_requested b).
Definition report_eqb (a b : status_report) : bool :=
  forall2b item_eqb (sr_items a) (sr_items b) && (sr_reason a =? sr_reason b) && eid_eqb (sr_src a) (sr_src b)
  && (sr_time a =? sr_time b) && (sr_seq a =? sr_seq b) && (sr_frag_off a =? sr_frag_off b)
  && (sr_frag_len a =? sr_frag_len b).
Definition record_eqb (a b : admin_record) : bool :=
  match a, b with
  | BundleStatusReport x, BundleStatusReport y => report_eqb x y
  | UnknownRecord c d, UnknownRecord c' d' => (c =? c') && bytes_eqb d d'
  | Mismatched c d, Mismatched c' d' => (c =? c') && bytes_eqb d d'
  | _, _ => false
  end.
