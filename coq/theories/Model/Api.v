(* Model of the public constructors, builders and per-block accessors / mutators of bp7 - the API through which an
   application (not the decoder) makes the values the other models talk about:
     canonical.rs  new_canonical_block, new_hop_count_block, new_payload_block, new_previous_node_block,
                   new_bundle_age_block, CanonicalBlock::new / default, CanonicalBlockBuilder,
                   payload_data, hop_count_get / _increase / _exceeded, bundle_age_get / _update,
                   previous_node_get / _update
     primary.rs    PrimaryBlock::new / default, PrimaryBlockBuilder (every setter optional), new_primary_block
     bundle.rs     Bundle::default, Bundle::new, BundleBuilder (primary / canonicals / payload, build),
                   new_std_payload_bundle (with the unwrap of the primary builder), previous_node,
                   extension_block_by_type as used by update_extensions
   Definitions only; proofs in Proofs/ApiProofs.v.  `bcf.bits()` of a BlockControlFlags value is the raw byte the
   harness made it from (from_bits_retain), so flags are plain numbers here as everywhere else. *)
From BP7 Require Import Base.Prelude Gen.Consts Model.Types Model.Validate Model.Ops Model.EidText.

(* ---------------- canonical.rs: constructors ---------------- *)
Definition new_canonical_block (ty num flags : N) (d : cdata) : canonical := mkcanonical ty num flags CrcNo d.
Definition canonical_new : canonical := mkcanonical PAYLOAD_BLOCK 0 0 CrcNo (Data []).       (* CanonicalBlock::new() = default() *)
(* CanonicalBlockBuilder: default() has type 0, number 0, flags 0, CrcNo, no data; build() insists on data only *)
Definition canonical_builder_build (ty num flags : N) (crc : crc_value) (d : option cdata) : option canonical :=
  match d with Some d => Some (mkcanonical ty num flags crc d) | None => None end.
Definition new_hop_count_block (num flags limit : N) : canonical := mkcanonical HOP_COUNT_BLOCK num flags CrcNo (HopCount limit 0).
Definition new_previous_node_block (num flags : N) (prev : eid) : canonical :=
  mkcanonical PREVIOUS_NODE_BLOCK num flags CrcNo (PreviousNode prev).
Definition new_bundle_age_block (num flags age : N) : canonical := mkcanonical BUNDLE_AGE_BLOCK num flags CrcNo (BundleAge age).
(* new_payload_block is Model/Ops.v new_payload_block *)

(* ---------------- canonical.rs: accessors and mutators of one block ---------------- *)
Definition payload_data (c : canonical) : option (list byte) := match c_data c with Data d => Some d | _ => None end.
Definition hop_count_get (c : canonical) : option (N * N) :=
  if c_type c =? HOP_COUNT_BLOCK then match c_data c with HopCount l k => Some (l, k) | _ => None end else None.
(* checked_add(1) on the u8 count: 255 cannot be increased *)
Definition hop_count_increase (c : canonical) : bool * canonical :=
  match hop_count_get c with
  | Some (l, k) => if k + 1 <? 256 then (true, set_c_data c (HopCount l (k + 1))) else (false, c)
  | None => (false, c)
  end.
Definition hop_count_exceeded (c : canonical) : bool :=
  if c_type c =? HOP_COUNT_BLOCK then match c_data c with HopCount l k => l <? k | _ => false end else false.
Definition bundle_age_get (c : canonical) : option N :=
  if c_type c =? BUNDLE_AGE_BLOCK then match c_data c with BundleAge a => Some a | _ => None end else None.
(* age: u128; try_into::<u64>().unwrap_or(u64::MAX) *)
Definition bundle_age_update (c : canonical) (age : N) : bool * canonical :=
  match bundle_age_get c with
  | Some _ => (true, set_c_data c (BundleAge (sat_u64 age)))
  | None => (false, c)
  end.
Definition previous_node_get (c : canonical) : option eid :=
  if c_type c =? PREVIOUS_NODE_BLOCK then match c_data c with PreviousNode e => Some e | _ => None end else None.
Definition previous_node_update (c : canonical) (node : eid) : bool * canonical :=
  match previous_node_get c with
  | Some _ => (true, set_c_data c (PreviousNode node))
  | None => (false, c)
  end.

(* ---------------- primary.rs ---------------- *)
Definition primary_new : primary := mkprimary DTN_VERSION 0 CrcNo eid_none eid_none eid_none 0 0 0 0 0.
(* PrimaryBlockBuilder: every setter may be left out (the field keeps its Default: 0 / CrcNo / dtn:none / (0,0) / 0 ms);
   build() refuses exactly the null destination *)
Record primary_builder := mkpb {
  pb_flags : option N; pb_crc : option crc_value; pb_dst : option eid; pb_src : option eid; pb_rpt : option eid;
  pb_ts : option (N * N); pb_lifetime : option N; pb_off : option N; pb_len : option N }.
Definition dflt {A} (o : option A) (d : A) : A := match o with Some a => a | None => d end.
Definition primary_builder_build (pb : primary_builder) : option primary :=
  let dst := dflt (pb_dst pb) eid_none in
  if eid_eqb dst eid_none then None
  else Some (mkprimary DTN_VERSION (dflt (pb_flags pb) 0) (dflt (pb_crc pb) CrcNo) dst (dflt (pb_src pb) eid_none)
                       (dflt (pb_rpt pb) eid_none) (fst (dflt (pb_ts pb) (0, 0))) (snd (dflt (pb_ts pb) (0, 0)))
                       (dflt (pb_lifetime pb) 0) (dflt (pb_off pb) 0) (dflt (pb_len pb) 0)).
(* new_primary_block(dst: &str, src: &str, ts, lifetime): both strings go through TryFrom<&str> and unwrap() *)
Definition new_primary_block (dst src : list byte) (t seq lifetime : N) : res primary :=
  match eid_parse dst with
  | EOk d =>
    match eid_parse src with
    | EOk s => Ok (mkprimary DTN_VERSION 0 CrcNo d s s t seq lifetime 0 0)
    | EErr _ => Panic PUnwrap
    | EPanic p => Panic p
    end
  | EErr _ => Panic PUnwrap
  | EPanic p => Panic p
  end.

(* ---------------- bundle.rs ---------------- *)
Definition bundle_default : bundle := mkbundle primary_new [].
(* BundleBuilder::default().[primary(p)].[canonicals(cs)].[payload(d)].build(): payload() pushes a fresh payload block
   BEHIND whatever canonicals() installed; build() sorts (stable, descending numbers) and insists that the last block
   has Data *)
Definition bundle_builder_build (p : option primary) (cs : option (list canonical)) (pl : option (list byte)) : option bundle :=
  let cs1 := dflt cs [] ++ match pl with Some d => [new_payload_block 0 d] | None => [] end in
  let s := sort_desc cs1 in
  match last_opt s with
  | Some c => match payload_data c with Some _ => Some (mkbundle (dflt p primary_new) s) | None => None end
  | None => None
  end.
(* new_std_payload_bundle(src, dst, data) with the creation timestamp (t, seq) handed out by CreationTimestamp::now():
   the primary builder's build().unwrap() panics for the null destination *)
Definition new_std_payload_bundle_api (src dst : eid) (t seq : N) (data : list byte) : res bundle :=
  match primary_builder_build (mkpb (Some (N.lor BUNDLE_MUST_NOT_FRAGMENTED BUNDLE_STATUS_REQUEST_DELIVERY)) None (Some dst)
                                    (Some src) (Some src) (Some (t, seq)) (Some 3600000) None None) with
  | None => Panic PUnwrap
  | Some p => Ok (sort_canonicals (set_crc (mkbundle p [new_payload_block 0 data; new_hop_count_block 2 0 32]) CRC_NO))
  end.
(* Bundle::previous_node *)
Definition bundle_previous_node (b : bundle) : option eid :=
  match ext_block_by_type PREVIOUS_NODE_BLOCK (b_canonicals b) with
  | Some c => previous_node_get c
  | None => None
  end.

(* ---------------- update_extensions written with the per-block operations (the structure of bundle.rs) ----------------
   `if let Some(hcblock) = self.extension_block_by_type_mut(HOP_COUNT_BLOCK) { if let Some((_, u8::MAX)) = hcblock.hop_count_get()
   { return false } hcblock.hop_count_increase(); if hcblock.hop_count_exceeded() { return false } }` and so on: the block is
   selected by type + extension validation, then the block-level operation is applied to it in place.
   Proofs/ApiProofs.v shows that this equals Model/Ops.v update_extensions whenever hop counts are u8 values. *)
Definition with_first (t : N) (cs : list canonical) (f : canonical -> canonical) : list canonical :=
  update_first (sel_type t) f cs.
(* (return false now?, blocks) *)
Definition hop_stage_api (cs0 : list canonical) : bool * list canonical :=
  match ext_block_by_type HOP_COUNT_BLOCK cs0 with
  | Some hc =>
    if match hop_count_get hc with Some (_, k) => k =? 255 | None => false end then (true, cs0)
    else let f := fun c => snd (hop_count_increase c) in (hop_count_exceeded (f hc), with_first HOP_COUNT_BLOCK cs0 f)
  | None => (false, cs0)
  end.
Definition prev_stage_api (node : eid) (cs1 : list canonical) : list canonical :=
  match ext_block_by_type PREVIOUS_NODE_BLOCK cs1 with
  | Some _ => with_first PREVIOUS_NODE_BLOCK cs1 (fun c => snd (previous_node_update c node))
  | None => cs1
  end.
Definition age_stage_api (p : primary) (residence : N) (cs2 : list canonical) : bool * list canonical :=
  match ext_block_by_type BUNDLE_AGE_BLOCK cs2 with
  | Some ba =>
    match bundle_age_get ba with
    | Some a => let na := sat_add128 a residence in
                (p_lifetime p <? na, with_first BUNDLE_AGE_BLOCK cs2 (fun c => snd (bundle_age_update c na)))
    | None => (false, cs2)
    end
  | None => (false, cs2)
  end.
Definition update_extensions_api (m : ovf_mode) (clock_ms : N) (node : eid) (residence : N) (b : bundle) : res (bool * bundle) :=
  let p := b_primary b in
  let hop := hop_stage_api (b_canonicals b) in
  if fst hop then Ok (false, mkbundle p (snd hop))
  else
    let age := age_stage_api p residence (prev_stage_api node (snd hop)) in
    let b3 := mkbundle p (snd age) in
    if fst age then Ok (false, b3)
    else do ex <- is_lifetime_exceeded m clock_ms p; Ok (negb ex, b3).
(* hop counts are u8 values (true of every Rust value; implied by wf_bundle_u and by decodable_shape) *)
Definition hop_u8 (cs : list canonical) : bool :=
  forallb (fun c => match c_data c with HopCount l k => (l <? 256) && (k <? 256) | _ => true end) cs.
