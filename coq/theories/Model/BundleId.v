(* Bundle::id / Display for Bundle (bundle.rs:351-369, 417-421), StatusReport::refbundle
   (administrative_record.rs:266-280) and the part of new_status_report (364-400) that determines the reference.
   Only what C13 needs; names prefixed id_ so that Model/AdminRecord.v (C12) can coexist.  Definitions only. *)
From BP7 Require Import Base.Prelude Base.Decimal Base.Str Gen.Consts Model.Types Model.EidText.

Definition c_dash : byte := x2d.         (* '-' *)
Definition c_underscore : byte := x5f.   (* '_' *)

(* format!("{}-{}-{}", src, dtntime, seqno) [+ format!("{}-{}", id, fragmentation_offset)] *)
Definition id_text (src : list byte) (time seq : N) (frag : option N) : list byte :=
  src ++ [c_dash] ++ dec time ++ [c_dash] ++ dec seq ++
  match frag with Some off => [c_dash] ++ dec off | None => [] end.

(* bundle.rs:351-369 *)
Definition bundle_id (b : bundle) : list byte :=
  let p := b_primary b in
  id_text (eid_print (p_src p)) (p_time p) (p_seq p) (if has_fragmentation p then Some (p_frag_off p) else None).
(* bundle.rs:417-421 Display: "{}_{}", self.id(), self.primary.destination *)
Definition bundle_to_string (b : bundle) : list byte :=
  bundle_id b ++ [c_underscore] ++ eid_print (p_dst (b_primary b)).

(* the fields of StatusReport that refbundle reads *)
Record id_status_report := mk_id_sr {
  id_sr_source : eid; id_sr_time : N; id_sr_seq : N; id_sr_frag_offset : N; id_sr_frag_len : N }.
(* administrative_record.rs:266-280 *)
Definition id_refbundle (sr : id_status_report) : list byte :=
  id_text (eid_print (id_sr_source sr)) (id_sr_time sr) (id_sr_seq sr)
          (if 0 <? id_sr_frag_len sr then Some (id_sr_frag_offset sr) else None).
(* administrative_record.rs:364-383: source and timestamp copied, fragment fields 0; `unimplemented!()` for a fragment.
   (the status items pushed afterwards do not influence refbundle) *)
Definition id_new_status_report (b : bundle) : res id_status_report :=
  let p := b_primary b in
  if has_fragmentation p then Panic PUnimplemented
  else Ok (mk_id_sr (p_src p) (p_time p) (p_seq p) 0 0).

(* ---------- what identifies a bundle (property text) ---------- *)
Definition ident (b : bundle) : eid * N * N * bool * N :=
  let p := b_primary b in
  (p_src p, p_time p, p_seq p, has_fragmentation p, if has_fragmentation p then p_frag_off p else 0).

(* domain: sources as the textual API or the CBOR decoder produce them (scheme codes fixed, u64 numbers; ANY dtn name),
   u64 timestamp and offset *)
Definition id_src_wf (e : eid) : bool :=
  match e with
  | Dtn c _ => c =? ENDPOINT_URI_SCHEME_DTN
  | DtnNone c a => (c =? ENDPOINT_URI_SCHEME_DTN) && (a =? 0)
  | Ipn c n s => (c =? ENDPOINT_URI_SCHEME_IPN) && (n <? two64) && (s <? two64)
  end.
Definition id_wf (b : bundle) : bool :=
  let p := b_primary b in
  id_src_wf (p_src p) && (p_time p <? two64) && (p_seq p <? two64) && (p_frag_off p <? two64).

(* ---------- the two known collision classes (decidable) ----------
   id-dash-source: one bundle is a fragment, the other is not, and the non-fragment's source text is the fragment's
   source text followed by '-' and a non-empty run of decimal digits (which then plays the role of the time field) *)
Fixpoint strip_prefix (p l : list byte) : option (list byte) :=
  match p, l with
  | [], _ => Some l
  | a :: p', b :: l' => if byte_eqb a b then strip_prefix p' l' else None
  | _ :: _, [] => None
  end.
Definition dash_digits_ext (t1 t2 : list byte) : bool :=        (* t2 = t1 ++ "-" ++ digit+ *)
  match strip_prefix t1 t2 with
  | Some (c :: d :: y) => byte_eqb c c_dash && forallb is_digit (d :: y)
  | _ => false
  end.
Definition src_text (b : bundle) : list byte := eid_print (p_src (b_primary b)).
Definition is_frag (b : bundle) : bool := has_fragmentation (b_primary b).
Definition known_dash (b1 b2 : bundle) : bool :=
  (is_frag b1 && negb (is_frag b2) && dash_digits_ext (src_text b1) (src_text b2))
  || (is_frag b2 && negb (is_frag b1) && dash_digits_ext (src_text b2) (src_text b1)).
(* id-none-name: the two sources print the same text but are different values; inside id_src_wf this is exactly
   the decoded dtn name "none" (Dtn 1 "none") against the none endpoint (DtnNone 1 0) *)
Definition known_none_name (b1 b2 : bundle) : bool :=
  bytes_eqb (src_text b1) (src_text b2) && negb (eid_eqb (p_src (b_primary b1)) (p_src (b_primary b2))).
Definition known_c13 (b1 b2 : bundle) : bool := known_dash b1 b2 || known_none_name b1 b2.
