(* Model of the `bp7` command line tool (src/main.rs, bin target `bp7`, feature binary-build):

     run : cli_input -> cli_output

   cli_input  = argv (argv[0] included), the bytes on stdin, the files the arguments may name
                (path bytes -> content) and the Unix clock in ms that helpers::ts_ms() returns;
   cli_output = the bytes written to stdout, whether anything was written to stderr, and the exit
                status (exit code, or Aborted = a Rust panic / abort of the process).

   Transcribed: usage() and the exit codes, the command dispatch on args.len(), manifest_to_primary
   (split on '\n', str::trim with the Unicode White_Space set, the two filters, splitn(2,'='), the five
   keys, try_into().unwrap() on endpoint IDs, humantime::Duration parsing, u64::from_str for the flags,
   PrimaryBlockBuilder::build().unwrap()), generate_bundle (Bundle::new + set_crc(CRC_NO) + validate()
   .expect + to_cbor, raw or hexify + "\n"), decode / decode_from_stdin / buf_to_bundle in payload mode,
   dtntime, d2u.

   humantime 2.4.0 `parse_duration` (src/duration.rs) is transcribed completely (all units, fractions,
   embedded white space, checked u64 arithmetic, Duration::new normalisation) as a state machine over the
   characters of the string.

   NOT modelled (status Unmodelled, or `dump = true` for the text of the Debug dump):
     - manifests that are not valid UTF-8 (String::from_utf8_lossy replacement characters);
     - the `{:#?}` Debug dump printed by `decode` without -p (exit status and stderr are modelled);
     - `rnd` (randomness from nanorand; checked by an oracle in the K-cli channel) and `benchmark`;
     - usage() when argv[0] contains characters that `{:?}` escapes (anything but printable ASCII
       other than the double quote and the backslash).
   Convention inside this file: a `res` value  Panic _ = the process aborts,  Err _ = not modelled.

   str::split / splitn / trim / contains / starts_with are those of Base/Str.v; endpoint-ID text parsing is
   Model/EidText.v `eid_parse` (impl TryFrom<&str> for EndpointID).   Definitions only. *)
From Coq Require Strings.String.
Import Strings.String.StringSyntax.
From BP7 Require Import Base.Prelude Base.Decimal Base.Utf8 Base.Str Gen.Consts.
From BP7 Require Import Model.Types Model.Encode Model.Decode Model.Wf Model.Validate Model.Ops Model.Hex.
From BP7 Require Model.EidText.
From BP7 Require Model.DtnTime.

Definition B (s : String.string) : list byte := String.list_byte_of_string s.
Arguments B s%string_scope.
Definition nl : byte := x0a.

(* ---------- characters ---------- *)
Definition c_nl : byte := x0a.      (* line feed *)
Definition c_eq : byte := x3d.      (* '=' *)
Definition is_empty (l : list byte) : bool := match l with [] => true | _ => false end.
(* char::is_whitespace = Unicode White_Space (the code points whose UTF-8 forms Str.ws1/ws2/ws3 recognise) *)
Definition ws_char (c : N) : bool :=
  ((9 <=? c) && (c <=? 13)) || (c =? 32) || (c =? 133) || (c =? 160) || (c =? 5760)
  || ((8192 <=? c) && (c <=? 8202)) || (c =? 8232) || (c =? 8233) || (c =? 8239) || (c =? 8287) || (c =? 12288).

(* the characters (code points) of a valid UTF-8 string *)
Fixpoint utf8_chars (l : list byte) : list N :=
  match l with
  | [] => []
  | a :: t =>
    let x := b2n a in
    if x <? 128 then x :: utf8_chars t
    else if x <? 224 then
      match t with
      | b :: t' => ((x - 192) * 64 + (b2n b - 128)) :: utf8_chars t'
      | [] => []
      end
    else if x <? 240 then
      match t with
      | b :: c :: t' => ((x - 224) * 4096 + (b2n b - 128) * 64 + (b2n c - 128)) :: utf8_chars t'
      | _ => []
      end
    else
      match t with
      | b :: c :: d :: t' =>
          ((x - 240) * 262144 + (b2n b - 128) * 4096 + (b2n c - 128) * 64 + (b2n d - 128)) :: utf8_chars t'
      | _ => []
      end
  end.

(* ---------- humantime 2.4.0: parse_duration (src/duration.rs) ---------- *)
Definition dur := (N * N)%type.                      (* std::time::Duration: whole seconds (u64), nanoseconds < 10^9 *)
Definition NANOS : N := 1000000000.
(* OverflowOp for u64: checked_mul / checked_add / exact division, Err(NumberOverflow) otherwise *)
Definition cmul (a b : N) : res N := if a * b <? two64 then Ok (a * b) else Err ERange.
Definition cadd (a b : N) : res N := if a + b <? two64 then Ok (a + b) else Err ERange.
Definition cdiv (a b : N) : res N :=
  if b =? 0 then Panic POverflow                     (* `self % 0`: cannot happen, the denominator is a power of ten *)
  else if a mod b =? 0 then Ok (a / b) else Err ERange.
(* Duration::new(secs, nanos): carries whole seconds out of nanos, panics when the seconds overflow *)
Definition duration_new (secs nanos : N) : res dur :=
  if nanos <? NANOS then Ok (secs, nanos)
  else if secs + nanos / NANOS <? two64 then Ok (secs + nanos / NANOS, nanos mod NANOS)
  else Panic POverflow.
(* fn add_current(sec, nsec, out) *)
Definition add_current (sec nsec : N) (out : dur) : res dur :=
  do ns <- cadd (snd out) nsec;
  do sn <- (if NANOS <? ns then (do s <- cadd sec (ns / NANOS); Ok (s, ns mod NANOS)) else Ok (sec, ns));
  do s <- cadd (fst out) (fst sn);
  duration_new s (snd sn).

Inductive hunit := UNano | UMicro | UMilli | USec | UMin | UHour | UDay | UWeek | UMonth | UYear.
Definition unit_table : list (list N * hunit) :=
  map (fun x => (map b2n (fst x), snd x))
    [(B "nanos", UNano); (B "nsec", UNano); (B "ns", UNano); (B "usec", UMicro); (B "us", UMicro); 
     (B "millis", UMilli); (B "msec", UMilli); (B "ms", UMilli); (B "seconds", USec); (B "second", USec); 
     (B "secs", USec); (B "sec", USec); (B "s", USec); (B "minutes", UMin); (B "minute", UMin); 
     (B "min", UMin); (B "mins", UMin); (B "m", UMin); (B "hours", UHour); (B "hour", UHour); 
     (B "hr", UHour); (B "hrs", UHour); (B "h", UHour); (B "days", UDay); (B "day", UDay); (B "d", UDay); 
     (B "weeks", UWeek); (B "week", UWeek); (B "wk", UWeek); (B "wks", UWeek); (B "w", UWeek); 
     (B "months", UMonth); (B "month", UMonth); (B "M", UMonth); (B "years", UYear); (B "year", UYear); 
     (B "yr", UYear); (B "yrs", UYear); (B "y", UYear)]
  ++ [([181; 115], UMicro)].                                                     (* the unit written U+00B5 s *)
Definition chars_eqb (x y : list N) : bool := forall2b N.eqb x y.
Definition unit_of (u : list N) : option hunit :=
  match find (fun e => chars_eqb (fst e) u) unit_table with Some e => Some (snd e) | None => None end.

Definition int_part (u : hunit) (n : N) : res (N * N) :=
  match u with
  | UNano => Ok (0, n)
  | UMicro => do x <- cmul n 1000; Ok (0, x)
  | UMilli => do x <- cmul n 1000000; Ok (0, x)
  | USec => Ok (n, 0)
  | UMin => do x <- cmul n 60; Ok (x, 0)
  | UHour => do x <- cmul n 3600; Ok (x, 0)
  | UDay => do x <- cmul n 86400; Ok (x, 0)
  | UWeek => do x <- cmul n 604800; Ok (x, 0)
  | UMonth => do x <- cmul n 2630016; Ok (x, 0)
  | UYear => do x <- cmul n 31557600; Ok (x, 0)
  end.
Definition scaled (num k den : N) : res N := do x <- cmul num k; cdiv x den.
Definition frac_part (u : hunit) (num den : N) : res (N * N) :=
  match u with
  | UNano => Err ERange
  | UMicro => do x <- scaled num 1000 den; Ok (0, x)
  | UMilli => do x <- scaled num 1000000 den; Ok (0, x)
  | USec => do x <- scaled num 1000000000 den; Ok (0, x)
  | UMin => do x <- scaled num 60000000000 den; Ok (0, x)
  | UHour => do x <- scaled num 3600 den; Ok (x, 0)
  | UDay => do x <- scaled num 86400 den; Ok (x, 0)
  | UWeek => do x <- scaled num 604800 den; Ok (x, 0)
  | UMonth => do x <- scaled num 2630016 den; Ok (x, 0)
  | UYear => do x <- scaled num 31557600 den; Ok (x, 0)
  end.
(* fn parse_unit(n, frac, start, end, out) with unit = src[start..end] *)
Definition parse_unit (n : N) (frac : option (N * N)) (unit : list N) (out : dur) : res dur :=
  match unit_of unit with
  | None => Err ERange                                                            (* UnknownUnit *)
  | Some u =>
    do ip <- int_part u n;
    do out1 <- add_current (fst ip) (snd ip) out;
    match frac with
    | None => Ok out1
    | Some (num, den) => do fp <- frac_part u num den; add_current (fst fp) (snd fp) out1
    end
  end.

Definition is_digit_c (c : N) : bool := (48 <=? c) && (c <=? 57).
Definition is_letter_c (c : N) : bool := ((97 <=? c) && (c <=? 122)) || ((65 <=? c) && (c <=? 90)) || (c =? 181).

(* where Parser::parse is: parse_first_char (initially / after a unit), the integer loop, the fraction loop,
   the unit loop (unit characters seen so far, reversed) *)
Inductive hstate :=
  | HFirst (initial : bool)
  | HNum (n : N)
  | HFrac (n num den : N) (zeros : bool)
  | HUnit (n : N) (frac : option (N * N)) (unit_rev : list N).

Fixpoint hparse (cs : list N) (s : hstate) (out : dur) : res dur :=
  match cs with
  | [] =>
    match s with
    | HFirst true => Err ERange                                                   (* Error::Empty *)
    | HFirst false => Ok out
    | HNum n => parse_unit n None [] out                                         (* unit "": UnknownUnit *)
    | HFrac n num den _ => if den =? 1 then Err ERange else parse_unit n (Some (num, den)) [] out
    | HUnit n frac u => parse_unit n frac (rev u) out
    end
  | c :: t =>
    match s with
    | HFirst i =>
        if is_digit_c c then hparse t (HNum (c - 48)) out
        else if ws_char c then hparse t (HFirst i) out
        else Err ERange                                                           (* NumberExpected *)
    | HNum n =>
        if is_digit_c c then
          match (do x <- cmul n 10; cadd x (c - 48)) with
          | Ok n' => hparse t (HNum n') out
          | Err e => Err e | Panic p => Panic p
          end
        else if ws_char c then hparse t (HNum n) out
        else if is_letter_c c then hparse t (HUnit n None [c]) out
        else if c =? 46 then hparse t (HFrac n 0 1 true) out
        else Err ERange                                                           (* InvalidCharacter *)
    | HFrac n num den zeros =>
        if c =? 48 then
          match (do d <- cmul den 10; do m <- (if zeros then Ok num else cmul num 10); Ok (d, m)) with
          | Ok (d, m) => hparse t (HFrac n m d zeros) out
          | Err e => Err e | Panic p => Panic p
          end
        else if is_digit_c c then
          match (do d <- cmul den 10; do m <- (do x <- cmul num 10; cadd x (c - 48)); Ok (d, m)) with
          | Ok (d, m) => hparse t (HFrac n m d false) out
          | Err e => Err e | Panic p => Panic p
          end
        else if ws_char c then hparse t (HFrac n num den zeros) out
        else if is_letter_c c then
          if den =? 1 then Err ERange else hparse t (HUnit n (Some (num, den)) [c]) out
        else Err ERange
    | HUnit n frac u =>
        if is_digit_c c then
          match parse_unit n frac (rev u) out with
          | Ok out' => hparse t (HNum (c - 48)) out'
          | Err e => Err e | Panic p => Panic p
          end
        else if ws_char c then
          match parse_unit n frac (rev u) out with
          | Ok out' => hparse t (HFirst false) out'
          | Err e => Err e | Panic p => Panic p
          end
        else if is_letter_c c then hparse t (HUnit n frac (c :: u)) out
        else Err ERange
    end
  end.
(* pub fn parse_duration(s): Ok d | Err _ (any humantime error) | Panic (Duration::new overflow) *)
Definition parse_duration (s : list byte) : res dur :=
  if bytes_eqb s (B "0") then Ok (0, 0) else hparse (utf8_chars s) (HFirst true) (0, 0).
(* primary.rs:142  `self.lifetime.as_millis() as u64`: what the encoder writes for a Duration *)
Definition dur_millis (d : dur) : N := fst d * 1000 + snd d / 1000000.
Definition dur_ms_u64 (d : dur) : N := dur_millis d mod two64.

(* ---------- process model ---------- *)
Record cli_input := mkin {
  argv : list (list byte);                    (* including argv[0] *)
  stdin : list byte;
  files : list (list byte * list byte);       (* path -> content; any other path does not exist *)
  clock_ms : N }.                             (* helpers::ts_ms() *)
Inductive cli_status := Exit (code : N) | Aborted | Unmodelled.
Record cli_output := mkout {
  stdout : list byte;
  stderr_nonempty : bool;
  status : cli_status;
  dump : bool }.                              (* true: stdout is the (unmodelled) Debug dump of a decoded bundle *)
Definition aborted : cli_output := mkout [] true Aborted false.        (* a panic message goes to stderr *)
Definition unmodelled : cli_output := mkout [] false Unmodelled false.
Definition exits (out : list byte) (warn : bool) (code : N) : cli_output := mkout out warn (Exit code) false.

Fixpoint lookup (path : list byte) (fs : list (list byte * list byte)) : option (list byte) :=
  match fs with
  | [] => None
  | (p, c) :: t => if bytes_eqb p path then Some c else lookup path t
  end.

(* `{:?}` of a str without characters that need escaping (no double quote 34, no backslash 92) *)
Definition plain_char (b : byte) : bool := (32 <=? b2n b) && (b2n b <=? 126) && negb (b2n b =? 34) && negb (b2n b =? 92).
Definition debug_str (s : list byte) : option (list byte) :=
  if forallb plain_char s then Some (n2b 34 :: s ++ [n2b 34]) else None.
Definition tab : list byte := [n2b 9].
Definition usage_text (quoted : list byte) : list byte :=
  B "usage " ++ quoted ++ B " <cmd> [args]" ++ [nl]
  ++ tab ++ B " encode <manifest> <payloadfile | - > [-x] - encode bundle and output raw bytes or hex string (-x)" ++ [nl]
  ++ tab ++ B " decode <hexstring | - > [-p] - decode bundle or payload only (-p)" ++ [nl]
  ++ tab ++ B " dtntime [dtntimestamp] - prints current time as dtntimestamp or prints dtntime human readable" ++ [nl]
  ++ tab ++ B " d2u [dtntimestamp] - converts dtntime to unixstimestamp" ++ [nl]
  ++ tab ++ B " rnd [-r] - return a random bundle either hexencoded or raw bytes (-r)" ++ [nl]
  ++ tab ++ B " benchmark - run a simple benchmark encoding/decoding bundles" ++ [nl].
Definition usage (a0 : list byte) (code : N) : cli_output :=
  match debug_str a0 with Some q => exits (usage_text q) false code | None => unmodelled end.

(* the builder state manifest_to_primary threads through the lines *)
Record builder := mkbuilder { bl_flags : N; bl_dst : eid; bl_src : eid; bl_rpt : eid; bl_life : dur }.
Definition unwrap_dur (r : res dur) : res dur :=                      (* .unwrap() of a humantime result *)
  match r with Ok d => Ok d | Err _ => Panic PUnwrap | Panic p => Panic p end.

(* the lines the `for` loop of manifest_to_primary sees *)
Definition manifest_lines (text : list byte) : list (list byte) :=
  filter (mem_byte c_eq)
    (filter (fun l => negb (is_empty l) || starts_with (B "^#") l)
       (map trim (split c_nl text))).

(* one iteration of the loop; the bool records whether "unknown key" was printed to stderr *)
Definition apply_line (st : builder * bool) (line : list byte) : res (builder * bool) :=
  let '(bl, warn) := st in
  let result := map trim (splitn 2 c_eq line) in
  let key := nth 0 result [] in                                       (* result[0]: splitn yields at least one piece *)
  let value : res (list byte) :=                                      (* result[1]: out of bounds without a '=' *)
    match result with [_; x] => Ok x | _ => Panic PSlice end in
  let unwrap_eid (k : eid -> builder) : res (builder * bool) :=
    do x <- value;
    match EidText.eid_parse x with
    | EidText.EOk e => Ok (k e, warn)
    | EidText.EErr _ => Panic PUnwrap
    | EidText.EPanic p => Panic p
    end in
  if bytes_eqb key (B "destination") then
    unwrap_eid (fun e => mkbuilder (bl_flags bl) e (bl_src bl) (bl_rpt bl) (bl_life bl))
  else if bytes_eqb key (B "source") then
    unwrap_eid (fun e => mkbuilder (bl_flags bl) (bl_dst bl) e (bl_rpt bl) (bl_life bl))
  else if bytes_eqb key (B "report_to") then
    unwrap_eid (fun e => mkbuilder (bl_flags bl) (bl_dst bl) (bl_src bl) e (bl_life bl))
  else if bytes_eqb key (B "lifetime") then
    do x <- value; do d <- unwrap_dur (parse_duration x);
    Ok (mkbuilder (bl_flags bl) (bl_dst bl) (bl_src bl) (bl_rpt bl) d, warn)
  else if bytes_eqb key (B "flags") then
    do x <- value;
    match parse_u64 x with
    | Some w => Ok (mkbuilder w (bl_dst bl) (bl_src bl) (bl_rpt bl) (bl_life bl), warn)
    | None => Panic PUnwrap
    end
  else Ok (bl, true).                                                  (* eprintln!("unknown key: {}", ..) *)

Fixpoint apply_lines (st : builder * bool) (ls : list (list byte)) : res (builder * bool) :=
  match ls with
  | [] => Ok st
  | l :: t => do st' <- apply_line st l; apply_lines st' t
  end.

(* the builder after the loop (defaults: flags 0, all three endpoints dtn:none, lifetime "1d") *)
Definition parse_manifest (text : list byte) : res (builder * bool) :=
  do d0 <- unwrap_dur (parse_duration (B "1d"));
  if utf8_valid text then apply_lines (mkbuilder 0 eid_none eid_none eid_none d0, false) (manifest_lines text)
  else Err EUtf8.                                                      (* from_utf8_lossy: not modelled *)

(* PrimaryBlockBuilder::build(): crc CrcNo, creation timestamp (now, 0), version 7, no fragment fields *)
Definition build_primary (bl : builder) (t : N) : res primary :=
  if eid_eqb (bl_dst bl) eid_none then Panic PUnwrap                   (* NoDestination *)
  else Ok (mkprimary DTN_VERSION (bl_flags bl) CrcNo (bl_dst bl) (bl_src bl) (bl_rpt bl) t 0
                     (dur_ms_u64 (bl_life bl)) 0 0).

(* fn manifest_to_primary, after fs::read: CreationTimestamp::now() in a fresh process is
   (dtn_time_now(), 0) *)
Definition manifest_to_primary (m : ovf_mode) (clock : N) (text : list byte) : res (primary * bool) :=
  do t <- DtnTime.now m clock;
  do bw <- parse_manifest text;
  do p <- build_primary (fst bw) t;
  Ok (p, snd bw).

(* fn generate_bundle: the bytes written to stdout *)
Definition cli_bundle (p : primary) (payload : list byte) : bundle :=
  set_crc (mkbundle p [new_payload_block 0 payload]) CRC_NO.
Definition generate_bundle (p : primary) (payload : list byte) (hex : bool) : res (list byte) :=
  let b := cli_bundle p payload in
  match validate b with
  | [] => let bs := fst (to_cbor b) in Ok (if hex then hexify bs ++ [nl] else bs)
  | _ => Panic PExpect                                                 (* "created in invalid bundle" *)
  end.

(* fn buf_to_bundle *)
Definition buf_to_bundle (buf : list byte) (payload_only : bool) : cli_output :=
  match from_cbor buf with
  | Ok b =>
    if payload_only then exits (match payload b with Some d => d | None => [] end) false 0
    else mkout [] false (Exit 0) true                                  (* println!("{:#?}", &bndl) *)
  | _ => aborted                                                       (* .expect("Error decoding bundle!") *)
  end.

Definition arg (k : nat) (args : list (list byte)) : list byte := nth k args [].
Definition is_ (a : list byte) (s : String.string) : bool := bytes_eqb a (B s).
Arguments is_ a s%string_scope.

Section Run.
Variable m : ovf_mode.                                                 (* debug (Checked) or release build of the tool *)

Definition do_encode (i : cli_input) (hex : bool) : cli_output :=
  let args := argv i in
  match lookup (arg 2 args) (files i) with
  | None => aborted                                                    (* "error reading bundle manifest" *)
  | Some text =>
    match manifest_to_primary m (clock_ms i) text with
    | Panic _ => aborted
    | Err _ => unmodelled
    | Ok (p, warn) =>
      match (if is_ (arg 3 args) "-" then Some (stdin i) else lookup (arg 3 args) (files i)) with
      | None => aborted                                                (* "error reading bundle payload" *)
      | Some payload =>
        match generate_bundle p payload hex with
        | Ok out => exits out warn 0
        | _ => aborted
        end
      end
    end
  end.

Definition do_decode (i : cli_input) (payload_only : bool) : cli_output :=
  let a := arg 2 (argv i) in
  if is_ a "-" then buf_to_bundle (stdin i) payload_only
  else match unhexify a with
       | Ok (Some buf) => buf_to_bundle buf payload_only
       | _ => aborted                                                  (* unhexify(bundle).unwrap() *)
       end.

Definition println_N (r : res N) : cli_output :=
  match r with Ok n => exits (dec n ++ [nl]) false 0 | _ => aborted end.

Definition run_with (i : cli_input) : cli_output :=
  let args := argv i in
  let n := length args in
  if negb (forallb utf8_valid args) then aborted                       (* env::args() panics on non-Unicode arguments *)
  else match args with
  | [] => aborted                                                      (* args[1]: index out of bounds *)
  | [a0] => usage a0 1
  | a0 :: cmd :: _ =>
    if is_ cmd "rnd" then unmodelled
    else if is_ cmd "encode" then
      if Nat.eqb n 4 then do_encode i false
      else if Nat.eqb n 5 then do_encode i (is_ (arg 4 args) "-x")
      else usage a0 1
    else if is_ cmd "decode" then
      if Nat.eqb n 3 then do_decode i false
      else if Nat.eqb n 4 then do_decode i (is_ (arg 3 args) "-p")
      else usage a0 1
    else if is_ cmd "dtntime" then
      if Nat.eqb n 3 then
        match parse_u64 (arg 2 args) with
        | None => aborted                                              (* .expect("invalid timestamp") *)
        | Some t => match DtnTime.string t with Ok s => exits (s ++ [nl]) false 0 | _ => aborted end
        end
      else println_N (DtnTime.now m (clock_ms i))
    else if is_ cmd "d2u" then
      if Nat.eqb n 3 then
        match parse_u64 (arg 2 args) with
        | None => aborted
        | Some t => println_N (DtnTime.unix m t)
        end
      else usage a0 0
    else if is_ cmd "benchmark" then unmodelled
    else usage a0 0
  end.
End Run.

(* the tool as the driver builds it: debug profile (overflow checks on) *)
Definition run (i : cli_input) : cli_output := run_with Checked i.

(* ---------- vocabulary of property C20 (definitions only; theorems in Proofs/CliProofs.v, Props/C20.v) ---------- *)
(* what a manifest says, as the tool reads it: the builder after manifest_to_primary's loop *)
Record manifest_fields := mkfields { f_dst : eid; f_src : eid; f_rpt : eid; f_lifetime_ms : N; f_flags : N }.
Definition fields_of (bl : builder) : manifest_fields :=
  mkfields (bl_dst bl) (bl_src bl) (bl_rpt bl) (dur_millis (bl_life bl)) (bl_flags bl).
(* the domain of C20 on the encode side: a UTF-8 manifest every line of which the tool accepts, with a destination,
   valid endpoint IDs (Model/Wf.v wf_eid: scheme code, non-empty UTF-8 name, ipn node >= 1, numbers below 2^64) and a
   lifetime that fits the wire format's u64 milliseconds *)
Definition manifest_ok (text : list byte) (f : manifest_fields) : Prop :=
  exists bl warn, parse_manifest text = Ok (bl, warn) /\ fields_of bl = f
    /\ wf_eid (f_dst f) = true /\ wf_eid (f_src f) = true /\ wf_eid (f_rpt f) = true
    /\ f_dst f <> eid_none /\ f_lifetime_ms f < two64.
Definition valid_flags (w : N) : Prop := bundle_flags_validate w = [].
(* the canonical five-line manifest the generator's simplest stream draws from *)
Definition render_manifest (d s r l : list byte) (w : N) : list byte :=
  B "destination=" ++ d ++ [nl] ++ B "source=" ++ s ++ [nl] ++ B "report_to=" ++ r ++ [nl]
  ++ B "lifetime=" ++ l ++ [nl] ++ B "flags=" ++ dec w ++ [nl].
(* a non-empty value without line feed that starts and ends with a ASCII byte that is not white space *)
Definition edges_ok (l : list byte) : bool :=
  match l with [] => false | a :: _ => plain_ascii a && plain_ascii (last l a) end.
Definition clean (v : list byte) : bool := edges_ok v && negb (mem_byte c_nl v) && utf8_valid v.

(* reading the tool's standard output back with the library *)
Definition strip_nl (l : list byte) : list byte :=
  match rev l with c :: r => if b2n c =? 10 then rev r else l | [] => l end.
Definition decode_output (hex : bool) (out : list byte) : res bundle :=
  if hex then
    match unhexify (strip_nl out) with
    | Ok (Some bs) => from_cbor bs
    | Ok None => Err EValue
    | Err e => Err e
    | Panic p => Panic p
    end
  else from_cbor out.
(* argument vectors of the modelled commands *)
Definition encode_argv (a0 mpath ppath : list byte) (hex : bool) : list (list byte) :=
  [a0; B "encode"; mpath; ppath] ++ (if hex then [B "-x"] else []).
