(* Model of `CreationTimestamp::now` (src/dtntime.rs) under an arbitrary thread interleaving (C09).
   Definitions only; proofs in Proofs/ClockProofs.v, statements in Props/C09.v.

   REPAIRED code (fix D4), instrumented operations in source order:

       static LAST: Mutex<Option<(DtnTime, u64)>> = Mutex::new(None);
       let now = dtn_time_now();                                  // clock read, thread-local
       let mut last = LAST.lock()...;                             // yield point "lock", then try_lock
       let (time, seq) = match *last {                            // critical section: no yield point
           Some((last_time, last_seq)) if now <= last_time => (last_time, last_seq + 1),
           _ => (now, 0) };
       *last = Some((time, seq));
       CreationTimestamp(time, seq)                               // guard dropped: lock released

   Under `--cfg bp7_verif` the lock is `loop { yield_point("lock"); if try_lock() succeeds { break } }`.
   A scheduler grant lets one thread run from where it is parked to its next yield point, or to the end
   of the current call.  `step` is exactly one such grant.  Interleavings of grants are assumed
   sequentially consistent (DESIGN.md section 3); the lock makes that assumption harmless for the
   repaired code, and it is the model's stated limit for the pinned two-atomics code below.

   Integer widths: times and sequence numbers are `N`; `last_seq + 1` overflows u64 only after 2^64
   calls and is not modelled.  Clock readings are DTN times (Unix ms minus MS1970_TO2K); the case-line
   layer (Run/RunClock.v) does the subtraction. *)
From BP7 Require Import Base.Prelude.

Definition tid := nat.

(* one returned timestamp: which thread, what its clock read, the (time, sequence number) it got *)
Record ret := mk_ret { r_tid : tid; r_reading : N; r_time : N; r_seq : N }.
Definition ret_pair (r : ret) : N * N := (r_time r, r_seq r).

(* per thread: the clock readings its successive calls of now() will obtain from dtn_time_now() *)
Definition config := list (list N).

Fixpoint set_nth {A} (l : list A) (i : nat) (x : A) : list A :=
  match l, i with
  | [], _ => []
  | _ :: t, O => x :: t
  | a :: t, S j => a :: set_nth t j x
  end.

(* ------------------------------------------------------------------------------------------- *)
(* Repaired code                                                                                 *)
(* ------------------------------------------------------------------------------------------- *)

(* contents of `static LAST`: None before the first call, then the pair handed out last *)
Definition cell := option (N * N).

(* the critical section: new contents of LAST = the pair returned *)
Definition critical (c : cell) (now : N) : N * N :=
  match c with
  | Some (last_time, last_seq) => if now <=? last_time then (last_time, last_seq + 1) else (now, 0)
  | None => (now, 0)
  end.

Inductive pc :=
  | Idle                      (* outside now(): the next grant starts the next pending call, if any *)
  | AtLock (reading : N).     (* clock read done; parked at the "lock" yield point *)

Record thread := mk_thread { t_pc : pc; t_pending : list N }.

Record gstate := mk_g {
  g_holder : option tid;      (* who holds the mutex (None = free) *)
  g_cell : cell;              (* contents of LAST *)
  g_threads : list thread;
  g_out : list ret            (* returned timestamps, most recent first *)
}.

(* one scheduler grant to thread t *)
Definition step (s : gstate) (t : tid) : gstate :=
  match nth_error (g_threads s) t with
  | None => s                                             (* no such thread *)
  | Some th =>
      match t_pc th with
      | Idle =>
          match t_pending th with
          | [] => s                                       (* finished thread: the grant is a no-op *)
          | reading :: rest =>                            (* enter now(), read the clock, park at "lock" *)
              mk_g (g_holder s) (g_cell s)
                   (set_nth (g_threads s) t (mk_thread (AtLock reading) rest)) (g_out s)
          end
      | AtLock reading =>
          match g_holder s with
          | Some _ => s                                   (* try_lock fails: back to the yield point *)
          | None =>                                       (* take the lock, critical section, release, return *)
              let p := critical (g_cell s) reading in
              mk_g None (Some p)
                   (set_nth (g_threads s) t (mk_thread Idle (t_pending th)))
                   (mk_ret t reading (fst p) (snd p) :: g_out s)
          end
      end
  end.

Definition init_from (c : cell) (cfg : config) : gstate :=
  mk_g None c (map (mk_thread Idle) cfg) [].

Definition exec (s : gstate) (sched : list tid) : gstate := fold_left step sched s.

(* returned timestamps in completion order, from initial contents c of LAST *)
Definition trace_from (c : cell) (cfg : config) (sched : list tid) : list ret :=
  rev (g_out (exec (init_from c cfg) sched)).
Definition ret_triple (r : ret) : tid * N * N := (r_tid r, r_time r, r_seq r).
Definition run_from (c : cell) (cfg : config) (sched : list tid) : list (tid * N * N) :=
  map ret_triple (trace_from c cfg sched).
(* a fresh process: LAST = None *)
Definition trace (cfg : config) (sched : list tid) : list ret := trace_from None cfg sched.
Definition run (cfg : config) (sched : list tid) : list (tid * N * N) := run_from None cfg sched.
Definition returned (l : list (tid * N * N)) : list (N * N) := map (fun x => (snd (fst x), snd x)) l.

(* ---- schedule vocabulary -------------------------------------------------------------------- *)

(* calls that do not overlap: every call is granted both of its steps consecutively; `order` lists
   the threads in the order in which they make their calls *)
Definition non_overlapping (order : list tid) : list tid := flat_map (fun t => [t; t]) order.

(* completion of whatever is unfinished when a schedule ends: thread 0 runs all its remaining calls,
   then thread 1, ...  (surplus grants are no-ops) *)
Fixpoint drain_order_from (t : tid) (cfg : config) : list tid :=
  match cfg with
  | [] => []
  | calls :: rest => repeat t (length calls) ++ drain_order_from (S t) rest
  end.
Definition drain_order (cfg : config) : list tid := drain_order_from O cfg.
Definition drain (cfg : config) : list tid := non_overlapping (drain_order cfg).
Definition run_all (cfg : config) (sched : list tid) : list (tid * N * N) := run cfg (sched ++ drain cfg).

(* which calls a non-overlapping order makes: (thread, clock reading) in the order of the calls;
   an entry for a thread without a pending call is skipped *)
Fixpoint dispatch (cfg : config) (order : list tid) : list (tid * N) :=
  match order with
  | [] => []
  | t :: o =>
      match nth_error cfg t with
      | Some (reading :: rest) => (t, reading) :: dispatch (set_nth cfg t rest) o
      | _ => dispatch cfg o
      end
  end.

Definition total_calls (cfg : config) : nat := length (concat cfg).

(* ------------------------------------------------------------------------------------------- *)
(* Pinned (original) code: two independent atomics                                              *)
(*                                                                                               *)
(*     static LAST_CREATION_TIMESTAMP: AtomicUsize = AtomicUsize::new(0);                        *)
(*     static LAST_CREATION_SEQ: AtomicUsize = AtomicUsize::new(0);                              *)
(*     let now = dtn_time_now();                                                                 *)
(*     if now != LAST_CREATION_TIMESTAMP.swap(now, Relaxed) { LAST_CREATION_SEQ.store(0, SeqCst) } *)
(*     let seq = LAST_CREATION_SEQ.fetch_add(1, SeqCst);                                         *)
(*     CreationTimestamp(now, seq)                                                               *)
(*                                                                                               *)
(* yield points (hooked AtomicUsize): before swap, before store, before fetch_add.               *)
(* ------------------------------------------------------------------------------------------- *)
Inductive ppc := PIdle | PAtSwap (now : N) | PAtStore (now : N) | PAtFetch (now : N).
Record pthread := mk_pthread { p_pc : ppc; p_pending : list N }.
Record pstate := mk_p { p_last : N; p_seq : N; p_threads : list pthread; p_out : list ret }.

Definition pinned_step (s : pstate) (t : tid) : pstate :=
  match nth_error (p_threads s) t with
  | None => s
  | Some th =>
      let upd pc' := set_nth (p_threads s) t (mk_pthread pc' (p_pending th)) in
      match p_pc th with
      | PIdle =>
          match p_pending th with
          | [] => s
          | reading :: rest =>
              mk_p (p_last s) (p_seq s) (set_nth (p_threads s) t (mk_pthread (PAtSwap reading) rest)) (p_out s)
          end
      | PAtSwap now =>
          mk_p now (p_seq s) (upd (if now =? p_last s then PAtFetch now else PAtStore now)) (p_out s)
      | PAtStore now => mk_p (p_last s) 0 (upd (PAtFetch now)) (p_out s)
      | PAtFetch now => mk_p (p_last s) (p_seq s + 1) (upd PIdle) (mk_ret t now now (p_seq s) :: p_out s)
      end
  end.

Definition pinned_init (cfg : config) : pstate := mk_p 0 0 (map (mk_pthread PIdle) cfg) [].
Definition pinned_exec (s : pstate) (sched : list tid) : pstate := fold_left pinned_step sched s.
Definition pinned_trace (cfg : config) (sched : list tid) : list ret :=
  rev (p_out (pinned_exec (pinned_init cfg) sched)).
Definition pinned_run (cfg : config) (sched : list tid) : list (tid * N * N) :=
  map ret_triple (pinned_trace cfg sched).

(* a call of the pinned code takes 3 or 4 grants: "run thread t until it returns once more" *)
Fixpoint pinned_finish_call (fuel : nat) (s : pstate) (t : tid) : pstate :=
  match fuel with
  | O => s
  | S f =>
      let s' := pinned_step s t in
      if Nat.ltb (length (p_out s)) (length (p_out s')) then s' else pinned_finish_call f s' t
  end.
Definition pinned_exec_calls (s : pstate) (order : list tid) : pstate :=
  fold_left (pinned_finish_call 4) order s.

(* decidable duplicate test on returned pairs (used by the vm_compute refutations) *)
Definition pair_eqb (p q : N * N) : bool := (fst p =? fst q) && (snd p =? snd q).
Fixpoint nodup_pairs (l : list (N * N)) : bool :=
  match l with
  | [] => true
  | p :: t => negb (existsb (pair_eqb p) t) && nodup_pairs t
  end.
