(* Model of bp7's hand-written `Deserialize` visitors (eid.rs, dtntime.rs (derived), primary.rs,
   canonical.rs, bundle.rs) running on the serde_cbor stream parser of Cbor/SerdeDe.v.
   Definitions only. *)
From BP7 Require Import Base.Prelude Base.Utf8 Gen.Consts Cbor.SerdeDe Model.Types.

Definition p_u64 (fuel : nat) := parse_value (vis_uint two64) fuel.
Definition p_u32 (fuel : nat) := parse_value (vis_uint u32_bound) fuel.
Definition p_u8 (fuel : nat) := parse_value (vis_uint u8_bound) fuel.
Definition p_bytebuf (fuel : nat) := parse_value (vis_bytebuf fuel) fuel.

(* derived Deserialize of a 2-field tuple struct / tuple of unsigned integers *)
Definition pair_body (b1 b2 : N) (fuel : nat) (acc : seq_access) (s : st) : res (N * N) * seq_access * st :=
  field (parse_value (vis_uint b1) fuel) acc s (fun a acc s =>
  field (parse_value (vis_uint b2) fuel) acc s (fun b acc s => (Ok (a, b), acc, s))).
Definition p_pair (b1 b2 : N) (fuel : nat) := parse_value (vis_seq (pair_body b1 b2 fuel)) fuel.

(* eid.rs:135-196 *)
Definition eid_body (fuel : nat) (acc : seq_access) (s : st) : res eid * seq_access * st :=
  field (p_u8 fuel) acc s (fun t acc s =>
    if t =? ENDPOINT_URI_SCHEME_DTN then
      (* seq.next_element().unwrap_or_default().unwrap_or_default(): errors are swallowed *)
      let '(r2, acc, s) := next_element (parse_value vis_string fuel) acc s in
      match r2 with
      | Panic q => (Panic q, acc, s)
      | Ok (Some (c :: n)) => (Ok (Dtn t (c :: n)), acc, s)
      | _ => (Ok eid_none, acc, s)
      end
    else if t =? ENDPOINT_URI_SCHEME_IPN then
      field (p_pair two64 two64 fuel) acc s (fun ns acc s =>
        (* ipnaddr.try_into() = EndpointID::with_ipn: node number must be >= 1 *)
        if fst ns <? 1 then (Err EValue, acc, s)
        else (Ok (Ipn ENDPOINT_URI_SCHEME_IPN (fst ns) (snd ns)), acc, s))
    else (Err EValue, acc, s)).
Definition p_eid (fuel : nat) := parse_value (vis_seq (eid_body fuel)) fuel.

(* the CRC field according to the CRC type (primary.rs:212-238, canonical.rs:220-246) *)
Definition crc_field {B} (fuel : nat) (crc_type : N) (acc : seq_access) (s : st)
  (k : crc_value -> seq_access -> st -> res B * seq_access * st) : res B * seq_access * st :=
  if crc_type =? CRC_NO then k CrcNo acc s
  else if crc_type =? CRC_16 then
    field (p_bytebuf fuel) acc s (fun buf acc s =>
      if Nat.eqb (length buf) 2 then k (Crc16 buf) acc s else (Err ELength, acc, s))
  else if crc_type =? CRC_32 then
    field (p_bytebuf fuel) acc s (fun buf acc s =>
      if Nat.eqb (length buf) 4 then k (Crc32 buf) acc s else (Err ELength, acc, s))
  else k (CrcUnknown crc_type) acc s.

(* primary.rs:156-256 *)
Definition primary_body (fuel : nat) (acc : seq_access) (s : st) : res primary * seq_access * st :=
  field (p_u32 fuel) acc s (fun version acc s =>
  field (p_u64 fuel) acc s (fun flags acc s =>
  field (p_u8 fuel) acc s (fun crc_type acc s =>
  field (p_eid fuel) acc s (fun dst acc s =>
  field (p_eid fuel) acc s (fun src acc s =>
  field (p_eid fuel) acc s (fun rpt acc s =>
  field (p_pair two64 two64 fuel) acc s (fun ts acc s =>
  field (p_u64 fuel) acc s (fun lifetime acc s =>
    (* primary.rs: `seq.size_hint().unwrap_or_else(|| ..)`: without a size hint (indefinite-length inner array,
       JSON) the 'is fragment' flag and the CRC type tell how many elements follow *)
    let rest := match size_hint acc with
                | Some n => n
                | None => (if bundle_flag flags BUNDLE_IS_FRAGMENT then 2 else 0)
                          + (if (crc_type =? CRC_16) || (crc_type =? CRC_32) then 1 else 0)
                end in
    let frag (k : N -> N -> seq_access -> st -> res primary * seq_access * st) :=
      if 1 <? rest then
        field (p_u64 fuel) acc s (fun off acc s =>
        field (p_u64 fuel) acc s (fun len acc s => k off len acc s))
      else k 0 0 acc s in
    frag (fun off len acc s =>
      crc_field fuel crc_type acc s (fun crc acc s =>
        (Ok (mkprimary version flags crc dst src rpt (fst ts) (snd ts) lifetime off len), acc, s))))))))))).
Definition p_primary (fuel : nat) := parse_value (vis_seq (primary_body fuel)) fuel.

(* canonical.rs:193-219: block-type-specific data decoded from the raw payload by a nested
   serde_cbor::from_slice *)
Definition decode_cdata (btype : N) (raw : list byte) : res cdata :=
  if btype =? PAYLOAD_BLOCK then Ok (Data raw)
  else if btype =? BUNDLE_AGE_BLOCK then
    match from_slice p_u64 raw with Ok a => Ok (BundleAge a) | Err _ => Err ECustom | Panic q => Panic q end
  else if btype =? HOP_COUNT_BLOCK then
    match from_slice (p_pair u8_bound u8_bound) raw with
    | Ok hc => Ok (HopCount (fst hc) (snd hc)) | Err _ => Err ECustom | Panic q => Panic q end
  else if btype =? PREVIOUS_NODE_BLOCK then
    match from_slice p_eid raw with Ok e => Ok (PreviousNode e) | Err _ => Err ECustom | Panic q => Panic q end
  else Ok (Unknown raw).

(* canonical.rs:156-260 *)
Definition canonical_body (fuel : nat) (acc : seq_access) (s : st) : res canonical * seq_access * st :=
  field (p_u64 fuel) acc s (fun btype acc s =>
  field (p_u64 fuel) acc s (fun bnum acc s =>
  field (p_u8 fuel) acc s (fun bflags acc s =>
  field (p_u8 fuel) acc s (fun crc_type acc s =>
  field (p_bytebuf fuel) acc s (fun raw acc s =>
    match decode_cdata btype raw with
    | Err e => (Err e, acc, s)
    | Panic q => (Panic q, acc, s)
    | Ok data =>
      crc_field fuel crc_type acc s (fun crc acc s =>
        (Ok (mkcanonical btype bnum bflags crc data), acc, s))
    end))))).
Definition p_canonical (fuel : nat) := parse_value (vis_seq (canonical_body fuel)) fuel.

(* bundle.rs:110-146 *)
Definition bundle_body (fuel : nat) (acc : seq_access) (s : st) : res bundle * seq_access * st :=
  field (p_primary fuel) acc s (fun prim acc s =>
    let '(r, acc, s) := seq_loop (p_canonical fuel) fuel acc s in
    (rmap (mkbundle prim) r, acc, s)).
Definition p_bundle (fuel : nat) := parse_value (vis_seq (bundle_body fuel)) fuel.

(* Bundle::try_from(&[u8]) / try_from(Vec<u8>) *)
Definition from_cbor (bs : list byte) : res bundle := from_slice p_bundle bs.
