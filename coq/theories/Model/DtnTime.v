(* Model of src/dtntime.rs (DtnTimeHelpers::unix / ::string, dtn_time_now, Display for
   CreationTimestamp) and of humantime 2.4.0's `format_rfc3339(..).to_string()` (src/date.rs,
   `impl Display for Rfc3339Timestamp`, Precision::Smart), transcribed with Rust's truncating
   `/` and `%` on i64 (Z.quot / Z.rem). *)
From Coq Require Import ZArith.
From BP7 Require Import Base.Prelude Base.Decimal Gen.Consts.

(* fn unix(self) -> u64 { self / 1000 + SECONDS1970_TO2K } *)
Definition unix (m : ovf_mode) (t : N) : res N := add64 m (t / 1000) SECONDS1970_TO2K.

(* pub fn dtn_time_now() -> DtnTime { ts_ms() - MS1970_TO2K } *)
Definition now (m : ovf_mode) (clock_ms : N) : res N := sub64 m clock_ms MS1970_TO2K.

Open Scope Z_scope.
Fixpoint months (ms : list Z) (mon rem : Z) : Z * Z :=
  match ms with
  | nil => (mon, rem)
  | m :: ms' => if rem <? m then (mon + 1, rem) else months ms' (mon + 1) (rem - m)
  end.
(* the part of the algorithm after `remdays` has been normalised into [0, 146097) *)
Definition civil_from_rem (remdays : Z) : Z * Z * Z :=   (* year offset from 2000, month, mday *)
  let c := Z.quot remdays 36524 in let c := if c =? 4 then 3 else c in
  let rem := remdays - c * 36524 in
  let q := Z.quot rem 1461 in let q := if q =? 25 then 24 else q in
  let rem := rem - q * 1461 in
  let y := Z.quot rem 365 in let y := if y =? 4 then 3 else y in
  let rem := rem - y * 365 in
  let yo := y + 4 * q + 100 * c in
  let '(mon, rem) := months [31;30;31;30;31;31;30;31;30;31;31;29] 0 rem in
  if mon + 2 >? 12 then (yo + 1, mon - 10, rem + 1) else (yo, mon + 2, rem + 1).
Definition civil (days : Z) : Z * Z * Z :=
  let d := days - 11017 in
  let qc := Z.quot d 146097 in
  let rem := Z.rem d 146097 in
  let '(qc, rem) := if rem <? 0 then (qc - 1, rem + 146097) else (qc, rem) in
  let '(yo, m, md) := civil_from_rem rem in
  (2000 + yo + 400 * qc, m, md).

Definition d8 (z : Z) : byte := n2b (48 + Z.to_N z).       (* b'0' + (z as u8) *)
(* Display for Rfc3339Timestamp with Precision::Smart; None = Err(fmt::Error) (year > 9999) *)
Definition format_rfc3339 (secs : Z) (nanos : Z) : option (list byte) :=
  if 253402300800 <=? secs then None else
  let '(year, mon, mday) := civil (Z.quot secs 86400) in
  let sod := Z.rem secs 86400 in
  let date := [d8 (Z.quot year 1000); d8 (Z.rem (Z.quot year 100) 10); d8 (Z.rem (Z.quot year 10) 10); d8 (Z.rem year 10);
               n2b 45; d8 (Z.quot mon 10); d8 (Z.rem mon 10); n2b 45; d8 (Z.quot mday 10); d8 (Z.rem mday 10); n2b 84;
               d8 (Z.quot (Z.quot sod 3600) 10); d8 (Z.rem (Z.quot sod 3600) 10); n2b 58;
               d8 (Z.rem (Z.quot (Z.quot sod 60) 10) 6); d8 (Z.rem (Z.quot sod 60) 10); n2b 58;
               d8 (Z.rem (Z.quot sod 10) 6); d8 (Z.rem sod 10)] in
  Some (if nanos =? 0 then date ++ [n2b 90]
        else date ++ [n2b 46; d8 (Z.quot nanos 100000000); d8 (Z.rem (Z.quot nanos 10000000) 10);
                      d8 (Z.rem (Z.quot nanos 1000000) 10); d8 (Z.rem (Z.quot nanos 100000) 10);
                      d8 (Z.rem (Z.quot nanos 10000) 10); d8 (Z.rem (Z.quot nanos 1000) 10);
                      d8 (Z.rem (Z.quot nanos 100) 10); d8 (Z.rem (Z.quot nanos 10) 10); d8 (Z.rem nanos 10); n2b 90]).
Close Scope Z_scope.

(* fallback text used when the formatter declines (beyond 9999-12-31): "<t>ms after 2000-01-01T00:00:00Z" *)
Definition fallback_suffix : list byte :=
  map n2b [109;115;32;97;102;116;101;114;32;50;48;48;48;45;48;49;45;48;49;84;48;48;58;48;48;58;48;48;90].
Definition fallback (t : N) : list byte := dec t ++ fallback_suffix.

(* fn string(self) -> String:
     let d = UNIX_EPOCH + Duration::from_millis(self) + Duration::from_millis(MS1970_TO2K);
     write!(s, "{}", format_rfc3339(d)) ; on Err -> fallback
   Duration's seconds are a u64 and SystemTime's an i64: (2^64-1)/1000 + 946684800 fits both, so these
   additions cannot overflow for any u64 `self` (stated as a side condition in the proofs: t < 2^64). *)
Definition string (t : N) : res (list byte) :=
  let ms := t + MS1970_TO2K in
  match format_rfc3339 (Z.of_N (ms / 1000)) (Z.of_N (ms mod 1000 * 1000000)) with
  | Some s => Ok s
  | None => Ok (fallback t)
  end.

(* impl Display for CreationTimestamp: write!(f, "{} {}", self.0.string(), self.1) *)
Definition timestamp_to_string (t seq : N) : res (list byte) :=
  do s <- string t; Ok (s ++ [n2b 32] ++ dec seq).
