(* Textual side of eid.rs: Display, TryFrom<&str>, the public constructors, the accessors and new_endpoint,
   transcribed line by line on UTF-8 byte lists.  Definitions only.

   The model is of the REPAIRED code (defect D15): DtnAddress::node_name used `.nth(2).expect(..)` and panicked for a
   decoded dtn name without two slashes (the decoder accepts any non-empty text, e.g. [1,"abc"]); the repair is
   `.nth(2).unwrap_or("")`, so node_name -- and with it node(), node_id(), new_endpoint() -- is total.
   Total (plain) functions: eid_scheme, eid_print, node_name, dtn_service_name, node, node_id, is_node_id,
   service_name, is_non_singleton, validate.  Functions that contain a partial Rust primitive return `eres`
   (with_dtn: the slice `host_string[2..]`; eid_parse via with_dtn; new_endpoint: `self.node().unwrap()` and the
   parser); Proofs/EidProofs.v shows they never reach EPanic on valid UTF-8. *)
From BP7 Require Import Base.Prelude Base.Decimal Base.Utf8 Base.Str Gen.Consts Model.Types.

(* eid.rs:70-96 EndpointIdError (payloads dropped) *)
Inductive eid_err :=
  | SchemeMissing | SchemeMismatch | UnknownScheme | InvalidNodeNumber | WrongNumberOfFieldsInIpn | InvalidService
  | NoneHasNoService | NoneNotZero | InvalidUrlFormat | NoneNotValidHost | CouldNotParseNumber | UnknownEidError.
Inductive eres (A : Type) := EOk (a : A) | EErr (k : eid_err) | EPanic (p : psite).
Arguments EOk {A}. Arguments EErr {A}. Arguments EPanic {A}.
Definition eres_to_res {A} (r : eres A) : res A :=
  match r with EOk a => Ok a | EErr _ => Err EValue | EPanic p => Panic p end.
Definition e_no_panic {A} (r : eres A) : Prop := forall p, r <> EPanic p.

(* ASCII constants *)
Definition c_slash : byte := x2f.   (* '/' *)
Definition c_colon : byte := x3a.   (* ':' *)
Definition c_dot : byte := x2e.     (* '.' *)
Definition c_tilde : byte := x7e.   (* '~' *)
Definition s_dtn : list byte := [x64; x74; x6e].                 (* "dtn" *)
Definition s_ipn : list byte := [x69; x70; x6e].                 (* "ipn" *)
Definition s_none : list byte := [x6e; x6f; x6e; x65].           (* "none" *)
Definition s_slashes : list byte := [c_slash; c_slash].                 (* "//" *)
Definition s_slashes_none : list byte := s_slashes ++ s_none.    (* "//none" *)
Definition s_dtn_url : list byte := s_dtn ++ [c_colon] ++ s_slashes.   (* "dtn://" *)

(* eid.rs:304-310 scheme() *)
Definition eid_scheme (e : eid) : list byte :=
  match e with DtnNone _ _ | Dtn _ _ => s_dtn | Ipn _ _ _ => s_ipn end.
(* eid.rs:35-39 / 64-68 / 325-334 Display *)
Definition ipn_print (node svc : N) : list byte := dec node ++ [c_dot] ++ dec svc.
Definition eid_print (e : eid) : list byte :=
  eid_scheme e ++ [c_colon] ++
  match e with
  | Ipn _ n s => ipn_print n s
  | Dtn _ ssp => ssp
  | DtnNone _ _ => s_none
  end.

(* eid.rs:48-53 DtnAddress::node_name, repaired: self.0.split('/').nth(2).unwrap_or("")
   (pinned tree: .expect("invalid internal dtn address format") = Panic PExpect when there are fewer than 3 pieces) *)
Definition node_name (ssp : list byte) : list byte :=
  match nth_error (split c_slash ssp) 2 with Some n => n | None => [] end.
(* eid.rs:54-56 self.0.splitn(4, '/').nth(3).filter(|&s| !s.is_empty()) *)
Definition dtn_service_name (ssp : list byte) : option (list byte) :=
  match nth_error (splitn 4 c_slash ssp) 3 with
  | Some [] => None
  | Some s => Some s
  | None => None
  end.
(* eid.rs:57-59 *)
Definition dtn_is_non_singleton (ssp : list byte) : bool :=
  starts_with [c_tilde] (match dtn_service_name ssp with Some s => s | None => [] end).

(* eid.rs:338-344 node() *)
Definition node (e : eid) : option (list byte) :=
  match e with
  | DtnNone _ _ => None
  | Dtn _ ssp => Some (node_name ssp)
  | Ipn _ n _ => Some (dec n)
  end.
(* eid.rs:346-352 node_id() *)
Definition node_id (e : eid) : option (list byte) :=
  match e with
  | DtnNone _ _ => None
  | Ipn _ n _ => Some (eid_scheme e ++ [c_colon] ++ dec n ++ [c_dot; x30])
  | Dtn _ ssp => Some (eid_scheme e ++ [c_colon] ++ s_slashes ++ node_name ssp ++ [c_slash])
  end.
(* eid.rs:354-360 *)
Definition is_node_id (e : eid) : bool :=
  match e with
  | DtnNone _ _ => false
  | Dtn _ ssp => match dtn_service_name ssp with None => true | Some _ => false end
  | Ipn _ _ s => s =? 0
  end.
(* eid.rs:361-373 *)
Definition service_name (e : eid) : option (list byte) :=
  match e with
  | DtnNone _ _ => None
  | Dtn _ ssp => dtn_service_name ssp
  | Ipn _ _ s => if s =? 0 then None else Some (dec s)
  end.
(* eid.rs:375-381 *)
Definition is_non_singleton (e : eid) : bool :=
  match e with Dtn _ ssp => dtn_is_non_singleton ssp | _ => false end.

(* eid.rs:383-411 validate() *)
Definition validate (e : eid) : option eid_err :=          (* None = Ok(()) *)
  match e with
  | Dtn _ _ => None
  | Ipn code n _ =>
      if negb (code =? ENDPOINT_URI_SCHEME_IPN) then Some SchemeMismatch
      else if n <? 1 then Some InvalidNodeNumber else None
  | DtnNone code addr =>
      if negb (code =? ENDPOINT_URI_SCHEME_DTN) then Some SchemeMismatch
      else if negb (addr =? 0) then Some NoneNotZero else None
  end.
Definition validated (e : eid) : eres eid := match validate e with Some k => EErr k | None => EOk e end.

(* eid.rs:213-231 with_dtn *)
Definition with_dtn (host_with_endpoint : list byte) : eres eid :=
  let host_string := if starts_with s_slashes host_with_endpoint then host_with_endpoint
                     else s_slashes ++ host_with_endpoint in
  match str_from 2 host_string with                     (* host_string[2..] *)
  | None => EPanic PSlice
  | Some rest =>
    let host_string := if mem_byte c_slash rest then host_string else host_string ++ [c_slash] in
    validated (Dtn ENDPOINT_URI_SCHEME_DTN host_string)
  end.
(* eid.rs:245-253 with_ipn *)
Definition with_ipn (host endpoint : N) : eres eid := validated (Ipn ENDPOINT_URI_SCHEME_IPN host endpoint).

(* eid.rs:417-456 TryFrom<&str> *)
Definition eid_parse (item : list byte) : eres eid :=
  match splitn 2 c_colon item with
  | [scheme; ssp] =>
    if bytes_eqb scheme s_dtn then
      if bytes_eqb ssp s_none then EOk eid_none
      else if negb (starts_with s_slashes ssp) then EErr InvalidUrlFormat
      else if bytes_eqb ssp s_slashes_none then EErr NoneNotValidHost
      else with_dtn ssp
    else if bytes_eqb scheme s_ipn then
      match split c_dot ssp with
      | [f0; f1] =>
        match parse_u64 f0 with
        | None => EErr CouldNotParseNumber
        | Some p1 =>
          match parse_u64 f1 with
          | None => EErr CouldNotParseNumber
          | Some p2 => with_ipn p1 p2
          end
        end
      | _ => EErr WrongNumberOfFieldsInIpn
      end
    else EErr UnknownScheme
  | _ => EErr InvalidUrlFormat                        (* items.len() != 2 *)
  end.

(* eid.rs:290-302 new_endpoint *)
Definition new_endpoint (e : eid) (ep : list byte) : eres eid :=
  match e with
  | DtnNone _ _ => EErr NoneHasNoService
  | Dtn _ _ =>
    match node e with                                 (* self.node().unwrap() *)
    | Some n => eid_parse (s_dtn_url ++ n ++ [c_slash] ++ ep)
    | None => EPanic PUnwrap
    end
  | Ipn _ n _ =>
    match parse_u64 (trim ep) with
    | Some number => with_ipn n number
    | None => EErr InvalidService
    end
  end.

(* ---------- the image of the textual API ----------
   normal form of an EID obtained from TryFrom<&str> / with_dtn / with_ipn / none / new_endpoint:
   Dtn 1 s with s valid UTF-8 beginning "//" and containing a third '/', DtnNone 1 0, Ipn 2 n s with 1 <= n < 2^64 *)
Definition api_eid (e : eid) : bool :=
  match e with
  | Dtn c s => (c =? ENDPOINT_URI_SCHEME_DTN) && utf8_valid s && starts_with s_slashes s && mem_byte c_slash (skipn 2 s)
  | DtnNone c a => (c =? ENDPOINT_URI_SCHEME_DTN) && (a =? 0)
  | Ipn c n s => (c =? ENDPOINT_URI_SCHEME_IPN) && (1 <=? n) && (n <? two64) && (s <? two64)
  end.
(* ... and its inductive description: everything the public textual API can return on Rust values
   (&str arguments are valid UTF-8, u64 arguments are below 2^64) *)
Inductive from_api : eid -> Prop :=
  | fa_none : from_api eid_none
  | fa_parse s e : utf8_valid s = true -> eid_parse s = EOk e -> from_api e
  | fa_with_dtn s e : utf8_valid s = true -> with_dtn s = EOk e -> from_api e
  | fa_with_ipn n s e : n < two64 -> s < two64 -> with_ipn n s = EOk e -> from_api e
  | fa_new_endpoint e0 ep e : from_api e0 -> utf8_valid ep = true -> new_endpoint e0 ep = EOk e -> from_api e.

(* strings are byte lists shorter than 2^64 (address space); only needed for the CBOR length head *)
Definition eid_fits (e : eid) : bool := match e with Dtn _ s => Nlen s <? two64 | _ => true end.
(* every text inside the value is valid UTF-8 (Rust String invariant) *)
Definition eid_utf8 (e : eid) : bool := match e with Dtn _ s => utf8_valid s | _ => true end.
