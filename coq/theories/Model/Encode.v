(* Model of bp7's hand-written `Serialize` impls as they execute on serde_cbor's serializer
   (shortest-form heads, definite-length arrays with the element count the code passes to
   serialize_seq, serde_bytes byte strings, text strings), of crc.rs (calculate_crc / check_crc)
   and of Bundle::to_cbor / crc_valid.   Definitions only. *)
From BP7 Require Import Base.Prelude Gen.Consts Cbor.Item Spec.CrcSpec Model.Types.

Definition enc_uint (n : N) : list byte := head 0 n.
Definition enc_bytes (b : list byte) : list byte := head 2 (Nlen b) ++ b.
Definition enc_text (b : list byte) : list byte := head 3 (Nlen b) ++ b.
Definition enc_arr (n : N) : list byte := head 4 n.

(* eid.rs:109-134 *)
Definition enc_eid (e : eid) : list byte :=
  enc_arr 2 ++
  match e with
  | Dtn c s => enc_uint c ++ enc_text s
  | DtnNone c a => enc_uint c ++ enc_uint a
  | Ipn c n s => enc_uint c ++ (enc_arr 2 ++ enc_uint n ++ enc_uint s)
  end.

(* the CRC field, emitted last and only when has_crc() *)
Definition enc_crc_field (c : crc_value) : list byte :=
  if has_crc c then match crc_bytes c with Some b => enc_bytes b | None => [] end else [].

(* primary.rs:119-154 *)
Definition primary_num_elems (p : primary) : N :=
  match has_crc (p_crc p), has_fragmentation p with
  | false, false => 8 | true, false => 9 | false, true => 10 | true, true => 11
  end.
Definition enc_primary (p : primary) : list byte :=
  enc_arr (primary_num_elems p) ++
  enc_uint (p_version p) ++ enc_uint (p_flags p) ++ enc_uint (crc_code (p_crc p)) ++
  enc_eid (p_dst p) ++ enc_eid (p_src p) ++ enc_eid (p_rpt p) ++
  (enc_arr 2 ++ enc_uint (p_time p) ++ enc_uint (p_seq p)) ++
  enc_uint (p_lifetime p) ++
  (if has_fragmentation p then enc_uint (p_frag_off p) ++ enc_uint (p_total_len p) else []) ++
  enc_crc_field (p_crc p).

(* canonical.rs:448-462: serde_cbor::to_vec(&CanonicalData) (untagged enum) *)
Definition enc_cdata (d : cdata) : list byte :=
  match d with
  | HopCount l c => enc_arr 2 ++ enc_uint l ++ enc_uint c
  | Data b => enc_bytes b
  | BundleAge a => enc_uint a
  | PreviousNode e => enc_eid e
  | Unknown b => enc_bytes b
  | DecodingError => [n2b 246]
  end.
(* canonical.rs:120-154 *)
Definition enc_canonical (b : canonical) : list byte :=
  enc_arr (if has_crc (c_crc b) then 6 else 5) ++
  enc_uint (c_type b) ++ enc_uint (c_num b) ++ enc_uint (c_flags b) ++ enc_uint (crc_code (c_crc b)) ++
  (match c_data b with
   | Data p => enc_bytes p
   | Unknown p => enc_bytes p
   | d => enc_bytes (enc_cdata d)
   end) ++
  enc_crc_field (c_crc b).

(* crc.rs:123-150 calculate_crc: backup, reset to the empty placeholder, encode, checksum, big-endian *)
Definition calculate_crc (enc : crc_value -> list byte) (c : crc_value) : crc_value :=
  let code := crc_code c in
  if code =? CRC_NO then CrcNo
  else if code =? CRC_16 then Crc16 (be_enc 2 (crc16_x25 (enc (reset_crc c))))
  else if code =? CRC_32 then Crc32 (be_enc 4 (crc32c (enc (reset_crc c))))
  else c.
Definition primary_calc_crc (p : primary) : crc_value :=
  calculate_crc (fun c => enc_primary (set_p_crc p c)) (p_crc p).
Definition canonical_calc_crc (b : canonical) : crc_value :=
  calculate_crc (fun c => enc_canonical (set_c_crc b c)) (c_crc b).
Definition primary_update_crc (p : primary) : primary := set_p_crc p (primary_calc_crc p).
Definition canonical_update_crc (b : canonical) : canonical := set_c_crc b (canonical_calc_crc b).

(* crc.rs:151-156 check_crc *)
Definition primary_check_crc (p : primary) : bool :=
  if has_crc (p_crc p) then opt_bytes_eqb (crc_bytes (primary_calc_crc p)) (crc_bytes (p_crc p)) else true.
Definition canonical_check_crc (b : canonical) : bool :=
  if has_crc (c_crc b) then opt_bytes_eqb (crc_bytes (canonical_calc_crc b)) (crc_bytes (c_crc b)) else true.

(* bundle.rs: calculate_crc, crc_valid, to_cbor *)
Definition bundle_calculate_crc (b : bundle) : bundle :=
  mkbundle (primary_update_crc (b_primary b)) (map canonical_update_crc (b_canonicals b)).
Definition crc_valid (b : bundle) : bool :=
  primary_check_crc (b_primary b) && forallb canonical_check_crc (b_canonicals b).
(* to_cbor: recompute all CRCs, then 0x9f, every block's own encoding, 0xff *)
Definition bundle_bytes (b : bundle) : list byte :=
  n2b 159 :: enc_primary (b_primary b) ++ concat (map enc_canonical (b_canonicals b)) ++ [n2b 255].
Definition to_cbor (b : bundle) : list byte * bundle :=
  let b' := bundle_calculate_crc b in (bundle_bytes b', b').
(* the second public encoding route, serde's `Serialize for Bundle` (bundle.rs: serialize_seq(Some(1 + canonicals.len())), then every block
   with its STORED CRC value): a definite-length outer array - what serde_cbor::to_vec(&bundle) emits *)
Definition bundle_bytes_serde (b : bundle) : list byte :=
  head 4 (1 + Nlen (b_canonicals b)) ++ enc_primary (b_primary b) ++ concat (map enc_canonical (b_canonicals b)).
