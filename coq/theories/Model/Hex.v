(* Model of helpers::hexify / helpers::unhexify (src/helpers.rs).
   Strings are UTF-8 byte lists. unhexify returns
     Ok (Some bytes)  for Ok(vec),   Ok None  for Err(ParseIntError),   Panic for a Rust panic.
   The str slicing `&s[i..i+2]` and u8::from_str_radix are modelled as the partial / lenient
   primitives they are, so that "never panics, never accepts a sign" are theorems about the
   guard in front of them and not artefacts of the model. *)
From BP7 Require Import Base.Prelude.

Definition hexdigit (n : N) : byte := if n <? 10 then n2b (48 + n) else n2b (87 + n).
Definition hexify (bs : list byte) : list byte :=
  flat_map (fun b => [hexdigit (b2n b / 16); hexdigit (b2n b mod 16)]) bs.

(* char::to_digit(16) on an ASCII byte *)
Definition hexval (b : byte) : option N :=
  let c := b2n b in
  if (48 <=? c) && (c <=? 57) then Some (c - 48)
  else if (97 <=? c) && (c <=? 102) then Some (c - 87)
  else if (65 <=? c) && (c <=? 70) then Some (c - 55)
  else None.
Definition is_hexdigit (b : byte) : bool := match hexval b with Some _ => true | None => false end.
Definition is_cont (b : byte) : bool := (128 <=? b2n b) && (b2n b <? 192).   (* UTF-8 continuation byte *)
Definition is_plus (b : byte) : bool := b2n b =? 43.
Definition is_minus (b : byte) : bool := b2n b =? 45.

(* u8::from_str_radix(src, 16): a lone sign is an error, a leading '+' is skipped, '-' is a bad digit *)
Fixpoint radix16_digits (l : list byte) (acc : N) : option N :=
  match l with
  | [] => Some acc
  | c :: t => match hexval c with
              | None => None
              | Some v => let acc' := acc * 16 + v in if acc' <? 256 then radix16_digits t acc' else None
              end
  end.
Definition u8_from_str_radix16 (src : list byte) : option N :=
  match src with
  | [] => None
  | [c] => if is_plus c || is_minus c then None else radix16_digits [c] 0
  | c :: rest => if is_plus c then radix16_digits rest 0 else radix16_digits src 0
  end.

(* (0..len).step_by(2).map(|i| from_str_radix(&s[i..i+2])).collect::<Result<Vec<_>,_>>()
   evaluated lazily: the first parse error ends the iteration before any later slice is taken *)
Fixpoint unhex_loop (rest : list byte) : res (option (list byte)) :=
  match rest with
  | [] => Ok (Some [])
  | [_] => Panic PSlice                                             (* i + 2 > len *)
  | a :: b :: t =>
      if is_cont a || (match t with c :: _ => is_cont c | [] => false end)
      then Panic PSlice                                             (* not a char boundary *)
      else match u8_from_str_radix16 [a; b] with
           | None => Ok None
           | Some v => match unhex_loop t with
                       | Ok (Some l) => Ok (Some (n2b v :: l))
                       | o => o
                       end
           end
  end.

(* the guard: odd length, signs, non-hex and non-ASCII input are errors *)
Definition unhexify (s : list byte) : res (option (list byte)) :=
  if Nat.odd (length s) || negb (forallb is_hexdigit s) then Ok None else unhex_loop s.

(* ASCII lower-casing (str::to_lowercase restricted to ASCII, which is all C18 needs) *)
Definition lower_byte (b : byte) : byte :=
  let c := b2n b in if (65 <=? c) && (c <=? 90) then n2b (c + 32) else b.
Definition lower (s : list byte) : list byte := map lower_byte s.
