(* HMAC (RFC 2104) over the SHA-2 functions of Model/Sha2.v, and the variant selector of the
   BPSec default security contexts (RFC 9173, BIB-HMAC-SHA2 "SHA Variant" parameter). *)
From BP7 Require Import Base.Prelude Model.Sha2.

Definition xor_byte (c : N) (b : byte) : byte := n2b (N.lxor (b2n b) c).

(* RFC 2104 section 2:  H(K xor opad, H(K xor ipad, text)),  B = block_size.
   A key longer than B is replaced by H(key); the key is then zero-padded to B bytes. *)
Definition hmac_key (hash : list byte -> list byte) (block_size : nat) (key : list byte) : list byte :=
  let k0 := if Nat.ltb block_size (length key) then hash key else key in
  k0 ++ zeros (block_size - length k0).

Definition hmac (hash : list byte -> list byte) (block_size : nat) (key msg : list byte) : list byte :=
  let k := hmac_key hash block_size key in
  hash (map (xor_byte 0x5c) k ++ hash (map (xor_byte 0x36) k ++ msg)).

Definition hmac_sha256 (key msg : list byte) : list byte := hmac sha256 64 key msg.
Definition hmac_sha384 (key msg : list byte) : list byte := hmac sha384 128 key msg.
Definition hmac_sha512 (key msg : list byte) : list byte := hmac sha512 128 key msg.

(* RFC 9173 section 3.3.1, SHA variant codes: 5 = HMAC 256/256, 6 = HMAC 384/384, 7 = HMAC 512/512 *)
Definition hmac_sha2 (variant : N) (key msg : list byte) : option (list byte) :=
  match variant with
  | 5 => Some (hmac_sha256 key msg)
  | 6 => Some (hmac_sha384 key msg)
  | 7 => Some (hmac_sha512 key msg)
  | _ => None
  end.

Lemma hmac_sha256_length key msg : length (hmac_sha256 key msg) = 32%nat.
Proof. apply sha256_length. Qed.
Lemma hmac_sha384_length key msg : length (hmac_sha384 key msg) = 48%nat.
Proof. apply sha384_length. Qed.
Lemma hmac_sha512_length key msg : length (hmac_sha512 key msg) = 64%nat.
Proof. apply sha512_length. Qed.
Lemma hmac_sha2_length variant key msg tag :
  hmac_sha2 variant key msg = Some tag ->
  (variant = 5 /\ length tag = 32%nat) \/ (variant = 6 /\ length tag = 48%nat) \/ (variant = 7 /\ length tag = 64%nat).
Proof.
  unfold hmac_sha2.
  destruct variant as [|[[[|[]|]|[|[]|]|]|[[|[]|]|[|[]|]|]|]]; try discriminate;
    intros H; inversion H; subst tag.
  - right; right. split; [reflexivity|apply hmac_sha512_length].
  - left. split; [reflexivity|apply hmac_sha256_length].
  - right; left. split; [reflexivity|apply hmac_sha384_length].
Qed.
Lemma hmac_sha2_none variant key msg :
  hmac_sha2 variant key msg = None <-> variant <> 5 /\ variant <> 6 /\ variant <> 7.
Proof.
  unfold hmac_sha2.
  destruct variant as [|[[[|[]|]|[|[]|]|]|[[|[]|]|[|[]|]|]|]];
    (split; [intros H; try discriminate H; repeat split; discriminate
            |intros (H5 & H6 & H7); try reflexivity; exfalso; first [apply H5; reflexivity|apply H6; reflexivity|apply H7; reflexivity]]).
Qed.

(* ---------- published vectors, checked by the kernel ---------- *)
Module HmacVectors.
  Import Coq.Strings.String.
  Local Open Scope string_scope.

  (* RFC 4231 test case 1 *)
  Definition key1 := repeat_byte x0b 20.
  Definition data1 := str_bytes "Hi There".
  Example rfc4231_1_sha256 : hmac_sha256 key1 data1
    = hex_bytes "b0344c61d8db38535ca8afceaf0bf12b881dc200c9833da726e9376c2e32cff7".
  Proof. vm_compute. reflexivity. Qed.
  Example rfc4231_1_sha384 : hmac_sha384 key1 data1
    = hex_bytes ("afd03944d84895626b0825f4ab46907f15f9dadbe4101ec6"
              ++ "82aa034c7cebc59cfaea9ea9076ede7f4af152e8b2fa9cb6").
  Proof. vm_compute. reflexivity. Qed.
  Example rfc4231_1_sha512 : hmac_sha512 key1 data1
    = hex_bytes ("87aa7cdea5ef619d4ff0b4241a1d6cb02379f4e2ce4ec2787ad0b30545e17cde"
              ++ "daa833b7d6b8a702038b274eaea3f4e4be9d914eeb61f1702e696c203a126854").
  Proof. vm_compute. reflexivity. Qed.

  (* RFC 4231 test case 2 *)
  Definition key2 := str_bytes "Jefe".
  Definition data2 := str_bytes "what do ya want for nothing?".
  Example rfc4231_2_sha256 : hmac_sha256 key2 data2
    = hex_bytes "5bdcc146bf60754e6a042426089575c75a003f089d2739839dec58b964ec3843".
  Proof. vm_compute. reflexivity. Qed.
  Example rfc4231_2_sha384 : hmac_sha384 key2 data2
    = hex_bytes ("af45d2e376484031617f78d2b58a6b1b9c7ef464f5a01b47"
              ++ "e42ec3736322445e8e2240ca5e69e2c78b3239ecfab21649").
  Proof. vm_compute. reflexivity. Qed.
  Example rfc4231_2_sha512 : hmac_sha512 key2 data2
    = hex_bytes ("164b7a7bfcf819e2e395fbe73b56e0a387bd64222e831fd610270cd7ea250554"
              ++ "9758bf75c05a994a6d034f65f8f0e6fdcaeab1a34d4a6b4b636e070a38bce737").
  Proof. vm_compute. reflexivity. Qed.

  (* RFC 4231 test case 6: key longer than the block size of either hash *)
  Definition key6 := repeat_byte xaa 131.
  Definition data6 := str_bytes "Test Using Larger Than Block-Size Key - Hash Key First".
  Example rfc4231_6_sha256 : hmac_sha256 key6 data6
    = hex_bytes "60e431591ee0b67f0d8a26aacbf5b77f8e0bc6213728c5140546040f0ee37f54".
  Proof. vm_compute. reflexivity. Qed.
  Example rfc4231_6_sha384 : hmac_sha384 key6 data6
    = hex_bytes ("4ece084485813e9088d2c63a041bc5b44f9ef1012a2b588f"
              ++ "3cd11f05033ac4c60c2ef6ab4030fe8296248df163f44952").
  Proof. vm_compute. reflexivity. Qed.
  Example rfc4231_6_sha512 : hmac_sha512 key6 data6
    = hex_bytes ("80b24263c7c1a3ebb71493c1dd7be8b49b46d1f41b4aeec1121b013783f8f352"
              ++ "6b56d037e05f2598bd0fd2215d6a1e5295e64f73f63f0aec8b915a985d786598").
  Proof. vm_compute. reflexivity. Qed.

  (* RFC 9173 Appendix A.1.3: BIB-HMAC-SHA2 over the payload block, SHA variant 7, scope flags 0.
     IPPT = scope flags 0x00 ++ CBOR byte string (0x58 0x23) "Ready to generate a 32-byte payload". *)
  Definition key9173 := hex_bytes "1a2b1a2b1a2b1a2b1a2b1a2b1a2b1a2b".
  Definition ippt9173 :=
    hex_bytes "005823526561647920746f2067656e657261746520612033322d62797465207061796c6f6164".
  Example ippt9173_text :
    ippt9173 = (hex_bytes "005823" ++ str_bytes "Ready to generate a 32-byte payload")%list.
  Proof. vm_compute. reflexivity. Qed.
  Example rfc9173_a1 : hmac_sha2 7 key9173 ippt9173
    = Some (hex_bytes ("3bdc69b3a34a2b5d3a8554368bd1e808f606219d2a10a846eae3886ae4ecc83c"
                    ++ "4ee550fdfb1cc636b904e2f1a73e303dcd4b6ccece003e95e8164dcc89a156e1")).
  Proof. vm_compute. reflexivity. Qed.

  Example hmac_sha2_variants :
    (hmac_sha2 5 key2 data2, hmac_sha2 6 key2 data2, hmac_sha2 4 key2 data2, hmac_sha2 8 key2 data2, hmac_sha2 0 key2 data2)
    = (Some (hmac_sha256 key2 data2), Some (hmac_sha384 key2 data2), None, None, None).
  Proof. vm_compute. reflexivity. Qed.
End HmacVectors.

Print Assumptions hmac_sha256_length.
Print Assumptions hmac_sha384_length.
Print Assumptions hmac_sha512_length.
Print Assumptions hmac_sha2_length.
Print Assumptions sha256_length.
Print Assumptions sha384_length.
Print Assumptions sha512_length.
