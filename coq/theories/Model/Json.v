(* Model of Bundle::to_json / Bundle::try_from(String) (bundle.rs:345-349, 433-443): bp7's hand-written
   Serialize / Deserialize impls (the SAME impls the CBOR path uses, Model/Encode.v / Model/Decode.v)
   running against serde_json 1.0.151 instead of serde_cbor.

   What serde_json contributes, and what is modelled here, is the serde *token tree*:
     - serializer: integers -> numbers, String -> string, serde_bytes::Bytes -> array of numbers
       (serialize_bytes), serialize_seq(len) -> array with exactly the elements emitted (the length
       argument is ignored: JSON arrays have no length prefix);
     - deserializer: SeqAccess::size_hint() = None; next_element on `]` gives None; after visit_seq
       `end_seq` demands that every element was consumed (else: trailing characters);
       deserialize_u8/u32/u64 accept a non-negative integer literal in range; deserialize_string a
       string; deserialize_byte_buf a string or an array of u8; a scalar of the wrong type IS consumed
       before invalid_type is reported (peek_invalid_type), `[` and `{` are not — this matters at the
       one place where bp7 swallows a deserializer error (eid.rs:158).
   The text layer of serde_json (lexing, escapes, number syntax, whitespace, recursion limit 128 —
   bundles nest 5 deep) is NOT modelled: `print` below reproduces the compact writer only so that
   `to_json` output can be diffed byte for byte, and parse (print t) = t is trusted (DESIGN.md 3).
   Definitions only. *)
From BP7 Require Import Base.Prelude Base.Decimal Gen.Consts Cbor.SerdeDe Model.Hex Model.Types Model.Encode Model.Decode.

Inductive jtok :=
  | JNum (n : N)                 (* a non-negative integer literal *)
  | JStr (s : list byte)         (* the string's UTF-8 bytes (unescaped) *)
  | JBool (b : bool)
  | JNull
  | JSeq (l : list jtok).

(* ================= serializer side ================= *)

(* serde_bytes::Bytes -> serialize_bytes -> [b0,b1,...] *)
Definition j_bytes (b : list byte) : jtok := JSeq (map (fun x => JNum (b2n x)) b).

(* eid.rs:109-134 *)
Definition j_eid (e : eid) : jtok :=
  JSeq match e with
       | Dtn c s => [JNum c; JStr s]                     (* DtnAddress(String): newtype -> the string *)
       | DtnNone c a => [JNum c; JNum a]
       | Ipn c n s => [JNum c; JSeq [JNum n; JNum s]]    (* IpnAddress(u64,u64): tuple struct -> array *)
       end.

(* the CRC field, emitted last and only when has_crc() *)
Definition j_crc_field (c : crc_value) : list jtok :=
  if has_crc c then match crc_bytes c with Some b => [j_bytes b] | None => [] end else [].

(* primary.rs:119-154 (the element count passed to serialize_seq is ignored by serde_json) *)
Definition j_primary (p : primary) : jtok :=
  JSeq ([JNum (p_version p); JNum (p_flags p); JNum (crc_code (p_crc p));
         j_eid (p_dst p); j_eid (p_src p); j_eid (p_rpt p);
         JSeq [JNum (p_time p); JNum (p_seq p)];         (* CreationTimestamp(DtnTime,u64) *)
         JNum (p_lifetime p)]
        ++ (if has_fragmentation p then [JNum (p_frag_off p); JNum (p_total_len p)] else [])
        ++ j_crc_field (p_crc p)).

(* canonical.rs:120-154: payload / unknown data as they are, every other variant as the bytes of
   serde_cbor::to_vec(&data) — CBOR inside JSON, exactly as in the CBOR path *)
Definition j_canonical (b : canonical) : jtok :=
  JSeq ([JNum (c_type b); JNum (c_num b); JNum (c_flags b); JNum (crc_code (c_crc b));
         match c_data b with
         | Data p => j_bytes p
         | Unknown p => j_bytes p
         | d => j_bytes (enc_cdata d)
         end]
        ++ j_crc_field (c_crc b)).

(* bundle.rs:97-109 *)
Definition j_bundle (b : bundle) : jtok :=
  JSeq (j_primary (b_primary b) :: map j_canonical (b_canonicals b)).

(* bundle.rs:345-349: self.calculate_crc() (CRCs over the CBOR encoding of each block), then
   serde_json::to_string(&self) *)
Definition to_tokens (b : bundle) : jtok * bundle :=
  let b' := bundle_calculate_crc b in (j_bundle b', b').

(* ================= deserializer side ================= *)
(* A SeqAccess is the list of elements not yet consumed.  Element deserializers are functions
   jtok -> res A (serde_json has no look-ahead across elements). *)

(* SeqAccess::next_element *)
Definition jnext {A} (p : jtok -> res A) (acc : list jtok) : res (option A) * list jtok :=
  match acc with
  | [] => (Ok None, [])
  | t :: r => (rmap Some (p t), r)
  end.
(* `seq.next_element()?.ok_or_else(|| invalid_length(..))?` then continue with k *)
Definition jfield {A B} (p : jtok -> res A) (acc : list jtok)
  (k : A -> list jtok -> res B * list jtok) : res B * list jtok :=
  let '(r, acc) := jnext p acc in
  match r with
  | Ok (Some a) => k a acc
  | Ok None => (Err ELength, acc)
  | Err e => (Err e, acc)
  | Panic q => (Panic q, acc)
  end.
(* `while let Some(x) = seq.next_element()? { v.push(x) }` (structural in the remaining elements) *)
Fixpoint jseq_loop {A} (p : jtok -> res A) (acc : list jtok) : res (list A) * list jtok :=
  match acc with
  | [] => (Ok [], [])
  | t :: r =>
    match p t with
    | Ok a => let '(r', acc') := jseq_loop p r in (rmap (cons a) r', acc')
    | Err e => (Err e, r)
    | Panic q => (Panic q, r)
    end
  end.
(* deserialize_seq / deserialize_any on `[`: visit_seq, then end_seq; any other token is an
   invalid type for a visitor that only implements visit_seq *)
Definition j_seq {A} (body : list jtok -> res A * list jtok) (t : jtok) : res A :=
  match t with
  | JSeq l =>
    let '(r, rest) := body l in
    match r with
    | Ok a => match rest with [] => Ok a | _ => Err ETrailing end
    | Err e => Err e
    | Panic q => Panic q
    end
  | _ => Err EType
  end.

(* u8/u32/u64::deserialize: an integer literal below the bound; literals >= 2^64 are parsed as f64
   (visit_f64 -> invalid type) *)
Definition j_uint (bound : N) (t : jtok) : res N :=
  match t with
  | JNum n => if n <? bound then Ok n else if n <? two64 then Err EValue else Err EType
  | _ => Err EType
  end.
Definition j_u64 := j_uint two64.
Definition j_u32 := j_uint u32_bound.
Definition j_u8 := j_uint u8_bound.
(* String::deserialize *)
Definition j_string (t : jtok) : res (list byte) :=
  match t with JStr s => Ok s | _ => Err EType end.
(* serde_bytes::ByteBuf: deserialize_byte_buf accepts a string (its bytes) or an array of u8 *)
Definition j_bytebuf (t : jtok) : res (list byte) :=
  match t with
  | JStr s => Ok s
  | JSeq _ => j_seq (fun acc => let '(r, acc) := jseq_loop j_u8 acc in (rmap (map n2b) r, acc)) t
  | _ => Err EType
  end.

(* derived Deserialize of a 2-field tuple struct of unsigned integers (IpnAddress, CreationTimestamp) *)
Definition jpair_body (b1 b2 : N) (acc : list jtok) : res (N * N) * list jtok :=
  jfield (j_uint b1) acc (fun a acc =>
  jfield (j_uint b2) acc (fun b acc => (Ok (a, b), acc))).
Definition j_pair (b1 b2 : N) := j_seq (jpair_body b1 b2).

(* next_element::<String>() where the caller looks at the access again after an Err: serde_json has
   consumed a scalar of the wrong type (number, true/false/null) but not an array *)
Definition jnext_string (acc : list jtok) : res (option (list byte)) * list jtok :=
  match acc with
  | [] => (Ok None, [])
  | JStr s :: r => (Ok (Some s), r)
  | JSeq l :: r => (Err EType, JSeq l :: r)
  | _ :: r => (Err EType, r)
  end.

(* eid.rs:135-196 *)
Definition jeid_body (acc : list jtok) : res eid * list jtok :=
  jfield j_u8 acc (fun t acc =>
    if t =? ENDPOINT_URI_SCHEME_DTN then
      (* seq.next_element().unwrap_or_default().unwrap_or_default(): errors are swallowed *)
      let '(r2, acc) := jnext_string acc in
      match r2 with
      | Panic q => (Panic q, acc)
      | Ok (Some (c :: n)) => (Ok (Dtn t (c :: n)), acc)
      | _ => (Ok eid_none, acc)
      end
    else if t =? ENDPOINT_URI_SCHEME_IPN then
      jfield (j_pair two64 two64) acc (fun ns acc =>
        if fst ns <? 1 then (Err EValue, acc)
        else (Ok (Ipn ENDPOINT_URI_SCHEME_IPN (fst ns) (snd ns)), acc))
    else (Err EValue, acc)).
Definition j_eid_de := j_seq jeid_body.

(* the CRC field according to the CRC type (primary.rs:212-238, canonical.rs:220-246) *)
Definition jcrc_field {B} (crc_type : N) (acc : list jtok)
  (k : crc_value -> list jtok -> res B * list jtok) : res B * list jtok :=
  if crc_type =? CRC_NO then k CrcNo acc
  else if crc_type =? CRC_16 then
    jfield j_bytebuf acc (fun buf acc =>
      if Nat.eqb (length buf) 2 then k (Crc16 buf) acc else (Err ELength, acc))
  else if crc_type =? CRC_32 then
    jfield j_bytebuf acc (fun buf acc =>
      if Nat.eqb (length buf) 4 then k (Crc32 buf) acc else (Err ELength, acc))
  else k (CrcUnknown crc_type) acc.

(* primary.rs:200-208 AFTER the repair of D12: `seq.size_hint().unwrap_or_else(|| ..)` — without a
   size hint the number of remaining elements is derived from the 'is fragment' flag and the CRC type *)
Definition json_rest (flags crc_type : N) : N :=
  (if bundle_flag flags BUNDLE_IS_FRAGMENT then 2 else 0)
  + (if (crc_type =? CRC_16) || (crc_type =? CRC_32) then 1 else 0).
(* the pinned tree: `seq.size_hint().unwrap_or(0)` *)
Definition json_rest_pinned (flags crc_type : N) : N := 0.

(* primary.rs:156-256; `rest_of` = what `rest` is when size_hint() is None (always, for serde_json) *)
Definition jprimary_body_with (rest_of : N -> N -> N) (acc : list jtok) : res primary * list jtok :=
  jfield j_u32 acc (fun version acc =>
  jfield j_u64 acc (fun flags acc =>
  jfield j_u8 acc (fun crc_type acc =>
  jfield j_eid_de acc (fun dst acc =>
  jfield j_eid_de acc (fun src acc =>
  jfield j_eid_de acc (fun rpt acc =>
  jfield (j_pair two64 two64) acc (fun ts acc =>
  jfield j_u64 acc (fun lifetime acc =>
    let rest := rest_of flags crc_type in
    let frag (k : N -> N -> list jtok -> res primary * list jtok) :=
      if 1 <? rest then
        jfield j_u64 acc (fun off acc =>
        jfield j_u64 acc (fun len acc => k off len acc))
      else k 0 0 acc in
    frag (fun off len acc =>
      jcrc_field crc_type acc (fun crc acc =>
        (Ok (mkprimary version flags crc dst src rpt (fst ts) (snd ts) lifetime off len), acc))))))))))).
Definition jprimary_body := jprimary_body_with json_rest.
Definition j_primary_de := j_seq jprimary_body.

(* canonical.rs:156-260; the nested serde_cbor::from_slice is Model/Decode.v decode_cdata *)
Definition jcanonical_body (acc : list jtok) : res canonical * list jtok :=
  jfield j_u64 acc (fun btype acc =>
  jfield j_u64 acc (fun bnum acc =>
  jfield j_u8 acc (fun bflags acc =>
  jfield j_u8 acc (fun crc_type acc =>
  jfield j_bytebuf acc (fun raw acc =>
    match decode_cdata btype raw with
    | Err e => (Err e, acc)
    | Panic q => (Panic q, acc)
    | Ok data =>
      jcrc_field crc_type acc (fun crc acc =>
        (Ok (mkcanonical btype bnum bflags crc data), acc))
    end))))).
Definition j_canonical_de := j_seq jcanonical_body.

(* bundle.rs:110-146 *)
Definition jbundle_body_with (prim : jtok -> res primary) (acc : list jtok) : res bundle * list jtok :=
  jfield prim acc (fun prim acc =>
    let '(r, acc) := jseq_loop j_canonical_de acc in
    (rmap (mkbundle prim) r, acc)).
Definition jbundle_body := jbundle_body_with j_primary_de.

(* Bundle::try_from(String) = serde_json::from_str, seen from the token tree *)
Definition from_tokens (t : jtok) : res bundle := j_seq jbundle_body t.
(* the same on the pinned tree (D12), kept for the refutation witness *)
Definition from_tokens_pinned (t : jtok) : res bundle :=
  j_seq (jbundle_body_with (j_seq (jprimary_body_with json_rest_pinned))) t.

(* ================= compact printer (serde_json CompactFormatter) ================= *)
(* format_escaped_str_contents: the double quote, the backslash and the control characters below 0x20; everything else
   (including 0x7f and all multi-byte UTF-8) verbatim *)
Definition esc_byte (b : byte) : list byte :=
  let c := b2n b in
  if c =? 34 then [n2b 92; n2b 34]                  (* backslash, quote *)
  else if c =? 92 then [n2b 92; n2b 92]             (* backslash, backslash *)
  else if c =? 8 then [n2b 92; n2b 98]              (* \b *)
  else if c =? 9 then [n2b 92; n2b 116]             (* \t *)
  else if c =? 10 then [n2b 92; n2b 110]            (* \n *)
  else if c =? 12 then [n2b 92; n2b 102]            (* \f *)
  else if c =? 13 then [n2b 92; n2b 114]            (* \r *)
  else if c <? 32 then [n2b 92; n2b 117; n2b 48; n2b 48; hexdigit (c / 16); hexdigit (c mod 16)]   (* \u00xx, lower case *)
  else [b].
Definition print_str (s : list byte) : list byte := n2b 34 :: flat_map esc_byte s ++ [n2b 34].

Fixpoint print (t : jtok) : list byte :=
  match t with
  | JNum n => dec_any n
  | JStr s => print_str s
  | JBool true => map n2b [116; 114; 117; 101]
  | JBool false => map n2b [102; 97; 108; 115; 101]
  | JNull => map n2b [110; 117; 108; 108]
  | JSeq l =>
    n2b 91 ::
    (fix pl (l : list jtok) : list byte :=
       match l with
       | [] => []
       | x :: r => print x ++ match r with [] => [] | _ => n2b 44 :: pl r end
       end) l ++ [n2b 93]
  end.

(* Bundle::to_json as text *)
Definition to_json (b : bundle) : list byte * bundle :=
  let '(t, b') := to_tokens b in (print t, b').
