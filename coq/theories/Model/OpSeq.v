(* C11: operation sequences over the bundle mutators of Model/Ops.v, the start states produced by the public
   builders (BundleBuilder::build, new_std_payload_bundle), the admissible arguments and the block-list
   invariant.  Definitions only; the proofs are in Proofs/InvariantProofs.v. *)
From BP7 Require Import Base.Prelude Gen.Consts Model.Types Model.Encode Model.Wf Model.WfExt Model.Validate Model.Ops Spec.Rules.

(* ---- operations ---- *)
Inductive op :=
  | AddBlock (c : canonical)               (* Bundle::add_canonical_block(c); c_num c = the requested number *)
  | SetPayload (d : list byte)             (* Bundle::set_payload(d) *)
  | SetPayloadBlock (c : canonical)        (* Bundle::set_payload_block(c) *)
  | SetCrc (code : N)                      (* Bundle::set_crc(code) *)
  | UpdateExt (node : eid) (rt clock : N). (* Bundle::update_extensions(node, rt) with the clock at `clock` ms (Unix) *)

(* the state after the call; for update_extensions whatever the returned bool is *)
Definition step (m : ovf_mode) (b : bundle) (o : op) : res bundle :=
  match o with
  | AddBlock c => Ok (add_canonical_block b c)
  | SetPayload d => Ok (set_payload b d)
  | SetPayloadBlock c => Ok (set_payload_block b c)
  | SetCrc k => Ok (set_crc b k)
  | UpdateExt node rt clock => do rb <- update_extensions m clock node rt b; Ok (snd rb)
  end.
Fixpoint fold_res {S O : Type} (f : S -> O -> res S) (ops : list O) (s : S) : res S :=
  match ops with
  | [] => Ok s
  | o :: t => do s' <- f s o; fold_res f t s'
  end.

(* the payload most recently set (the start bundle's payload when no operation set one) *)
Definition payload_after (cur : option (list byte)) (o : op) : option (list byte) :=
  match o with
  | SetPayload d => Some d
  | SetPayloadBlock c => match c_data c with Data d => Some d | _ => cur end
  | _ => cur
  end.
Definition last_payload_set (b0 : bundle) (ops : list op) : option (list byte) := fold_left payload_after ops (payload b0).

(* ---- start states ---- *)
(* bundle.rs:73-85 BundleBuilder::build: sort, then insist that the last block carries payload data *)
Definition carries_data (c : canonical) : bool := match c_data c with Data _ => true | _ => false end.
Definition builder_build (p : primary) (cs : list canonical) : option bundle :=
  let s := sort_desc cs in
  match last_opt s with
  | Some c => if carries_data c then Some (mkbundle p s) else None
  | None => None
  end.
(* bundle.rs new_std_payload_bundle(src, dst, data) with the creation timestamp (t, seq) drawn from the clock *)
Definition new_std_payload_bundle (src dst : eid) (t seq : N) (data : list byte) : bundle :=
  sort_canonicals
    (set_crc (mkbundle (mkprimary DTN_VERSION (N.lor BUNDLE_MUST_NOT_FRAGMENTED BUNDLE_STATUS_REQUEST_DELIVERY) CrcNo
                                  dst src src t seq 3600000 0 0)
                       [new_payload_block 0 data; mkcanonical HOP_COUNT_BLOCK 2 0 CrcNo (HopCount 32 0)])
             CRC_NO).

(* what both builders guarantee about the block list *)
Definition built_by_builders (b : bundle) : Prop :=
  (exists cs0, b_canonicals b = sort_desc cs0) /\
  (exists c, last_opt (b_canonicals b) = Some c /\ carries_data c = true).
(* The start state of the property: a builder bundle that validates.  wf_bundle_u (Model/WfExt.v) is the representation
   side condition of C01 extended to unknown CRC types: integer widths (true of every Rust value), EIDs in constructor normal
   form, CRC values of the right length or CrcUnknown k with 3 <= k <= 255, and the data variant of every block determined
   by its block type.  The last part is NOT implied by validate: a block of type 6/7/10 carrying CanonicalData::Unknown
   passes extension_validation, but it does not round-trip (the decoder re-reads its bytes as the typed variant), so it
   has to be excluded here.  wf_bundle (Model/Wf.v, CRC types 0/1/2 only) implies wf_bundle_u. *)
Definition start_ok (b : bundle) : Prop := built_by_builders b /\ validate b = [] /\ wf_bundle_u b = true.

(* ---- admissible arguments ---- *)
(* validate's switch for the status-report rule; it depends only on primary fields no operation changes *)
Definition strict_of (b : bundle) : bool := is_admin_record b || eid_eqb (p_src (b_primary b)) eid_none.
(* a block handed to add_canonical_block / set_payload_block: any requested number; type-consistent data within the
   Rust value ranges (built by a new_*_block constructor, or unknown type with opaque data); reserved flag mask not
   hit; no status-report request when the bundle is an administrative record or has an anonymous source; a
   previous-node EID, if any, valid *)
Definition arg_block_ok (strict : bool) (c : canonical) : bool :=
  (c_type c <? two64) && (c_flags c <? 256) && wf_crc_u (c_crc c) && wf_data (c_type c) (c_data c)
  && negb (block_flag (c_flags c) BLOCK_CFRESERVED_FIELDS)
  && negb (strict && block_flag (c_flags c) BLOCK_STATUS_REPORT)
  && match c_data c with PreviousNode e => eid_valid e | _ => true end.
Definition op_ok (strict : bool) (o : op) : bool :=
  match o with
  | AddBlock c => arg_block_ok strict c
  | SetPayload d => Nlen d <? two64                                  (* true of every Vec<u8> *)
  | SetPayloadBlock c => arg_block_ok strict c && (c_type c =? PAYLOAD_BLOCK)
  | SetCrc code => code <? 256                                       (* every CrcRawType (u8), known or not *)
  | UpdateExt node rt clock =>
      eid_valid node && wf_eid node && (Nlen (enc_eid node) <? two64) (* a valid EndpointID value *)
      && (MS1970_TO2K <=? clock)                                      (* clock not before 2000-01-01 (C17 assumption) *)
  end.
Definition op_admissible (b0 : bundle) (o : op) : Prop := op_ok (strict_of b0) o = true.

(* ---- the invariant ---- *)
Fixpoint strictly_desc (l : list N) : Prop :=
  match l with
  | [] => True
  | x :: t => (forall y, In y t -> y < x) /\ strictly_desc t
  end.
(* exactly one block of type 1; it has number 1, carries Data and is last *)
Definition payload_last (cs : list canonical) : Prop :=
  exists front pb d, cs = front ++ [pb] /\ c_type pb = PAYLOAD_BLOCK /\ c_num pb = PAYLOAD_BLOCK_NUMBER /\ c_data pb = Data d
                     /\ (forall c, In c front -> c_type c <> PAYLOAD_BLOCK).
(* previous node (6), bundle age (7), hop count (10) at most once each *)
Definition singletons_once (cs : list canonical) : Prop :=
  forall ty, is_singleton_type ty = true -> (count ty (map c_type cs) <= 1)%nat.

Definition Inv (b : bundle) : Prop :=
  let cs := b_canonicals b in
  NoDup (map c_num cs) /\ ~ In 0 (map c_num cs) /\ strictly_desc (map c_num cs)
  /\ payload_last cs /\ singletons_once cs
  /\ validate b = [] /\ wf_bundle_u b = true.
