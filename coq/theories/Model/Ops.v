(* Model of the bundle mutators of bundle.rs / canonical.rs / primary.rs:
   sort_canonicals, add_canonical_block (automatic numbering), set_payload(_block), set_crc,
   update_extensions (hop count, previous node, bundle age, lifetime).  Rust integer arithmetic that can
   overflow is expressed with the partial primitives of Base/Prelude or as explicit u128 arithmetic. *)
From BP7 Require Import Base.Prelude Gen.Consts Model.Types Model.Validate Model.DtnTime.

(* stable sort, descending block number: sort_by(|a, b| b.block_number.cmp(&a.block_number)).
   Insertion from the right keeps equal keys in their original order. *)
Fixpoint insert_desc (c : canonical) (l : list canonical) : list canonical :=
  match l with
  | [] => [c]
  | x :: t => if c_num x <=? c_num c then c :: l else x :: insert_desc c t
  end.
Fixpoint sort_desc (l : list canonical) : list canonical :=
  match l with [] => [] | c :: t => insert_desc c (sort_desc t) end.
Definition sort_canonicals (b : bundle) : bundle := mkbundle (b_primary b) (sort_desc (b_canonicals b)).

(* bundle.rs:231-237 next_canonical_block_number, with checked_add: None when exhausted *)
Definition highest_number (cs : list canonical) : N := fold_left (fun h c => N.max h (c_num c)) cs 1.
Definition next_block_number (cs : list canonical) : option N :=
  let h := highest_number cs in if h + 1 <? two64 then Some (h + 1) else None.

Definition is_unique_type (t : N) : bool :=
  (t =? PAYLOAD_BLOCK) || (t =? HOP_COUNT_BLOCK) || (t =? BUNDLE_AGE_BLOCK) || (t =? PREVIOUS_NODE_BLOCK).
(* bundle.rs:240-258 *)
Definition add_canonical_block (b : bundle) (c : canonical) : bundle :=
  let cs := b_canonicals b in
  if is_unique_type (c_type c) && (match ext_block_by_type (c_type c) cs with Some _ => true | None => false end) then b
  else
    match (if c_type c =? PAYLOAD_BLOCK then Some PAYLOAD_BLOCK_NUMBER else next_block_number cs) with
    | None => b                               (* block numbers exhausted: nothing is added *)
    | Some n => mkbundle (b_primary b) (sort_desc (cs ++ [set_c_num c n]))
    end.

Definition new_payload_block (flags : N) (data : list byte) : canonical :=
  mkcanonical PAYLOAD_BLOCK PAYLOAD_BLOCK_NUMBER flags CrcNo (Data data).
(* bundle.rs:273-277 *)
Definition set_payload_block (b : bundle) (pb : canonical) : bundle :=
  add_canonical_block (mkbundle (b_primary b) (filter (fun c => negb (c_type c =? PAYLOAD_BLOCK)) (b_canonicals b))) pb.
(* replace the data of the first block selected by extension_block_by_type_mut *)
Fixpoint update_first (sel : canonical -> bool) (f : canonical -> canonical) (cs : list canonical) : list canonical :=
  match cs with
  | [] => []
  | c :: t => if sel c then f c :: t else c :: update_first sel f t
  end.
Definition sel_type (t : N) (c : canonical) : bool := (c_type c =? t) && extension_valid c.
(* bundle.rs:280-288 *)
Definition set_payload (b : bundle) (data : list byte) : bundle :=
  match ext_block_by_type PAYLOAD_BLOCK (b_canonicals b) with
  | Some _ => mkbundle (b_primary b) (update_first (sel_type PAYLOAD_BLOCK) (fun c => set_c_data c (Data data)) (b_canonicals b))
  | None => set_payload_block b (new_payload_block 0 data)
  end.
(* what a forwarding node does with a received bundle before it sends it on (REENC lines of C05): a new payload through set_payload and a
   new lifetime through the public field *)
Definition set_p_lifetime (p : primary) (l : N) : primary :=
  mkprimary (p_version p) (p_flags p) (p_crc p) (p_dst p) (p_src p) (p_rpt p) (p_time p) (p_seq p) l (p_frag_off p) (p_total_len p).
Definition reenc (b : bundle) (d : list byte) (l : N) : bundle :=
  let b1 := set_payload b d in mkbundle (set_p_lifetime (b_primary b1) l) (b_canonicals b1).
(* bundle.rs:291-296 *)
Definition set_crc (b : bundle) (code : N) : bundle :=
  mkbundle (set_p_crc (b_primary b) (crc_of_type code)) (map (fun c => set_c_crc c (crc_of_type code)) (b_canonicals b)).

(* primary.rs:283-290 is_lifetime_exceeded, in u128: creation + lifetime <= now; `now` = dtn_time_now() *)
Definition is_lifetime_exceeded (m : ovf_mode) (clock_ms : N) (p : primary) : res bool :=
  if p_time p =? 0 then Ok false
  else do n <- now m clock_ms; Ok (p_time p + p_lifetime p <=? n).

Definition two128 : N := 340282366920938463463374607431768211456.
Definition sat_add128 (a b : N) : N := if a + b <? two128 then a + b else two128 - 1.
Definition sat_u64 (a : N) : N := if a <? two64 then a else two64 - 1.

(* bundle.rs:374-394 update_extensions(local_node, residence_time: u128) -> bool, with the repaired arithmetic:
   hop count 255 cannot take another hop; age + residence saturates; the comparison is in milliseconds *)
Definition update_extensions (m : ovf_mode) (clock_ms : N) (node : eid) (residence : N) (b : bundle) : res (bool * bundle) :=
  let cs0 := b_canonicals b in
  (* hop count *)
  let hop : option (bool * list canonical) :=      (* Some (exceeded, blocks) *)
    match ext_block_by_type HOP_COUNT_BLOCK cs0 with
    | Some hc =>
      match c_data hc with
      | HopCount limit count =>
        if count =? 255 then Some (true, cs0)
        else let cs := update_first (sel_type HOP_COUNT_BLOCK) (fun c => set_c_data c (HopCount limit (count + 1))) cs0 in
             Some (limit <? count + 1, cs)
      | _ => Some (false, cs0)
      end
    | None => Some (false, cs0)
    end in
  match hop with
  | Some (true, cs) => Ok (false, mkbundle (b_primary b) cs)
  | Some (false, cs1) =>
    (* previous node *)
    let cs2 :=
      match ext_block_by_type PREVIOUS_NODE_BLOCK cs1 with
      | Some pn => match c_data pn with
                   | PreviousNode _ => update_first (sel_type PREVIOUS_NODE_BLOCK) (fun c => set_c_data c (PreviousNode node)) cs1
                   | _ => cs1 end
      | None => cs1
      end in
    (* bundle age *)
    let age : bool * list canonical :=
      match ext_block_by_type BUNDLE_AGE_BLOCK cs2 with
      | Some ba => match c_data ba with
                   | BundleAge a =>
                     let na := sat_add128 a residence in
                     (p_lifetime (b_primary b) <? na,
                      update_first (sel_type BUNDLE_AGE_BLOCK) (fun c => set_c_data c (BundleAge (sat_u64 na))) cs2)
                   | _ => (false, cs2) end
      | None => (false, cs2)
      end in
    let b3 := mkbundle (b_primary b) (snd age) in
    if fst age then Ok (false, b3)
    else do ex <- is_lifetime_exceeded m clock_ms (b_primary b); Ok (negb ex, b3)
  | None => Ok (false, b)
  end.
