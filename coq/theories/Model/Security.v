(* Model of src/security.rs (feature `bpsec`), BPSec block integrity (RFC 9172 / RFC 9173 BIB-HMAC-SHA2):
     IntegrityProtectedPlaintext::create          security.rs 153-236   -> ippt_create
     IntegrityBlock::compute_hmac                 security.rs 490-560   -> compute_hmac
     BibSecurityContextParameter::serialize       security.rs 300-330   -> enc_bib_params
     IntegrityBlock::to_cbor                      security.rs 562-580   -> asb_to_cbor
     IntegrityBlockBuilder::build                 security.rs 420-440   -> ib_build
     new_integrity_block                          security.rs 674-686   -> new_integrity_block
   Definitions only.  The model is the REPAIRED code (defect D13, patch .cache/c16/fix_d13.patch):
     - the security result id is the constant 1 (the pinned tree pushed the target's block number `ippt.0`);
     - `CanonicalData::Unknown` is treated like `Data`: its serde form already is the byte string of the
       block-type-specific data (the pinned tree wrapped it a second time: 44 43 01 02 03 for 01 02 03).
   Kept as the code has it (not violations of C16, see Props/C16.v):
     - `Option<BibSecurityContextParameter>` = None serializes as CBOR null (RFC 9172 omits the field; the builder
       refuses to build without parameters, so None needs a hand-made struct literal);
     - compute_hmac walks the IPPT LIST (not the target list): results are in IPPT order, an IPPT whose number is
       not a target is skipped with a message, a target without IPPT gets no result (and to_cbor then panics on
       the index); it first CLEARS the results of the block, so signing again replaces them (Props/C16.v
       C16_resign_replaces);
     - scope-flag bits above bit 2 are dropped by from_bits_truncate for the three tests, but the serialized
       scope-flags integer is the raw u16 word.
   serde_cbor::to_vec on a Vec-backed writer cannot fail for these types, so the `.expect`/`.unwrap` on the
   serializer results are not panic sites; the genuine ones (Option unwraps, the explicit panic!, indexing) are. *)
From BP7 Require Import Base.Prelude Gen.Consts Cbor.Item Model.Types Model.Encode Model.Hmac.

(* ---------- integrity scope flags: u16 word, bitflags `contains` after from_bits_truncate (security.rs 265-288) ---------- *)
(* INTEGRITY_ALL_BITS (union of the declared scope flags) comes from Gen/Consts.v *)
Definition scope_flag (word f : N) : bool := has_bits word INTEGRITY_ALL_BITS f.

(* RFC 9173 3.4 / security.rs after the repair: the only result of BIB-HMAC-SHA2 has id 1 *)
(* BIB_HMAC_SHA2_RESULT_ID comes from Gen/Consts.v (`pub const BIB_HMAC_SHA2_RESULT_ID: u64 = 1;` in security.rs) *)

(* SecurityBlockHeader = (CanonicalBlockType, u64, BlockControlFlagsType) *)
Record sec_header := mksh { sh_type : N; sh_num : N; sh_flags : N }.

(* construct_payload_header / construct_security_header: three unsigned integers, one after the other *)
Definition enc_header3 (t n f : N) : list byte := enc_uint t ++ enc_uint n ++ enc_uint f.

(* security.rs 196-207: serde_cbor::to_vec(&data), wrapped once more as a byte string unless Data / Unknown *)
Definition target_contents (d : cdata) : list byte :=
  match d with
  | Data _ => enc_cdata d
  | Unknown _ => enc_cdata d
  | _ => enc_bytes (enc_cdata d)
  end.

(* security.rs 153-194: the optional parts, in source order; a set flag without the corresponding value only
   prints a message *)
Definition ippt_optional (flags : N) (pb : option primary) (sh : option sec_header) (target : canonical) : list byte :=
  (if scope_flag flags INTEGRITY_PRIMARY_HEADER
   then match pb with Some p => enc_primary p | None => [] end else []) ++
  (if scope_flag flags INTEGRITY_PAYLOAD_HEADER
   then enc_header3 (c_type target) (c_num target) (c_flags target) else []) ++
  (if scope_flag flags INTEGRITY_SECURITY_HEADER
   then match sh with Some h => enc_header3 (sh_type h) (sh_num h) (sh_flags h) | None => [] end else []).

(* security.rs 209-218 (the println! of the result is not modelled: it does not change the returned bytes) *)
Definition ippt_create (flags : N) (pb : option primary) (sh : option sec_header) (target : canonical) : list byte :=
  enc_uint flags ++ ippt_optional flags pb sh target ++ target_contents (c_data target).

(* ---------- BibSecurityContextParameter and IntegrityBlock ---------- *)
Record bib_params := mkparams {
  bp_sha : option (N * N);                    (* (parameter id, SHA variant) *)
  bp_wrapped_key : option (N * list byte);    (* (parameter id, wrapped key) *)
  bp_scope : option (N * N) }.                (* (parameter id, integrity scope flags) *)

Definition sec_result := (N * list byte)%type.           (* (result id, result value) *)

Record integrity_block := mkib {
  ib_targets : list N;
  ib_ctx_id : N;            (* SecurityContextId = i16; only non-negative ids are modelled (the builder fixes it to 1) *)
  ib_ctx_flags : N;
  ib_source : eid;
  ib_params : option bib_params;
  ib_results : list (list sec_result) }.

Definition set_ib_results (ib : integrity_block) (r : list (list sec_result)) : integrity_block :=
  mkib (ib_targets ib) (ib_ctx_id ib) (ib_ctx_flags ib) (ib_source ib) (ib_params ib) r.

(* IntegrityBlockBuilder::build: both the targets and the parameters must have been given *)
Inductive build_error := MissingSecurityTargets | FlagSetButNoParameter.
Definition ib_build (targets : option (list N)) (ctx_flags : N) (source : eid) (params : option bib_params)
  : integrity_block + build_error :=
  match targets with
  | Some ts => match params with
               | Some _ => inl (mkib ts BIB_HMAC_SHA2_ID ctx_flags source params [])
               | None => inr FlagSetButNoParameter
               end
  | None => inr MissingSecurityTargets
  end.

(* security.rs 490-560.  `mac variant key msg` is the HMAC selected by the SHA variant (None = the `_ => panic!` arm).
   The loop runs over the IPPT list; for a number that is not a security target nothing is pushed. *)
Definition sha_variant_of (ib : integrity_block) : res N :=
  match ib_params ib with
  | None => Panic PUnwrap                                   (* security_context_parameters.as_ref().unwrap() *)
  | Some ps => match bp_sha ps with
               | None => Panic PUnwrap                      (* .sha_variant.unwrap() *)
               | Some (_, v) => Ok v
               end
  end.
Definition hmac_result (mac : N -> list byte -> list byte -> option (list byte)) (ib : integrity_block)
           (key ippt : list byte) : res (list sec_result) :=
  do v <- sha_variant_of ib;
  match mac v key ippt with
  | Some m => Ok [(BIB_HMAC_SHA2_RESULT_ID, m)]
  | None => Panic PUnimplemented                            (* panic!("Undefined Sha Variant.") *)
  end.
Fixpoint hmac_loop (mac : N -> list byte -> list byte -> option (list byte)) (ib : integrity_block) (key : list byte)
         (ippts : list (N * list byte)) (acc : list (list sec_result)) : res (list (list sec_result)) :=
  match ippts with
  | [] => Ok acc
  | (num, ippt) :: rest =>
      if memN num (ib_targets ib)
      then do r <- hmac_result mac ib key ippt; hmac_loop mac ib key rest (acc ++ [r])
      else hmac_loop mac ib key rest acc
  end.
(* security.rs 531: `self.security_results = vec![];` — whatever the block carried before (an earlier compute_hmac: re-signing,
   key rotation; results set through the builder; a decoded block) is dropped BEFORE the loop; the loop then pushes onto
   `self.security_results`, i.e. onto the (now empty) results of the block *)
Definition reset_results (ib : integrity_block) : integrity_block := set_ib_results ib [].
Definition compute_hmac_with (mac : N -> list byte -> list byte -> option (list byte)) (key : list byte)
           (ippts : list (N * list byte)) (ib : integrity_block) : res integrity_block :=
  let ib0 := reset_results ib in
  do rs <- hmac_loop mac ib0 key ippts (ib_results ib0);
  Ok (set_ib_results ib0 rs).
(* the code's three hmac_shaNNN_compute functions are Hmac<ShaNNN>::new_from_slice(key).update(ippt).finalize() *)
Definition compute_hmac := compute_hmac_with hmac_sha2.

(* ---------- serialization ---------- *)
(* security.rs 300-330: definite array of the parameters that are present, each an [id, value] pair *)
Definition bib_params_count (p : bib_params) : N :=
  (if bp_sha p then 1 else 0) + (if bp_wrapped_key p then 1 else 0) + (if bp_scope p then 1 else 0).
Definition enc_bib_params (p : bib_params) : list byte :=
  enc_arr (bib_params_count p) ++
  (match bp_sha p with Some (i, v) => enc_arr 2 ++ enc_uint i ++ enc_uint v | None => [] end) ++
  (match bp_wrapped_key p with Some (i, k) => enc_arr 2 ++ enc_uint i ++ enc_bytes k | None => [] end) ++
  (match bp_scope p with Some (i, v) => enc_arr 2 ++ enc_uint i ++ enc_uint v | None => [] end).
(* serde: Option::None -> serialize_none -> CBOR null *)
Definition enc_opt_params (p : option bib_params) : list byte :=
  match p with Some ps => enc_bib_params ps | None => [n2b 246] end.

(* security.rs 570-577: for i in 0..security_targets.len(): security_results[i][0] — both indexings can panic *)
Fixpoint asb_results (n : nat) (results : list (list sec_result)) : res (list sec_result) :=
  match n with
  | O => Ok []
  | S k => match results with
           | [] => Panic PSlice                               (* self.security_results[i] out of bounds *)
           | r :: rest => match r with
                          | [] => Panic PSlice                (* next_result[0] on an empty vector *)
                          | first :: _ => do tl <- asb_results k rest; Ok (first :: tl)
                          end
           end
  end.
(* Vec<Vec<(&u64, Bytes)>>: array of one-element arrays of [id, byte string] *)
Definition enc_result (r : sec_result) : list byte :=
  enc_arr 1 ++ (enc_arr 2 ++ enc_uint (fst r) ++ enc_bytes (snd r)).
Definition enc_results (rs : list sec_result) : list byte :=
  enc_arr (Nlen rs) ++ concat (map enc_result rs).
Definition enc_targets (ts : list N) : list byte := enc_arr (Nlen ts) ++ concat (map enc_uint ts).

(* security.rs 562-580 *)
Definition asb_to_cbor (ib : integrity_block) : res (list byte) :=
  do rs <- asb_results (length (ib_targets ib)) (ib_results ib);
  Ok (enc_targets (ib_targets ib) ++ enc_uint (ib_ctx_id ib) ++ enc_uint (ib_ctx_flags ib) ++ enc_eid (ib_source ib) ++
      enc_opt_params (ib_params ib) ++ enc_results rs).

(* security.rs 674-686: the BIB travels as an opaque canonical block of type 11 (CanonicalBlockBuilder default CRC = none) *)
Definition new_integrity_block (num bcf_bits : N) (security_block : list byte) : canonical :=
  mkcanonical INTEGRITY_BLOCK num bcf_bits CrcNo (Unknown security_block).
