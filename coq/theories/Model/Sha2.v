(* SHA-256 / SHA-384 / SHA-512 written from FIPS 180-4, as executable Gallina.
   One generic core (Section Sha2Core) is instantiated with the word size, the rotation
   amounts of the four sigma functions, the round constants and the initial hash value.

   Word representation.  A w-bit word is a list of w/4 hexadecimal digits (`nib`, an
   enumeration of 16 constant constructors), least significant digit first.  Digit operations
   (xor, and, add with carry, the funnel shift used by ROTR/SHR) are 16x16 case tables; the
   tables are not written by hand but obtained by `Eval vm_compute` from their one-line
   definitions on N (Section "digit tables").  Constants are written as N hexadecimal literals,
   as printed in the standard, and converted once.
   Why not N words: the extracted OCaml keeps N as binary positives.  Measured per HMAC-SHA-512
   call on a 100-byte message (4 compressions), same machine, ocamlopt: words as N reduced with
   N.land mask and N.shiftr/N.shiftl/N.lxor: 15.3 ms; words as lists of bool: 7.1 ms; this
   representation: 3.8 ms (HMAC-SHA-256: 1.8 ms).  The round loop walks the constant list and
   the message schedule in lock-step; there is no indexed access anywhere. *)
From BP7 Require Import Base.Prelude.
Require Coq.Strings.String.

(* The implementation lives in a module so that its short names (word, add, Ch, state, pad, ...)
   do not leak into files that import Model.Sha2; the interface is re-exported below it. *)
Module Sha2Impl.

(* ---------- hexadecimal digits ---------- *)
Inductive nib := Nb0 | Nb1 | Nb2 | Nb3 | Nb4 | Nb5 | Nb6 | Nb7 | Nb8 | Nb9 | Nba | Nbb | Nbc | Nbd | Nbe | Nbf.
Definition nib_N (a : nib) : N :=
  match a with
  | Nb0 => 0 | Nb1 => 1 | Nb2 => 2 | Nb3 => 3 | Nb4 => 4 | Nb5 => 5 | Nb6 => 6 | Nb7 => 7
  | Nb8 => 8 | Nb9 => 9 | Nba => 10 | Nbb => 11 | Nbc => 12 | Nbd => 13 | Nbe => 14 | Nbf => 15
  end.
(* digit of value n mod 16 *)
Definition N_nib (n : N) : nib :=
  match N.land n 15 with
  | 0 => Nb0 | 1 => Nb1 | 2 => Nb2 | 3 => Nb3 | 4 => Nb4 | 5 => Nb5 | 6 => Nb6 | 7 => Nb7
  | 8 => Nb8 | 9 => Nb9 | 10 => Nba | 11 => Nbb | 12 => Nbc | 13 => Nbd | 14 => Nbe
  | _ => Nbf
  end.

(* case tables: tab1 f and tab2 f are f, written as a case analysis with f applied to constants *)
Definition tab1 {A} (f : nib -> A) (a : nib) : A :=
  match a with
  | Nb0 => f Nb0 | Nb1 => f Nb1 | Nb2 => f Nb2 | Nb3 => f Nb3
  | Nb4 => f Nb4 | Nb5 => f Nb5 | Nb6 => f Nb6 | Nb7 => f Nb7
  | Nb8 => f Nb8 | Nb9 => f Nb9 | Nba => f Nba | Nbb => f Nbb
  | Nbc => f Nbc | Nbd => f Nbd | Nbe => f Nbe | Nbf => f Nbf
  end.
Definition tab2 {A} (f : nib -> nib -> A) (a b : nib) : A :=
  tab1 (fun a' => tab1 (fun b' => f a' b') b) a.

(* digit tables *)
Definition nxor : nib -> nib -> nib :=
  Eval vm_compute in tab2 (fun a b => N_nib (N.lxor (nib_N a) (nib_N b))).
Definition nand : nib -> nib -> nib :=
  Eval vm_compute in tab2 (fun a b => N_nib (N.land (nib_N a) (nib_N b))).
(* a + b + carry-in: digit and carry-out *)
Definition nadd0 : nib -> nib -> nib * bool :=
  Eval vm_compute in tab2 (fun a b => (N_nib (nib_N a + nib_N b), 16 <=? nib_N a + nib_N b)).
Definition nadd1 : nib -> nib -> nib * bool :=
  Eval vm_compute in tab2 (fun a b => (N_nib (nib_N a + nib_N b + 1), 16 <=? nib_N a + nib_N b + 1)).
(* funnel shift: digit s of the bits of the two-digit number hi:lo, for s = 1, 2, 3 *)
Definition nshr1 : nib -> nib -> nib :=
  Eval vm_compute in tab2 (fun lo hi => N_nib (N.shiftr (nib_N lo + 16 * nib_N hi) 1)).
Definition nshr2 : nib -> nib -> nib :=
  Eval vm_compute in tab2 (fun lo hi => N_nib (N.shiftr (nib_N lo + 16 * nib_N hi) 2)).
Definition nshr3 : nib -> nib -> nib :=
  Eval vm_compute in tab2 (fun lo hi => N_nib (N.shiftr (nib_N lo + 16 * nib_N hi) 3)).
Inductive shamt := Sh0 | Sh1 | Sh2 | Sh3.
Definition nshr (s : shamt) (lo hi : nib) : nib :=
  match s with Sh0 => lo | Sh1 => nshr1 lo hi | Sh2 => nshr2 lo hi | Sh3 => nshr3 lo hi end.

(* the tables are what their names say *)
Lemma nxor_spec a b : nib_N (nxor a b) = N.lxor (nib_N a) (nib_N b).
Proof. destruct a, b; vm_compute; reflexivity. Qed.
Lemma nand_spec a b : nib_N (nand a b) = N.land (nib_N a) (nib_N b).
Proof. destruct a, b; vm_compute; reflexivity. Qed.
Lemma nadd_spec (c : bool) a b :
  let '(d, c') := if c then nadd1 a b else nadd0 a b in
  nib_N d + 16 * (if c' then 1 else 0) = nib_N a + nib_N b + (if c then 1 else 0).
Proof. destruct c, a, b; vm_compute; reflexivity. Qed.
Lemma nshr_spec s lo hi :
  nib_N (nshr s lo hi)
  = N.land (N.shiftr (nib_N lo + 16 * nib_N hi) (match s with Sh0 => 0 | Sh1 => 1 | Sh2 => 2 | Sh3 => 3 end)) 15.
Proof. destruct s, lo, hi; vm_compute; reflexivity. Qed.

(* ---------- words ---------- *)
Definition word := list nib.

(* the w low-order digits of n *)
Fixpoint N_word (w : nat) (n : N) : word :=
  match w with O => [] | S w' => N_nib n :: N_word w' (N.shiftr n 4) end.

Definition bits_nib (b0 b1 b2 b3 : bool) : nib :=
  if b3 then (if b2 then (if b1 then (if b0 then Nbf else Nbe) else (if b0 then Nbd else Nbc))
              else (if b1 then (if b0 then Nbb else Nba) else (if b0 then Nb9 else Nb8)))
  else (if b2 then (if b1 then (if b0 then Nb7 else Nb6) else (if b0 then Nb5 else Nb4))
        else (if b1 then (if b0 then Nb3 else Nb2) else (if b0 then Nb1 else Nb0))).
Definition nib_bits : nib -> bool * (bool * (bool * bool)) :=
  Eval vm_compute in tab1 (fun a => let n := nib_N a in
    (N.testbit n 0, (N.testbit n 1, (N.testbit n 2, N.testbit n 3)))).
Lemma bits_nib_bits a : let '(b0, (b1, (b2, b3))) := nib_bits a in bits_nib b0 b1 b2 b3 = a.
Proof. destruct a; reflexivity. Qed.

(* the two digits of b in front of acc: shifts acc left by 8 bits and ors b in *)
Definition push_byte (b : byte) (acc : word) : word :=
  let '(b0, (b1, (b2, (b3, (b4, (b5, (b6, b7))))))) := Byte.to_bits b in
  bits_nib b0 b1 b2 b3 :: bits_nib b4 b5 b6 b7 :: acc.
Definition nibs_byte (lo hi : nib) : byte :=
  let '(b0, (b1, (b2, b3))) := nib_bits lo in
  let '(b4, (b5, (b6, b7))) := nib_bits hi in
  Byte.of_bits (b0, (b1, (b2, (b3, (b4, (b5, (b6, b7))))))).

(* big-endian words of wb bytes each; k counts the bytes still missing in the current word.
   Initial call: bytes_to_words wb l (wb - 1) []. A trailing partial word is dropped (the padded
   message never has one). *)
Fixpoint bytes_to_words (wb : nat) (l : list byte) (k : nat) (acc : word) : list word :=
  match l with
  | [] => []
  | b :: t =>
      let acc' := push_byte b acc in
      match k with
      | O => acc' :: bytes_to_words wb t (wb - 1) []
      | S k' => bytes_to_words wb t k' acc'
      end
  end.

(* the nb low-order bytes of x, most significant first, in front of acc *)
Fixpoint word_bytes (nb : nat) (x : word) (acc : list byte) : list byte :=
  match nb with
  | O => acc
  | S nb' =>
      match x with
      | lo :: hi :: x' => word_bytes nb' x' (nibs_byte lo hi :: acc)
      | _ => word_bytes nb' [] (x00 :: acc)
      end
  end.
Lemma word_bytes_length nb : forall x acc, length (word_bytes nb x acc) = (nb + length acc)%nat.
Proof.
  induction nb as [|nb IH]; intros x acc; cbn [word_bytes]; [reflexivity|].
  destruct x as [|? [|? x']]; rewrite IH; cbn [length]; lia.
Qed.

(* same for a number (used for the bit-length field of the padding only) *)
Fixpoint be_bytes (w : nat) (n : N) (acc : list byte) : list byte :=
  match w with
  | O => acc
  | S w' => be_bytes w' (N.shiftr n 8) (n2b (N.land n 255) :: acc)
  end.

(* ---------- word operations; all preserve the common length of their arguments ---------- *)
(* x + y + c mod 2^w: ripple carry, the last carry is dropped *)
Fixpoint addc (c : bool) (x y : word) : word :=
  match x, y with
  | a :: x', b :: y' =>
      let '(d, c') := if c then nadd1 a b else nadd0 a b in d :: addc c' x' y'
  | _, _ => []
  end.
Definition add (x y : word) : word := addc false x y.

(* Ch(x,y,z) = (x and y) xor (not x and z) = z xor (x and (y xor z))            (4.2 / 4.8) *)
Fixpoint Ch (x y z : word) : word :=
  match x, y, z with
  | a :: x', b :: y', c :: z' => nxor c (nand a (nxor b c)) :: Ch x' y' z'
  | _, _, _ => []
  end.
(* Maj(x,y,z) = (x and y) xor (x and z) xor (y and z) = (x and y) xor (z and (x xor y))   (4.3 / 4.9) *)
Fixpoint Maj (x y z : word) : word :=
  match x, y, z with
  | a :: x', b :: y', c :: z' => nxor (nand a b) (nand c (nxor a b)) :: Maj x' y' z'
  | _, _, _ => []
  end.

(* digit at the head of p after a right shift by s bits; p is zero-extended when it runs out *)
Definition look (s : shamt) (p : word) : nib :=
  match p with
  | lo :: hi :: _ => nshr s lo hi
  | [lo] => nshr s lo Nb0
  | [] => Nb0
  end.
(* n digits of (pa >> sa) xor (pb >> sb) xor (pc >> sc) *)
Fixpoint xor3_walk (n : nat) (sa sb sc : shamt) (pa pb pc : word) : word :=
  match n with
  | O => []
  | S n' => nxor (nxor (look sa pa) (look sb pb)) (look sc pc)
            :: xor3_walk n' sa sb sc (tl pa) (tl pb) (tl pc)
  end.

(* a shift / rotation amount of 4q + s bits *)
Record rot := Rot { rot_q : nat; rot_s : shamt }.
Definition mk_rot (n : nat) : rot :=
  Rot (n / 4) (match (n mod 4)%nat with 0%nat => Sh0 | 1%nat => Sh1 | 2%nat => Sh2 | _ => Sh3 end).

(* ---------- hash state: the eight working variables / hash words ---------- *)
Record state := St { s_a : word; s_b : word; s_c : word; s_d : word;
                     s_e : word; s_f : word; s_g : word; s_h : word }.

Section Sha2Core.
  Variable wbytes : nat.                    (* 4 (SHA-256) or 8 (SHA-384/512): bytes per word *)
  Variable wn : nat.                        (* 8 or 16: digits per word *)
  Variables R0a R0b R0c : rot.              (* Sigma0 = ROTR a xor ROTR b xor ROTR c        (4.4 / 4.10) *)
  Variables R1a R1b R1c : rot.              (* Sigma1                                        (4.5 / 4.11) *)
  Variables r0a r0b r0s : rot.              (* sigma0 = ROTR a xor ROTR b xor SHR s          (4.6 / 4.12) *)
  Variables r1a r1b r1s : rot.              (* sigma1                                        (4.7 / 4.13) *)
  Variable K : list word.                   (* round constants, 64 or 80 of them *)
  Variable nsched : nat.                    (* schedule words beyond the first 16: 48 or 64 *)
  Variable H0 : state.                      (* initial hash value *)

  (* With xx = x ++ x, the first wn digits of (skipn q xx) >> s are ROTR (4q+s) x, and the first
     wn digits of (skipn q x) >> s, zero-extended, are SHR (4q+s) x. *)
  Definition rot3 (a b c : rot) (x : word) : word :=
    let xx := x ++ x in
    xor3_walk wn (rot_s a) (rot_s b) (rot_s c) (skipn (rot_q a) xx) (skipn (rot_q b) xx) (skipn (rot_q c) xx).
  Definition rot2shr (a b s : rot) (x : word) : word :=
    let xx := x ++ x in
    xor3_walk wn (rot_s a) (rot_s b) (rot_s s) (skipn (rot_q a) xx) (skipn (rot_q b) xx) (skipn (rot_q s) x).
  Definition Sig0 := rot3 R0a R0b R0c.
  Definition Sig1 := rot3 R1a R1b R1c.
  Definition sig0 := rot2shr r0a r0b r0s.
  Definition sig1 := rot2shr r1a r1b r1s.

  (* message schedule (6.2.2 / 6.4.2 step 1): win = [W(t-16); ...; W(t-1)], emits W(t), W(t+1), ... *)
  Fixpoint sched (n : nat) (win : list word) : list word :=
    match n with
    | O => []
    | S n' =>
        match win with
        | w16 :: ((w15 :: _ :: _ :: _ :: _ :: _ :: _ :: _ :: w7 :: _ :: _ :: _ :: _ :: w2 :: _) as tl) =>
            let w := add (add (add (sig1 w2) w7) (sig0 w15)) w16 in
            w :: sched n' (tl ++ [w])
        | _ => []
        end
    end.

  (* the rounds (step 3), constants and schedule consumed in lock-step *)
  Fixpoint rounds (ks ws : list word) (a b c d e f g h : word) : state :=
    match ks, ws with
    | k :: ks', w :: ws' =>
        let t1 := add (add (add (add h (Sig1 e)) (Ch e f g)) k) w in
        let t2 := add (Sig0 a) (Maj a b c) in
        rounds ks' ws' (add t1 t2) a b c (add d t1) e f g
    | _, _ => St a b c d e f g h
    end.

  (* one block of 16 words *)
  Definition compress (s : state) (blk : list word) : state :=
    let '(St a b c d e f g h) := s in
    let '(St a' b' c' d' e' f' g' h') := rounds K (blk ++ sched nsched blk) a b c d e f g h in
    St (add a a') (add b b') (add c c') (add d d') (add e e') (add f f') (add g g') (add h h').

  Fixpoint process (nblocks : nat) (ws : list word) (s : state) : state :=
    match nblocks with
    | O => s
    | S n' => process n' (skipn 16 ws) (compress s (firstn 16 ws))
    end.

  (* padding (5.1): 0x80, zeros, then the bit length on 2*wbytes bytes; result is a multiple of
     the block size 16*wbytes *)
  Definition pad (m : list byte) : list byte :=
    let l := length m in
    let bs := (16 * wbytes)%nat in
    let lf := (2 * wbytes)%nat in
    let z := ((bs - (l + 1 + lf) mod bs) mod bs)%nat in
    m ++ x80 :: zeros z ++ be_bytes lf (8 * N.of_nat l) [].

  Definition digest_bytes (s : state) : list byte :=
    let '(St a b c d e f g h) := s in
    word_bytes wbytes a (word_bytes wbytes b (word_bytes wbytes c (word_bytes wbytes d
      (word_bytes wbytes e (word_bytes wbytes f (word_bytes wbytes g (word_bytes wbytes h []))))))).

  Definition sha2_state (m : list byte) : state :=
    let ws := bytes_to_words wbytes (pad m) (wbytes - 1) [] in
    process (length ws / 16) ws H0.

  Definition sha2 (m : list byte) : list byte := digest_bytes (sha2_state m).

  Lemma digest_bytes_length s : length (digest_bytes s) = (8 * wbytes)%nat.
  Proof.
    destruct s. unfold digest_bytes. rewrite !word_bytes_length. cbn [length]. lia.
  Qed.
  Lemma sha2_length m : length (sha2 m) = (8 * wbytes)%nat.
  Proof. apply digest_bytes_length. Qed.
End Sha2Core.

Definition mk_state (w : nat) (a b c d e f g h : N) : state :=
  St (N_word w a) (N_word w b) (N_word w c) (N_word w d) (N_word w e) (N_word w f) (N_word w g) (N_word w h).

(* ---------- SHA-256 (FIPS 180-4 sections 4.1.2, 4.2.2, 5.3.3, 6.2) ---------- *)
Definition K256_N : list N := [
    0x428a2f98; 0x71374491; 0xb5c0fbcf; 0xe9b5dba5; 0x3956c25b; 0x59f111f1; 0x923f82a4; 0xab1c5ed5;
    0xd807aa98; 0x12835b01; 0x243185be; 0x550c7dc3; 0x72be5d74; 0x80deb1fe; 0x9bdc06a7; 0xc19bf174;
    0xe49b69c1; 0xefbe4786; 0x0fc19dc6; 0x240ca1cc; 0x2de92c6f; 0x4a7484aa; 0x5cb0a9dc; 0x76f988da;
    0x983e5152; 0xa831c66d; 0xb00327c8; 0xbf597fc7; 0xc6e00bf3; 0xd5a79147; 0x06ca6351; 0x14292967;
    0x27b70a85; 0x2e1b2138; 0x4d2c6dfc; 0x53380d13; 0x650a7354; 0x766a0abb; 0x81c2c92e; 0x92722c85;
    0xa2bfe8a1; 0xa81a664b; 0xc24b8b70; 0xc76c51a3; 0xd192e819; 0xd6990624; 0xf40e3585; 0x106aa070;
    0x19a4c116; 0x1e376c08; 0x2748774c; 0x34b0bcb5; 0x391c0cb3; 0x4ed8aa4a; 0x5b9cca4f; 0x682e6ff3;
    0x748f82ee; 0x78a5636f; 0x84c87814; 0x8cc70208; 0x90befffa; 0xa4506ceb; 0xbef9a3f7; 0xc67178f2 ].
Definition K256 : list word := map (N_word 8) K256_N.
Definition IV256 : state := mk_state 8
    0x6a09e667 0xbb67ae85 0x3c6ef372 0xa54ff53a 0x510e527f 0x9b05688c 0x1f83d9ab 0x5be0cd19.
Definition sha256 : list byte -> list byte :=
  sha2 4 8  (mk_rot 2) (mk_rot 13) (mk_rot 22)  (mk_rot 6) (mk_rot 11) (mk_rot 25)
            (mk_rot 7) (mk_rot 18) (mk_rot 3)  (mk_rot 17) (mk_rot 19) (mk_rot 10)  K256 48 IV256.

(* ---------- SHA-512 and SHA-384 (sections 4.1.3, 4.2.3, 5.3.4, 5.3.5, 6.4, 6.5) ---------- *)
Definition K512_N : list N := [
    0x428a2f98d728ae22; 0x7137449123ef65cd; 0xb5c0fbcfec4d3b2f; 0xe9b5dba58189dbbc;
    0x3956c25bf348b538; 0x59f111f1b605d019; 0x923f82a4af194f9b; 0xab1c5ed5da6d8118;
    0xd807aa98a3030242; 0x12835b0145706fbe; 0x243185be4ee4b28c; 0x550c7dc3d5ffb4e2;
    0x72be5d74f27b896f; 0x80deb1fe3b1696b1; 0x9bdc06a725c71235; 0xc19bf174cf692694;
    0xe49b69c19ef14ad2; 0xefbe4786384f25e3; 0x0fc19dc68b8cd5b5; 0x240ca1cc77ac9c65;
    0x2de92c6f592b0275; 0x4a7484aa6ea6e483; 0x5cb0a9dcbd41fbd4; 0x76f988da831153b5;
    0x983e5152ee66dfab; 0xa831c66d2db43210; 0xb00327c898fb213f; 0xbf597fc7beef0ee4;
    0xc6e00bf33da88fc2; 0xd5a79147930aa725; 0x06ca6351e003826f; 0x142929670a0e6e70;
    0x27b70a8546d22ffc; 0x2e1b21385c26c926; 0x4d2c6dfc5ac42aed; 0x53380d139d95b3df;
    0x650a73548baf63de; 0x766a0abb3c77b2a8; 0x81c2c92e47edaee6; 0x92722c851482353b;
    0xa2bfe8a14cf10364; 0xa81a664bbc423001; 0xc24b8b70d0f89791; 0xc76c51a30654be30;
    0xd192e819d6ef5218; 0xd69906245565a910; 0xf40e35855771202a; 0x106aa07032bbd1b8;
    0x19a4c116b8d2d0c8; 0x1e376c085141ab53; 0x2748774cdf8eeb99; 0x34b0bcb5e19b48a8;
    0x391c0cb3c5c95a63; 0x4ed8aa4ae3418acb; 0x5b9cca4f7763e373; 0x682e6ff3d6b2b8a3;
    0x748f82ee5defb2fc; 0x78a5636f43172f60; 0x84c87814a1f0ab72; 0x8cc702081a6439ec;
    0x90befffa23631e28; 0xa4506cebde82bde9; 0xbef9a3f7b2c67915; 0xc67178f2e372532b;
    0xca273eceea26619c; 0xd186b8c721c0c207; 0xeada7dd6cde0eb1e; 0xf57d4f7fee6ed178;
    0x06f067aa72176fba; 0x0a637dc5a2c898a6; 0x113f9804bef90dae; 0x1b710b35131c471b;
    0x28db77f523047d84; 0x32caab7b40c72493; 0x3c9ebe0a15c9bebc; 0x431d67c49c100d4c;
    0x4cc5d4becb3e42b6; 0x597f299cfc657e2a; 0x5fcb6fab3ad6faec; 0x6c44198c4a475817 ].
Definition K512 : list word := map (N_word 16) K512_N.
Definition IV512 : state := mk_state 16
    0x6a09e667f3bcc908 0xbb67ae8584caa73b 0x3c6ef372fe94f82b 0xa54ff53a5f1d36f1
    0x510e527fade682d1 0x9b05688c2b3e6c1f 0x1f83d9abfb41bd6b 0x5be0cd19137e2179.
Definition IV384 : state := mk_state 16
    0xcbbb9d5dc1059ed8 0x629a292a367cd507 0x9159015a3070dd17 0x152fecd8f70e5939
    0x67332667ffc00b31 0x8eb44a8768581511 0xdb0c2e0d64f98fa7 0x47b5481dbefa4fa4.
Definition sha512_core (iv : state) : list byte -> list byte :=
  sha2 8 16  (mk_rot 28) (mk_rot 34) (mk_rot 39)  (mk_rot 14) (mk_rot 18) (mk_rot 41)
             (mk_rot 1) (mk_rot 8) (mk_rot 7)  (mk_rot 19) (mk_rot 61) (mk_rot 6)  K512 64 iv.
Definition sha512 : list byte -> list byte := sha512_core IV512.
Definition sha384 (m : list byte) : list byte := firstn 48 (sha512_core IV384 m).

Lemma sha256_length m : length (sha256 m) = 32%nat.
Proof. unfold sha256. rewrite sha2_length. reflexivity. Qed.
Lemma sha512_length m : length (sha512 m) = 64%nat.
Proof. unfold sha512, sha512_core. rewrite sha2_length. reflexivity. Qed.
Lemma sha384_length m : length (sha384 m) = 48%nat.
Proof.
  unfold sha384, sha512_core. apply firstn_length_le. rewrite sha2_length. cbn. lia.
Qed.

End Sha2Impl.

(* ---------- interface ---------- *)
Definition sha256 : list byte -> list byte := Sha2Impl.sha256.
Definition sha384 : list byte -> list byte := Sha2Impl.sha384.
Definition sha512 : list byte -> list byte := Sha2Impl.sha512.
Lemma sha256_length m : length (sha256 m) = 32%nat.
Proof. exact (Sha2Impl.sha256_length m). Qed.
Lemma sha384_length m : length (sha384 m) = 48%nat.
Proof. exact (Sha2Impl.sha384_length m). Qed.
Lemma sha512_length m : length (sha512 m) = 64%nat.
Proof. exact (Sha2Impl.sha512_length m). Qed.

(* ---------- test-vector helpers (also used by Hmac.v) ---------- *)
Definition str_bytes (s : String.string) : list byte := String.list_byte_of_string s.
Definition hex_nibble (b : byte) : N :=
  let c := b2n b in
  if c <? 58 then c - 48 else if c <? 71 then c - 55 else c - 87.
Fixpoint hex_pairs (l : list byte) : list byte :=
  match l with
  | h :: l0 :: t => n2b (N.lor (N.shiftl (hex_nibble h) 4) (hex_nibble l0)) :: hex_pairs t
  | _ => []
  end.
(* bytes denoted by a string of hex digits (no validation: for literals in Examples only) *)
Definition hex_bytes (s : String.string) : list byte := hex_pairs (str_bytes s).

(* ---------- published vectors, checked by the kernel ---------- *)
Module Sha2Vectors.
  Import Coq.Strings.String.
  Local Open Scope string_scope.

  Definition msg56 := str_bytes "abcdbcdecdefdefgefghfghighijhijkijkljklmklmnlmnomnopnopq".
  Definition msg112 := str_bytes
    "abcdefghbcdefghicdefghijdefghijkefghijklfghijklmghijklmnhijklmnoijklmnopjklmnopqklmnopqrlmnopqrsmnopqrstnopqrstu".

  Example hex_bytes_ok : hex_bytes "00ff7Fa5" = map n2b [0; 255; 127; 165]%N.
  Proof. vm_compute. reflexivity. Qed.
  Example msg56_len : List.length msg56 = 56%nat.  Proof. vm_compute. reflexivity. Qed.
  Example msg112_len : List.length msg112 = 112%nat.  Proof. vm_compute. reflexivity. Qed.

  (* FIPS 180-4 / NIST example values *)
  Example sha256_abc : sha256 (str_bytes "abc")
    = hex_bytes "ba7816bf8f01cfea414140de5dae2223b00361a396177a9cb410ff61f20015ad".
  Proof. vm_compute. reflexivity. Qed.
  Example sha256_empty : sha256 []
    = hex_bytes "e3b0c44298fc1c149afbf4c8996fb92427ae41e4649b934ca495991b7852b855".
  Proof. vm_compute. reflexivity. Qed.
  Example sha256_msg56 : sha256 msg56
    = hex_bytes "248d6a61d20638b8e5c026930c3e6039a33ce45964ff2167f6ecedd419db06c1".
  Proof. vm_compute. reflexivity. Qed.
  Example sha256_msg112 : sha256 msg112
    = hex_bytes "cf5b16a778af8380036ce59e7b0492370b249b11e8f07a51afac45037afee9d1".
  Proof. vm_compute. reflexivity. Qed.

  Example sha384_abc : sha384 (str_bytes "abc")
    = hex_bytes ("cb00753f45a35e8bb5a03d699ac65007272c32ab0eded163"
              ++ "1a8b605a43ff5bed8086072ba1e7cc2358baeca134c825a7").
  Proof. vm_compute. reflexivity. Qed.
  Example sha384_empty : sha384 []
    = hex_bytes ("38b060a751ac96384cd9327eb1b1e36a21fdb71114be0743"
              ++ "4c0cc7bf63f6e1da274edebfe76f65fbd51ad2f14898b95b").
  Proof. vm_compute. reflexivity. Qed.
  Example sha384_msg112 : sha384 msg112
    = hex_bytes ("09330c33f71147e83d192fc782cd1b4753111b173b3b05d2"
              ++ "2fa08086e3b0f712fcc7c71a557e2db966c3e9fa91746039").
  Proof. vm_compute. reflexivity. Qed.

  Example sha512_abc : sha512 (str_bytes "abc")
    = hex_bytes ("ddaf35a193617abacc417349ae20413112e6fa4e89a97ea20a9eeee64b55d39a"
              ++ "2192992a274fc1a836ba3c23a3feebbd454d4423643ce80e2a9ac94fa54ca49f").
  Proof. vm_compute. reflexivity. Qed.
  Example sha512_empty : sha512 []
    = hex_bytes ("cf83e1357eefb8bdf1542850d66d8007d620e4050b5715dc83f4a921d36ce9ce"
              ++ "47d0d13c5d85f2b0ff8318d2877eec2f63b931bd47417a81a538327af927da3e").
  Proof. vm_compute. reflexivity. Qed.
  Example sha512_msg112 : sha512 msg112
    = hex_bytes ("8e959b75dae313da8cf4f72814fc143f8f7779c6eb9f7fa17299aeadb6889018"
              ++ "501d289e4900f7e4331b99dec4b5433ac7d329eeb6dd26545e96e55b874be909").
  Proof. vm_compute. reflexivity. Qed.
End Sha2Vectors.

Print Assumptions sha256_length.
Print Assumptions sha384_length.
Print Assumptions sha512_length.
