(* Data types mirroring the Rust types of bp7 (crc.rs, eid.rs, canonical.rs, primary.rs, bundle.rs). *)
From BP7 Require Import Base.Prelude Gen.Consts.

Inductive crc_value :=
  | CrcNo | Crc16Empty | Crc32Empty
  | Crc16 (b : list byte)         (* [u8; 2] *)
  | Crc32 (b : list byte)         (* [u8; 4] *)
  | CrcUnknown (code : N).

Inductive eid :=
  | Dtn (code : N) (ssp : list byte)        (* EndpointID::Dtn(u8, DtnAddress(String)) *)
  | DtnNone (code addr : N)                 (* EndpointID::DtnNone(u8, u8) *)
  | Ipn (code node svc : N).                (* EndpointID::Ipn(u8, IpnAddress(u64, u64)) *)
Definition eid_none : eid := DtnNone ENDPOINT_URI_SCHEME_DTN 0.

Inductive cdata :=
  | HopCount (limit count : N)
  | Data (b : list byte)
  | BundleAge (age : N)
  | PreviousNode (e : eid)
  | Unknown (b : list byte)
  | DecodingError.

Record primary := mkprimary {
  p_version : N; p_flags : N; p_crc : crc_value;
  p_dst : eid; p_src : eid; p_rpt : eid;
  p_time : N; p_seq : N;
  p_lifetime : N;                  (* Duration, as whole milliseconds *)
  p_frag_off : N; p_total_len : N }.

Record canonical := mkcanonical {
  c_type : N; c_num : N; c_flags : N; c_crc : crc_value; c_data : cdata }.

Record bundle := mkbundle { b_primary : primary; b_canonicals : list canonical }.

Definition set_p_crc (p : primary) (c : crc_value) : primary :=
  mkprimary (p_version p) (p_flags p) c (p_dst p) (p_src p) (p_rpt p) (p_time p) (p_seq p) (p_lifetime p)
            (p_frag_off p) (p_total_len p).
Definition set_c_crc (b : canonical) (c : crc_value) : canonical :=
  mkcanonical (c_type b) (c_num b) (c_flags b) c (c_data b).
Definition set_c_data (b : canonical) (d : cdata) : canonical :=
  mkcanonical (c_type b) (c_num b) (c_flags b) (c_crc b) d.
Definition set_c_num (b : canonical) (n : N) : canonical :=
  mkcanonical (c_type b) n (c_flags b) (c_crc b) (c_data b).

(* bitflags `contains` on a raw word: from_bits_truncate, then all bits of `f` present *)
Definition has_bits (word mask f : N) : bool := N.land (N.land word mask) f =? f.
Definition bundle_flag (word f : N) : bool := has_bits word BUNDLE_ALL_BITS f.
Definition block_flag (word f : N) : bool := has_bits word BLOCK_ALL_BITS f.
Definition has_fragmentation (p : primary) : bool := bundle_flag (p_flags p) BUNDLE_IS_FRAGMENT.

(* crc.rs: CrcValue::to_code / bytes / has_crc, CrcBlock::reset_crc / set_crc_type *)
Definition crc_code (c : crc_value) : N :=
  match c with
  | CrcNo => CRC_NO | Crc16 _ | Crc16Empty => CRC_16 | Crc32 _ | Crc32Empty => CRC_32 | CrcUnknown k => k
  end.
Definition crc_bytes (c : crc_value) : option (list byte) :=
  match c with
  | CrcUnknown _ | CrcNo => None
  | Crc16 b | Crc32 b => Some b
  | Crc16Empty => Some (zeros 2) | Crc32Empty => Some (zeros 4)
  end.
Definition has_crc (c : crc_value) : bool :=
  match c with CrcNo | CrcUnknown _ => false | _ => true end.
Definition reset_crc (c : crc_value) : crc_value :=
  match c with Crc16 _ => Crc16Empty | Crc32 _ => Crc32Empty | c => c end.
Definition crc_of_type (code : N) : crc_value :=
  if code =? CRC_NO then CrcNo else if code =? CRC_16 then Crc16Empty
  else if code =? CRC_32 then Crc32Empty else CrcUnknown code.

(* decidable equalities (Rust's derived PartialEq) *)
Definition opt_bytes_eqb (a b : option (list byte)) : bool :=
  match a, b with Some x, Some y => bytes_eqb x y | None, None => true | _, _ => false end.
Definition crc_eqb (a b : crc_value) : bool :=
  match a, b with
  | CrcNo, CrcNo | Crc16Empty, Crc16Empty | Crc32Empty, Crc32Empty => true
  | Crc16 x, Crc16 y | Crc32 x, Crc32 y => bytes_eqb x y
  | CrcUnknown x, CrcUnknown y => x =? y
  | _, _ => false
  end.
Definition eid_eqb (a b : eid) : bool :=
  match a, b with
  | Dtn c s, Dtn c' s' => (c =? c') && bytes_eqb s s'
  | DtnNone c x, DtnNone c' x' => (c =? c') && (x =? x')
  | Ipn c n s, Ipn c' n' s' => (c =? c') && (n =? n') && (s =? s')
  | _, _ => false
  end.
Lemma eid_eqb_eq a b : eid_eqb a b = true <-> a = b.
Proof.
  destruct a, b; cbn [eid_eqb]; try (split; [discriminate|discriminate]);
  rewrite ?andb_true_iff, ?N.eqb_eq, ?bytes_eqb_eq; split; try (intros H; inversion H; auto);
  intuition congruence.
Qed.

Definition cdata_eqb (a b : cdata) : bool :=
  match a, b with
  | HopCount l c, HopCount l' c' => (l =? l') && (c =? c')
  | Data x, Data y | Unknown x, Unknown y => bytes_eqb x y
  | BundleAge x, BundleAge y => x =? y
  | PreviousNode e, PreviousNode e' => eid_eqb e e'
  | DecodingError, DecodingError => true
  | _, _ => false
  end.
Definition primary_eqb (p q : primary) : bool :=
  (p_version p =? p_version q) && (p_flags p =? p_flags q) && crc_eqb (p_crc p) (p_crc q)
  && eid_eqb (p_dst p) (p_dst q) && eid_eqb (p_src p) (p_src q) && eid_eqb (p_rpt p) (p_rpt q)
  && (p_time p =? p_time q) && (p_seq p =? p_seq q) && (p_lifetime p =? p_lifetime q)
  && (p_frag_off p =? p_frag_off q) && (p_total_len p =? p_total_len q).
Definition canonical_eqb (c d : canonical) : bool :=
  (c_type c =? c_type d) && (c_num c =? c_num d) && (c_flags c =? c_flags d) && crc_eqb (c_crc c) (c_crc d)
  && cdata_eqb (c_data c) (c_data d).
Definition bundle_eqb (a b : bundle) : bool :=
  primary_eqb (b_primary a) (b_primary b) && forall2b canonical_eqb (b_canonicals a) (b_canonicals b).
