(* Model of validation: flags.rs (BundleValidation / BlockValidation::validate), eid.rs (EndpointID::validate),
   primary.rs (PrimaryBlock::validate), canonical.rs (validate / extension_validation), bundle.rs
   (Bundle::validate, payload, extension_block_by_type).  `validate` returns the error list; [] is Ok(()). *)
From BP7 Require Import Base.Prelude Gen.Consts Model.Types.

Inductive verr :=
  | VVersion | VFlagsReserved | VFragment | VAdminStatus | VEid
  | VBlockFlags | VBlockData | VStatusReportBlock | VDupNumber | VDupType | VAgeMissing | VNoPayload.

(* eid.rs:383-411 *)
Definition eid_valid (e : eid) : bool :=
  match e with
  | Dtn _ _ => true
  | Ipn c n _ => (c =? ENDPOINT_URI_SCHEME_IPN) && negb (n <? 1)
  | DtnNone c a => (c =? ENDPOINT_URI_SCHEME_DTN) && (a =? 0)
  end.

(* flags.rs:119-154 *)
Definition status_request_mask_clear (w : N) : bool :=
  negb (bundle_flag w BUNDLE_STATUS_REQUEST_RECEPTION) && negb (bundle_flag w BUNDLE_STATUS_REQUEST_FORWARD)
  && negb (bundle_flag w BUNDLE_STATUS_REQUEST_DELIVERY) && negb (bundle_flag w BUNDLE_STATUS_REQUEST_DELETION).
Definition bundle_flags_validate (w : N) : list verr :=
  (if bundle_flag w BUNDLE_CFRESERVED_FIELDS then [VFlagsReserved] else []) ++
  (if bundle_flag w BUNDLE_IS_FRAGMENT && bundle_flag w BUNDLE_MUST_NOT_FRAGMENTED then [VFragment] else []) ++
  (if negb (bundle_flag w BUNDLE_ADMINISTRATIVE_RECORD_PAYLOAD) || status_request_mask_clear w then [] else [VAdminStatus]).

(* primary.rs:291-321 *)
Definition primary_validate (p : primary) : list verr :=
  (if p_version p =? DTN_VERSION then [] else [VVersion]) ++
  bundle_flags_validate (p_flags p) ++
  (if eid_valid (p_dst p) then [] else [VEid]) ++
  (if eid_valid (p_src p) then [] else [VEid]) ++
  (if eid_valid (p_rpt p) then [] else [VEid]).

(* canonical.rs:324-377 *)
Definition extension_valid (c : canonical) : bool :=
  match c_data c with
  | Data _ => (c_type c =? PAYLOAD_BLOCK) && (c_num c =? 1)
  | BundleAge _ => c_type c =? BUNDLE_AGE_BLOCK
  | HopCount _ _ => c_type c =? HOP_COUNT_BLOCK
  | PreviousNode e => (c_type c =? PREVIOUS_NODE_BLOCK) && eid_valid e
  | Unknown _ => true
  | DecodingError => false
  end.
(* canonical.rs:307-323 *)
Definition canonical_validate (c : canonical) : list verr :=
  (if block_flag (c_flags c) BLOCK_CFRESERVED_FIELDS then [VBlockFlags] else []) ++
  (if extension_valid c then [] else [VBlockData]).

(* bundle.rs:318-334: first block of that type whose extension validation passes *)
Definition ext_block_by_type (t : N) (cs : list canonical) : option canonical :=
  find (fun c => (c_type c =? t) && extension_valid c) cs.
(* bundle.rs:267-270 *)
Definition payload (b : bundle) : option (list byte) :=
  match ext_block_by_type PAYLOAD_BLOCK (b_canonicals b) with
  | Some c => match c_data c with Data d => Some d | _ => None end
  | None => None
  end.
Definition is_admin_record (b : bundle) : bool := bundle_flag (p_flags (b_primary b)) BUNDLE_ADMINISTRATIVE_RECORD_PAYLOAD.
Definition is_singleton_type (t : N) : bool :=
  (t =? BUNDLE_AGE_BLOCK) || (t =? HOP_COUNT_BLOCK) || (t =? PREVIOUS_NODE_BLOCK).

(* the per-block loop of bundle.rs:178-211 with its two HashSets (as lists) *)
Fixpoint block_loop (strict : bool) (cs : list canonical) (nums types : list N) : list verr * list N :=
  match cs with
  | [] => ([], types)
  | c :: t =>
    let e := canonical_validate c ++
             (if strict && block_flag (c_flags c) BLOCK_STATUS_REPORT then [VStatusReportBlock] else []) ++
             (if memN (c_num c) nums then [VDupNumber] else []) ++
             (if memN (c_type c) types && is_singleton_type (c_type c) then [VDupType] else []) in
    let '(rest, tys) := block_loop strict t (c_num c :: nums) (c_type c :: types) in
    (e ++ rest, tys)
  end.

(* bundle.rs:165-225 *)
Definition validate (b : bundle) : list verr :=
  let p := b_primary b in
  let strict := is_admin_record b || eid_eqb (p_src p) eid_none in
  let '(errs, types) := block_loop strict (b_canonicals b) [] [] in
  primary_validate p ++ errs ++
  (if (p_time p =? 0) && negb (memN BUNDLE_AGE_BLOCK types) then [VAgeMissing] else []) ++
  (match payload b with None => [VNoPayload] | Some _ => [] end).
Definition is_valid (b : bundle) : bool := match validate b with [] => true | _ => false end.
