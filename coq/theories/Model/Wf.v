(* Well-formedness: the domain of C01 ("every bundle value") as a boolean predicate.
   Integer widths, EIDs in constructor normal form, CRC values of the right length, block data
   variant determined by the block type, fragment fields zero unless 'is fragment' is set. *)
From BP7 Require Import Base.Prelude Base.Utf8 Gen.Consts Cbor.Item Spec.CrcSpec Model.Types Model.Encode.

Definition wf_eid (e : eid) : bool :=
  match e with
  | Dtn c s => (c =? ENDPOINT_URI_SCHEME_DTN) && negb (match s with [] => true | _ => false end)
               && utf8_valid s && (Nlen s <? two64)
  | DtnNone c a => (c =? ENDPOINT_URI_SCHEME_DTN) && (a =? 0)
  | Ipn c n s => (c =? ENDPOINT_URI_SCHEME_IPN) && (1 <=? n) && (n <? two64) && (s <? two64)
  end.
Definition wf_crc (c : crc_value) : bool :=
  match c with
  | CrcNo | Crc16Empty | Crc32Empty => true
  | Crc16 b => Nat.eqb (length b) 2
  | Crc32 b => Nat.eqb (length b) 4
  | CrcUnknown _ => false
  end.
Definition wf_primary (p : primary) : bool :=
  (p_version p <? 4294967296) && (p_flags p <? two64) && wf_crc (p_crc p)
  && wf_eid (p_dst p) && wf_eid (p_src p) && wf_eid (p_rpt p)
  && (p_time p <? two64) && (p_seq p <? two64) && (p_lifetime p <? two64)
  && (p_frag_off p <? two64) && (p_total_len p <? two64)
  && (has_fragmentation p || ((p_frag_off p =? 0) && (p_total_len p =? 0))).
Definition wf_data (btype : N) (d : cdata) : bool :=
  match d with
  | Data b => (btype =? PAYLOAD_BLOCK) && (Nlen b <? two64)
  | BundleAge a => (btype =? BUNDLE_AGE_BLOCK) && (a <? two64)
  | HopCount l c => (btype =? HOP_COUNT_BLOCK) && (l <? 256) && (c <? 256)
  | PreviousNode e => (btype =? PREVIOUS_NODE_BLOCK) && wf_eid e && (Nlen (enc_eid e) <? two64)
  | Unknown b => negb (btype =? PAYLOAD_BLOCK) && negb (btype =? BUNDLE_AGE_BLOCK) && negb (btype =? HOP_COUNT_BLOCK)
                 && negb (btype =? PREVIOUS_NODE_BLOCK) && (Nlen b <? two64)
  | DecodingError => false
  end.
Definition wf_canonical (c : canonical) : bool :=
  (c_type c <? two64) && (c_num c <? two64) && (c_flags c <? 256) && wf_crc (c_crc c) && wf_data (c_type c) (c_data c).
Definition wf_bundle (b : bundle) : bool :=
  wf_primary (b_primary b) && forallb wf_canonical (b_canonicals b).

(* "encoding does not change anything but the stored CRC values" *)
Definition same_but_crc_p (p q : primary) : Prop := set_p_crc p CrcNo = set_p_crc q CrcNo /\ crc_code (p_crc p) = crc_code (p_crc q).
Definition same_but_crc_c (c d : canonical) : Prop := set_c_crc c CrcNo = set_c_crc d CrcNo /\ crc_code (c_crc c) = crc_code (c_crc d).
Definition only_crc_changed (b b' : bundle) : Prop :=
  same_but_crc_p (b_primary b) (b_primary b') /\ Forall2 same_but_crc_c (b_canonicals b) (b_canonicals b').
(* after encoding every block with a CRC type carries a computed value of the right length *)
Definition crc_filled (c : crc_value) : bool :=
  match c with CrcNo => true | Crc16 b => Nat.eqb (length b) 2 | Crc32 b => Nat.eqb (length b) 4 | _ => false end.
Definition crcs_filled (b : bundle) : bool :=
  crc_filled (p_crc (b_primary b)) && forallb (fun c => crc_filled (c_crc c)) (b_canonicals b).
