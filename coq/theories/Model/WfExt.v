(* Well-formedness extended to blocks whose CRC type is none of 0/1/2 (CrcValue::Unknown(k), 3 <= k <= 255: what
   set_crc_type(k) stores and what the decoder builds for such a type code; no CRC field on the wire).
   Same shape as Model/Wf.v, which stays the domain of C01-C04; wf_bundle implies wf_bundle_u.  Definitions only. *)
From BP7 Require Import Base.Prelude Gen.Consts Model.Types Model.Encode Model.Wf.

Definition wf_crc_u (c : crc_value) : bool :=
  match c with
  | CrcUnknown k => (3 <=? k) && (k <? 256)
  | c => wf_crc c
  end.
Definition wf_primary_u (p : primary) : bool :=
  (p_version p <? 4294967296) && (p_flags p <? two64) && wf_crc_u (p_crc p)
  && wf_eid (p_dst p) && wf_eid (p_src p) && wf_eid (p_rpt p)
  && (p_time p <? two64) && (p_seq p <? two64) && (p_lifetime p <? two64)
  && (p_frag_off p <? two64) && (p_total_len p <? two64)
  && (has_fragmentation p || ((p_frag_off p =? 0) && (p_total_len p =? 0))).
Definition wf_canonical_u (c : canonical) : bool :=
  (c_type c <? two64) && (c_num c <? two64) && (c_flags c <? 256) && wf_crc_u (c_crc c) && wf_data (c_type c) (c_data c).
Definition wf_bundle_u (b : bundle) : bool :=
  wf_primary_u (b_primary b) && forallb wf_canonical_u (b_canonicals b).

(* after encoding: known types carry a computed value of the right length, unknown types stay as they are *)
Definition crc_filled_u (c : crc_value) : bool :=
  match c with
  | CrcUnknown k => (3 <=? k) && (k <? 256)
  | c => crc_filled c
  end.
Definition crcs_filled_u (b : bundle) : bool :=
  crc_filled_u (p_crc (b_primary b)) && forallb (fun c => crc_filled_u (c_crc c)) (b_canonicals b).
