(* C12: administrative records round-trip through their CBOR encoding, the encoding is the RFC 9171
   section 6.1 layout, and new_status_report_bundle builds a valid report bundle that describes the
   subject bundle. *)
From BP7 Require Import Base.Prelude Base.Utf8 Gen.Consts Cbor.Item Cbor.SerdeDe Spec.CrcSpec Spec.Rfc9171.
From BP7 Require Import Model.Types Model.Encode Model.Decode Model.Wf Model.Validate Model.DtnTime Model.Ops.
From BP7 Require Import Model.AdminRecord Spec.Rfc9171Admin.
From BP7 Require Import Proofs.CborLemmas Proofs.CodecProofs Proofs.SpecProofs Proofs.DecodeImage Proofs.DtnTimeProofs.

(* ------------------------------------------------------------------------------------------- *)
(* Round trip                                                                                    *)
(* ------------------------------------------------------------------------------------------- *)

Lemma p_bool_ok f b r d : p_bool (S f) (mkst (enc_bool b ++ r) d) = (Ok b, mkst r d).
Proof.
  unfold p_bool, enc_bool.
  destruct b; cbn [app parse_value inp]; rewrite b2n_n2b by lia.
  - change (245 / 32) with 7. change (245 mod 32) with 21. ground_N. cbv iota. reflexivity.
  - change (244 / 32) with 7. change (244 mod 32) with 20. ground_N. cbv iota. reflexivity.
Qed.

Lemma p_status_item_ok f i r d : nf_item i = true -> 2 <= d ->
  p_status_item (S f) (mkst (enc_status_item i ++ r) d) = (Ok i, mkst r d).
Proof.
  intros Hnf Hd. unfold p_status_item, enc_status_item, enc_arr. unfold nf_item in Hnf.
  destruct i as [a t q]. unfold item_has_time in *. cbn [si_asserted si_time si_requested] in *.
  destruct (a && q) eqn:E.
  - apply andb_true_iff in E as [-> ->]. nat_facts. rewrite <- !app_assoc.
    apply parse_seq_array_ok; [unfold two64; lia|assumption|].
    unfold status_item_body.
    erewrite field_def; [|discriminate|apply p_bool_ok]. ground_N.
    unfold hint_is. cbn [size_hint]. ground_N.
    erewrite field_def; [|discriminate|apply p_u64_ok; assumption]. ground_N. reflexivity.
  - bools Hnf. nat_facts. subst t. destruct q; [discriminate|]. rewrite <- !app_assoc.
    apply parse_seq_array_ok; [unfold two64; lia|assumption|].
    unfold status_item_body.
    erewrite field_def; [|discriminate|apply p_bool_ok]. ground_N.
    unfold hint_is. cbn [size_hint]. ground_N. reflexivity.
Qed.

(* `while let Some(x) = seq.next_element()?` on a DEFINITE access with exactly the announced elements *)
Lemma seq_loop_def_ok {A} (p : st -> res A * st) (enc : A -> list byte) d :
  forall (l : list A) fuel r,
  (forall a r', In a l -> p (mkst (enc a ++ r') d) = (Ok a, mkst r' d)) ->
  (length l < fuel)%nat ->
  seq_loop p fuel (Definite (Nlen l)) (mkst (concat (map enc l) ++ r) d) = (Ok l, Definite 0, mkst r d).
Proof.
  induction l as [|a l IH]; intros fuel r Hp Hf; (destruct fuel as [|f]; [cbn in Hf; lia|]).
  - cbn [map concat app seq_loop next_element Nlen length]. change (N.of_nat 0) with 0. ground_N. reflexivity.
  - cbn [map concat seq_loop]. rewrite <- app_assoc.
    erewrite next_def; [| |apply Hp; left; reflexivity].
    2:{ unfold Nlen. cbn [length]. lia. }
    replace (Nlen (a :: l) - 1) with (Nlen l) by (unfold Nlen; cbn [length]; lia).
    rewrite IH; [reflexivity| |cbn in Hf; lia].
    intros b r' Hin. apply Hp. right. assumption.
Qed.

Lemma p_items_ok f l r d : forallb nf_item l = true -> Nlen l < two64 -> (length l <= f)%nat -> 3 <= d ->
  p_items (S f) (mkst (enc_items l ++ r) d) = (Ok l, mkst r d).
Proof.
  intros Hnf Hl Hf Hd. unfold p_items, enc_items, enc_arr. rewrite <- app_assoc.
  apply parse_seq_array_ok; [assumption|lia|].
  unfold items_body. apply seq_loop_def_ok; [|lia].
  intros a r' Hin. apply p_status_item_ok; [|lia].
  rewrite forallb_forall in Hnf. apply Hnf. assumption.
Qed.

Lemma p_status_report_ok f sr r d : nf_report sr = true -> (length (sr_items sr) <= f)%nat -> 5 <= d ->
  p_status_report (S f) (mkst (enc_status_report sr ++ r) d) = (Ok sr, mkst r d).
Proof.
  intros Hnf Hf Hd. unfold p_status_report, enc_status_report, enc_arr.
  destruct sr as [its rsn e t q off len]. unfold nf_report, report_num_elems in *.
  cbn [sr_items sr_reason sr_src sr_time sr_seq sr_frag_off sr_frag_len] in *.
  bools Hnf. unfold u32_bound in *. nat_facts.
  rewrite <- !app_assoc.
  apply parse_seq_array_ok; [destruct (len =? 0); unfold two64; lia|lia|].
  unfold status_report_body.
  destruct (len =? 0) eqn:El.
  - fld ltac:(apply p_items_ok; [assumption|assumption|assumption|lia]).
    fld ltac:(apply p_u32_ok; assumption).
    fld ltac:(apply p_eid_ok; [assumption|lia]).
    fld ltac:(apply p_ts_ok'; [assumption|assumption|lia]).
    unfold hint_is. cbn [size_hint]. ground_N. cbn [app fst snd].
    apply N.eqb_eq in El. subst len.
    match goal with H : negb _ || _ = true |- _ => cbn in H; apply N.eqb_eq in H; subst off end.
    reflexivity.
  - fld ltac:(apply p_items_ok; [assumption|assumption|assumption|lia]).
    fld ltac:(apply p_u32_ok; assumption).
    fld ltac:(apply p_eid_ok; [assumption|lia]).
    fld ltac:(apply p_ts_ok'; [assumption|assumption|lia]).
    unfold hint_is. cbn [size_hint]. ground_N. rewrite <- !app_assoc.
    fld ltac:(apply p_u64_ok; assumption).
    fld ltac:(apply p_u64_ok; assumption).
    reflexivity.
Qed.

Definition items_of (r : admin_record) : list status_item :=
  match r with BundleStatusReport sr => sr_items sr | _ => [] end.

Lemma p_admin_record_ok f rcd r d : normal_form rcd = true -> (length (items_of rcd) <= f)%nat -> 6 <= d ->
  p_admin_record (S f) (mkst (enc_admin_record rcd ++ r) d) = (Ok rcd, mkst r d).
Proof.
  intros Hnf Hf Hd. unfold p_admin_record, enc_admin_record, enc_arr. rewrite <- !app_assoc.
  apply parse_seq_array_ok; [unfold two64; lia|lia|].
  unfold admin_record_body.
  destruct rcd as [sr|code data|code data]; cbn [normal_form items_of] in *; [| |discriminate].
  - rewrite <- !app_assoc.
    fld ltac:(apply p_u32_ok; unfold BUNDLE_STATUS_REPORT_TYPE_CODE; lia).
    unfold BUNDLE_STATUS_REPORT_TYPE_CODE. ground_N.
    fld ltac:(apply p_status_report_ok; [assumption|assumption|lia]).
    reflexivity.
  - bools Hnf. unfold u32_bound in *. nat_facts. rewrite <- !app_assoc.
    fld ltac:(apply p_u32_ok; assumption).
    apply N.eqb_neq in Hnf. rewrite Hnf.
    fld ltac:(apply p_bytebuf_ok; assumption).
    reflexivity.
Qed.

Lemma from_slice_ok_fuel {A} (p : nat -> st -> res A * st) bs a :
  p (S (length bs)) (mkst (bs ++ []) 128) = (Ok a, mkst [] 128) -> from_slice p bs = Ok a.
Proof. intros H. unfold from_slice. rewrite <- (app_nil_r bs) at 2. rewrite H. reflexivity. Qed.

Lemma enc_status_item_nonempty i : (1 <= length (enc_status_item i))%nat.
Proof.
  unfold enc_status_item, enc_arr. destruct (item_has_time i);
  (rewrite head_small_first by lia); cbn [length]; lia.
Qed.
Lemma items_length_le l : (length l <= length (concat (map enc_status_item l)))%nat.
Proof.
  induction l as [|i l IH]; cbn [map concat length]; [lia|]. rewrite app_length.
  pose proof (enc_status_item_nonempty i). lia.
Qed.
Lemma record_items_length r : (length (items_of r) <= length (enc_admin_record r))%nat.
Proof.
  destruct r as [sr|c d|c d]; cbn [items_of length]; try lia.
  unfold enc_admin_record, enc_status_report, enc_items. rewrite !app_length.
  pose proof (items_length_le (sr_items sr)). lia.
Qed.

Theorem record_roundtrip r : normal_form r = true -> admin_from_bytes (enc_admin_record r) = Ok r.
Proof.
  intros Hnf. unfold admin_from_bytes. apply from_slice_ok_fuel.
  apply p_admin_record_ok; [assumption|apply record_items_length|lia].
Qed.

(* ------------------------------------------------------------------------------------------- *)
(* Layout                                                                                        *)
(* ------------------------------------------------------------------------------------------- *)

Lemma ser_status_item i : ser (status_item_item i) = enc_status_item i.
Proof.
  unfold status_item_item, enc_status_item, item_has_time, enc_arr, enc_bool, enc_uint.
  destruct i as [a t q]. cbn [si_asserted si_time si_requested].
  destruct a, q; cbn [andb]; rewrite ser_arr; unfold Nlen; cbn [map concat ser length app];
    [change (N.of_nat 2) with 2|change (N.of_nat 1) with 1..]; rewrite ?app_nil_r; reflexivity.
Qed.

Lemma ser_items l : concat (map ser (map status_item_item l)) = concat (map enc_status_item l).
Proof. induction l as [|i l IH]; [reflexivity|]. cbn [map concat]. rewrite ser_status_item, IH. reflexivity. Qed.

Lemma ser_status_report sr : ser (status_report_item sr) = enc_status_report sr.
Proof.
  unfold status_report_item, enc_status_report, enc_items, report_num_elems, subject_was_fragment, enc_arr, enc_uint.
  destruct (sr_frag_len sr =? 0); cbn [negb app]; rewrite ser_arr; cbn [map concat];
    rewrite ser_arr, ser_eid_item, ser_items, app_nil_r; unfold Nlen; rewrite map_length; cbn [length];
    rewrite (ser_arr [UInt (sr_time sr); UInt (sr_seq sr)]); unfold Nlen; cbn [map concat ser length];
    [change (N.of_nat 4) with 4|change (N.of_nat 6) with 6]; change (N.of_nat 2) with 2;
    ground_N; rewrite <- ?app_assoc, ?app_nil_r; reflexivity.
Qed.

(* holds for every record value, normal form or not *)
Theorem record_layout r : enc_admin_record r = ser (record_item r).
Proof.
  destruct r as [sr|c d|c d]; unfold record_item, enc_admin_record; rewrite ser_arr; cbn [map concat];
    rewrite ?ser_status_report, app_nil_r; reflexivity.
Qed.

(* ------------------------------------------------------------------------------------------- *)
(* The status-report bundle                                                                      *)
(* ------------------------------------------------------------------------------------------- *)

Lemma validate_report_shape dst src t q life c0 c1 data :
  eid_valid dst = true -> eid_valid src = true -> t <> 0 ->
  validate (mkbundle (mkprimary DTN_VERSION BUNDLE_ADMINISTRATIVE_RECORD_PAYLOAD c0 dst src src t q life 0 0)
                     [mkcanonical PAYLOAD_BLOCK PAYLOAD_BLOCK_NUMBER 0 c1 (Data data)]) = [].
Proof.
  intros Hd Hs Ht. apply N.eqb_neq in Ht.
  unfold validate, is_admin_record, payload, ext_block_by_type, primary_validate.
  cbn [b_primary b_canonicals p_version p_flags p_dst p_src p_rpt p_time].
  rewrite Hd, Hs, Ht.
  assert (E1 : bundle_flag BUNDLE_ADMINISTRATIVE_RECORD_PAYLOAD BUNDLE_ADMINISTRATIVE_RECORD_PAYLOAD = true) by (vm_compute; reflexivity).
  assert (E2 : bundle_flags_validate BUNDLE_ADMINISTRATIVE_RECORD_PAYLOAD = []) by (vm_compute; reflexivity).
  rewrite E1, E2. cbn [orb andb app].
  assert (E3 : block_loop true [mkcanonical PAYLOAD_BLOCK PAYLOAD_BLOCK_NUMBER 0 c1 (Data data)] [] [] = ([], [PAYLOAD_BLOCK]))
    by (vm_compute; reflexivity).
  rewrite E3.
  assert (E4 : find (fun c : canonical => (c_type c =? PAYLOAD_BLOCK) && extension_valid c)
                 [mkcanonical PAYLOAD_BLOCK PAYLOAD_BLOCK_NUMBER 0 c1 (Data data)]
               = Some (mkcanonical PAYLOAD_BLOCK PAYLOAD_BLOCK_NUMBER 0 c1 (Data data))) by (vm_compute; reflexivity).
  rewrite E4. cbn [c_data].
  change (DTN_VERSION =? DTN_VERSION) with true. reflexivity.
Qed.

(* the item new_status_report puts at position i *)
Definition report_item (req : bool) (t pos i : N) : status_item :=
  if (i =? pos) && req then mk_item true t true else mk_item (i =? pos) 0 false.

Lemma status_item_at_ok m clock req pos i : MS1970_TO2K <= clock ->
  status_item_at m clock req pos i = Ok (report_item req (clock - MS1970_TO2K) pos i).
Proof.
  intros Hc. unfold status_item_at, report_item, DTN_TIME_EPOCH.
  destruct (i =? pos), req; cbn [andb]; try reflexivity.
  unfold MS1970_TO2K in *. rewrite now_ok by assumption. reflexivity.
Qed.

Lemma status_positions_eq : status_positions = [0; 1; 2; 3].
Proof. vm_compute. reflexivity. Qed.

Lemma new_status_report_ok m clock B pos reason :
  has_fragmentation (b_primary B) = false -> MS1970_TO2K <= clock ->
  new_status_report m clock B pos reason =
    Ok (mk_sr (map (report_item (requests_status_time (b_primary B)) (clock - MS1970_TO2K) pos) [0; 1; 2; 3]) reason
              (p_src (b_primary B)) (p_time (b_primary B)) (p_seq (b_primary B)) 0 0).
Proof.
  intros Hf Hc. unfold new_status_report. rewrite Hf, status_positions_eq. cbn [mapM].
  rewrite !status_item_at_ok by assumption. reflexivity.
Qed.

Lemma nf_report_item req t pos i : t < two64 -> nf_item (report_item req t pos i) = true.
Proof.
  intros Ht. apply N.ltb_lt in Ht. unfold report_item, nf_item, item_has_time.
  destruct (i =? pos), req; cbn [andb si_asserted si_requested si_time negb]; try assumption; reflexivity.
Qed.

Lemma creation_now_ok m clock gen : MS1970_TO2K < clock -> gen_ok gen = true ->
  exists ts, creation_now m clock gen = Ok ts /\ fst ts <> 0.
Proof.
  intros Hc Hg. unfold creation_now. unfold MS1970_TO2K in *. rewrite now_ok by lia. cbn [bind].
  destruct gen as [[lt lq]|].
  - destruct (clock - 946684800000 <=? lt) eqn:E.
    + cbn [gen_ok] in Hg. unfold add64. rewrite Hg. cbn [bind]. eexists. split; [reflexivity|].
      cbn [fst]. apply N.leb_le in E. lia.
    + eexists. split; [reflexivity|]. cbn [fst]. lia.
  - eexists. split; [reflexivity|]. cbn [fst]. lia.
Qed.

(* ---- what the property says about the report inside the generated bundle ---- *)
(* four status items, exactly the one at `pos` asserted *)
Definition asserted_exactly (sr : status_report) (pos : N) : Prop :=
  length (sr_items sr) = 4%nat /\
  forall i it, nth_error (sr_items sr) i = Some it -> si_asserted it = (N.of_nat i =? pos).
(* the status time is present exactly on the asserted item of a bundle that requested status times, and
   then it is the clock reading as a DTN time; everywhere else there is no time *)
Definition time_iff_requested (sr : status_report) (pos : N) (req : bool) (t : N) : Prop :=
  forall i it, nth_error (sr_items sr) i = Some it ->
    si_requested it = ((N.of_nat i =? pos) && req) /\
    si_time it = (if (N.of_nat i =? pos) && req then t else 0).

Definition report_bundle_ok (clock : N) (gen : gen_state) (m : ovf_mode) (B : bundle) (src : eid) (crc pos reason : N)
    (R : bundle) (sr : status_report) : Prop :=
  validate R = [] /\ is_admin_record R = true /\
  p_dst (b_primary R) = p_rpt (b_primary B) /\ p_src (b_primary R) = src /\
  p_lifetime (b_primary R) = p_lifetime (b_primary B) /\
  creation_now m clock gen = Ok (p_time (b_primary R), p_seq (b_primary R)) /\
  crc_code (p_crc (b_primary R)) = crc /\ Forall (fun c => crc_code (c_crc c) = crc) (b_canonicals R) /\
  (exists data, payload R = Some data /\ admin_from_bytes data = Ok (BundleStatusReport sr)) /\
  sr_src sr = p_src (b_primary B) /\ sr_time sr = p_time (b_primary B) /\ sr_seq sr = p_seq (b_primary B) /\
  sr_frag_len sr = 0 /\
  asserted_exactly sr pos /\
  time_iff_requested sr pos (requests_status_time (b_primary B)) (clock - MS1970_TO2K) /\
  sr_reason sr = reason.

Lemma crc_code_of_type crc : crc <= 2 -> crc_code (crc_of_type crc) = crc.
Proof.
  intros H. assert (crc = 0 \/ crc = 1 \/ crc = 2) as [->|[->| ->]] by lia; reflexivity.
Qed.

Lemma items_facts req t pos : pos < 4 ->
  let sr := map (report_item req t pos) [0; 1; 2; 3] in
  (length sr = 4%nat /\ forall i it, nth_error sr i = Some it -> si_asserted it = (N.of_nat i =? pos)) /\
  (forall i it, nth_error sr i = Some it ->
     si_requested it = ((N.of_nat i =? pos) && req) /\ si_time it = (if (N.of_nat i =? pos) && req then t else 0)).
Proof.
  intros Hp. cbv zeta. split; [split; [reflexivity|]|]; intros i it H;
    (do 4 (destruct i as [|i]; [cbn [nth_error map] in H; injection H as <-; unfold report_item;
                                 match goal with |- context [N.of_nat ?k] => let v := eval vm_compute in (N.of_nat k) in change (N.of_nat k) with v end;
                                 destruct (_ =? pos), req; cbn [andb si_asserted si_requested si_time]; try split; reflexivity|]));
    cbn [nth_error map] in H; destruct i; discriminate.
Qed.

Theorem status_report_bundle m clock gen B src crc pos reason :
  decodable_shape B = true -> wf_eid (p_src (b_primary B)) = true ->
  has_fragmentation (b_primary B) = false -> eid_eqb (p_rpt (b_primary B)) eid_none = false ->
  eid_valid src = true -> pos < 4 -> reason < u32_bound -> crc <= 2 ->
  MS1970_TO2K < clock -> clock < two64 -> gen_ok gen = true ->
  exists R sr, new_status_report_bundle m clock gen B src crc pos reason = Ok R /\
               report_bundle_ok clock gen m B src crc pos reason R sr.
Proof.
  intros Hshape Hsrc Hfrag Hrpt Hvs Hpos Hreason Hcrc Hclock Hclock64 Hgen.
  destruct (creation_now_ok m clock gen Hclock Hgen) as (ts & Hts & Hnz).
  destruct ts as [t q]. cbn [fst] in Hnz.
  set (sr := mk_sr (map (report_item (requests_status_time (b_primary B)) (clock - MS1970_TO2K) pos) [0; 1; 2; 3]) reason
                   (p_src (b_primary B)) (p_time (b_primary B)) (p_seq (b_primary B)) 0 0).
  set (R := set_crc (mkbundle (mkprimary DTN_VERSION BUNDLE_ADMINISTRATIVE_RECORD_PAYLOAD CrcNo (p_rpt (b_primary B)) src src t q
                                         (p_lifetime (b_primary B)) 0 0)
                              [to_payload (BundleStatusReport sr)]) crc).
  exists R, sr.
  (* shape facts of B *)
  unfold decodable_shape in Hshape. apply andb_true_iff in Hshape as [Hp _].
  unfold dec_primary in Hp. bools Hp. nat_facts.
  assert (Hrv : eid_valid (p_rpt (b_primary B)) = true).
  { match goal with H : dec_eid (p_rpt _) = true |- _ => revert H end.
    destruct (p_rpt (b_primary B)) as [c s|c a|c n sv]; cbn [dec_eid eid_valid]; intros H; bools H; nat_facts; subst;
      try reflexivity.
    - apply andb_true_iff. split; [reflexivity|]. apply negb_true_iff. apply N.ltb_ge. assumption. }
  assert (Hnf : normal_form (BundleStatusReport sr) = true).
  { cbn [normal_form]. unfold nf_report, sr. cbn [sr_items sr_reason sr_src sr_time sr_seq sr_frag_off sr_frag_len].
    assert (forallb nf_item (map (report_item (requests_status_time (b_primary B)) (clock - MS1970_TO2K) pos) [0; 1; 2; 3]) = true) as ->.
    { cbn [map forallb]. rewrite !nf_report_item by lia. reflexivity. }
    rewrite Hsrc.
    repeat match goal with H : ?a < ?b |- context [?a <? ?b] => let E := fresh in assert (E : a <? b = true) by (apply N.ltb_lt; exact H); rewrite E; clear E end.
    reflexivity. }
  split.
  - unfold new_status_report_bundle. rewrite new_status_report_ok by (assumption || lia). cbn [bind]. fold sr.
    rewrite Hts. cbn [bind]. unfold primary_build. rewrite Hrpt. cbn [unwrap bind fst snd].
    unfold bundle_build. cbn [sort_desc insert_desc last_opt to_payload new_payload_block c_data unwrap bind]. reflexivity.
  - unfold report_bundle_ok.
    assert (HR : R = mkbundle (mkprimary DTN_VERSION BUNDLE_ADMINISTRATIVE_RECORD_PAYLOAD (crc_of_type crc) (p_rpt (b_primary B)) src src t q
                                         (p_lifetime (b_primary B)) 0 0)
                              [mkcanonical PAYLOAD_BLOCK PAYLOAD_BLOCK_NUMBER 0 (crc_of_type crc)
                                 (Data (enc_admin_record (BundleStatusReport sr)))]) by reflexivity.
    rewrite HR. cbn [b_primary b_canonicals p_dst p_src p_lifetime p_time p_seq p_crc].
    destruct (items_facts (requests_status_time (b_primary B)) (clock - MS1970_TO2K) pos Hpos) as [Ha Ht].
    split; [apply validate_report_shape; assumption|].
    split; [vm_compute; reflexivity|].
    split; [reflexivity|]. split; [reflexivity|]. split; [reflexivity|]. split; [exact Hts|].
    split; [apply crc_code_of_type; assumption|].
    split; [constructor; [cbn [c_crc]; apply crc_code_of_type; assumption|constructor]|].
    split.
    { exists (enc_admin_record (BundleStatusReport sr)). split.
      - unfold payload, ext_block_by_type.
        assert (E4 : forall c1 data, find (fun c : canonical => (c_type c =? PAYLOAD_BLOCK) && extension_valid c)
                 [mkcanonical PAYLOAD_BLOCK PAYLOAD_BLOCK_NUMBER 0 c1 (Data data)]
               = Some (mkcanonical PAYLOAD_BLOCK PAYLOAD_BLOCK_NUMBER 0 c1 (Data data))) by (intros; vm_compute; reflexivity).
        cbn [b_canonicals]. rewrite E4. reflexivity.
      - apply record_roundtrip. assumption. }
    split; [reflexivity|]. split; [reflexivity|]. split; [reflexivity|]. split; [reflexivity|].
    split; [exact Ha|]. split; [exact Ht|]. reflexivity.
Qed.

(* the two excluded inputs: what the code does there (both are panics, as modelled) *)
Theorem status_report_bundle_fragment m clock gen B src crc pos reason :
  has_fragmentation (b_primary B) = true ->
  new_status_report_bundle m clock gen B src crc pos reason = Panic PUnimplemented.
Proof. intros H. unfold new_status_report_bundle, new_status_report. rewrite H. reflexivity. Qed.

Theorem status_report_bundle_no_report_to m clock gen B src crc pos reason :
  has_fragmentation (b_primary B) = false -> MS1970_TO2K < clock -> gen_ok gen = true ->
  p_rpt (b_primary B) = eid_none ->
  new_status_report_bundle m clock gen B src crc pos reason = Panic PUnwrap.
Proof.
  intros Hf Hc Hg Hr. destruct (creation_now_ok m clock gen Hc Hg) as (ts & Hts & _).
  unfold new_status_report_bundle. rewrite new_status_report_ok by (assumption || lia). cbn [bind].
  rewrite Hts. cbn [bind]. unfold primary_build. rewrite Hr. reflexivity.
Qed.
