(* C06 (receive path of administrative-record bundles): the model of serde_cbor::from_slice::<AdministrativeRecord> returns Ok or Err for
   EVERY byte string, never Panic - by the same inversion of the stream parser as Proofs/TotalProofs.v, through the status-item,
   status-report and administrative-record visitors (which branch on SeqAccess::size_hint). *)
From BP7 Require Import Base.Prelude Gen.Consts Cbor.SerdeDe Model.Types Model.Decode Model.AdminRecord Proofs.TotalProofs.

Lemma bool_np f : never_panics (p_bool f).
Proof.
  intros s q s' H. unfold p_bool in H. apply parse_value_panic in H. unfold panicked in H.
  cbn [v_uint v_nint v_bytes v_text v_bool v_unit v_float v_map v_seq vis_bool] in H.
  destruct H as [(k & H)|[H|[(x & H)|[(x & H)|[(b & H)|[H|[H|[H|(body & acc & s1 & acc' & s2 & Hb & H)]]]]]]]]; discriminate.
Qed.

Lemma status_item_np f : never_panics (p_status_item f).
Proof.
  intros s q s' H. apply seq_panic in H as (acc & s1 & acc' & s2 & H). unfold status_item_body in H.
  apply field_panic in H as (a & a1 & s3 & H); [|apply bool_np].
  destruct (hint_is a1 1).
  - apply field_panic in H as (t & a2 & s4 & H); [|apply p_uint_np]. discriminate.
  - discriminate.
Qed.

Lemma items_np f : never_panics (p_items f).
Proof.
  intros s q s' H. apply seq_panic in H as (acc & s1 & acc' & s2 & H). unfold items_body in H.
  eapply seq_loop_no_panic; [apply status_item_np|eassumption].
Qed.

Lemma status_report_np f : never_panics (p_status_report f).
Proof.
  intros s q s' H. apply seq_panic in H as (acc & s1 & acc' & s2 & H). unfold status_report_body in H.
  apply field_panic in H as (its & a1 & ? & H); [|apply items_np].
  apply field_panic in H as (rsn & a2 & ? & H); [|apply p_uint_np].
  apply field_panic in H as (e & a3 & ? & H); [|apply eid_np].
  apply field_panic in H as (ts & a4 & ? & H); [|apply pair_np].
  destruct (hint_is a4 2).
  - apply field_panic in H as (off & a5 & ? & H); [|apply p_uint_np].
    apply field_panic in H as (len & a6 & ? & H); [|apply p_uint_np]. discriminate.
  - discriminate.
Qed.

Lemma admin_record_np f : never_panics (p_admin_record f).
Proof.
  intros s q s' H. apply seq_panic in H as (acc & s1 & acc' & s2 & H). unfold admin_record_body in H.
  apply field_panic in H as (code & a1 & ? & H); [|apply p_uint_np].
  destruct (code =? BUNDLE_STATUS_REPORT_TYPE_CODE).
  - apply field_panic in H as (sr & a2 & ? & H); [|apply status_report_np]. discriminate.
  - apply field_panic in H as (data & a2 & ? & H); [|apply bytebuf_np]. discriminate.
Qed.

Theorem admin_decode_total bs : no_panic (admin_from_bytes bs).
Proof. intros q. unfold admin_from_bytes. apply from_slice_np. intros f. apply admin_record_np. Qed.
