(* The public constructors, builders and per-block operations of Model/Api.v:
   - update_extensions written with the block-level operations (the structure of the Rust code) IS Model/Ops.v
     update_extensions (the form C08 is proved about), whenever hop counts are u8 values;
   - laws of the block accessors / mutators;
   - every new_*_block constructor returns an admissible argument of the C11 operations, and a block that passes extension
     validation;
   - PrimaryBlockBuilder / BundleBuilder: when they refuse, what they return, and that the bundles they return are start
     states of C11 (built_by_builders; start_ok under validity). *)
From BP7 Require Import Base.Prelude Gen.Consts Model.Types Model.Encode Model.Wf Model.WfExt Model.Validate Model.Ops Model.DtnTime
  Model.OpSeq Model.EidText Model.Api Spec.Rules.
From BP7 Require Import Proofs.ValidateProofs Proofs.OpsProofs Proofs.InvariantProofs.

(* ================= update_first helpers ================= *)
Lemma update_first_same (s : canonical -> bool) cs : update_first s (fun c => c) cs = cs.
Proof. induction cs as [|x cs IH]; [reflexivity|]. cbn [update_first]. destruct (s x); [reflexivity|rewrite IH; reflexivity]. Qed.
Lemma update_first_fix (s : canonical -> bool) f cs c : find s cs = Some c -> f c = c -> update_first s f cs = cs.
Proof.
  intros Hf Hc. rewrite (update_first_found s f cs c Hf (fun c => c)) by (symmetry; exact Hc). apply update_first_same.
Qed.
Lemma hop_u8_in cs c l k : hop_u8 cs = true -> In c cs -> c_data c = HopCount l k -> l < 256 /\ k < 256.
Proof.
  unfold hop_u8. rewrite forallb_forall. intros H Hin E. specialize (H c Hin). rewrite E in H.
  apply andb_true_iff in H as [H1 H2]. apply N.ltb_lt in H1, H2. split; assumption.
Qed.

(* ================= the three stages ================= *)
Lemma hop_get_typed c : c_type c = HOP_COUNT_BLOCK ->
  hop_count_get c = match c_data c with HopCount l k => Some (l, k) | _ => None end.
Proof. intros H. unfold hop_count_get. rewrite H, N.eqb_refl. reflexivity. Qed.
Lemma hop_stage_api_eq cs0 : hop_u8 cs0 = true -> Some (hop_stage_api cs0) = hop_stage cs0.
Proof.
  intros Hu. unfold hop_stage_api, hop_stage. rewrite ext_find.
  destruct (find (sel_type HOP_COUNT_BLOCK) cs0) as [hc|] eqn:Ef; [|reflexivity].
  destruct (find_sel _ _ _ Ef) as [Hty _]. pose proof (in_find _ _ _ Ef) as Hin.
  rewrite (hop_get_typed hc Hty). cbv zeta.
  assert (Hnon : (forall l k, c_data hc <> HopCount l k) ->
                 snd (hop_count_increase hc) = hc /\ hop_count_exceeded hc = false).
  { intros Hn. unfold hop_count_increase, hop_count_exceeded. rewrite (hop_get_typed hc Hty), Hty, N.eqb_refl.
    destruct (c_data hc) as [l k| | | | |]; [exfalso; apply (Hn l k); reflexivity|split; reflexivity..]. }
  destruct (c_data hc) as [l k| | | | |] eqn:Ed.
  2-6: (destruct Hnon as [Hs He]; [intros l k; discriminate|]; rewrite Hs, He; unfold with_first;
        rewrite (update_first_fix _ _ _ _ Ef Hs); reflexivity).
  destruct (hop_u8_in _ _ _ _ Hu Hin Ed) as [_ Hk].
  destruct (k =? 255) eqn:E255; [reflexivity|]. apply N.eqb_neq in E255.
  assert (Hlt : k + 1 <? 256 = true) by (apply N.ltb_lt; lia).
  assert (Hinc : snd (hop_count_increase hc) = set_c_data hc (HopCount l (k + 1))).
  { unfold hop_count_increase. rewrite (hop_get_typed hc Hty), Ed, Hlt. reflexivity. }
  rewrite Hinc. unfold hop_count_exceeded. cbn [set_c_data c_type c_data]. rewrite Hty, N.eqb_refl.
  unfold with_first. f_equal. f_equal.
  apply (update_first_found _ _ _ _ Ef). symmetry. exact Hinc.
Qed.
Lemma prev_stage_api_eq node cs1 : prev_stage_api node cs1 = prev_stage node cs1.
Proof.
  unfold prev_stage_api, prev_stage. rewrite ext_find.
  destruct (find (sel_type PREVIOUS_NODE_BLOCK) cs1) as [pn|] eqn:Ef; [|reflexivity].
  destruct (find_sel _ _ _ Ef) as [Hty _]. unfold with_first.
  destruct (c_data pn) eqn:Ed;
    try (apply (update_first_fix _ _ _ _ Ef); unfold previous_node_update, previous_node_get; rewrite Hty, N.eqb_refl, Ed; reflexivity).
  apply (update_first_found _ _ _ _ Ef). unfold previous_node_update, previous_node_get. rewrite Hty, N.eqb_refl, Ed. reflexivity.
Qed.
Lemma age_stage_api_eq p rt cs2 : age_stage_api p rt cs2 = age_stage p rt cs2.
Proof.
  unfold age_stage_api, age_stage. rewrite ext_find.
  destruct (find (sel_type BUNDLE_AGE_BLOCK) cs2) as [ba|] eqn:Ef; [|reflexivity].
  destruct (find_sel _ _ _ Ef) as [Hty _]. unfold bundle_age_get. rewrite Hty, N.eqb_refl.
  destruct (c_data ba) eqn:Ed; try reflexivity.
  cbv zeta. f_equal. unfold with_first.
  apply (update_first_found _ _ _ _ Ef). unfold bundle_age_update, bundle_age_get. rewrite Hty, N.eqb_refl, Ed. reflexivity.
Qed.

(* update_extensions as the Rust code is written (block selected, block-level operation applied in place) is the function
   C08 is proved about *)
Theorem update_extensions_api_eq m clock node rt b : hop_u8 (b_canonicals b) = true ->
  update_extensions_api m clock node rt b = update_extensions m clock node rt b.
Proof.
  intros Hu. rewrite update_extensions_stages. unfold update_extensions_api. cbv zeta.
  rewrite <- (hop_stage_api_eq _ Hu). destruct (hop_stage_api (b_canonicals b)) as [stop cs]. cbn [fst snd].
  destruct stop; [reflexivity|]. rewrite prev_stage_api_eq, age_stage_api_eq. reflexivity.
Qed.
Lemma wf_hop_u8 b : wf_bundle_u b = true -> hop_u8 (b_canonicals b) = true.
Proof.
  unfold wf_bundle_u, hop_u8. intros H. apply andb_true_iff in H as [_ H]. rewrite forallb_forall in *. intros c Hin.
  specialize (H c Hin). unfold wf_canonical_u in H. btrue. destruct (c_data c); try reflexivity. cbn [wf_data] in *. btrue.
  rewrite H5, H4. reflexivity.
Qed.

(* ================= laws of the block-level operations ================= *)
Lemma hop_count_increase_law c l k : hop_count_get c = Some (l, k) -> k < 256 ->
  (k < 255 -> fst (hop_count_increase c) = true /\ hop_count_get (snd (hop_count_increase c)) = Some (l, k + 1)
              /\ set_c_data (snd (hop_count_increase c)) (c_data c) = c)
  /\ (k = 255 -> hop_count_increase c = (false, c)).
Proof.
  intros Hg Hk. unfold hop_count_increase. rewrite Hg. split.
  - intros Hlt. assert (k + 1 <? 256 = true) as -> by (apply N.ltb_lt; lia). cbn [fst snd]. split; [reflexivity|].
    unfold hop_count_get in *. cbn [set_c_data c_type c_data]. destruct (c_type c =? HOP_COUNT_BLOCK); [|discriminate].
    split; [reflexivity|]. destruct c; reflexivity.
  - intros ->. reflexivity.
Qed.
Lemma hop_count_exceeded_iff c : hop_count_exceeded c = true <-> exists l k, hop_count_get c = Some (l, k) /\ l < k.
Proof.
  unfold hop_count_exceeded, hop_count_get. destruct (c_type c =? HOP_COUNT_BLOCK); [|split; [discriminate|intros (l & k & H & _); discriminate]].
  destruct (c_data c) as [l k| | | | |]; try (split; [discriminate|intros (l' & k' & H & _); discriminate]).
  rewrite N.ltb_lt. split; [intros H; exists l, k; auto|intros (l' & k' & H & Hlt); inversion H; subst; assumption].
Qed.
Lemma bundle_age_update_law c a age : bundle_age_get c = Some a ->
  fst (bundle_age_update c age) = true /\ bundle_age_get (snd (bundle_age_update c age)) = Some (N.min age (two64 - 1))
  /\ set_c_data (snd (bundle_age_update c age)) (c_data c) = c.
Proof.
  intros Hg. unfold bundle_age_update. rewrite Hg. cbn [fst snd]. split; [reflexivity|].
  unfold bundle_age_get in *. cbn [set_c_data c_type c_data]. destruct (c_type c =? BUNDLE_AGE_BLOCK); [|discriminate].
  split; [|destruct c; reflexivity]. f_equal. unfold sat_u64, two64. destruct (age <? 18446744073709551616) eqn:E.
  - apply N.ltb_lt in E. lia.
  - apply N.ltb_ge in E. lia.
Qed.
Lemma bundle_age_update_none c age : bundle_age_get c = None -> bundle_age_update c age = (false, c).
Proof. intros H. unfold bundle_age_update. rewrite H. reflexivity. Qed.
Lemma previous_node_update_law c e node : previous_node_get c = Some e ->
  fst (previous_node_update c node) = true /\ previous_node_get (snd (previous_node_update c node)) = Some node
  /\ set_c_data (snd (previous_node_update c node)) (c_data c) = c.
Proof.
  intros Hg. unfold previous_node_update. rewrite Hg. cbn [fst snd]. split; [reflexivity|].
  unfold previous_node_get in *. cbn [set_c_data c_type c_data]. destruct (c_type c =? PREVIOUS_NODE_BLOCK); [|discriminate].
  split; [reflexivity|destruct c; reflexivity].
Qed.
Lemma previous_node_update_none c node : previous_node_get c = None -> previous_node_update c node = (false, c).
Proof. intros H. unfold previous_node_update. rewrite H. reflexivity. Qed.
(* a getter answers only for its own block type: at most one of the four is Some *)
Lemma getters_exclusive c :
  (hop_count_get c <> None -> bundle_age_get c = None /\ previous_node_get c = None /\ payload_data c = None)
  /\ (bundle_age_get c <> None -> previous_node_get c = None /\ payload_data c = None)
  /\ (previous_node_get c <> None -> payload_data c = None).
Proof.
  unfold hop_count_get, bundle_age_get, previous_node_get, payload_data.
  destruct (c_data c); destruct (c_type c =? HOP_COUNT_BLOCK), (c_type c =? BUNDLE_AGE_BLOCK), (c_type c =? PREVIOUS_NODE_BLOCK);
    repeat split; intros; try reflexivity; try congruence.
Qed.

(* ================= constructors ================= *)
(* what each constructor returns, read back through the accessors *)
Lemma new_hop_count_block_get num flags limit : hop_count_get (new_hop_count_block num flags limit) = Some (limit, 0).
Proof. reflexivity. Qed.
Lemma new_bundle_age_block_get num flags age : bundle_age_get (new_bundle_age_block num flags age) = Some age.
Proof. reflexivity. Qed.
Lemma new_previous_node_block_get num flags e : previous_node_get (new_previous_node_block num flags e) = Some e.
Proof. reflexivity. Qed.
Lemma new_payload_block_get flags d : payload_data (new_payload_block flags d) = Some d /\ c_num (new_payload_block flags d) = 1.
Proof. split; reflexivity. Qed.

Definition flags_ok (strict : bool) (flags : N) : bool :=
  (flags <? 256) && negb (block_flag flags BLOCK_CFRESERVED_FIELDS) && negb (strict && block_flag flags BLOCK_STATUS_REPORT).
Lemma arg_block_ok_intro strict ty num flags d :
  ty <? two64 = true -> flags_ok strict flags = true -> wf_data ty d = true ->
  match d with PreviousNode e => eid_valid e | _ => true end = true ->
  arg_block_ok strict (mkcanonical ty num flags CrcNo d) = true.
Proof.
  intros Hty Hf Hd He. unfold flags_ok in Hf. btrue. unfold arg_block_ok. cbn [c_type c_flags c_crc c_data wf_crc_u wf_crc].
  rewrite Hty, H, Hd, H1, H0, He. reflexivity.
Qed.
(* every constructor call with in-range arguments is an admissible argument of add_canonical_block (any requested number) *)
Theorem constructors_admissible strict num flags : flags_ok strict flags = true ->
  (forall limit, limit < 256 -> arg_block_ok strict (new_hop_count_block num flags limit) = true)
  /\ (forall age, age < two64 -> arg_block_ok strict (new_bundle_age_block num flags age) = true)
  /\ (forall e, wf_eid e = true -> Nlen (enc_eid e) < two64 -> arg_block_ok strict (new_previous_node_block num flags e) = true)
  /\ (forall d, Nlen d < two64 -> arg_block_ok strict (new_payload_block flags d) = true)
  /\ (forall ty d, ty < two64 -> is_unique_type ty = false -> Nlen d < two64 ->
        arg_block_ok strict (new_canonical_block ty num flags (Unknown d)) = true).
Proof.
  intros Hf. repeat split.
  - intros limit Hl. apply arg_block_ok_intro; [reflexivity|assumption| |reflexivity].
    cbn [wf_data]. apply N.ltb_lt in Hl. rewrite Hl. reflexivity.
  - intros age Ha. apply arg_block_ok_intro; [reflexivity|assumption| |reflexivity].
    cbn [wf_data]. apply N.ltb_lt in Ha. rewrite Ha. reflexivity.
  - intros e He Hl. apply arg_block_ok_intro; [reflexivity|assumption| |apply wf_eid_valid; assumption].
    cbn [wf_data]. apply N.ltb_lt in Hl. rewrite He, Hl. reflexivity.
  - intros d Hl. apply arg_block_ok_intro; [reflexivity|assumption| |reflexivity].
    cbn [wf_data]. apply N.ltb_lt in Hl. rewrite Hl. reflexivity.
  - intros ty d Hty Hu Hl. apply arg_block_ok_intro; [apply N.ltb_lt; assumption|assumption| |reflexivity].
    unfold is_unique_type in Hu. apply orb_false_iff in Hu as [Hu H4]. apply orb_false_iff in Hu as [Hu H3].
    apply orb_false_iff in Hu as [H1 H2]. cbn [wf_data]. apply N.ltb_lt in Hl. rewrite H1, H2, H3, H4, Hl. reflexivity.
Qed.
(* and passes extension validation (the typed ones for every argument; previous node when the EID is valid) *)
Theorem constructors_extension_valid num flags :
  (forall limit, extension_valid (new_hop_count_block num flags limit) = true)
  /\ (forall age, extension_valid (new_bundle_age_block num flags age) = true)
  /\ (forall e, extension_valid (new_previous_node_block num flags e) = eid_valid e)
  /\ (forall d, extension_valid (new_payload_block flags d) = true)
  /\ (forall ty d, extension_valid (new_canonical_block ty num flags (Unknown d)) = true).
Proof. repeat split. Qed.
(* CanonicalBlock::new() / default() is NOT a valid payload block (number 0): it must be numbered by add_canonical_block *)
Lemma canonical_new_invalid : extension_valid canonical_new = false.
Proof. reflexivity. Qed.
Lemma canonical_builder_spec ty num flags crc d :
  canonical_builder_build ty num flags crc d = match d with Some x => Some (mkcanonical ty num flags crc x) | None => None end.
Proof. reflexivity. Qed.

(* ================= PrimaryBlockBuilder ================= *)
Theorem primary_builder_refuses pb : primary_builder_build pb = None <-> dflt (pb_dst pb) eid_none = eid_none.
Proof.
  unfold primary_builder_build. cbv zeta. destruct (eid_eqb (dflt (pb_dst pb) eid_none) eid_none) eqn:E.
  - apply eid_eqb_eq in E. split; [intros _; assumption|reflexivity].
  - split; [discriminate|]. intros H. rewrite H in E. assert (eid_eqb eid_none eid_none = true) by reflexivity. congruence.
Qed.
Theorem primary_builder_fields pb p : primary_builder_build pb = Some p ->
  p_version p = DTN_VERSION /\ p_flags p = dflt (pb_flags pb) 0 /\ p_crc p = dflt (pb_crc pb) CrcNo
  /\ Some (p_dst p) = pb_dst pb /\ p_dst p <> eid_none
  /\ p_src p = dflt (pb_src pb) eid_none /\ p_rpt p = dflt (pb_rpt pb) eid_none
  /\ (p_time p, p_seq p) = dflt (pb_ts pb) (0, 0) /\ p_lifetime p = dflt (pb_lifetime pb) 0
  /\ p_frag_off p = dflt (pb_off pb) 0 /\ p_total_len p = dflt (pb_len pb) 0.
Proof.
  unfold primary_builder_build. cbv zeta. destruct (eid_eqb (dflt (pb_dst pb) eid_none) eid_none) eqn:E; [discriminate|].
  intros H. inversion H; subst; clear H. cbn [p_version p_flags p_crc p_dst p_src p_rpt p_time p_seq p_lifetime p_frag_off p_total_len].
  assert (Hne : dflt (pb_dst pb) eid_none <> eid_none).
  { intros Hc. rewrite Hc in E. assert (eid_eqb eid_none eid_none = true) by reflexivity. congruence. }
  repeat split; try reflexivity; try assumption.
  - destruct (pb_dst pb); [reflexivity|]. cbn [dflt] in Hne. congruence.
  - destruct (dflt (pb_ts pb) (0, 0)); reflexivity.
Qed.
(* the primary block validates exactly when the flag word and the three endpoint IDs do: the builder adds no check of its own
   beyond the null destination *)
Theorem primary_builder_validates pb p : primary_builder_build pb = Some p ->
  (primary_validate p = [] <->
   bundle_flags_validate (dflt (pb_flags pb) 0) = [] /\ eid_valid (p_dst p) = true
   /\ eid_valid (dflt (pb_src pb) eid_none) = true /\ eid_valid (dflt (pb_rpt pb) eid_none) = true).
Proof.
  intros H. destruct (primary_builder_fields _ _ H) as (Hv & Hf & _ & _ & _ & Hs & Hr & _).
  unfold primary_validate. rewrite Hv, Hf, Hs, Hr, N.eqb_refl. cbn [app].
  rewrite !app_nil_iff.
  destruct (eid_valid (p_dst p)), (eid_valid (dflt (pb_src pb) eid_none)), (eid_valid (dflt (pb_rpt pb) eid_none));
    split; intros; intuition (try discriminate; try reflexivity).
Qed.
(* new_primary_block: panics exactly when one of the two strings is not an endpoint ID; otherwise report-to = source, no flags *)
Theorem new_primary_block_spec dst src t seq life :
  match new_primary_block dst src t seq life with
  | Ok p => exists d s, eid_parse dst = EOk d /\ eid_parse src = EOk s
                        /\ p = mkprimary DTN_VERSION 0 CrcNo d s s t seq life 0 0
  | Panic _ => (forall d, eid_parse dst <> EOk d) \/ (forall s, eid_parse src <> EOk s)
  | Err _ => False
  end.
Proof.
  unfold new_primary_block. destruct (eid_parse dst) as [d|k|q] eqn:Ed.
  - destruct (eid_parse src) as [s|k|q] eqn:Es.
    + exists d, s. repeat split.
    + right. intros s. discriminate.
    + right. intros s. discriminate.
  - left. intros d. discriminate.
  - left. intros d. discriminate.
Qed.

(* ================= BundleBuilder ================= *)
Lemma carries_payload_data c : carries_data c = match payload_data c with Some _ => true | None => false end.
Proof. unfold carries_data, payload_data. destruct (c_data c); reflexivity. Qed.
(* BundleBuilder with its three optional setters is OpSeq.builder_build on the block list with the payload block pushed last *)
Theorem bundle_builder_is_builder_build p cs pl :
  bundle_builder_build p cs pl =
  builder_build (dflt p primary_new) (dflt cs [] ++ match pl with Some d => [new_payload_block 0 d] | None => [] end).
Proof.
  unfold bundle_builder_build, builder_build. cbv zeta.
  destruct (last_opt (sort_desc _)) as [c|]; [|reflexivity]. rewrite carries_payload_data. destruct (payload_data c); reflexivity.
Qed.
Theorem bundle_builder_built p cs pl b : bundle_builder_build p cs pl = Some b -> built_by_builders b.
Proof. rewrite bundle_builder_is_builder_build. apply builder_build_built. Qed.
(* nothing set (Bundle built from BundleBuilder::new() alone) and a block list without payload data at the end are refused *)
Lemma bundle_builder_empty p : bundle_builder_build p None None = None.
Proof. reflexivity. Qed.

(* sorting a list whose elements are all numbered above 1, followed by a block numbered 1, leaves that block last *)
Lemma insert_desc_last c l x : last_opt l = Some x -> c_num x < c_num c -> last_opt (insert_desc c l) = Some x.
Proof.
  revert x. induction l as [|y t IH]; intros x Hl Hlt; [discriminate|].
  cbn [insert_desc]. destruct (c_num y <=? c_num c) eqn:E.
  - change (last_opt (c :: y :: t)) with (last_opt (y :: t)). assumption.
  - destruct t as [|z t'].
    + cbn [last_opt] in Hl. inversion Hl; subst. apply N.leb_gt in E. lia.
    + change (last_opt (y :: insert_desc c (z :: t'))) with (match insert_desc c (z :: t') with [] => Some y | _ => last_opt (insert_desc c (z :: t')) end).
      specialize (IH x Hl Hlt). destruct (insert_desc c (z :: t')) eqn:Ei; [discriminate|]. assumption.
Qed.
Lemma sort_desc_last cs pb : (forall c, In c cs -> c_num pb < c_num c) -> last_opt (sort_desc (cs ++ [pb])) = Some pb.
Proof.
  induction cs as [|c cs IH]; intros H; [reflexivity|].
  cbn [app sort_desc]. apply insert_desc_last; [apply IH; intros x Hx; apply H; right; assumption|apply H; left; reflexivity].
Qed.
(* the ordinary use: extension blocks numbered above 1 in any order + payload(d) always builds, the payload block comes
   last and the payload read back is d *)
Theorem bundle_builder_payload p cs d : (forall c, In c cs -> 1 < c_num c) ->
  exists b, bundle_builder_build (Some p) (Some cs) (Some d) = Some b
            /\ b_primary b = p /\ last_opt (b_canonicals b) = Some (new_payload_block 0 d)
            /\ b_canonicals b = sort_desc (cs ++ [new_payload_block 0 d]).
Proof.
  intros H. unfold bundle_builder_build. cbv zeta. cbn [dflt].
  rewrite (sort_desc_last cs (new_payload_block 0 d)) by (intros c Hc; apply H; assumption).
  cbn [payload_data new_payload_block c_data]. eexists. split; [reflexivity|]. cbn [b_primary b_canonicals].
  split; [reflexivity|]. split; [|reflexivity]. apply sort_desc_last. intros c Hc. apply H. assumption.
Qed.
(* a bundle returned by the builder that validates and whose values are well formed is a start state of C11, hence satisfies
   the invariant and keeps it under every admissible operation sequence (C11_invariant) *)
Theorem bundle_builder_start p cs pl b : bundle_builder_build p cs pl = Some b -> Validate.validate b = [] -> wf_bundle_u b = true -> start_ok b.
Proof. intros Hb Hv Hw. split; [eapply bundle_builder_built; eassumption|split; assumption]. Qed.

(* ================= new_std_payload_bundle ================= *)
Theorem std_bundle_api_spec src dst t seq data :
  new_std_payload_bundle_api src dst t seq data =
  if eid_eqb dst eid_none then Panic PUnwrap else Ok (new_std_payload_bundle src dst t seq data).
Proof.
  unfold new_std_payload_bundle_api, primary_builder_build. cbv zeta. cbn [pb_dst dflt].
  destruct (eid_eqb dst eid_none); reflexivity.
Qed.
(* Bundle::default() has no payload block: it does not validate, and is not a start state *)
Lemma bundle_default_invalid : Validate.validate bundle_default <> [].
Proof. vm_compute. discriminate. Qed.

(* ---------------- the builder route builds the primary block it is told to build ---------------- *)
(* every field handed to its setter (harness chan_id::via_builder does exactly this) *)
Definition builder_of (p : primary) : primary_builder :=
  mkpb (Some (p_flags p)) (Some (p_crc p)) (Some (p_dst p)) (Some (p_src p)) (Some (p_rpt p)) (Some (p_time p, p_seq p))
       (Some (p_lifetime p)) (Some (p_frag_off p)) (Some (p_total_len p)).
Theorem builder_route_same p : p_version p = DTN_VERSION -> p_dst p <> eid_none -> primary_builder_build (builder_of p) = Some p.
Proof.
  intros Hv Hd. unfold primary_builder_build, builder_of. cbv zeta. cbn [pb_dst pb_flags pb_crc pb_src pb_rpt pb_ts pb_lifetime pb_off pb_len dflt fst snd].
  destruct (eid_eqb (p_dst p) eid_none) eqn:E; [apply eid_eqb_eq in E; contradiction|].
  destruct p as [ver flags crc dst src rpt t q life off len]. cbn [p_version p_flags p_crc p_dst p_src p_rpt p_time p_seq p_lifetime p_frag_off p_total_len] in *.
  subst ver. reflexivity.
Qed.
