(* C13: the bundle ID does not depend on how the primary block was constructed (public fields / PrimaryBlockBuilder). *)
From BP7 Require Import Base.Prelude Gen.Consts Model.Types Model.EidText Model.BundleId Model.Api Proofs.ApiProofs.

Theorem builder_route_id p cs : p_version p = DTN_VERSION -> p_dst p <> eid_none ->
  exists p', primary_builder_build (builder_of p) = Some p' /\ bundle_id (mkbundle p' cs) = bundle_id (mkbundle p cs).
Proof. intros Hv Hd. exists p. split; [apply builder_route_same; assumption|reflexivity]. Qed.
