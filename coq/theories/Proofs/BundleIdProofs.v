(* Proofs about Bundle::id (Model/BundleId.v): the ID is a function of the identity; it is injective on identities
   outside two decidable classes (id-dash-source, id-none-name); both classes really collide; refbundle = id. *)
From BP7 Require Import Base.Prelude Base.Decimal Base.Utf8 Base.Str Gen.Consts Model.Types Model.EidText Model.BundleId.
From BP7 Require Import Proofs.CodecProofs Proofs.EidProofs.

(* ---------- decimal fields ---------- *)
Lemma dec_inj a b : a < two64 -> b < two64 -> dec a = dec b -> a = b.
Proof.
  intros Ha Hb H. pose proof (parse_digits_dec a Ha) as Pa. pose proof (parse_digits_dec b Hb) as Pb.
  rewrite H in Pa. rewrite Pa in Pb. inversion Pb. reflexivity.
Qed.
Lemma dec_no_dash n : mem_byte c_dash (dec n) = false.
Proof. apply not_digit_not_in_dec. vm_compute. reflexivity. Qed.

(* split distributes over a separator, whatever is on the left *)
Lemma split_app_gen sep a r : split sep (a ++ sep :: r) = split sep a ++ split sep r.
Proof.
  induction a as [|b a IH]; cbn [app].
  - rewrite split_sep. reflexivity.
  - cbn [split]. destruct (byte_eqb b sep); [rewrite IH; reflexivity|].
    rewrite IH. destruct (split sep a) as [|h t] eqn:E; [exfalso; eapply split_nonempty; eassumption|]. reflexivity.
Qed.

(* the numeric tail of an ID: time "-" seq ["-" offset] *)
Definition id_tail (time seq : N) (frag : option N) : list byte :=
  dec time ++ [c_dash] ++ dec seq ++ match frag with Some off => [c_dash] ++ dec off | None => [] end.
Lemma id_text_tail src t q f : id_text src t q f = src ++ c_dash :: id_tail t q f.
Proof. reflexivity. Qed.
Lemma id_tail_split t q f :
  split c_dash (id_tail t q f) = dec t :: dec q :: match f with Some off => [dec off] | None => [] end.
Proof.
  unfold id_tail. cbn [app]. rewrite split_app by apply dec_no_dash. f_equal.
  destruct f as [off|].
  - cbn [app]. rewrite split_app by apply dec_no_dash. rewrite split_nosep by apply dec_no_dash. reflexivity.
  - rewrite app_nil_r. rewrite split_nosep by apply dec_no_dash. reflexivity.
Qed.

Definition frag_wf (f : option N) : Prop := match f with Some off => off < two64 | None => True end.
Lemma id_tail_inj t q f t' q' f' : t < two64 -> q < two64 -> frag_wf f -> t' < two64 -> q' < two64 -> frag_wf f' ->
  id_tail t q f = id_tail t' q' f' -> t = t' /\ q = q' /\ f = f'.
Proof.
  intros Ht Hq Hf Ht' Hq' Hf' H. apply (f_equal (split c_dash)) in H. rewrite !id_tail_split in H.
  destruct f as [o|], f' as [o'|]; cbn [frag_wf] in Hf, Hf'.
  - injection H as E1 E2 E3. apply dec_inj in E1; [|assumption|assumption]. apply dec_inj in E2; [|assumption|assumption].
    apply dec_inj in E3; [|assumption|assumption]. subst. auto.
  - apply (f_equal (@length _)) in H. discriminate H.
  - apply (f_equal (@length _)) in H. discriminate H.
  - injection H as E1 E2. apply dec_inj in E1; [|assumption|assumption]. apply dec_inj in E2; [|assumption|assumption].
    subst. auto.
Qed.

(* ---------- the ID is a function of the identity ---------- *)
Definition frag_of (b : bundle) : option N :=
  if has_fragmentation (b_primary b) then Some (p_frag_off (b_primary b)) else None.
Lemma bundle_id_eq b : bundle_id b = id_text (src_text b) (p_time (b_primary b)) (p_seq (b_primary b)) (frag_of b).
Proof. reflexivity. Qed.

Theorem id_of_ident b1 b2 : ident b1 = ident b2 -> bundle_id b1 = bundle_id b2.
Proof.
  unfold ident. intros H. injection H as Hs Ht Hq Hf Ho. unfold bundle_id. rewrite Hs, Ht, Hq.
  destruct (has_fragmentation (b_primary b1)), (has_fragmentation (b_primary b2)); try discriminate; [rewrite Ho|]; reflexivity.
Qed.

Lemma ident_intro b1 b2 : p_src (b_primary b1) = p_src (b_primary b2) -> p_time (b_primary b1) = p_time (b_primary b2) ->
  p_seq (b_primary b1) = p_seq (b_primary b2) -> frag_of b1 = frag_of b2 -> ident b1 = ident b2.
Proof.
  unfold ident, frag_of. intros -> -> -> H.
  destruct (has_fragmentation (b_primary b1)), (has_fragmentation (b_primary b2)); try discriminate; [|reflexivity].
  inversion H. reflexivity.
Qed.

(* ---------- strip_prefix / the dash class ---------- *)
Lemma strip_prefix_app p r : strip_prefix p (p ++ r) = Some r.
Proof. induction p as [|a p IH]; cbn [app strip_prefix]; [reflexivity|]. rewrite byte_eqb_refl. exact IH. Qed.
Lemma strip_prefix_some p : forall l r, strip_prefix p l = Some r -> l = p ++ r.
Proof.
  induction p as [|a p IH]; intros l r H; cbn [strip_prefix] in H; [inversion H; reflexivity|].
  destruct l as [|b l]; [discriminate|]. destruct (byte_eqb a b) eqn:E; [|discriminate].
  apply byte_eqb_eq in E. subst b. rewrite (IH l r H). reflexivity.
Qed.
Lemma dash_digits_ext_intro t n : dash_digits_ext t (t ++ c_dash :: dec n) = true.
Proof.
  unfold dash_digits_ext. rewrite strip_prefix_app. pose proof (dec_digits n) as Hd. pose proof (dec_nonempty n) as Hn.
  destruct (dec n) as [|d y]; [congruence|]. rewrite byte_eqb_refl. exact Hd.
Qed.

(* different source texts, equal IDs: the longer text is the shorter one plus "-" time, and only the shorter one's
   bundle is a fragment *)
Lemma collide_shape T1 T2 X t1 q1 f1 t2 q2 f2 : X <> [] ->
  T2 = T1 ++ X -> c_dash :: id_tail t1 q1 f1 = X ++ c_dash :: id_tail t2 q2 f2 ->
  T2 = T1 ++ c_dash :: dec t1 /\ (exists o, f1 = Some o) /\ f2 = None.
Proof.
  intros HX -> H. destruct X as [|c Y]; [congruence|]. cbn [app] in H. inversion H as [[Hc Ht]]. subst c. clear H HX.
  pose proof (f_equal (split c_dash) Ht) as Hs. rewrite split_app_gen, !id_tail_split in Hs.
  pose proof (f_equal (@length _) Hs) as Hl. rewrite app_length in Hl. cbn [length] in Hl.
  pose proof (split_length c_dash Y) as HlY. rewrite HlY in Hl.
  assert (HY : count_byte c_dash Y = O /\ (exists o, f1 = Some o) /\ f2 = None).
  { destruct f1 as [o1|], f2 as [o2|]; cbn [length] in Hl; try lia. split; [lia|]. split; [eauto|reflexivity]. }
  destruct HY as (HY & (o & ->) & ->). apply mem_byte_count in HY. rewrite (split_nosep _ _ HY) in Hs.
  cbn [app] in Hs. injection Hs as E _ _. rewrite <- E. split; [reflexivity|split; [eauto|reflexivity]].
Qed.

Theorem id_injective b1 b2 : id_wf b1 = true -> id_wf b2 = true -> known_c13 b1 b2 = false ->
  bundle_id b1 = bundle_id b2 -> ident b1 = ident b2.
Proof.
  unfold id_wf. intros W1 W2 Hk H.
  apply andb_true_iff in W1 as [W1 Wo1]. apply andb_true_iff in W1 as [W1 Wq1]. apply andb_true_iff in W1 as [Ws1 Wt1].
  apply andb_true_iff in W2 as [W2 Wo2]. apply andb_true_iff in W2 as [W2 Wq2]. apply andb_true_iff in W2 as [Ws2 Wt2].
  apply N.ltb_lt in Wo1, Wq1, Wt1, Wo2, Wq2, Wt2.
  unfold known_c13 in Hk. apply orb_false_iff in Hk as [Hd Hn].
  rewrite !bundle_id_eq, !id_text_tail in H.
  assert (F1 : frag_wf (frag_of b1)) by (unfold frag_of; destruct (has_fragmentation _); cbn; auto).
  assert (F2 : frag_wf (frag_of b2)) by (unfold frag_of; destruct (has_fragmentation _); cbn; auto).
  destruct (bytes_eqb (src_text b1) (src_text b2)) eqn:Et.
  - (* equal source texts *)
    unfold known_none_name in Hn. rewrite Et in Hn. cbn [andb] in Hn. apply negb_false_iff in Hn. apply eid_eqb_eq in Hn.
    apply bytes_eqb_eq in Et. rewrite Et in H. apply app_inv_head in H. inversion H as [Htail].
    apply id_tail_inj in Htail as (E1 & E2 & E3); try assumption. apply ident_intro; assumption.
  - (* different source texts: the pair is in the dash class *)
    exfalso. assert (Hne : src_text b1 <> src_text b2) by (intros E; rewrite E, bytes_eqb_refl in Et; discriminate).
    apply app_eq_app in H as [X [[HT HR]|[HT HR]]].
    + (* text1 = text2 ++ X *)
      assert (HX : X <> []) by (intros ->; rewrite app_nil_r in HT; congruence).
      destruct (collide_shape _ _ X _ _ _ _ _ _ HX HT HR) as (E & (o & Ho) & Hnone).
      unfold known_dash in Hd. apply orb_false_iff in Hd as [_ Hd].
      unfold is_frag in Hd. unfold frag_of in Ho, Hnone.
      destruct (has_fragmentation (b_primary b2)); [|discriminate]. destruct (has_fragmentation (b_primary b1)); [discriminate|].
      cbn [andb negb] in Hd. rewrite E, dash_digits_ext_intro in Hd. discriminate.
    + assert (HX : X <> []) by (intros ->; rewrite app_nil_r in HT; congruence).
      destruct (collide_shape _ _ X _ _ _ _ _ _ HX HT HR) as (E & (o & Ho) & Hnone).
      unfold known_dash in Hd. apply orb_false_iff in Hd as [Hd _].
      unfold is_frag in Hd. unfold frag_of in Ho, Hnone.
      destruct (has_fragmentation (b_primary b1)); [|discriminate]. destruct (has_fragmentation (b_primary b2)); [discriminate|].
      cbn [andb negb] in Hd. rewrite E, dash_digits_ext_intro in Hd. discriminate.
Qed.

(* ---------- the classes are narrow and real ---------- *)
(* printing is injective on id_src_wf except for the decoded name "none" against the none endpoint *)
Theorem print_inj e1 e2 : id_src_wf e1 = true -> id_src_wf e2 = true -> eid_print e1 = eid_print e2 -> e1 <> e2 ->
  (e1 = Dtn ENDPOINT_URI_SCHEME_DTN s_none /\ e2 = eid_none) \/ (e2 = Dtn ENDPOINT_URI_SCHEME_DTN s_none /\ e1 = eid_none).
Proof.
  intros W1 W2 H Hne.
  destruct e1 as [c s|c a|c n s], e2 as [c' s'|c' a'|c' n' s']; cbn [id_src_wf] in W1, W2;
    unfold eid_print in H; cbn [eid_scheme] in H; bools W1; bools W2; nat_facts; subst.
  - apply app_inv_head in H. apply app_inv_head in H. subst. congruence.
  - apply app_inv_head in H. apply app_inv_head in H. subst. left. split; reflexivity.
  - discriminate H.
  - apply app_inv_head in H. apply app_inv_head in H. subst. right. split; reflexivity.
  - congruence.
  - discriminate H.
  - discriminate H.
  - discriminate H.
  - apply app_inv_head in H. apply app_inv_head in H. unfold ipn_print in H.
    apply (f_equal (split c_dot)) in H. cbn [app] in H.
    rewrite !split_app in H by apply dec_no_dot. rewrite !split_nosep in H by apply dec_no_dot.
    inversion H as [[E1 E2]]. apply dec_inj in E1; [|assumption|assumption]. apply dec_inj in E2; [|assumption|assumption].
    subst. congruence.
Qed.

(* every dtn-sourced fragment has a colliding non-fragment partner: source text + "-" time, timestamp (seq, offset) *)
Definition partner (b : bundle) (ssp : list byte) : bundle :=
  let p := b_primary b in
  mkbundle (mkprimary (p_version p) 0 (p_crc p) (p_dst p) (Dtn ENDPOINT_URI_SCHEME_DTN (ssp ++ c_dash :: dec (p_time p)))
                      (p_rpt p) (p_seq p) (p_frag_off p) (p_lifetime p) 0 0) (b_canonicals b).
Theorem fragment_collides b c ssp : p_src (b_primary b) = Dtn c ssp -> is_frag b = true ->
  bundle_id (partner b ssp) = bundle_id b /\ ident (partner b ssp) <> ident b /\ known_dash b (partner b ssp) = true.
Proof.
  intros Hs Hf. unfold is_frag in Hf. split; [|split].
  - unfold bundle_id, partner. cbn [b_primary p_src p_time p_seq p_frag_off].
    change (has_fragmentation (mkprimary _ 0 _ _ _ _ _ _ _ 0 0)) with false. cbv iota.
    rewrite Hs, Hf. unfold id_text, eid_print. cbn [eid_scheme]. rewrite <- !app_assoc. cbn [app]. rewrite app_nil_r. reflexivity.
  - unfold ident, partner. cbn [b_primary]. rewrite Hf. change (has_fragmentation (mkprimary _ 0 _ _ _ _ _ _ _ 0 0)) with false.
    intros E. inversion E.
  - unfold known_dash, is_frag. rewrite Hf. unfold partner at 1. cbn [b_primary].
    change (has_fragmentation (mkprimary _ 0 _ _ _ _ _ _ _ 0 0)) with false. cbn [andb negb].
    unfold src_text, partner. cbn [b_primary p_src]. rewrite Hs. unfold eid_print. cbn [eid_scheme].
    replace (s_dtn ++ [c_colon] ++ ssp ++ c_dash :: dec (p_time (b_primary b)))
      with ((s_dtn ++ [c_colon] ++ ssp) ++ c_dash :: dec (p_time (b_primary b))) by (rewrite <- !app_assoc; reflexivity).
    rewrite dash_digits_ext_intro. reflexivity.
Qed.

(* ---------- status report reference ---------- *)
Theorem refbundle_is_id b : has_fragmentation (b_primary b) = false ->
  exists sr, id_new_status_report b = Ok sr /\ id_refbundle sr = bundle_id b.
Proof.
  intros H. unfold id_new_status_report. rewrite H. eexists. split; [reflexivity|].
  unfold id_refbundle, bundle_id. cbn [id_sr_source id_sr_time id_sr_seq id_sr_frag_len id_sr_frag_offset]. rewrite H. reflexivity.
Qed.
Lemma status_report_fragment b : has_fragmentation (b_primary b) = true -> id_new_status_report b = Panic PUnimplemented.
Proof. intros H. unfold id_new_status_report. rewrite H. reflexivity. Qed.

(* sources of decoded / API bundles are inside the domain *)
Lemma api_src_wf e : api_eid e = true -> id_src_wf e = true.
Proof.
  destruct e as [c s|c a|c n s]; cbn [api_eid id_src_wf]; intros H; bools H; try assumption.
  - rewrite H, H0. reflexivity.
  - rewrite H, H1, H0. reflexivity.
Qed.
