(* Core lemmas about the stream parser on shortest-form input: one-step unfolding of parse_value on a
   serialized head, success lemmas for the primitive visitors, and for the SeqAccess combinators. *)
From BP7 Require Import Base.Prelude Base.Utf8 Cbor.Item Cbor.SerdeDe.

Lemma two64_eq : two64 = 2 ^ 64. Proof. reflexivity. Qed.

Lemma read_arg_be ai w n r d :
  (ai = 24 /\ w = 1%nat) \/ (ai = 25 /\ w = 2%nat) \/ (ai = 26 /\ w = 4%nat) \/ (ai = 27 /\ w = 8%nat) ->
  n < 256 ^ N.of_nat w ->
  read_arg ai (mkst (be_enc w n ++ r) d) = (Ok n, mkst r d).
Proof.
  intros H Hn. unfold read_arg, arg_width. cbn [inp].
  destruct H as [[-> ->]|[[-> ->]|[[-> ->]|[-> ->]]]]; vm_compute (_ =? _); cbv iota;
  (rewrite take_app by apply be_enc_length); rewrite be_dec_enc by exact Hn; unfold set_inp; cbn [depth];
  f_equal; f_equal; lia.
Qed.

Lemma divmod32 m x : x < 32 -> (m * 32 + x) / 32 = m /\ (m * 32 + x) mod 32 = x.
Proof.
  intros H. split.
  - rewrite N.add_comm, N.div_add by lia. rewrite N.div_small by lia. reflexivity.
  - rewrite N.add_comm, N.mod_add by lia. apply N.mod_small; lia.
Qed.

Lemma head_spec m n r d : m < 8 -> n < two64 ->
  exists b rest0 ai, head m n ++ r = b :: rest0 /\ b2n b / 32 = m /\ b2n b mod 32 = ai /\ ai < 28 /\
     arg_of ai (mkst rest0 d) = (Ok n, mkst r d).
Proof.
  intros Hm Hn. unfold two64 in Hn. unfold head.
  destruct (n <? 24) eqn:E1; [|destruct (n <? 256) eqn:E2; [|destruct (n <? 65536) eqn:E3; [|destruct (n <? 4294967296) eqn:E4]]];
  rewrite ?N.ltb_lt, ?N.ltb_ge in *; cbn [app].
  - exists (n2b (m * 32 + n)), r, n. rewrite b2n_n2b by lia.
    repeat split; try lia.
    + apply divmod32; lia.
    + apply divmod32; lia.
    + unfold arg_of. apply N.ltb_lt in E1. rewrite E1. reflexivity.
  - exists (n2b (m * 32 + 24)), (be_enc 1 n ++ r), 24. rewrite b2n_n2b by lia. repeat split; try lia.
    + apply divmod32; lia.
    + apply divmod32; lia.
    + unfold arg_of. change (24 <? 24) with false. change (24 <? 28) with true. cbv iota.
      apply read_arg_be with (w := 1%nat); [tauto|change (256 ^ N.of_nat 1) with 256; lia].
  - exists (n2b (m * 32 + 25)), (be_enc 2 n ++ r), 25. rewrite b2n_n2b by lia. repeat split; try lia.
    + apply divmod32; lia.
    + apply divmod32; lia.
    + unfold arg_of. change (25 <? 24) with false. change (25 <? 28) with true. cbv iota.
      apply read_arg_be with (w := 2%nat); [tauto|change (256 ^ N.of_nat 2) with 65536; lia].
  - exists (n2b (m * 32 + 26)), (be_enc 4 n ++ r), 26. rewrite b2n_n2b by lia. repeat split; try lia.
    + apply divmod32; lia.
    + apply divmod32; lia.
    + unfold arg_of. change (26 <? 24) with false. change (26 <? 28) with true. cbv iota.
      apply read_arg_be with (w := 4%nat); [tauto|change (256 ^ N.of_nat 4) with 4294967296; lia].
  - exists (n2b (m * 32 + 27)), (be_enc 8 n ++ r), 27. rewrite b2n_n2b by lia. repeat split; try lia.
    + apply divmod32; lia.
    + apply divmod32; lia.
    + unfold arg_of. change (27 <? 24) with false. change (27 <? 28) with true. cbv iota.
      apply read_arg_be with (w := 8%nat); [tauto|change (256 ^ N.of_nat 8) with 18446744073709551616; lia].
Qed.

(* one-step unfolding of parse_value on a shortest-form head *)
Lemma parse_value_head {A} (v : visitor A) f m n r d : m < 7 -> n < two64 ->
  parse_value v (S f) (mkst (head m n ++ r) d) =
    let s2 := mkst r d in
    if m =? 0 then (v_uint v n, s2)
    else if m =? 1 then (v_nint v, s2)
    else if m =? 2 then match takeN n r with Some (x, r') => (v_bytes v x, mkst r' d) | None => (Err EEof, s2) end
    else if m =? 3 then match takeN n r with
                        | Some (x, r') => if utf8_valid x then (v_text v x, mkst r' d) else (Err EUtf8, mkst r' d)
                        | None => (Err EEof, s2) end
    else if m =? 4 then parse_array v n s2
    else if m =? 5 then recursion_checked (fun s => (v_map v, s)) s2
    else recursion_checked (parse_value v f) s2.
Proof.
  intros Hm Hn.
  destruct (head_spec m n r d ltac:(lia) Hn) as (b & rest0 & ai & Hh & Hmt & Hai & Hlt & Harg).
  assert (m = 0 \/ m = 1 \/ m = 2 \/ m = 3 \/ m = 4 \/ m = 5 \/ m = 6) as Hcases by lia.
  assert (ai =? 31 = false) as E31 by (apply N.eqb_neq; lia).
  cbn [parse_value]. rewrite Hh. unfold set_inp. cbn [inp depth]. rewrite Hmt, Hai. rewrite Harg. rewrite ?E31.
  destruct Hcases as [->|[->|[->|[->|[->|[->| ->]]]]]];
    repeat match goal with |- context [?a =? ?b] => is_ground a; is_ground b;
      let v := eval vm_compute in (a =? b) in change (a =? b) with v end;
    cbv iota; rewrite ?E31; unfold set_inp; cbn [inp depth]; cbv zeta; try reflexivity.
Qed.

Lemma parse_uint_ok bound f n r d : n < bound -> n < two64 ->
  parse_value (vis_uint bound) (S f) (mkst (head 0 n ++ r) d) = (Ok n, mkst r d).
Proof.
  intros Hb Hn. rewrite parse_value_head by (try lia; assumption). cbv zeta. change (0 =? 0) with true. cbv iota.
  cbn [v_uint vis_uint]. apply N.ltb_lt in Hb. rewrite Hb. reflexivity.
Qed.

Lemma parse_text_ok f x r d : utf8_valid x = true -> Nlen x < two64 ->
  parse_value vis_string (S f) (mkst ((head 3 (Nlen x) ++ x) ++ r) d) = (Ok x, mkst r d).
Proof.
  intros Hu Hl. rewrite <- app_assoc. rewrite parse_value_head by (try lia; assumption). cbv zeta.
  change (3 =? 0) with false. change (3 =? 1) with false. change (3 =? 2) with false. change (3 =? 3) with true. cbv iota.
  unfold Nlen. rewrite takeN_app. rewrite Hu. reflexivity.
Qed.

Lemma parse_bytebuf_ok F f x r d : Nlen x < two64 ->
  parse_value (vis_bytebuf F) (S f) (mkst ((head 2 (Nlen x) ++ x) ++ r) d) = (Ok x, mkst r d).
Proof.
  intros Hl. rewrite <- app_assoc. rewrite parse_value_head by (try lia; assumption). cbv zeta.
  change (2 =? 0) with false. change (2 =? 1) with false. change (2 =? 2) with true. cbv iota.
  unfold Nlen. rewrite takeN_app. reflexivity.
Qed.

Lemma next_def {A} (p : st -> res A * st) n s a s' : n <> 0 -> p s = (Ok a, s') ->
  next_element p (Definite n) s = (Ok (Some a), Definite (n - 1), s').
Proof. intros Hn Hp. unfold next_element. apply N.eqb_neq in Hn. rewrite Hn, Hp. reflexivity. Qed.

Lemma field_def {A B} (p : st -> res A * st) n s a s' (k : A -> seq_access -> st -> res B * seq_access * st) :
  n <> 0 -> p s = (Ok a, s') -> field p (Definite n) s k = k a (Definite (n - 1)) s'.
Proof. intros Hn Hp. unfold field. rewrite (next_def p n s a s' Hn Hp). reflexivity. Qed.

Lemma parse_array_ok {A} (v : visitor A) body n s a s' : v_seq v = Some body -> 2 <= depth s ->
  body (Definite n) (mkst (inp s) (depth s - 1)) = (Ok a, Definite 0, s') ->
  parse_array v n s = (Ok a, mkst (inp s') (depth s' + 1)).
Proof.
  intros Hv Hd Hb. unfold parse_array, recursion_checked.
  assert (depth s - 1 =? 0 = false) as -> by (apply N.eqb_neq; lia).
  rewrite Hv, Hb. reflexivity.
Qed.

(* a definite array of `n` elements parsed by a seq-only visitor *)
Lemma parse_seq_array_ok {A} (body : seq_access -> st -> res A * seq_access * st) f n r r' d a :
  n < two64 -> 2 <= d ->
  body (Definite n) (mkst r (d - 1)) = (Ok a, Definite 0, mkst r' (d - 1)) ->
  parse_value (vis_seq body) (S f) (mkst (head 4 n ++ r) d) = (Ok a, mkst r' d).
Proof.
  intros Hn Hd Hb. rewrite parse_value_head by (try lia; assumption). cbv zeta.
  change (4 =? 0) with false. change (4 =? 1) with false. change (4 =? 2) with false. change (4 =? 3) with false.
  change (4 =? 4) with true. cbv iota.
  erewrite parse_array_ok; [|reflexivity|cbn [depth]; lia|cbn [inp depth]; exact Hb].
  cbn [inp depth]. f_equal. f_equal. lia.
Qed.
