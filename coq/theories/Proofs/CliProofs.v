(* Proofs for property C20 (Model/Cli.v): the encode command's output decodes to a valid bundle with the manifest's
   fields, decode -p prints the payload of every encoded well-formed bundle, the time commands print the
   library conversions.  Corollaries of C01 (to_cbor_roundtrip / from_cbor_bundle_bytes), C18 (unhex_hex),
   C17 (now_ok, unix_ok), C10 (eid parser facts) plus glue about the argument dispatch. *)
From Coq Require Strings.String.
Import Strings.String.StringSyntax.
From BP7 Require Import Base.Prelude Base.Decimal Base.Utf8 Base.Str Gen.Consts.
From BP7 Require Import Model.Types Model.Encode Model.Decode Model.Wf Model.Validate Model.Ops Model.Hex Model.Cli.
From BP7 Require Model.DtnTime Model.EidText.
From BP7 Require Import Proofs.CodecProofs Proofs.HexProofs Proofs.DtnTimeProofs Proofs.EidProofs.

(* evaluate a closed boolean / list sub-term in the goal *)
Ltac ev t := let x := eval vm_compute in t in change t with x.

(* ---------- ASCII strings are valid UTF-8 arguments ---------- *)
Lemma hexdigit_ascii b : is_hexdigit b = true -> b2n b <? 128 = true.
Proof.
  unfold is_hexdigit, hexval. intros H. apply N.ltb_lt.
  destruct ((48 <=? b2n b) && (b2n b <=? 57)) eqn:E1.
  { apply andb_true_iff in E1 as [_ E]. apply N.leb_le in E. lia. }
  destruct ((97 <=? b2n b) && (b2n b <=? 102)) eqn:E2.
  { apply andb_true_iff in E2 as [_ E]. apply N.leb_le in E. lia. }
  destruct ((65 <=? b2n b) && (b2n b <=? 70)) eqn:E3; [|discriminate].
  apply andb_true_iff in E3 as [_ E]. apply N.leb_le in E. lia.
Qed.
Lemma hexify_utf8 bs : utf8_valid (hexify bs) = true.
Proof.
  apply ascii_utf8. unfold ascii_only. pose proof (hexify_all_hex bs) as H.
  rewrite forallb_forall in *. intros x Hx. apply hexdigit_ascii. apply H. exact Hx.
Qed.
Lemma hexify_not_dash bs : is_ (hexify bs) "-" = false.
Proof.
  unfold is_. destruct bs as [|b t]; [reflexivity|]. rewrite hexify_cons.
  change (B "-") with [x2d]. cbn [bytes_eqb]. destruct (hexify t); apply andb_false_r.
Qed.

(* ---------- the bundle generate_bundle builds ---------- *)
Lemma cli_bundle_eq p pl : cli_bundle p pl = mkbundle (set_p_crc p CrcNo) [mkcanonical 1 1 0 CrcNo (Data pl)].
Proof. reflexivity. Qed.

Lemma payload_block_loop strict pl :
  block_loop strict [mkcanonical 1 1 0 CrcNo (Data pl)] [] [] = ([], [1]).
Proof. destruct strict; reflexivity. Qed.

Lemma wf_eid_valid e : wf_eid e = true -> eid_valid e = true.
Proof.
  destruct e as [c s|c a|c n s]; cbn [wf_eid eid_valid]; intros H; [reflexivity|exact H|].
  apply andb_true_iff in H as [H _]. apply andb_true_iff in H as [H _]. apply andb_true_iff in H as [H1 H2].
  rewrite H1. cbn [andb]. apply N.leb_le in H2. apply negb_true_iff. apply N.ltb_ge. exact H2.
Qed.

Lemma cli_bundle_valid fl dst src rpt t life pl :
  bundle_flags_validate fl = [] -> eid_valid dst = true -> eid_valid src = true -> eid_valid rpt = true -> t <> 0 ->
  validate (mkbundle (mkprimary DTN_VERSION fl CrcNo dst src rpt t 0 life 0 0) [mkcanonical 1 1 0 CrcNo (Data pl)]) = [].
Proof.
  intros Hf Hd Hs Hr Ht. unfold validate. cbn [b_primary b_canonicals]. rewrite payload_block_loop.
  unfold primary_validate. cbn [p_version p_flags p_dst p_src p_rpt p_time]. rewrite Hf, Hd, Hs, Hr.
  assert (E : (t =? 0) = false) by (apply N.eqb_neq; exact Ht). rewrite E.
  reflexivity.
Qed.

Lemma cli_bundle_to_cbor p pl : p_crc p = CrcNo ->
  to_cbor (mkbundle p [mkcanonical 1 1 0 CrcNo (Data pl)])
  = (bundle_bytes (mkbundle p [mkcanonical 1 1 0 CrcNo (Data pl)]), mkbundle p [mkcanonical 1 1 0 CrcNo (Data pl)]).
Proof. destruct p as [ver fl crc dst src rpt t sq life fo tl]. cbn [p_crc]. intros ->. reflexivity. Qed.

Lemma cli_bundle_wf fl dst src rpt t life pl :
  fl < two64 -> wf_eid dst = true -> wf_eid src = true -> wf_eid rpt = true -> t < two64 -> life < two64 -> Nlen pl < two64 ->
  wf_bundle (mkbundle (mkprimary DTN_VERSION fl CrcNo dst src rpt t 0 life 0 0) [mkcanonical 1 1 0 CrcNo (Data pl)]) = true.
Proof.
  intros Hf Hd Hs Hr Ht Hl Hp. unfold wf_bundle, wf_primary, wf_canonical, wf_data.
  cbn [b_primary b_canonicals p_version p_flags p_crc p_dst p_src p_rpt p_time p_seq p_lifetime p_frag_off p_total_len
       forallb c_type c_num c_flags c_crc c_data wf_crc].
  rewrite Hd, Hs, Hr.
  apply N.ltb_lt in Hf, Ht, Hl, Hp. rewrite Hf, Ht, Hl, Hp.
  ev (DTN_VERSION <? 4294967296). ev (0 <? two64). ev (0 =? 0). ev (1 <? two64). ev (0 <? 256). ev (1 =? PAYLOAD_BLOCK).
  cbn [andb]. rewrite orb_true_r. reflexivity.
Qed.

(* ---------- invariants of the manifest loop ---------- *)
Lemma apply_line_flags bl w l bl' w' : bl_flags bl < two64 -> apply_line (bl, w) l = Ok (bl', w') -> bl_flags bl' < two64.
Proof.
  intros Hb. unfold apply_line.
  set (result := map trim (splitn 2 c_eq l)). set (key := nth 0 result []).
  set (value := match result with [_; x] => Ok x | _ => Panic PSlice end).
  destruct (bytes_eqb key (B "destination")).
  { destruct value as [x| |]; cbn [bind]; try discriminate.
    destruct (EidText.eid_parse x); intros H; inversion H; subst; exact Hb. }
  destruct (bytes_eqb key (B "source")).
  { destruct value as [x| |]; cbn [bind]; try discriminate.
    destruct (EidText.eid_parse x); intros H; inversion H; subst; exact Hb. }
  destruct (bytes_eqb key (B "report_to")).
  { destruct value as [x| |]; cbn [bind]; try discriminate.
    destruct (EidText.eid_parse x); intros H; inversion H; subst; exact Hb. }
  destruct (bytes_eqb key (B "lifetime")).
  { destruct value as [x| |]; cbn [bind]; try discriminate.
    destruct (unwrap_dur (parse_duration x)); cbn [bind]; intros H; inversion H; subst; exact Hb. }
  destruct (bytes_eqb key (B "flags")).
  { destruct value as [x| |]; cbn [bind]; try discriminate.
    destruct (parse_u64 x) as [n|] eqn:E; intros H; inversion H; subst. cbn [bl_flags].
    eapply parse_u64_bound. exact E. }
  intros H; inversion H; subst; exact Hb.
Qed.
Lemma apply_lines_flags ls : forall bl w bl' w', bl_flags bl < two64 -> apply_lines (bl, w) ls = Ok (bl', w') -> bl_flags bl' < two64.
Proof.
  induction ls as [|l t IH]; intros bl w bl' w' Hb H; cbn [apply_lines] in H.
  - inversion H; subst. exact Hb.
  - destruct (apply_line (bl, w) l) as [[b1 w1]| |] eqn:E; cbn [bind] in H; try discriminate.
    eapply IH; [|exact H]. eapply apply_line_flags; eassumption.
Qed.
Lemma parse_manifest_flags text bl w : parse_manifest text = Ok (bl, w) -> bl_flags bl < two64.
Proof.
  unfold parse_manifest. destruct (unwrap_dur (parse_duration (B "1d"))) as [d0| |]; cbn [bind]; try discriminate.
  destruct (utf8_valid text); [|discriminate]. intros H. eapply apply_lines_flags; [|exact H]. cbn [bl_flags]. reflexivity.
Qed.

(* ---------- encode ---------- *)
Lemma strip_nl_app l : strip_nl (l ++ [nl]) = l.
Proof. unfold strip_nl. rewrite rev_unit. ev (b2n nl =? 10). apply rev_involutive. Qed.

Lemma decode_output_hex bs : decode_output true (hexify bs ++ [nl]) = from_cbor bs.
Proof. unfold decode_output. rewrite strip_nl_app, unhex_hex. reflexivity. Qed.

(* what every successful encode run produces; `payload_src` is how the payload reaches the tool *)
Definition encode_post (o : cli_output) (hex : bool) (f : manifest_fields) (clock : N) (pl : list byte) : Prop :=
  status o = Exit 0 /\
  exists b, decode_output hex (stdout o) = Ok b /\ validate b = []
    /\ p_dst (b_primary b) = f_dst f /\ p_src (b_primary b) = f_src f /\ p_rpt (b_primary b) = f_rpt f
    /\ p_lifetime (b_primary b) = f_lifetime_ms f /\ p_flags (b_primary b) = f_flags f
    /\ p_time (b_primary b) = clock - MS1970_TO2K /\ p_seq (b_primary b) = 0
    /\ payload b = Some pl.

Lemma generate_ok text f clock pl hex p w :
  manifest_ok text f -> valid_flags (f_flags f) -> MS1970_TO2K < clock < two64 -> Nlen pl < two64 ->
  manifest_to_primary Checked clock text = Ok (p, w) ->
  exists out, generate_bundle p pl hex = Ok out /\ forall se, encode_post (exits out se 0) hex f clock pl.
Proof.
  intros (bl & warn & Hpm & Hf & Hwd & Hws & Hwr & Hnone & Hlife) Hvf [Hc1 Hc2] Hpl Hm2p.
  unfold manifest_to_primary in Hm2p.
  assert (Hnow : DtnTime.now Checked clock = Ok (clock - 946684800000)).
  { apply now_ok. unfold MS1970_TO2K in Hc1. lia. }
  rewrite Hnow, Hpm in Hm2p. cbn [bind fst snd] in Hm2p.
  unfold build_primary in Hm2p.
  subst f. cbn [fields_of f_dst f_src f_rpt f_lifetime_ms f_flags] in *.
  assert (Hne : eid_eqb (bl_dst bl) eid_none = false).
  { destruct (eid_eqb (bl_dst bl) eid_none) eqn:E; [|reflexivity]. apply eid_eqb_eq in E. contradiction. }
  rewrite Hne in Hm2p. cbn [bind] in Hm2p. inversion Hm2p; subst p w. clear Hm2p.
  assert (Hms : dur_ms_u64 (bl_life bl) = dur_millis (bl_life bl)) by (unfold dur_ms_u64; apply N.mod_small; exact Hlife).
  rewrite Hms.
  set (t := clock - 946684800000).
  assert (Ht0 : t <> 0) by (unfold t; unfold MS1970_TO2K in Hc1; lia).
  assert (Ht64 : t < two64) by (unfold t; lia).
  pose proof (parse_manifest_flags _ _ _ Hpm) as Hfl.
  set (b := mkbundle (mkprimary DTN_VERSION (bl_flags bl) CrcNo (bl_dst bl) (bl_src bl) (bl_rpt bl) t 0 (dur_millis (bl_life bl)) 0 0)
                     [mkcanonical 1 1 0 CrcNo (Data pl)]).
  assert (Hval : validate b = []).
  { apply cli_bundle_valid; try assumption; apply wf_eid_valid; assumption. }
  assert (Hwf : wf_bundle b = true) by (apply cli_bundle_wf; assumption).
  assert (Hto : to_cbor b = (bundle_bytes b, b)) by (apply cli_bundle_to_cbor; reflexivity).
  assert (Hdec : from_cbor (bundle_bytes b) = Ok b) by (apply from_cbor_bundle_bytes; [exact Hwf|reflexivity]).
  unfold generate_bundle. rewrite cli_bundle_eq. change (set_p_crc _ CrcNo) with (b_primary b).
  change (mkbundle (b_primary b) [mkcanonical 1 1 0 CrcNo (Data pl)]) with b.
  rewrite Hval, Hto. cbn [fst].
  eexists. split; [reflexivity|]. intros se. unfold encode_post. cbn [status stdout exits].
  split; [reflexivity|]. exists b.
  split.
  { destruct hex; [apply (eq_trans (decode_output_hex _)); exact Hdec|exact Hdec]. }
  split; [exact Hval|].
  unfold MS1970_TO2K. repeat (split; [reflexivity|]). reflexivity.
Qed.

Lemma is_encode_facts : is_ (B "encode") "rnd" = false /\ is_ (B "encode") "encode" = true /\ utf8_valid (B "encode") = true
  /\ utf8_valid (B "-x") = true /\ is_ (B "-x") "-x" = true.
Proof. vm_compute. repeat split; reflexivity. Qed.

Theorem encode_file a0 mpath ppath text pl sin fs clock hex f :
  utf8_valid a0 = true -> utf8_valid mpath = true -> utf8_valid ppath = true -> is_ ppath "-" = false ->
  lookup mpath fs = Some text -> lookup ppath fs = Some pl ->
  manifest_ok text f -> valid_flags (f_flags f) -> MS1970_TO2K < clock < two64 -> Nlen pl < two64 ->
  encode_post (run (mkin (encode_argv a0 mpath ppath hex) sin fs clock)) hex f clock pl.
Proof.
  intros Ha Hm Hp Hnd Hlm Hlp Hok Hvf Hc Hpl.
  destruct is_encode_facts as (E1 & E2 & E3 & E4 & E5).
  assert (Hm2p : exists p w, manifest_to_primary Checked clock text = Ok (p, w)).
  { destruct Hok as (bl & warn & Hpm & Hf & _ & _ & _ & Hnone & _). unfold manifest_to_primary.
    rewrite now_ok by (destruct Hc as [Hc _]; unfold MS1970_TO2K in Hc; lia). rewrite Hpm. cbn [bind fst snd].
    unfold build_primary. subst f. cbn [fields_of f_dst] in Hnone.
    destruct (eid_eqb (bl_dst bl) eid_none) eqn:E; [apply eid_eqb_eq in E; contradiction|]. cbn [bind]. eauto. }
  destruct Hm2p as (p & w & Hm2p).
  destruct (generate_ok text f clock pl hex p w Hok Hvf Hc Hpl Hm2p) as (out & Hgen & Hpost).
  unfold run, run_with, encode_argv. cbn [argv].
  assert (Hutf : forallb utf8_valid ([a0; B "encode"; mpath; ppath] ++ (if hex then [B "-x"] else [])) = true).
  { destruct hex; cbn [app forallb]; rewrite Ha, E3, Hm, Hp, ?E4; reflexivity. }
  rewrite Hutf. cbn [negb].
  destruct hex; cbn [app length]; rewrite E1, E2; cbn [Nat.eqb].
  - change (arg 4 [a0; B "encode"; mpath; ppath; B "-x"]) with (B "-x"). rewrite E5.
    unfold do_encode. cbn [argv files clock_ms stdin]. change (arg 2 _) with mpath. change (arg 3 _) with ppath.
    rewrite Hlm, Hm2p, Hnd, Hlp, Hgen. apply Hpost.
  - unfold do_encode. cbn [argv files clock_ms stdin]. change (arg 2 _) with mpath. change (arg 3 _) with ppath.
    rewrite Hlm, Hm2p, Hnd, Hlp, Hgen. apply Hpost.
Qed.

Theorem encode_stdin a0 mpath text pl fs clock hex f :
  utf8_valid a0 = true -> utf8_valid mpath = true ->
  lookup mpath fs = Some text ->
  manifest_ok text f -> valid_flags (f_flags f) -> MS1970_TO2K < clock < two64 -> Nlen pl < two64 ->
  encode_post (run (mkin (encode_argv a0 mpath (B "-") hex) pl fs clock)) hex f clock pl.
Proof.
  intros Ha Hm Hlm Hok Hvf Hc Hpl.
  destruct is_encode_facts as (E1 & E2 & E3 & E4 & E5).
  assert (Hm2p : exists p w, manifest_to_primary Checked clock text = Ok (p, w)).
  { destruct Hok as (bl & warn & Hpm & Hf & _ & _ & _ & Hnone & _). unfold manifest_to_primary.
    rewrite now_ok by (destruct Hc as [Hc _]; unfold MS1970_TO2K in Hc; lia). rewrite Hpm. cbn [bind fst snd].
    unfold build_primary. subst f. cbn [fields_of f_dst] in Hnone.
    destruct (eid_eqb (bl_dst bl) eid_none) eqn:E; [apply eid_eqb_eq in E; contradiction|]. cbn [bind]. eauto. }
  destruct Hm2p as (p & w & Hm2p).
  destruct (generate_ok text f clock pl hex p w Hok Hvf Hc Hpl Hm2p) as (out & Hgen & Hpost).
  assert (Ed : utf8_valid (B "-") = true /\ is_ (B "-") "-" = true) by (vm_compute; split; reflexivity).
  destruct Ed as [Ed1 Ed2].
  unfold run, run_with, encode_argv. cbn [argv].
  assert (Hutf : forallb utf8_valid ([a0; B "encode"; mpath; B "-"] ++ (if hex then [B "-x"] else [])) = true).
  { destruct hex; cbn [app forallb]; rewrite Ha, E3, Hm, Ed1, ?E4; reflexivity. }
  rewrite Hutf. cbn [negb].
  destruct hex; cbn [app length]; rewrite E1, E2; cbn [Nat.eqb].
  - change (arg 4 [a0; B "encode"; mpath; B "-"; B "-x"]) with (B "-x"). rewrite E5.
    unfold do_encode. cbn [argv files clock_ms stdin]. change (arg 2 _) with mpath. change (arg 3 _) with (B "-").
    rewrite Hlm, Hm2p, Ed2, Hgen. apply Hpost.
  - unfold do_encode. cbn [argv files clock_ms stdin]. change (arg 2 _) with mpath. change (arg 3 _) with (B "-").
    rewrite Hlm, Hm2p, Ed2, Hgen. apply Hpost.
Qed.

(* ---------- decode -p ---------- *)
Lemma same_but_crc_fields c d : same_but_crc_c c d -> c_type c = c_type d /\ c_num c = c_num d /\ c_data c = c_data d.
Proof. intros [H _]. unfold set_c_crc in H. inversion H. auto. Qed.
Lemma extension_valid_same c d : c_type c = c_type d -> c_num c = c_num d -> c_data c = c_data d ->
  extension_valid c = extension_valid d.
Proof. intros H1 H2 H3. unfold extension_valid. rewrite H1, H2, H3. reflexivity. Qed.
Definition payload_of (cs : list canonical) : option (list byte) :=
  match ext_block_by_type PAYLOAD_BLOCK cs with
  | Some c => match c_data c with Data d => Some d | _ => None end
  | None => None
  end.
Lemma payload_of_same cs ds : Forall2 same_but_crc_c cs ds -> payload_of cs = payload_of ds.
Proof.
  induction 1 as [|c d cs ds Hcd _ IH]; [reflexivity|].
  destruct (same_but_crc_fields c d Hcd) as (H1 & H2 & H3).
  unfold payload_of, ext_block_by_type in *. cbn [find].
  rewrite (extension_valid_same c d H1 H2 H3), H1.
  destruct ((c_type d =? PAYLOAD_BLOCK) && extension_valid d); [rewrite H3; reflexivity|exact IH].
Qed.
Lemma payload_only_crc b b' : only_crc_changed b b' -> payload b' = payload b.
Proof. intros [_ H]. symmetry. apply (payload_of_same _ _ H). Qed.

Definition payload_bytes (b : bundle) : list byte := match payload b with Some d => d | None => [] end.

Lemma is_decode_facts : is_ (B "decode") "rnd" = false /\ is_ (B "decode") "encode" = false /\ is_ (B "decode") "decode" = true
  /\ utf8_valid (B "decode") = true /\ utf8_valid (B "-p") = true /\ is_ (B "-p") "-p" = true
  /\ utf8_valid (B "-") = true /\ is_ (B "-") "-" = true.
Proof. vm_compute. repeat split; reflexivity. Qed.

Theorem decode_payload_hex a0 b sin fs clock : utf8_valid a0 = true -> wf_bundle b = true ->
  run (mkin [a0; B "decode"; hexify (fst (to_cbor b)); B "-p"] sin fs clock) = exits (payload_bytes b) false 0.
Proof.
  intros Ha Hwf. pose proof (to_cbor_roundtrip b Hwf) as H. destruct (to_cbor b) as [bs b'].
  destruct H as (Hdec & Hoc & _). cbn [fst].
  destruct is_decode_facts as (E1 & E2 & E3 & E4 & E5 & E6 & _ & _).
  unfold run, run_with. cbn [argv forallb length]. rewrite Ha, E4, E5, hexify_utf8. cbn [andb negb].
  rewrite E1, E2, E3. cbn [Nat.eqb].
  change (arg 3 [a0; B "decode"; hexify bs; B "-p"]) with (B "-p"). rewrite E6.
  unfold do_decode. cbn [argv stdin]. change (arg 2 [a0; B "decode"; hexify bs; B "-p"]) with (hexify bs).
  rewrite hexify_not_dash, unhex_hex. unfold buf_to_bundle. rewrite Hdec.
  unfold payload_bytes. rewrite (payload_only_crc b b' Hoc). reflexivity.
Qed.

Theorem decode_payload_stdin a0 b fs clock : utf8_valid a0 = true -> wf_bundle b = true ->
  run (mkin [a0; B "decode"; B "-"; B "-p"] (fst (to_cbor b)) fs clock) = exits (payload_bytes b) false 0.
Proof.
  intros Ha Hwf. pose proof (to_cbor_roundtrip b Hwf) as H. destruct (to_cbor b) as [bs b'].
  destruct H as (Hdec & Hoc & _). cbn [fst].
  destruct is_decode_facts as (E1 & E2 & E3 & E4 & E5 & E6 & E7 & E8).
  unfold run, run_with. cbn [argv forallb length]. rewrite Ha, E4, E5, E7. cbn [andb negb].
  rewrite E1, E2, E3. cbn [Nat.eqb].
  change (arg 3 [a0; B "decode"; B "-"; B "-p"]) with (B "-p"). rewrite E6.
  unfold do_decode. cbn [argv stdin]. change (arg 2 [a0; B "decode"; B "-"; B "-p"]) with (B "-").
  rewrite E8. unfold buf_to_bundle. rewrite Hdec.
  unfold payload_bytes. rewrite (payload_only_crc b b' Hoc). reflexivity.
Qed.

(* ---------- dtntime / d2u ---------- *)
Lemma is_time_facts :
  is_ (B "dtntime") "rnd" = false /\ is_ (B "dtntime") "encode" = false /\ is_ (B "dtntime") "decode" = false
  /\ is_ (B "dtntime") "dtntime" = true /\ utf8_valid (B "dtntime") = true
  /\ is_ (B "d2u") "rnd" = false /\ is_ (B "d2u") "encode" = false /\ is_ (B "d2u") "decode" = false
  /\ is_ (B "d2u") "dtntime" = false /\ is_ (B "d2u") "d2u" = true /\ utf8_valid (B "d2u") = true.
Proof. vm_compute. repeat split; reflexivity. Qed.

Theorem dtntime_arg a0 t sin fs clock : utf8_valid a0 = true -> t < two64 ->
  exists s, DtnTime.string t = Ok s /\ run (mkin [a0; B "dtntime"; dec t] sin fs clock) = exits (s ++ [nl]) false 0.
Proof.
  intros Ha Ht.
  assert (Hs : exists s, DtnTime.string t = Ok s) by (unfold DtnTime.string; destruct (DtnTime.format_rfc3339 _ _); eauto).
  destruct Hs as [s Hs]. exists s. split; [exact Hs|].
  destruct is_time_facts as (E1 & E2 & E3 & E4 & E5 & _).
  unfold run, run_with. cbn [argv forallb length]. rewrite Ha, E5, dec_utf8. cbn [andb negb].
  rewrite E1, E2, E3, E4. cbn [Nat.eqb].
  change (arg 2 [a0; B "dtntime"; dec t]) with (dec t). rewrite (parse_dec t Ht), Hs. reflexivity.
Qed.
Theorem dtntime_now a0 sin fs clock : utf8_valid a0 = true -> MS1970_TO2K <= clock ->
  run (mkin [a0; B "dtntime"] sin fs clock) = exits (dec (clock - MS1970_TO2K) ++ [nl]) false 0.
Proof.
  intros Ha Hc. destruct is_time_facts as (E1 & E2 & E3 & E4 & E5 & _).
  unfold run, run_with. cbn [argv forallb length clock_ms]. rewrite Ha, E5. cbn [andb negb].
  rewrite E1, E2, E3, E4. cbn [Nat.eqb]. unfold println_N.
  rewrite now_ok by (unfold MS1970_TO2K in Hc; exact Hc). reflexivity.
Qed.
Theorem d2u_arg a0 t sin fs clock : utf8_valid a0 = true -> t < two64 ->
  run (mkin [a0; B "d2u"; dec t] sin fs clock) = exits (dec (t / 1000 + 946684800) ++ [nl]) false 0.
Proof.
  intros Ha Ht. destruct is_time_facts as (_ & _ & _ & _ & _ & E1 & E2 & E3 & E4 & E5 & E6).
  unfold run, run_with. cbn [argv forallb length]. rewrite Ha, E6, dec_utf8. cbn [andb negb].
  rewrite E1, E2, E3, E4, E5. cbn [Nat.eqb].
  change (arg 2 [a0; B "d2u"; dec t]) with (dec t). rewrite (parse_dec t Ht). unfold println_N.
  rewrite (unix_ok Checked t Ht). reflexivity.
Qed.

(* ---------- the canonical five-line manifest is inside manifest_ok ---------- *)
Lemma last_app_ne {A} (k v : list A) d d' : v <> [] -> last (k ++ v) d = last v d'.
Proof.
  intros Hv. induction k as [|a k IH]; cbn [app].
  - destruct v as [|x v]; [congruence|]. clear Hv. revert x. induction v as [|y v IHv]; intros x; [reflexivity|].
    change (last (x :: y :: v) d) with (last (y :: v) d). change (last (x :: y :: v) d') with (last (y :: v) d'). apply IHv.
  - destruct (k ++ v) as [|a0 l0] eqn:E; [apply app_eq_nil in E as [_ E]; congruence|].
    change (last (a :: a0 :: l0) d) with (last (a0 :: l0) d). exact IH.
Qed.
Lemma trim_edges l : edges_ok l = true -> trim l = l.
Proof.
  destruct l as [|a t]; [discriminate|]. cbn [edges_ok]. intros H. apply andb_true_iff in H as [Ha He].
  destruct t as [|b t].
  - apply (trim_single [] [] a); [reflexivity|reflexivity|exact Ha].
  - assert (Hne : b :: t <> []) by discriminate.
    rewrite (app_removelast_last a Hne).
    change (last (a :: b :: t) a) with (last (b :: t) a) in He.
    pose proof (trim_padded [] [] a (removelast (b :: t)) (last (b :: t) a) eq_refl eq_refl Ha He) as H.
    rewrite app_nil_r in H. exact H.
Qed.
Lemma edges_key k0 k v : plain_ascii k0 = true -> edges_ok v = true -> edges_ok ((k0 :: k) ++ v) = true.
Proof.
  intros Hk Hv. destruct v as [|x v]; [discriminate|]. cbn [edges_ok] in Hv. apply andb_true_iff in Hv as [_ Hl].
  cbn [app edges_ok]. rewrite Hk. cbn [andb].
  change (k0 :: k ++ x :: v) with ((k0 :: k) ++ x :: v). rewrite (last_app_ne (k0 :: k) (x :: v) k0 x) by discriminate. exact Hl.
Qed.
Lemma all_plain_edges l : l <> [] -> forallb plain_ascii l = true -> edges_ok l = true.
Proof.
  destruct l as [|a t]; [congruence|]. intros _ H. cbn [edges_ok]. rewrite forallb_forall in H.
  rewrite (H a (or_introl eq_refl)). cbn [andb]. apply H.
  destruct t as [|b t]; [left; reflexivity|]. change (last (a :: b :: t) a) with (last (b :: t) a).
  right. pose proof (@app_removelast_last _ (b :: t) a ltac:(discriminate)) as E. rewrite E at 2. apply in_or_app. right. left. reflexivity.
Qed.
Lemma dec_edges n : edges_ok (dec n) = true.
Proof.
  apply all_plain_edges; [apply dec_nonempty|]. pose proof (dec_digits n) as H. rewrite forallb_forall in *.
  intros x Hx. apply digit_plain. apply H. exact Hx.
Qed.
Lemma dec_no_nl n : mem_byte c_nl (dec n) = false.
Proof. apply not_digit_not_in_dec. vm_compute. reflexivity. Qed.

Lemma clean_facts v : clean v = true -> edges_ok v = true /\ mem_byte c_nl v = false /\ utf8_valid v = true.
Proof.
  unfold clean. intros H. apply andb_true_iff in H as [H H3]. apply andb_true_iff in H as [H1 H2].
  apply negb_true_iff in H2. auto.
Qed.

(* one line `key=value` of the loop *)
Lemma split_key (key v : list byte) : mem_byte c_eq key = false ->
  map trim (splitn 2 c_eq (key ++ c_eq :: v)) = [trim key; trim v].
Proof. intros H. rewrite (splitn_app 0 c_eq key v H). reflexivity. Qed.

Lemma apply_line_dst bl w v e : edges_ok v = true -> EidText.eid_parse v = EidText.EOk e ->
  apply_line (bl, w) (B "destination=" ++ v) = Ok (mkbuilder (bl_flags bl) e (bl_src bl) (bl_rpt bl) (bl_life bl), w).
Proof.
  intros Hv Hp. unfold apply_line. change (B "destination=" ++ v) with (B "destination" ++ c_eq :: v).
  rewrite split_key by reflexivity. rewrite (trim_edges v Hv). ev (trim (B "destination")). cbn [nth].
  ev (bytes_eqb (B "destination") (B "destination")). cbn [bind]. rewrite Hp. reflexivity.
Qed.
Lemma apply_line_src bl w v e : edges_ok v = true -> EidText.eid_parse v = EidText.EOk e ->
  apply_line (bl, w) (B "source=" ++ v) = Ok (mkbuilder (bl_flags bl) (bl_dst bl) e (bl_rpt bl) (bl_life bl), w).
Proof.
  intros Hv Hp. unfold apply_line. change (B "source=" ++ v) with (B "source" ++ c_eq :: v).
  rewrite split_key by reflexivity. rewrite (trim_edges v Hv). ev (trim (B "source")). cbn [nth].
  ev (bytes_eqb (B "source") (B "destination")). ev (bytes_eqb (B "source") (B "source")). cbn [bind]. rewrite Hp. reflexivity.
Qed.
Lemma apply_line_rpt bl w v e : edges_ok v = true -> EidText.eid_parse v = EidText.EOk e ->
  apply_line (bl, w) (B "report_to=" ++ v) = Ok (mkbuilder (bl_flags bl) (bl_dst bl) (bl_src bl) e (bl_life bl), w).
Proof.
  intros Hv Hp. unfold apply_line. change (B "report_to=" ++ v) with (B "report_to" ++ c_eq :: v).
  rewrite split_key by reflexivity. rewrite (trim_edges v Hv). ev (trim (B "report_to")). cbn [nth].
  ev (bytes_eqb (B "report_to") (B "destination")). ev (bytes_eqb (B "report_to") (B "source")).
  ev (bytes_eqb (B "report_to") (B "report_to")). cbn [bind]. rewrite Hp. reflexivity.
Qed.
Lemma apply_line_life bl w v d : edges_ok v = true -> parse_duration v = Ok d ->
  apply_line (bl, w) (B "lifetime=" ++ v) = Ok (mkbuilder (bl_flags bl) (bl_dst bl) (bl_src bl) (bl_rpt bl) d, w).
Proof.
  intros Hv Hp. unfold apply_line. change (B "lifetime=" ++ v) with (B "lifetime" ++ c_eq :: v).
  rewrite split_key by reflexivity. rewrite (trim_edges v Hv). ev (trim (B "lifetime")). cbn [nth].
  ev (bytes_eqb (B "lifetime") (B "destination")). ev (bytes_eqb (B "lifetime") (B "source")).
  ev (bytes_eqb (B "lifetime") (B "report_to")). ev (bytes_eqb (B "lifetime") (B "lifetime")).
  cbn [bind]. rewrite Hp. reflexivity.
Qed.
Lemma apply_line_flags_dec bl w n : n < two64 ->
  apply_line (bl, w) (B "flags=" ++ dec n) = Ok (mkbuilder n (bl_dst bl) (bl_src bl) (bl_rpt bl) (bl_life bl), w).
Proof.
  intros Hn. unfold apply_line. change (B "flags=" ++ dec n) with (B "flags" ++ c_eq :: dec n).
  rewrite split_key by reflexivity. rewrite (trim_edges (dec n) (dec_edges n)). ev (trim (B "flags")). cbn [nth].
  ev (bytes_eqb (B "flags") (B "destination")). ev (bytes_eqb (B "flags") (B "source")).
  ev (bytes_eqb (B "flags") (B "report_to")). ev (bytes_eqb (B "flags") (B "lifetime")). ev (bytes_eqb (B "flags") (B "flags")).
  cbn [bind]. rewrite (parse_dec n Hn). reflexivity.
Qed.

Lemma line_kept k0 k v : plain_ascii k0 = true -> mem_byte c_eq (k0 :: k) = true -> edges_ok v = true ->
  let l := (k0 :: k) ++ v in
  trim l = l /\ (negb (is_empty l) || starts_with (B "^#") l) = true /\ mem_byte c_eq l = true.
Proof.
  intros Hk He Hv l. split; [apply trim_edges, edges_key; assumption|]. split; [reflexivity|].
  unfold l. rewrite mem_byte_app, He. reflexivity.
Qed.

Lemma manifest_lines_canonical d s r l w :
  clean d = true -> clean s = true -> clean r = true -> clean l = true ->
  manifest_lines (render_manifest d s r l w)
  = [B "destination=" ++ d; B "source=" ++ s; B "report_to=" ++ r; B "lifetime=" ++ l; B "flags=" ++ dec w].
Proof.
  intros Hd Hs Hr Hl.
  destruct (clean_facts d Hd) as (Hd1 & Hd2 & _). destruct (clean_facts s Hs) as (Hs1 & Hs2 & _).
  destruct (clean_facts r Hr) as (Hr1 & Hr2 & _). destruct (clean_facts l Hl) as (Hl1 & Hl2 & _).
  assert (E : render_manifest d s r l w
              = (B "destination=" ++ d) ++ c_nl :: (B "source=" ++ s) ++ c_nl :: (B "report_to=" ++ r) ++ c_nl ::
                (B "lifetime=" ++ l) ++ c_nl :: (B "flags=" ++ dec w) ++ c_nl :: []).
  { unfold render_manifest. rewrite <- !app_assoc. reflexivity. }
  unfold manifest_lines. rewrite E.
  rewrite !split_app by (rewrite mem_byte_app; first [rewrite Hd2|rewrite Hs2|rewrite Hr2|rewrite Hl2|rewrite dec_no_nl]; reflexivity).
  change (split c_nl []) with [@nil byte]. cbn [map].
  destruct (line_kept x64 (tl (B "destination=")) d eq_refl eq_refl Hd1) as (T1 & N1 & Q1).
  destruct (line_kept x73 (tl (B "source=")) s eq_refl eq_refl Hs1) as (T2 & N2 & Q2).
  destruct (line_kept x72 (tl (B "report_to=")) r eq_refl eq_refl Hr1) as (T3 & N3 & Q3).
  destruct (line_kept x6c (tl (B "lifetime=")) l eq_refl eq_refl Hl1) as (T4 & N4 & Q4).
  destruct (line_kept x66 (tl (B "flags=")) (dec w) eq_refl eq_refl (dec_edges w)) as (T5 & N5 & Q5).
  change (x64 :: tl (B "destination=")) with (B "destination=") in *.
  change (x73 :: tl (B "source=")) with (B "source=") in *.
  change (x72 :: tl (B "report_to=")) with (B "report_to=") in *.
  change (x6c :: tl (B "lifetime=")) with (B "lifetime=") in *.
  change (x66 :: tl (B "flags=")) with (B "flags=") in *.
  rewrite T1, T2, T3, T4, T5. change (trim []) with (@nil byte).
  cbn [filter]. rewrite N1, N2, N3, N4, N5. cbn [is_empty negb orb starts_with]. ev (starts_with (B "^#") []).
  cbn [filter]. rewrite Q1, Q2, Q3, Q4, Q5. reflexivity.
Qed.

Theorem manifest_canonical d s r l w ed es er dl :
  clean d = true -> clean s = true -> clean r = true -> clean l = true ->
  EidText.eid_parse d = EidText.EOk ed -> EidText.eid_parse s = EidText.EOk es -> EidText.eid_parse r = EidText.EOk er ->
  EidText.eid_fits ed = true -> EidText.eid_fits es = true -> EidText.eid_fits er = true -> ed <> eid_none ->
  parse_duration l = Ok dl -> dur_millis dl < two64 -> w < two64 ->
  manifest_ok (render_manifest d s r l w) (mkfields ed es er (dur_millis dl) w).
Proof.
  intros Hd Hs Hr Hl Pd Ps Pr Fd Fs Fr Hnone Pl Hms Hw.
  destruct (clean_facts d Hd) as (Hd1 & _ & Hd3). destruct (clean_facts s Hs) as (Hs1 & _ & Hs3).
  destruct (clean_facts r Hr) as (Hr1 & _ & Hr3). destruct (clean_facts l Hl) as (Hl1 & _ & Hl3).
  exists (mkbuilder w ed es er dl), false.
  split.
  { unfold parse_manifest. ev (unwrap_dur (parse_duration (B "1d"))). cbn [bind].
    assert (Hu : utf8_valid (render_manifest d s r l w) = true).
    { unfold render_manifest.
      repeat (apply utf8_valid_app; [first [reflexivity | assumption | apply dec_utf8]|]). reflexivity. }
    rewrite Hu, (manifest_lines_canonical d s r l w Hd Hs Hr Hl). cbn [apply_lines].
    rewrite (apply_line_dst _ _ d ed Hd1 Pd). cbn [bind].
    rewrite (apply_line_src _ _ s es Hs1 Ps). cbn [bind].
    rewrite (apply_line_rpt _ _ r er Hr1 Pr). cbn [bind].
    rewrite (apply_line_life _ _ l dl Hl1 Pl). cbn [bind].
    rewrite (apply_line_flags_dec _ _ w Hw). cbn [bind]. reflexivity. }
  split; [reflexivity|]. cbn [f_dst f_src f_rpt f_lifetime_ms].
  repeat split; try assumption.
  - apply api_wf; [exact (parse_ok_api d ed Hd3 Pd)|exact Fd].
  - apply api_wf; [exact (parse_ok_api s es Hs3 Ps)|exact Fs].
  - apply api_wf; [exact (parse_ok_api r er Hr3 Pr)|exact Fr].
Qed.
