(* Proofs about Model/Clock.v (C09): uniqueness of returned (time, seq) pairs under every interleaving,
   the sequential clause, and the machine-checked refutation of the pinned two-atomics code. *)
From BP7 Require Import Base.Prelude Model.Clock.

(* ---------- list helpers ---------- *)
Lemma nth_error_set_nth_same {A} (l : list A) i a x :
  nth_error l i = Some a -> nth_error (set_nth l i x) i = Some x.
Proof.
  revert i; induction l as [|b l IH]; intros [|i] H; cbn in *; try discriminate; auto.
Qed.
Lemma nth_error_set_nth_other {A} (l : list A) i j x :
  i <> j -> nth_error (set_nth l i x) j = nth_error l j.
Proof.
  revert i j; induction l as [|b l IH]; intros [|i] [|j] H; cbn; auto; try congruence.
Qed.
Lemma set_nth_set_nth {A} (l : list A) i x y : set_nth (set_nth l i x) i y = set_nth l i y.
Proof. revert i; induction l as [|b l IH]; intros [|i]; cbn; auto. f_equal. apply IH. Qed.
Lemma map_set_nth {A B} (f : A -> B) (l : list A) i x : map f (set_nth l i x) = set_nth (map f l) i (f x).
Proof. revert i; induction l as [|b l IH]; intros [|i]; cbn; auto. f_equal. apply IH. Qed.
Lemma set_nth_length {A} (l : list A) i x : length (set_nth l i x) = length l.
Proof. revert i; induction l as [|b l IH]; intros [|i]; cbn; auto. Qed.

(* ---------- lexicographic order on (time, seq) ---------- *)
Definition lex_le (p q : N * N) : Prop := fst p < fst q \/ (fst p = fst q /\ snd p <= snd q).
Definition lex_lt (p q : N * N) : Prop := fst p < fst q \/ (fst p = fst q /\ snd p < snd q).
Definition below (p : N * N) (c : cell) : Prop := match c with None => False | Some q => lex_le p q end.

Lemma lex_lt_neq p q : lex_lt p q -> p <> q.
Proof. unfold lex_lt. intros H ->. lia. Qed.
Lemma lex_lt_le p q : lex_lt p q -> lex_le p q.
Proof. unfold lex_lt, lex_le. lia. Qed.
Lemma lex_le_refl p : lex_le p p.
Proof. unfold lex_le. lia. Qed.

(* the critical section hands out a pair strictly above everything at or below the old contents *)
Lemma critical_fresh c now p : below p c -> lex_lt p (critical c now).
Proof.
  destruct c as [[lt ls]|]; cbn [below]; [|tauto].
  unfold lex_le, lex_lt, critical. destruct p as [a b]. cbn [fst snd].
  destruct (now <=? lt) eqn:E; [apply N.leb_le in E|apply N.leb_gt in E]; cbn [fst snd]; lia.
Qed.

(* ---------- uniqueness ---------- *)
Definition Inv (s : gstate) : Prop :=
  NoDup (map ret_pair (g_out s)) /\ forall r, In r (g_out s) -> below (ret_pair r) (g_cell s).

Lemma step_inv s t : Inv s -> Inv (step s t).
Proof.
  intros [Hnd Hb]. unfold step.
  destruct (nth_error (g_threads s) t) as [th|]; [|split; assumption].
  destruct (t_pc th) as [|reading].
  - destruct (t_pending th); split; assumption.
  - destruct (g_holder s); [split; assumption|].
    set (p := critical (g_cell s) reading).
    assert (Hp : ret_pair (mk_ret t reading (fst p) (snd p)) = p) by (unfold ret_pair; cbn; destruct p; reflexivity).
    split; cbn [g_out g_cell map].
    + constructor; [|exact Hnd]. rewrite Hp. intros Hin. apply in_map_iff in Hin as [r [Hr Hin]].
      apply Hb in Hin. apply (critical_fresh _ reading) in Hin. fold p in Hin. rewrite Hr in Hin.
      exact (lex_lt_neq _ _ Hin eq_refl).
    + intros r [<-|Hin]; cbn [below].
      * rewrite Hp. apply lex_le_refl.
      * apply lex_lt_le. apply Hb in Hin. exact (critical_fresh _ reading _ Hin).
Qed.

Lemma exec_inv sched : forall s, Inv s -> Inv (exec s sched).
Proof.
  unfold exec. induction sched as [|t sched IH]; intros s H; cbn [fold_left]; [exact H|].
  apply IH, step_inv, H.
Qed.

Lemma init_inv c cfg : Inv (init_from c cfg).
Proof. split; cbn; [constructor|tauto]. Qed.

Lemma returned_run_from c cfg sched : returned (run_from c cfg sched) = map ret_pair (trace_from c cfg sched).
Proof. unfold returned, run_from. rewrite map_map. reflexivity. Qed.

Theorem unique_from c cfg sched : NoDup (returned (run_from c cfg sched)).
Proof.
  rewrite returned_run_from. unfold trace_from. rewrite map_rev. apply NoDup_rev.
  exact (proj1 (exec_inv sched _ (init_inv c cfg))).
Qed.

Theorem unique cfg sched : NoDup (returned (run cfg sched)).
Proof. apply unique_from. Qed.

Theorem unique_all cfg sched : NoDup (returned (run_all cfg sched)).
Proof. apply unique_from. Qed.

(* ---------- non-overlapping calls ---------- *)
Definition qstate (c : cell) (cfg : config) (out : list ret) : gstate :=
  mk_g None c (map (mk_thread Idle) cfg) out.

Lemma step_pair c cfg out t :
  exec (qstate c cfg out) [t; t] =
  match nth_error cfg t with
  | Some (reading :: rest) =>
      let p := critical c reading in
      qstate (Some p) (set_nth cfg t rest) (mk_ret t reading (fst p) (snd p) :: out)
  | _ => qstate c cfg out
  end.
Proof.
  unfold exec. cbn [fold_left].
  assert (E1 : nth_error (g_threads (qstate c cfg out)) t = option_map (mk_thread Idle) (nth_error cfg t))
    by (cbn [qstate g_threads]; apply nth_error_map).
  destruct (nth_error cfg t) as [[|reading rest]|] eqn:Ecfg; cbn [option_map] in E1.
  - assert (Es : step (qstate c cfg out) t = qstate c cfg out) by (unfold step; rewrite E1; reflexivity).
    rewrite Es. exact Es.
  - assert (Es : step (qstate c cfg out) t =
                 mk_g None c (set_nth (map (mk_thread Idle) cfg) t (mk_thread (AtLock reading) rest)) out)
      by (unfold step; rewrite E1; reflexivity).
    rewrite Es. unfold step at 1. cbn [g_threads g_holder g_cell g_out].
    rewrite (nth_error_set_nth_same _ _ _ _ E1). cbn [t_pc t_pending].
    rewrite set_nth_set_nth. unfold qstate. rewrite map_set_nth. reflexivity.
  - assert (Es : step (qstate c cfg out) t = qstate c cfg out) by (unfold step; rewrite E1; reflexivity).
    rewrite Es. exact Es.
Qed.

(* what non-overlapping calls return: each call applies the critical section to the pair left by the
   previous one *)
Fixpoint seq_spec (c : cell) (cfg : config) (order : list tid) : list ret :=
  match order with
  | [] => []
  | t :: o =>
      match nth_error cfg t with
      | Some (reading :: rest) =>
          let p := critical c reading in
          mk_ret t reading (fst p) (snd p) :: seq_spec (Some p) (set_nth cfg t rest) o
      | _ => seq_spec c cfg o
      end
  end.

Lemma exec_app s a b : exec s (a ++ b) = exec (exec s a) b.
Proof. unfold exec. apply fold_left_app. Qed.

Lemma exec_non_overlapping order : forall c cfg out,
  g_out (exec (qstate c cfg out) (non_overlapping order)) = rev (seq_spec c cfg order) ++ out.
Proof.
  induction order as [|t o IH]; intros c cfg out; [reflexivity|].
  change (non_overlapping (t :: o)) with ([t; t] ++ non_overlapping o).
  rewrite exec_app, step_pair. cbn [seq_spec].
  destruct (nth_error cfg t) as [[|reading rest]|]; try apply IH.
  cbv zeta. rewrite IH. cbn [rev]. rewrite <- app_assoc. reflexivity.
Qed.

Lemma trace_non_overlapping c cfg order : trace_from c cfg (non_overlapping order) = seq_spec c cfg order.
Proof.
  unfold trace_from. change (init_from c cfg) with (qstate c cfg []).
  rewrite exec_non_overlapping, app_nil_r. apply rev_involutive.
Qed.

Fixpoint chain (c : cell) (l : list ret) : Prop :=
  match l with
  | [] => True
  | r :: l' => ret_pair r = critical c (r_reading r) /\ chain (Some (ret_pair r)) l'
  end.

Lemma seq_spec_chain order : forall c cfg, chain c (seq_spec c cfg order).
Proof.
  induction order as [|t o IH]; intros c cfg; cbn [seq_spec chain]; [exact I|].
  destruct (nth_error cfg t) as [[|reading rest]|]; try apply IH.
  cbv zeta. cbn [chain r_reading].
  assert (Hp : ret_pair (mk_ret t reading (fst (critical c reading)) (snd (critical c reading))) = critical c reading)
    by (unfold ret_pair; cbn; destruct (critical c reading); reflexivity).
  rewrite Hp. split; [reflexivity|apply IH].
Qed.

Lemma chain_adjacent pre : forall c a b post,
  chain c (pre ++ a :: b :: post) -> ret_pair b = critical (Some (ret_pair a)) (r_reading b).
Proof.
  induction pre as [|x pre IH]; intros c a b post H; cbn [app chain] in H.
  - exact (proj1 (proj2 H)).
  - exact (IH _ _ _ _ (proj2 H)).
Qed.

Theorem sequential c cfg order pre a b post :
  trace_from c cfg (non_overlapping order) = pre ++ a :: b :: post ->
  (r_reading b <= r_time a -> r_time b = r_time a /\ r_seq b = r_seq a + 1) /\
  (r_time a < r_reading b -> r_time b = r_reading b /\ r_seq b = 0).
Proof.
  intros H. rewrite trace_non_overlapping in H.
  pose proof (seq_spec_chain order c cfg) as Hc. rewrite H in Hc. apply chain_adjacent in Hc.
  unfold ret_pair, critical in Hc. cbn [fst snd] in Hc.
  destruct (r_reading b <=? r_time a) eqn:E; [apply N.leb_le in E|apply N.leb_gt in E];
    injection Hc as -> ->; split; intros; try lia; split; reflexivity.
Qed.

Theorem sequential_first cfg order a post :
  trace cfg (non_overlapping order) = a :: post -> r_time a = r_reading a /\ r_seq a = 0.
Proof.
  unfold trace. intros H. rewrite trace_non_overlapping in H.
  pose proof (seq_spec_chain order None cfg) as Hc. rewrite H in Hc. destruct Hc as [Hc _].
  unfold ret_pair, critical in Hc. injection Hc as -> ->. split; reflexivity.
Qed.

Lemma seq_spec_calls order : forall c cfg,
  map (fun r => (r_tid r, r_reading r)) (seq_spec c cfg order) = dispatch cfg order.
Proof.
  induction order as [|t o IH]; intros c cfg; cbn [seq_spec dispatch map]; [reflexivity|].
  destruct (nth_error cfg t) as [[|reading rest]|]; try apply IH.
  cbv zeta. cbn [map r_tid r_reading]. f_equal. apply IH.
Qed.

Theorem sequential_calls c cfg order :
  map (fun r => (r_tid r, r_reading r)) (trace_from c cfg (non_overlapping order)) = dispatch cfg order.
Proof. rewrite trace_non_overlapping. apply seq_spec_calls. Qed.

(* ---------- the pinned two-atomics code returns duplicates ---------- *)
(* race: thread 0 swaps the new millisecond and is preempted before resetting the counter; thread 1, in
   the same millisecond, takes the counter value 0; thread 0 resets the counter and takes 0 as well *)
Definition race_cfg : config := [[1000]; [1000]].
Definition race_sched : list tid := [0; 0; 1; 1; 1; 0; 0]%nat.
(* the schedule executed on the real code by design_probes/sched_proto (A = 0, B = 1, T = 1000) *)
Definition race2_cfg : config := [[1001]; [1000; 1000; 1001; 1001; 1001]].
Definition race2_sched : list tid := [1;1;1;1; 1;1;1; 0;0; 1;1;1; 0;0; 1;1;1; 1;1;1]%nat.
(* one thread, clock stepping back: T-1, T, T-1 *)
Definition stepback_cfg : config := [[999; 1000; 999]].
Definition stepback_sched : list tid := [0;0;0;0; 0;0;0;0; 0;0;0;0]%nat.

Lemma pinned_race_dup : pinned_run race_cfg race_sched = [(1%nat, 1000, 0); (0%nat, 1000, 0)].
Proof. vm_compute. reflexivity. Qed.
Lemma pinned_race2_dup : nodup_pairs (returned (pinned_run race2_cfg race2_sched)) = false.
Proof. vm_compute. reflexivity. Qed.
Lemma pinned_stepback_dup :
  pinned_run stepback_cfg stepback_sched = [(0%nat, 999, 0); (0%nat, 1000, 0); (0%nat, 999, 0)].
Proof. vm_compute. reflexivity. Qed.

Lemma nodup_pairs_sound l : NoDup l -> nodup_pairs l = true.
Proof.
  induction 1 as [|p l Hnin Hnd IH]; [reflexivity|]. cbn [nodup_pairs]. rewrite IH, andb_true_r.
  apply negb_true_iff. destruct (existsb (pair_eqb p) l) eqn:E; [|reflexivity].
  apply existsb_exists in E as [q [Hin Hq]]. unfold pair_eqb in Hq.
  apply andb_true_iff in Hq as [H1 H2]. apply N.eqb_eq in H1, H2.
  destruct p, q; cbn [fst snd] in *; subst. contradiction.
Qed.

Theorem pinned_refuted :
  (exists cfg sched, ~ NoDup (returned (pinned_run cfg sched))) /\
  (exists readings sched, ~ NoDup (returned (pinned_run [readings] sched))).
Proof.
  split.
  - exists race_cfg, race_sched. intros H. apply nodup_pairs_sound in H. rewrite pinned_race_dup in H. discriminate H.
  - exists [999; 1000; 999], stepback_sched. intros H. apply nodup_pairs_sound in H.
    change [[999; 1000; 999]] with stepback_cfg in H. rewrite pinned_stepback_dup in H. discriminate H.
Qed.

(* the same configurations and schedules on the repaired model *)
Lemma repaired_race : run_all race_cfg race_sched = [(0%nat, 1000, 0); (1%nat, 1000, 1)].
Proof. vm_compute. reflexivity. Qed.
Lemma repaired_stepback :
  run_all stepback_cfg stepback_sched = [(0%nat, 999, 0); (0%nat, 1000, 0); (0%nat, 1000, 1)].
Proof. vm_compute. reflexivity. Qed.

(* a 2-thread interleaving of the repaired model: four calls, four distinct pairs *)
Definition ex_cfg : config := [[1000; 1001]; [1000; 1000]].
Definition ex_sched : list tid := [0; 1; 1; 0; 1; 0; 0; 1]%nat.
Lemma ex_run : run ex_cfg ex_sched = [(1%nat, 1000, 0); (0%nat, 1000, 1); (0%nat, 1001, 0); (1%nat, 1001, 1)].
Proof. vm_compute. reflexivity. Qed.

(* ---------- every call returns: a completed schedule yields one pair per call ---------- *)
Local Open Scope nat_scope.
Definition in_call (th : thread) : nat := match t_pc th with Idle => 0 | AtLock _ => 1 end.
Definition owed (th : thread) : nat := length (t_pending th) + in_call th.        (* calls not yet returned *)
Definition left (th : thread) : nat := 2 * length (t_pending th) + in_call th.    (* grants still needed *)
Definition left_at (s : gstate) (u : tid) : nat :=
  match nth_error (g_threads s) u with Some th => left th | None => 0 end.
Definition total (s : gstate) : nat := length (g_out s) + list_sum (map owed (g_threads s)).

Lemma list_sum_cons a l : list_sum (a :: l) = a + list_sum l.
Proof. reflexivity. Qed.
Lemma list_sum_set_nth {A} (f : A -> nat) (l : list A) i a x :
  nth_error l i = Some a -> list_sum (map f (set_nth l i x)) + f a = list_sum (map f l) + f x.
Proof.
  revert i; induction l as [|b l IH]; intros [|i] H; cbn [set_nth map nth_error] in *; try discriminate;
    rewrite !list_sum_cons.
  - injection H as ->. lia.
  - specialize (IH _ H). lia.
Qed.

Lemma step_free s t : g_holder s = None -> g_holder (step s t) = None.
Proof.
  intros H. unfold step. destruct (nth_error (g_threads s) t) as [th|]; [|exact H].
  destruct (t_pc th); [destruct (t_pending th); exact H|]. rewrite H. reflexivity.
Qed.

Lemma step_total s t : g_holder s = None -> total (step s t) = total s.
Proof.
  intros H. unfold step. destruct (nth_error (g_threads s) t) as [th|] eqn:E; [|reflexivity].
  destruct th as [pc0 pend]. cbn [t_pc t_pending]. destruct pc0 as [|reading].
  - destruct pend as [|reading rest]; [reflexivity|]. unfold total. cbn [g_out g_threads].
    pose proof (list_sum_set_nth owed _ _ _ (mk_thread (AtLock reading) rest) E) as Hs.
    unfold owed at 2 4 in Hs. unfold in_call in Hs. cbn [t_pc t_pending length] in Hs. lia.
  - rewrite H. unfold total. cbn [g_out g_threads length].
    pose proof (list_sum_set_nth owed _ _ _ (mk_thread Idle pend) E) as Hs.
    unfold owed at 2 4 in Hs. unfold in_call in Hs. cbn [t_pc t_pending length] in Hs. lia.
Qed.

Lemma step_left_self s t : g_holder s = None -> left_at (step s t) t = pred (left_at s t).
Proof.
  intros H. unfold left_at at 2. unfold step. destruct (nth_error (g_threads s) t) as [th|] eqn:E.
  2:{ unfold left_at. rewrite E. reflexivity. }
  destruct th as [pc0 pend]. cbn [t_pc t_pending]. destruct pc0 as [|reading].
  - destruct pend as [|reading rest]; [unfold left_at; rewrite E; reflexivity|].
    unfold left_at. cbn [g_threads]. rewrite (nth_error_set_nth_same _ _ _ _ E).
    unfold left, in_call. cbn [t_pc t_pending length]. lia.
  - rewrite H. unfold left_at. cbn [g_threads]. rewrite (nth_error_set_nth_same _ _ _ _ E).
    unfold left, in_call. cbn [t_pc t_pending]. lia.
Qed.

Lemma step_left_other s t u : t <> u -> left_at (step s t) u = left_at s u.
Proof.
  intros Hne. unfold step. destruct (nth_error (g_threads s) t) as [th|]; [|reflexivity].
  destruct (t_pc th).
  - destruct (t_pending th); [reflexivity|]. unfold left_at. cbn [g_threads].
    rewrite nth_error_set_nth_other by exact Hne. reflexivity.
  - destruct (g_holder s); [reflexivity|]. unfold left_at. cbn [g_threads].
    rewrite nth_error_set_nth_other by exact Hne. reflexivity.
Qed.

Lemma step_left_le s t u : g_holder s = None -> (left_at (step s t) u <= left_at s u)%nat.
Proof.
  intros H. destruct (Nat.eq_dec t u) as [->|Hne].
  - rewrite step_left_self by exact H. lia.
  - rewrite step_left_other by exact Hne. lia.
Qed.

Lemma step_threads_length s t : length (g_threads (step s t)) = length (g_threads s).
Proof.
  unfold step. destruct (nth_error (g_threads s) t) as [th|]; [|reflexivity].
  destruct (t_pc th).
  - destruct (t_pending th); [reflexivity|]. cbn [g_threads]. apply set_nth_length.
  - destruct (g_holder s); [reflexivity|]. cbn [g_threads]. apply set_nth_length.
Qed.

Lemma exec_free sched : forall s, g_holder s = None -> g_holder (exec s sched) = None.
Proof.
  unfold exec. induction sched as [|t sched IH]; intros s H; cbn [fold_left]; [exact H|]. apply IH, step_free, H.
Qed.
Lemma exec_total sched : forall s, g_holder s = None -> total (exec s sched) = total s.
Proof.
  unfold exec. induction sched as [|t sched IH]; intros s H; cbn [fold_left]; [reflexivity|].
  rewrite IH by (apply step_free, H). apply step_total, H.
Qed.
Lemma exec_left_le sched : forall s u, g_holder s = None -> (left_at (exec s sched) u <= left_at s u)%nat.
Proof.
  unfold exec. induction sched as [|t sched IH]; intros s u H; cbn [fold_left]; [lia|].
  etransitivity; [apply IH, step_free, H|apply step_left_le, H].
Qed.
Lemma exec_threads_length sched : forall s, length (g_threads (exec s sched)) = length (g_threads s).
Proof.
  unfold exec. induction sched as [|t sched IH]; intros s; cbn [fold_left]; [reflexivity|].
  rewrite IH. apply step_threads_length.
Qed.

(* k consecutive calls' worth of grants to thread t *)
Lemma exec_repeat_self k t : forall s, g_holder s = None ->
  left_at (exec s (non_overlapping (repeat t k))) t = (left_at s t - 2 * k)%nat.
Proof.
  induction k as [|k IH]; intros s H; cbn [repeat non_overlapping flat_map app]; [unfold exec; cbn; lia|].
  change (t :: t :: flat_map (fun t0 => [t0; t0]) (repeat t k)) with ([t; t] ++ non_overlapping (repeat t k)).
  rewrite exec_app. rewrite IH by (apply exec_free, H).
  unfold exec at 1. cbn [fold_left].
  rewrite step_left_self by (apply step_free, H). rewrite step_left_self by exact H. lia.
Qed.

Lemma non_overlapping_app a b : non_overlapping (a ++ b) = non_overlapping a ++ non_overlapping b.
Proof. unfold non_overlapping. apply flat_map_app. Qed.

Lemma drain_from cfg' : forall t0 s, g_holder s = None ->
  (forall i, left_at s (t0 + i) <= 2 * length (nth i cfg' []))%nat ->
  forall i, (i < length cfg')%nat ->
  left_at (exec s (non_overlapping (drain_order_from t0 cfg'))) (t0 + i) = O.
Proof.
  induction cfg' as [|calls rest IH]; intros t0 s H Hle i Hi; cbn [length] in Hi; [lia|].
  cbn [drain_order_from]. rewrite non_overlapping_app, exec_app.
  set (s1 := exec s (non_overlapping (repeat t0 (length calls)))).
  assert (H1 : g_holder s1 = None) by (apply exec_free, H).
  destruct i as [|i].
  - apply Nat.le_0_r. etransitivity; [apply exec_left_le, H1|].
    unfold s1. rewrite Nat.add_0_r. rewrite exec_repeat_self by exact H.
    specialize (Hle O). rewrite Nat.add_0_r in Hle. cbn [nth] in Hle. lia.
  - replace (t0 + S i)%nat with (S t0 + i)%nat by lia. apply IH; [exact H1| |lia].
    intros j. etransitivity; [apply exec_left_le, H|].
    specialize (Hle (S j)). cbn [nth] in Hle. replace (S t0 + j)%nat with (t0 + S j)%nat by lia. exact Hle.
Qed.

Lemma init_left c cfg u : left_at (init_from c cfg) u = (2 * length (nth u cfg []))%nat.
Proof.
  unfold left_at, init_from. cbn [g_threads]. rewrite nth_error_map.
  destruct (nth_error cfg u) as [calls|] eqn:E; cbn [option_map].
  - rewrite (nth_error_nth _ _ _ E). unfold left, in_call. cbn. lia.
  - apply nth_error_None in E. rewrite nth_overflow by exact E. reflexivity.
Qed.

Lemma list_sum_owed_zero ths :
  (forall u, (u < length ths)%nat -> match nth_error ths u with Some th => left th | None => O end = O) ->
  list_sum (map owed ths) = O.
Proof.
  induction ths as [|th ths IH]; intros H; [reflexivity|]. cbn [map]. rewrite list_sum_cons.
  pose proof (H O ltac:(cbn; lia)) as H0. cbn [nth_error] in H0.
  rewrite IH.
  - unfold left in H0. unfold owed. lia.
  - intros u Hu. exact (H (S u) ltac:(cbn; lia)).
Qed.

Lemma init_total c cfg : total (init_from c cfg) = total_calls cfg.
Proof.
  unfold total, init_from, total_calls. cbn [g_out g_threads length]. rewrite map_map. rewrite Nat.add_0_l.
  induction cfg as [|calls cfg IH]; [reflexivity|]. cbn [map concat]. rewrite list_sum_cons.
  rewrite app_length, IH. unfold owed, in_call. cbn [t_pc t_pending]. lia.
Qed.

Theorem complete_from c cfg sched : length (run_from c cfg (sched ++ drain cfg)) = total_calls cfg.
Proof.
  unfold run_from, trace_from. rewrite map_length, rev_length, exec_app.
  set (s := exec (init_from c cfg) sched).
  assert (H : g_holder s = None) by (apply exec_free; reflexivity).
  set (s' := exec s (drain cfg)).
  assert (Ht : total s' = total_calls cfg).
  { unfold s'. rewrite exec_total by exact H. unfold s. rewrite exec_total by reflexivity. apply init_total. }
  unfold total in Ht. rewrite list_sum_owed_zero in Ht; [lia|].
  intros u Hu. fold (left_at s' u).
  assert (Hlen : length (g_threads s') = length cfg).
  { unfold s', s. rewrite !exec_threads_length. unfold init_from. cbn [g_threads]. apply map_length. }
  rewrite Hlen in Hu. unfold s', drain, drain_order.
  change u with (0 + u)%nat. apply drain_from; [exact H| |exact Hu].
  intros i. cbn [Nat.add]. etransitivity; [apply exec_left_le; reflexivity|]. rewrite init_left. lia.
Qed.

Theorem complete cfg sched : length (run_all cfg sched) = total_calls cfg.
Proof. apply complete_from. Qed.

Theorem complete_unique cfg sched :
  length (run_all cfg sched) = total_calls cfg /\ NoDup (returned (run_all cfg sched)).
Proof. split; [apply complete|apply unique_all]. Qed.
