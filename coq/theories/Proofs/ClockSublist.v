(* An entry point may draw several fresh timestamps per call and hand out only some of them (helpers::rnd_bundle draws one inside
   new_std_payload_bundle, overwrites it with the one its caller drew; ffi::helper_rnd_bundle does the same): what is handed out is a
   subsequence of what the generator returned, and a subsequence of a duplicate-free sequence is duplicate-free. *)
From BP7 Require Import Base.Prelude Model.Clock Proofs.ClockProofs.

Inductive subseq {A} : list A -> list A -> Prop :=
| subseq_nil : subseq [] []
| subseq_skip x l l' : subseq l l' -> subseq l (x :: l')
| subseq_keep x l l' : subseq l l' -> subseq (x :: l) (x :: l').

Lemma subseq_in {A} (l l' : list A) x : subseq l l' -> In x l -> In x l'.
Proof.
  intros H. induction H as [|y l l' H IH|y l l' H IH]; intros Hin.
  - exact Hin.
  - right. apply IH. exact Hin.
  - destruct Hin as [->|Hin]; [left; reflexivity|right; apply IH; exact Hin].
Qed.
Lemma subseq_nodup {A} (l l' : list A) : subseq l l' -> NoDup l' -> NoDup l.
Proof.
  intros H. induction H as [|y l l' H IH|y l l' H IH]; intros Hn.
  - constructor.
  - inversion Hn; subst. apply IH. assumption.
  - inversion Hn as [|? ? Hnot Hrest]; subst. constructor; [|apply IH; assumption].
    intros Hin. apply Hnot. eapply subseq_in; eassumption.
Qed.
Lemma subseq_refl {A} (l : list A) : subseq l l.
Proof. induction l; constructor; assumption. Qed.

Theorem handed_out_unique (c : cell) (cfg : config) (sched : list tid) l :
  subseq l (returned (run_from c cfg sched)) -> NoDup l.
Proof. intros H. eapply subseq_nodup; [exact H|apply unique_from]. Qed.
Theorem handed_out_unique_all (cfg : config) (sched : list tid) l :
  subseq l (returned (run_all cfg sched)) -> NoDup l.
Proof. intros H. eapply subseq_nodup; [exact H|apply complete_unique]. Qed.
