(* decode (encode x) = x for every well-formed value, bottom-up: integers, EIDs, timestamps, primary
   block (8/9/10/11 elements), canonical block (nested block data), the indefinite outer array. *)
From BP7 Require Import Base.Prelude Base.Utf8 Gen.Consts Cbor.Item Cbor.SerdeDe Spec.CrcSpec.
From BP7 Require Import Model.Types Model.Encode Model.Decode Model.Wf Proofs.CborLemmas.

Ltac ground_rw t :=
  let v := eval vm_compute in t in
  let H := fresh "Hg" in assert (H : t = v) by (vm_compute; reflexivity); rewrite !H; clear H.
Ltac is_cpos p := lazymatch p with xH => idtac | xO ?q => is_cpos q | xI ?q => is_cpos q end.
Ltac is_cN n := lazymatch n with N0 => idtac | Npos ?p => is_cpos p end.
Ltac ground_N :=
  repeat match goal with
  | |- context [N.sub ?a ?b] => is_cN a; is_cN b; ground_rw (N.sub a b)
  | |- context [N.eqb ?a ?b] => is_cN a; is_cN b; ground_rw (N.eqb a b)
  | |- context [N.ltb ?a ?b] => is_cN a; is_cN b; ground_rw (N.ltb a b)
  end.

Ltac bools H :=
  repeat match type of H with
  | _ && _ = true => let H1 := fresh H in apply andb_true_iff in H as [H H1]; bools H; bools H1
  end.
Ltac nat_facts :=
  repeat match goal with
  | H : (_ <? _) = true |- _ => apply N.ltb_lt in H
  | H : (_ <=? _) = true |- _ => apply N.leb_le in H
  | H : (_ =? _) = true |- _ => apply N.eqb_eq in H
  | H : negb _ = true |- _ => apply negb_true_iff in H
  | H : (_ =? _) = false |- _ => apply N.eqb_neq in H
  end.

Lemma p_u64_ok f n r d : n < two64 -> p_u64 (S f) (mkst (enc_uint n ++ r) d) = (Ok n, mkst r d).
Proof. intros. apply parse_uint_ok; assumption. Qed.
Lemma p_u32_ok f n r d : n < 4294967296 -> p_u32 (S f) (mkst (enc_uint n ++ r) d) = (Ok n, mkst r d).
Proof. intros. apply parse_uint_ok; [assumption|unfold two64; lia]. Qed.
Lemma p_u8_ok f n r d : n < 256 -> p_u8 (S f) (mkst (enc_uint n ++ r) d) = (Ok n, mkst r d).
Proof. intros. apply parse_uint_ok; [assumption|unfold two64; lia]. Qed.
Lemma p_bytebuf_ok f x r d : Nlen x < two64 -> p_bytebuf (S f) (mkst (enc_bytes x ++ r) d) = (Ok x, mkst r d).
Proof. intros. apply parse_bytebuf_ok; assumption. Qed.

Lemma p_pair_ok b1 b2 f x y r d : x < b1 -> y < b2 -> x < two64 -> y < two64 -> 2 <= d ->
  p_pair b1 b2 (S f) (mkst ((enc_arr 2 ++ enc_uint x ++ enc_uint y) ++ r) d) = (Ok (x, y), mkst r d).
Proof.
  intros Hx Hy Hx' Hy' Hd. unfold p_pair, enc_arr. rewrite <- !app_assoc.
  apply parse_seq_array_ok; [unfold two64; lia|assumption|].
  unfold pair_body.
  erewrite field_def; [|discriminate|apply parse_uint_ok; assumption]. ground_N.
  erewrite field_def; [|discriminate|apply parse_uint_ok; assumption]. ground_N.
  reflexivity.
Qed.

Theorem p_eid_ok f e r d : wf_eid e = true -> 3 <= d ->
  p_eid (S f) (mkst (enc_eid e ++ r) d) = (Ok e, mkst r d).
Proof.
  intros Hwf Hd. unfold p_eid, enc_eid, enc_arr. rewrite <- !app_assoc.
  apply parse_seq_array_ok; [unfold two64; lia|lia|].
  unfold eid_body.
  destruct e as [c s|c a|c n sv]; cbn [wf_eid] in Hwf; bools Hwf; nat_facts; subst;
    unfold ENDPOINT_URI_SCHEME_DTN, ENDPOINT_URI_SCHEME_IPN in *; rewrite <- ?app_assoc.
  - erewrite field_def; [|discriminate|apply p_u8_ok; lia]. ground_N.
    erewrite next_def; [|discriminate|].
    2:{ unfold enc_text. apply parse_text_ok; assumption. }
    destruct s; [discriminate|]. reflexivity.
  - (* dtn:none = [1, 0]: the 0 is rejected by the String visitor and the error is swallowed *)
    erewrite field_def; [|discriminate|apply p_u8_ok; lia]. ground_N.
    unfold next_element. ground_N. unfold enc_uint. rewrite parse_value_head by (unfold two64; lia).
    cbv zeta. ground_N. cbn [v_uint vis_string rmap bind]. reflexivity.
  - erewrite field_def; [|discriminate|apply p_u8_ok; lia]. ground_N.
    erewrite field_def; [|discriminate|].
    2:{ rewrite !app_assoc. rewrite <- (app_assoc (head 4 2)). apply p_pair_ok; try assumption; lia. }
    cbn [fst snd]. assert (n <? 1 = false) as -> by (apply N.ltb_ge; lia). reflexivity.
Qed.

Lemma p_ts_ok f t q r d : t < two64 -> q < two64 -> 2 <= d ->
  p_pair two64 two64 (S f) (mkst ((enc_arr 2 ++ enc_uint t ++ enc_uint q) ++ r) d) = (Ok (t, q), mkst r d).
Proof. intros. apply p_pair_ok; assumption. Qed.

Lemma p_ts_ok' f t q r d : t < two64 -> q < two64 -> 2 <= d ->
  p_pair two64 two64 (S f) (mkst (head 4 2 ++ enc_uint t ++ enc_uint q ++ r) d) = (Ok (t, q), mkst r d).
Proof.
  intros. replace (head 4 2 ++ enc_uint t ++ enc_uint q ++ r) with ((enc_arr 2 ++ enc_uint t ++ enc_uint q) ++ r)
    by (unfold enc_arr; rewrite <- !app_assoc; reflexivity).
  apply p_pair_ok; assumption.
Qed.

Lemma crc_filled_wf c : crc_filled c = true -> wf_crc c = true.
Proof. destruct c; cbn; auto; discriminate. Qed.

(* the CRC field after the other elements, by CRC type *)
Lemma crc_field_ok {B} f c r d (k : crc_value -> seq_access -> st -> res B * seq_access * st) :
  crc_filled c = true ->
  crc_field (S f) (crc_code c) (Definite (if has_crc c then 1 else 0)) (mkst (enc_crc_field c ++ r) d) k
  = k c (Definite 0) (mkst r d).
Proof.
  intros Hc. unfold crc_field, enc_crc_field.
  destruct c as [| | |b|b|code]; cbn [crc_filled] in Hc; try discriminate; cbn [has_crc crc_code crc_bytes];
    unfold CRC_NO, CRC_16, CRC_32; ground_N.
  - reflexivity.
  - erewrite field_def; [|discriminate|apply p_bytebuf_ok].
    2:{ unfold Nlen. apply Nat.eqb_eq in Hc. rewrite Hc. unfold two64. lia. }
    rewrite Hc. ground_N. reflexivity.
  - erewrite field_def; [|discriminate|apply p_bytebuf_ok].
    2:{ unfold Nlen. apply Nat.eqb_eq in Hc. rewrite Hc. unfold two64. lia. }
    rewrite Hc. ground_N. reflexivity.
Qed.

Ltac fld L := erewrite field_def; [|discriminate|L]; ground_N.

Theorem p_primary_ok f p r d : wf_primary p = true -> crc_filled (p_crc p) = true -> 5 <= d ->
  p_primary (S f) (mkst (enc_primary p ++ r) d) = (Ok p, mkst r d).
Proof.
  intros Hwf Hc Hd. unfold p_primary, enc_primary, enc_arr. rewrite <- ?app_assoc.
  destruct p as [ver flags crc dst src rpt t q life off len].
  unfold wf_primary in Hwf. cbn [p_version p_flags p_crc p_dst p_src p_rpt p_time p_seq p_lifetime p_frag_off p_total_len] in *.
  bools Hwf. nat_facts.
  apply parse_seq_array_ok; [unfold primary_num_elems; destruct (has_crc _), (has_fragmentation _); unfold two64; lia|lia|].
  unfold primary_body, primary_num_elems. cbn [p_crc].
  assert (Hcode : crc_code crc < 256) by (destruct crc; cbn in *; try discriminate; unfold CRC_NO, CRC_16, CRC_32; lia).
  set (frag := has_fragmentation (mkprimary ver flags crc dst src rpt t q life off len)) in *.
  destruct (has_crc crc) eqn:Ecrc; destruct frag eqn:Efrag;
    (fld ltac:(apply p_u32_ok; assumption));
    (fld ltac:(apply p_u64_ok; assumption));
    (fld ltac:(apply p_u8_ok; assumption));
    (fld ltac:(apply p_eid_ok; [assumption|lia]));
    (fld ltac:(apply p_eid_ok; [assumption|lia]));
    (fld ltac:(apply p_eid_ok; [assumption|lia]));
    (fld ltac:(apply p_ts_ok'; [assumption|assumption|lia]));
    (fld ltac:(apply p_u64_ok; assumption));
    cbn [size_hint]; ground_N; rewrite <- ?app_assoc.
  - (* crc, fragment: 11 *)
    fld ltac:(apply p_u64_ok; assumption). fld ltac:(apply p_u64_ok; assumption).
    pose proof (@crc_field_ok primary f crc r (d - 1)) as Hcf. rewrite Ecrc in Hcf. rewrite Hcf by assumption. reflexivity.
  - (* crc, no fragment: 9 *)
    cbn [app].
    pose proof (@crc_field_ok primary f crc r (d - 1)) as Hcf. rewrite Ecrc in Hcf. rewrite Hcf by assumption.
    cbn [orb] in *. match goal with H : (_ =? 0) && (_ =? 0) = true |- _ => bools H end. nat_facts. subst. reflexivity.
  - (* no crc, fragment: 10 *)
    fld ltac:(apply p_u64_ok; assumption). fld ltac:(apply p_u64_ok; assumption).
    pose proof (@crc_field_ok primary f crc r (d - 1)) as Hcf. rewrite Ecrc in Hcf. rewrite Hcf by assumption. reflexivity.
  - (* no crc, no fragment: 8 *)
    cbn [app].
    pose proof (@crc_field_ok primary f crc r (d - 1)) as Hcf. rewrite Ecrc in Hcf. rewrite Hcf by assumption.
    cbn [orb] in *. match goal with H : (_ =? 0) && (_ =? 0) = true |- _ => bools H end. nat_facts. subst. reflexivity.
Qed.

(* block-type-specific data: what the encoder wraps in the byte string, and its nested decoding *)
Definition raw_of (d : cdata) : list byte :=
  match d with Data b => b | Unknown b => b | d => enc_cdata d end.
Lemma enc_canonical_raw c : enc_canonical c =
  enc_arr (if has_crc (c_crc c) then 6 else 5) ++ enc_uint (c_type c) ++ enc_uint (c_num c) ++ enc_uint (c_flags c) ++
  enc_uint (crc_code (c_crc c)) ++ enc_bytes (raw_of (c_data c)) ++ enc_crc_field (c_crc c).
Proof. unfold enc_canonical, raw_of. destruct (c_data c); reflexivity. Qed.

Lemma from_slice_ok {A} (p : nat -> st -> res A * st) bs a :
  (forall f, p (S f) (mkst (bs ++ []) 128) = (Ok a, mkst [] 128)) -> from_slice p bs = Ok a.
Proof. intros H. unfold from_slice. rewrite <- (app_nil_r bs) at 2. rewrite H. reflexivity. Qed.

Lemma decode_cdata_ok ty d : wf_data ty d = true -> decode_cdata ty (raw_of d) = Ok d.
Proof.
  intros Hwf. unfold decode_cdata.
  destruct d as [l c|b|a|e|b|]; cbn [wf_data raw_of] in *; try discriminate; bools Hwf; nat_facts; subst;
    unfold PAYLOAD_BLOCK, BUNDLE_AGE_BLOCK, HOP_COUNT_BLOCK, PREVIOUS_NODE_BLOCK in *; ground_N.
  - (* hop count *)
    rewrite (from_slice_ok (p_pair u8_bound u8_bound) _ (l, c)); [reflexivity|].
    intros f. cbn [enc_cdata]. apply p_pair_ok; unfold u8_bound, two64; lia.
  - reflexivity.
  - rewrite (from_slice_ok p_u64 _ a); [reflexivity|]. intros f. cbn [enc_cdata]. apply p_u64_ok. assumption.
  - rewrite (from_slice_ok p_eid _ e); [reflexivity|]. intros f. cbn [enc_cdata]. apply p_eid_ok; [assumption|lia].
  - repeat match goal with H : ?ty <> _ |- _ => apply N.eqb_neq in H; rewrite H; clear H end. reflexivity.
Qed.

Lemma raw_len ty d : wf_data ty d = true -> Nlen (raw_of d) < two64.
Proof.
  intros Hwf. destruct d as [l c|b|a|e|b|]; cbn [wf_data raw_of enc_cdata] in *; try discriminate; bools Hwf; nat_facts; try assumption.
  - unfold Nlen, enc_arr, enc_uint, head.
    repeat match goal with |- context [if ?c then _ else _] => destruct c end; cbn [length app be_enc]; unfold two64; lia.
  - unfold Nlen, enc_uint, head.
    repeat match goal with |- context [if ?c then _ else _] => destruct c end; cbn [length app be_enc]; unfold two64; lia.
Qed.

Theorem p_canonical_ok f c r d : wf_canonical c = true -> crc_filled (c_crc c) = true -> 5 <= d ->
  p_canonical (S f) (mkst (enc_canonical c ++ r) d) = (Ok c, mkst r d).
Proof.
  intros Hwf Hc Hd. unfold p_canonical. rewrite enc_canonical_raw. unfold enc_arr. rewrite <- ?app_assoc.
  destruct c as [ty num fl crc data].
  unfold wf_canonical in Hwf. cbn [c_type c_num c_flags c_crc c_data] in *. bools Hwf. nat_facts.
  assert (Hcode : crc_code crc < 256) by (destruct crc; cbn in *; try discriminate; unfold CRC_NO, CRC_16, CRC_32; lia).
  apply parse_seq_array_ok; [destruct (has_crc _); unfold two64; lia|lia|].
  unfold canonical_body.
  pose proof (@crc_field_ok canonical f crc r (d - 1)) as Hcf.
  destruct (has_crc crc) eqn:Ecrc;
    (fld ltac:(apply p_u64_ok; assumption));
    (fld ltac:(apply p_u64_ok; assumption));
    (fld ltac:(apply p_u8_ok; assumption));
    (fld ltac:(apply p_u8_ok; assumption));
    (fld ltac:(apply p_bytebuf_ok; eapply raw_len; eassumption));
    rewrite (decode_cdata_ok ty data) by assumption;
    rewrite Hcf by assumption; reflexivity.
Qed.

(* ---------- the indefinite outer array ---------- *)
Lemma field_indef {A B} (p : st -> res A * st) s b t a s' (k : A -> seq_access -> st -> res B * seq_access * st) :
  inp s = b :: t -> b2n b <> 255 -> p s = (Ok a, s') -> field p Indefinite s k = k a Indefinite s'.
Proof.
  intros Hi Hb Hp. unfold field, next_element. rewrite Hi. apply N.eqb_neq in Hb. rewrite Hb, Hp. reflexivity.
Qed.

Lemma head_small_first m n r : n < 24 -> head m n ++ r = n2b (m * 32 + n) :: r.
Proof. intros H. unfold head. apply N.ltb_lt in H. rewrite H. reflexivity. Qed.

Lemma enc_primary_first p r : exists t, enc_primary p ++ r = n2b (128 + primary_num_elems p) :: t /\ primary_num_elems p <= 11.
Proof.
  unfold enc_primary, enc_arr. rewrite <- !app_assoc.
  assert (H : primary_num_elems p <= 11) by (unfold primary_num_elems; destruct (has_crc _), (has_fragmentation _); lia).
  rewrite head_small_first by lia. eexists. split; [reflexivity|exact H].
Qed.
Lemma enc_canonical_first c r : exists t, enc_canonical c ++ r = n2b (128 + (if has_crc (c_crc c) then 6 else 5)) :: t.
Proof.
  rewrite enc_canonical_raw. unfold enc_arr. rewrite <- !app_assoc.
  rewrite head_small_first by (destruct (has_crc _); lia). eexists. reflexivity.
Qed.

Definition block_ok (c : canonical) : Prop := wf_canonical c = true /\ crc_filled (c_crc c) = true.

Lemma seq_loop_ok pf : forall cs fuel r d, Forall block_ok cs -> (length cs < fuel)%nat -> 5 <= d ->
  seq_loop (p_canonical (S pf)) fuel Indefinite (mkst (concat (map enc_canonical cs) ++ n2b 255 :: r) d)
  = (Ok cs, Indefinite, mkst (n2b 255 :: r) d).
Proof.
  induction cs as [|c cs IH]; intros fuel r d Hall Hf Hd; (destruct fuel as [|f]; [cbn in Hf; lia|]).
  - cbn [map concat app seq_loop next_element inp]. rewrite b2n_n2b by lia. change (255 =? 255) with true. reflexivity.
  - inversion Hall as [|? ? [Hwf Hc] Hrest]; subst. cbn [map concat seq_loop]. rewrite <- app_assoc.
    destruct (enc_canonical_first c (concat (map enc_canonical cs) ++ n2b 255 :: r)) as [t Ht].
    unfold next_element at 1. rewrite Ht. cbn [inp].
    assert (b2n (n2b (128 + (if has_crc (c_crc c) then 6 else 5))) =? 255 = false) as ->.
    { apply N.eqb_neq. rewrite b2n_n2b by (destruct (has_crc _); lia). destruct (has_crc _); lia. }
    rewrite <- Ht. rewrite p_canonical_ok by assumption. cbn [rmap bind].
    rewrite IH; [reflexivity|assumption|cbn in Hf; lia|assumption].
Qed.

Lemma concat_length_ge (cs : list canonical) : (length cs <= length (concat (map enc_canonical cs)))%nat.
Proof.
  induction cs as [|c cs IH]; cbn [map concat length]; [lia|]. rewrite app_length.
  destruct (enc_canonical_first c []) as [t Ht]. rewrite app_nil_r in Ht. rewrite Ht. cbn [length]. lia.
Qed.

Theorem from_cbor_bundle_bytes b : wf_bundle b = true -> crcs_filled b = true -> from_cbor (bundle_bytes b) = Ok b.
Proof.
  intros Hwf Hc. destruct b as [p cs]. unfold wf_bundle, crcs_filled in *. cbn [b_primary b_canonicals] in *.
  apply andb_true_iff in Hwf as [Hwp Hwc]. apply andb_true_iff in Hc as [Hcp Hcc].
  assert (Hall : Forall block_ok cs).
  { rewrite forallb_forall in Hwc, Hcc. apply Forall_forall. intros c Hin. split; [apply Hwc|apply Hcc]; assumption. }
  unfold from_cbor, from_slice, bundle_bytes. cbn [b_primary b_canonicals].
  set (bs := n2b 159 :: _).
  assert (Hlen : (length cs < length bs)%nat).
  { unfold bs. cbn [length]. rewrite !app_length. pose proof (concat_length_ge cs). cbn [length]. lia. }
  set (fuel := S (length bs)). unfold p_bundle.
  unfold bs at 1. unfold fuel at 2. cbn [parse_value inp]. rewrite b2n_n2b by lia.
  change (159 / 32) with 4. change (159 mod 32) with 31.
  change (4 =? 0) with false. change (4 =? 1) with false. change (4 =? 2) with false. change (4 =? 3) with false.
  change (4 =? 4) with true. change (31 =? 31) with true. cbv iota.
  unfold set_inp. cbn [inp depth].
  unfold parse_indef_array, recursion_checked. cbn [inp depth v_seq vis_seq].
  change (128 - 1 =? 0) with false. cbv iota. change (128 - 1) with 127.
  unfold bundle_body.
  destruct (enc_primary_first p (concat (map enc_canonical cs) ++ [n2b 255])) as (t & Ht & Hn).
  erewrite field_indef; [|cbn [inp]; exact Ht| |].
  3:{ unfold fuel. apply p_primary_ok; [assumption|assumption|lia]. }
  2:{ rewrite b2n_n2b by lia. lia. }
  change [n2b 255] with (n2b 255 :: []).
  unfold fuel. rewrite seq_loop_ok; [|assumption|lia|lia].
  cbn [rmap bind inp]. rewrite b2n_n2b by lia. change (255 =? 255) with true. cbv iota.
  unfold set_inp. cbn [inp depth]. reflexivity.
Qed.

(* ---------- CRC recomputation before encoding ---------- *)
Lemma calc_crc_facts enc c : wf_crc c = true ->
  crc_filled (calculate_crc enc c) = true /\ crc_code (calculate_crc enc c) = crc_code c
  /\ has_crc (calculate_crc enc c) = has_crc c.
Proof.
  intros H. unfold calculate_crc.
  destruct c; cbn [wf_crc crc_code] in *; try discriminate; unfold CRC_NO, CRC_16, CRC_32; ground_N;
    cbn [crc_filled crc_code has_crc]; rewrite ?be_enc_length; repeat split; reflexivity.
Qed.
Lemma calc_crc_idem enc c : wf_crc c = true ->
  calculate_crc enc (calculate_crc enc c) = calculate_crc enc c.
Proof.
  intros H. unfold calculate_crc.
  destruct c; cbn [wf_crc crc_code] in *; try discriminate; unfold CRC_NO, CRC_16, CRC_32; ground_N;
    cbn [crc_code]; unfold CRC_NO, CRC_16, CRC_32; ground_N; cbn [reset_crc]; reflexivity.
Qed.

Lemma set_p_crc_twice p c c' : set_p_crc (set_p_crc p c) c' = set_p_crc p c'.
Proof. reflexivity. Qed.
Lemma set_c_crc_twice b c c' : set_c_crc (set_c_crc b c) c' = set_c_crc b c'.
Proof. reflexivity. Qed.
Lemma p_crc_set p c : p_crc (set_p_crc p c) = c. Proof. reflexivity. Qed.
Lemma c_crc_set b c : c_crc (set_c_crc b c) = c. Proof. reflexivity. Qed.

Lemma wf_primary_set p c : wf_primary p = true -> wf_crc c = true -> wf_primary (set_p_crc p c) = true.
Proof.
  intros H Hc. destruct p as [ver flags crc dst src rpt t q life off len]. unfold wf_primary, set_p_crc, has_fragmentation in *.
  cbn [p_version p_flags p_crc p_dst p_src p_rpt p_time p_seq p_lifetime p_frag_off p_total_len] in *.
  bools H. rewrite H, H10, Hc, H8, H7, H6, H5, H4, H3, H2, H1, H0. reflexivity.
Qed.
Lemma wf_canonical_set b c : wf_canonical b = true -> wf_crc c = true -> wf_canonical (set_c_crc b c) = true.
Proof.
  intros H Hc. destruct b as [ty num fl crc data]. unfold wf_canonical, set_c_crc in *. cbn [c_type c_num c_flags c_crc c_data] in *.
  bools H. rewrite H, H3, H2, Hc, H0. reflexivity.
Qed.

Lemma primary_update_facts p : wf_primary p = true ->
  wf_primary (primary_update_crc p) = true /\ crc_filled (p_crc (primary_update_crc p)) = true
  /\ same_but_crc_p p (primary_update_crc p) /\ primary_update_crc (primary_update_crc p) = primary_update_crc p.
Proof.
  intros H. assert (Hc : wf_crc (p_crc p) = true) by (unfold wf_primary in H; bools H; assumption).
  unfold primary_update_crc, primary_calc_crc.
  destruct (calc_crc_facts (fun c => enc_primary (set_p_crc p c)) (p_crc p) Hc) as (Hf & Hcode & Hhas).
  split; [|split; [|split]].
  - apply wf_primary_set; [assumption|apply crc_filled_wf; assumption].
  - rewrite p_crc_set. assumption.
  - split; [reflexivity|]. rewrite p_crc_set. symmetry. assumption.
  - rewrite p_crc_set. rewrite set_p_crc_twice. f_equal.
    exact (calc_crc_idem (fun c => enc_primary (set_p_crc p c)) (p_crc p) Hc).
Qed.
Lemma canonical_update_facts b : wf_canonical b = true ->
  wf_canonical (canonical_update_crc b) = true /\ crc_filled (c_crc (canonical_update_crc b)) = true
  /\ same_but_crc_c b (canonical_update_crc b) /\ canonical_update_crc (canonical_update_crc b) = canonical_update_crc b.
Proof.
  intros H. assert (Hc : wf_crc (c_crc b) = true) by (unfold wf_canonical in H; bools H; assumption).
  unfold canonical_update_crc, canonical_calc_crc.
  destruct (calc_crc_facts (fun c => enc_canonical (set_c_crc b c)) (c_crc b) Hc) as (Hf & Hcode & Hhas).
  split; [|split; [|split]].
  - apply wf_canonical_set; [assumption|apply crc_filled_wf; assumption].
  - rewrite c_crc_set. assumption.
  - split; [reflexivity|]. rewrite c_crc_set. symmetry. assumption.
  - rewrite c_crc_set. rewrite set_c_crc_twice. f_equal.
    exact (calc_crc_idem (fun c => enc_canonical (set_c_crc b c)) (c_crc b) Hc).
Qed.

Lemma bundle_calc_facts b : wf_bundle b = true ->
  let b' := bundle_calculate_crc b in
  wf_bundle b' = true /\ crcs_filled b' = true /\ only_crc_changed b b' /\ bundle_calculate_crc b' = b'.
Proof.
  intros H. destruct b as [p cs]. unfold wf_bundle in H. cbn [b_primary b_canonicals] in H.
  apply andb_true_iff in H as [Hp Hcs]. destruct (primary_update_facts p Hp) as (P1 & P2 & P3 & P4).
  cbv zeta. unfold bundle_calculate_crc, wf_bundle, crcs_filled, only_crc_changed. cbn [b_primary b_canonicals].
  rewrite P1, P2, P4. cbn [andb].
  assert (Hall : forall c, In c cs -> wf_canonical c = true) by (apply forallb_forall; assumption).
  clear Hcs. induction cs as [|c cs IH]; cbn [map forallb].
  - split; [reflexivity|split; [reflexivity|split; [split; [exact P3|constructor]|reflexivity]]].
  - destruct (canonical_update_facts c (Hall c (or_introl eq_refl))) as (C1 & C2 & C3 & C4).
    destruct IH as (I1 & I2 & (_ & I3) & I4); [intros; apply Hall; right; assumption|].
    rewrite C1, C2, C4. cbn [andb].
    split; [exact I1|split; [exact I2|split; [split; [exact P3|constructor; assumption]|]]].
    f_equal. f_equal. injection I4. auto.
Qed.

Theorem to_cbor_roundtrip b : wf_bundle b = true ->
  let '(bs, b') := to_cbor b in
  from_cbor bs = Ok b' /\ only_crc_changed b b' /\ crcs_filled b' = true.
Proof.
  intros H. unfold to_cbor. destruct (bundle_calc_facts b H) as (W & F & O & _).
  split; [apply from_cbor_bundle_bytes; assumption|split; assumption].
Qed.
Theorem to_cbor_idempotent b : wf_bundle b = true ->
  let '(bs, b') := to_cbor b in to_cbor b' = (bs, b').
Proof.
  intros H. unfold to_cbor. destruct (bundle_calc_facts b H) as (_ & _ & _ & I). rewrite I. reflexivity.
Qed.
