(* The second public encoding route: serde's `Serialize for Bundle` (bundle.rs: serialize_seq(Some(1 + canonicals.len()))) writes a
   DEFINITE-length outer array - serde_cbor::to_vec(&bundle), and everything built on it, emits these bytes, while Bundle::to_cbor
   emits the indefinite-length form of RFC 9171.  The decoder accepts both; here: what the serde route emits for a bundle whose
   CRC values are filled in decodes to that bundle, for any number of blocks (the array head has 1, 2, 3, 5 or 9 bytes). *)
From BP7 Require Import Base.Prelude Base.Utf8 Gen.Consts Cbor.Item Cbor.SerdeDe Spec.CrcSpec.
From BP7 Require Import Model.Types Model.Encode Model.Decode Model.Wf Proofs.CborLemmas Proofs.CodecProofs.

Lemma field_def {A B} (p : st -> res A * st) s n a s' (k : A -> seq_access -> st -> res B * seq_access * st) :
  n <> 0 -> p s = (Ok a, s') -> field p (Definite n) s k = k a (Definite (n - 1)) s'.
Proof.
  intros Hn Hp. unfold field, next_element. apply N.eqb_neq in Hn. rewrite Hn, Hp. reflexivity.
Qed.

Lemma seq_loop_def_ok pf : forall cs fuel r d, Forall block_ok cs -> (length cs < fuel)%nat -> 5 <= d ->
  seq_loop (p_canonical (S pf)) fuel (Definite (Nlen cs)) (mkst (concat (map enc_canonical cs) ++ r) d)
  = (Ok cs, Definite 0, mkst r d).
Proof.
  induction cs as [|c cs IH]; intros fuel r d Hall Hf Hd; (destruct fuel as [|f]; [cbn in Hf; lia|]).
  - cbn [map concat app seq_loop next_element]. unfold Nlen. cbn [length]. change (N.of_nat 0 =? 0) with true. reflexivity.
  - inversion Hall as [|? ? [Hwf Hc] Hrest]; subst. cbn [map concat seq_loop]. rewrite <- app_assoc.
    unfold next_element at 1.
    assert (Hz : Nlen (c :: cs) =? 0 = false) by (apply N.eqb_neq; unfold Nlen; cbn [length]; lia).
    rewrite Hz. rewrite p_canonical_ok by assumption. cbn [rmap bind].
    assert (Hn : Nlen (c :: cs) - 1 = Nlen cs) by (unfold Nlen; cbn [length]; lia).
    rewrite Hn. rewrite IH; [reflexivity|assumption|cbn in Hf; lia|assumption].
Qed.

Theorem from_cbor_bundle_bytes_serde b : wf_bundle b = true -> crcs_filled b = true -> Nlen (b_canonicals b) < two64 - 1 ->
  from_cbor (bundle_bytes_serde b) = Ok b.
Proof.
  intros Hwf Hc Hlen. destruct b as [p cs]. unfold wf_bundle, crcs_filled in *. cbn [b_primary b_canonicals] in *.
  apply andb_true_iff in Hwf as [Hwp Hwc]. apply andb_true_iff in Hc as [Hcp Hcc].
  assert (Hall : Forall block_ok cs).
  { rewrite forallb_forall in Hwc, Hcc. apply Forall_forall. intros c Hin. split; [apply Hwc|apply Hcc]; assumption. }
  unfold from_cbor, from_slice, bundle_bytes_serde. cbn [b_primary b_canonicals].
  set (body := enc_primary p ++ concat (map enc_canonical cs)).
  assert (Hlen' : (length cs < S (length (head 4 (1 + Nlen cs) ++ body)))%nat).
  { unfold body. rewrite !app_length. pose proof (concat_length_ge cs). lia. }
  set (fuel := length (head 4 (1 + Nlen cs) ++ body)) in *.
  unfold p_bundle. rewrite <- (app_nil_r body).
  assert (Hb : bundle_body (S fuel) (Definite (1 + Nlen cs)) (mkst (body ++ []) (128 - 1))
               = (Ok (mkbundle p cs), Definite 0, mkst [] (128 - 1))).
  { unfold bundle_body, body. change (128 - 1) with 127. rewrite <- app_assoc.
    rewrite (field_def (p_primary (S fuel)) _ (1 + Nlen cs) p (mkst (concat (map enc_canonical cs) ++ []) 127)); [|lia|].
    2:{ apply p_primary_ok; [assumption|assumption|lia]. }
    replace (1 + Nlen cs - 1) with (Nlen cs) by lia.
    rewrite seq_loop_def_ok; [reflexivity|assumption|lia|lia]. }
  rewrite (parse_seq_array_ok (bundle_body (S fuel)) fuel (1 + Nlen cs) (body ++ []) [] 128 (mkbundle p cs)); [reflexivity|lia|lia|exact Hb].
Qed.

(* the route as the library runs it: CRC values calculated (to_cbor, or Bundle::calculate_crc), then serde's Serialize *)
Corollary serde_route_roundtrip b : wf_bundle b = true -> Nlen (b_canonicals b) < two64 - 1 ->
  from_cbor (bundle_bytes_serde (snd (to_cbor b))) = Ok (snd (to_cbor b)).
Proof.
  intros H Hl. unfold to_cbor. cbn [snd]. destruct (bundle_calc_facts b H) as (W & F & _ & _).
  apply from_cbor_bundle_bytes_serde; [assumption|assumption|].
  unfold bundle_calculate_crc. cbn [b_canonicals]. unfold Nlen in *. rewrite map_length. assumption.
Qed.
