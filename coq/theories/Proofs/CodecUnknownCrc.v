(* decode (encode b) = b also for bundles whose blocks have an unknown CRC type (CrcUnknown k, 3 <= k < 256):
   the extension of Proofs/CodecProofs.v's round trip from wf_bundle to wf_bundle_u.  Everything except the CRC field
   is handled by the lemmas of CodecProofs.v; that file and Model/Wf.v are unchanged. *)
From BP7 Require Import Base.Prelude Base.Utf8 Gen.Consts Cbor.Item Cbor.SerdeDe Spec.CrcSpec.
From BP7 Require Import Model.Types Model.Encode Model.Decode Model.Wf Model.WfExt Proofs.CborLemmas Proofs.CodecProofs.

Lemma wf_crc_u_of_wf c : wf_crc c = true -> wf_crc_u c = true.
Proof. destruct c; cbn [wf_crc wf_crc_u]; auto; discriminate. Qed.
Lemma wf_primary_u_of_wf p : wf_primary p = true -> wf_primary_u p = true.
Proof.
  unfold wf_primary, wf_primary_u. intros H. bools H. rewrite (wf_crc_u_of_wf _ H9), H, H10, H8, H7, H6, H5, H4, H3, H2, H1, H0. reflexivity.
Qed.
Lemma wf_canonical_u_of_wf c : wf_canonical c = true -> wf_canonical_u c = true.
Proof. unfold wf_canonical, wf_canonical_u. intros H. bools H. rewrite (wf_crc_u_of_wf _ H1), H, H3, H2, H0. reflexivity. Qed.
Theorem wf_bundle_u_of_wf b : wf_bundle b = true -> wf_bundle_u b = true.
Proof.
  unfold wf_bundle, wf_bundle_u. intros H. apply andb_true_iff in H as [H1 H2]. rewrite (wf_primary_u_of_wf _ H1). cbn [andb].
  rewrite forallb_forall in *. intros c Hc. apply wf_canonical_u_of_wf. auto.
Qed.
Lemma crc_filled_u_wf c : crc_filled_u c = true -> wf_crc_u c = true.
Proof. destruct c; cbn; auto; discriminate. Qed.
Lemma crc_filled_u_of_filled c : crc_filled c = true -> crc_filled_u c = true.
Proof. destruct c; cbn; auto; discriminate. Qed.

Lemma unknown_code_neq k : 3 <= k -> (k =? CRC_NO) = false /\ (k =? CRC_16) = false /\ (k =? CRC_32) = false.
Proof. unfold CRC_NO, CRC_16, CRC_32. intros H. repeat split; apply N.eqb_neq; lia. Qed.

(* the CRC field after the other elements, by CRC type; an unknown type has none *)
Lemma crc_field_ok_u {B} f c r d (k : crc_value -> seq_access -> st -> res B * seq_access * st) :
  crc_filled_u c = true ->
  crc_field (S f) (crc_code c) (Definite (if has_crc c then 1 else 0)) (mkst (enc_crc_field c ++ r) d) k
  = k c (Definite 0) (mkst r d).
Proof.
  intros Hc. destruct c as [| | |b|b|code]; try (apply crc_field_ok; exact Hc).
  cbn [crc_filled_u] in Hc. bools Hc. nat_facts. destruct (unknown_code_neq code Hc) as (E0 & E1 & E2).
  unfold crc_field, enc_crc_field. cbn [has_crc crc_code app]. rewrite E0, E1, E2. reflexivity.
Qed.
Lemma crc_code_u_lt c : crc_filled_u c = true -> crc_code c < 256.
Proof.
  destruct c; cbn [crc_filled_u crc_filled crc_code]; try discriminate; unfold CRC_NO, CRC_16, CRC_32; intros H; try lia.
  bools H. nat_facts. assumption.
Qed.

Theorem p_primary_ok_u f p r d : wf_primary_u p = true -> crc_filled_u (p_crc p) = true -> 5 <= d ->
  p_primary (S f) (mkst (enc_primary p ++ r) d) = (Ok p, mkst r d).
Proof.
  intros Hwf Hc Hd. unfold p_primary, enc_primary, enc_arr. rewrite <- ?app_assoc.
  destruct p as [ver flags crc dst src rpt t q life off len].
  unfold wf_primary_u in Hwf. cbn [p_version p_flags p_crc p_dst p_src p_rpt p_time p_seq p_lifetime p_frag_off p_total_len] in *.
  bools Hwf. nat_facts.
  apply parse_seq_array_ok; [unfold primary_num_elems; destruct (has_crc _), (has_fragmentation _); unfold two64; lia|lia|].
  unfold primary_body, primary_num_elems. cbn [p_crc].
  pose proof (crc_code_u_lt crc Hc) as Hcode.
  set (frag := has_fragmentation (mkprimary ver flags crc dst src rpt t q life off len)) in *.
  destruct (has_crc crc) eqn:Ecrc; destruct frag eqn:Efrag;
    (fld ltac:(apply p_u32_ok; assumption));
    (fld ltac:(apply p_u64_ok; assumption));
    (fld ltac:(apply p_u8_ok; assumption));
    (fld ltac:(apply p_eid_ok; [assumption|lia]));
    (fld ltac:(apply p_eid_ok; [assumption|lia]));
    (fld ltac:(apply p_eid_ok; [assumption|lia]));
    (fld ltac:(apply p_ts_ok'; [assumption|assumption|lia]));
    (fld ltac:(apply p_u64_ok; assumption));
    cbn [size_hint]; ground_N; rewrite <- ?app_assoc.
  - fld ltac:(apply p_u64_ok; assumption). fld ltac:(apply p_u64_ok; assumption).
    pose proof (@crc_field_ok_u primary f crc r (d - 1)) as Hcf. rewrite Ecrc in Hcf. rewrite Hcf by assumption. reflexivity.
  - cbn [app].
    pose proof (@crc_field_ok_u primary f crc r (d - 1)) as Hcf. rewrite Ecrc in Hcf. rewrite Hcf by assumption.
    cbn [orb] in *. match goal with H : (_ =? 0) && (_ =? 0) = true |- _ => bools H end. nat_facts. subst. reflexivity.
  - fld ltac:(apply p_u64_ok; assumption). fld ltac:(apply p_u64_ok; assumption).
    pose proof (@crc_field_ok_u primary f crc r (d - 1)) as Hcf. rewrite Ecrc in Hcf. rewrite Hcf by assumption. reflexivity.
  - cbn [app].
    pose proof (@crc_field_ok_u primary f crc r (d - 1)) as Hcf. rewrite Ecrc in Hcf. rewrite Hcf by assumption.
    cbn [orb] in *. match goal with H : (_ =? 0) && (_ =? 0) = true |- _ => bools H end. nat_facts. subst. reflexivity.
Qed.

Theorem p_canonical_ok_u f c r d : wf_canonical_u c = true -> crc_filled_u (c_crc c) = true -> 5 <= d ->
  p_canonical (S f) (mkst (enc_canonical c ++ r) d) = (Ok c, mkst r d).
Proof.
  intros Hwf Hc Hd. unfold p_canonical. rewrite enc_canonical_raw. unfold enc_arr. rewrite <- ?app_assoc.
  destruct c as [ty num fl crc data].
  unfold wf_canonical_u in Hwf. cbn [c_type c_num c_flags c_crc c_data] in *. bools Hwf. nat_facts.
  pose proof (crc_code_u_lt crc Hc) as Hcode.
  apply parse_seq_array_ok; [destruct (has_crc _); unfold two64; lia|lia|].
  unfold canonical_body.
  pose proof (@crc_field_ok_u canonical f crc r (d - 1)) as Hcf.
  destruct (has_crc crc) eqn:Ecrc;
    (fld ltac:(apply p_u64_ok; assumption));
    (fld ltac:(apply p_u64_ok; assumption));
    (fld ltac:(apply p_u8_ok; assumption));
    (fld ltac:(apply p_u8_ok; assumption));
    (fld ltac:(apply p_bytebuf_ok; eapply raw_len; eassumption));
    rewrite (decode_cdata_ok ty data) by assumption;
    rewrite Hcf by assumption; reflexivity.
Qed.

Definition block_ok_u (c : canonical) : Prop := wf_canonical_u c = true /\ crc_filled_u (c_crc c) = true.

Lemma seq_loop_ok_u pf : forall cs fuel r d, Forall block_ok_u cs -> (length cs < fuel)%nat -> 5 <= d ->
  seq_loop (p_canonical (S pf)) fuel Indefinite (mkst (concat (map enc_canonical cs) ++ n2b 255 :: r) d)
  = (Ok cs, Indefinite, mkst (n2b 255 :: r) d).
Proof.
  induction cs as [|c cs IH]; intros fuel r d Hall Hf Hd; (destruct fuel as [|f]; [cbn in Hf; lia|]).
  - cbn [map concat app seq_loop next_element inp]. rewrite b2n_n2b by lia. change (255 =? 255) with true. reflexivity.
  - inversion Hall as [|? ? [Hwf Hc] Hrest]; subst. cbn [map concat seq_loop]. rewrite <- app_assoc.
    destruct (enc_canonical_first c (concat (map enc_canonical cs) ++ n2b 255 :: r)) as [t Ht].
    unfold next_element at 1. rewrite Ht. cbn [inp].
    assert (b2n (n2b (128 + (if has_crc (c_crc c) then 6 else 5))) =? 255 = false) as ->.
    { apply N.eqb_neq. rewrite b2n_n2b by (destruct (has_crc _); lia). destruct (has_crc _); lia. }
    rewrite <- Ht. rewrite p_canonical_ok_u by assumption. cbn [rmap bind].
    rewrite IH; [reflexivity|assumption|cbn in Hf; lia|assumption].
Qed.

Theorem from_cbor_bundle_bytes_u b : wf_bundle_u b = true -> crcs_filled_u b = true -> from_cbor (bundle_bytes b) = Ok b.
Proof.
  intros Hwf Hc. destruct b as [p cs]. unfold wf_bundle_u, crcs_filled_u in *. cbn [b_primary b_canonicals] in *.
  apply andb_true_iff in Hwf as [Hwp Hwc]. apply andb_true_iff in Hc as [Hcp Hcc].
  assert (Hall : Forall block_ok_u cs).
  { rewrite forallb_forall in Hwc, Hcc. apply Forall_forall. intros c Hin. split; [apply Hwc|apply Hcc]; assumption. }
  unfold from_cbor, from_slice, bundle_bytes. cbn [b_primary b_canonicals].
  set (bs := n2b 159 :: _).
  assert (Hlen : (length cs < length bs)%nat).
  { unfold bs. cbn [length]. rewrite !app_length. pose proof (concat_length_ge cs). cbn [length]. lia. }
  set (fuel := S (length bs)). unfold p_bundle.
  unfold bs at 1. unfold fuel at 2. cbn [parse_value inp]. rewrite b2n_n2b by lia.
  change (159 / 32) with 4. change (159 mod 32) with 31.
  change (4 =? 0) with false. change (4 =? 1) with false. change (4 =? 2) with false. change (4 =? 3) with false.
  change (4 =? 4) with true. change (31 =? 31) with true. cbv iota.
  unfold set_inp. cbn [inp depth].
  unfold parse_indef_array, recursion_checked. cbn [inp depth v_seq vis_seq].
  change (128 - 1 =? 0) with false. cbv iota. change (128 - 1) with 127.
  unfold bundle_body.
  destruct (enc_primary_first p (concat (map enc_canonical cs) ++ [n2b 255])) as (t & Ht & Hn).
  erewrite field_indef; [|cbn [inp]; exact Ht| |].
  3:{ unfold fuel. apply p_primary_ok_u; [assumption|assumption|lia]. }
  2:{ rewrite b2n_n2b by lia. lia. }
  change [n2b 255] with (n2b 255 :: []).
  unfold fuel. rewrite seq_loop_ok_u; [|assumption|lia|lia].
  cbn [rmap bind inp]. rewrite b2n_n2b by lia. change (255 =? 255) with true. cbv iota.
  unfold set_inp. cbn [inp depth]. reflexivity.
Qed.

(* ---------- CRC recomputation before encoding: an unknown type is left alone ---------- *)
Lemma calc_crc_unknown enc k : 3 <= k -> calculate_crc enc (CrcUnknown k) = CrcUnknown k.
Proof. intros H. destruct (unknown_code_neq k H) as (E0 & E1 & E2). unfold calculate_crc. cbn [crc_code]. rewrite E0, E1, E2. reflexivity. Qed.
Lemma calc_crc_facts_u enc c : wf_crc_u c = true ->
  crc_filled_u (calculate_crc enc c) = true /\ crc_code (calculate_crc enc c) = crc_code c
  /\ has_crc (calculate_crc enc c) = has_crc c.
Proof.
  intros H. destruct c as [| | |b|b|k].
  1-5: destruct (calc_crc_facts enc _ H) as (A & B & C); split; [apply crc_filled_u_of_filled; exact A|split; assumption].
  cbn [wf_crc_u] in H. pose proof H as H'. bools H. nat_facts. rewrite calc_crc_unknown by assumption. repeat split. exact H'.
Qed.
Lemma calc_crc_idem_u enc c : wf_crc_u c = true ->
  calculate_crc enc (calculate_crc enc c) = calculate_crc enc c.
Proof.
  intros H. destruct c as [| | |b|b|k].
  1-5: apply calc_crc_idem; exact H.
  cbn [wf_crc_u] in H. bools H. nat_facts. rewrite !calc_crc_unknown by assumption. reflexivity.
Qed.

Lemma wf_primary_u_set p c : wf_primary_u p = true -> wf_crc_u c = true -> wf_primary_u (set_p_crc p c) = true.
Proof.
  intros H Hc. destruct p as [ver flags crc dst src rpt t q life off len]. unfold wf_primary_u, set_p_crc, has_fragmentation in *.
  cbn [p_version p_flags p_crc p_dst p_src p_rpt p_time p_seq p_lifetime p_frag_off p_total_len] in *.
  bools H. rewrite H, H10, Hc, H8, H7, H6, H5, H4, H3, H2, H1, H0. reflexivity.
Qed.
Lemma wf_canonical_u_set b c : wf_canonical_u b = true -> wf_crc_u c = true -> wf_canonical_u (set_c_crc b c) = true.
Proof.
  intros H Hc. destruct b as [ty num fl crc data]. unfold wf_canonical_u, set_c_crc in *. cbn [c_type c_num c_flags c_crc c_data] in *.
  bools H. rewrite H, H3, H2, Hc, H0. reflexivity.
Qed.

Lemma primary_update_facts_u p : wf_primary_u p = true ->
  wf_primary_u (primary_update_crc p) = true /\ crc_filled_u (p_crc (primary_update_crc p)) = true
  /\ same_but_crc_p p (primary_update_crc p) /\ primary_update_crc (primary_update_crc p) = primary_update_crc p.
Proof.
  intros H. assert (Hc : wf_crc_u (p_crc p) = true) by (unfold wf_primary_u in H; bools H; assumption).
  unfold primary_update_crc, primary_calc_crc.
  destruct (calc_crc_facts_u (fun c => enc_primary (set_p_crc p c)) (p_crc p) Hc) as (Hf & Hcode & Hhas).
  split; [|split; [|split]].
  - apply wf_primary_u_set; [assumption|apply crc_filled_u_wf; assumption].
  - rewrite p_crc_set. assumption.
  - split; [reflexivity|]. rewrite p_crc_set. symmetry. assumption.
  - rewrite p_crc_set. rewrite set_p_crc_twice. f_equal.
    exact (calc_crc_idem_u (fun c => enc_primary (set_p_crc p c)) (p_crc p) Hc).
Qed.
Lemma canonical_update_facts_u b : wf_canonical_u b = true ->
  wf_canonical_u (canonical_update_crc b) = true /\ crc_filled_u (c_crc (canonical_update_crc b)) = true
  /\ same_but_crc_c b (canonical_update_crc b) /\ canonical_update_crc (canonical_update_crc b) = canonical_update_crc b.
Proof.
  intros H. assert (Hc : wf_crc_u (c_crc b) = true) by (unfold wf_canonical_u in H; bools H; assumption).
  unfold canonical_update_crc, canonical_calc_crc.
  destruct (calc_crc_facts_u (fun c => enc_canonical (set_c_crc b c)) (c_crc b) Hc) as (Hf & Hcode & Hhas).
  split; [|split; [|split]].
  - apply wf_canonical_u_set; [assumption|apply crc_filled_u_wf; assumption].
  - rewrite c_crc_set. assumption.
  - split; [reflexivity|]. rewrite c_crc_set. symmetry. assumption.
  - rewrite c_crc_set. rewrite set_c_crc_twice. f_equal.
    exact (calc_crc_idem_u (fun c => enc_canonical (set_c_crc b c)) (c_crc b) Hc).
Qed.

Lemma bundle_calc_facts_u b : wf_bundle_u b = true ->
  let b' := bundle_calculate_crc b in
  wf_bundle_u b' = true /\ crcs_filled_u b' = true /\ only_crc_changed b b' /\ bundle_calculate_crc b' = b'.
Proof.
  intros H. destruct b as [p cs]. unfold wf_bundle_u in H. cbn [b_primary b_canonicals] in H.
  apply andb_true_iff in H as [Hp Hcs]. destruct (primary_update_facts_u p Hp) as (P1 & P2 & P3 & P4).
  cbv zeta. unfold bundle_calculate_crc, wf_bundle_u, crcs_filled_u, only_crc_changed. cbn [b_primary b_canonicals].
  rewrite P1, P2, P4. cbn [andb].
  assert (Hall : forall c, In c cs -> wf_canonical_u c = true) by (apply forallb_forall; assumption).
  clear Hcs. induction cs as [|c cs IH]; cbn [map forallb].
  - split; [reflexivity|split; [reflexivity|split; [split; [exact P3|constructor]|reflexivity]]].
  - destruct (canonical_update_facts_u c (Hall c (or_introl eq_refl))) as (C1 & C2 & C3 & C4).
    destruct IH as (I1 & I2 & (_ & I3) & I4); [intros; apply Hall; right; assumption|].
    rewrite C1, C2, C4. cbn [andb].
    split; [exact I1|split; [exact I2|split; [split; [exact P3|constructor; assumption]|]]].
    f_equal. f_equal. injection I4. auto.
Qed.

(* C01's round trip and idempotence on the extended domain *)
Theorem to_cbor_roundtrip_u b : wf_bundle_u b = true ->
  let '(bs, b') := to_cbor b in
  from_cbor bs = Ok b' /\ only_crc_changed b b' /\ crcs_filled_u b' = true.
Proof.
  intros H. unfold to_cbor. destruct (bundle_calc_facts_u b H) as (W & F & O & _).
  split; [apply from_cbor_bundle_bytes_u; assumption|split; assumption].
Qed.
Theorem to_cbor_idempotent_u b : wf_bundle_u b = true ->
  let '(bs, b') := to_cbor b in to_cbor b' = (bs, b').
Proof.
  intros H. unfold to_cbor. destruct (bundle_calc_facts_u b H) as (_ & _ & _ & I). rewrite I. reflexivity.
Qed.
