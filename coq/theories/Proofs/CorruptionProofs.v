(* C05: the CRC check rejects corrupted blocks.
   Byte-level part (no decoder, no block structure): a block encoding X is "bytes_valid" when its last n
   bytes are the big-endian CRC of X with these n bytes zeroed; value changes and short windows in the
   rest of X destroy validity (CrcAlgebra).  Block part (generic over primary / canonical): the
   implementation's check_crc on a block whose CRC value is stored is exactly bytes_valid of the block's
   own encoding with the stored value, the CRC type is a function of the bytes up to the CRC-type byte,
   and a block without CRC field has another array head.  Parity part: both generator polynomials contain
   the factor x+1, so a valid block has even parity under either algorithm and one flipped bit is invalid
   under both (the single-bit class needs no premise on the decoded CRC type).  Bundle part: blocks of equal lengths whose
   concatenations agree are equal, so "re-encodes to the received bytes with the same block lengths"
   localises the corruption in one block.  Last: the same-CRC-type premise of the window class cannot be
   dropped - a concrete CRC-16 block that a two-byte window turns into a VALID CRC-32C block. *)
From BP7 Require Import Base.Prelude Gen.Consts Cbor.Item Spec.CrcSpec.
From BP7 Require Import Model.Types Model.Encode Model.Decode Model.Wf.
From BP7 Require Import Proofs.CrcAlgebra Proofs.CodecProofs Proofs.DecodeImage Proofs.SpecProofs.

(* ---------- lists ---------- *)
Definition tail_n (n : nat) (X : list byte) : list byte := skipn (length X - n) X.
Definition zero_tail (n : nat) (X : list byte) : list byte := firstn (length X - n) X ++ zeros n.

Lemma zeros_length n : length (zeros n) = n.
Proof. induction n; cbn [zeros repeat_byte length]; [reflexivity|]. f_equal. exact IHn. Qed.

Lemma firstn_app_exact {A} (l r : list A) k : k = length l -> firstn k (l ++ r) = l.
Proof. intros ->. rewrite firstn_app, firstn_all, Nat.sub_diag. cbn [firstn]. apply app_nil_r. Qed.
Lemma skipn_app_exact {A} (l r : list A) k : k = length l -> skipn k (l ++ r) = r.
Proof. intros ->. rewrite skipn_app, skipn_all, Nat.sub_diag. reflexivity. Qed.

Lemma tail_n_app C v n : length v = n -> tail_n n (C ++ v) = v.
Proof. intros H. unfold tail_n. apply skipn_app_exact. rewrite app_length. lia. Qed.
Lemma zero_tail_app C v n : length v = n -> zero_tail n (C ++ v) = C ++ zeros n.
Proof. intros H. unfold zero_tail. f_equal. apply firstn_app_exact. rewrite app_length. lia. Qed.

Lemma app_inv_length {A} (a b c d : list A) : a ++ b = c ++ d -> length a = length c -> a = c /\ b = d.
Proof.
  revert c; induction a as [|x a IH]; intros [|y c] H L; try discriminate L.
  - split; [reflexivity|exact H].
  - cbn [app] in H. injection H as -> H. cbn [length] in L. destruct (IH c H ltac:(lia)) as [-> ->]. split; reflexivity.
Qed.

Lemma be_enc_inj w a b : a < 256 ^ N.of_nat w -> b < 256 ^ N.of_nat w -> be_enc w a = be_enc w b -> a = b.
Proof.
  intros Ha Hb H. pose proof (be_dec_enc w a 0 Ha) as Ea. pose proof (be_dec_enc w b 0 Hb) as Eb.
  rewrite H in Ea. rewrite Ea in Eb. lia.
Qed.

(* ---------- validity of a block encoding, on bytes ---------- *)
Section BytesValid.
  Variable n : nat.                       (* width of the CRC value in bytes *)
  Variable f : list byte -> N.            (* the CRC function *)
  Hypothesis f_lt : forall m, f m < 256 ^ N.of_nat n.
  Hypothesis f_window : forall pre win win' suf : list byte,
    length win = length win' -> (length win <= n)%nat -> win <> win' ->
    f (pre ++ win ++ suf) <> f (pre ++ win' ++ suf).

  Definition bytes_valid_gen (X : list byte) : Prop := tail_n n X = be_enc n (f (zero_tail n X)).

  (* any change confined to the last n bytes (the CRC value) *)
  Lemma value_change_invalid X X' :
    bytes_valid_gen X -> length X' = length X ->
    firstn (length X - n) X' = firstn (length X - n) X -> X' <> X -> ~ bytes_valid_gen X'.
  Proof.
    intros V L P Hne V'. apply Hne. unfold bytes_valid_gen, tail_n, zero_tail in *. rewrite L in V'. rewrite P in V'.
    rewrite <- V in V'. etransitivity; [symmetry; apply (firstn_skipn (length X - n))|].
    rewrite P, V'. apply firstn_skipn.
  Qed.

  (* any change confined to a window of at most n consecutive bytes in front of the CRC value *)
  Lemma window_change_invalid pre win win' suf :
    bytes_valid_gen (pre ++ win ++ suf) -> length win = length win' -> (length win <= n)%nat -> win <> win' ->
    (n <= length suf)%nat -> ~ bytes_valid_gen (pre ++ win' ++ suf).
  Proof.
    intros V L K Hne S V'.
    assert (Hs : suf = firstn (length suf - n) suf ++ skipn (length suf - n) suf) by (symmetry; apply firstn_skipn).
    set (s1 := firstn (length suf - n) suf) in *. set (s2 := skipn (length suf - n) suf) in *.
    assert (L2 : length s2 = n) by (unfold s2; rewrite skipn_length; lia).
    clearbody s1 s2. subst suf. unfold bytes_valid_gen in V, V'.
    replace (pre ++ win ++ s1 ++ s2) with ((pre ++ win ++ s1) ++ s2) in V by (rewrite <- !app_assoc; reflexivity).
    replace (pre ++ win' ++ s1 ++ s2) with ((pre ++ win' ++ s1) ++ s2) in V' by (rewrite <- !app_assoc; reflexivity).
    rewrite tail_n_app, zero_tail_app in V, V' by exact L2. rewrite V in V'.
    apply be_enc_inj in V'; [|apply f_lt|apply f_lt].
    rewrite <- !app_assoc in V'. exact (f_window pre win win' (s1 ++ zeros n) L K Hne V').
  Qed.
End BytesValid.

(* ---------- unsigned-integer heads: the first byte determines the length ---------- *)
Definition head_extra (x : byte) : nat :=
  let a := b2n x in if a <? 24 then 0%nat else if a =? 24 then 1%nat else if a =? 25 then 2%nat else if a =? 26 then 4%nat else 8%nat.

Lemma enc_uint_shape a : exists x t, enc_uint a = x :: t /\ length t = head_extra x /\ (a < 24 -> b2n x = a) /\ (24 <= a -> 24 <= b2n x).
Proof.
  unfold enc_uint, head. change (0 * 32) with 0. rewrite !N.add_0_l.
  destruct (a <? 24) eqn:E1.
  { apply N.ltb_lt in E1. exists (n2b a), []. unfold head_extra. rewrite b2n_n2b by lia.
    replace (a <? 24) with true by (symmetry; apply N.ltb_lt; lia). repeat split; try reflexivity; lia. }
  apply N.ltb_ge in E1.
  destruct (a <? 256); [|destruct (a <? 65536); [|destruct (a <? 4294967296)]];
    eexists; eexists; (split; [reflexivity|]); unfold head_extra; rewrite b2n_n2b by lia; rewrite be_enc_length;
    (split; [reflexivity|split; [lia|intros _; lia]]).
Qed.

Lemma enc_uint_prefix_free a b r r' : enc_uint a ++ r = enc_uint b ++ r' -> enc_uint a = enc_uint b /\ r = r'.
Proof.
  intros H. destruct (enc_uint_shape a) as (x & t & Ea & La & _). destruct (enc_uint_shape b) as (y & u & Eb & Lb & _).
  rewrite Ea, Eb in *. cbn [app] in H. injection H as Hxy H. subst y.
  destruct (app_inv_length t r u r' H ltac:(lia)) as [-> ->]. split; reflexivity.
Qed.

(* an encoded integer whose first byte is below 24 is that value *)
Lemma enc_uint_first_small a r c r0 : enc_uint a ++ r = n2b c :: r0 -> c < 24 -> a = c.
Proof.
  intros H Hc. destruct (enc_uint_shape a) as (x & t & Ea & _ & Hs & Hb). rewrite Ea in H. cbn [app] in H.
  injection H as Hx _. subst x. rewrite b2n_n2b in * by lia.
  destruct (N.lt_ge_cases a 24) as [Ha|Ha]; [symmetry; apply Hs; exact Ha|specialize (Hb Ha); lia].
Qed.
Lemma enc_uint_small c : c < 24 -> enc_uint c = [n2b c].
Proof. intros H. unfold enc_uint, head. change (0 * 32) with 0. rewrite N.add_0_l.
  replace (c <? 24) with true by (symmetry; apply N.ltb_lt; lia). reflexivity. Qed.

(* ---------- one flipped bit ---------- *)
Definition bit_masks : list N := [1; 2; 4; 8; 16; 32; 64; 128].
Definition flip (x : byte) (m : N) : byte := n2b (N.lxor (b2n x) m).
Lemma flip_b2n x m : In m bit_masks -> b2n (flip x m) = N.lxor (b2n x) m.
Proof.
  intros Hm. unfold flip. apply b2n_n2b. change 256 with (2 ^ 8). apply lxor_lt.
  - apply b2n_lt_pow.
  - cbn [bit_masks In] in Hm. repeat (destruct Hm as [<-|Hm]; [vm_compute; reflexivity|]). contradiction.
Qed.
Lemma flip_neq x m : In m bit_masks -> flip x m <> x.
Proof.
  intros Hm E. apply (f_equal b2n) in E. rewrite flip_b2n in E by exact Hm.
  assert (m = 0).
  { apply (lxor_cancel_l m 0 (b2n x)). rewrite N.lxor_0_r. exact E. }
  subst m. cbn [bit_masks In] in Hm. repeat (destruct Hm as [Hm|Hm]; [discriminate Hm|]). contradiction.
Qed.

(* ---------- parity: both generator polynomials have the factor x + 1 ---------- *)
(* A valid block (content ++ CRC value) has an even number of one bits, under CRC-16/X.25 as well as under
   CRC-32C; one flipped bit makes the number odd, so the result is valid under NEITHER algorithm.  This is
   what makes the single-bit clause independent of the CRC type the corrupted bytes decode to. *)
Fixpoint ppar (p : positive) : bool := match p with xH => true | xO q => ppar q | xI q => negb (ppar q) end.
Definition par (n : N) : bool := match n with N0 => false | Npos p => ppar p end.
Definition lpar (l : list byte) : bool := fold_right (fun b acc => xorb (par (b2n b)) acc) false l.

Lemma lpar_cons x l : lpar (x :: l) = xorb (par (b2n x)) (lpar l). Proof. reflexivity. Qed.
Lemma lpar_nil : lpar [] = false. Proof. reflexivity. Qed.
Lemma par_double n : par (N.double n) = par n. Proof. destruct n; reflexivity. Qed.
Lemma par_succ_double n : par (N.succ_double n) = negb (par n). Proof. destruct n; reflexivity. Qed.
Lemma ppar_lxor p : forall q, par (Pos.lxor p q) = xorb (ppar p) (ppar q).
Proof.
  induction p as [p IH|p IH|]; intros [q|q|]; cbn [Pos.lxor ppar par]; rewrite ?par_double, ?par_succ_double, ?IH;
    try (destruct (ppar p)); try (destruct (ppar q)); reflexivity.
Qed.
Lemma par_lxor a b : par (N.lxor a b) = xorb (par a) (par b).
Proof. destruct a as [|p], b as [|q]; cbn [N.lxor par]; [reflexivity|destruct (ppar q); reflexivity|destruct (ppar p); reflexivity|apply ppar_lxor]. Qed.
Lemma par_div2 n : par (N.div2 n) = xorb (par n) (N.odd n).
Proof. destruct n as [|[q|q|]]; cbn [N.div2 par ppar N.odd]; try reflexivity; destruct (ppar q); reflexivity. Qed.
Lemma par_shiftl8 a : par (N.shiftl a 8) = par a.
Proof.
  assert (H : forall k a, par (N.shiftl a (N.of_nat k)) = par a).
  { induction k as [|k IH]; intros x; [change (N.of_nat 0) with 0; rewrite N.shiftl_0_r; reflexivity|].
    rewrite Nat2N.inj_succ, N.shiftl_succ_r, par_double. apply IH. }
  exact (H 8%nat a).
Qed.

Lemma step_par P s : par P = true -> par (crc_step P s) = par s.
Proof.
  intros HP. unfold crc_step. rewrite <- N.div2_spec.
  destruct (N.odd s) eqn:E; rewrite ?par_lxor, par_div2, E, ?HP; destruct (par s); reflexivity.
Qed.
Lemma iter_par P k : par P = true -> forall s, par (iter k (crc_step P) s) = par s.
Proof. intros HP. induction k as [|k IH]; intros s; cbn [iter]; [reflexivity|]. rewrite IH. apply step_par, HP. Qed.
Lemma run_par P : par P = true -> forall l s, par (crc_run P s l) = xorb (par s) (lpar l).
Proof.
  intros HP. induction l as [|b l IH]; intros s.
  - rewrite crc_run_nil, lpar_nil. destruct (par s); reflexivity.
  - rewrite crc_run_cons, IH. unfold crc_byte. rewrite iter_par by exact HP. rewrite par_lxor, lpar_cons.
    destruct (par s), (par (b2n b)), (lpar l); reflexivity.
Qed.
Lemma crc_par p : par (cp_polyR p) = true -> par (cp_init p) = par (cp_xorout p) ->
  forall m, par (crc p m) = lpar m.
Proof.
  intros HP Hi m. unfold crc. rewrite par_lxor, run_par by exact HP. rewrite Hi.
  destruct (par (cp_xorout p)), (lpar m); reflexivity.
Qed.
Lemma crc16_par m : par (crc16_x25 m) = lpar m.
Proof. apply crc_par; vm_compute; reflexivity. Qed.
Lemma crc32c_par m : par (crc32c m) = lpar m.
Proof. apply crc_par; vm_compute; reflexivity. Qed.

Lemma lpar_app a b : lpar (a ++ b) = xorb (lpar a) (lpar b).
Proof.
  induction a as [|x a IH]; cbn [app]; [rewrite lpar_nil; destruct (lpar b); reflexivity|].
  rewrite !lpar_cons, IH. destruct (par (b2n x)), (lpar a), (lpar b); reflexivity.
Qed.
Lemma lpar_zeros k : lpar (zeros k) = false.
Proof. induction k as [|k IH]; [reflexivity|]. change (zeros (Datatypes.S k)) with (x00 :: zeros k). rewrite lpar_cons, IH. reflexivity. Qed.

Lemma mul256_lxor a b : b < 256 -> a * 256 + b = N.lxor (N.shiftl a 8) b.
Proof.
  intros Hb. rewrite N.shiftl_mul_pow2. change (2 ^ 8) with 256. apply N.add_nocarry_lxor.
  apply N.bits_inj. intros i. rewrite N.land_spec, N.bits_0.
  destruct (N.lt_ge_cases i 8) as [Hi|Hi].
  - change 256 with (2 ^ 8). rewrite N.mul_pow2_bits_low by exact Hi. reflexivity.
  - replace (N.testbit b i) with false; [apply andb_false_r|]. symmetry.
    destruct (N.eq_dec b 0) as [->|Hnz]; [apply N.bits_0|]. apply N.bits_above_log2.
    apply N.lt_le_trans with 8; [|exact Hi]. apply N.log2_lt_pow2; [lia|exact Hb].
Qed.
Lemma be_dec_par l : forall acc, par (be_dec l acc) = xorb (par acc) (lpar l).
Proof.
  induction l as [|b l IH]; intros acc; cbn [be_dec]; [rewrite lpar_nil; destruct (par acc); reflexivity|].
  rewrite lpar_cons, IH, mul256_lxor by apply b2n_lt. rewrite par_lxor, par_shiftl8.
  destruct (par acc), (par (b2n b)), (lpar l); reflexivity.
Qed.
Lemma be_enc_par w n : n < 256 ^ N.of_nat w -> lpar (be_enc w n) = par n.
Proof. intros H. pose proof (be_dec_par (be_enc w n) 0) as P. rewrite be_dec_enc in P by exact H.
  rewrite N.mul_0_l, N.add_0_l in P. rewrite P. change (par 0) with false. destruct (lpar (be_enc w n)); reflexivity. Qed.

Lemma valid_even n f X :
  (forall m, f m < 256 ^ N.of_nat n) -> (forall m, par (f m) = lpar m) -> bytes_valid_gen n f X -> lpar X = false.
Proof.
  intros Hlt Hpar V. unfold bytes_valid_gen, tail_n, zero_tail in V.
  rewrite <- (firstn_skipn (length X - n) X) at 1. rewrite lpar_app, V, be_enc_par by apply Hlt.
  rewrite Hpar, lpar_app, lpar_zeros. destruct (lpar (firstn (length X - n) X)); reflexivity.
Qed.

(* ---------- corruption classes, on the bytes of one block ---------- *)
(* any change of the last n bytes (the CRC value) *)
Definition value_change (n : nat) (X X' : list byte) : Prop :=
  length X' = length X /\ firstn (length X - n) X' = firstn (length X - n) X /\ X' <> X.
(* any change confined to at most n consecutive bytes in front of the CRC value *)
Definition window_change (n : nat) (X X' : list byte) : Prop :=
  exists pre win win' suf, X = pre ++ win ++ suf /\ X' = pre ++ win' ++ suf /\
    length win = length win' /\ (length win <= n)%nat /\ win <> win' /\ (n <= length suf)%nat.
(* one flipped bit in the byte with index i *)
Definition bit_flip_at (i : nat) (X X' : list byte) : Prop :=
  exists pre x suf m, X = pre ++ x :: suf /\ X' = pre ++ flip x m :: suf /\ In m bit_masks /\ length pre = i.

(* a stored (computed, not placeholder) CRC value of the right length *)
Definition stored (c : crc_value) : bool :=
  match c with Crc16 v => Nat.eqb (length v) 2 | Crc32 v => Nat.eqb (length v) 4 | _ => false end.
Definition crc_width (code : N) : nat := if code =? CRC_16 then 2%nat else 4%nat.
Definition bytes_valid (code : N) (X : list byte) : Prop :=
  if code =? CRC_16 then bytes_valid_gen 2 crc16_x25 X else bytes_valid_gen 4 crc32c X.

Lemma stored_code c : stored c = true -> (crc_code c = CRC_16 \/ crc_code c = CRC_32) /\ has_crc c = true.
Proof. destruct c; cbn [stored]; try discriminate; intros _; cbn [crc_code has_crc]; auto. Qed.
Lemma dec_crc_stored c c0 : dec_crc c = true -> stored c0 = true -> crc_code c = crc_code c0 -> stored c = true.
Proof.
  destruct c0; cbn [stored]; try discriminate; intros D _ E; cbn [crc_code] in E;
    destruct c; cbn [dec_crc crc_code stored] in *; try discriminate; try exact D;
    rewrite E in D; unfold CRC_NO, CRC_16, CRC_32 in D; cbn in D; discriminate.
Qed.

Lemma crc16_lt' m : crc16_x25 m < 256 ^ N.of_nat 2. Proof. change (256 ^ N.of_nat 2) with 65536. apply crc16_lt. Qed.
Lemma crc32c_lt' m : crc32c m < 256 ^ N.of_nat 4. Proof. change (256 ^ N.of_nat 4) with 4294967296. apply crc32c_lt. Qed.

Lemma bytes_value_change code X X' :
  bytes_valid code X -> value_change (crc_width code) X X' -> ~ bytes_valid code X'.
Proof.
  unfold bytes_valid, crc_width. intros V (L & P & Hne).
  destruct (code =? CRC_16); eapply value_change_invalid; eauto.
Qed.
Lemma bytes_window_change code X X' :
  bytes_valid code X -> window_change (crc_width code) X X' -> ~ bytes_valid code X'.
Proof.
  unfold bytes_valid, crc_width. intros V (pre & win & win' & suf & -> & -> & L & K & Hne & S).
  destruct (code =? CRC_16).
  - apply (window_change_invalid 2 crc16_x25 crc16_lt' crc16_detects_window pre win win' suf); assumption.
  - apply (window_change_invalid 4 crc32c crc32c_lt' crc32c_detects_window pre win win' suf); assumption.
Qed.

Lemma bytes_valid_even code X : bytes_valid code X -> lpar X = false.
Proof.
  unfold bytes_valid. destruct (code =? CRC_16); intros V.
  - exact (valid_even 2 crc16_x25 X crc16_lt' crc16_par V).
  - exact (valid_even 4 crc32c X crc32c_lt' crc32c_par V).
Qed.
Lemma lpar_flip pre x suf m : In m bit_masks -> lpar (pre ++ flip x m :: suf) = negb (lpar (pre ++ x :: suf)).
Proof.
  intros Hm. rewrite !lpar_app, !lpar_cons, flip_b2n, par_lxor by exact Hm.
  assert (Pm : par m = true).
  { cbn [bit_masks In] in Hm. repeat (destruct Hm as [<-|Hm]; [reflexivity|]). contradiction. }
  rewrite Pm. destruct (lpar pre), (par (b2n x)), (lpar suf); reflexivity.
Qed.
Lemma dec_has_stored c : dec_crc c = true -> has_crc c = true -> stored c = true.
Proof. destruct c; cbn [dec_crc has_crc stored]; intros D H; try discriminate; exact D. Qed.

(* ---------- a block: array head byte, integer fields, CRC type, the rest, the CRC field ---------- *)
Section Block.
  Variable B : Type.
  Variable crc : B -> crc_value.
  Variable setc : B -> crc_value -> B.
  Variable enc : B -> list byte.
  Variable hd : B -> byte.                 (* the array head *)
  Variable flds : B -> list byte.          (* the fields in front of the CRC type *)
  Variable mid : B -> list byte.           (* the fields between the CRC type and the CRC field *)
  Hypothesis crc_set : forall b c, crc (setc b c) = c.
  Hypothesis layout : forall b, enc b = (hd b :: flds b) ++ enc_uint (crc_code (crc b)) ++ mid b ++ enc_crc_field (crc b).
  Hypothesis hd_set : forall b c, has_crc c = has_crc (crc b) -> hd (setc b c) = hd b.
  Hypothesis flds_set : forall b c, flds (setc b c) = flds b.
  Hypothesis mid_set : forall b c, mid (setc b c) = mid b.
  Hypothesis flds_free : forall b b' r r', flds b ++ r = flds b' ++ r' -> flds b = flds b' /\ r = r'.
  Hypothesis hd_has : forall b b', hd b = hd b' -> has_crc (crc b) = has_crc (crc b').

  Definition check (b : B) : bool :=
    if has_crc (crc b) then opt_bytes_eqb (crc_bytes (calculate_crc (fun c => enc (setc b c)) (crc b))) (crc_bytes (crc b))
    else true.

  Lemma head22 : head 2 2 = [n2b 66]. Proof. reflexivity. Qed.
  Lemma head24 : head 2 4 = [n2b 68]. Proof. reflexivity. Qed.

  (* check_crc on a block with a stored value = validity of the block's own bytes *)
  Lemma check_iff b : stored (crc b) = true -> (check b = true <-> bytes_valid (crc_code (crc b)) (enc b)).
  Proof.
    intros S. unfold check, calculate_crc, bytes_valid. rewrite (layout b).
    destruct (crc b) as [| | |v|v|k] eqn:E; cbn [stored] in S; try discriminate S; apply Nat.eqb_eq in S;
      cbn [has_crc crc_code reset_crc]; unfold CRC_NO, CRC_16, CRC_32; ground_N; cbn [crc_bytes opt_bytes_eqb];
      rewrite bytes_eqb_eq, layout, crc_set, hd_set, flds_set, mid_set by (rewrite E; reflexivity);
      cbn [crc_code enc_crc_field has_crc crc_bytes]; unfold enc_bytes, Nlen; rewrite S, zeros_length;
      unfold CRC_16, CRC_32; cbn [N.of_nat Pos.of_succ_nat Pos.succ]; rewrite ?head22, ?head24;
      unfold bytes_valid_gen;
      match goal with |- context [tail_n ?n (?a ++ ?b ++ ?c ++ ?d ++ v)] =>
        replace (a ++ b ++ c ++ d ++ v) with ((a ++ b ++ c ++ d) ++ v) by (rewrite <- !app_assoc; reflexivity);
        replace (a ++ b ++ c ++ d ++ zeros n) with ((a ++ b ++ c ++ d) ++ zeros n) by (rewrite <- !app_assoc; reflexivity)
      end;
      rewrite tail_n_app, zero_tail_app by exact S; split; intros H; symmetry; exact H.
  Qed.

  (* same CRC type: value changes and short content windows are detected *)
  Theorem blk_same_type b b' :
    stored (crc b) = true -> check b = true -> dec_crc (crc b') = true -> crc_code (crc b') = crc_code (crc b) ->
    value_change (crc_width (crc_code (crc b))) (enc b) (enc b') \/
    window_change (crc_width (crc_code (crc b))) (enc b) (enc b') ->
    check b' = false.
  Proof.
    intros S V D C H. pose proof (dec_crc_stored _ _ D S C) as S'.
    apply (check_iff b S) in V. destruct (check b') eqn:V'; [exfalso|reflexivity].
    apply (check_iff b' S') in V'. rewrite C in V'.
    destruct H as [H|H]; [exact (bytes_value_change _ _ _ V H V')|exact (bytes_window_change _ _ _ V H V')].
  Qed.

  Lemma code_byte b : stored (crc b) = true -> enc_uint (crc_code (crc b)) = [n2b (crc_code (crc b))] /\ crc_code (crc b) < 24.
  Proof. intros S. destruct (stored_code _ S) as [[->| ->] _]; split; try reflexivity; unfold CRC_16, CRC_32; lia. Qed.

  (* the CRC type is determined by the bytes up to and including the CRC-type byte *)
  Lemma code_preserved b b' pre y y' :
    stored (crc b) = true -> enc b = pre ++ y -> enc b' = pre ++ y' -> (length (hd b :: flds b) < length pre)%nat ->
    crc_code (crc b') = crc_code (crc b).
  Proof.
    intros S E E' L. destruct (code_byte b S) as [Hc Hlt].
    rewrite (layout b), Hc in E. rewrite (layout b') in E'.
    set (R := mid b ++ enc_crc_field (crc b)) in *. set (R' := mid b' ++ enc_crc_field (crc b')) in *. clearbody R R'.
    assert (Hpre : pre = (hd b :: flds b) ++ n2b (crc_code (crc b)) :: firstn (length pre - length (hd b :: flds b) - 1) R).
    { apply (f_equal (firstn (length pre))) in E. rewrite (firstn_app_exact pre y) in E by reflexivity.
      etransitivity; [symmetry; exact E|]. rewrite firstn_app. rewrite firstn_all2 by lia. f_equal.
      destruct (length pre - length (hd b :: flds b))%nat as [|k] eqn:Ek; [lia|]. cbn [app firstn]. f_equal. f_equal. lia. }
    rewrite Hpre in E'. rewrite <- !app_assoc in E'. cbn [app] in E'. injection E' as Eh E'.
    apply flds_free in E' as [_ E']. apply enc_uint_first_small in E'; [exact E'|exact Hlt].
  Qed.
  (* ... also when only the array head was touched *)
  Lemma code_preserved_head b b' x x' suf :
    stored (crc b) = true -> enc b = x :: suf -> enc b' = x' :: suf -> crc_code (crc b') = crc_code (crc b).
  Proof.
    intros S E E'. destruct (code_byte b S) as [Hc Hlt]. rewrite (layout b), Hc in E. rewrite (layout b') in E'.
    cbn [app] in E, E'. injection E as _ E. injection E' as _ E'. rewrite <- E in E'.
    apply flds_free in E' as [_ E']. cbn [app] in E'. apply enc_uint_first_small in E'; [exact E'|exact Hlt].
  Qed.

  (* a flipped bit in the CRC-type byte never yields the encoding of a block *)
  Lemma crc_type_flip_rejected b b' x suf m :
    stored (crc b) = true -> enc b = (hd b :: flds b) ++ x :: suf -> enc b' = (hd b :: flds b) ++ flip x m :: suf ->
    In m bit_masks -> False.
  Proof.
    intros S E E' Hm. destruct (code_byte b S) as [Hc Hlt]. destruct (stored_code _ S) as [Hcode Hhas].
    rewrite (layout b), Hc in E. apply app_inv_head in E. cbn [app] in E. injection E as Ex _.
    rewrite (layout b') in E'. cbn [app] in E'. injection E' as Eh E'. apply flds_free in E' as [Ef E'].
    assert (Hc' : crc_code (crc b') = CRC_16 \/ crc_code (crc b') = CRC_32).
    { pose proof (hd_has b' b Eh) as Hh. destruct (stored_code _ S) as [_ Hb]. rewrite Hb in Hh.
      destruct (crc b'); cbn [has_crc] in Hh; try discriminate Hh; cbn [crc_code]; auto. }
    assert (Hf : b2n (flip x m) = crc_code (crc b')).
    { destruct Hc' as [Hc'|Hc']; rewrite Hc' in *; cbn [app] in E'; injection E' as E' _; rewrite <- E'; reflexivity. }
    rewrite flip_b2n in Hf by exact Hm. rewrite <- Ex in Hf. rewrite b2n_n2b in Hf by lia.
    cbn [bit_masks In] in Hm.
    destruct Hcode as [Hcode|Hcode]; destruct Hc' as [Hc'|Hc']; rewrite Hcode, Hc' in Hf;
      repeat (destruct Hm as [<-|Hm]; [vm_compute in Hf; discriminate Hf|]); contradiction.
  Qed.

  Lemma enc_length b : stored (crc b) = true ->
    length (enc b) = (length (hd b :: flds b) + 1 + length (mid b) + 1 + crc_width (crc_code (crc b)))%nat.
  Proof.
    intros S. destruct (code_byte b S) as [Hc _]. rewrite (layout b), Hc, !app_length.
    destruct (crc b) as [| | |v|v|k]; cbn [stored] in S; try discriminate S; apply Nat.eqb_eq in S;
      cbn [enc_crc_field has_crc crc_bytes crc_code]; unfold enc_bytes, Nlen, crc_width; rewrite app_length, S;
      unfold CRC_16, CRC_32; ground_N; cbn [length N.of_nat Pos.of_succ_nat Pos.succ]; rewrite ?head22, ?head24; cbn [length]; lia.
  Qed.

  (* any change of the CRC value: the CRC type is in front of it, hence unchanged *)
  Theorem blk_value_change b b' :
    stored (crc b) = true -> check b = true -> dec_crc (crc b') = true ->
    value_change (crc_width (crc_code (crc b))) (enc b) (enc b') -> check b' = false.
  Proof.
    intros S V D H. pose proof H as (L & P & Hne). pose proof (enc_length b S) as Lb.
    assert (C : crc_code (crc b') = crc_code (crc b)).
    { apply (code_preserved b b' (firstn (length (enc b) - crc_width (crc_code (crc b))) (enc b))
               (skipn (length (enc b) - crc_width (crc_code (crc b))) (enc b))
               (skipn (length (enc b) - crc_width (crc_code (crc b))) (enc b')) S).
      - symmetry. apply firstn_skipn.
      - rewrite <- P. symmetry. apply firstn_skipn.
      - rewrite firstn_length. lia. }
    apply (blk_same_type b b' S V D C). left. exact H.
  Qed.

  (* a change confined to crc_width consecutive content bytes, the CRC type being the same *)
  Theorem blk_window_change b b' :
    stored (crc b) = true -> check b = true -> dec_crc (crc b') = true -> crc_code (crc b') = crc_code (crc b) ->
    window_change (crc_width (crc_code (crc b))) (enc b) (enc b') -> check b' = false.
  Proof. intros S V D C H. apply (blk_same_type b b' S V D C). right. exact H. Qed.

  (* one flipped bit anywhere in the block, whatever CRC type the result carries *)
  Theorem blk_single_bit b b' i :
    stored (crc b) = true -> check b = true -> dec_crc (crc b') = true ->
    bit_flip_at i (enc b) (enc b') -> check b' = false.
  Proof.
    intros S V D (pre & x & suf & m & E & E' & Hm & Li).
    assert (S' : stored (crc b') = true).
    { destruct pre as [|h pre].
      - cbn [app] in E, E'. apply (dec_crc_stored _ _ D S). eapply code_preserved_head; eauto.
      - apply dec_has_stored; [exact D|]. destruct (stored_code _ S) as [_ Hh]. rewrite <- Hh. apply hd_has.
        rewrite (layout b) in E. rewrite (layout b') in E'. cbn [app] in E, E'.
        injection E as E1 _. injection E' as E1' _. rewrite E1, E1'. reflexivity. }
    destruct (check b') eqn:V'; [exfalso|reflexivity].
    apply (check_iff b S) in V. apply (check_iff b' S') in V'.
    apply bytes_valid_even in V. apply bytes_valid_even in V'.
    rewrite E in V. rewrite E', lpar_flip, V in V' by exact Hm. discriminate V'.
  Qed.
End Block.

(* ---------- the two block kinds ---------- *)
Definition c_hd (c : canonical) : byte := n2b (128 + (if has_crc (c_crc c) then 6 else 5)).
Definition c_flds (c : canonical) : list byte := enc_uint (c_type c) ++ enc_uint (c_num c) ++ enc_uint (c_flags c).
Definition c_mid (c : canonical) : list byte :=
  match c_data c with Data p => enc_bytes p | Unknown p => enc_bytes p | d => enc_bytes (enc_cdata d) end.
Definition p_hd (p : primary) : byte := n2b (128 + primary_num_elems p).
Definition p_flds (p : primary) : list byte := enc_uint (p_version p) ++ enc_uint (p_flags p).
Definition p_mid (p : primary) : list byte :=
  enc_eid (p_dst p) ++ enc_eid (p_src p) ++ enc_eid (p_rpt p) ++
  (enc_arr 2 ++ enc_uint (p_time p) ++ enc_uint (p_seq p)) ++ enc_uint (p_lifetime p) ++
  (if has_fragmentation p then enc_uint (p_frag_off p) ++ enc_uint (p_total_len p) else []).

Lemma c_layout c : enc_canonical c = (c_hd c :: c_flds c) ++ enc_uint (crc_code (c_crc c)) ++ c_mid c ++ enc_crc_field (c_crc c).
Proof. unfold enc_canonical, c_hd, c_flds, c_mid. destruct (has_crc (c_crc c)); cbn [app]; rewrite <- ?app_assoc; reflexivity. Qed.
Lemma p_layout p : enc_primary p = (p_hd p :: p_flds p) ++ enc_uint (crc_code (p_crc p)) ++ p_mid p ++ enc_crc_field (p_crc p).
Proof.
  unfold enc_primary, p_hd, p_flds, p_mid, primary_num_elems.
  destruct (has_crc (p_crc p)), (has_fragmentation p); cbn [app]; rewrite <- ?app_assoc; reflexivity.
Qed.
Lemma c_hd_set c k : has_crc k = has_crc (c_crc c) -> c_hd (set_c_crc c k) = c_hd c.
Proof. intros H. unfold c_hd. rewrite c_crc_set, H. reflexivity. Qed.
Lemma p_hd_set p k : has_crc k = has_crc (p_crc p) -> p_hd (set_p_crc p k) = p_hd p.
Proof. intros H. unfold p_hd, primary_num_elems. rewrite p_crc_set, H. destruct p; reflexivity. Qed.
Lemma c_flds_free c c' r r' : c_flds c ++ r = c_flds c' ++ r' -> c_flds c = c_flds c' /\ r = r'.
Proof.
  unfold c_flds. rewrite <- !app_assoc. intros H.
  apply enc_uint_prefix_free in H as [E1 H]. apply enc_uint_prefix_free in H as [E2 H].
  apply enc_uint_prefix_free in H as [E3 H]. rewrite E1, E2, E3. split; [reflexivity|exact H].
Qed.
Lemma p_flds_free p p' r r' : p_flds p ++ r = p_flds p' ++ r' -> p_flds p = p_flds p' /\ r = r'.
Proof.
  unfold p_flds. rewrite <- !app_assoc. intros H.
  apply enc_uint_prefix_free in H as [E1 H]. apply enc_uint_prefix_free in H as [E2 H].
  rewrite E1, E2. split; [reflexivity|exact H].
Qed.
Lemma c_hd_has c c' : c_hd c = c_hd c' -> has_crc (c_crc c) = has_crc (c_crc c').
Proof. unfold c_hd. destruct (has_crc (c_crc c)), (has_crc (c_crc c')); intros H; try reflexivity; vm_compute in H; discriminate H. Qed.
Lemma p_hd_has p p' : p_hd p = p_hd p' -> has_crc (p_crc p) = has_crc (p_crc p').
Proof.
  unfold p_hd, primary_num_elems.
  destruct (has_crc (p_crc p)), (has_crc (p_crc p')), (has_fragmentation p), (has_fragmentation p'); intros H;
    try reflexivity; vm_compute in H; discriminate H.
Qed.

Lemma c_check_is c : canonical_check_crc c = check canonical c_crc set_c_crc enc_canonical c. Proof. reflexivity. Qed.
Lemma p_check_is p : primary_check_crc p = check primary p_crc set_p_crc enc_primary p. Proof. reflexivity. Qed.

Ltac inst_c thm :=
  intros; eapply (thm canonical c_crc set_c_crc enc_canonical c_hd c_flds c_mid); try eassumption;
  first [exact c_layout | exact c_hd_set | exact c_flds_free | exact c_hd_has | (intros; reflexivity)].
Ltac inst_p thm :=
  intros; eapply (thm primary p_crc set_p_crc enc_primary p_hd p_flds p_mid); try eassumption;
  first [exact p_layout | exact p_hd_set | exact p_flds_free | exact p_hd_has | (intros; reflexivity)].

Theorem canonical_value_change c c' :
  stored (c_crc c) = true -> canonical_check_crc c = true -> dec_crc (c_crc c') = true ->
  value_change (crc_width (crc_code (c_crc c))) (enc_canonical c) (enc_canonical c') -> canonical_check_crc c' = false.
Proof. inst_c blk_value_change. Qed.
Theorem canonical_window_change c c' :
  stored (c_crc c) = true -> canonical_check_crc c = true -> dec_crc (c_crc c') = true ->
  crc_code (c_crc c') = crc_code (c_crc c) ->
  window_change (crc_width (crc_code (c_crc c))) (enc_canonical c) (enc_canonical c') -> canonical_check_crc c' = false.
Proof. inst_c blk_window_change. Qed.
Theorem canonical_single_bit c c' i :
  stored (c_crc c) = true -> canonical_check_crc c = true -> dec_crc (c_crc c') = true ->
  bit_flip_at i (enc_canonical c) (enc_canonical c') -> canonical_check_crc c' = false.
Proof. inst_c blk_single_bit. Qed.
Theorem primary_value_change p p' :
  stored (p_crc p) = true -> primary_check_crc p = true -> dec_crc (p_crc p') = true ->
  value_change (crc_width (crc_code (p_crc p))) (enc_primary p) (enc_primary p') -> primary_check_crc p' = false.
Proof. inst_p blk_value_change. Qed.
Theorem primary_window_change p p' :
  stored (p_crc p) = true -> primary_check_crc p = true -> dec_crc (p_crc p') = true ->
  crc_code (p_crc p') = crc_code (p_crc p) ->
  window_change (crc_width (crc_code (p_crc p))) (enc_primary p) (enc_primary p') -> primary_check_crc p' = false.
Proof. inst_p blk_window_change. Qed.
Theorem primary_single_bit p p' i :
  stored (p_crc p) = true -> primary_check_crc p = true -> dec_crc (p_crc p') = true ->
  bit_flip_at i (enc_primary p) (enc_primary p') -> primary_check_crc p' = false.
Proof. inst_p blk_single_bit. Qed.

(* ---------- the bundle ---------- *)
Definition blocks (b : bundle) : list (list byte) := enc_primary (b_primary b) :: map enc_canonical (b_canonicals b).
Definition block_crcs (b : bundle) : list crc_value := p_crc (b_primary b) :: map c_crc (b_canonicals b).
Definition all_crc (b : bundle) : bool :=
  forallb (fun c => (crc_code c =? CRC_16) || (crc_code c =? CRC_32)) (block_crcs b).

Lemma bundle_bytes_blocks b : bundle_bytes b = n2b 159 :: concat (blocks b) ++ [n2b 255].
Proof. unfold bundle_bytes, blocks. cbn [concat]. rewrite <- app_assoc. reflexivity. Qed.

(* equal block lengths + equal concatenation = equal blocks *)
Lemma concat_lengths_inj : forall l l' : list (list byte),
  map (@length byte) l = map (@length byte) l' -> concat l = concat l' -> l = l'.
Proof.
  induction l as [|x l IH]; intros [|y l'] L C; try discriminate L; [reflexivity|].
  cbn [map concat] in *. injection L as Lx L. destruct (app_inv_length _ _ _ _ C Lx) as [-> C'].
  f_equal. apply IH; assumption.
Qed.

Inductive corruption := CrcValueChange | ContentWindow | SingleBit.
Definition block_corrupted (cls : corruption) (code : N) (X X' : list byte) : Prop :=
  match cls with
  | CrcValueChange => value_change (crc_width code) X X'
  | ContentWindow => window_change (crc_width code) X X'
  | SingleBit => exists i, bit_flip_at i X X'
  end.
Lemma block_corrupted_length cls code X X' : block_corrupted cls code X X' -> length X' = length X.
Proof.
  destruct cls; cbn [block_corrupted].
  - intros (L & _). exact L.
  - intros (pre & win & win' & suf & -> & -> & L & _). rewrite !app_length, L. reflexivity.
  - intros (i & pre & x & suf & m & -> & -> & _). rewrite !app_length. reflexivity.
Qed.

(* r = the encoding of b with the bytes X of block k (0 = primary block) replaced by X' *)
Definition corrupted_bundle_bytes (cls : corruption) (b : bundle) (k : nat) (r : list byte) : Prop :=
  exists pre X X' post, blocks b = pre ++ X :: post /\ length pre = k /\
    block_corrupted cls (crc_code (nth k (block_crcs b) CrcNo)) X X' /\
    r = n2b 159 :: concat (pre ++ X' :: post) ++ [n2b 255].
(* the property's alarm condition: the decoded blocks, each encoded with its STORED CRC value, give back the
   received bytes, and occupy the byte ranges of the original blocks *)
Definition reencodes_to (b b' : bundle) (r : list byte) : Prop :=
  bundle_bytes b' = r /\ map (@length byte) (blocks b') = map (@length byte) (blocks b).

Lemma filled_stored c : crc_filled c = true -> (crc_code c =? CRC_16) || (crc_code c =? CRC_32) = true -> stored c = true.
Proof. destruct c; cbn [crc_filled stored crc_code]; intros F H; try discriminate F; try exact F. vm_compute in H. discriminate H. Qed.

Lemma block_detect_c cls c c' :
  stored (c_crc c) = true -> canonical_check_crc c = true -> dec_crc (c_crc c') = true ->
  block_corrupted cls (crc_code (c_crc c)) (enc_canonical c) (enc_canonical c') ->
  (cls = ContentWindow -> crc_code (c_crc c') = crc_code (c_crc c)) -> canonical_check_crc c' = false.
Proof.
  intros S V D H T. destruct cls; cbn [block_corrupted] in H.
  - exact (canonical_value_change c c' S V D H).
  - exact (canonical_window_change c c' S V D (T eq_refl) H).
  - destruct H as (i & H). exact (canonical_single_bit c c' i S V D H).
Qed.
Lemma block_detect_p cls p p' :
  stored (p_crc p) = true -> primary_check_crc p = true -> dec_crc (p_crc p') = true ->
  block_corrupted cls (crc_code (p_crc p)) (enc_primary p) (enc_primary p') ->
  (cls = ContentWindow -> crc_code (p_crc p') = crc_code (p_crc p)) -> primary_check_crc p' = false.
Proof.
  intros S V D H T. destruct cls; cbn [block_corrupted] in H.
  - exact (primary_value_change p p' S V D H).
  - exact (primary_window_change p p' S V D (T eq_refl) H).
  - destruct H as (i & H). exact (primary_single_bit p p' i S V D H).
Qed.

Lemma map_split_at {A B} (f : A -> B) l pre X post :
  map f l = pre ++ X :: post -> exists l1 a l2, l = l1 ++ a :: l2 /\ map f l1 = pre /\ f a = X /\ map f l2 = post /\ length l1 = length pre.
Proof.
  intros H. apply map_eq_app in H as (l1 & r & -> & H1 & H2). apply map_eq_cons in H2 as (a & l2 & -> & Ha & H2).
  exists l1, a, l2. split; [reflexivity|split; [exact H1|split; [exact Ha|split; [exact H2|]]]].
  rewrite <- H1. symmetry. apply map_length.
Qed.

(* the core statement on any bundle whose blocks carry stored CRC values that pass the check *)
Theorem corruption_detected cls b b' k r :
  crcs_filled b = true -> all_crc b = true -> crc_valid b = true ->
  corrupted_bundle_bytes cls b k r ->
  decodable_shape b' = true -> reencodes_to b b' r ->
  (cls = ContentWindow -> crc_code (nth k (block_crcs b') CrcNo) = crc_code (nth k (block_crcs b) CrcNo)) ->
  crc_valid b' = false.
Proof.
  intros F A V (pre & X & X' & post & Hb & Lk & Hc & Hr) D (Hre & Hlen) T.
  pose proof (block_corrupted_length _ _ _ _ Hc) as LX.
  assert (Hb' : blocks b' = pre ++ X' :: post).
  { apply concat_lengths_inj.
    - rewrite Hlen, Hb, !map_app. cbn [map]. rewrite LX. reflexivity.
    - rewrite bundle_bytes_blocks, Hr in Hre. injection Hre as Hre. apply app_inv_tail in Hre. exact Hre. }
  destruct b as [p cs], b' as [p' cs'].
  assert (A' : (crc_code (p_crc p) =? CRC_16) || (crc_code (p_crc p) =? CRC_32) = true /\
               forallb (fun c => (crc_code c =? CRC_16) || (crc_code c =? CRC_32)) (map c_crc cs) = true).
  { apply andb_true_iff. exact A. }
  clear A. destruct A' as [Ap Ac].
  unfold blocks, block_crcs, crcs_filled, crc_valid, decodable_shape in *.
  cbn [b_primary b_canonicals] in *.
  apply andb_true_iff in F as [Fp Fc]. apply andb_true_iff in V as [Vp Vc].
  apply andb_true_iff in D as [Dp Dc].
  destruct pre as [|P0 pre]; cbn [length] in Lk; subst k.
  - cbn [app nth] in *. injection Hb as HX _. injection Hb' as HX' _. subst X X'.
    assert (Dcrc : dec_crc (p_crc p') = true) by (unfold dec_primary in Dp; bools Dp; assumption).
    rewrite (block_detect_p cls p p' (filled_stored _ Fp Ap) Vp Dcrc Hc T). reflexivity.
  - cbn [app] in Hb, Hb'. injection Hb as _ Hb. injection Hb' as _ Hb'.
    apply map_split_at in Hb as (l1 & c & l2 & -> & H1 & HX & _ & L1).
    apply map_split_at in Hb' as (l1' & c' & l2' & -> & H1' & HX' & _ & L1'). subst X X'.
    assert (N1 : nth (Datatypes.S (length pre)) (p_crc p :: map c_crc (l1 ++ c :: l2)) CrcNo = c_crc c).
    { cbn [nth]. rewrite map_app. cbn [map]. rewrite <- L1, <- (map_length c_crc l1). apply nth_middle. }
    assert (N1' : nth (Datatypes.S (length pre)) (p_crc p' :: map c_crc (l1' ++ c' :: l2')) CrcNo = c_crc c').
    { cbn [nth]. rewrite map_app. cbn [map]. rewrite <- L1', <- (map_length c_crc l1'). apply nth_middle. }
    rewrite N1 in *. rewrite N1' in T.
    rewrite forallb_forall in Fc, Vc, Dc. rewrite forallb_forall in Ac.
    assert (Ic : In c (l1 ++ c :: l2)) by (apply in_elt).
    assert (Ic' : In c' (l1' ++ c' :: l2')) by (apply in_elt).
    assert (Dcrc : dec_crc (c_crc c') = true) by (specialize (Dc c' Ic'); unfold dec_canonical in Dc; bools Dc; assumption).
    assert (Acc : (crc_code (c_crc c) =? CRC_16) || (crc_code (c_crc c) =? CRC_32) = true).
    { apply Ac. apply in_map. exact Ic. }
    pose proof (block_detect_c cls c c' (filled_stored _ (Fc c Ic) Acc) (Vc c Ic) Dcrc Hc T) as Hf.
    apply andb_false_iff. right. rewrite forallb_app. cbn [forallb]. rewrite Hf.
    rewrite andb_false_r. reflexivity.
Qed.

(* for the bundles the library emits, and for what its decoder returns on the corrupted bytes *)
Theorem no_silent_corruption cls b0 b' k r :
  wf_bundle b0 = true -> all_crc (snd (to_cbor b0)) = true ->
  corrupted_bundle_bytes cls (snd (to_cbor b0)) k r ->
  from_cbor r = Ok b' -> reencodes_to (snd (to_cbor b0)) b' r ->
  (cls = ContentWindow ->
     crc_code (nth k (block_crcs b') CrcNo) = crc_code (nth k (block_crcs (snd (to_cbor b0))) CrcNo)) ->
  crc_valid b' = false.
Proof.
  intros W A Hc Hd Hr T. destruct (bundle_calc_facts b0 W) as (_ & F & _ & _).
  exact (corruption_detected cls _ b' k r F A (fresh_crc_valid b0 W) Hc (from_cbor_image r b' Hd) Hr T).
Qed.

(* the CRC types survive to_cbor *)
Lemma all_crc_to_cbor b0 : wf_bundle b0 = true -> all_crc (snd (to_cbor b0)) = all_crc b0.
Proof.
  intros W. destruct b0 as [p cs]. unfold wf_bundle in W. cbn [b_primary b_canonicals] in W. apply andb_true_iff in W as [Wp Wc].
  unfold to_cbor, bundle_calculate_crc, all_crc, block_crcs. cbn [snd b_primary b_canonicals forallb].
  destruct (primary_update_facts p Wp) as (_ & _ & (_ & Hp) & _). rewrite <- Hp. f_equal.
  rewrite forallb_forall in Wc. clear Wp Hp. induction cs as [|c cs IH]; [reflexivity|].
  cbn [map forallb]. destruct (canonical_update_facts c (Wc c (or_introl eq_refl))) as (_ & _ & (_ & Hc) & _).
  rewrite <- Hc. f_equal. apply IH. intros x Hx. apply Wc. right. exact Hx.
Qed.

(* an uncorrupted bundle passes; a bundle without CRC fields passes trivially *)
Theorem uncorrupted_passes b0 : wf_bundle b0 = true ->
  exists b', from_cbor (fst (to_cbor b0)) = Ok b' /\ b' = snd (to_cbor b0) /\ crc_valid b' = true.
Proof.
  intros W. pose proof (to_cbor_roundtrip b0 W) as R. pose proof (fresh_crc_valid b0 W) as V.
  destruct (to_cbor b0) as [bs b']. cbn [fst snd] in *. destruct R as (R & _). exists b'. split; [exact R|split; [reflexivity|exact V]].
Qed.
Theorem no_crc_passes b : forallb (fun c => negb (has_crc c)) (block_crcs b) = true -> crc_valid b = true.
Proof.
  destruct b as [p cs]. unfold block_crcs, crc_valid. cbn [b_primary b_canonicals forallb]. intros H.
  apply andb_true_iff in H as [Hp Hc]. apply andb_true_iff. split.
  - unfold primary_check_crc. apply negb_true_iff in Hp. rewrite Hp. reflexivity.
  - rewrite forallb_forall in *. intros c Ic. unfold canonical_check_crc.
    specialize (Hc (c_crc c) (in_map c_crc cs c Ic)). apply negb_true_iff in Hc. rewrite Hc. reflexivity.
Qed.

(* ---------- the same-CRC-type premise of the window class cannot be dropped ---------- *)
(* The statement for all three classes without the premise ... *)
Definition no_silent_corruption_full : Prop :=
  forall cls b0 b' k r,
    wf_bundle b0 = true -> all_crc (snd (to_cbor b0)) = true ->
    corrupted_bundle_bytes cls (snd (to_cbor b0)) k r ->
    from_cbor r = Ok b' -> reencodes_to (snd (to_cbor b0)) b' r ->
    crc_valid b' = false.
(* ... is false for the wire format itself (hence for every conformant decoder): a CRC-16 payload block
       86 01 01 00 01 4c | 00 36 55 7d 00 00 00 00 00 00 44 6d | 42 f3 a9
   whose CRC-type byte and payload-length head (a two-byte window: 01 4c -> 02 4a) are overwritten reads as a
   CRC-32C block of the same length with a ten-byte payload and the "CRC value" 6d 42 f3 a9 made of the last
   payload byte, the old byte-string head and the old CRC-16 value - and that value IS the CRC-32C of the new
   block (found by a 2^32 search; the window flips an even number of bits, so the parity argument that settles
   the single-bit class does not apply). *)
Definition w_eid : eid := Ipn ENDPOINT_URI_SCHEME_IPN 1 1.
Definition w_payload : list byte := map n2b [0; 54; 85; 125; 0; 0; 0; 0; 0; 0; 68; 109].
Definition w_b0 : bundle :=
  mkbundle (mkprimary 7 0 Crc16Empty w_eid w_eid w_eid 0 0 3600000 0 0)
           [mkcanonical PAYLOAD_BLOCK 1 0 Crc16Empty (Data w_payload)].
Definition w_X' : list byte := map n2b [134; 1; 1; 0; 2; 74; 0; 54; 85; 125; 0; 0; 0; 0; 0; 0; 68; 109; 66; 243; 169].
Definition w_r : list byte := n2b 159 :: enc_primary (b_primary (snd (to_cbor w_b0))) ++ w_X' ++ [n2b 255].
Definition w_b' : bundle :=
  mkbundle (b_primary (snd (to_cbor w_b0)))
           [mkcanonical PAYLOAD_BLOCK 1 0 (Crc32 (map n2b [109; 66; 243; 169])) (Data (firstn 10 w_payload))].

Theorem no_silent_corruption_full_refuted : ~ no_silent_corruption_full.
Proof.
  intros H. specialize (H ContentWindow w_b0 w_b' 1%nat w_r).
  assert (E : crc_valid w_b' = true) by (vm_compute; reflexivity).
  rewrite H in E; [discriminate E| | | | |].
  - vm_compute. reflexivity.
  - vm_compute. reflexivity.
  - exists [enc_primary (b_primary (snd (to_cbor w_b0)))],
           (map n2b [134; 1; 1; 0; 1; 76; 0; 54; 85; 125; 0; 0; 0; 0; 0; 0; 68; 109; 66; 243; 169]), w_X', [].
    split; [vm_compute; reflexivity|split; [reflexivity|split]].
    + exists (map n2b [134; 1; 1; 0]), (map n2b [1; 76]), (map n2b [2; 74]),
             (map n2b [0; 54; 85; 125; 0; 0; 0; 0; 0; 0; 68; 109; 66; 243; 169]).
      split; [vm_compute; reflexivity|split; [vm_compute; reflexivity|split; [reflexivity|split; [|split]]]].
      * vm_compute. repeat constructor.
      * vm_compute. discriminate.
      * vm_compute. repeat constructor.
    + unfold w_r. cbn [app concat]. rewrite app_nil_r. reflexivity.
  - vm_compute. reflexivity.
  - split; vm_compute; reflexivity.
Qed.
