(* Algebra of the reflected CRC shift register (Spec/CrcSpec.v):
   - the one-bit update crc_step is GF(2)-linear, and injective on w-bit states when bit w-1 of the
     reflected polynomial is set;
   - absorbing a list of bytes equals 8*len register steps applied to (state xor little-endian value
     of the bytes)  [run_le];
   - hence any change confined to a window of at most w/8 consecutive bytes changes the CRC
     [crc_detects_window], instantiated for CRC-16/X.25 and CRC-32C;
   - CRC values fit the register width [crc16_lt, crc32c_lt].
   No axioms. *)
From BP7 Require Import Base.Prelude Gen.Consts Spec.CrcSpec.

(* ---------- generic helpers ---------- *)
Lemma iter_add {A} (f : A -> A) (a b : nat) (x : A) : iter (a + b)%nat f x = iter b f (iter a f x).
Proof. revert x; induction a as [|a IH]; intros x; cbn [iter Nat.add]; auto. Qed.

Lemma pow2_pos n : 0 < 2 ^ n.
Proof. apply N.neq_0_lt_0, N.pow_nonzero; lia. Qed.

Lemma log2_lt_of_lt n x : 0 < n -> x < 2 ^ n -> N.log2 x < n.
Proof.
  intros Hn H. destruct (N.eq_dec x 0) as [->|Hx]; [exact Hn|]. apply N.log2_lt_pow2; lia.
Qed.

Lemma lxor_lt n x y : x < 2 ^ n -> y < 2 ^ n -> N.lxor x y < 2 ^ n.
Proof.
  intros Hx Hy.
  destruct (N.eq_dec (N.lxor x y) 0) as [->|Hne]; [apply pow2_pos|].
  destruct (N.eq_dec n 0) as [->|Hn].
  - rewrite N.pow_0_r in *. assert (x = 0) as -> by lia. assert (y = 0) as -> by lia.
    exfalso; apply Hne; reflexivity.
  - apply N.log2_lt_pow2; [lia|]. eapply N.le_lt_trans; [apply N.log2_lxor|].
    apply N.max_lub_lt; apply log2_lt_of_lt; solve [assumption | lia].
Qed.

Lemma lxor_cancel_r a b c : N.lxor a c = N.lxor b c -> a = b.
Proof.
  intros H. assert (H0 : N.lxor (N.lxor a c) c = N.lxor (N.lxor b c) c) by (rewrite H; reflexivity).
  rewrite !N.lxor_assoc, !N.lxor_nilpotent, !N.lxor_0_r in H0. exact H0.
Qed.
Lemma lxor_cancel_l a b c : N.lxor c a = N.lxor c b -> a = b.
Proof. rewrite (N.lxor_comm c a), (N.lxor_comm c b). apply lxor_cancel_r. Qed.

Lemma bits_above n x : x < 2 ^ n -> N.testbit x n = false.
Proof.
  intros H. destruct (N.eq_dec x 0) as [->|Hx]; [apply N.bits_0|].
  apply N.bits_above_log2. apply N.log2_lt_pow2; lia.
Qed.

Lemma crc_run_cons P s b l : crc_run P s (b :: l) = crc_run P (crc_byte P s b) l.
Proof. reflexivity. Qed.
Lemma crc_run_nil P s : crc_run P s [] = s.
Proof. reflexivity. Qed.
Lemma crc_run_app P s l1 l2 : crc_run P s (l1 ++ l2) = crc_run P (crc_run P s l1) l2.
Proof. unfold crc_run. apply fold_left_app. Qed.

(* little-endian value of a byte list (xor of disjoint bit fields = sum) *)
Fixpoint le_val (l : list byte) : N :=
  match l with [] => 0 | b :: r => N.lxor (b2n b) (N.shiftl (le_val r) 8) end.

Lemma b2n_lt_pow b : b2n b < 2 ^ 8.
Proof. pose proof (b2n_lt b) as H. assert (E : 2 ^ 8 = 256) by (vm_compute; reflexivity). rewrite E. exact H. Qed.

Lemma le_val_lt l : le_val l < 2 ^ (8 * N.of_nat (length l)).
Proof.
  induction l as [|b r IH]; cbn [le_val length].
  - apply pow2_pos.
  - rewrite Nat2N.inj_succ. set (k := N.of_nat (length r)) in *.
    replace (8 * N.succ k) with (8 * k + 8) by lia.
    apply lxor_lt.
    + eapply N.lt_le_trans; [apply b2n_lt_pow|]. apply N.pow_le_mono_r; lia.
    + rewrite N.shiftl_mul_pow2, N.pow_add_r. apply N.mul_lt_mono_pos_r; [apply pow2_pos|exact IH].
Qed.

Lemma le_val_cons_hi b X : N.shiftr (N.lxor (b2n b) (N.shiftl X 8)) 8 = X.
Proof.
  rewrite N.shiftr_lxor, N.shiftr_shiftl_l by lia. rewrite N.sub_diag, N.shiftl_0_r.
  rewrite (N.shiftr_eq_0 (b2n b) 8); [apply N.lxor_0_l|].
  apply log2_lt_of_lt; [lia|apply b2n_lt_pow].
Qed.

Lemma le_val_inj : forall l l', length l = length l' -> le_val l = le_val l' -> l = l'.
Proof.
  induction l as [|b r IH]; intros [|b' r'] Hlen H; cbn [length] in Hlen; try discriminate; [reflexivity|].
  cbn [le_val] in H.
  assert (HX : le_val r = le_val r').
  { rewrite <- (le_val_cons_hi b (le_val r)), <- (le_val_cons_hi b' (le_val r')), H. reflexivity. }
  rewrite HX in H. apply lxor_cancel_r in H. apply b2n_inj in H.
  f_equal; [exact H|]. apply IH; [lia|exact HX].
Qed.

(* ---------- the register update, for a fixed reflected polynomial ---------- *)
Section Step.
Variable P : N.

Lemma step_lin a b : crc_step P (N.lxor a b) = N.lxor (crc_step P a) (crc_step P b).
Proof.
  unfold crc_step. rewrite N.shiftr_lxor.
  assert (N.odd (N.lxor a b) = xorb (N.odd a) (N.odd b)) as ->.
  { rewrite <- !N.bit0_odd. apply N.lxor_spec. }
  destruct (N.odd a), (N.odd b); cbn [xorb];
  apply N.bits_inj; intro n; rewrite ?N.lxor_spec;
  destruct (N.testbit (N.shiftr a 1) n), (N.testbit (N.shiftr b 1) n), (N.testbit P n); reflexivity.
Qed.

Lemma step_0 : crc_step P 0 = 0.
Proof. reflexivity. Qed.

(* no feedback fires while shifting out zero bits *)
Lemma step_shiftl c n : crc_step P (N.shiftl c (N.succ n)) = N.shiftl c n.
Proof.
  unfold crc_step.
  assert (N.odd (N.shiftl c (N.succ n)) = false) as ->.
  { rewrite <- N.bit0_odd. apply N.shiftl_spec_low. lia. }
  rewrite N.shiftr_shiftl_l by lia. f_equal. lia.
Qed.

Lemma iter_shiftl : forall (n : nat) c, iter n (crc_step P) (N.shiftl c (N.of_nat n)) = c.
Proof.
  induction n as [|n IH]; intros c.
  - cbn [iter]. change (N.of_nat 0) with 0. apply N.shiftl_0_r.
  - cbn [iter]. rewrite Nat2N.inj_succ, step_shiftl. apply IH.
Qed.

Lemma iter_lin : forall (n : nat) a b,
    iter n (crc_step P) (N.lxor a b) = N.lxor (iter n (crc_step P) a) (iter n (crc_step P) b).
Proof. induction n as [|n IH]; intros a b; cbn [iter]; [reflexivity|]. rewrite step_lin. apply IH. Qed.

Lemma iter_0 : forall n : nat, iter n (crc_step P) 0 = 0.
Proof. induction n as [|n IH]; cbn [iter]; [reflexivity|]. rewrite step_0. exact IH. Qed.

(* absorbing bytes = shifting in their little-endian value; holds for every state and length *)
Lemma run_le : forall l s,
    crc_run P s l = iter (8 * length l) (crc_step P) (N.lxor s (le_val l)).
Proof.
  induction l as [|b r IH]; intros s.
  - cbn [length le_val]. rewrite crc_run_nil, N.lxor_0_r. reflexivity.
  - rewrite crc_run_cons, IH. cbn [length le_val].
    replace (8 * S (length r))%nat with (8 + 8 * length r)%nat by lia.
    rewrite iter_add. f_equal.
    unfold crc_byte. rewrite <- N.lxor_assoc, (iter_lin 8 (N.lxor s (b2n b)) (N.shiftl (le_val r) 8)). f_equal.
    symmetry. exact (iter_shiftl 8 (le_val r)).
Qed.

(* ---------- w-bit states ---------- *)
Variable w : N.
Hypothesis Hw8 : 8 <= w.
Hypothesis HPlt : P < 2 ^ w.

Lemma shiftr1_lt s : s < 2 ^ w -> N.shiftr s 1 < 2 ^ w.
Proof.
  intros H. rewrite N.shiftr_div_pow2. change (2 ^ 1) with 2. apply N.div_lt_upper_bound; lia.
Qed.

Lemma step_lt s : s < 2 ^ w -> crc_step P s < 2 ^ w.
Proof.
  intros H. unfold crc_step. destruct (N.odd s).
  - apply lxor_lt; [apply shiftr1_lt; exact H|exact HPlt].
  - apply shiftr1_lt; exact H.
Qed.

Lemma iter_lt : forall (n : nat) s, s < 2 ^ w -> iter n (crc_step P) s < 2 ^ w.
Proof. induction n as [|n IH]; intros s H; cbn [iter]; [exact H|]. apply IH, step_lt, H. Qed.

Lemma byte_lt_w b : b2n b < 2 ^ w.
Proof. eapply N.lt_le_trans; [apply b2n_lt_pow|]. apply N.pow_le_mono_r; lia. Qed.

Lemma crc_byte_lt s b : s < 2 ^ w -> crc_byte P s b < 2 ^ w.
Proof. intros H. unfold crc_byte. apply iter_lt, lxor_lt; [exact H|apply byte_lt_w]. Qed.

Lemma crc_run_lt : forall l s, s < 2 ^ w -> crc_run P s l < 2 ^ w.
Proof.
  induction l as [|b r IH]; intros s H; [rewrite crc_run_nil; exact H|].
  rewrite crc_run_cons. apply IH, crc_byte_lt, H.
Qed.

Hypothesis HPtop : N.testbit P (w - 1) = true.

Lemma step_ker s : s < 2 ^ w -> crc_step P s = 0 -> s = 0.
Proof.
  intros Hs H. unfold crc_step in H.
  destruct (N.odd s) eqn:Eo.
  - exfalso.
    assert (Ht : N.testbit (N.lxor (N.shiftr s 1) P) (w - 1) = true).
    { rewrite N.lxor_spec, HPtop, N.shiftr_spec by lia.
      replace (w - 1 + 1) with w by lia.
      rewrite (bits_above w s Hs). reflexivity. }
    rewrite H, N.bits_0 in Ht. discriminate.
  - apply N.bits_inj; intro n. rewrite N.bits_0.
    destruct n as [|q].
    + rewrite N.bit0_odd. exact Eo.
    + assert (Hq : N.testbit (N.shiftr s 1) (N.pos q - 1) = false) by (rewrite H; apply N.bits_0).
      rewrite N.shiftr_spec in Hq by lia.
      replace (N.pos q - 1 + 1) with (N.pos q) in Hq by lia. exact Hq.
Qed.

Lemma step_inj a b : a < 2 ^ w -> b < 2 ^ w -> crc_step P a = crc_step P b -> a = b.
Proof.
  intros Ha Hb H.
  assert (H0 : crc_step P (N.lxor a b) = 0) by (rewrite step_lin, H; apply N.lxor_nilpotent).
  apply N.lxor_eq. apply step_ker; [apply lxor_lt; assumption|exact H0].
Qed.

Lemma iter_inj : forall (n : nat) a b, a < 2 ^ w -> b < 2 ^ w ->
    iter n (crc_step P) a = iter n (crc_step P) b -> a = b.
Proof.
  induction n as [|n IH]; intros a b Ha Hb H; cbn [iter] in H; [exact H|].
  apply step_inj; [exact Ha|exact Hb|]. apply IH; [apply step_lt, Ha|apply step_lt, Hb|exact H].
Qed.

Lemma crc_byte_inj a b x : a < 2 ^ w -> b < 2 ^ w -> crc_byte P a x = crc_byte P b x -> a = b.
Proof.
  intros Ha Hb H. unfold crc_byte in H.
  apply iter_inj in H; [|apply lxor_lt; [exact Ha|apply byte_lt_w]|apply lxor_lt; [exact Hb|apply byte_lt_w]].
  apply lxor_cancel_r in H. exact H.
Qed.

(* different states stay different through any common suffix *)
Lemma crc_run_inj : forall l a b, a < 2 ^ w -> b < 2 ^ w -> crc_run P a l = crc_run P b l -> a = b.
Proof.
  induction l as [|x r IH]; intros a b Ha Hb H; [exact H|].
  rewrite !crc_run_cons in H.
  apply IH in H; [|apply crc_byte_lt, Ha|apply crc_byte_lt, Hb].
  apply crc_byte_inj in H; assumption.
Qed.

(* from a common state, two different windows of at most w/8 bytes lead to different states *)
Lemma crc_run_window s win win' :
    s < 2 ^ w -> length win = length win' -> 8 * N.of_nat (length win) <= w ->
    crc_run P s win = crc_run P s win' -> win = win'.
Proof.
  intros Hs Hlen Hk H. rewrite !run_le, <- Hlen in H.
  assert (Hb : forall l, length l = length win -> N.lxor s (le_val l) < 2 ^ w).
  { intros l Hl. apply lxor_lt; [exact Hs|].
    eapply N.lt_le_trans; [apply le_val_lt|]. apply N.pow_le_mono_r; [lia|]. rewrite Hl. exact Hk. }
  apply iter_inj in H; [|apply Hb; reflexivity|apply Hb; symmetry; exact Hlen].
  apply lxor_cancel_l in H. apply le_val_inj; assumption.
Qed.

End Step.

(* ---------- results fit the register width ---------- *)
Theorem crc_lt : forall (p : crc_params),
    (8 <= cp_width p)%nat ->
    cp_polyR p < 2 ^ N.of_nat (cp_width p) ->
    cp_init p < 2 ^ N.of_nat (cp_width p) ->
    cp_xorout p < 2 ^ N.of_nat (cp_width p) ->
    forall msg, crc p msg < 2 ^ N.of_nat (cp_width p).
Proof.
  intros p Hw HP Hi Hx msg. unfold crc. apply lxor_lt; [|exact Hx].
  apply crc_run_lt; [lia|exact HP|exact Hi].
Qed.

(* ---------- burst detection ---------- *)
(* any change confined to a window of at most w/8 consecutive bytes changes the CRC *)
Theorem crc_detects_window : forall (p : crc_params) (wbytes : nat),
    cp_width p = (8 * wbytes)%nat ->
    N.testbit (cp_polyR p) (N.of_nat (cp_width p) - 1) = true ->
    cp_polyR p < 2 ^ N.of_nat (cp_width p) ->
    cp_init p < 2 ^ N.of_nat (cp_width p) ->
    forall pre win win' suf : list byte,
      length win = length win' -> (length win <= wbytes)%nat -> win <> win' ->
      crc p (pre ++ win ++ suf) <> crc p (pre ++ win' ++ suf).
Proof.
  intros p wbytes Hwidth Htop HP Hi pre win win' suf Hlen Hk Hne Heq.
  assert (H1 : (1 <= length win)%nat).
  { destruct win as [|b0 win0]; [|cbn [length]; lia].
    destruct win' as [|b1 win1]; [exfalso; apply Hne; reflexivity|discriminate Hlen]. }
  set (w := N.of_nat (cp_width p)) in *.
  assert (Hw8 : 8 <= w) by (unfold w; lia).
  assert (Hkw : 8 * N.of_nat (length win) <= w) by (unfold w; lia).
  unfold crc in Heq. apply lxor_cancel_r in Heq.
  rewrite !crc_run_app in Heq.
  set (P := cp_polyR p) in *.
  assert (Hs : crc_run P (cp_init p) pre < 2 ^ w) by (apply crc_run_lt; assumption).
  set (s := crc_run P (cp_init p) pre) in *.
  apply (crc_run_inj P w Hw8 HP Htop) in Heq;
    [|apply crc_run_lt; assumption|apply crc_run_lt; assumption].
  apply (crc_run_window P w Hw8 HP Htop) in Heq; [|exact Hs|exact Hlen|exact Hkw].
  apply Hne, Heq.
Qed.

(* ---------- the two algorithms bp7 uses ---------- *)
Theorem crc16_detects_window : forall pre win win' suf : list byte,
    length win = length win' -> (length win <= 2)%nat -> win <> win' ->
    crc16_x25 (pre ++ win ++ suf) <> crc16_x25 (pre ++ win' ++ suf).
Proof.
  unfold crc16_x25. apply (crc_detects_window crc16_params 2); vm_compute; reflexivity.
Qed.

Theorem crc32c_detects_window : forall pre win win' suf : list byte,
    length win = length win' -> (length win <= 4)%nat -> win <> win' ->
    crc32c (pre ++ win ++ suf) <> crc32c (pre ++ win' ++ suf).
Proof.
  unfold crc32c. apply (crc_detects_window crc32_params 4); vm_compute; reflexivity.
Qed.

Theorem crc16_lt : forall msg, crc16_x25 msg < 65536.
Proof.
  intros msg.
  assert (E : 65536 = 2 ^ N.of_nat (cp_width crc16_params)) by (vm_compute; reflexivity).
  rewrite E. unfold crc16_x25. apply crc_lt; vm_compute; solve [reflexivity | repeat constructor].
Qed.

Theorem crc32c_lt : forall msg, crc32c msg < 4294967296.
Proof.
  intros msg.
  assert (E : 4294967296 = 2 ^ N.of_nat (cp_width crc32_params)) by (vm_compute; reflexivity).
  rewrite E. unfold crc32c. apply crc_lt; vm_compute; solve [reflexivity | repeat constructor].
Qed.

(* ---------- sanity ---------- *)
(* a 2-byte change in the catalogue check message changes CRC-16/X.25 *)
Example crc16_window_sanity :
  crc16_x25 (map n2b [49;50;51] ++ map n2b [52;53] ++ map n2b [54;55;56;57]) = 36974 /\
  crc16_x25 (map n2b [49;50;51] ++ map n2b [53;52] ++ map n2b [54;55;56;57]) = 40705 /\
  36974 <> 40705.
Proof. vm_compute. repeat split; discriminate. Qed.
(* a 4-byte change changes CRC-32C *)
Example crc32c_window_sanity :
  N.eqb (crc32c (map n2b [49;50;51] ++ map n2b [52;53;54;55] ++ map n2b [56;57]))
        (crc32c (map n2b [49;50;51] ++ map n2b [0;0;0;0] ++ map n2b [56;57])) = false.
Proof. vm_compute. reflexivity. Qed.
(* the little-endian identity on a concrete message *)
Example run_le_sanity :
  crc_run (cp_polyR crc16_params) 65535 (map n2b [1;2;3]) =
  iter 24 (crc_step (cp_polyR crc16_params)) (N.lxor 65535 (1 + 2 * 256 + 3 * 65536)).
Proof. vm_compute. reflexivity. Qed.

Print Assumptions crc_detects_window.
Print Assumptions crc16_detects_window.
Print Assumptions crc32c_detects_window.
Print Assumptions crc16_lt.
Print Assumptions crc32c_lt.
