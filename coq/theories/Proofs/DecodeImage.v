(* The image of the decoder: shape facts that hold for EVERY byte string that decodes (used wherever a
   property quantifies over "every decodable bundle": C06, C07, C08).  Obtained by inverting the stream
   parser: a successful parse_value must have gone through exactly one visitor method. *)
From BP7 Require Import Base.Prelude Base.Utf8 Gen.Consts Cbor.SerdeDe Model.Types Model.Decode.

Definition dec_eid (e : eid) : bool :=
  match e with
  | Dtn c s => (c =? ENDPOINT_URI_SCHEME_DTN) && negb (match s with [] => true | _ => false end) && utf8_valid s
  | DtnNone c a => (c =? ENDPOINT_URI_SCHEME_DTN) && (a =? 0)
  | Ipn c n s => (c =? ENDPOINT_URI_SCHEME_IPN) && (1 <=? n) && (n <? two64) && (s <? two64)
  end.
Definition dec_crc (c : crc_value) : bool :=
  match c with
  | CrcNo => true
  | Crc16 b => Nat.eqb (length b) 2
  | Crc32 b => Nat.eqb (length b) 4
  | CrcUnknown k => negb (k =? CRC_NO) && negb (k =? CRC_16) && negb (k =? CRC_32) && (k <? 256)
  | Crc16Empty | Crc32Empty => false
  end.
Definition dec_data (ty : N) (d : cdata) : bool :=
  match d with
  | Data _ => ty =? PAYLOAD_BLOCK
  | BundleAge a => (ty =? BUNDLE_AGE_BLOCK) && (a <? two64)
  | HopCount l c => (ty =? HOP_COUNT_BLOCK) && (l <? 256) && (c <? 256)
  | PreviousNode e => (ty =? PREVIOUS_NODE_BLOCK) && dec_eid e
  | Unknown _ => negb (ty =? PAYLOAD_BLOCK) && negb (ty =? BUNDLE_AGE_BLOCK) && negb (ty =? HOP_COUNT_BLOCK)
                 && negb (ty =? PREVIOUS_NODE_BLOCK)
  | DecodingError => false
  end.
Definition dec_canonical (c : canonical) : bool :=
  (c_type c <? two64) && (c_num c <? two64) && (c_flags c <? 256) && dec_crc (c_crc c) && dec_data (c_type c) (c_data c).
Definition dec_primary (p : primary) : bool :=
  (p_version p <? 4294967296) && (p_flags p <? two64) && dec_crc (p_crc p)
  && dec_eid (p_dst p) && dec_eid (p_src p) && dec_eid (p_rpt p)
  && (p_time p <? two64) && (p_seq p <? two64) && (p_lifetime p <? two64)
  && (p_frag_off p <? two64) && (p_total_len p <? two64).
Definition decodable_shape (b : bundle) : bool := dec_primary (b_primary b) && forallb dec_canonical (b_canonicals b).

(* ---------- generic inversion of the parser ---------- *)
Ltac inv_step H :=
  match type of H with
  | (if ?c then _ else _) = _ => destruct c eqn:?
  | (match ?x with _ => _ end) = _ => destruct x eqn:?
  | (let '(_, _) := ?x in _) = _ => destruct x eqn:?
  end.

Lemma recursion_checked_inv {A} (f : st -> res A * st) s a s' :
  recursion_checked f s = (Ok a, s') -> exists s1 s2, f s1 = (Ok a, s2).
Proof.
  unfold recursion_checked. intros H. repeat inv_step H; try discriminate.
  inversion H; subst. eauto.
Qed.

Definition visited {A} (v : visitor A) (a : A) : Prop :=
  (exists n, v_uint v n = Ok a) \/ v_nint v = Ok a \/ (exists x, v_bytes v x = Ok a)
  \/ (exists x, utf8_valid x = true /\ v_text v x = Ok a) \/ (exists b, v_bool v b = Ok a) \/ v_unit v = Ok a
  \/ v_float v = Ok a \/ v_map v = Ok a
  \/ (exists body acc s1 acc' s2, v_seq v = Some body /\ body acc s1 = (Ok a, acc', s2)).

Lemma parse_array_inv {A} (v : visitor A) n s a s' : parse_array v n s = (Ok a, s') -> visited v a.
Proof.
  unfold parse_array. intros H. apply recursion_checked_inv in H as (s1 & s2 & H).
  repeat inv_step H; try discriminate. inversion H; subst. unfold visited. do 8 right. eauto 10.
Qed.
Lemma parse_indef_array_inv {A} (v : visitor A) s a s' : parse_indef_array v s = (Ok a, s') -> visited v a.
Proof.
  unfold parse_indef_array. intros H. apply recursion_checked_inv in H as (s1 & s2 & H).
  repeat inv_step H; try discriminate. inversion H; subst. unfold visited. do 8 right. eauto 10.
Qed.

Lemma parse_value_inv {A} (v : visitor A) f : forall s a s', parse_value v f s = (Ok a, s') -> visited v a.
Proof.
  induction f as [|f IH]; intros s a s' H; [discriminate|].
  cbn [parse_value] in H.
  destruct (inp s) as [|b r]; [discriminate|].
  destruct (b2n b / 32 =? 0).
  { repeat inv_step H; try discriminate. inversion H; subst. left. eauto. }
  destruct (b2n b / 32 =? 1).
  { repeat inv_step H; try discriminate. inversion H; subst. right; left. assumption. }
  destruct (b2n b / 32 =? 2).
  { repeat inv_step H; try discriminate; inversion H; subst; right; right; left; eauto. }
  destruct (b2n b / 32 =? 3).
  { repeat inv_step H; try discriminate; inversion H; subst; do 3 right; left; eauto. }
  destruct (b2n b / 32 =? 4).
  { destruct (b2n b mod 32 =? 31); [eapply parse_indef_array_inv; eassumption|].
    destruct (arg_of _ _) as [[n|e|p] s2]; try discriminate. eapply parse_array_inv; eassumption. }
  destruct (b2n b / 32 =? 5).
  { destruct (b2n b mod 32 =? 31).
    - apply recursion_checked_inv in H as (s1 & s2 & H). inversion H; subst. do 7 right; left. assumption.
    - destruct (arg_of _ _) as [[n|e|p] s2]; try discriminate.
      apply recursion_checked_inv in H as (s1 & s3 & H). inversion H; subst. do 7 right; left. assumption. }
  destruct (b2n b / 32 =? 6).
  { destruct (arg_of _ _) as [[n|e|p] s2]; try discriminate.
    apply recursion_checked_inv in H as (s1 & s3 & H). eapply IH; eassumption. }
  repeat inv_step H; try discriminate; inversion H; subst.
  - do 4 right; left; eauto.
  - do 4 right; left; eauto.
  - do 5 right; left; assumption.
  - do 6 right; left; assumption.
  - do 6 right; left; assumption.
  - do 6 right; left; assumption.
Qed.

Lemma uint_inv bound f s n s' : parse_value (vis_uint bound) f s = (Ok n, s') -> n < bound.
Proof.
  intros H. apply parse_value_inv in H. unfold visited in H. cbn [v_uint v_nint v_bytes v_text v_bool v_unit v_float v_map v_seq vis_uint] in H.
  destruct H as [(k & H)|[H|[(x & H)|[(x & _ & H)|[(b & H)|[H|[H|[H|(body & ? & ? & ? & ? & H & _)]]]]]]]]; try discriminate.
  destruct (k <? bound) eqn:E; [|discriminate]. inversion H; subst. apply N.ltb_lt. assumption.
Qed.

Lemma seq_inv {A} (body : seq_access -> st -> res A * seq_access * st) f s a s' :
  parse_value (vis_seq body) f s = (Ok a, s') -> exists acc s1 acc' s2, body acc s1 = (Ok a, acc', s2).
Proof.
  intros H. apply parse_value_inv in H. unfold visited in H. cbn [v_uint v_nint v_bytes v_text v_bool v_unit v_float v_map v_seq vis_seq] in H.
  destruct H as [(k & H)|[H|[(x & H)|[(x & _ & H)|[(b & H)|[H|[H|[H|(body' & acc & s1 & acc' & s2 & Hb & H)]]]]]]]]; try discriminate.
  inversion Hb; subst. eauto.
Qed.

Lemma string_inv f s x s' : parse_value vis_string f s = (Ok x, s') -> utf8_valid x = true.
Proof.
  intros H. apply parse_value_inv in H. unfold visited in H. cbn [v_uint v_nint v_bytes v_text v_bool v_unit v_float v_map v_seq vis_string] in H.
  destruct H as [(k & H)|[H|[(y & H)|[(y & Hu & H)|[(b & H)|[H|[H|[H|(body' & ? & ? & ? & ? & Hb & _)]]]]]]]]; try discriminate.
  - destruct (utf8_valid y) eqn:E; [|discriminate]. inversion H; subst. assumption.
  - inversion H; subst. assumption.
Qed.

Lemma next_element_inv {A} (p : st -> res A * st) acc s a acc' s' :
  next_element p acc s = (Ok (Some a), acc', s') -> exists s0, p s0 = (Ok a, s').
Proof.
  unfold next_element. intros H. repeat inv_step H; try discriminate;
    match goal with E : p _ = (?r, _) |- _ => destruct r; cbn [rmap bind] in H; try discriminate; inversion H; subst; eauto end.
Qed.

Lemma field_inv {A B} (p : st -> res A * st) acc s (k : A -> seq_access -> st -> res B * seq_access * st) b acc' s' :
  field p acc s k = (Ok b, acc', s') ->
  exists a acc1 s0 s1, p s0 = (Ok a, s1) /\ k a acc1 s1 = (Ok b, acc', s').
Proof.
  unfold field. intros H. destruct (next_element p acc s) as [[r acc1] s1] eqn:E.
  destruct r as [[a|]|e|q]; try discriminate.
  apply next_element_inv in E as (s0 & E). eauto 8.
Qed.

Lemma seq_loop_inv {A} (p : st -> res A * st) (Q : A -> Prop) :
  (forall s a s', p s = (Ok a, s') -> Q a) ->
  forall f acc s l acc' s', seq_loop p f acc s = (Ok l, acc', s') -> Forall Q l.
Proof.
  intros HQ. induction f as [|f IH]; intros acc s l acc' s' H; [discriminate|].
  cbn [seq_loop] in H. destruct (next_element p acc s) as [[r acc1] s1] eqn:E.
  destruct r as [[a|]|e|q]; try discriminate.
  - destruct (seq_loop p f acc1 s1) as [[r' acc2] s2] eqn:E2.
    destruct r' as [l'|e|q]; cbn [rmap bind] in H; try discriminate. inversion H; subst.
    apply next_element_inv in E as (s0 & E). constructor; [eapply HQ; eassumption|eapply IH; eassumption].
  - inversion H; subst. constructor.
Qed.

(* ---------- bp7's visitors ---------- *)
Lemma pair_inv b1 b2 f s x s' : p_pair b1 b2 f s = (Ok x, s') -> fst x < b1 /\ snd x < b2.
Proof.
  intros H. apply seq_inv in H as (acc & s1 & acc' & s2 & H). unfold pair_body in H.
  apply field_inv in H as (a & acc1 & s0 & s3 & Ha & H). apply field_inv in H as (b & acc2 & s4 & s5 & Hb & H).
  inversion H; subst. cbn [fst snd]. split; eapply uint_inv; eassumption.
Qed.

Lemma eid_inv f s e s' : p_eid f s = (Ok e, s') -> dec_eid e = true.
Proof.
  intros H. apply seq_inv in H as (acc & s1 & acc' & s2 & H). unfold eid_body in H.
  apply field_inv in H as (t & acc1 & s0 & s3 & Ht & H).
  destruct (t =? ENDPOINT_URI_SCHEME_DTN) eqn:E1.
  - destruct (next_element (parse_value vis_string f) acc1 s3) as [[r acc2] s4] eqn:E.
    destruct r as [[[|c n]|]|e'|q]; try discriminate; inversion H; subst; try reflexivity.
    apply next_element_inv in E as (s5 & E). apply string_inv in E. cbn [dec_eid]. rewrite E1, E. reflexivity.
  - destruct (t =? ENDPOINT_URI_SCHEME_IPN) eqn:E2; [|discriminate].
    apply field_inv in H as (ns & acc2 & s4 & s5 & Hns & H). apply pair_inv in Hns as [Hn Hs].
    destruct (fst ns <? 1) eqn:E3; [discriminate|]. inversion H; subst. cbn [dec_eid].
    apply N.ltb_ge in E3. apply N.leb_le in E3. apply N.ltb_lt in Hn, Hs. rewrite E3, Hn, Hs. reflexivity.
Qed.

Lemma bytebuf_any f s x s' : p_bytebuf f s = (Ok x, s') -> True. Proof. trivial. Qed.

Lemma crc_field_inv {B} f ct acc s (k : crc_value -> seq_access -> st -> res B * seq_access * st) b acc' s' :
  ct < 256 -> crc_field f ct acc s k = (Ok b, acc', s') ->
  exists c acc1 s1, dec_crc c = true /\ k c acc1 s1 = (Ok b, acc', s').
Proof.
  intros Hct. unfold crc_field. intros H.
  destruct (ct =? CRC_NO) eqn:E0; [exists CrcNo; eauto|].
  destruct (ct =? CRC_16) eqn:E1.
  { apply field_inv in H as (buf & acc1 & s0 & s1 & _ & H). destruct (Nat.eqb (length buf) 2) eqn:El; [|discriminate].
    exists (Crc16 buf). eauto. }
  destruct (ct =? CRC_32) eqn:E2.
  { apply field_inv in H as (buf & acc1 & s0 & s1 & _ & H). destruct (Nat.eqb (length buf) 4) eqn:El; [|discriminate].
    exists (Crc32 buf). eauto. }
  exists (CrcUnknown ct), acc, s. split; [|assumption]. cbn [dec_crc]. rewrite E0, E1, E2. cbn [negb andb]. apply N.ltb_lt. assumption.
Qed.

Lemma primary_inv f s p s' : p_primary f s = (Ok p, s') -> dec_primary p = true.
Proof.
  intros H. apply seq_inv in H as (acc & s1 & acc' & s2 & H). unfold primary_body in H.
  apply field_inv in H as (ver & a1 & ? & ? & Hver & H). apply uint_inv in Hver.
  apply field_inv in H as (flags & a2 & ? & ? & Hfl & H). apply uint_inv in Hfl.
  apply field_inv in H as (ct & a3 & ? & ? & Hct & H). apply uint_inv in Hct.
  apply field_inv in H as (dst & a4 & ? & ? & Hdst & H). apply eid_inv in Hdst.
  apply field_inv in H as (src & a5 & ? & ? & Hsrc & H). apply eid_inv in Hsrc.
  apply field_inv in H as (rpt & a6 & ? & ? & Hrpt & H). apply eid_inv in Hrpt.
  apply field_inv in H as (ts & a7 & ? & ? & Hts & H). apply pair_inv in Hts as [Ht Hq].
  apply field_inv in H as (life & a8 & ? & sl & Hlife & H). apply uint_inv in Hlife.
  cbv zeta in H.
  assert (exists off len accx sx, off < two64 /\ len < two64 /\
            crc_field f ct accx sx (fun crc acc s => (Ok (mkprimary ver flags crc dst src rpt (fst ts) (snd ts) life off len), acc, s)) = (Ok p, acc', s2))
    as (off & len & accx & sx & Hoff & Hlen & Hc).
  { match type of H with (if ?c then _ else _) = _ => destruct c end.
    - apply field_inv in H as (off & a9 & ? & ? & Hoff & H). apply uint_inv in Hoff.
      apply field_inv in H as (len & a10 & ? & ? & Hlen & H). apply uint_inv in Hlen. eauto 10.
    - exists 0, 0, a8, sl. unfold two64. repeat split; try lia. assumption. }
  apply crc_field_inv in Hc as (crc & ? & ? & Hcrc & Hc); [|unfold u8_bound in Hct; assumption].
  inversion Hc; subst. unfold dec_primary. cbn [p_version p_flags p_crc p_dst p_src p_rpt p_time p_seq p_lifetime p_frag_off p_total_len].
  unfold u32_bound, u8_bound in *.
  repeat match goal with H : _ < _ |- _ => apply N.ltb_lt in H end.
  rewrite Hver, Hfl, Hcrc, Hdst, Hsrc, Hrpt, Ht, Hq, Hlife, Hoff, Hlen. reflexivity.
Qed.

Lemma from_slice_inv {A} (p : nat -> st -> res A * st) bs a : from_slice p bs = Ok a -> exists f s s', p f s = (Ok a, s').
Proof. unfold from_slice. intros H. repeat inv_step H; try discriminate. inversion H; subst. eauto. Qed.

Lemma decode_cdata_inv ty raw d : decode_cdata ty raw = Ok d -> dec_data ty d = true.
Proof.
  unfold decode_cdata. intros H.
  destruct (ty =? PAYLOAD_BLOCK) eqn:E1; [inversion H; subst; cbn; assumption|].
  destruct (ty =? BUNDLE_AGE_BLOCK) eqn:E2.
  { destruct (from_slice p_u64 raw) as [a|e|q] eqn:E; try discriminate. inversion H; subst.
    apply from_slice_inv in E as (f & s & s' & E). apply uint_inv in E. cbn [dec_data]. rewrite E2. apply N.ltb_lt in E. rewrite E. reflexivity. }
  destruct (ty =? HOP_COUNT_BLOCK) eqn:E3.
  { destruct (from_slice (p_pair u8_bound u8_bound) raw) as [a|e|q] eqn:E; try discriminate. inversion H; subst.
    apply from_slice_inv in E as (f & s & s' & E). apply pair_inv in E as [Ha Hb]. cbn [dec_data]. rewrite E3.
    unfold u8_bound in *. apply N.ltb_lt in Ha, Hb. rewrite Ha, Hb. reflexivity. }
  destruct (ty =? PREVIOUS_NODE_BLOCK) eqn:E4.
  { destruct (from_slice p_eid raw) as [a|e|q] eqn:E; try discriminate. inversion H; subst.
    apply from_slice_inv in E as (f & s & s' & E). apply eid_inv in E. cbn [dec_data]. rewrite E4, E. reflexivity. }
  inversion H; subst. cbn [dec_data]. rewrite E1, E2, E3, E4. reflexivity.
Qed.

Lemma canonical_inv f s c s' : p_canonical f s = (Ok c, s') -> dec_canonical c = true.
Proof.
  intros H. apply seq_inv in H as (acc & s1 & acc' & s2 & H). unfold canonical_body in H.
  apply field_inv in H as (ty & a1 & ? & ? & Hty & H). apply uint_inv in Hty.
  apply field_inv in H as (num & a2 & ? & ? & Hnum & H). apply uint_inv in Hnum.
  apply field_inv in H as (fl & a3 & ? & ? & Hfl & H). apply uint_inv in Hfl.
  apply field_inv in H as (ct & a4 & ? & ? & Hct & H). apply uint_inv in Hct.
  apply field_inv in H as (raw & a5 & ? & ? & _ & H).
  destruct (decode_cdata ty raw) as [d|e|q] eqn:Ed; try discriminate. apply decode_cdata_inv in Ed.
  apply crc_field_inv in H as (crc & ? & ? & Hcrc & H); [|unfold u8_bound in Hct; assumption].
  inversion H; subst. unfold dec_canonical. cbn [c_type c_num c_flags c_crc c_data]. unfold u8_bound in *.
  apply N.ltb_lt in Hty, Hnum, Hfl. rewrite Hty, Hnum, Hfl, Hcrc, Ed. reflexivity.
Qed.

Theorem from_cbor_image bs b : from_cbor bs = Ok b -> decodable_shape b = true.
Proof.
  unfold from_cbor. intros H. apply from_slice_inv in H as (f & s & s' & H). unfold p_bundle in H.
  apply seq_inv in H as (acc & s1 & acc' & s2 & H). unfold bundle_body in H.
  apply field_inv in H as (prim & a1 & ? & ? & Hp & H). apply primary_inv in Hp.
  destruct (seq_loop (p_canonical f) f a1 x0) as [[r a2] s3] eqn:E.
  destruct r as [cs|e|q]; cbn [rmap bind] in H; try discriminate. inversion H; subst.
  unfold decodable_shape. cbn [b_primary b_canonicals]. rewrite Hp. cbn [andb].
  apply forallb_forall. apply Forall_forall.
  eapply (seq_loop_inv (p_canonical f) (fun c => dec_canonical c = true)); [|eassumption].
  intros; eapply canonical_inv; eassumption.
Qed.
