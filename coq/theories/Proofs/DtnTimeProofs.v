From Coq Require Import ZArith.
From BP7 Require Import Base.Prelude Base.Decimal Gen.Consts Spec.Calendar Model.DtnTime.
Open Scope Z_scope.

Lemma dfc_period y m d k : dfc (y + 400 * k) m d = dfc y m d + 146097 * k.
Proof.
  unfold dfc. destruct (m <=? 2).
  - replace (y + 400 * k - 1) with ((y - 1) + k * 400) by lia.
    rewrite Z.div_add, Z.mod_add by lia. lia.
  - replace (y + 400 * k) with (y + k * 400) by lia.
    rewrite Z.div_add, Z.mod_add by lia. lia.
Qed.
Lemma leap_period y k : is_leap (y + 400 * k) = is_leap y.
Proof.
  unfold is_leap.
  replace (y + 400 * k) with (y + (100 * k) * 4) at 1 by lia. rewrite Z.mod_add by lia.
  replace (y + 400 * k) with (y + (4 * k) * 100) at 1 by lia. rewrite Z.mod_add by lia.
  replace (y + 400 * k) with (y + k * 400) by lia. rewrite Z.mod_add by lia. reflexivity.
Qed.

(* finite sweep over one 400-year cycle: humantime's day -> date step is inverted by days-from-civil,
   yields a valid date, and the year offset stays within the cycle *)
Definition ok_rem (r : Z) : bool :=
  let '(yo, m, d) := civil_from_rem r in
  (dfc (2000 + yo) m d =? r + 11017) && valid_date (2000 + yo) m d
  && (0 <=? yo) && (if r <=? 146036 then yo <=? 399 else yo =? 400).
Fixpoint all_lt (p : positive) (f : Z -> bool) (base : Z) : bool :=
  match p with
  | xH => f base
  | xO q => all_lt q f base && all_lt q f (base + Zpos q)
  | xI q => all_lt q f base && all_lt q f (base + Zpos q) && f (base + Zpos q + Zpos q)
  end.
Lemma all_lt_spec p f : forall base, all_lt p f base = true -> forall i, base <= i < base + Zpos p -> f i = true.
Proof.
  induction p as [q IH|q IH|]; cbn [all_lt]; intros base H i Hi.
  - apply andb_true_iff in H as [H H3]. apply andb_true_iff in H as [H1 H2].
    destruct (Z_lt_dec i (base + Zpos q)); [apply (IH base H1); lia|].
    destruct (Z_lt_dec i (base + Zpos q + Zpos q)); [apply (IH _ H2); lia|].
    replace i with (base + Zpos q + Zpos q) by lia. exact H3.
  - apply andb_true_iff in H as [H1 H2].
    destruct (Z_lt_dec i (base + Zpos q)); [apply (IH base H1); lia|apply (IH _ H2); lia].
  - replace i with base by lia. exact H.
Qed.
Lemma sweep : all_lt 146097 ok_rem 0 = true.
Proof. vm_compute. reflexivity. Qed.

Lemma civil_norm d0 : exists qc r,
  (let qc0 := Z.quot d0 146097 in let r0 := Z.rem d0 146097 in
   if r0 <? 0 then (qc0 - 1, r0 + 146097) else (qc0, r0)) = (qc, r)
  /\ 0 <= r < 146097 /\ d0 = 146097 * qc + r.
Proof.
  pose proof (Z.quot_rem' d0 146097) as Hqr.
  assert (Hrem : -146097 < Z.rem d0 146097 < 146097).
  { pose proof (Z.rem_bound_abs d0 146097 ltac:(lia)). lia. }
  cbv zeta. destruct (Z.rem d0 146097 <? 0) eqn:E; [apply Z.ltb_lt in E|apply Z.ltb_ge in E];
    eexists; eexists; (split; [reflexivity|split; lia]).
Qed.

(* for every day number: the date is valid and days-from-civil gives the day number back *)
Theorem civil_correct days : let '(y, m, d) := civil days in dfc y m d = days /\ valid_date y m d = true.
Proof.
  unfold civil.
  destruct (civil_norm (days - 11017)) as (qc & r & E & Hr & Hd). cbv zeta in E. rewrite E.
  pose proof (all_lt_spec _ _ _ sweep r ltac:(lia)) as Hok. unfold ok_rem in Hok.
  destruct (civil_from_rem r) as [[yo m] md].
  apply andb_true_iff in Hok as [Hok _]. apply andb_true_iff in Hok as [Hok _].
  apply andb_true_iff in Hok as [H1 H2]. apply Z.eqb_eq in H1.
  split.
  - replace (2000 + yo + 400 * qc) with ((2000 + yo) + 400 * qc) by lia. rewrite dfc_period. lia.
  - unfold valid_date in *. unfold dim in *.
    replace (2000 + yo + 400 * qc) with ((2000 + yo) + 400 * qc) by lia. rewrite leap_period. exact H2.
Qed.

(* year range for the day numbers reachable from a DTN time up to 9999-12-31 *)
Lemma civil_year_range days : 10957 <= days <= 2932896 ->
  let '(y, m, d) := civil days in 2000 <= y <= 9999.
Proof.
  intros Hrange. unfold civil.
  destruct (civil_norm (days - 11017)) as (qc & r & E & Hr & Hd). cbv zeta in E. rewrite E.
  pose proof (all_lt_spec _ _ _ sweep r ltac:(lia)) as Hok. unfold ok_rem in Hok.
  destruct (civil_from_rem r) as [[yo m] md].
  apply andb_true_iff in Hok as [Hok H4]. apply andb_true_iff in Hok as [_ H3]. apply Z.leb_le in H3.
  destruct (r <=? 146036) eqn:Er; [apply Z.leb_le in Er; apply Z.leb_le in H4|apply Z.leb_gt in Er; apply Z.eqb_eq in H4]; lia.
Qed.

Lemma quot_nn a b : 0 <= a -> 0 < b -> Z.quot a b = a / b.
Proof. intros. apply Z.quot_div_nonneg; lia. Qed.
Lemma rem_nn a b : 0 <= a -> 0 < b -> Z.rem a b = a mod b.
Proof. intros. apply Z.rem_mod_nonneg; lia. Qed.
Lemma div_nn a b : 0 <= a -> 0 < b -> 0 <= a / b.
Proof. intros. apply Z.div_pos; lia. Qed.
Lemma mod_nn a b : 0 < b -> 0 <= a mod b.
Proof. intros. apply Z.mod_pos_bound; lia. Qed.

Lemma mod60_div10 x : 0 <= x -> (x mod 60) / 10 = (x / 10) mod 6.
Proof.
  intros Hx.
  pose proof (Z.div_mod x 60 ltac:(lia)). pose proof (Z.mod_pos_bound x 60 ltac:(lia)).
  pose proof (Z.div_mod (x mod 60) 10 ltac:(lia)). pose proof (Z.mod_pos_bound (x mod 60) 10 ltac:(lia)).
  pose proof (Z.div_mod x 10 ltac:(lia)). pose proof (Z.mod_pos_bound x 10 ltac:(lia)).
  pose proof (Z.div_mod (x / 10) 6 ltac:(lia)). pose proof (Z.mod_pos_bound (x / 10) 6 ltac:(lia)).
  lia.
Qed.
Lemma mod60_mod10 x : 0 <= x -> (x mod 60) mod 10 = x mod 10.
Proof.
  intros Hx.
  pose proof (Z.div_mod x 60 ltac:(lia)). pose proof (Z.mod_pos_bound x 60 ltac:(lia)).
  pose proof (Z.div_mod (x mod 60) 10 ltac:(lia)). pose proof (Z.mod_pos_bound (x mod 60) 10 ltac:(lia)).
  pose proof (Z.div_mod x 10 ltac:(lia)). pose proof (Z.mod_pos_bound x 10 ltac:(lia)).
  lia.
Qed.

(* the formatter's output is the RFC 3339 rendering of the fields it computed *)
Lemma format_is_render secs nanos msf :
  0 <= secs < 253402300800 -> 946684800 <= secs -> 0 <= msf < 1000 -> nanos = msf * 1000000 ->
  exists f, format_rfc3339 secs nanos = Some (render f) /\ valid_fields f = true
            /\ instant_of f = secs * 1000 + msf.
Proof.
  intros Hs Hlo Hms ->. unfold format_rfc3339.
  assert (253402300800 <=? secs = false) as -> by (apply Z.leb_gt; lia).
  rewrite (quot_nn secs 86400), (rem_nn secs 86400) by lia.
  set (days := secs / 86400). set (sod := secs mod 86400).
  assert (Hdm : secs = 86400 * days + sod) by (apply Z.div_mod; lia).
  assert (Hsod : 0 <= sod < 86400) by (apply Z.mod_pos_bound; lia).
  assert (Hdays : 10957 <= days <= 2932896).
  { unfold days. split; [apply Z.div_le_lower_bound; lia|].
    assert (secs / 86400 < 2932897); [apply Z.div_lt_upper_bound; lia|lia]. }
  pose proof (civil_correct days) as Hc. pose proof (civil_year_range days Hdays) as Hy.
  destruct (civil days) as [[y m] d]. destruct Hc as [Hdfc Hvalid].
  exists {| f_year := y; f_mon := m; f_day := d; f_hour := sod / 3600; f_min := (sod / 60) mod 60;
            f_sec := sod mod 60; f_ms := msf |}.
  assert (Hvd := Hvalid). unfold valid_date in Hvd.
  apply andb_true_iff in Hvd as [Hvd Hd4]. apply andb_true_iff in Hvd as [Hvd Hd3].
  apply andb_true_iff in Hvd as [Hd1 Hd2]. apply Z.leb_le in Hd1, Hd2, Hd3, Hd4.
  assert (Hdim : dim y m <= 31) by (unfold dim; repeat match goal with |- context [if ?c then _ else _] => destruct c end; lia).
  split; [|split].
  - f_equal. unfold render. cbn [f_year f_mon f_day f_hour f_min f_sec f_ms pad2 pad4 pad9 ch app].
    assert (E0 : (msf * 1000000 =? 0) = (msf =? 0)).
    { destruct (msf =? 0) eqn:E; [apply Z.eqb_eq in E; rewrite E; reflexivity|apply Z.eqb_neq in E; apply Z.eqb_neq; lia]. }
    rewrite E0. unfold d8, dig.
    assert (H60 : 0 <= sod / 60) by (apply div_nn; lia).
    rewrite !(quot_nn y), !(quot_nn m), !(quot_nn d), !(rem_nn y), !(rem_nn m), !(rem_nn d) by lia.
    rewrite (rem_nn (y / 100) 10), (rem_nn (y / 10) 10) by (try apply div_nn; lia).
    rewrite !(quot_nn sod), !(rem_nn sod) by lia.
    rewrite (quot_nn (sod / 3600) 10), (rem_nn (sod / 3600) 10), (quot_nn (sod / 60) 10), (rem_nn (sod / 60) 10) by (try apply div_nn; lia).
    rewrite (rem_nn (sod / 60 / 10) 6), (rem_nn (sod / 10) 6) by (repeat apply div_nn; lia).
    rewrite (mod60_div10 (sod / 60)), (mod60_mod10 (sod / 60)), (mod60_div10 sod), (mod60_mod10 sod) by lia.
    destruct (msf =? 0); [reflexivity|].
    assert (Hn : 0 <= msf * 1000000) by lia.
    rewrite !(quot_nn (msf * 1000000)), !(rem_nn (msf * 1000000)) by lia.
    repeat (rewrite rem_nn by (try apply div_nn; lia)).
    reflexivity.
  - unfold valid_fields. cbn [f_year f_mon f_day f_hour f_min f_sec f_ms]. rewrite Hvalid.
    assert (0 <= sod / 3600 < 24) by (split; [apply div_nn; lia|apply Z.div_lt_upper_bound; lia]).
    pose proof (Z.mod_pos_bound (sod / 60) 60 ltac:(lia)). pose proof (Z.mod_pos_bound sod 60 ltac:(lia)).
    repeat (apply andb_true_iff; split); try apply Z.leb_le; try apply Z.ltb_lt; try reflexivity; lia.
  - unfold instant_of. cbn [f_year f_mon f_day f_hour f_min f_sec f_ms]. rewrite Hdfc.
    pose proof (Z.div_mod sod 3600 ltac:(lia)). pose proof (Z.mod_pos_bound sod 3600 ltac:(lia)).
    pose proof (Z.div_mod sod 60 ltac:(lia)). pose proof (Z.mod_pos_bound sod 60 ltac:(lia)).
    pose proof (Z.div_mod (sod / 60) 60 ltac:(lia)). pose proof (Z.mod_pos_bound (sod / 60) 60 ltac:(lia)).
    pose proof (Z.div_mod (sod mod 3600) 60 ltac:(lia)). pose proof (Z.mod_pos_bound (sod mod 3600) 60 ltac:(lia)).
    lia.
Qed.

Close Scope Z_scope.
Open Scope N_scope.

Theorem unix_ok m t : t < two64 -> unix m t = Ok (t / 1000 + 946684800).
Proof.
  intros H. unfold unix, add64, SECONDS1970_TO2K.
  assert (t / 1000 < 18446744073709552) by (apply N.div_lt_upper_bound; unfold two64 in *; lia).
  assert (t / 1000 + 946684800 <? two64 = true) as -> by (apply N.ltb_lt; unfold two64; lia).
  reflexivity.
Qed.

Theorem now_ok m clock : 946684800000 <= clock -> now m clock = Ok (clock - 946684800000).
Proof. intros H. unfold now, sub64, MS1970_TO2K. assert (946684800000 <=? clock = true) as -> by (apply N.leb_le; lia). reflexivity. Qed.

Theorem string_denotes t : t <= 252455615999999 ->
  exists f, string t = Ok (render f) /\ valid_fields f = true
            /\ instant_of f = (Z.of_N t + 946684800000)%Z.
Proof.
  intros Ht. unfold string, MS1970_TO2K.
  set (ms := t + 946684800000).
  assert (Hms : ms <= 253402300799999) by (unfold ms; lia).
  pose proof (N.div_mod ms 1000 ltac:(lia)) as Hdm. pose proof (N.mod_lt ms 1000 ltac:(lia)) as Hmod.
  assert (Hsecs : ms / 1000 < 253402300800) by (apply N.div_lt_upper_bound; lia).
  assert (Hlo : 946684800 <= ms / 1000) by (apply N.div_le_lower_bound; unfold ms; lia).
  assert (Hmseq : ms = t + 946684800000) by reflexivity. clearbody ms.
  assert (P1 : (0 <= Z.of_N (ms / 1000) < 253402300800)%Z) by lia.
  assert (P2 : (946684800 <= Z.of_N (ms / 1000))%Z) by lia.
  assert (P3 : (0 <= Z.of_N (ms mod 1000) < 1000)%Z) by (pose proof (N2Z.is_nonneg (ms mod 1000)); lia).
  assert (P4 : Z.of_N (ms mod 1000 * 1000000) = (Z.of_N (ms mod 1000) * 1000000)%Z) by lia.
  destruct (format_is_render _ _ _ P1 P2 P3 P4) as (f & Hf & Hv & Hi).
  exists f. rewrite Hf. split; [reflexivity|split; [exact Hv|]]. rewrite Hi. lia.
Qed.

Theorem string_total t : no_panic (string t).
Proof. intros p. unfold string. destruct (format_rfc3339 _ _); discriminate. Qed.
Theorem timestamp_to_string_total t s : no_panic (timestamp_to_string t s).
Proof. intros p. unfold timestamp_to_string, string. destruct (format_rfc3339 _ _); cbn [bind]; discriminate. Qed.
Theorem unix_total m t : t < two64 -> no_panic (unix m t).
Proof. intros H p. rewrite unix_ok by exact H. discriminate. Qed.

(* beyond 9999-12-31 the formatter declines and the fallback text is produced *)
Lemma string_beyond t : 252455616000000 <= t -> string t = Ok (fallback t).
Proof.
  intros H. unfold string, format_rfc3339, MS1970_TO2K.
  assert (253402300800 <= (t + 946684800000) / 1000) by (apply N.div_le_lower_bound; lia).
  assert ((253402300800 <=? Z.of_N ((t + 946684800000) / 1000))%Z = true) as -> by (apply Z.leb_le; lia).
  reflexivity.
Qed.
