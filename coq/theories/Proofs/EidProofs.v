(* Proofs about the textual EID API (Model/EidText.v): parser/printer inversion, accessors, rejection classes,
   totality (no EPanic on valid UTF-8), the image of the API (from_api <-> api_eid) and the CBOR round trip. *)
From BP7 Require Import Base.Prelude Base.Decimal Base.Utf8 Base.Str Gen.Consts Cbor.SerdeDe.
From BP7 Require Import Model.Types Model.Encode Model.Decode Model.Wf Model.EidText Proofs.CborLemmas Proofs.CodecProofs.

(* ---------- small facts about constants ---------- *)
Lemma slash_ascii : b2n c_slash < 128. Proof. vm_compute. reflexivity. Qed.
Lemma colon_ascii : b2n c_colon < 128. Proof. vm_compute. reflexivity. Qed.
Lemma dot_ascii : b2n c_dot < 128. Proof. vm_compute. reflexivity. Qed.

Lemma not_digit_not_in_dec c n : is_digit c = false -> mem_byte c (dec n) = false.
Proof.
  intros H. destruct (mem_byte c (dec n)) eqn:E; [|reflexivity].
  apply mem_byte_In in E. pose proof (dec_digits n) as Hd. rewrite forallb_forall in Hd. rewrite (Hd c E) in H. discriminate.
Qed.
Lemma dec_no_dot n : mem_byte c_dot (dec n) = false. Proof. apply not_digit_not_in_dec. vm_compute. reflexivity. Qed.
Lemma dec_no_colon n : mem_byte c_colon (dec n) = false. Proof. apply not_digit_not_in_dec. vm_compute. reflexivity. Qed.
Lemma dec_no_slash n : mem_byte c_slash (dec n) = false. Proof. apply not_digit_not_in_dec. vm_compute. reflexivity. Qed.
Lemma dec_ascii n : ascii_only (dec n) = true.
Proof.
  unfold ascii_only. rewrite forallb_forall. intros x Hx. pose proof (dec_digits n) as Hd. rewrite forallb_forall in Hd.
  specialize (Hd x Hx). unfold is_digit in Hd. apply andb_true_iff in Hd as [_ Hd]. apply N.leb_le in Hd. apply N.ltb_lt. lia.
Qed.
Lemma dec_utf8 n : utf8_valid (dec n) = true. Proof. apply ascii_utf8, dec_ascii. Qed.

Lemma parse_digits_bound l : forall acc n, acc < two64 -> parse_digits l acc = Some n -> n < two64.
Proof.
  induction l as [|b t IH]; intros acc n Ha H; cbn [parse_digits] in H; [inversion H; subst; exact Ha|].
  destruct (is_digit b); [|discriminate].
  destruct (acc * 10 + (b2n b - 48) <? two64) eqn:E; [|discriminate]. apply N.ltb_lt in E. eapply IH; eassumption.
Qed.
Lemma parse_u64_bound l n : parse_u64 l = Some n -> n < two64.
Proof.
  assert (H0 : 0 < two64) by (unfold two64; lia).
  assert (Hd : forall l n, parse_u64_digits l = Some n -> n < two64).
  { intros l0 n0. unfold parse_u64_digits. destruct l0; [discriminate|]. apply parse_digits_bound. exact H0. }
  unfold parse_u64. destruct l as [|c [|c2 t]]; [discriminate|apply Hd|].
  destruct (b2n c =? 43); apply Hd.
Qed.

(* ---------- the scheme split ---------- *)
Lemma parse_scheme sch ssp : mem_byte c_colon sch = false -> splitn 2 c_colon (sch ++ c_colon :: ssp) = [sch; ssp].
Proof. intros H. rewrite splitn2, break_app by exact H. reflexivity. Qed.

Lemma parse_dtn_ssp ssp :
  eid_parse (s_dtn ++ c_colon :: ssp) =
    if bytes_eqb ssp s_none then EOk eid_none
    else if negb (starts_with s_slashes ssp) then EErr InvalidUrlFormat
    else if bytes_eqb ssp s_slashes_none then EErr NoneNotValidHost
    else with_dtn ssp.
Proof. unfold eid_parse. rewrite parse_scheme by reflexivity. rewrite bytes_eqb_refl. reflexivity. Qed.

Lemma parse_ipn_ssp ssp :
  eid_parse (s_ipn ++ c_colon :: ssp) =
    match split c_dot ssp with
    | [f0; f1] =>
      match parse_u64 f0 with
      | None => EErr CouldNotParseNumber
      | Some p1 => match parse_u64 f1 with None => EErr CouldNotParseNumber | Some p2 => with_ipn p1 p2 end
      end
    | _ => EErr WrongNumberOfFieldsInIpn
    end.
Proof.
  unfold eid_parse. rewrite parse_scheme by reflexivity.
  assert (bytes_eqb s_ipn s_dtn = false) as -> by (vm_compute; reflexivity). rewrite bytes_eqb_refl. reflexivity.
Qed.

(* ---------- with_dtn ---------- *)
Lemma slashes_cons s : starts_with s_slashes s = true -> exists t, s = c_slash :: c_slash :: t.
Proof. intros H. apply starts_with_inv in H as [r ->]. exists r. reflexivity. Qed.
Lemma utf8_slashes t : utf8_valid (c_slash :: c_slash :: t) = utf8_valid t.
Proof. rewrite !utf8_valid_sep by exact slash_ascii. reflexivity. Qed.

Lemma with_dtn_ok h : utf8_valid h = true ->
  exists s, with_dtn h = EOk (Dtn ENDPOINT_URI_SCHEME_DTN s) /\ api_eid (Dtn ENDPOINT_URI_SCHEME_DTN s) = true.
Proof.
  intros Hv. unfold with_dtn.
  assert (Hhs : exists t, (if starts_with s_slashes h then h else s_slashes ++ h) = c_slash :: c_slash :: t /\ utf8_valid t = true).
  { destruct (starts_with s_slashes h) eqn:E.
    - destruct (slashes_cons h E) as [t ->]. exists t. split; [reflexivity|]. rewrite utf8_slashes in Hv. exact Hv.
    - exists h. split; [reflexivity|exact Hv]. }
  destruct Hhs as (t & -> & Ht). rewrite (str_from_2 _ _ t Ht).
  unfold validated, validate.
  destruct (mem_byte c_slash t) eqn:Em.
  - exists (c_slash :: c_slash :: t). split; [reflexivity|].
    cbn [api_eid skipn]. rewrite utf8_slashes, Ht, Em.
    change (starts_with s_slashes (c_slash :: c_slash :: t)) with true. rewrite N.eqb_refl. reflexivity.
  - exists ((c_slash :: c_slash :: t) ++ [c_slash]). split; [reflexivity|].
    cbn [api_eid app skipn]. rewrite utf8_slashes, mem_byte_app.
    rewrite utf8_valid_app by (exact Ht || reflexivity).
    change (starts_with s_slashes (c_slash :: c_slash :: t ++ [c_slash])) with true. rewrite N.eqb_refl.
    cbn [mem_byte]. rewrite byte_eqb_refl, orb_true_r. reflexivity.
Qed.

Lemma with_dtn_api s : api_eid (Dtn ENDPOINT_URI_SCHEME_DTN s) = true -> with_dtn s = EOk (Dtn ENDPOINT_URI_SCHEME_DTN s).
Proof.
  cbn [api_eid]. intros H. bools H. unfold with_dtn. rewrite H1.
  destruct (slashes_cons s H1) as [t ->]. rewrite utf8_slashes in H2. rewrite (str_from_2 _ _ t H2).
  cbn [skipn] in H0. rewrite H0. reflexivity.
Qed.

(* an API-form dtn name is "//" node "/" service with a slash-free node *)
Lemma api_dtn_decomp s : starts_with s_slashes s = true -> mem_byte c_slash (skipn 2 s) = true ->
  exists n svc, s = s_slashes ++ n ++ c_slash :: svc /\ mem_byte c_slash n = false.
Proof.
  intros H1 H2. destruct (slashes_cons s H1) as [t ->]. cbn [skipn] in H2.
  destruct (break_mem _ _ H2) as (n & svc & Hb). apply break_some in Hb as [-> Hn].
  exists n, svc. split; [reflexivity|exact Hn].
Qed.

(* ---------- accessors on "//" node "/" service ---------- *)
Lemma node_name_canon n svc : mem_byte c_slash n = false -> node_name (s_slashes ++ n ++ c_slash :: svc) = n.
Proof.
  intros Hn. unfold node_name, s_slashes. cbn [app].
  rewrite !split_sep. rewrite split_app by exact Hn. reflexivity.
Qed.
Lemma service_name_canon n svc : mem_byte c_slash n = false ->
  dtn_service_name (s_slashes ++ n ++ c_slash :: svc) = match svc with [] => None | _ => Some svc end.
Proof.
  intros Hn. unfold dtn_service_name, s_slashes. cbn [app].
  rewrite !splitn_sep. rewrite splitn_app by exact Hn.
  cbn [splitn nth_error]. destruct svc; reflexivity.
Qed.

(* pieces of a valid string split at an ASCII byte are valid *)
Lemma split_valid sep : b2n sep < 128 -> forall l p, utf8_valid l = true -> In p (split sep l) -> utf8_valid p = true.
Proof.
  intros Hs l. induction l as [l IH] using (well_founded_induction (Wf_nat.well_founded_ltof _ (@length byte))).
  intros p Hv Hin. rewrite split_break in Hin. destruct (break sep l) as [[a r]|] eqn:E.
  - apply break_some in E as [-> Hm]. destruct (utf8_valid_split sep Hs a r Hv) as [Ha Hr].
    destruct Hin as [<-|Hin]; [exact Ha|]. apply (IH r); [unfold ltof; rewrite app_length; cbn [length]; lia|exact Hr|exact Hin].
  - destruct Hin as [<-|[]]. exact Hv.
Qed.
Lemma node_name_valid s : utf8_valid s = true -> utf8_valid (node_name s) = true.
Proof.
  intros H. unfold node_name. destruct (nth_error (split c_slash s) 2) eqn:E; [|reflexivity].
  apply nth_error_In in E. eapply split_valid; [exact slash_ascii|exact H|exact E].
Qed.
Lemma node_name_no_slash s : mem_byte c_slash (node_name s) = false.
Proof.
  unfold node_name. destruct (nth_error (split c_slash s) 2) eqn:E; [|reflexivity].
  apply nth_error_In in E. eapply split_pieces. exact E.
Qed.

(* ---------- parsing "dtn://" node "/" service ---------- *)
Lemma none_not_slashes t : bytes_eqb (c_slash :: c_slash :: t) s_none = false.
Proof. reflexivity. Qed.
Lemma slashes_none_has_no_third t : mem_byte c_slash t = true -> bytes_eqb (c_slash :: c_slash :: t) s_slashes_none = false.
Proof.
  intros H. destruct (bytes_eqb (c_slash :: c_slash :: t) s_slashes_none) eqn:E; [|reflexivity].
  apply bytes_eqb_eq in E. inversion E; subst. discriminate H.
Qed.

Lemma parse_dtn_api s : api_eid (Dtn ENDPOINT_URI_SCHEME_DTN s) = true ->
  eid_parse (s_dtn ++ c_colon :: s) = EOk (Dtn ENDPOINT_URI_SCHEME_DTN s).
Proof.
  intros H. rewrite parse_dtn_ssp. pose proof (with_dtn_api s H) as Hw.
  cbn [api_eid] in H. bools H. destruct (slashes_cons s H1) as [t ->]. cbn [skipn] in H0.
  rewrite none_not_slashes. rewrite H1. cbn [negb]. rewrite (slashes_none_has_no_third t H0). exact Hw.
Qed.

Lemma api_canon n svc : utf8_valid n = true -> utf8_valid svc = true ->
  api_eid (Dtn ENDPOINT_URI_SCHEME_DTN (s_slashes ++ n ++ c_slash :: svc)) = true.
Proof.
  intros Hn Hs. cbn [api_eid s_slashes app skipn]. rewrite N.eqb_refl, utf8_slashes.
  assert (utf8_valid (n ++ c_slash :: svc) = true) as ->.
  { apply utf8_valid_app; [exact Hn|]. rewrite utf8_valid_sep by exact slash_ascii. exact Hs. }
  change (starts_with [c_slash; c_slash] (c_slash :: c_slash :: n ++ c_slash :: svc)) with true.
  rewrite mem_byte_app. cbn [mem_byte]. rewrite byte_eqb_refl, orb_true_r. reflexivity.
Qed.

Lemma parse_dtn_canon n svc : utf8_valid n = true -> mem_byte c_slash n = false -> utf8_valid svc = true ->
  eid_parse (s_dtn_url ++ n ++ c_slash :: svc) = EOk (Dtn ENDPOINT_URI_SCHEME_DTN (s_slashes ++ n ++ c_slash :: svc)).
Proof.
  intros Hn Hm Hs. unfold s_dtn_url. rewrite <- !app_assoc. cbn [app]. apply parse_dtn_api.
  apply api_canon; assumption.
Qed.

(* ---------- parsing "ipn:" n "." s ---------- *)
Lemma parse_ipn_canon n s : 1 <= n < two64 -> s < two64 ->
  eid_parse (s_ipn ++ [c_colon] ++ ipn_print n s) = EOk (Ipn ENDPOINT_URI_SCHEME_IPN n s).
Proof.
  intros Hn Hs. cbn [app]. rewrite parse_ipn_ssp. unfold ipn_print. cbn [app].
  rewrite split_app by apply dec_no_dot. rewrite split_nosep by apply dec_no_dot.
  rewrite !parse_dec by lia. unfold with_ipn, validated, validate. rewrite N.eqb_refl. cbn [negb].
  assert (n <? 1 = false) as -> by (apply N.ltb_ge; lia). reflexivity.
Qed.

(* ---------- print then parse ---------- *)
Theorem print_parse e : api_eid e = true -> eid_parse (eid_print e) = EOk e.
Proof.
  destruct e as [c s|c a|c n s]; cbn [api_eid]; intros H; bools H; nat_facts; subst.
  - unfold eid_print. cbn [eid_scheme app]. apply parse_dtn_api. cbn [api_eid]. rewrite N.eqb_refl, H2, H1, H0. reflexivity.
  - reflexivity.
  - unfold eid_print. cbn [eid_scheme]. apply parse_ipn_canon; [split; assumption|assumption].
Qed.
Lemma print_valid e : api_eid e = true -> utf8_valid (eid_print e) = true.
Proof.
  destruct e as [c s|c a|c n s]; cbn [api_eid]; intros H; bools H.
  - unfold eid_print. cbn [eid_scheme app]. cbn [utf8_valid s_dtn]. exact H2.
  - reflexivity.
  - unfold eid_print, ipn_print. cbn [eid_scheme]. apply ascii_utf8. unfold ascii_only. rewrite !forallb_app.
    fold (ascii_only (dec n)). fold (ascii_only (dec s)). rewrite !dec_ascii. reflexivity.
Qed.

(* ---------- everything the parser / constructors return is in API normal form ---------- *)
Lemma with_ipn_ok n s e : n < two64 -> s < two64 -> with_ipn n s = EOk e -> e = Ipn ENDPOINT_URI_SCHEME_IPN n s /\ api_eid e = true.
Proof.
  intros Hn Hs. unfold with_ipn, validated, validate. rewrite N.eqb_refl. cbn [negb].
  destruct (n <? 1) eqn:E; [discriminate|]. intros H. inversion H; subst. split; [reflexivity|].
  cbn [api_eid]. rewrite N.eqb_refl. apply N.ltb_ge in E. apply N.leb_le in E. apply N.ltb_lt in Hn, Hs. rewrite E, Hn, Hs. reflexivity.
Qed.
Lemma with_ipn_api n s : 1 <= n -> with_ipn n s = EOk (Ipn ENDPOINT_URI_SCHEME_IPN n s).
Proof.
  intros Hn. unfold with_ipn, validated, validate. rewrite N.eqb_refl. cbn [negb].
  assert (n <? 1 = false) as -> by (apply N.ltb_ge; lia). reflexivity.
Qed.

Lemma scheme_split s sch ssp : break c_colon s = Some (sch, ssp) -> utf8_valid s = true -> utf8_valid ssp = true.
Proof.
  intros Hb Hv. apply break_some in Hb as [-> _]. apply (utf8_valid_split c_colon colon_ascii) in Hv as [_ Hv]. exact Hv.
Qed.

Lemma parse_ok_api s e : utf8_valid s = true -> eid_parse s = EOk e -> api_eid e = true.
Proof.
  intros Hv. unfold eid_parse. rewrite splitn2. destruct (break c_colon s) as [[sch ssp]|] eqn:Eb; [|discriminate].
  pose proof (scheme_split s sch ssp Eb Hv) as Hssp.
  destruct (bytes_eqb sch s_dtn).
  - destruct (bytes_eqb ssp s_none); [intros H; inversion H; reflexivity|].
    destruct (negb (starts_with s_slashes ssp)); [discriminate|].
    destruct (bytes_eqb ssp s_slashes_none); [discriminate|].
    destruct (with_dtn_ok ssp Hssp) as (s' & -> & Hapi). intros H. inversion H; subst. exact Hapi.
  - destruct (bytes_eqb sch s_ipn); [|discriminate].
    destruct (split c_dot ssp) as [|f0 [|f1 [|f2 l]]]; try discriminate.
    destruct (parse_u64 f0) as [p1|] eqn:E1; [|discriminate].
    destruct (parse_u64 f1) as [p2|] eqn:E2; [|discriminate].
    intros H. eapply with_ipn_ok in H as [_ H]; [exact H|eapply parse_u64_bound; eassumption|eapply parse_u64_bound; eassumption].
Qed.

Lemma eid_parse_total s : utf8_valid s = true -> e_no_panic (eid_parse s).
Proof.
  intros Hv p. unfold eid_parse. rewrite splitn2. destruct (break c_colon s) as [[sch ssp]|] eqn:Eb; [|discriminate].
  pose proof (scheme_split s sch ssp Eb Hv) as Hssp.
  destruct (bytes_eqb sch s_dtn).
  - destruct (bytes_eqb ssp s_none); [discriminate|].
    destruct (negb (starts_with s_slashes ssp)); [discriminate|].
    destruct (bytes_eqb ssp s_slashes_none); [discriminate|].
    destruct (with_dtn_ok ssp Hssp) as (s' & -> & _). discriminate.
  - destruct (bytes_eqb sch s_ipn); [|discriminate].
    destruct (split c_dot ssp) as [|f0 [|f1 [|f2 l]]]; try discriminate.
    destruct (parse_u64 f0) as [p1|]; [|discriminate]. destruct (parse_u64 f1) as [p2|]; [|discriminate].
    unfold with_ipn, validated. destruct (validate _); discriminate.
Qed.

(* ---------- new_endpoint ---------- *)
Lemma dtn_url_valid n ep : utf8_valid n = true -> utf8_valid ep = true -> utf8_valid (s_dtn_url ++ n ++ [c_slash] ++ ep) = true.
Proof.
  intros Hn He. apply utf8_valid_app; [reflexivity|]. apply utf8_valid_app; [exact Hn|].
  cbn [app]. rewrite utf8_valid_sep by exact slash_ascii. exact He.
Qed.

Theorem new_endpoint_dtn c s ep : utf8_valid s = true -> utf8_valid ep = true ->
  new_endpoint (Dtn c s) ep = EOk (Dtn ENDPOINT_URI_SCHEME_DTN (s_slashes ++ node_name s ++ c_slash :: ep)).
Proof.
  intros Hs He. cbn [new_endpoint node]. cbn [app].
  change (s_dtn_url ++ node_name s ++ c_slash :: ep) with (s_dtn_url ++ node_name s ++ c_slash :: ep).
  apply parse_dtn_canon; [apply node_name_valid; exact Hs|apply node_name_no_slash|exact He].
Qed.
Theorem new_endpoint_ipn c n s ep :
  new_endpoint (Ipn c n s) ep = match parse_u64 (trim ep) with Some k => with_ipn n k | None => EErr InvalidService end.
Proof. reflexivity. Qed.

Theorem new_endpoint_total e ep : eid_utf8 e = true -> utf8_valid ep = true -> e_no_panic (new_endpoint e ep).
Proof.
  intros Hu He p. destruct e as [c s|c a|c n s].
  - rewrite new_endpoint_dtn by assumption. discriminate.
  - discriminate.
  - rewrite new_endpoint_ipn. destruct (parse_u64 (trim ep)); [|discriminate].
    unfold with_ipn, validated. destruct (validate _); discriminate.
Qed.

Lemma new_endpoint_ok_api e0 ep e : api_eid e0 = true -> utf8_valid ep = true -> new_endpoint e0 ep = EOk e -> api_eid e = true.
Proof.
  intros H0 He. destruct e0 as [c s|c a|c n s].
  - cbn [api_eid] in H0. bools H0. rewrite new_endpoint_dtn by assumption. intros H. inversion H; subst.
    apply api_canon; [apply node_name_valid; assumption|exact He].
  - discriminate.
  - cbn [api_eid] in H0. bools H0. nat_facts. rewrite new_endpoint_ipn.
    destruct (parse_u64 (trim ep)) as [k|] eqn:E; [|discriminate]. intros H.
    eapply with_ipn_ok in H as [_ H]; [exact H|assumption|eapply parse_u64_bound; eassumption].
Qed.

(* ---------- from_api <-> api_eid ---------- *)
Theorem from_api_normal e : from_api e -> api_eid e = true.
Proof.
  induction 1 as [|s e Hv Hp|s e Hv Hw|n s e Hn Hs Hw|e0 ep e _ IH He Hne].
  - reflexivity.
  - eapply parse_ok_api; eassumption.
  - destruct (with_dtn_ok s Hv) as (s' & Hs' & Hapi). rewrite Hs' in Hw. inversion Hw; subst. exact Hapi.
  - eapply with_ipn_ok in Hw as [_ Hw]; eassumption.
  - eapply new_endpoint_ok_api; eassumption.
Qed.
Theorem api_from_api e : api_eid e = true -> from_api e.
Proof. intros H. apply (fa_parse (eid_print e)); [apply print_valid; exact H|apply print_parse; exact H]. Qed.

(* ---------- node id ---------- *)
(* holds for every dtn name whatsoever (valid UTF-8), in particular on the decoder's image *)
Theorem node_id_parses e id : eid_utf8 e = true -> (forall c n s, e = Ipn c n s -> 1 <= n < two64) ->
  node_id e = Some id ->
  exists e', eid_parse id = EOk e' /\ is_node_id e' = true /\ node e' = node e /\ api_eid e' = true.
Proof.
  intros Hu Hi Hid. destruct e as [c s|c a|c n s]; cbn [node_id eid_scheme] in Hid; inversion Hid; subst; clear Hid.
  - cbn [eid_utf8] in Hu.
    exists (Dtn ENDPOINT_URI_SCHEME_DTN (s_slashes ++ node_name s ++ c_slash :: [])).
    pose proof (node_name_no_slash s) as Hns. pose proof (node_name_valid s Hu) as Hnv.
    split; [|split; [|split]].
    + change (s_dtn ++ [c_colon] ++ s_slashes ++ node_name s ++ [c_slash]) with (s_dtn_url ++ node_name s ++ c_slash :: []).
      apply parse_dtn_canon; [exact Hnv|exact Hns|reflexivity].
    + cbn [is_node_id]. rewrite service_name_canon by exact Hns. reflexivity.
    + cbn [node]. rewrite node_name_canon by exact Hns. reflexivity.
    + apply api_canon; [exact Hnv|reflexivity].
  - specialize (Hi c n s eq_refl). exists (Ipn ENDPOINT_URI_SCHEME_IPN n 0). split; [|split; [|split]].
    + assert (E : dec 0 = [x30]) by (vm_compute; reflexivity).
      assert (H0 : 0 < two64) by (unfold two64; lia).
      pose proof (parse_ipn_canon n 0 Hi H0) as P. unfold ipn_print in P. rewrite E in P. exact P.
    + reflexivity.
    + reflexivity.
    + cbn [api_eid]. rewrite N.eqb_refl. destruct Hi as [H1 H2]. apply N.leb_le in H1. apply N.ltb_lt in H2. rewrite H1, H2. reflexivity.
Qed.

(* ---------- rejection classes, in explicit form ---------- *)
Lemma rej_no_colon s : mem_byte c_colon s = false -> eid_parse s = EErr InvalidUrlFormat.
Proof. intros H. unfold eid_parse. rewrite splitn2. apply break_none in H. rewrite H. reflexivity. Qed.
Lemma rej_unknown_scheme sch ssp : mem_byte c_colon sch = false -> sch <> s_dtn -> sch <> s_ipn ->
  eid_parse (sch ++ c_colon :: ssp) = EErr UnknownScheme.
Proof.
  intros H H1 H2. unfold eid_parse. rewrite parse_scheme by exact H.
  assert (bytes_eqb sch s_dtn = false) as -> by (destruct (bytes_eqb sch s_dtn) eqn:E; [apply bytes_eqb_eq in E; contradiction|reflexivity]).
  assert (bytes_eqb sch s_ipn = false) as -> by (destruct (bytes_eqb sch s_ipn) eqn:E; [apply bytes_eqb_eq in E; contradiction|reflexivity]).
  reflexivity.
Qed.
Lemma rej_dtn_no_slashes ssp : ssp <> s_none -> starts_with s_slashes ssp = false ->
  eid_parse (s_dtn ++ c_colon :: ssp) = EErr InvalidUrlFormat.
Proof.
  intros H1 H2. rewrite parse_dtn_ssp.
  assert (bytes_eqb ssp s_none = false) as -> by (destruct (bytes_eqb ssp s_none) eqn:E; [apply bytes_eqb_eq in E; contradiction|reflexivity]).
  rewrite H2. reflexivity.
Qed.
Lemma rej_dtn_none_host : eid_parse (s_dtn_url ++ s_none) = EErr NoneNotValidHost.
Proof. vm_compute. reflexivity. Qed.
Lemma rej_ipn_field_count ssp : count_byte c_dot ssp <> 1%nat -> eid_parse (s_ipn ++ c_colon :: ssp) = EErr WrongNumberOfFieldsInIpn.
Proof.
  intros H. rewrite parse_ipn_ssp. pose proof (split_length c_dot ssp) as Hl.
  destruct (split c_dot ssp) as [|f0 [|f1 [|f2 l]]]; try reflexivity. cbn [length] in Hl. congruence.
Qed.
Lemma rej_ipn_non_numeric a b : mem_byte c_dot a = false -> mem_byte c_dot b = false ->
  parse_u64 a = None \/ parse_u64 b = None ->
  eid_parse (s_ipn ++ c_colon :: a ++ c_dot :: b) = EErr CouldNotParseNumber.
Proof.
  intros Ha Hb H. rewrite parse_ipn_ssp. rewrite split_app by exact Ha. rewrite split_nosep by exact Hb.
  destruct (parse_u64 a); destruct (parse_u64 b); destruct H as [H|H]; try discriminate; reflexivity.
Qed.
Lemma rej_ipn_node_zero a b s : mem_byte c_dot a = false -> mem_byte c_dot b = false ->
  parse_u64 a = Some 0 -> parse_u64 b = Some s ->
  eid_parse (s_ipn ++ c_colon :: a ++ c_dot :: b) = EErr InvalidNodeNumber.
Proof.
  intros Ha Hb H1 H2. rewrite parse_ipn_ssp. rewrite split_app by exact Ha. rewrite split_nosep by exact Hb.
  rewrite H1, H2. reflexivity.
Qed.

(* ---------- the rejection classes as boolean predicates on the string ---------- *)
Definition scheme_of (s : list byte) : option (list byte * list byte) := break c_colon s.
Definition cls_no_separator (s : list byte) : bool := negb (mem_byte c_colon s).
Definition cls_unknown_scheme (s : list byte) : bool :=
  match scheme_of s with Some (sch, _) => negb (bytes_eqb sch s_dtn) && negb (bytes_eqb sch s_ipn) | None => false end.
Definition cls_dtn_without_slashes (s : list byte) : bool :=
  match scheme_of s with
  | Some (sch, ssp) => bytes_eqb sch s_dtn && negb (bytes_eqb ssp s_none) && negb (starts_with s_slashes ssp)
  | None => false end.
Definition cls_dtn_none_host (s : list byte) : bool := bytes_eqb s (s_dtn_url ++ s_none).
Definition ipn_fields (s : list byte) : option (list (list byte)) :=
  match scheme_of s with Some (sch, ssp) => if bytes_eqb sch s_ipn then Some (split c_dot ssp) else None | None => None end.
Definition cls_ipn_field_count (s : list byte) : bool :=
  match ipn_fields s with Some [_; _] => false | Some _ => true | None => false end.
(* a field is numeric iff u64::from_str accepts it: +?[0-9]+ with a value below 2^64 *)
Definition cls_ipn_non_numeric (s : list byte) : bool :=
  match ipn_fields s with
  | Some [a; b] => match parse_u64 a, parse_u64 b with Some _, Some _ => false | _, _ => true end
  | _ => false end.
Definition cls_ipn_node_zero (s : list byte) : bool :=
  match ipn_fields s with
  | Some [a; b] => match parse_u64 a, parse_u64 b with Some 0, Some _ => true | _, _ => false end
  | _ => false end.
Definition rejected_class (s : list byte) : bool :=
  cls_no_separator s || cls_unknown_scheme s || cls_dtn_without_slashes s || cls_dtn_none_host s
  || cls_ipn_node_zero s || cls_ipn_non_numeric s || cls_ipn_field_count s.

Lemma scheme_of_some s sch ssp : scheme_of s = Some (sch, ssp) -> s = sch ++ c_colon :: ssp /\ mem_byte c_colon sch = false.
Proof. apply break_some. Qed.
Lemma bytes_neq a b : bytes_eqb a b = false -> a <> b.
Proof. intros H E. subst. rewrite bytes_eqb_refl in H. discriminate. Qed.

Theorem rejected_class_err s : rejected_class s = true -> exists k, eid_parse s = EErr k.
Proof.
  unfold rejected_class. rewrite !orb_true_iff. intros [[[[[[H|H]|H]|H]|H]|H]|H].
  - exists InvalidUrlFormat. apply rej_no_colon. unfold cls_no_separator in H. apply negb_true_iff in H. exact H.
  - exists UnknownScheme. unfold cls_unknown_scheme in H. destruct (scheme_of s) as [[sch ssp]|] eqn:E; [|discriminate].
    apply scheme_of_some in E as [-> Hm]. apply andb_true_iff in H as [H1 H2]. apply negb_true_iff in H1, H2.
    apply rej_unknown_scheme; [exact Hm|apply bytes_neq; exact H1|apply bytes_neq; exact H2].
  - exists InvalidUrlFormat. unfold cls_dtn_without_slashes in H. destruct (scheme_of s) as [[sch ssp]|] eqn:E; [|discriminate].
    apply scheme_of_some in E as [-> Hm]. bools H. apply bytes_eqb_eq in H. subst sch. apply negb_true_iff in H0, H1.
    apply rej_dtn_no_slashes; [apply bytes_neq; exact H1|exact H0].
  - exists NoneNotValidHost. unfold cls_dtn_none_host in H. apply bytes_eqb_eq in H. subst. apply rej_dtn_none_host.
  - exists InvalidNodeNumber. unfold cls_ipn_node_zero, ipn_fields in H. destruct (scheme_of s) as [[sch ssp]|] eqn:E; [|discriminate].
    apply scheme_of_some in E as [-> Hm]. destruct (bytes_eqb sch s_ipn) eqn:Es; [|discriminate]. apply bytes_eqb_eq in Es. subst sch.
    rewrite parse_ipn_ssp. destruct (split c_dot ssp) as [|a [|b [|c l]]]; try discriminate.
    destruct (parse_u64 a) as [[|p]|]; try discriminate. destruct (parse_u64 b); try discriminate. reflexivity.
  - exists CouldNotParseNumber. unfold cls_ipn_non_numeric, ipn_fields in H. destruct (scheme_of s) as [[sch ssp]|] eqn:E; [|discriminate].
    apply scheme_of_some in E as [-> Hm]. destruct (bytes_eqb sch s_ipn) eqn:Es; [|discriminate]. apply bytes_eqb_eq in Es. subst sch.
    rewrite parse_ipn_ssp. destruct (split c_dot ssp) as [|a [|b [|c l]]]; try discriminate.
    destruct (parse_u64 a); destruct (parse_u64 b); try discriminate; reflexivity.
  - exists WrongNumberOfFieldsInIpn. unfold cls_ipn_field_count, ipn_fields in H. destruct (scheme_of s) as [[sch ssp]|] eqn:E; [|discriminate].
    apply scheme_of_some in E as [-> Hm]. destruct (bytes_eqb sch s_ipn) eqn:Es; [|discriminate]. apply bytes_eqb_eq in Es. subst sch.
    rewrite parse_ipn_ssp. destruct (split c_dot ssp) as [|a [|b [|c l]]]; try discriminate; reflexivity.
Qed.

(* ---------- CBOR ---------- *)
Lemma api_wf e : api_eid e = true -> eid_fits e = true -> wf_eid e = true.
Proof.
  destruct e as [c s|c a|c n s]; cbn [api_eid eid_fits wf_eid]; intros H Hf; bools H.
  - rewrite H, H2, Hf. destruct (slashes_cons s H1) as [t ->]. reflexivity.
  - rewrite H, H0. reflexivity.
  - rewrite H, H2, H1, H0. reflexivity.
Qed.
Theorem cbor_roundtrip e : api_eid e = true -> eid_fits e = true -> from_slice p_eid (enc_eid e) = Ok e.
Proof.
  intros H Hf. apply from_slice_ok. intros f. apply p_eid_ok; [apply api_wf; assumption|lia].
Qed.

(* ---------- the statements of Props/C10.v ---------- *)
Definition opt_nonempty (s : list byte) : option (list byte) := match s with [] => None | _ => Some s end.

Theorem accepts_canonical :
  eid_parse (s_dtn ++ [c_colon] ++ s_none) = EOk eid_none /\
  (forall n svc, utf8_valid n = true -> mem_byte c_slash n = false -> utf8_valid svc = true ->
     exists e, eid_parse (s_dtn_url ++ n ++ [c_slash] ++ svc) = EOk e /\
               e = Dtn ENDPOINT_URI_SCHEME_DTN (s_slashes ++ n ++ [c_slash] ++ svc) /\
               node e = Some n /\ service_name e = opt_nonempty svc) /\
  (forall n s, 1 <= n < two64 -> s < two64 ->
     exists e, eid_parse (s_ipn ++ [c_colon] ++ dec n ++ [c_dot] ++ dec s) = EOk e /\
               e = Ipn ENDPOINT_URI_SCHEME_IPN n s /\
               node e = Some (dec n) /\ service_name e = (if s =? 0 then None else Some (dec s))).
Proof.
  split; [reflexivity|split].
  - intros n svc Hn Hm Hs. eexists. split; [apply parse_dtn_canon; assumption|]. split; [reflexivity|].
    cbn [node service_name app]. rewrite node_name_canon, service_name_canon by exact Hm. split; reflexivity.
  - intros n s Hn Hs. eexists. split; [apply parse_ipn_canon; assumption|]. split; [reflexivity|]. split; reflexivity.
Qed.

Theorem node_id_api e id : from_api e -> node_id e = Some id ->
  exists e', eid_parse id = EOk e' /\ is_node_id e' = true /\ node e' = node e.
Proof.
  intros Ha Hid. apply from_api_normal in Ha.
  destruct (node_id_parses e id) as (e' & H1 & H2 & H3 & _); [| |exact Hid|eauto].
  - destruct e; cbn [api_eid eid_utf8] in *; [bools Ha; assumption|reflexivity|reflexivity].
  - intros c n s ->. cbn [api_eid] in Ha. bools Ha. nat_facts. split; assumption.
Qed.

Lemma digit_plain b : is_digit b = true -> plain_ascii b = true.
Proof.
  unfold is_digit, plain_ascii, ws1. intros H. apply andb_true_iff in H as [H1 H2]. apply N.leb_le in H1, H2.
  apply andb_true_iff. split; [apply N.ltb_lt; lia|]. apply negb_true_iff. apply orb_false_iff. split.
  - apply andb_false_iff. right. apply N.leb_gt. lia.
  - apply N.eqb_neq. lia.
Qed.
Theorem trim_dec p1 p2 k : forallb ws1 p1 = true -> forallb ws1 p2 = true -> trim (p1 ++ dec k ++ p2) = dec k.
Proof.
  intros H1 H2. pose proof (dec_digits k) as Hd. pose proof (dec_nonempty k) as Hne.
  destruct (dec k) as [|b t] eqn:E; [congruence|]. clear Hne.
  destruct t as [|c t'].
  - apply trim_single; [assumption|assumption|]. apply digit_plain. cbn [forallb] in Hd. apply andb_true_iff in Hd as [Hd _]. exact Hd.
  - destruct (@exists_last _ (c :: t') ltac:(discriminate)) as (mid & e & Et). rewrite Et in *.
    apply trim_padded; [assumption|assumption| |].
    + apply digit_plain. cbn [forallb] in Hd. apply andb_true_iff in Hd as [Hd _]. exact Hd.
    + apply digit_plain. cbn [forallb] in Hd. apply andb_true_iff in Hd as [_ Hd]. rewrite forallb_app in Hd.
      apply andb_true_iff in Hd as [_ Hd]. cbn [forallb] in Hd. apply andb_true_iff in Hd as [Hd _]. exact Hd.
Qed.

Theorem new_endpoint_spec :
  (forall c s ep, from_api (Dtn c s) -> utf8_valid ep = true ->
     exists e', new_endpoint (Dtn c s) ep = EOk e' /\ from_api e' /\
                node e' = node (Dtn c s) /\ service_name e' = opt_nonempty ep) /\
  (forall c n s ep k, from_api (Ipn c n s) -> parse_u64 (trim ep) = Some k ->
     exists e', new_endpoint (Ipn c n s) ep = EOk e' /\ from_api e' /\
                node e' = node (Ipn c n s) /\ service_name e' = (if k =? 0 then None else Some (dec k))) /\
  (forall c n s ep, parse_u64 (trim ep) = None -> new_endpoint (Ipn c n s) ep = EErr InvalidService) /\
  (forall c a ep, new_endpoint (DtnNone c a) ep = EErr NoneHasNoService) /\
  (forall p1 p2 k, forallb ws1 p1 = true -> forallb ws1 p2 = true -> k < two64 ->
     parse_u64 (trim (p1 ++ dec k ++ p2)) = Some k).
Proof.
  split; [|split; [|split; [|split]]].
  - intros c s ep Ha He. apply from_api_normal in Ha. cbn [api_eid] in Ha. bools Ha.
    eexists. split; [apply new_endpoint_dtn; assumption|].
    pose proof (node_name_no_slash s) as Hns. split; [|split].
    + apply api_from_api. apply api_canon; [apply node_name_valid; assumption|exact He].
    + cbn [node]. rewrite node_name_canon by exact Hns. reflexivity.
    + cbn [service_name]. rewrite service_name_canon by exact Hns. reflexivity.
  - intros c n s ep k Ha Hk. apply from_api_normal in Ha. cbn [api_eid] in Ha. bools Ha. nat_facts.
    exists (Ipn ENDPOINT_URI_SCHEME_IPN n k). rewrite new_endpoint_ipn, Hk. split; [apply with_ipn_api; assumption|].
    split; [|split; reflexivity]. apply api_from_api. cbn [api_eid]. rewrite N.eqb_refl.
    pose proof (parse_u64_bound _ _ Hk) as Hb. apply N.leb_le in Ha2. apply N.ltb_lt in Ha1, Hb. rewrite Ha2, Ha1, Hb. reflexivity.
  - intros c n s ep H. rewrite new_endpoint_ipn, H. reflexivity.
  - reflexivity.
  - intros p1 p2 k H1 H2 Hk. rewrite trim_dec by assumption. apply parse_dec. exact Hk.
Qed.

Theorem api_total :
  (forall s, utf8_valid s = true -> e_no_panic (eid_parse s)) /\
  (forall s, utf8_valid s = true -> e_no_panic (with_dtn s)) /\
  (forall n s, e_no_panic (with_ipn n s)) /\
  (forall e ep, eid_utf8 e = true -> utf8_valid ep = true -> e_no_panic (new_endpoint e ep)).
Proof.
  split; [exact eid_parse_total|split; [|split; [|exact new_endpoint_total]]].
  - intros s Hv p. destruct (with_dtn_ok s Hv) as (s' & -> & _). discriminate.
  - intros n s p. unfold with_ipn, validated. destruct (validate _); discriminate.
Qed.
