(* C19: every fault of Spec/Faults.v applied to a well-formed bundle yields bytes the decoder model rejects.
   Method: `nok` / `bad3` ("not a success") propagate through every combinator (field, parse_array,
   seq_loop, parse_indef_array, from_slice); the conformant prefix before the fault position parses by
   the success lemmas of CodecProofs; at the fault position a failure lemma applies (wrong major type,
   exhausted or unexhausted definite count, CRC length, nested from_slice); decode_total turns "not Ok"
   into "Err". *)
From BP7 Require Import Base.Prelude Base.Utf8 Gen.Consts Cbor.Item Cbor.SerdeDe Spec.CrcSpec Spec.Rfc9171 Spec.Faults.
From BP7 Require Import Model.Types Model.Encode Model.Decode Model.Wf.
From BP7 Require Import Proofs.CborLemmas Proofs.CodecProofs Proofs.SpecProofs Proofs.TotalProofs.

(* ---------- "not a success" ---------- *)
Definition nok {A} (r : res A) : Prop := match r with Ok _ => False | _ => True end.
(* the body of a definite array did not end in success with the count exhausted *)
Definition bad3 {A} (x : res A * seq_access * st) : Prop :=
  match fst (fst x) with
  | Ok _ => match snd (fst x) with Definite n => n <> 0 | Indefinite => False end
  | _ => True
  end.
(* parser `p` does not succeed on `bs` followed by anything, at any depth >= dmin *)
Definition rej {A} (p : nat -> st -> res A * st) (dmin : N) (bs : list byte) : Prop :=
  forall f r d, dmin <= d -> nok (fst (p (S f) (mkst (bs ++ r) d))).

Lemma rej_weaken {A} (p : nat -> st -> res A * st) d1 d2 bs : d1 <= d2 -> rej p d1 bs -> rej p d2 bs.
Proof. intros H R f r d Hd. apply R. lia. Qed.

(* ---------- propagation through the SeqAccess combinators ---------- *)
Lemma field_bad {A B} (p : st -> res A * st) m s (k : A -> seq_access -> st -> res B * seq_access * st) :
  (m <> 0 -> forall a s', bad3 (k a (Definite (m - 1)) s')) -> bad3 (field p (Definite m) s k).
Proof.
  intros H. unfold field, next_element. destruct (m =? 0) eqn:E; [exact I|]. apply N.eqb_neq in E.
  destruct (p s) as [[a|e|q] s']; cbn [rmap bind]; [apply H; assumption|exact I|exact I].
Qed.

Lemma field_rej {A B} (p : nat -> st -> res A * st) dmin bs f r d m (k : A -> seq_access -> st -> res B * seq_access * st) :
  rej p dmin bs -> dmin <= d -> bad3 (field (p (S f)) (Definite m) (mkst (bs ++ r) d) k).
Proof.
  intros R Hd. unfold field, next_element. destruct (m =? 0); [exact I|].
  specialize (R f r d Hd). destruct (p (S f) (mkst (bs ++ r) d)) as [[a|e|q] s']; cbn [rmap bind fst] in *; [contradiction|exact I|exact I].
Qed.

Lemma field_len {A B} (p : st -> res A * st) s (k : A -> seq_access -> st -> res B * seq_access * st) :
  bad3 (field p (Definite 0) s k).
Proof. exact I. Qed.

Lemma parse_array_bad {A} (body : seq_access -> st -> res A * seq_access * st) n s :
  bad3 (body (Definite n) (mkst (inp s) (depth s - 1))) -> nok (fst (parse_array (vis_seq body) n s)).
Proof.
  intros H. unfold parse_array, recursion_checked. destruct (depth s - 1 =? 0); [exact I|]. cbn [v_seq vis_seq].
  destruct (body (Definite n) (mkst (inp s) (depth s - 1))) as [[[a|e|q] acc] s']; cbn [fst snd] in *; try exact I.
  unfold bad3 in H. cbn [fst snd] in H. destruct acc as [[|pp]|]; cbn [fst]; try exact I; try contradiction.
Qed.

Lemma seq_array_bad {A} (body : seq_access -> st -> res A * seq_access * st) f n r d :
  n < two64 -> bad3 (body (Definite n) (mkst r (d - 1))) ->
  nok (fst (parse_value (vis_seq body) (S f) (mkst (head 4 n ++ r) d))).
Proof.
  intros Hn H. rewrite parse_value_head by (try lia; assumption). cbv zeta.
  change (4 =? 0) with false. change (4 =? 1) with false. change (4 =? 2) with false. change (4 =? 3) with false.
  change (4 =? 4) with true. cbv iota. apply parse_array_bad. exact H.
Qed.

(* a definite array of the items `l` read by a seq-only visitor whose body fails on them *)
Lemma arr_rej {A} (body : nat -> seq_access -> st -> res A * seq_access * st) dmin l :
  Nlen l < two64 ->
  (forall f r d, dmin <= d + 1 -> bad3 (body (S f) (Definite (Nlen l)) (mkst (concat (map ser l) ++ r) d))) ->
  rej (fun fuel => parse_value (vis_seq (body fuel)) fuel) dmin (ser (Arr l)).
Proof.
  intros Hl H f r d Hd. rewrite ser_arr, <- app_assoc. apply seq_array_bad; [assumption|]. apply H. lia.
Qed.

(* ---------- an item of the wrong kind at the head of the stream ---------- *)
Ltac ev7 :=
  repeat match goal with
  | |- context [N.div ?a ?b] => is_cN a; is_cN b; ground_rw (N.div a b)
  | |- context [N.modulo ?a ?b] => is_cN a; is_cN b; ground_rw (N.modulo a b)
  end; ground_N; cbn [orb andb]; cbv iota.

Lemma parse_value_null {A} (v : visitor A) f r d :
  parse_value v (S f) (mkst (n2b 246 :: r) d) = (v_unit v, mkst r d).
Proof. cbn [parse_value inp]. rewrite b2n_n2b by lia. ev7. reflexivity. Qed.
Lemma parse_value_f16 {A} (v : visitor A) f x r d :
  parse_value v (S f) (mkst (n2b 249 :: be_enc 2 x ++ r) d) = (v_float v, mkst r d).
Proof. cbn [parse_value inp]. rewrite b2n_n2b by lia. ev7. unfold set_inp. cbn [inp depth].
  rewrite take_app by apply be_enc_length. reflexivity. Qed.
Lemma parse_value_f32 {A} (v : visitor A) f x r d :
  parse_value v (S f) (mkst (n2b 250 :: be_enc 4 x ++ r) d) = (v_float v, mkst r d).
Proof. cbn [parse_value inp]. rewrite b2n_n2b by lia. ev7. unfold set_inp. cbn [inp depth].
  rewrite take_app by apply be_enc_length. reflexivity. Qed.
Lemma parse_value_f64 {A} (v : visitor A) f x r d :
  parse_value v (S f) (mkst (n2b 251 :: be_enc 8 x ++ r) d) = (v_float v, mkst r d).
Proof. cbn [parse_value inp]. rewrite b2n_n2b by lia. ev7. unfold set_inp. cbn [inp depth].
  rewrite take_app by apply be_enc_length. reflexivity. Qed.

Lemma kind_nok {A} (v : visitor A) x f r d :
  match x with
  | UInt n => n < two64 /\ nok (v_uint v n)
  | NInt n => n < two64 /\ nok (v_nint v)
  | BStr b => Nlen b < two64 /\ (forall y, nok (v_bytes v y))
  | TStr b => Nlen b < two64 /\ (forall y, nok (v_text v y))
  | Arr l => Nlen l < two64 /\ v_seq v = None
  | Map l => Nlen l < two64 /\ nok (v_map v)
  | Null => nok (v_unit v)
  | F16 _ | F32 _ | F64 _ => nok (v_float v)
  | _ => False
  end -> nok (fst (parse_value v (S f) (mkst (ser x ++ r) d))).
Proof.
  destruct x as [n|n|b|b|l|l|l|t i|b| | |w|w|w|b]; cbn [ser]; try contradiction.
  - intros [Hn H]. rewrite parse_value_head by (try lia; assumption). cbv zeta. ground_N. exact H.
  - intros [Hn H]. rewrite parse_value_head by (try lia; assumption). cbv zeta. ground_N. exact H.
  - intros [Hn H]. rewrite <- app_assoc. rewrite parse_value_head by (try lia; assumption). cbv zeta. ground_N.
    destruct (takeN (Nlen b) (b ++ r)) as [[y r']|]; [apply H|exact I].
  - intros [Hn H]. rewrite <- app_assoc. rewrite parse_value_head by (try lia; assumption). cbv zeta. ground_N.
    destruct (takeN (Nlen b) (b ++ r)) as [[y r']|]; [|exact I]. destruct (utf8_valid y); [apply H|exact I].
  - intros [Hn H]. rewrite <- app_assoc. rewrite parse_value_head by (try lia; assumption). cbv zeta. ground_N.
    unfold parse_array, recursion_checked. rewrite H. destruct (_ =? 0); exact I.
  - intros [Hn H]. rewrite <- app_assoc. rewrite parse_value_head by (try lia; assumption). cbv zeta. ground_N.
    unfold recursion_checked. destruct (_ =? 0); [exact I|]. cbn [fst]. exact H.
  - intros H. cbn [app]. rewrite parse_value_null. exact H.
  - intros H. cbn [app]. rewrite parse_value_f16. exact H.
  - intros H. cbn [app]. rewrite parse_value_f32. exact H.
  - intros H. cbn [app]. rewrite parse_value_f64. exact H.
Qed.

Lemma wrong_uint_rej bound x : wrong_uint x = true -> rej (fun f => parse_value (vis_uint bound) f) 0 (ser x).
Proof.
  intros H f r d _. apply kind_nok.
  destruct x; cbn [wrong_uint] in H; try discriminate; nat_facts; cbn [v_nint v_bytes v_text v_seq v_map v_unit v_float vis_uint nok];
    auto.
Qed.
Lemma wrong_arr_rej {A} (body : nat -> seq_access -> st -> res A * seq_access * st) x :
  wrong_arr x = true -> rej (fun f => parse_value (vis_seq (body f)) f) 0 (ser x).
Proof.
  intros H f r d _. apply kind_nok.
  destruct x; cbn [wrong_arr] in H; try discriminate; nat_facts; cbn [v_uint v_nint v_bytes v_text v_seq v_map v_unit v_float vis_seq nok];
    auto.
Qed.
Lemma is_int_rej x : is_int x = true -> rej p_bytebuf 0 (ser x).
Proof.
  intros H f r d _. unfold p_bytebuf. apply kind_nok.
  destruct x; cbn [is_int] in H; try discriminate; nat_facts; cbn [v_uint v_nint vis_bytebuf nok]; auto.
Qed.

(* ---------- bookkeeping tactics ---------- *)
Ltac closed_spine l := lazymatch l with nil => idtac | _ :: ?t => closed_spine t end.
Ltac nlen :=
  repeat match goal with
  | |- context [@Nlen item (?a :: ?l)] => closed_spine l;
      let v := eval vm_compute in (@Nlen item (a :: l)) in change (@Nlen item (a :: l)) with v
  | |- context [@Nlen item nil] => change (@Nlen item nil) with 0
  end.
(* concat (map ser [a; b; ...]) ++ r  ~>  ser a ++ ser b ++ ... ++ r *)
Ltac stream := cbn [map concat]; rewrite ?app_nil_r, <- ?app_assoc; nlen.
Ltac bad_ok := unfold bad3; cbn [fst snd]; try exact I; try discriminate; try lia.

Lemma ser_uint n : ser (UInt n) = enc_uint n. Proof. reflexivity. Qed.
Lemma ser_pair a b : ser (Arr [UInt a; UInt b]) = enc_arr 2 ++ enc_uint a ++ enc_uint b.
Proof. cbn [ser map concat]. rewrite app_nil_r. reflexivity. Qed.

(* an unsigned integer that is too large for the field *)
Lemma uint_big_rej bound k : bound <= k -> k < two64 -> rej (fun f => parse_value (vis_uint bound) f) 0 (ser (UInt k)).
Proof.
  intros Hb Hk f r d _. apply kind_nok. split; [assumption|]. cbn [v_uint vis_uint].
  assert (k <? bound = false) as -> by (apply N.ltb_ge; lia). exact I.
Qed.

(* ---------- pairs: creation timestamp, ipn ssp, hop count ---------- *)
Lemma pair_count_bad b1 b2 f n s : n <> 2 -> bad3 (pair_body b1 b2 f (Definite n) s).
Proof.
  intros Hn. unfold pair_body. apply field_bad; intros H1 a s1. apply field_bad; intros H2 b s2. bad_ok.
Qed.

Lemma pair_fault_rej b1 b2 pf a b x : a < b1 -> b < b2 -> a < two64 -> b < two64 ->
  apply_pair pf a b = Some x -> rej (p_pair b1 b2) 2 (ser x).
Proof.
  intros Ha Hb Ha' Hb' H. unfold p_pair.
  destruct pf as [[|[|i]]|y|[|[|i]] y]; cbn [apply_pair] in H; try discriminate;
    try (destruct (wrong_uint y) eqn:Ey; [|discriminate]); injection H as <-;
    (apply arr_rej; [vm_compute; reflexivity|]; intros f r d Hd; stream).
  - apply pair_count_bad. discriminate.
  - apply pair_count_bad. discriminate.
  - apply pair_count_bad. discriminate.
  - unfold pair_body. apply field_rej with (p := fun f => parse_value (vis_uint b1) f) (dmin := 0); [|lia].
    apply wrong_uint_rej. assumption.
  - unfold pair_body. rewrite ser_uint. fld ltac:(apply parse_uint_ok; assumption).
    apply field_rej with (p := fun f => parse_value (vis_uint b2) f) (dmin := 0); [|lia].
    apply wrong_uint_rej. assumption.
Qed.

(* ---------- endpoint IDs ---------- *)
Lemma ssp_item_ser e : ser (eid_item e) = enc_arr 2 ++ enc_uint (eid_code e) ++ ser (ssp_item e).
Proof. destruct e; cbn [eid_item ser map concat eid_code ssp_item]; rewrite ?app_nil_r; reflexivity. Qed.

Lemma eid_fault_rej ef e x : wf_eid e = true -> apply_eid ef e = Some x -> rej p_eid 4 (ser x).
Proof.
  intros Hwf H. unfold p_eid.
  destruct ef as [y| |k|y|y|pf| ]; cbn [apply_eid] in H.
  - (* extra item *)
    injection H as <-. apply arr_rej; [vm_compute; reflexivity|]. intros f r d Hd. stream. unfold eid_body.
    destruct e as [c s|c a|c n sv]; cbn [wf_eid] in Hwf; bools Hwf; nat_facts; subst;
      unfold ENDPOINT_URI_SCHEME_DTN, ENDPOINT_URI_SCHEME_IPN in *; cbn [eid_code ssp_item]; rewrite ser_uint.
    + fld ltac:(apply p_u8_ok; lia).
      erewrite next_def; [|discriminate|].
      2:{ cbn [ser]. apply parse_text_ok; assumption. }
      destruct s; [discriminate|]. bad_ok.
    + fld ltac:(apply p_u8_ok; lia).
      unfold next_element. ground_N. rewrite ser_uint. unfold enc_uint. rewrite parse_value_head by (unfold two64; lia).
      cbv zeta. ground_N. cbn [v_uint vis_string rmap bind]. bad_ok.
    + fld ltac:(apply p_u8_ok; lia).
      rewrite ser_pair, <- !app_assoc.
      fld ltac:(apply p_ts_ok'; [assumption|assumption|lia]).
      cbn [fst snd]. assert (n <? 1 = false) as -> by (apply N.ltb_ge; lia). bad_ok.
  - (* scheme code dropped *)
    injection H as <-. apply arr_rej; [vm_compute; reflexivity|]. intros f r d Hd. stream. unfold eid_body.
    destruct e as [c s|c a|c n sv]; cbn [wf_eid] in Hwf; bools Hwf; nat_facts; subst; cbn [ssp_item].
    + apply field_rej with (p := p_u8) (dmin := 0); [|lia]. apply wrong_uint_rej. cbn [wrong_uint]. apply N.ltb_lt. assumption.
    + rewrite ser_uint. fld ltac:(apply p_u8_ok; lia). unfold ENDPOINT_URI_SCHEME_DTN, ENDPOINT_URI_SCHEME_IPN. ground_N. bad_ok.
    + apply field_rej with (p := p_u8) (dmin := 0); [|lia]. apply wrong_uint_rej. vm_compute. reflexivity.
  - (* unknown scheme *)
    destruct (negb (k =? ENDPOINT_URI_SCHEME_DTN) && negb (k =? ENDPOINT_URI_SCHEME_IPN) && (k <? two64)) eqn:E; [|discriminate].
    injection H as <-. bools E. nat_facts.
    apply arr_rej; [vm_compute; reflexivity|]. intros f r d Hd. stream. unfold eid_body.
    destruct (k <? 256) eqn:Ek.
    + apply N.ltb_lt in Ek. rewrite ser_uint. fld ltac:(apply p_u8_ok; lia).
      apply N.eqb_neq in E. apply N.eqb_neq in E1. rewrite E, E1. bad_ok.
    + apply N.ltb_ge in Ek. apply field_rej with (p := p_u8) (dmin := 0); [|lia]. apply uint_big_rej; assumption.
  - (* scheme code of a wrong kind *)
    destruct (wrong_uint y) eqn:Ey; [|discriminate]. injection H as <-.
    apply arr_rej; [vm_compute; reflexivity|]. intros f r d Hd. stream. unfold eid_body.
    apply field_rej with (p := p_u8) (dmin := 0); [|lia]. apply wrong_uint_rej. assumption.
  - (* ipn ssp replaced *)
    destruct e as [c s|c a|c n sv]; try discriminate. destruct (wrong_arr y) eqn:Ey; [|discriminate]. injection H as <-.
    cbn [wf_eid] in Hwf; bools Hwf; nat_facts; subst. unfold ENDPOINT_URI_SCHEME_IPN.
    apply arr_rej; [vm_compute; reflexivity|]. intros f r d Hd. stream. unfold eid_body.
    rewrite ser_uint. fld ltac:(apply p_u8_ok; lia). unfold ENDPOINT_URI_SCHEME_DTN, ENDPOINT_URI_SCHEME_IPN. ground_N.
    apply field_rej with (p := p_pair two64 two64) (dmin := 0); [|lia]. unfold p_pair. apply wrong_arr_rej. assumption.
  - (* fault inside the ipn pair *)
    destruct e as [c s|c a|c n sv]; try discriminate. destruct (apply_pair pf n sv) as [t|] eqn:Et; [|discriminate]. injection H as <-.
    cbn [wf_eid] in Hwf; bools Hwf; nat_facts; subst. unfold ENDPOINT_URI_SCHEME_IPN.
    apply arr_rej; [vm_compute; reflexivity|]. intros f r d Hd. stream. unfold eid_body.
    rewrite ser_uint. fld ltac:(apply p_u8_ok; lia). unfold ENDPOINT_URI_SCHEME_DTN, ENDPOINT_URI_SCHEME_IPN. ground_N.
    apply field_rej with (p := p_pair two64 two64) (dmin := 2); [|lia].
    eapply pair_fault_rej; [| | | |exact Et]; assumption.
  - (* ipn node number 0 *)
    destruct e as [c s|c a|c n sv]; try discriminate. injection H as <-.
    cbn [wf_eid] in Hwf; bools Hwf; nat_facts; subst. unfold ENDPOINT_URI_SCHEME_IPN.
    apply arr_rej; [vm_compute; reflexivity|]. intros f r d Hd. stream. unfold eid_body.
    rewrite ser_uint. fld ltac:(apply p_u8_ok; lia). unfold ENDPOINT_URI_SCHEME_DTN, ENDPOINT_URI_SCHEME_IPN. ground_N.
    rewrite ser_pair, <- !app_assoc.
    fld ltac:(apply p_ts_ok'; [unfold two64; lia|assumption|lia]).
    cbn [fst snd]. ground_N. bad_ok.
Qed.

(* ---------- success steps on the item-level stream ---------- *)
Lemma su64 f n r d : n < 18446744073709551616 -> p_u64 (S f) (mkst (ser (UInt n) ++ r) d) = (Ok n, mkst r d).
Proof. intros. apply p_u64_ok. assumption. Qed.
Lemma su32 f n r d : n < 4294967296 -> p_u32 (S f) (mkst (ser (UInt n) ++ r) d) = (Ok n, mkst r d).
Proof. intros. apply p_u32_ok. assumption. Qed.
Lemma su8 f n r d : n < 256 -> p_u8 (S f) (mkst (ser (UInt n) ++ r) d) = (Ok n, mkst r d).
Proof. intros. apply p_u8_ok. assumption. Qed.
Lemma seid f e r d : wf_eid e = true -> 3 <= d -> p_eid (S f) (mkst (ser (eid_item e) ++ r) d) = (Ok e, mkst r d).
Proof. intros. rewrite ser_eid_item. apply p_eid_ok; assumption. Qed.
Lemma spair f a b r d : a < 18446744073709551616 -> b < 18446744073709551616 -> 2 <= d ->
  p_pair two64 two64 (S f) (mkst (ser (Arr [UInt a; UInt b]) ++ r) d) = (Ok (a, b), mkst r d).
Proof. intros. rewrite ser_pair. apply p_pair_ok; assumption. Qed.
Lemma sbytes f x r d : Nlen x < two64 -> p_bytebuf (S f) (mkst (ser (BStr x) ++ r) d) = (Ok x, mkst r d).
Proof. intros. apply p_bytebuf_ok. assumption. Qed.

Lemma eid_item_wrong_uint e : wrong_uint (eid_item e) = true.
Proof. destruct e; reflexivity. Qed.

(* one conformant field *)
Ltac step_ok :=
  first [ fld ltac:(apply su64; lia) | fld ltac:(apply su32; lia) | fld ltac:(apply su8; lia)
        | fld ltac:(apply seid; [assumption|lia]) | fld ltac:(apply spair; lia)
        | fld ltac:(apply sbytes; assumption) ].
(* a field whose item is of the wrong kind / too large *)
Ltac step_rej :=
  first [ apply field_rej with (p := p_u64) (dmin := 0); [apply wrong_uint_rej; first [assumption|apply eid_item_wrong_uint|reflexivity]|lia]
        | apply field_rej with (p := p_u32) (dmin := 0); [apply wrong_uint_rej; first [assumption|apply eid_item_wrong_uint|reflexivity]|lia]
        | apply field_rej with (p := p_u8) (dmin := 0); [apply wrong_uint_rej; first [assumption|apply eid_item_wrong_uint|reflexivity]|lia]
        | apply field_rej with (p := p_bytebuf) (dmin := 0); [apply is_int_rej; assumption|lia] ].

(* ---------- canonical blocks ---------- *)
(* canon_tail / prim_tail (below) are verbatim copies of the continuation of Decode.canonical_body after the CRC type,
   resp. of Decode.primary_body after the CRC type: `apply (canon_tail_bad ..)` unifies them with the unfolded body, so a
   change of the decoder model makes these proofs fail (and must be mirrored here). *)
Definition canon_tail (fuel : nat) (btype bnum bflags crc_type : N) (acc : seq_access) (s : st) : res canonical * seq_access * st :=
  field (p_bytebuf fuel) acc s (fun raw acc s =>
    match decode_cdata btype raw with
    | Err e => (Err e, acc, s)
    | Panic q => (Panic q, acc, s)
    | Ok data =>
      crc_field fuel crc_type acc s (fun crc acc s =>
        (Ok (mkcanonical btype bnum bflags crc data), acc, s))
    end).

(* the element count does not fit the CRC type *)
Lemma canon_tail_bad f ty num fl code m s : (code = 0 \/ code = 1 \/ code = 2) ->
  (code = 0 -> m <> 1) -> (code <> 0 -> m <> 2) -> bad3 (canon_tail f ty num fl code (Definite m) s).
Proof.
  intros Hc H0 H12. unfold canon_tail. apply field_bad; intros H1 raw s1.
  destruct (decode_cdata ty raw) as [data|e|q]; [|exact I|exact I].
  unfold crc_field, CRC_NO, CRC_16, CRC_32.
  destruct Hc as [->|[->| ->]]; ground_N.
  - bad_ok.
  - apply field_bad; intros H2 buf s2. destruct (Nat.eqb (length buf) 2); bad_ok.
  - apply field_bad; intros H2 buf s2. destruct (Nat.eqb (length buf) 4); bad_ok.
Qed.
Lemma canon_short f n s : n < 5 -> bad3 (canonical_body f (Definite n) s).
Proof.
  intros Hn. unfold canonical_body.
  apply field_bad; intros H1 a1 s1. apply field_bad; intros H2 a2 s2. apply field_bad; intros H3 a3 s3.
  apply field_bad; intros H4 a4 s4. apply field_bad; intros H5 a5 s5. lia.
Qed.

(* block data of an extension block that is not the item the block type requires *)
Lemma from_slice_rej {A} (p : nat -> st -> res A * st) bs : rej p 128 bs -> nok (from_slice p bs).
Proof.
  intros R. unfold from_slice. specialize (R (length bs) [] 128 ltac:(lia)). rewrite app_nil_r in R.
  destruct (p (S (length bs)) (mkst bs 128)) as [[a|e|q] s]; cbn [fst] in R; [contradiction|exact I|exact I].
Qed.
Lemma from_slice_trailing {A} (p : nat -> st -> res A * st) bs a b t :
  (forall f r, p (S f) (mkst (bs ++ r) 128) = (Ok a, mkst r 128)) -> from_slice p (bs ++ b :: t) = Err ETrailing.
Proof. intros H. unfold from_slice. rewrite H. reflexivity. Qed.

Lemma bstr_of_some bs x : bstr_of bs = Some x -> x = BStr bs /\ Nlen bs < two64.
Proof. unfold bstr_of. destruct (Nlen bs <? two64) eqn:E; [|discriminate]. intros H. injection H as <-. apply N.ltb_lt in E. auto. Qed.

Lemma nok_custom {A B} (r : res A) (k : A -> res B) : nok r -> nok (match r with Ok a => k a | Err _ => Err ECustom | Panic q => Panic q end).
Proof. destruct r; cbn; tauto. Qed.

Lemma ext_fault_nok ty d xf x : wf_data ty d = true -> apply_ext xf d = Some x ->
  exists raw, x = BStr raw /\ Nlen raw < two64 /\ nok (decode_cdata ty raw).
Proof.
  intros Hwf H. unfold decode_cdata.
  destruct d as [l c|b|a|e|b|]; cbn [wf_data apply_ext] in *; try discriminate; bools Hwf; nat_facts; subst;
    unfold PAYLOAD_BLOCK, BUNDLE_AGE_BLOCK, HOP_COUNT_BLOCK, PREVIOUS_NODE_BLOCK in *; ground_N.
  - (* hop count *)
    destruct xf as [y|[|b0 t]|pf|ef]; try discriminate.
    + destruct (wrong_arr y) eqn:Ey; [|discriminate]. apply bstr_of_some in H as [-> Hl]. eexists; split; [reflexivity|split; [assumption|]].
      apply nok_custom, from_slice_rej. unfold p_pair. apply (rej_weaken _ 0); [lia|]. apply wrong_arr_rej. assumption.
    + apply bstr_of_some in H as [-> Hl]. eexists; split; [reflexivity|split; [assumption|]].
      cbn [data_bytes]. erewrite from_slice_trailing; [exact I|]. intros f r. rewrite ser_pair.
      apply p_pair_ok; unfold u8_bound, two64; lia.
    + destruct (apply_pair pf l c) as [t|] eqn:Et; [|discriminate]. apply bstr_of_some in H as [-> Hl].
      eexists; split; [reflexivity|split; [assumption|]].
      apply nok_custom, from_slice_rej. apply (rej_weaken _ 2); [lia|].
      eapply pair_fault_rej; [| | | |exact Et]; unfold u8_bound, two64; lia.
  - (* bundle age *)
    destruct xf as [y|[|b0 t]|pf|ef]; try discriminate.
    + destruct (wrong_uint y) eqn:Ey; [|discriminate]. apply bstr_of_some in H as [-> Hl]. eexists; split; [reflexivity|split; [assumption|]].
      apply nok_custom, from_slice_rej. unfold p_u64. apply (rej_weaken _ 0); [lia|]. apply wrong_uint_rej. assumption.
    + apply bstr_of_some in H as [-> Hl]. eexists; split; [reflexivity|split; [assumption|]].
      cbn [data_bytes]. erewrite from_slice_trailing; [exact I|]. intros f r. apply p_u64_ok. assumption.
  - (* previous node *)
    destruct xf as [y|[|b0 t]|pf|ef]; try discriminate.
    + destruct (wrong_arr y) eqn:Ey; [|discriminate]. apply bstr_of_some in H as [-> Hl]. eexists; split; [reflexivity|split; [assumption|]].
      apply nok_custom, from_slice_rej. unfold p_eid. apply (rej_weaken _ 0); [lia|]. apply wrong_arr_rej. assumption.
    + apply bstr_of_some in H as [-> Hl]. eexists; split; [reflexivity|split; [assumption|]].
      cbn [data_bytes]. erewrite from_slice_trailing; [exact I|]. intros f r. apply seid; [assumption|lia].
    + destruct (apply_eid ef e) as [t|] eqn:Et; [|discriminate]. apply bstr_of_some in H as [-> Hl].
      eexists; split; [reflexivity|split; [assumption|]].
      apply nok_custom, from_slice_rej. apply (rej_weaken _ 4); [lia|]. eapply eid_fault_rej; eassumption.
Qed.

Ltac blk_simpl H :=
  cbn [apply_blk map slot_item app length nth_error Nat.ltb Nat.leb remove_nth replace_nth removelast apply_slot] in H.
Ltac arr_start f r d Hd := apply arr_rej; [vm_compute; reflexivity|]; intros f r d Hd; stream.

Lemma canon_fault_rej' ty num fl code data crcs bf l :
  ty < 18446744073709551616 -> num < 18446744073709551616 -> fl < 256 -> wf_data ty data = true ->
  ((code = 0 /\ crcs = []) \/ (code = 1 /\ exists v, length v = 2%nat /\ crcs = [SC v])
   \/ (code = 2 /\ exists v, length v = 4%nat /\ crcs = [SC v])) ->
  apply_blk bf code ([SU ty; SU num; SU fl; SU code; SD data] ++ crcs) = Some l -> rej p_canonical 5 (ser (Arr l)).
Proof.
  intros Hty Hnum Hfl Hwd Hcrc H. unfold p_canonical.
  assert (Hdl : Nlen (data_bytes data) < two64) by (rewrite data_bytes_raw; eapply raw_len; eassumption).
  assert (Hdw : wrong_uint (BStr (data_bytes data)) = true) by (cbn [wrong_uint]; apply N.ltb_lt; assumption).
  assert (Hdec : decode_cdata ty (data_bytes data) = Ok data) by (rewrite data_bytes_raw; apply decode_cdata_ok; assumption).
  destruct Hcrc as [[-> ->]|[[-> (v & Hv & ->)]|[-> (v & Hv & ->)]]].
  - (* no CRC: 5 items *)
    destruct bf as [i|y|b| |i itf].
    + do 5 (destruct i as [|i]; [blk_simpl H; injection H as <-; arr_start f r d Hd; apply canon_short; lia|]).
      blk_simpl H. discriminate.
    + blk_simpl H. injection H as <-. arr_start f r d Hd. unfold canonical_body. do 4 step_ok.
      apply (canon_tail_bad (S f) ty num fl 0); [tauto|discriminate|congruence].
    + blk_simpl H. ground_N. injection H as <-. arr_start f r d Hd. unfold canonical_body. do 4 step_ok.
      apply (canon_tail_bad (S f) ty num fl 0); [tauto|discriminate|congruence].
    + blk_simpl H. discriminate.
    + destruct i as [|[|[|[|[|i]]]]]; blk_simpl H; try (destruct i; discriminate);
        destruct itf as [y|pf|ef|b|xf]; try discriminate.
      * destruct (wrong_uint y) eqn:Ey; [|discriminate]. injection H as <-. arr_start f r d Hd. unfold canonical_body. step_rej.
      * destruct (wrong_uint y) eqn:Ey; [|discriminate]. injection H as <-. arr_start f r d Hd. unfold canonical_body. do 1 step_ok. step_rej.
      * destruct (wrong_uint y) eqn:Ey; [|discriminate]. injection H as <-. arr_start f r d Hd. unfold canonical_body. do 2 step_ok. step_rej.
      * destruct (wrong_uint y) eqn:Ey; [|discriminate]. injection H as <-. arr_start f r d Hd. unfold canonical_body. do 3 step_ok. step_rej.
      * destruct (is_int y) eqn:Ey; [|discriminate]. injection H as <-. arr_start f r d Hd. unfold canonical_body. do 4 step_ok. step_rej.
      * destruct (apply_ext xf data) as [x|] eqn:Ex; [|discriminate]. destruct (ext_fault_nok ty data xf x Hwd Ex) as (raw & -> & Hl & Hn). injection H as <-.
        arr_start f r d Hd. unfold canonical_body. do 5 step_ok.
        destruct (decode_cdata ty raw); [contradiction|exact I|exact I].
  - (* CRC-16: 6 items *)
    destruct bf as [i|y|b| |i itf].
    + destruct i as [|[|[|[|[|[|i]]]]]]; blk_simpl H; try discriminate; injection H as <-; arr_start f r d Hd; unfold canonical_body.
      * do 3 step_ok. step_rej.
      * do 3 step_ok. step_rej.
      * do 3 step_ok. step_rej.
      * do 3 step_ok. step_rej.
      * do 4 step_ok. apply (canon_tail_bad (S f) ty num fl 1); [tauto|discriminate|discriminate].
      * do 4 step_ok. apply (canon_tail_bad (S f) ty num fl 1); [tauto|discriminate|discriminate].
    + blk_simpl H. injection H as <-. arr_start f r d Hd. unfold canonical_body. do 4 step_ok.
      apply (canon_tail_bad (S f) ty num fl 1); [tauto|discriminate|discriminate].
    + blk_simpl H. ground_N. discriminate.
    + blk_simpl H. injection H as <-. arr_start f r d Hd. unfold canonical_body. do 4 step_ok.
      apply (canon_tail_bad (S f) ty num fl 1); [tauto|discriminate|discriminate].
    + destruct i as [|[|[|[|[|[|i]]]]]]; blk_simpl H; try (destruct i; discriminate);
        destruct itf as [y|pf|ef|b|xf]; try discriminate.
      * destruct (wrong_uint y) eqn:Ey; [|discriminate]. injection H as <-. arr_start f r d Hd. unfold canonical_body. step_rej.
      * destruct (wrong_uint y) eqn:Ey; [|discriminate]. injection H as <-. arr_start f r d Hd. unfold canonical_body. do 1 step_ok. step_rej.
      * destruct (wrong_uint y) eqn:Ey; [|discriminate]. injection H as <-. arr_start f r d Hd. unfold canonical_body. do 2 step_ok. step_rej.
      * destruct (wrong_uint y) eqn:Ey; [|discriminate]. injection H as <-. arr_start f r d Hd. unfold canonical_body. do 3 step_ok. step_rej.
      * destruct (is_int y) eqn:Ey; [|discriminate]. injection H as <-. arr_start f r d Hd. unfold canonical_body. do 4 step_ok. step_rej.
      * destruct (apply_ext xf data) as [x|] eqn:Ex; [|discriminate]. destruct (ext_fault_nok ty data xf x Hwd Ex) as (raw & -> & Hl & Hn). injection H as <-.
        arr_start f r d Hd. unfold canonical_body. do 5 step_ok.
        destruct (decode_cdata ty raw); [contradiction|exact I|exact I].
      * destruct (is_int y) eqn:Ey; [|discriminate]. injection H as <-. arr_start f r d Hd. unfold canonical_body. do 5 step_ok.
        rewrite Hdec. unfold crc_field, CRC_NO, CRC_16, CRC_32. ground_N. step_rej.
      * destruct (negb (Nat.eqb (length b) (length v)) && (Nlen b <? two64)) eqn:Eb; [|discriminate]. injection H as <-.
        bools Eb. nat_facts. rewrite Hv in Eb.
        arr_start f r d Hd. unfold canonical_body. do 5 step_ok.
        rewrite Hdec. unfold crc_field, CRC_NO, CRC_16, CRC_32. ground_N. step_ok. rewrite Eb. bad_ok.
  - (* CRC-32: 6 items *)
    destruct bf as [i|y|b| |i itf].
    + destruct i as [|[|[|[|[|[|i]]]]]]; blk_simpl H; try discriminate; injection H as <-; arr_start f r d Hd; unfold canonical_body.
      * do 3 step_ok. step_rej.
      * do 3 step_ok. step_rej.
      * do 3 step_ok. step_rej.
      * do 3 step_ok. step_rej.
      * do 4 step_ok. apply (canon_tail_bad (S f) ty num fl 2); [tauto|discriminate|discriminate].
      * do 4 step_ok. apply (canon_tail_bad (S f) ty num fl 2); [tauto|discriminate|discriminate].
    + blk_simpl H. injection H as <-. arr_start f r d Hd. unfold canonical_body. do 4 step_ok.
      apply (canon_tail_bad (S f) ty num fl 2); [tauto|discriminate|discriminate].
    + blk_simpl H. ground_N. discriminate.
    + blk_simpl H. injection H as <-. arr_start f r d Hd. unfold canonical_body. do 4 step_ok.
      apply (canon_tail_bad (S f) ty num fl 2); [tauto|discriminate|discriminate].
    + destruct i as [|[|[|[|[|[|i]]]]]]; blk_simpl H; try (destruct i; discriminate);
        destruct itf as [y|pf|ef|b|xf]; try discriminate.
      * destruct (wrong_uint y) eqn:Ey; [|discriminate]. injection H as <-. arr_start f r d Hd. unfold canonical_body. step_rej.
      * destruct (wrong_uint y) eqn:Ey; [|discriminate]. injection H as <-. arr_start f r d Hd. unfold canonical_body. do 1 step_ok. step_rej.
      * destruct (wrong_uint y) eqn:Ey; [|discriminate]. injection H as <-. arr_start f r d Hd. unfold canonical_body. do 2 step_ok. step_rej.
      * destruct (wrong_uint y) eqn:Ey; [|discriminate]. injection H as <-. arr_start f r d Hd. unfold canonical_body. do 3 step_ok. step_rej.
      * destruct (is_int y) eqn:Ey; [|discriminate]. injection H as <-. arr_start f r d Hd. unfold canonical_body. do 4 step_ok. step_rej.
      * destruct (apply_ext xf data) as [x|] eqn:Ex; [|discriminate]. destruct (ext_fault_nok ty data xf x Hwd Ex) as (raw & -> & Hl & Hn). injection H as <-.
        arr_start f r d Hd. unfold canonical_body. do 5 step_ok.
        destruct (decode_cdata ty raw); [contradiction|exact I|exact I].
      * destruct (is_int y) eqn:Ey; [|discriminate]. injection H as <-. arr_start f r d Hd. unfold canonical_body. do 5 step_ok.
        rewrite Hdec. unfold crc_field, CRC_NO, CRC_16, CRC_32. ground_N. step_rej.
      * destruct (negb (Nat.eqb (length b) (length v)) && (Nlen b <? two64)) eqn:Eb; [|discriminate]. injection H as <-.
        bools Eb. nat_facts. rewrite Hv in Eb.
        arr_start f r d Hd. unfold canonical_body. do 5 step_ok.
        rewrite Hdec. unfold crc_field, CRC_NO, CRC_16, CRC_32. ground_N. step_ok. rewrite Eb. bad_ok.
Qed.

(* ---------- the primary block ---------- *)
Definition prim_tail (fuel : nat) (version flags crc_type : N) (acc : seq_access) (s : st) : res primary * seq_access * st :=
  field (p_eid fuel) acc s (fun dst acc s =>
  field (p_eid fuel) acc s (fun src acc s =>
  field (p_eid fuel) acc s (fun rpt acc s =>
  field (p_pair two64 two64 fuel) acc s (fun ts acc s =>
  field (p_u64 fuel) acc s (fun lifetime acc s =>
    let rest := match size_hint acc with
                | Some n => n
                | None => (if bundle_flag flags BUNDLE_IS_FRAGMENT then 2 else 0)
                          + (if (crc_type =? CRC_16) || (crc_type =? CRC_32) then 1 else 0)
                end in
    let frag (k : N -> N -> seq_access -> st -> res primary * seq_access * st) :=
      if 1 <? rest then
        field (p_u64 fuel) acc s (fun off acc s =>
        field (p_u64 fuel) acc s (fun len acc s => k off len acc s))
      else k 0 0 acc s in
    frag (fun off len acc s =>
      crc_field fuel crc_type acc s (fun crc acc s =>
        (Ok (mkprimary version flags crc dst src rpt (fst ts) (snd ts) lifetime off len), acc, s)))))))).

(* element counts (after version, flags, CRC type) the decoder can accept for a CRC type *)
Definition prim_count_ok (code m : N) : bool :=
  if code =? 0 then (m =? 5) || (m =? 7) else (m =? 6) || (m =? 8).

Lemma prim_tail_bad f ver fl code m s : (code = 0 \/ code = 1 \/ code = 2) ->
  prim_count_ok code m = false -> bad3 (prim_tail f ver fl code (Definite m) s).
Proof.
  intros Hc Hm. unfold prim_tail.
  apply field_bad; intros H1 a1 s1. apply field_bad; intros H2 a2 s2. apply field_bad; intros H3 a3 s3.
  apply field_bad; intros H4 a4 s4. apply field_bad; intros H5 a5 s5.
  cbv zeta. cbn [size_hint]. unfold prim_count_ok in Hm.
  destruct (1 <? m - 1 - 1 - 1 - 1 - 1) eqn:E; [apply N.ltb_lt in E|apply N.ltb_ge in E].
  - apply field_bad; intros H6 a6 s6. apply field_bad; intros H7 a7 s7.
    unfold crc_field, CRC_NO, CRC_16, CRC_32.
    destruct Hc as [->|[->| ->]]; ground_N; cbv iota in Hm; apply orb_false_iff in Hm as [Ha Hb]; apply N.eqb_neq in Ha, Hb.
    + bad_ok.
    + apply field_bad; intros H8 buf s8. destruct (Nat.eqb (length buf) 2); bad_ok.
    + apply field_bad; intros H8 buf s8. destruct (Nat.eqb (length buf) 4); bad_ok.
  - unfold crc_field, CRC_NO, CRC_16, CRC_32.
    destruct Hc as [->|[->| ->]]; ground_N; cbv iota in Hm; apply orb_false_iff in Hm as [Ha Hb]; apply N.eqb_neq in Ha, Hb.
    + bad_ok.
    + apply field_bad; intros H8 buf s8. destruct (Nat.eqb (length buf) 2); bad_ok.
    + apply field_bad; intros H8 buf s8. destruct (Nat.eqb (length buf) 4); bad_ok.
Qed.

Ltac step_rej2 :=
  first [ step_rej
        | apply field_rej with (p := p_eid) (dmin := 0); [unfold p_eid; apply wrong_arr_rej; assumption|lia]
        | apply field_rej with (p := p_eid) (dmin := 4); [eapply eid_fault_rej; [|eassumption]; assumption|lia]
        | apply field_rej with (p := p_pair two64 two64) (dmin := 0); [unfold p_pair; apply wrong_arr_rej; assumption|lia]
        | apply field_rej with (p := p_pair two64 two64) (dmin := 2); [eapply pair_fault_rej; [| | | |eassumption]; unfold two64; lia|lia] ].
Ltac frag_logic := cbv zeta; cbn [size_hint]; ground_N; cbv beta iota.
Ltac psteps n :=
  lazymatch n with
  | O => idtac
  | S ?k => psteps k; step_ok; lazymatch k with 7%nat => frag_logic | _ => idtac end
  end.
Ltac open_H H :=
  lazymatch type of H with
  | (match (if ?c then _ else _) with _ => _ end) = _ => let E := fresh "Ey" in destruct c eqn:E; [|discriminate]
  | (match ?o with Some _ => _ | None => _ end) = _ =>
      let x := fresh "x" in let E := fresh "Ex" in destruct o as [x|] eqn:E; [|discriminate]
  end; injection H as <-.
Ltac norm_hyps := repeat match goal with H : _ && _ = true |- _ => bools H end; nat_facts.
Ltac crc_len_fin :=
  match goal with
  | E : Nat.eqb (length _) (length ?v) = false, Hv : length ?v = _ |- _ => rewrite Hv in E; rewrite E
  end; bad_ok.
Ltac pfinish :=
  first [ step_rej2
        | unfold crc_field, CRC_NO, CRC_16, CRC_32; ground_N; first [ step_rej2 | step_ok; crc_len_fin ] ].
Ltac count_fin f ver fl code :=
  do 3 step_ok; apply (prim_tail_bad (S f) ver fl code); [tauto|reflexivity].
Ltac drop_fin f ver fl code :=
  first [ count_fin f ver fl code
        | do 2 step_ok; step_rej
        | destruct (N.ltb_spec fl 4294967296);
          [ do 2 step_ok; step_rej | apply field_rej with (p := p_u32) (dmin := 0); [apply uint_big_rej; unfold u32_bound, two64; lia|lia] ] ].
Ltac drop_pos H f r d Hd ver fl code :=
  blk_simpl H; first [ discriminate | injection H as <-; arr_start f r d Hd; unfold primary_body; drop_fin f ver fl code ].
Ltac at_pos H itf n f r d Hd :=
  blk_simpl H;
  first [ discriminate
        | destruct itf as [?y|?pf|?ef|?b|?xf]; try discriminate; open_H H; norm_hyps; arr_start f r d Hd; unfold primary_body;
          psteps n; pfinish ].

Lemma prim_fault_rej' ver fl code dst src rpt t q life fr crcs bf l :
  ver < 4294967296 -> fl < 18446744073709551616 -> wf_eid dst = true -> wf_eid src = true -> wf_eid rpt = true ->
  t < 18446744073709551616 -> q < 18446744073709551616 -> life < 18446744073709551616 ->
  (fr = [] \/ exists off len, off < 18446744073709551616 /\ len < 18446744073709551616 /\ fr = [SU off; SU len]) ->
  ((code = 0 /\ crcs = []) \/ (code = 1 /\ exists v, length v = 2%nat /\ crcs = [SC v])
   \/ (code = 2 /\ exists v, length v = 4%nat /\ crcs = [SC v])) ->
  apply_blk bf code ([SU ver; SU fl; SU code; SE dst; SE src; SE rpt; SP t q; SU life] ++ fr ++ crcs) = Some l ->
  rej p_primary 5 (ser (Arr l)).
Proof.
  intros Hver Hfl Hdst Hsrc Hrpt Ht Hq Hlife Hfr Hcrc H. unfold p_primary.
  destruct Hfr as [->|(off & len & Hoff & Hlen & ->)];
  destruct Hcrc as [[-> ->]|[[-> (v & Hv & ->)]|[-> (v & Hv & ->)]]];
  (destruct bf as [i|y|b| |i itf];
   [ (* drop *)
     do 12 (destruct i as [|i]; [
                                 first [drop_pos H f r d Hd ver fl 0 | drop_pos H f r d Hd ver fl 1 | drop_pos H f r d Hd ver fl 2]|]);
     blk_simpl H; discriminate
   | (* extra *)
     blk_simpl H; injection H as <-; arr_start f r d Hd; unfold primary_body;
     first [count_fin f ver fl 0 | count_fin f ver fl 1 | count_fin f ver fl 2]
   | blk_simpl H; ground_N; first [discriminate | injection H as <-; arr_start f r d Hd; unfold primary_body;
     first [count_fin f ver fl 0 | count_fin f ver fl 1 | count_fin f ver fl 2]]
   | blk_simpl H; ground_N; first [discriminate | injection H as <-; arr_start f r d Hd; unfold primary_body;
     first [count_fin f ver fl 0 | count_fin f ver fl 1 | count_fin f ver fl 2]]
   | (* at position i *)
     destruct i as [|i]; [at_pos H itf 0%nat f r d Hd|];
     destruct i as [|i]; [at_pos H itf 1%nat f r d Hd|];
     destruct i as [|i]; [at_pos H itf 2%nat f r d Hd|];
     destruct i as [|i]; [at_pos H itf 3%nat f r d Hd|];
     destruct i as [|i]; [at_pos H itf 4%nat f r d Hd|];
     destruct i as [|i]; [at_pos H itf 5%nat f r d Hd|];
     destruct i as [|i]; [at_pos H itf 6%nat f r d Hd|];
     destruct i as [|i]; [at_pos H itf 7%nat f r d Hd|];
     destruct i as [|i]; [at_pos H itf 8%nat f r d Hd|];
     destruct i as [|i]; [at_pos H itf 9%nat f r d Hd|];
     destruct i as [|i]; [at_pos H itf 10%nat f r d Hd|];
     destruct i; blk_simpl H; discriminate ]).
Qed.

(* ---------- the slots of a well-formed block are its RFC items ---------- *)
Lemma crc_slot_items ct items : (ct = 0 \/ ct = 1 \/ ct = 2) -> with_crc ct items = Arr (items ++ map slot_item (crc_slot ct items)).
Proof.
  intros [->|[->| ->]]; unfold with_crc, crc_slot; ground_N; cbn [map slot_item]; rewrite ?app_nil_r; reflexivity.
Qed.
Lemma crc_slot_cases ct items : (ct = 0 \/ ct = 1 \/ ct = 2) ->
  (ct = 0 /\ crc_slot ct items = []) \/ (ct = 1 /\ exists v, length v = 2%nat /\ crc_slot ct items = [SC v])
  \/ (ct = 2 /\ exists v, length v = 4%nat /\ crc_slot ct items = [SC v]).
Proof.
  intros [->|[->| ->]]; unfold crc_slot; ground_N.
  - left. auto.
  - right. left. split; [reflexivity|]. eexists. split; [|reflexivity]. apply be_enc_length.
  - right. right. split; [reflexivity|]. eexists. split; [|reflexivity]. apply be_enc_length.
Qed.
Lemma wf_crc_code c : wf_crc c = true -> crc_code c = 0 \/ crc_code c = 1 \/ crc_code c = 2.
Proof. destruct c; cbn; try discriminate; auto. Qed.

Lemma prim_slots_items p : wf_crc (p_crc p) = true -> Arr (map slot_item (prim_slots p)) = primary_item p.
Proof.
  intros Hc. unfold primary_item. rewrite crc_slot_items by (apply wf_crc_code; assumption). f_equal.
  unfold prim_slots, primary_items. rewrite !map_app, app_assoc. f_equal. destruct (is_fragment (p_flags p)); reflexivity.
Qed.
Lemma canon_slots_items c : wf_crc (c_crc c) = true -> Arr (map slot_item (canon_slots c)) = canonical_item c.
Proof.
  intros Hc. unfold canonical_item. rewrite crc_slot_items by (apply wf_crc_code; assumption). f_equal.
Qed.

Lemma prim_fault_rej p bf l : wf_primary p = true ->
  apply_blk bf (crc_code (p_crc p)) (prim_slots p) = Some l -> rej p_primary 5 (ser (Arr l)).
Proof.
  intros Hwf H. destruct p as [ver flags crc dst src rpt t q life off len]. unfold wf_primary in Hwf.
  cbn [p_version p_flags p_crc p_dst p_src p_rpt p_time p_seq p_lifetime p_frag_off p_total_len] in *.
  bools Hwf. nat_facts. unfold two64 in *. unfold prim_slots in H.
  cbn [p_version p_flags p_crc p_dst p_src p_rpt p_time p_seq p_lifetime p_frag_off p_total_len] in H.
  eapply prim_fault_rej'; [..|exact H]; try assumption.
  - destruct (is_fragment flags); [right; exists off, len; auto|left; reflexivity].
  - apply crc_slot_cases, wf_crc_code. assumption.
Qed.
Lemma canon_fault_rej c bf l : wf_canonical c = true ->
  apply_blk bf (crc_code (c_crc c)) (canon_slots c) = Some l -> rej p_canonical 5 (ser (Arr l)).
Proof.
  intros Hwf H. destruct c as [ty num fl crc data]. unfold wf_canonical in Hwf. cbn [c_type c_num c_flags c_crc c_data] in *.
  bools Hwf. nat_facts. unfold two64 in Hwf, Hwf3. unfold canon_slots in H. cbn [c_type c_num c_flags c_crc c_data] in H.
  eapply canon_fault_rej'; [..|exact H]; try assumption.
  apply crc_slot_cases, wf_crc_code. assumption.
Qed.

(* ---------- the outer indefinite array ---------- *)
Lemma head_first m n r : m < 7 -> n < two64 -> exists b t, head m n ++ r = b :: t /\ b2n b <> 255.
Proof.
  intros Hm Hn. destruct (head_spec m n r 0 ltac:(lia) Hn) as (b & rest0 & ai & Hh & Hmt & _).
  exists b, rest0. split; [exact Hh|]. intros E. rewrite E in Hmt. change (255 / 32) with 7 in Hmt. lia.
Qed.
Definition starts_nobreak (bs : list byte) : Prop := forall r, exists b t, bs ++ r = b :: t /\ b2n b <> 255.
Lemma arr_starts l : Nlen l < two64 -> starts_nobreak (ser (Arr l)).
Proof. intros H r. rewrite ser_arr, <- app_assoc. apply head_first; [lia|assumption]. Qed.
Lemma wrong_arr_starts x : wrong_arr x = true -> starts_nobreak (ser x).
Proof.
  intros H r. destruct x; cbn [wrong_arr] in H; try discriminate; nat_facts; cbn [ser]; rewrite <- ?app_assoc;
    apply head_first; (lia || assumption).
Qed.

Lemma from_cbor_unfold bs : from_cbor (n2b 159 :: bs) =
  let fuel := S (S (length bs)) in
  let '(r, acc, s') := bundle_body fuel Indefinite (mkst bs 127) in
  match r with
  | Ok a => match inp s' with
            | [] => Err EEof
            | b :: t => if b2n b =? 255 then match t with [] => Ok a | _ => Err ETrailing end else Err ETrailing
            end
  | Err e => Err e
  | Panic q => Panic q
  end.
Proof.
  unfold from_cbor, from_slice, p_bundle. cbn [length parse_value inp]. rewrite b2n_n2b by lia.
  change (159 / 32) with 4. change (159 mod 32) with 31.
  change (4 =? 0) with false. change (4 =? 1) with false. change (4 =? 2) with false. change (4 =? 3) with false.
  change (4 =? 4) with true. change (31 =? 31) with true. cbv iota.
  unfold set_inp. cbn [inp depth].
  unfold parse_indef_array, recursion_checked. cbn [inp depth v_seq vis_seq].
  change (128 - 1 =? 0) with false. cbv iota. change (128 - 1) with 127. cbv zeta.
  destruct (bundle_body (S (S (length bs))) Indefinite (mkst bs 127)) as [[[a|e|q] acc] s']; try reflexivity.
  destruct (inp s') as [|b t]; [reflexivity|]. destruct (b2n b =? 255); [|reflexivity].
  unfold set_inp. cbn [inp]. destruct t; reflexivity.
Qed.

(* fault inside (or in place of) the primary block *)
Lemma bundle_nok_primary bs0 rest : rej p_primary 5 bs0 -> nok (from_cbor (n2b 159 :: bs0 ++ rest)).
Proof.
  intros R. rewrite from_cbor_unfold. cbv zeta. generalize (S (length (bs0 ++ rest))). intros fuel.
  specialize (R fuel rest 127 ltac:(lia)).
  unfold bundle_body, field, next_element. cbn [inp].
  remember (bs0 ++ rest) as X eqn:EX. clear EX. destruct X as [|b t]; [exact I|]. destruct (b2n b =? 255); [exact I|].
  destruct (p_primary (S fuel) (mkst (b :: t) 127)) as [[a|e|q] s']; cbn [fst rmap bind] in *; [contradiction|exact I|exact I].
Qed.

Lemma nok_rmap {A B} (g : A -> B) (r : res A) : nok r -> nok (rmap g r).
Proof. destruct r; cbn; tauto. Qed.

Lemma seq_loop_prefix_nok pf : forall cs fuel tail d, Forall block_ok cs -> (length cs < fuel)%nat -> 5 <= d ->
  nok (fst (fst (seq_loop (p_canonical (S pf)) (fuel - length cs) Indefinite (mkst tail d)))) ->
  nok (fst (fst (seq_loop (p_canonical (S pf)) fuel Indefinite (mkst (concat (map enc_canonical cs) ++ tail) d)))).
Proof.
  induction cs as [|c cs IH]; intros fuel tail d Hall Hf Hd Hn.
  - cbn [length map concat app] in *. rewrite Nat.sub_0_r in Hn. exact Hn.
  - destruct fuel as [|f]; [cbn in Hf; lia|].
    inversion Hall as [|? ? [Hwf Hc] Hrest]; subst. cbn [map concat seq_loop]. rewrite <- app_assoc.
    destruct (enc_canonical_first c (concat (map enc_canonical cs) ++ tail)) as [t Ht].
    unfold next_element at 1. rewrite Ht. cbn [inp].
    assert (b2n (n2b (128 + (if has_crc (c_crc c) then 6 else 5))) =? 255 = false) as ->.
    { apply N.eqb_neq. rewrite b2n_n2b by (destruct (has_crc _); lia). destruct (has_crc _); lia. }
    rewrite <- Ht. rewrite p_canonical_ok by assumption. cbn [rmap bind].
    specialize (IH f tail d Hrest ltac:(cbn in Hf; lia) Hd).
    cbn [length] in Hn. replace (S f - S (length cs))%nat with (f - length cs)%nat in Hn by lia. specialize (IH Hn).
    destruct (seq_loop (p_canonical (S pf)) f Indefinite (mkst (concat (map enc_canonical cs) ++ tail) d)) as [[r' acc'] s'].
    cbn [fst] in *. apply nok_rmap. exact IH.
Qed.

(* conformant primary block, conformant canonical blocks cs, then a tail on which the block loop fails *)
Lemma bundle_nok_tail p cs tail :
  wf_primary p = true -> crc_filled (p_crc p) = true -> Forall block_ok cs ->
  (forall pf fuel, nok (fst (fst (seq_loop (p_canonical (S pf)) (S fuel) Indefinite (mkst tail 127))))) ->
  nok (from_cbor (n2b 159 :: enc_primary p ++ concat (map enc_canonical cs) ++ tail)).
Proof.
  intros Hwp Hcp Hall Htail. rewrite from_cbor_unfold. cbv zeta.
  set (bs := enc_primary p ++ concat (map enc_canonical cs) ++ tail).
  assert (Hlen : (length cs < S (length bs))%nat).
  { unfold bs. rewrite !app_length. pose proof (concat_length_ge cs). lia. }
  unfold bundle_body.
  destruct (enc_primary_first p (concat (map enc_canonical cs) ++ tail)) as (t & Ht & Hn).
  erewrite field_indef; [|cbn [inp]; exact Ht| |].
  3:{ apply p_primary_ok; [assumption|assumption|lia]. }
  2:{ rewrite b2n_n2b by lia. lia. }
  pose proof (seq_loop_prefix_nok (S (length bs)) cs (S (S (length bs))) tail 127 Hall ltac:(lia) ltac:(lia)) as Hp.
  replace (S (S (length bs)) - length cs)%nat with (S (S (length bs) - length cs))%nat in Hp by lia.
  specialize (Hp (Htail _ _)).
  destruct (seq_loop (p_canonical (S (S (length bs)))) (S (S (length bs))) Indefinite (mkst (concat (map enc_canonical cs) ++ tail) 127))
    as [[r' acc'] s'].
  cbn [fst] in Hp. destruct r'; cbn [rmap bind] in *; [contradiction|exact I|exact I].
Qed.

Lemma tail_rej bs rest : rej p_canonical 5 bs -> starts_nobreak bs ->
  forall pf fuel, nok (fst (fst (seq_loop (p_canonical (S pf)) (S fuel) Indefinite (mkst (bs ++ rest) 127)))).
Proof.
  intros R Hs pf fuel. cbn [seq_loop]. unfold next_element. cbn [inp].
  destruct (Hs rest) as (b & t & E & Hb). rewrite E. apply N.eqb_neq in Hb. rewrite Hb. rewrite <- E.
  specialize (R pf rest 127 ltac:(lia)).
  destruct (p_canonical (S pf) (mkst (bs ++ rest) 127)) as [[a|e|q] s']; cbn [fst rmap bind] in *; [contradiction|exact I|exact I].
Qed.
Lemma tail_eof : forall pf fuel, nok (fst (fst (seq_loop (p_canonical (S pf)) (S fuel) Indefinite (mkst [] 127)))).
Proof. intros. exact I. Qed.

(* bytes after the break *)
Lemma bundle_trailing p cs b t :
  wf_primary p = true -> crc_filled (p_crc p) = true -> Forall block_ok cs ->
  from_cbor (n2b 159 :: enc_primary p ++ concat (map enc_canonical cs) ++ n2b 255 :: b :: t) = Err ETrailing.
Proof.
  intros Hwp Hcp Hall. rewrite from_cbor_unfold. cbv zeta.
  set (bs := enc_primary p ++ concat (map enc_canonical cs) ++ n2b 255 :: b :: t).
  assert (Hlen : (length cs < S (length bs))%nat).
  { unfold bs. rewrite !app_length. pose proof (concat_length_ge cs). lia. }
  unfold bundle_body.
  destruct (enc_primary_first p (concat (map enc_canonical cs) ++ n2b 255 :: b :: t)) as (t' & Ht & Hn).
  erewrite field_indef; [|cbn [inp]; exact Ht| |].
  3:{ apply p_primary_ok; [assumption|assumption|lia]. }
  2:{ rewrite b2n_n2b by lia. lia. }
  rewrite seq_loop_ok; [|assumption|lia|lia].
  cbn [rmap bind inp]. rewrite b2n_n2b by lia. change (255 =? 255) with true. reflexivity.
Qed.

(* ---------- list bookkeeping ---------- *)
Lemma ser_indef l : ser (ArrIndef l) = n2b 159 :: concat (map ser l) ++ [n2b 255].
Proof. reflexivity. Qed.
Lemma replace_nth_app {A} (l1 : list A) a l2 x : replace_nth (length l1) x (l1 ++ a :: l2) = l1 ++ x :: l2.
Proof. induction l1 as [|y l1 IH]; cbn [length app replace_nth]; [reflexivity|]. rewrite IH. reflexivity. Qed.
Lemma replace_nth_length {A} (l : list A) : forall i x, length (replace_nth i x l) = length l.
Proof. induction l as [|a l IH]; intros [|i] x; cbn [replace_nth length]; auto. Qed.
Lemma remove_nth_length {A} (l : list A) : forall i, (length (remove_nth i l) <= length l)%nat.
Proof. induction l as [|a l IH]; intros [|i]; cbn [remove_nth length]; auto. specialize (IH i). lia. Qed.
Lemma removelast_length {A} (l : list A) : (length (removelast l) <= length l)%nat.
Proof. induction l as [|a l IH]; cbn [removelast length]; auto. destruct l; cbn [length] in *; lia. Qed.
Lemma apply_blk_length bf ct sl l : apply_blk bf ct sl = Some l -> (length l <= S (length sl))%nat.
Proof.
  destruct bf as [i|y|b| |i itf]; cbn [apply_blk]; intros H.
  - destruct (Nat.ltb i _); [|discriminate]. injection H as <-. pose proof (remove_nth_length (map slot_item sl) i). rewrite map_length in *. lia.
  - injection H as <-. rewrite app_length, map_length. cbn [length]. lia.
  - destruct (ct =? 0); [|discriminate]. injection H as <-. rewrite app_length, map_length. cbn [length]. lia.
  - destruct (ct =? 0); [discriminate|]. injection H as <-. pose proof (removelast_length (map slot_item sl)). rewrite map_length in *. lia.
  - destruct (nth_error sl i); [|discriminate]. destruct (apply_slot itf s); [|discriminate]. injection H as <-.
    rewrite replace_nth_length, map_length. lia.
Qed.
Lemma crc_slot_length ct items : (length (crc_slot ct items) <= 1)%nat.
Proof. unfold crc_slot. destruct (ct =? 1); [cbn; lia|]. destruct (ct =? 2); cbn; lia. Qed.
Lemma canon_blk_small bf c l : apply_blk bf (crc_code (c_crc c)) (canon_slots c) = Some l -> Nlen l < two64.
Proof.
  intros H. apply apply_blk_length in H. unfold canon_slots in H. rewrite app_length in H. cbn [length] in H.
  pose proof (crc_slot_length (crc_code (c_crc c)) (canonical_items c)). unfold Nlen, two64. lia.
Qed.

(* the conformant blocks are the model encoder's bytes of blocks with fresh CRCs *)
Lemma canon_sers cs : forallb wf_canonical cs = true ->
  concat (map ser (map canonical_item cs)) = concat (map enc_canonical (map canonical_update_crc cs))
  /\ Forall block_ok (map canonical_update_crc cs).
Proof.
  induction cs as [|c cs IH]; cbn [forallb map concat]; intros H; [split; [reflexivity|constructor]|].
  apply andb_true_iff in H as [Hc Hcs]. destruct (IH Hcs) as [E F].
  destruct (canonical_update_facts c Hc) as (C1 & C2 & _ & _).
  assert (Hcrc : wf_crc (c_crc c) = true) by (unfold wf_canonical in Hc; bools Hc; assumption).
  rewrite E, <- (canonical_update_ser c Hcrc). split; [reflexivity|]. constructor; [split; assumption|assumption].
Qed.
Lemma forallb_app_inv {A} (g : A -> bool) l1 l2 : forallb g (l1 ++ l2) = true -> forallb g l1 = true /\ forallb g l2 = true.
Proof. rewrite forallb_app. apply andb_true_iff. Qed.

(* a faulty item in place of canonical block number (length cs1) *)
Lemma bundle_nok_canonical p cs1 cs2 x :
  wf_primary p = true -> forallb wf_canonical cs1 = true -> rej p_canonical 5 (ser x) -> starts_nobreak (ser x) ->
  nok (from_cbor (ser (ArrIndef (primary_item p :: map canonical_item cs1 ++ x :: map canonical_item cs2)))).
Proof.
  intros Hp H1 R S. rewrite ser_indef. cbn [map concat]. rewrite map_app, concat_app. cbn [map concat].
  destruct (primary_update_facts p Hp) as (P1 & P2 & _ & _).
  assert (Hcrc : wf_crc (p_crc p) = true) by (unfold wf_primary in Hp; bools Hp; assumption).
  rewrite <- (primary_update_ser p Hcrc). destruct (canon_sers cs1 H1) as [E F]. rewrite E.
  rewrite <- !app_assoc.
  apply bundle_nok_tail; [assumption|assumption|assumption|]. apply tail_rej; assumption.
Qed.

Lemma some_inj {A} (x y : A) : Some x = Some y -> x = y.
Proof. intros H. injection H. auto. Qed.

Theorem faults_nok b f bytes : wf_bundle b = true -> apply_fault f b = Some bytes -> nok (from_cbor bytes).
Proof.
  intros Hwf H. destruct b as [p cs]. unfold wf_bundle in Hwf. cbn [b_primary b_canonicals] in *.
  apply andb_true_iff in Hwf as [Hp Hcs].
  assert (Hcrc : wf_crc (p_crc p) = true) by (unfold wf_primary in Hp; bools Hp; assumption).
  destruct (primary_update_facts p Hp) as (P1 & P2 & _ & _).
  destruct f as [bf|i bf|i x| |extra]; cbn [apply_fault b_primary b_canonicals] in H.
  - (* fault in the primary block *)
    destruct (apply_blk bf (crc_code (p_crc p)) (prim_slots p)) as [l|] eqn:E; [|discriminate]. apply some_inj in H; subst bytes.
    rewrite ser_indef. cbn [map concat]. rewrite <- app_assoc.
    apply bundle_nok_primary. eapply prim_fault_rej; [|eassumption]; assumption.
  - (* fault in canonical block i *)
    destruct (nth_error cs i) as [c|] eqn:En; [|discriminate].
    destruct (apply_blk bf (crc_code (c_crc c)) (canon_slots c)) as [l|] eqn:E; [|discriminate]. apply some_inj in H; subst bytes.
    apply nth_error_split in En as (cs1 & cs2 & -> & <-).
    apply forallb_app_inv in Hcs as [H1 H2]. cbn [forallb] in H2. apply andb_true_iff in H2 as [Hc H2].
    rewrite map_app. cbn [map]. rewrite <- (map_length canonical_item cs1), replace_nth_app.
    apply bundle_nok_canonical; [assumption|assumption| |].
    + eapply canon_fault_rej; [|eassumption]; assumption.
    + apply arr_starts. eapply canon_blk_small. eassumption.
  - (* a block replaced by an item that is not an array *)
    destruct (Nat.ltb i (length (primary_item p :: map canonical_item cs)) && wrong_arr x) eqn:E; [|discriminate]. apply some_inj in H; subst bytes.
    apply andb_true_iff in E as [Ei Ex].
    destruct i as [|j]; cbn [replace_nth].
    + rewrite ser_indef. cbn [map concat]. rewrite <- app_assoc. apply bundle_nok_primary.
      apply (rej_weaken _ 0); [lia|]. unfold p_primary. apply wrong_arr_rej. assumption.
    + cbn [length] in Ei. apply Nat.ltb_lt in Ei. rewrite map_length in Ei.
      destruct (nth_error cs j) as [c|] eqn:En; [|apply nth_error_None in En; lia].
      apply nth_error_split in En as (cs1 & cs2 & -> & <-).
      apply forallb_app_inv in Hcs as [H1 H2].
      rewrite map_app. cbn [map]. rewrite <- (map_length canonical_item cs1), replace_nth_app.
      apply bundle_nok_canonical; [assumption|assumption| |].
      * apply (rej_weaken _ 0); [lia|]. unfold p_canonical. apply wrong_arr_rej. assumption.
      * apply wrong_arr_starts. assumption.
  - (* no break *)
    apply some_inj in H; subst bytes. unfold rfc_bytes, rfc_item. cbn [b_primary b_canonicals]. rewrite ser_indef.
    rewrite app_comm_cons, removelast_last. cbn [map concat].
    rewrite <- (primary_update_ser p Hcrc). destruct (canon_sers cs Hcs) as [E F]. rewrite E.
    rewrite <- (app_nil_r (concat _)).
    apply bundle_nok_tail; [assumption|assumption|assumption|]. apply tail_eof.
  - (* bytes after the break *)
    destruct extra as [|b0 t]; [discriminate|]. apply some_inj in H; subst bytes.
    unfold rfc_bytes, rfc_item. cbn [b_primary b_canonicals]. rewrite ser_indef. cbn [map concat].
    rewrite <- (primary_update_ser p Hcrc). destruct (canon_sers cs Hcs) as [E F]. rewrite E.
    cbn [app]. rewrite <- !app_assoc. cbn [app].
    rewrite bundle_trailing by assumption. exact I.
Qed.

Theorem faults_rejected b f bytes : wf_bundle b = true -> apply_fault f b = Some bytes -> exists e, from_cbor bytes = Err e.
Proof.
  intros Hwf H. pose proof (faults_nok b f bytes Hwf H) as N. pose proof (decode_total bytes) as T.
  destruct (from_cbor bytes) as [a|e|q]; [contradiction|exists e; reflexivity|exfalso; apply (T q); reflexivity].
Qed.

(* the faults are relative to the conformant encoding: the slots are the RFC items *)
Lemma blocks_of_rfc b : wf_bundle b = true -> ArrIndef (blocks_of b) = rfc_item b.
Proof.
  intros H. destruct b as [p cs]. unfold wf_bundle in H. cbn [b_primary b_canonicals] in H. apply andb_true_iff in H as [Hp Hcs].
  unfold blocks_of, rfc_item. cbn [b_primary b_canonicals]. f_equal. f_equal.
  - apply prim_slots_items. unfold wf_primary in Hp. bools Hp. assumption.
  - apply map_ext_in. intros c Hin. apply canon_slots_items. rewrite forallb_forall in Hcs. specialize (Hcs c Hin).
    unfold wf_canonical in Hcs. bools Hcs. assumption.
Qed.
