(* Proofs about the FFI ownership / allocation model (Model/Ffi.v); statements collected in Props/C14.v. *)
From Coq Require Import ZArith.
(* EidText first: its `validate` (of an EID) is shadowed by Model.Validate.validate (of a bundle) below *)
From BP7 Require Import Model.EidText.
From BP7 Require Import Base.Prelude Base.Decimal Base.Utf8 Gen.Consts.
From BP7 Require Import Model.Types Model.Encode Model.Decode Model.Wf Model.Validate Model.Ops Model.DtnTime Model.Ffi.
From BP7 Require Import Proofs.CodecProofs Proofs.TotalProofs.

(* ------------------------------------------------------------------------------------------------ *)
(* lists                                                                                            *)
(* ------------------------------------------------------------------------------------------------ *)
Lemma upd_nth_length {A} (l : list A) i x : length (upd_nth l i x) = length l.
Proof. revert i; induction l as [|a t IH]; intros [|j]; cbn [upd_nth length]; auto. Qed.
Lemma nth_upd_same {A} (l : list A) i x y : nth_error l i = Some y -> nth_error (upd_nth l i x) i = Some x.
Proof. revert i; induction l as [|a t IH]; intros [|j]; cbn [upd_nth nth_error]; try discriminate; auto. Qed.
Lemma nth_upd_other {A} (l : list A) i j x : i <> j -> nth_error (upd_nth l i x) j = nth_error l j.
Proof.
  revert i j; induction l as [|a t IH]; intros [|i] [|j] H; cbn [upd_nth nth_error]; auto; try congruence.
Qed.
Lemma upd_nth_id {A} (l : list A) i x : nth_error l i = Some x -> upd_nth l i x = l.
Proof.
  revert i; induction l as [|a t IH]; intros [|j]; cbn [upd_nth nth_error]; try discriminate.
  - intros H; inversion H; reflexivity.
  - intros H; rewrite IH by exact H; reflexivity.
Qed.
Lemma map_upd_nth {A B} (f : A -> B) (l : list A) i x : map f (upd_nth l i x) = upd_nth (map f l) i (f x).
Proof. revert i; induction l as [|a t IH]; intros [|j]; cbn [upd_nth map]; try rewrite IH; reflexivity. Qed.

Open Scope Z_scope.
Lemma sumZ_app l1 l2 : sumZ (l1 ++ l2) = sumZ l1 + sumZ l2.
Proof. unfold sumZ. induction l1 as [|a t IH]; cbn [app fold_right]; [reflexivity|]. rewrite IH. ring. Qed.
Lemma sumZ_upd {A} (f : A -> Z) (l : list A) i x y : nth_error l i = Some x ->
  sumZ (map f (upd_nth l i y)) = sumZ (map f l) - f x + f y.
Proof.
  unfold sumZ. revert i; induction l as [|a t IH]; intros [|j]; cbn [upd_nth nth_error map fold_right]; try discriminate.
  - intros H; inversion H; subst. ring.
  - intros H. rewrite (IH _ H). ring.
Qed.
Close Scope Z_scope.

(* ------------------------------------------------------------------------------------------------ *)
(* heap access                                                                                      *)
(* ------------------------------------------------------------------------------------------------ *)
Definition cell_w (o : option fcell) : Z := match o with Some c => cell_allocs c | None => 0%Z end.
Lemma live_allocs_eq s : live_allocs s = sumZ (map cell_w (f_cells s)).
Proof. reflexivity. Qed.

Lemma fget_nth s h c : fget s h = Some c -> nth_error (f_cells s) h = Some (Some c).
Proof. unfold fget. destruct (nth_error (f_cells s) h) as [[x|]|]; intros H; inversion H; reflexivity. Qed.
Lemma fget_fpush_fresh s c : fget (fpush s c) (fresh s) = Some c.
Proof. unfold fget, fpush, fresh. cbn [f_cells]. rewrite nth_error_app2 by lia. rewrite Nat.sub_diag. reflexivity. Qed.
Lemma fget_fpush_old s c h x : fget s h = Some x -> fget (fpush s c) h = Some x.
Proof.
  intros H. pose proof (fget_nth _ _ _ H) as Hn. unfold fget, fpush. cbn [f_cells].
  rewrite nth_error_app1 by (apply nth_error_Some; congruence). rewrite Hn. reflexivity.
Qed.
Lemma fget_fkill s h : fget (fkill s h) h = None.
Proof.
  unfold fget, fkill. cbn [f_cells]. destruct (nth_error (f_cells s) h) as [x|] eqn:E.
  - rewrite (nth_upd_same _ _ _ _ E). reflexivity.
  - assert (L : nth_error (upd_nth (f_cells s) h None) h = None).
    { apply nth_error_None. rewrite upd_nth_length. apply nth_error_None. exact E. }
    rewrite L. reflexivity.
Qed.
Lemma fget_fset s h c x : fget s h = Some x -> fget (fset s h c) h = Some c.
Proof. intros H. unfold fget, fset. cbn [f_cells]. rewrite (nth_upd_same _ _ _ _ (fget_nth _ _ _ H)). reflexivity. Qed.

Lemma live_fpush s c : live_allocs (fpush s c) = (live_allocs s + cell_allocs c)%Z.
Proof. rewrite !live_allocs_eq. unfold fpush. cbn [f_cells]. rewrite map_app, sumZ_app. cbn. ring. Qed.
Lemma live_fkill s h c : fget s h = Some c -> live_allocs (fkill s h) = (live_allocs s - cell_allocs c)%Z.
Proof.
  intros H. rewrite !live_allocs_eq. unfold fkill. cbn [f_cells].
  rewrite (sumZ_upd cell_w _ _ _ None (fget_nth _ _ _ H)). cbn [cell_w]. ring.
Qed.
Lemma live_fset s h c c' : fget s h = Some c -> live_allocs (fset s h c') = (live_allocs s - cell_allocs c + cell_allocs c')%Z.
Proof.
  intros H. rewrite !live_allocs_eq. unfold fset. cbn [f_cells].
  rewrite (sumZ_upd cell_w _ _ _ (Some c') (fget_nth _ _ _ H)). reflexivity.
Qed.
Lemma live_last s l : live_allocs (mk_fstate (f_cells s) l) = live_allocs s.
Proof. reflexivity. Qed.

Lemma buffer_data_get s h d : buffer_data s h = Some d -> fget s h = Some (CallerCell d) \/ fget s h = Some (BufferCell d).
Proof. unfold buffer_data. destruct (fget s h) as [[x|x|x|? ? ? ? ?]|]; intros H; inversion H; auto. Qed.

(* ------------------------------------------------------------------------------------------------ *)
(* CRC recomputation changes neither validity, nor the payload, nor the allocation count            *)
(* ------------------------------------------------------------------------------------------------ *)
Lemma upd_c_type c : c_type (canonical_update_crc c) = c_type c. Proof. reflexivity. Qed.
Lemma upd_c_num c : c_num (canonical_update_crc c) = c_num c. Proof. reflexivity. Qed.
Lemma upd_c_flags c : c_flags (canonical_update_crc c) = c_flags c. Proof. reflexivity. Qed.
Lemma upd_c_data c : c_data (canonical_update_crc c) = c_data c. Proof. reflexivity. Qed.
Lemma extension_valid_upd c : extension_valid (canonical_update_crc c) = extension_valid c.
Proof. reflexivity. Qed.
Lemma canonical_validate_upd c : canonical_validate (canonical_update_crc c) = canonical_validate c.
Proof. reflexivity. Qed.

Lemma block_loop_upd strict cs : forall nums types,
  block_loop strict (map canonical_update_crc cs) nums types = block_loop strict cs nums types.
Proof.
  induction cs as [|c t IH]; intros nums types; [reflexivity|].
  cbn [map block_loop]. rewrite canonical_validate_upd, upd_c_num, upd_c_type, upd_c_flags, IH. reflexivity.
Qed.
Lemma ext_block_upd ty cs :
  ext_block_by_type ty (map canonical_update_crc cs) = option_map canonical_update_crc (ext_block_by_type ty cs).
Proof.
  unfold ext_block_by_type. induction cs as [|c t IH]; [reflexivity|].
  cbn [map find]. rewrite upd_c_type, extension_valid_upd.
  destruct ((c_type c =? ty) && extension_valid c); [reflexivity|exact IH].
Qed.
Lemma payload_calc b : payload (bundle_calculate_crc b) = payload b.
Proof.
  unfold payload, bundle_calculate_crc. cbn [b_canonicals]. rewrite ext_block_upd.
  destruct (ext_block_by_type PAYLOAD_BLOCK (b_canonicals b)) as [c|]; reflexivity.
Qed.
Lemma validate_calc b : validate (bundle_calculate_crc b) = validate b.
Proof.
  unfold validate. rewrite payload_calc. unfold bundle_calculate_crc, is_admin_record. cbn [b_primary b_canonicals].
  rewrite block_loop_upd. reflexivity.
Qed.
Lemma is_valid_calc b : is_valid (bundle_calculate_crc b) = is_valid b.
Proof. unfold is_valid. rewrite validate_calc. reflexivity. Qed.
Lemma bundle_allocs_calc b : bundle_allocs (bundle_calculate_crc b) = bundle_allocs b.
Proof.
  unfold bundle_allocs, bundle_calculate_crc. cbn [b_primary b_canonicals]. rewrite map_map.
  replace (match map canonical_update_crc (b_canonicals b) with [] => 0%Z | _ :: _ => 1%Z end)
    with (match b_canonicals b with [] => 0%Z | _ :: _ => 1%Z end) by (destruct (b_canonicals b); reflexivity).
  reflexivity.
Qed.
Lemma to_cbor_snd b : snd (to_cbor b) = bundle_calculate_crc b. Proof. reflexivity. Qed.
Lemma to_cbor_fst b : fst (to_cbor b) = bundle_bytes (bundle_calculate_crc b). Proof. reflexivity. Qed.
Lemma is_valid_true b : is_valid b = true <-> validate b = [].
Proof. unfold is_valid. destruct (validate b); split; intros H; try reflexivity; discriminate. Qed.

(* ------------------------------------------------------------------------------------------------ *)
(* every call changes the number of live library allocations by exactly the delta it reports          *)
(* ------------------------------------------------------------------------------------------------ *)
Ltac destruct_matches H :=
  repeat match type of H with
         | context [match ?x with _ => _ end] =>
             lazymatch x with
             | context [match _ with _ => _ end] => fail      (* innermost scrutinee first *)
             | _ => destruct x eqn:?
             end
         end.

Theorem fstep_live m s c s' r d : fstep m s c = (s', r, d) -> live_allocs s' = (live_allocs s + d)%Z.
Proof.
  unfold fstep, fstep_v, alloc, release, same. intros H.
  destruct c; destruct_matches H; inversion H; subst; clear H;
    rewrite ?live_fpush, ?live_last; cbn [cell_allocs]; unfold meta_allocs; try lia;
    try (erewrite live_fkill by eassumption; cbn [cell_allocs]; unfold meta_allocs; lia).
  - (* ToCbor: the stored bundle gets its CRCs, the count does not change *)
    erewrite live_fset by eassumption. cbn [cell_allocs].
    match goal with E : to_cbor ?b = (_, ?b') |- _ =>
      assert (Hb : b' = bundle_calculate_crc b) by (rewrite <- to_cbor_snd, E; reflexivity) end.
    subst. rewrite bundle_allocs_calc. lia.
Qed.

(* ------------------------------------------------------------------------------------------------ *)
(* the caller's book is a faithful shadow of the heap                                               *)
(* ------------------------------------------------------------------------------------------------ *)
Definition book_of (s : fstate) : book := map (option_map kind_of) (f_cells s).

Lemma book_live_of s h : book_live (book_of s) h = option_map kind_of (fget s h).
Proof.
  unfold book_live, book_of, fget. rewrite nth_error_map.
  destruct (nth_error (f_cells s) h) as [[c|]|]; reflexivity.
Qed.
Lemma book_of_fpush s c : book_of (fpush s c) = book_of s ++ [Some (kind_of c)].
Proof. unfold book_of, fpush. cbn [f_cells]. rewrite map_app. reflexivity. Qed.
Lemma book_of_fkill s h : book_of (fkill s h) = upd_nth (book_of s) h None.
Proof. unfold book_of, fkill. cbn [f_cells]. rewrite map_upd_nth. reflexivity. Qed.
Lemma book_of_fset s h c c' : fget s h = Some c -> kind_of c' = kind_of c -> book_of (fset s h c') = book_of s.
Proof.
  intros H K. unfold book_of, fset. cbn [f_cells]. rewrite map_upd_nth. apply upd_nth_id.
  rewrite nth_error_map, (fget_nth _ _ _ H). cbn [option_map]. rewrite K. reflexivity.
Qed.
Lemma book_of_last s l : book_of (mk_fstate (f_cells s) l) = book_of s.
Proof. reflexivity. Qed.

(* one call: if the caller's book allows it, the library does not report a protocol error and the book after the
   call (updated from nothing but the return value) is again the shadow of the heap *)
Lemma book_step_sim m s c s' r d bk' : fstep m s c = (s', r, d) ->
  book_step (book_of s) c r = Some bk' -> r <> RProtocolError /\ bk' = book_of s'.
Proof.
  unfold fstep, fstep_v, book_step, alloc, release, same, buffer_data. intros H B.
  destruct c; cbn [call_uses call_frees call_creates] in B; try rewrite book_live_of in B;
    destruct_matches H; inversion H; subst; clear H; cbn [option_map kind_of is_kind is_buf] in B;
    try discriminate B; inversion B; subst; clear B;
    (split; [discriminate|]);
    rewrite ?book_of_fpush, ?book_of_fkill, ?book_of_last; cbn [kind_of]; try reflexivity.
  - (* ToCbor *) erewrite book_of_fset by (try eassumption; reflexivity). reflexivity.
Qed.

(* the model flags what the book forbids: a dead handle, a handle of the wrong kind, the wrong free function *)
Lemma book_reject_protocol m s c s' r d : fstep m s c = (s', r, d) ->
  (book_step (book_of s) c r = None <-> r = RProtocolError).
Proof.
  unfold fstep, fstep_v, book_step, alloc, release, same, buffer_data. intros H.
  destruct c; cbn [call_uses call_frees call_creates]; try rewrite book_live_of;
    destruct_matches H; inversion H; subst; clear H; cbn [option_map kind_of is_kind is_buf];
    split; intros X; try discriminate X; try reflexivity.
Qed.

Lemma frun_cons m s c t : frun m s (c :: t) =
  let '(s1, r, d) := fstep m s c in let '(s2, tr) := frun m s1 t in (s2, (c, r, d) :: tr).
Proof. reflexivity. Qed.

Definition no_protocol_error (tr : ftrace) : Prop := Forall (fun x => snd (fst x) <> RProtocolError) tr.

Lemma frun_sim m calls : forall s s' tr bk, frun m s calls = (s', tr) -> book_run (book_of s) tr = Some bk ->
  bk = book_of s' /\ no_protocol_error tr /\ live_allocs s' = (live_allocs s + net_allocs tr)%Z.
Proof.
  induction calls as [|c t IH]; intros s s' tr bk H B.
  - cbn in H. inversion H; subst. cbn in B. inversion B; subst. split; [reflexivity|]. split; [constructor|].
    unfold net_allocs. cbn. ring.
  - rewrite frun_cons in H. destruct (fstep m s c) as [[s1 r] d] eqn:E. destruct (frun m s1 t) as [s2 tr2] eqn:E2.
    inversion H; subst. cbn [book_run] in B.
    destruct (book_step (book_of s) c r) as [bk1|] eqn:Bs; [|discriminate].
    destruct (book_step_sim _ _ _ _ _ _ _ E Bs) as [Hr ->].
    destruct (IH _ _ _ _ E2 B) as (-> & Hn & Hl).
    split; [reflexivity|]. split; [constructor; [exact Hr|exact Hn]|].
    rewrite Hl, (fstep_live _ _ _ _ _ _ E). unfold net_allocs. cbn [map snd sumZ fold_right]. fold (sumZ (map snd tr2)). ring.
Qed.

Lemma all_returned_empty s : all_returned (book_of s) = true -> library_cells s = [] /\ live_allocs s = 0%Z.
Proof.
  rewrite live_allocs_eq. unfold all_returned, book_of, library_cells.
  induction (f_cells s) as [|o t IH]; cbn [map forallb flat_map]; [split; reflexivity|].
  intros H. apply andb_true_iff in H as [Ho Ht]. destruct (IH Ht) as [I1 I2].
  destruct o as [[x|x|x|? ? ? ? ?]|]; cbn [option_map kind_of] in Ho; try discriminate Ho;
    (split; [cbn [app]; exact I1|]); unfold sumZ in *; cbn [map fold_right cell_w cell_allocs]; rewrite I2; reflexivity.
Qed.

Theorem no_leak_no_double_free m calls : protocol_ok m calls = true ->
  let '(s, tr) := frun m finit calls in
  library_cells s = [] /\ no_protocol_error tr /\ net_allocs tr = 0%Z /\ live_allocs s = 0%Z.
Proof.
  unfold protocol_ok. destruct (frun m finit calls) as [s tr] eqn:E. cbn [snd].
  destruct (book_run [] tr) as [bk|] eqn:B; [|discriminate]. intros A.
  change (@nil (option fkind)) with (book_of finit) in B.
  destruct (frun_sim _ _ _ _ _ _ E B) as (-> & Hn & Hl).
  destruct (all_returned_empty _ A) as [L1 L2].
  split; [exact L1|]. split; [exact Hn|]. split; [|exact L2].
  rewrite L2 in Hl. change (live_allocs finit) with 0%Z in Hl. lia.
Qed.

(* the same from any reachable heap: whatever the caller acquires after some point and gives back again leaves
   the number of live allocations where it was *)
Theorem balanced_from m s calls s' tr bk : frun m s calls = (s', tr) -> book_run (book_of s) tr = Some bk ->
  no_protocol_error tr /\ live_allocs s' = (live_allocs s + net_allocs tr)%Z /\ bk = book_of s'.
Proof. intros E B. destruct (frun_sim _ _ _ _ _ _ E B) as (H1 & H2 & H3). auto. Qed.

(* a second free of the same handle, or any use after the free, is flagged *)
Theorem use_after_free_flagged m s c h p : call_uses c = Some (h, p) ->
  fstep m (fkill s h) c = (fkill s h, RProtocolError, 0%Z).
Proof.
  intros H. destruct c; cbn [call_uses] in H; inversion H; subst;
    unfold fstep, fstep_v, same, buffer_data; rewrite fget_fkill; reflexivity.
Qed.

(* ------------------------------------------------------------------------------------------------ *)
(* decoding through the interface                                                                   *)
(* ------------------------------------------------------------------------------------------------ *)
Theorem null_on_invalid m s h bs : buffer_data s h = Some (Some bs) ->
  (forall b, from_cbor bs = Ok b -> validate b <> []) ->
  fstep m s (FromCbor h) = (s, RNull, 0%Z).
Proof.
  intros Hb Hinv. unfold fstep, fstep_v, same. rewrite Hb.
  destruct (from_cbor bs) as [b|e|p] eqn:E.
  - specialize (Hinv b eq_refl). destruct (is_valid b) eqn:V; [|reflexivity].
    apply is_valid_true in V. contradiction.
  - reflexivity.
  - exfalso. exact (decode_total bs p E).
Qed.
Theorem null_on_empty m s h : buffer_data s h = Some None -> fstep m s (FromCbor h) = (s, RNull, 0%Z).
Proof. intros Hb. unfold fstep, fstep_v, same. rewrite Hb. reflexivity. Qed.

Theorem valid_gives_bundle m s h bs b : buffer_data s h = Some (Some bs) -> from_cbor bs = Ok b -> validate b = [] ->
  fstep m s (FromCbor h) = (fpush s (BundleCell b), RHandle (fresh s), bundle_allocs b)
  /\ fget (fpush s (BundleCell b)) (fresh s) = Some (BundleCell b).
Proof.
  intros Hb Hd Hv. unfold fstep, fstep_v, alloc. rewrite Hb, Hd.
  apply is_valid_true in Hv. rewrite Hv. split; [reflexivity|apply fget_fpush_fresh].
Qed.

(* FromCbor never aborts and never leaves an allocation behind when it returns NULL *)
Theorem from_cbor_outcomes m s h s' r d : fstep m s (FromCbor h) = (s', r, d) ->
  r = RProtocolError \/ (r = RNull /\ s' = s /\ d = 0%Z)
  \/ (exists bs b, buffer_data s h = Some (Some bs) /\ from_cbor bs = Ok b /\ validate b = [] /\
                   r = RHandle (fresh s) /\ s' = fpush s (BundleCell b) /\ d = bundle_allocs b).
Proof.
  unfold fstep, fstep_v, alloc, same. intros H.
  destruct (buffer_data s h) as [[bs|]|] eqn:Hb.
  - destruct (from_cbor bs) as [b|e|p] eqn:E.
    + destruct (is_valid b) eqn:V; inversion H; subst; [|auto].
      right; right. exists bs, b. apply is_valid_true in V. auto 10.
    + inversion H; subst; auto.
    + exfalso. exact (decode_total bs p E).
  - inversion H; subst; auto.
  - inversion H; subst; auto.
Qed.

(* the queries return what the Rust API returns on the stored bundle *)
Theorem queries_agree m s k b : fget s k = Some (BundleCell b) ->
  fstep m s (IsValid k) = (s, RBool (is_valid b), 0%Z)
  /\ fstep m s (Payload k) = (fpush s (BufferCell (payload b)), RHandle (fresh s), buffer_allocs (payload b))
  /\ fstep m s (ToCbor k) = (fpush (fset s k (BundleCell (snd (to_cbor b)))) (BufferCell (Some (fst (to_cbor b)))),
                            RHandle (fresh s), 2%Z)
  /\ (has_nul (eid_print (p_src (b_primary b))) || has_nul (eid_print (p_dst (b_primary b))) = false ->
      fstep m s (GetMetadata k) =
        (fpush s (MetaCell (eid_print (p_src (b_primary b))) (eid_print (p_dst (b_primary b)))
                           (p_time (b_primary b)) (p_seq (b_primary b)) (p_lifetime (b_primary b))),
         RHandle (fresh s), 3%Z))
  /\ (has_nul (eid_print (p_src (b_primary b))) || has_nul (eid_print (p_dst (b_primary b))) = true ->
      fstep m s (GetMetadata k) = (s, RNull, 0%Z)).
Proof.
  intros G. unfold fstep, fstep_v, alloc, same. rewrite G.
  split; [reflexivity|]. split; [reflexivity|]. split; [|split].
  - unfold to_cbor, fresh, fset. cbn [fst snd f_cells]. rewrite upd_nth_length. reflexivity.
  - intros ->. reflexivity.
  - intros ->. reflexivity.
Qed.

(* end to end, not vacuous: any well-formed bundle that validates, pushed through the C interface *)
Theorem roundtrip_through_ffi m s h b : wf_bundle b = true -> validate b = [] ->
  buffer_data s h = Some (Some (fst (to_cbor b))) ->
  let b' := snd (to_cbor b) in
  let k := fresh s in
  fstep m s (FromCbor h) = (fpush s (BundleCell b'), RHandle k, bundle_allocs b)
  /\ forall s1, fget s1 k = Some (BundleCell b') ->
       fstep m s1 (IsValid k) = (s1, RBool true, 0%Z)
    /\ fstep m s1 (Payload k) = (fpush s1 (BufferCell (payload b)), RHandle (fresh s1), buffer_allocs (payload b))
    /\ fstep m s1 (ToCbor k) = (fpush s1 (BufferCell (Some (fst (to_cbor b)))), RHandle (fresh s1), 2%Z)
    /\ only_crc_changed b b'.
Proof.
  intros Hwf Hv Hb b' k.
  pose proof (to_cbor_roundtrip b Hwf) as R. pose proof (to_cbor_idempotent b Hwf) as I.
  destruct (to_cbor b) as [bs bb] eqn:E. cbn [fst snd] in *. subst b'.
  destruct R as (Hd & Hc & _).
  assert (Hbb : bb = bundle_calculate_crc b) by (rewrite <- to_cbor_snd, E; reflexivity).
  assert (Hvb : validate bb = []) by (rewrite Hbb, validate_calc; exact Hv).
  destruct (valid_gives_bundle m s h bs bb Hb Hd Hvb) as [F _].
  split; [rewrite F, Hbb, bundle_allocs_calc; reflexivity|].
  intros s1 G. destruct (queries_agree m s1 k bb G) as (Q1 & Q2 & Q3 & _ & _).
  split; [rewrite Q1; apply is_valid_true in Hvb; rewrite Hvb; reflexivity|].
  split; [rewrite Q2, Hbb, payload_calc; reflexivity|].
  split; [|exact Hc].
  rewrite Q3, I. cbn [fst snd]. unfold fset. rewrite (upd_nth_id _ _ _ (fget_nth _ _ _ G)).
  destruct s1; reflexivity.
Qed.

(* ------------------------------------------------------------------------------------------------ *)
(* where the process can still abort                                                                *)
(* ------------------------------------------------------------------------------------------------ *)
Definition new_default_ok (m : ovf_mode) (s : fstate) (src dst : list byte) (ph : handle) (clock_ms : N) : bool :=
  match new_default_args src dst, buffer_data s ph, now m clock_ms with
  | Some _, Some (Some _), Ok _ => true
  | _, _, _ => false
  end.
Definition abort_cause (m : ovf_mode) (s : fstate) (c : fcall) : Prop :=
  match c with
  | NewDefault src dst _ ph clock_ms => new_default_ok m s src dst ph clock_ms = false   (* caller error *)
  | _ => False
  end.
Theorem aborts_only m s c s' d : fstep m s c = (s', RAbort, d) -> abort_cause m s c.
Proof.
  unfold fstep, fstep_v, alloc, release, same, abort_cause, new_default_ok. intros H.
  destruct c; destruct_matches H; inversion H; subst; clear H; try reflexivity.
  (* FromCbor: the decoder model has no Panic outcome on any input *)
  match goal with E : from_cbor ?bs = Panic ?p |- _ => exact (decode_total bs p E) end.
Qed.
(* no exported function other than bundle_new_default can abort the process, whatever the heap and the arguments *)
Corollary no_abort_outside_new_default m s c s' r d : fstep m s c = (s', r, d) ->
  (forall src dst life ph clock, c <> NewDefault src dst life ph clock) -> r <> RAbort.
Proof.
  intros H Hn ->. pose proof (aborts_only _ _ _ _ _ H) as A. destruct c; cbn [abort_cause] in A; try exact A.
  eapply Hn; reflexivity.
Qed.
Theorem new_default_returns m s src dst life ph clock : new_default_ok m s src dst ph clock = true ->
  exists b l, fstep m s (NewDefault src dst life ph clock) =
              (fpush (mk_fstate (f_cells s) l) (BundleCell b), RHandle (fresh s), bundle_allocs b)
              /\ payload b = match buffer_data s ph with Some (Some d) => Some d | _ => None end.
Proof.
  unfold new_default_ok, fstep, fstep_v, alloc. intros H.
  destruct (new_default_args src dst) as [[se de]|]; [|discriminate].
  destruct (buffer_data s ph) as [[data|]|]; try discriminate.
  destruct (now m clock) as [t| |]; try discriminate.
  eexists. eexists. split; [reflexivity|]. reflexivity.
Qed.
