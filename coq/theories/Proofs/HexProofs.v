From BP7 Require Import Base.Prelude Model.Hex.

Lemma hexdigit_facts b :
  let hi := hexdigit (b2n b / 16) in let lo := hexdigit (b2n b mod 16) in
  u8_from_str_radix16 [hi; lo] = Some (b2n b) /\ is_cont hi = false
  /\ is_hexdigit hi = true /\ is_hexdigit lo = true.
Proof. destruct b; vm_compute; repeat split; reflexivity. Qed.

Lemma hexify_cons b t : hexify (b :: t) = hexdigit (b2n b / 16) :: hexdigit (b2n b mod 16) :: hexify t.
Proof. reflexivity. Qed.

Lemma hexify_head_not_cont t : match hexify t with c :: _ => is_cont c | [] => false end = false.
Proof. destruct t as [|b t]; [reflexivity|]. rewrite hexify_cons. apply hexdigit_facts. Qed.

Lemma unhex_loop_hexify bs : unhex_loop (hexify bs) = Ok (Some bs).
Proof.
  induction bs as [|b t IH]; [reflexivity|].
  rewrite hexify_cons. cbn [unhex_loop].
  destruct (hexdigit_facts b) as (H1 & H2 & _ & _). cbv zeta in H1, H2.
  rewrite H2, hexify_head_not_cont. cbn [orb]. rewrite H1, IH, n2b_b2n. reflexivity.
Qed.

Lemma hexify_all_hex bs : forallb is_hexdigit (hexify bs) = true.
Proof.
  induction bs as [|b t IH]; [reflexivity|]. rewrite hexify_cons. cbn [forallb].
  destruct (hexdigit_facts b) as (_ & _ & H3 & H4). cbv zeta in H3, H4. rewrite H3, H4, IH. reflexivity.
Qed.
Lemma hexify_length bs : length (hexify bs) = (2 * length bs)%nat.
Proof. induction bs as [|b t IH]; [reflexivity|]. rewrite hexify_cons. cbn [length]. lia. Qed.

Theorem unhex_hex bs : unhexify (hexify bs) = Ok (Some bs).
Proof.
  unfold unhexify. rewrite hexify_all_hex, hexify_length.
  replace (Nat.odd (2 * length bs)) with false; [apply unhex_loop_hexify|].
  symmetry. rewrite <- Nat.negb_even, Nat.even_mul. reflexivity.
Qed.

(* per-character facts for a hex digit *)
Lemma hexdigit_char a : is_hexdigit a = true ->
  exists x, x < 16 /\ hexval a = Some x /\ hexdigit x = lower_byte a /\ is_plus a = false /\ is_cont a = false.
Proof.
  intros H. exists (match hexval a with Some x => x | None => 0 end).
  destruct a; try (vm_compute in H; discriminate H); vm_compute; repeat split; reflexivity.
Qed.

Lemma pair_value a b x y : x < 16 -> y < 16 -> hexval a = Some x -> hexval b = Some y -> is_plus a = false ->
  u8_from_str_radix16 [a; b] = Some (x * 16 + y).
Proof.
  intros Hx Hy Ha Hb Hp. cbn [u8_from_str_radix16]. rewrite Hp. cbn [radix16_digits]. rewrite Ha.
  replace (0 * 16 + x <? 256) with true by (symmetry; apply N.ltb_lt; lia).
  rewrite Hb. replace ((0 * 16 + x) * 16 + y <? 256) with true by (symmetry; apply N.ltb_lt; lia).
  f_equal; lia.
Qed.

Lemma hex_unhex_n : forall n s, length s = (2 * n)%nat -> forallb is_hexdigit s = true ->
  exists bs, unhex_loop s = Ok (Some bs) /\ hexify bs = lower s.
Proof.
  induction n as [|n IH]; intros s Hl Hh.
  - destruct s; [|discriminate]. exists []. split; reflexivity.
  - destruct s as [|a [|b t]]; try (cbn in Hl; lia).
    cbn [forallb] in Hh. apply andb_true_iff in Hh as [Ha Hh]. apply andb_true_iff in Hh as [Hb Ht].
    destruct (hexdigit_char a Ha) as (x & Hx & Hva & Hla & Hpa & Hca).
    destruct (hexdigit_char b Hb) as (y & Hy & Hvb & Hlb & _ & _).
    destruct (IH t ltac:(cbn in Hl; lia) Ht) as (bs & Hbs & Hlow).
    exists (n2b (x * 16 + y) :: bs). split.
    + cbn [unhex_loop]. rewrite Hca.
      assert (match t with c :: _ => is_cont c | [] => false end = false) as ->.
      { destruct t as [|c t']; [reflexivity|]. cbn [forallb] in Ht. apply andb_true_iff in Ht as [Hc _].
        destruct (hexdigit_char c Hc) as (_ & _ & _ & _ & _ & Hcc). exact Hcc. }
      cbn [orb]. rewrite (pair_value a b x y Hx Hy Hva Hvb Hpa), Hbs. reflexivity.
    + rewrite hexify_cons. rewrite b2n_n2b by lia. cbn [lower map].
      replace ((x * 16 + y) / 16) with x by (symmetry; rewrite N.add_comm, N.div_add by lia; rewrite N.div_small by lia; reflexivity).
      replace ((x * 16 + y) mod 16) with y by (symmetry; rewrite N.add_comm, N.mod_add by lia; apply N.mod_small; lia).
      rewrite Hla, Hlb. f_equal. f_equal. exact Hlow.
Qed.

Definition even_length (s : list byte) : Prop := Nat.even (length s) = true.
Definition all_hex_digits (s : list byte) : Prop := forallb is_hexdigit s = true.

Theorem hex_unhex s : even_length s -> all_hex_digits s ->
  exists bs, unhexify s = Ok (Some bs) /\ hexify bs = lower s.
Proof.
  intros He Hh. unfold unhexify. unfold even_length in He. rewrite <- Nat.negb_even, He, Hh. cbn [negb orb].
  apply Nat.even_spec in He as [n Hn]. eapply hex_unhex_n; eassumption.
Qed.

Theorem unhex_rejects s : ~ (even_length s /\ all_hex_digits s) -> unhexify s = Ok None.
Proof.
  intros H. unfold unhexify, even_length, all_hex_digits in *. rewrite <- Nat.negb_even.
  destruct (Nat.even (length s)); destruct (forallb is_hexdigit s); cbn; try reflexivity.
  exfalso; apply H; split; reflexivity.
Qed.

Theorem unhex_total s : no_panic (unhexify s).
Proof.
  intros p. destruct (Nat.even (length s)) eqn:He; [destruct (forallb is_hexdigit s) eqn:Hh|].
  - destruct (hex_unhex s He Hh) as (bs & -> & _). discriminate.
  - rewrite unhex_rejects; [discriminate|]. intros [_ H]. unfold all_hex_digits in H. congruence.
  - rewrite unhex_rejects; [discriminate|]. intros [H _]. unfold even_length in H. congruence.
Qed.

(* the lenient primitive behind the guard really is lenient: without the guard a sign is accepted *)
Example loop_accepts_sign : unhex_loop [n2b 43; n2b 102] = Ok (Some [n2b 15]).
Proof. vm_compute. reflexivity. Qed.
Example loop_panics_odd : unhex_loop [n2b 97; n2b 98; n2b 99] = Panic PSlice.
Proof. vm_compute. reflexivity. Qed.
