(* C11: the block-list invariant of Model/OpSeq.v is established by the public builders and preserved by every
   admissible mutator call; by induction it holds after any operation sequence, the payload read back is the one
   most recently set, and the final bundle validates and round-trips through CBOR. *)
From Coq Require Import Sorting.Sorted.
From BP7 Require Import Base.Prelude Gen.Consts Model.Types Model.Encode Model.Decode Model.Wf Model.WfExt Model.Validate Model.Ops
  Model.DtnTime Model.OpSeq Spec.Rules.
From BP7 Require Import Proofs.CodecProofs Proofs.CodecUnknownCrc Proofs.ValidateProofs Proofs.OpsProofs.

(* ================= sorting ================= *)
Lemma insert_desc_head c l : (forall x, In x l -> c_num x < c_num c) -> insert_desc c l = c :: l.
Proof.
  destruct l as [|x t]; [reflexivity|]. intros H. cbn [insert_desc].
  assert (c_num x <=? c_num c = true) as -> by (apply N.leb_le; specialize (H x (or_introl eq_refl)); lia). reflexivity.
Qed.
(* a strictly descending list is a fixed point of the sort *)
Lemma sort_desc_sorted l : strictly_desc (map c_num l) -> sort_desc l = l.
Proof.
  induction l as [|x t IH]; [reflexivity|]. cbn [map strictly_desc sort_desc]. intros [H1 H2].
  rewrite IH by assumption. apply insert_desc_head. intros y Hy. apply H1, in_map, Hy.
Qed.
(* pushing a block whose number exceeds all others and sorting puts it first and keeps the rest *)
Lemma sort_desc_snoc_max cs c : strictly_desc (map c_num cs) -> (forall x, In x cs -> c_num x < c_num c) ->
  sort_desc (cs ++ [c]) = c :: cs.
Proof.
  induction cs as [|x t IH]; intros Hs Hc; [reflexivity|]. cbn [app sort_desc]. cbn [map strictly_desc] in Hs.
  destruct Hs as [H1 H2]. rewrite IH; [|assumption|intros; apply Hc; right; assumption]. cbn [insert_desc].
  assert (c_num c <=? c_num x = false) as -> by (apply N.leb_gt; apply Hc; left; reflexivity).
  f_equal. apply insert_desc_head. intros y Hy. apply H1, in_map, Hy.
Qed.

Fixpoint desc_le (l : list N) : Prop :=
  match l with [] => True | x :: t => (forall y, In y t -> y <= x) /\ desc_le t end.
Lemma insert_desc_in c l y : In y (insert_desc c l) <-> y = c \/ In y l.
Proof.
  induction l as [|x t IH]; cbn [insert_desc In]; [intuition|].
  destruct (c_num x <=? c_num c); cbn [In]; rewrite ?IH; intuition.
Qed.
Lemma insert_desc_le c l : desc_le (map c_num l) -> desc_le (map c_num (insert_desc c l)).
Proof.
  induction l as [|x t IH]; cbn [insert_desc map desc_le].
  - intros _. split; [intros ? []|exact I].
  - intros [H1 H2]. destruct (c_num x <=? c_num c) eqn:E.
    + apply N.leb_le in E. cbn [map desc_le]. split; [|split; assumption].
      intros y [<-|Hy]; [assumption|]. specialize (H1 y Hy). lia.
    + apply N.leb_gt in E. cbn [map desc_le]. split; [|apply IH; assumption].
      intros y Hy. apply in_map_iff in Hy as (z & <- & Hz). apply insert_desc_in in Hz as [->|Hz]; [lia|].
      apply H1, in_map, Hz.
Qed.
Lemma sort_desc_le l : desc_le (map c_num (sort_desc l)).
Proof. induction l as [|x t IH]; cbn [sort_desc]; [exact I|apply insert_desc_le; assumption]. Qed.
Lemma desc_le_strict l : desc_le l -> NoDup l -> strictly_desc l.
Proof.
  induction l as [|a t IH]; cbn [desc_le strictly_desc]; [auto|]. intros [H1 H2] Hnd. inversion Hnd; subst.
  split; [|auto]. intros y Hy. specialize (H1 y Hy). assert (y <> a) by (intros ->; contradiction). lia.
Qed.
Lemma strictly_desc_NoDup l : strictly_desc l -> NoDup l.
Proof.
  induction l as [|a t IH]; cbn [strictly_desc]; [constructor|]. intros [H1 H2]. constructor; [|auto].
  intros Hin. specialize (H1 a Hin). lia.
Qed.
Lemma strictly_desc_app_last l x : strictly_desc (l ++ [x]) -> forall y, In y l -> x < y.
Proof.
  induction l as [|a t IH]; cbn [app strictly_desc]; [intros _ ? []|]. intros [H1 H2] y [<-|Hy]; [|auto].
  apply H1, in_or_app. right. left. reflexivity.
Qed.

(* ================= highest block number ================= *)
Lemma fold_max_ge cs : forall h,
  h <= fold_left (fun h c => N.max h (c_num c)) cs h /\
  forall c, In c cs -> c_num c <= fold_left (fun h c => N.max h (c_num c)) cs h.
Proof.
  induction cs as [|a t IH]; intros h; cbn [fold_left]; [split; [lia|intros ? []]|].
  destruct (IH (N.max h (c_num a))) as [H1 H2]. split; [lia|]. intros c [<-|Hc]; [lia|auto].
Qed.
Lemma next_block_number_spec cs n : next_block_number cs = Some n ->
  2 <= n /\ n < two64 /\ forall c, In c cs -> c_num c < n.
Proof.
  unfold next_block_number, highest_number. destruct (fold_max_ge cs 1) as [H1 H2].
  destruct (_ + 1 <? two64) eqn:E; [|discriminate]. intros H. inversion H; subst. apply N.ltb_lt in E.
  split; [lia|]. split; [assumption|]. intros c Hc. specialize (H2 c Hc). lia.
Qed.

(* ================= find / update_first ================= *)
Lemma find_app_none {A} (s : A -> bool) l1 l2 : (forall x, In x l1 -> s x = false) -> find s (l1 ++ l2) = find s l2.
Proof.
  induction l1 as [|a t IH]; intros H; [reflexivity|]. cbn [app find]. rewrite (H a (or_introl eq_refl)).
  apply IH. intros; apply H; right; assumption.
Qed.
Lemma update_first_app_none s f l1 l2 : (forall x, In x l1 -> s x = false) ->
  update_first s f (l1 ++ l2) = l1 ++ update_first s f l2.
Proof.
  induction l1 as [|a t IH]; intros H; [reflexivity|]. cbn [app update_first]. rewrite (H a (or_introl eq_refl)).
  rewrite IH by (intros; apply H; right; assumption). reflexivity.
Qed.
Lemma find_update_first_same (s : canonical -> bool) f cs c :
  find s cs = Some c -> s (f c) = true -> find s (update_first s f cs) = Some (f c).
Proof.
  induction cs as [|x t IH]; cbn [find update_first]; [discriminate|]. destruct (s x) eqn:E.
  - intros H Hf. inversion H; subst. cbn [find]. rewrite Hf. reflexivity.
  - intros H Hf. cbn [find]. rewrite E. auto.
Qed.
Lemma update_first_Forall2 (R : canonical -> canonical -> Prop) (s : canonical -> bool) f cs c :
  (forall x, R x x) -> find s cs = Some c -> R c (f c) -> Forall2 R cs (update_first s f cs).
Proof.
  intros Hrefl. induction cs as [|x t IH]; cbn [find update_first]; [discriminate|]. destruct (s x).
  - intros H Hf. inversion H; subst. constructor; [assumption|]. clear - Hrefl. induction t; constructor; auto.
  - intros H Hf. constructor; [apply Hrefl|auto].
Qed.
Lemma Forall2_refl {A} (R : A -> A -> Prop) l : (forall x, R x x) -> Forall2 R l l.
Proof. intros H. induction l; constructor; auto. Qed.
Lemma Forall2_map_r {A} (R : A -> A -> Prop) g l : (forall x, R x (g x)) -> Forall2 R l (map g l).
Proof. intros H. induction l; cbn [map]; constructor; auto. Qed.

(* ================= Bundle::validate as a conjunction ================= *)
Definition age_rule (p : primary) (cs : list canonical) : bool :=
  negb ((p_time p =? 0) && negb (memN BUNDLE_AGE_BLOCK (map c_type cs))).
Lemma validate_nil_iff b :
  validate b = [] <->
  primary_validate (b_primary b) = []
  /\ forallb (block_clean (strict_of b)) (b_canonicals b) = true
  /\ nodupb (map c_num (b_canonicals b)) = true
  /\ singletons_once (b_canonicals b)
  /\ age_rule (b_primary b) (b_canonicals b) = true
  /\ payload b <> None.
Proof.
  unfold validate, strict_of, age_rule, singletons_once. cbv zeta.
  set (strict := is_admin_record b || eid_eqb (p_src (b_primary b)) eid_none).
  destruct (block_loop strict (b_canonicals b) [] []) as [errs types] eqn:E.
  pose proof (block_loop_spec strict (b_canonicals b) [] []) as HL.
  pose proof (fun ty => block_loop_types strict (b_canonicals b) [] [] ty) as HT.
  rewrite E in HL, HT. cbn [fst snd] in HL, HT.
  rewrite !app_nil_iff, HL, HT. cbn [memN]. rewrite orb_false_r.
  rewrite (if_nil_iff ((p_time (b_primary b) =? 0) && _)) by discriminate. rewrite negb_true_iff.
  assert (Hp : (match payload b with Some _ => [] | None => [VNoPayload] end) = [] <-> payload b <> None)
    by (destruct (payload b); split; intros; try congruence; try discriminate).
  rewrite Hp.
  assert (Hc : (forall ty, is_singleton_type ty = true -> (count ty (map c_type (b_canonicals b)) + b2nat false <= 1)%nat)
               <-> (forall ty, is_singleton_type ty = true -> (count ty (map c_type (b_canonicals b)) <= 1)%nat)).
  { cbn [b2nat]. split; intros H ty Hty; specialize (H ty Hty); lia. }
  rewrite Hc. split.
  - intros (H1 & (H2 & H3 & _ & H4) & H5 & H6). tauto.
  - intros (H1 & H2 & H3 & H4 & H5 & H6). repeat split; try assumption.
Qed.

(* ================= the invariant in the form used by the preservation proofs ================= *)
Definition good (strict : bool) (c : canonical) : Prop := block_clean strict c = true /\ wf_canonical_u c = true.
Definition Core (b : bundle) : Prop :=
  let cs := b_canonicals b in
  strictly_desc (map c_num cs) /\ payload_last cs /\ Forall (good (strict_of b)) cs /\ singletons_once cs
  /\ primary_validate (b_primary b) = [] /\ wf_primary_u (b_primary b) = true /\ age_rule (b_primary b) cs = true.

Ltac btrue :=
  repeat match goal with
         | H : _ && _ = true |- _ => apply andb_true_iff in H; destruct H
         | H : negb _ = true |- _ => apply negb_true_iff in H
         end.

Lemma good_ext strict c : good strict c -> extension_valid c = true.
Proof. intros [H _]. apply block_clean_iff in H. tauto. Qed.
Lemma data_type1 c d : wf_canonical_u c = true -> c_data c = Data d -> c_type c = PAYLOAD_BLOCK.
Proof. unfold wf_canonical_u. intros H E. btrue. rewrite E in *. cbn [wf_data] in *. btrue. apply N.eqb_eq. assumption. Qed.
Lemma type1_data c : wf_canonical_u c = true -> c_type c = PAYLOAD_BLOCK -> exists d, c_data c = Data d.
Proof.
  unfold wf_canonical_u. intros H E. btrue. rewrite E in *. destruct (c_data c); cbn [wf_data] in *; btrue; try discriminate; eauto.
Qed.
Lemma not_type1_no_data strict c : good strict c -> c_type c <> PAYLOAD_BLOCK -> carries_data c = false.
Proof. intros [_ H] Hn. unfold carries_data. destruct (c_data c) eqn:E; try reflexivity. exfalso. eapply Hn, data_type1; eassumption. Qed.

Lemma sel1_payload pb d : c_type pb = PAYLOAD_BLOCK -> c_num pb = PAYLOAD_BLOCK_NUMBER -> c_data pb = Data d -> sel_type PAYLOAD_BLOCK pb = true.
Proof. intros H1 H2 H3. unfold sel_type, extension_valid. rewrite H3, H1, H2. reflexivity. Qed.
Lemma sel_type_neq t c : c_type c <> t -> sel_type t c = false.
Proof. intros H. unfold sel_type. apply N.eqb_neq in H. rewrite H. reflexivity. Qed.
Lemma payload_of_last p front pb d :
  (forall c, In c front -> c_type c <> PAYLOAD_BLOCK) -> c_type pb = PAYLOAD_BLOCK -> c_num pb = PAYLOAD_BLOCK_NUMBER -> c_data pb = Data d ->
  ext_block_by_type PAYLOAD_BLOCK (front ++ [pb]) = Some pb /\ payload (mkbundle p (front ++ [pb])) = Some d.
Proof.
  intros Hf H1 H2 H3. unfold payload. cbn [b_canonicals].
  assert (E : ext_block_by_type PAYLOAD_BLOCK (front ++ [pb]) = Some pb).
  { rewrite ext_find, find_app_none by (intros; apply sel_type_neq; auto). cbn [find]. rewrite (sel1_payload pb d) by assumption. reflexivity. }
  rewrite E, H3. split; reflexivity.
Qed.
Lemma core_payload b : Core b -> exists pb d, ext_block_by_type PAYLOAD_BLOCK (b_canonicals b) = Some pb /\ payload b = Some d.
Proof.
  intros (_ & (front & pb & d & E & H1 & H2 & H3 & Hf) & _). destruct b as [p cs]. cbn [b_canonicals] in *. subst cs.
  destruct (payload_of_last p front pb d Hf H1 H2 H3). eauto.
Qed.

Lemma Forall_forallb {A} (f : A -> bool) l : Forall (fun x => f x = true) l <-> forallb f l = true.
Proof. rewrite forallb_forall, Forall_forall. tauto. Qed.

Lemma core_nonzero cs : strictly_desc (map c_num cs) -> payload_last cs -> forall c, In c cs -> 1 <= c_num c.
Proof.
  intros Hs (front & pb & d & E & H1 & H2 & H3 & Hf) c Hc. subst cs. rewrite map_app in Hs. cbn [map] in Hs.
  apply in_app_or in Hc as [Hc|[<-|[]]]; [|rewrite H2; unfold PAYLOAD_BLOCK_NUMBER; lia].
  pose proof (strictly_desc_app_last _ _ Hs (c_num c) (in_map _ _ _ Hc)). lia.
Qed.

Theorem core_inv b : Core b <-> Inv b.
Proof.
  unfold Core, Inv. cbv zeta. split.
  - intros (Hs & Hp & Hg & Hsing & Hpv & Hwp & Hage).
    assert (Hnd : NoDup (map c_num (b_canonicals b))) by (apply strictly_desc_NoDup; assumption).
    repeat split; try assumption.
    + intros H0. apply in_map_iff in H0 as (c & E & Hc). pose proof (core_nonzero _ Hs Hp c Hc). lia.
    + apply validate_nil_iff. repeat split; try assumption.
      * apply Forall_forallb. eapply Forall_impl; [|exact Hg]. intros c [H _]. exact H.
      * apply nodupb_NoDup. assumption.
      * destruct (core_payload b) as (pb & d & _ & E); [unfold Core; cbv zeta; tauto|]. congruence.
    + unfold wf_bundle_u. rewrite Hwp. apply Forall_forallb. eapply Forall_impl; [|exact Hg]. intros c [_ H]. exact H.
  - intros (Hnd & H0 & Hs & Hp & Hsing & Hv & Hwf).
    apply validate_nil_iff in Hv as (Hpv & Hclean & _ & _ & Hage & _).
    unfold wf_bundle_u in Hwf. apply andb_true_iff in Hwf as [Hwp Hwc].
    repeat split; try assumption.
    apply Forall_forall. intros c Hc. rewrite forallb_forall in Hclean, Hwc. split; auto.
Qed.

(* ---- the start state ---- *)
Lemma last_opt_app {A} (l : list A) c : last_opt l = Some c -> exists front, l = front ++ [c].
Proof.
  induction l as [|a t IH]; [discriminate|]. destruct t as [|a' t'].
  - cbn [last_opt]. intros H. inversion H. exists []. reflexivity.
  - intros H. change (last_opt (a' :: t') = Some c) in H. destruct (IH H) as [front E]. exists (a :: front). rewrite E. reflexivity.
Qed.
Theorem start_core b : start_ok b -> Core b.
Proof.
  intros (((cs0 & Hsort) & (c & Hlast & Hdata)) & Hv & Hwf).
  apply validate_nil_iff in Hv as (Hpv & Hclean & Hnd & Hsing & Hage & _).
  unfold wf_bundle_u in Hwf. apply andb_true_iff in Hwf as [Hwp Hwc].
  assert (Hg : Forall (good (strict_of b)) (b_canonicals b)).
  { apply Forall_forall. intros x Hx. rewrite forallb_forall in Hclean, Hwc. split; auto. }
  assert (Hs : strictly_desc (map c_num (b_canonicals b))).
  { apply desc_le_strict; [rewrite Hsort; apply sort_desc_le|apply nodupb_NoDup; assumption]. }
  unfold Core. cbv zeta. repeat split; try assumption.
  destruct (last_opt_app _ _ Hlast) as [front E].
  assert (Hc : In c (b_canonicals b)) by (rewrite E; apply in_or_app; right; left; reflexivity).
  rewrite Forall_forall in Hg. pose proof (Hg c Hc) as Hgc.
  unfold carries_data in Hdata. destruct (c_data c) as [| d | | | |] eqn:Ed; try discriminate.
  pose proof (good_ext _ _ Hgc) as Hext. unfold extension_valid in Hext. rewrite Ed in Hext. btrue.
  exists front, c, d. repeat split; try assumption; try (apply N.eqb_eq; assumption).
  intros x Hx Ht.
  assert (Hxin : In x (b_canonicals b)) by (rewrite E; apply in_or_app; left; assumption).
  destruct (Hg x Hxin) as [Hcl Hwx]. destruct (type1_data x Hwx Ht) as [dx Edx].
  apply block_clean_iff in Hcl as (_ & Hex & _). unfold extension_valid in Hex. rewrite Edx in Hex. btrue.
  rewrite E, map_app in Hs. cbn [map] in Hs. pose proof (strictly_desc_app_last _ _ Hs (c_num x) (in_map _ _ _ Hx)).
  repeat match goal with H : (_ =? _) = true |- _ => apply N.eqb_eq in H end. lia.
Qed.

(* ================= transport along block-wise changes that keep type, number and goodness ================= *)
Definition keeps_block (strict : bool) (c c' : canonical) : Prop :=
  c_type c' = c_type c /\ c_num c' = c_num c /\
  (good strict c -> good strict c' /\ (carries_data c = true -> carries_data c' = true)).
Lemma keeps_block_refl strict c : keeps_block strict c c.
Proof. unfold keeps_block. tauto. Qed.
Lemma Forall2_map_eq {A B} (R : A -> A -> Prop) (g : A -> B) l l' :
  (forall c c', R c c' -> g c' = g c) -> Forall2 R l l' -> map g l' = map g l.
Proof. intros H F. induction F; cbn [map]; [reflexivity|]. rewrite (H _ _ H0), IHF. reflexivity. Qed.
Lemma Forall2_in_r {A} (R : A -> A -> Prop) l l' y : Forall2 R l l' -> In y l' -> exists x, In x l /\ R x y.
Proof.
  intros F. induction F; intros Hy; [destruct Hy|]. destruct Hy as [<-|Hy]; [exists x; split; [left; reflexivity|assumption]|].
  destruct (IHF Hy) as (x0 & H1 & H2). exists x0. split; [right; assumption|assumption].
Qed.
Lemma Forall2_Forall_good strict l l' : Forall2 (keeps_block strict) l l' -> Forall (good strict) l -> Forall (good strict) l'.
Proof.
  intros F. induction F; intros G; [constructor|]. inversion G; subst. constructor; [|auto].
  destruct H as (_ & _ & H). apply H. assumption.
Qed.

Lemma core_transport b b' :
  Core b -> strict_of b' = strict_of b -> primary_validate (b_primary b') = [] -> wf_primary_u (b_primary b') = true ->
  p_time (b_primary b') = p_time (b_primary b) ->
  Forall2 (keeps_block (strict_of b)) (b_canonicals b) (b_canonicals b') -> Core b'.
Proof.
  intros (Hs & Hp & Hg & Hsing & Hpv & Hwp & Hage) Hst Hpv' Hwp' Ht F.
  assert (En : map c_num (b_canonicals b') = map c_num (b_canonicals b)).
  { eapply Forall2_map_eq; [|exact F]. intros c c' (_ & H & _). exact H. }
  assert (Et : map c_type (b_canonicals b') = map c_type (b_canonicals b)).
  { eapply Forall2_map_eq; [|exact F]. intros c c' (H & _). exact H. }
  unfold Core. cbv zeta. rewrite Hst, En. unfold singletons_once, age_rule. rewrite Et, Ht.
  repeat split; try assumption.
  - destruct Hp as (front & pb & d & E & H1 & H2 & H3 & Hf). rewrite E in F, Hg.
    apply Forall2_app_inv_l in F as (front' & l2 & F1 & F2 & E').
    inversion F2 as [|? pb' ? l2' Hk F3]; subst. inversion F3; subst.
    apply Forall_app in Hg as [Hg1 Hg2]. inversion Hg2 as [|? ? Hgpb _]; subst.
    destruct Hk as (K1 & K2 & K3). destruct (K3 Hgpb) as [Hgpb' Hcd].
    assert (Hd : carries_data pb' = true) by (apply Hcd; unfold carries_data; rewrite H3; reflexivity).
    unfold carries_data in Hd. destruct (c_data pb') as [| d' | | | |] eqn:Ed'; try discriminate.
    exists front', pb', d'. repeat split; try congruence.
    intros c' Hc'. destruct (Forall2_in_r _ _ _ _ F1 Hc') as (c & Hc & (K & _)). rewrite K. auto.
  - eapply Forall2_Forall_good; eassumption.
Qed.

Lemma good_set_data strict c nd : good strict c -> extension_valid (set_c_data c nd) = true -> wf_data (c_type c) nd = true ->
  good strict (set_c_data c nd).
Proof.
  intros [H1 H2] He Hw. split.
  - apply block_clean_iff in H1 as (A & _ & B). apply block_clean_iff. destruct c as [ty nu fl cr da]; unfold set_c_data; cbn [c_flags] in *. auto.
  - unfold wf_canonical_u in *. destruct c as [ty nu fl cr da]; unfold set_c_data; cbn [c_type c_num c_flags c_crc c_data] in *. btrue.
    repeat (apply andb_true_iff; split); assumption.
Qed.
Lemma good_set_crc strict c x : wf_crc_u x = true -> good strict c -> good strict (set_c_crc c x).
Proof.
  intros Hx [H1 H2]. split.
  - apply block_clean_iff in H1 as (A & E & B). apply block_clean_iff. destruct c as [ty nu fl cr da]; unfold set_c_crc; cbn [c_flags c_type c_num c_data] in *. auto.
  - unfold wf_canonical_u in *. destruct c as [ty nu fl cr da]; unfold set_c_crc; cbn [c_type c_num c_flags c_crc c_data] in *. btrue.
    repeat (apply andb_true_iff; split); assumption.
Qed.
Lemma strict_of_same_primary b p cs : p = b_primary b -> strict_of (mkbundle p cs) = strict_of b.
Proof. intros ->. reflexivity. Qed.

(* ---- a block accepted by op_ok becomes a good block once it has a fitting number ---- *)
Lemma arg_block_good strict c n : arg_block_ok strict c = true -> n < two64 -> (c_type c = PAYLOAD_BLOCK -> n = PAYLOAD_BLOCK_NUMBER) ->
  good strict (set_c_num c n).
Proof.
  unfold arg_block_ok. intros H Hn Hp. btrue. split.
  - apply block_clean_iff. destruct c as [ty nu fl cr da]; unfold set_c_num; cbn [c_type c_num c_flags c_crc c_data] in *.
    repeat split; try assumption. unfold extension_valid. cbn [c_data c_type c_num].
    destruct da; cbn [wf_data] in *; btrue; try assumption; try discriminate.
    + rewrite H3. cbn [andb]. apply N.eqb_eq. apply Hp. apply N.eqb_eq. assumption.
    + rewrite H3. assumption.
  - unfold wf_canonical_u. destruct c as [ty nu fl cr da]; unfold set_c_num; cbn [c_type c_num c_flags c_crc c_data] in *.
    apply N.ltb_lt in Hn. repeat (apply andb_true_iff; split); assumption.
Qed.

Lemma ext_none_count strict cs t : Forall (good strict) cs -> ext_block_by_type t cs = None -> count t (map c_type cs) = 0%nat.
Proof.
  unfold ext_block_by_type. induction cs as [|x r IH]; intros G; [reflexivity|]. inversion G; subst. cbn [find map count].
  rewrite (good_ext _ _ H1), andb_true_r. rewrite (N.eqb_sym t). destruct (c_type x =? t); [discriminate|]. intros H. rewrite IH by assumption. reflexivity.
Qed.
Lemma find_none_all {A} (s : A -> bool) l : (forall x, In x l -> s x = false) -> find s l = None.
Proof. induction l as [|a t IH]; intros H; [reflexivity|]. cbn [find]. rewrite (H a (or_introl eq_refl)). apply IH. intros; apply H; right; assumption. Qed.

(* ================= add_canonical_block ================= *)
Lemma core_add b c : Core b -> arg_block_ok (strict_of b) c = true ->
  Core (add_canonical_block b c) /\ strict_of (add_canonical_block b c) = strict_of b
  /\ payload (add_canonical_block b c) = payload b.
Proof.
  intros HC Hok. unfold add_canonical_block. cbv zeta.
  destruct (is_unique_type (c_type c) && _) eqn:Eu; [tauto|].
  destruct (core_payload b HC) as (pb0 & d0 & Epb & Epl).
  assert (Hnp : c_type c <> PAYLOAD_BLOCK).
  { intros Ht. rewrite Ht, Epb in Eu. discriminate Eu. }
  assert ((c_type c =? PAYLOAD_BLOCK) = false) as -> by (apply N.eqb_neq; assumption).
  destruct (next_block_number (b_canonicals b)) as [n|] eqn:En; [|tauto].
  destruct (next_block_number_spec _ _ En) as (Hn2 & Hn64 & Hmax).
  destruct HC as (Hs & Hp & Hg & Hsing & Hpv & Hwp & Hage).
  set (c' := set_c_num c n).
  assert (Hc'n : c_num c' = n) by (destruct c; reflexivity).
  assert (Hc't : c_type c' = c_type c) by (destruct c; reflexivity).
  rewrite sort_desc_snoc_max; [|assumption|intros x Hx; rewrite Hc'n; auto].
  assert (Hgc : good (strict_of b) c') by (apply arg_block_good; [assumption|assumption|intros; contradiction]).
  split; [|split; [reflexivity|]].
  - unfold Core. cbv zeta. cbn [b_canonicals b_primary].
    replace (strict_of {| b_primary := b_primary b; b_canonicals := c' :: b_canonicals b |}) with (strict_of b) by reflexivity.
    repeat split; try assumption.
    + cbn [map In]. rewrite Hc'n. intros y Hy. apply in_map_iff in Hy as (x & <- & Hx). auto.
    + destruct Hp as (front & pb & d & E & H1 & H2 & H3 & Hf). exists (c' :: front), pb, d. rewrite E.
      repeat split; try assumption. intros x [<-|Hx]; [rewrite Hc't; assumption|auto].
    + constructor; assumption.
    + intros ty Hty. cbn [map]. rewrite count_cons, Hc't. destruct (ty =? c_type c) eqn:Ety; [|apply Hsing; assumption].
      apply N.eqb_eq in Ety. subst ty.
      assert (Hu : is_unique_type (c_type c) = true).
      { unfold is_unique_type, is_singleton_type in *. repeat (apply orb_true_iff in Hty as [Hty|Hty]); rewrite Hty, ?orb_true_r; reflexivity. }
      rewrite Hu in Eu. cbn [andb] in Eu. destruct (ext_block_by_type (c_type c) (b_canonicals b)) eqn:Ee; [discriminate|].
      rewrite (ext_none_count _ _ _ Hg Ee). lia.
    + unfold age_rule in *. cbn [map memN]. destruct (p_time (b_primary b) =? 0); [|reflexivity]. cbn [andb] in *.
      apply negb_true_iff in Hage. apply negb_false_iff in Hage. rewrite Hage, orb_true_r. reflexivity.
  - unfold payload. cbn [b_canonicals]. unfold ext_block_by_type at 1. cbn [find]. rewrite Hc't.
    assert ((c_type c =? PAYLOAD_BLOCK) = false) as -> by (apply N.eqb_neq; assumption). reflexivity.
Qed.

(* ================= set_payload ================= *)
Lemma core_set_payload b d : Core b -> Nlen d <? two64 = true ->
  Core (set_payload b d) /\ strict_of (set_payload b d) = strict_of b /\ payload (set_payload b d) = Some d.
Proof.
  intros HC Hd. unfold set_payload. destruct (core_payload b HC) as (pb0 & d0 & Epb & _). rewrite Epb.
  pose proof HC as (Hs & (front & pb & dd & E & H1 & H2 & H3 & Hf) & Hg & _).
  assert (Hu : update_first (sel_type PAYLOAD_BLOCK) (fun c => set_c_data c (Data d)) (b_canonicals b) = front ++ [set_c_data pb (Data d)]).
  { rewrite E, update_first_app_none by (intros; apply sel_type_neq; auto). cbn [update_first].
    rewrite (sel1_payload pb dd) by assumption. reflexivity. }
  rewrite Hu. split; [|split; [reflexivity|]].
  - eapply core_transport; [exact HC|reflexivity|apply HC|apply HC|reflexivity|]. cbn [b_canonicals]. rewrite E.
    apply Forall2_app; [apply Forall2_refl, keeps_block_refl|]. constructor; [|constructor].
    split; [destruct pb; reflexivity|]. split; [destruct pb; reflexivity|]. intros G. split; [|intros _; destruct pb; reflexivity].
    apply good_set_data; [assumption| |].
    + unfold extension_valid. destruct pb as [ty nu fl cr da]; unfold set_c_data; cbn [c_data c_type c_num] in *. rewrite H1, H2. reflexivity.
    + rewrite H1. cbn [wf_data]. rewrite Hd. reflexivity.
  - apply (payload_of_last (b_primary b) front (set_c_data pb (Data d)) d); try assumption; destruct pb; assumption || reflexivity.
Qed.

(* ================= set_payload_block ================= *)
Lemma filter_front front (pb : canonical) :
  (forall c, In c front -> c_type c <> PAYLOAD_BLOCK) -> c_type pb = PAYLOAD_BLOCK ->
  filter (fun c => negb (c_type c =? PAYLOAD_BLOCK)) (front ++ [pb]) = front.
Proof.
  intros Hf Hp. rewrite filter_app. cbn [filter]. rewrite Hp. cbn [negb]. rewrite app_nil_r.
  induction front as [|x t IH]; [reflexivity|]. cbn [filter].
  assert ((c_type x =? PAYLOAD_BLOCK) = false) as -> by (apply N.eqb_neq, Hf; left; reflexivity). cbn [negb].
  rewrite IH by (intros; apply Hf; right; assumption). reflexivity.
Qed.
Lemma core_set_payload_block b c d : Core b -> arg_block_ok (strict_of b) c = true -> c_type c = PAYLOAD_BLOCK -> c_data c = Data d ->
  Core (set_payload_block b c) /\ strict_of (set_payload_block b c) = strict_of b /\ payload (set_payload_block b c) = Some d.
Proof.
  intros HC Hok Ht Hd. unfold set_payload_block.
  pose proof HC as (Hs & (front & pb & dd & E & H1 & H2 & H3 & Hf) & Hg & _).
  rewrite E, filter_front by assumption. unfold add_canonical_block. cbv zeta. cbn [b_canonicals b_primary].
  assert (Hnone : ext_block_by_type (c_type c) front = None).
  { rewrite ext_find. apply find_none_all. intros x Hx. apply sel_type_neq. rewrite Ht. auto. }
  rewrite Hnone, andb_false_r.
  assert ((c_type c =? PAYLOAD_BLOCK) = true) as -> by (apply N.eqb_eq; assumption). cbv beta iota.
  set (c' := set_c_num c PAYLOAD_BLOCK_NUMBER).
  assert (Hc'n : c_num c' = PAYLOAD_BLOCK_NUMBER) by (destruct c; reflexivity).
  assert (Hc't : c_type c' = PAYLOAD_BLOCK) by (destruct c; assumption).
  assert (Hc'd : c_data c' = Data d) by (destruct c; assumption).
  assert (Hsort : sort_desc (front ++ [c']) = front ++ [c']).
  { apply sort_desc_sorted. rewrite map_app. cbn [map]. rewrite Hc'n, <- H2. rewrite E, map_app in Hs. exact Hs. }
  rewrite Hsort. split; [|split; [reflexivity|]].
  - eapply core_transport; [exact HC|reflexivity|apply HC|apply HC|reflexivity|]. cbn [b_canonicals]. rewrite E.
    apply Forall2_app; [apply Forall2_refl, keeps_block_refl|]. constructor; [|constructor].
    split; [congruence|]. split; [congruence|]. intros _. split; [|intros _; unfold carries_data; rewrite Hc'd; reflexivity].
    apply arg_block_good; [assumption|vm_compute; reflexivity|reflexivity].
  - apply (payload_of_last (b_primary b) front c' d); assumption.
Qed.

(* ================= set_crc ================= *)
Lemma wf_crc_u_of_type k : k <? 256 = true -> wf_crc_u (crc_of_type k) = true.
Proof.
  intros H. unfold crc_of_type, CRC_NO, CRC_16, CRC_32.
  destruct (k =? 0) eqn:E0; [reflexivity|]. destruct (k =? 1) eqn:E1; [reflexivity|]. destruct (k =? 2) eqn:E2; [reflexivity|].
  cbn [wf_crc_u]. rewrite H, andb_true_r. apply N.eqb_neq in E0, E1, E2. apply N.leb_le. lia.
Qed.
Lemma sel_type_set_crc t c x : sel_type t (set_c_crc c x) = sel_type t c.
Proof. destruct c; reflexivity. Qed.
Lemma payload_map_crc p p' x cs : payload (mkbundle p' (map (fun c => set_c_crc c x) cs)) = payload (mkbundle p cs).
Proof.
  unfold payload, ext_block_by_type. cbn [b_canonicals]. induction cs as [|c t IH]; [reflexivity|].
  cbn [map find]. change ((c_type (set_c_crc c x) =? PAYLOAD_BLOCK) && extension_valid (set_c_crc c x))
    with (sel_type PAYLOAD_BLOCK (set_c_crc c x)). rewrite sel_type_set_crc. unfold sel_type at 1.
  destruct ((c_type c =? PAYLOAD_BLOCK) && extension_valid c); [destruct c; reflexivity|exact IH].
Qed.
Lemma core_set_crc b k : Core b -> k <? 256 = true ->
  Core (set_crc b k) /\ strict_of (set_crc b k) = strict_of b /\ payload (set_crc b k) = payload b.
Proof.
  intros HC Hk. pose proof (wf_crc_u_of_type k Hk) as Hw. unfold set_crc.
  assert (Hst : strict_of (mkbundle (set_p_crc (b_primary b) (crc_of_type k))
                                    (map (fun c => set_c_crc c (crc_of_type k)) (b_canonicals b))) = strict_of b) by reflexivity.
  split; [|split; [exact Hst|]].
  - eapply core_transport; [exact HC|exact Hst| | |reflexivity|].
    + destruct HC as (_ & _ & _ & _ & Hpv & _). exact Hpv.
    + destruct HC as (_ & _ & _ & _ & _ & Hwp & _). unfold wf_primary_u in *.
      destruct (b_primary b) as [ver fl cr dst src rpt t seq life fo tl].
      cbn [b_primary set_p_crc p_version p_flags p_crc p_dst p_src p_rpt p_time p_seq p_lifetime p_frag_off p_total_len] in *.
      unfold has_fragmentation in *. cbn [p_flags] in *. btrue.
      repeat (apply andb_true_iff; split); assumption.
    + cbn [b_canonicals]. apply Forall2_map_r. intros c. split; [destruct c; reflexivity|]. split; [destruct c; reflexivity|].
      intros G. split; [apply good_set_crc; assumption|destruct c; intros H; exact H].
  - rewrite (payload_map_crc (b_primary b)). destruct b; reflexivity.
Qed.

(* ================= update_extensions ================= *)
(* the three stages of bundle.rs:383-408, named so that each can be treated on its own *)
Definition hop_stage (cs0 : list canonical) : option (bool * list canonical) :=
  match ext_block_by_type HOP_COUNT_BLOCK cs0 with
  | Some hc =>
    match c_data hc with
    | HopCount limit count =>
      if count =? 255 then Some (true, cs0)
      else let cs := update_first (sel_type HOP_COUNT_BLOCK) (fun c => set_c_data c (HopCount limit (count + 1))) cs0 in
           Some (limit <? count + 1, cs)
    | _ => Some (false, cs0)
    end
  | None => Some (false, cs0)
  end.
Definition prev_stage (node : eid) (cs1 : list canonical) : list canonical :=
  match ext_block_by_type PREVIOUS_NODE_BLOCK cs1 with
  | Some pn => match c_data pn with
               | PreviousNode _ => update_first (sel_type PREVIOUS_NODE_BLOCK) (fun c => set_c_data c (PreviousNode node)) cs1
               | _ => cs1 end
  | None => cs1
  end.
Definition age_stage (p : primary) (residence : N) (cs2 : list canonical) : bool * list canonical :=
  match ext_block_by_type BUNDLE_AGE_BLOCK cs2 with
  | Some ba => match c_data ba with
               | BundleAge a =>
                 let na := sat_add128 a residence in
                 (p_lifetime p <? na,
                  update_first (sel_type BUNDLE_AGE_BLOCK) (fun c => set_c_data c (BundleAge (sat_u64 na))) cs2)
               | _ => (false, cs2) end
  | None => (false, cs2)
  end.
Lemma update_extensions_stages m clock node rt b :
  update_extensions m clock node rt b =
  match hop_stage (b_canonicals b) with
  | Some (true, cs) => Ok (false, mkbundle (b_primary b) cs)
  | Some (false, cs1) =>
    let age := age_stage (b_primary b) rt (prev_stage node cs1) in
    let b3 := mkbundle (b_primary b) (snd age) in
    if fst age then Ok (false, b3)
    else do ex <- is_lifetime_exceeded m clock (b_primary b); Ok (negb ex, b3)
  | None => Ok (false, b)
  end.
Proof. reflexivity. Qed.

(* what a stage keeps: the invariant, the primary block and the payload *)
Definition keeps (b b' : bundle) : Prop := Core b' /\ b_primary b' = b_primary b /\ payload b' = payload b.
Lemma keeps_refl b : Core b -> keeps b b.
Proof. unfold keeps. tauto. Qed.
Lemma keeps_same b : Core b -> keeps b (mkbundle (b_primary b) (b_canonicals b)).
Proof. destruct b. apply keeps_refl. Qed.
Lemma keeps_trans a b c : keeps a b -> keeps b c -> keeps a c.
Proof. unfold keeps. intros (H1 & H2 & H3) (G1 & G2 & G3). split; [assumption|split; congruence]. Qed.

(* one data update of the first valid block of an extension type *)
Lemma stage_update b t nd c : Core b -> t <> PAYLOAD_BLOCK -> find (sel_type t) (b_canonicals b) = Some c ->
  extension_valid (set_c_data c nd) = true -> wf_data t nd = true ->
  keeps b (mkbundle (b_primary b) (update_first (sel_type t) (fun c => set_c_data c nd) (b_canonicals b))).
Proof.
  intros HC Ht Hfind Hev Hwd. destruct (find_sel _ _ _ Hfind) as [Hct _]. unfold keeps. split; [|split; [reflexivity|]].
  - eapply core_transport; [exact HC|reflexivity|apply HC|apply HC|reflexivity|]. cbn [b_canonicals].
    eapply update_first_Forall2; [apply keeps_block_refl|exact Hfind|].
    split; [destruct c; reflexivity|]. split; [destruct c; reflexivity|]. intros G. split.
    + apply good_set_data; [assumption|assumption|rewrite Hct; assumption].
    + intros Hcd. rewrite (not_type1_no_data _ _ G) in Hcd by (rewrite Hct; exact Ht). discriminate.
  - unfold payload. cbn [b_canonicals]. rewrite !ext_find. rewrite find_update_other; [reflexivity|].
    intros x Hx. apply (sel_other_after_set PAYLOAD_BLOCK t x nd); [intros H'; apply Ht; symmetry; exact H'|assumption].
Qed.

Lemma good_wf_data strict c : good strict c -> wf_data (c_type c) (c_data c) = true.
Proof. intros [_ H]. unfold wf_canonical_u in H. btrue. assumption. Qed.
Lemma core_good_find b t c : Core b -> find (sel_type t) (b_canonicals b) = Some c -> good (strict_of b) c /\ c_type c = t.
Proof.
  intros (_ & _ & Hg & _) H. rewrite Forall_forall in Hg. split; [apply Hg; eapply in_find; eassumption|].
  apply find_sel in H. tauto.
Qed.

Lemma hop_stage_ok b : Core b ->
  exists ex cs1, hop_stage (b_canonicals b) = Some (ex, cs1) /\ keeps b (mkbundle (b_primary b) cs1).
Proof.
  intros HC. unfold hop_stage. rewrite ext_find.
  destruct (find (sel_type HOP_COUNT_BLOCK) (b_canonicals b)) as [hc|] eqn:Eh; [|eexists; eexists; split; [reflexivity|apply keeps_same; assumption]].
  destruct (core_good_find _ _ _ HC Eh) as [G Ht]. pose proof (good_wf_data _ _ G) as Hw. rewrite Ht in Hw.
  destruct (c_data hc) as [l k| | | | |] eqn:Ed; try (eexists; eexists; split; [reflexivity|apply keeps_same; assumption]).
  destruct (k =? 255) eqn:E255; [eexists; eexists; split; [reflexivity|apply keeps_same; assumption]|].
  eexists; eexists; split; [reflexivity|]. cbn [wf_data] in Hw. btrue.
  apply stage_update with (c := hc); try assumption.
  - intro H'; vm_compute in H'; discriminate H'.
  - unfold extension_valid. destruct hc as [ty nu fl cr da]; unfold set_c_data; cbn [c_data c_type] in *. rewrite Ht. reflexivity.
  - cbn [wf_data]. apply N.eqb_neq in E255. apply N.ltb_lt in H0.
    assert (k + 1 <? 256 = true) as -> by (apply N.ltb_lt; lia). rewrite H1. reflexivity.
Qed.
Lemma prev_stage_ok b node : Core b -> eid_valid node = true -> wf_eid node = true -> Nlen (enc_eid node) <? two64 = true ->
  keeps b (mkbundle (b_primary b) (prev_stage node (b_canonicals b))).
Proof.
  intros HC Hv Hw Hl. unfold prev_stage. rewrite ext_find.
  destruct (find (sel_type PREVIOUS_NODE_BLOCK) (b_canonicals b)) as [pn|] eqn:Ep; [|apply keeps_same; assumption].
  destruct (core_good_find _ _ _ HC Ep) as [G Ht].
  destruct (c_data pn) eqn:Ed; try (apply keeps_same; assumption).
  apply stage_update with (c := pn); try assumption.
  - intro H'; vm_compute in H'; discriminate H'.
  - unfold extension_valid. destruct pn as [ty nu fl cr da]; unfold set_c_data; cbn [c_data c_type] in *. rewrite Ht, Hv. reflexivity.
  - cbn [wf_data]. rewrite Hw, Hl. reflexivity.
Qed.
Lemma sat_u64_lt a : sat_u64 a < two64.
Proof. unfold sat_u64. destruct (a <? two64) eqn:E; [apply N.ltb_lt; assumption|unfold two64; lia]. Qed.
Lemma age_stage_ok b rt : Core b ->
  keeps b (mkbundle (b_primary b) (snd (age_stage (b_primary b) rt (b_canonicals b)))).
Proof.
  intros HC. unfold age_stage. rewrite ext_find.
  destruct (find (sel_type BUNDLE_AGE_BLOCK) (b_canonicals b)) as [ba|] eqn:Ea; [|apply keeps_same; assumption].
  destruct (core_good_find _ _ _ HC Ea) as [G Ht].
  destruct (c_data ba) eqn:Ed; try (apply keeps_same; assumption). cbv zeta. cbn [snd].
  apply stage_update with (c := ba); try assumption.
  - intro H'; vm_compute in H'; discriminate H'.
  - unfold extension_valid. destruct ba as [ty nu fl cr da]; unfold set_c_data; cbn [c_data c_type] in *. rewrite Ht. reflexivity.
  - cbn [wf_data]. pose proof (sat_u64_lt (sat_add128 age rt)) as H. apply N.ltb_lt in H. rewrite H. reflexivity.
Qed.

Lemma core_update m clock node rt b : Core b ->
  eid_valid node = true -> wf_eid node = true -> Nlen (enc_eid node) <? two64 = true -> MS1970_TO2K <= clock ->
  exists r b', update_extensions m clock node rt b = Ok (r, b') /\ keeps b b'.
Proof.
  intros HC Hv Hw Hl Hclock. rewrite update_extensions_stages.
  destruct (hop_stage_ok b HC) as (ex & cs1 & -> & K1). destruct ex; [eauto|].
  set (b1 := mkbundle (b_primary b) cs1) in *. pose proof K1 as (HC1 & HP1 & _).
  pose proof (prev_stage_ok b1 node HC1 Hv Hw Hl) as K2. cbn [b_primary b_canonicals b1] in K2.
  set (b2 := mkbundle (b_primary b) (prev_stage node cs1)) in *. pose proof K2 as (HC2 & _).
  pose proof (age_stage_ok b2 rt HC2) as K3. cbn [b_primary b_canonicals b2] in K3.
  pose proof (keeps_trans _ _ _ K1 (keeps_trans _ _ _ K2 K3)) as K. cbv zeta.
  destruct (fst (age_stage (b_primary b) rt (prev_stage node cs1))); [eauto|].
  unfold is_lifetime_exceeded. destruct (p_time (b_primary b) =? 0); cbn [bind]; [eauto|].
  unfold now, sub64. assert (MS1970_TO2K <=? clock = true) as -> by (apply N.leb_le; assumption). cbn [bind]. eauto.
Qed.

(* ================= one step, any sequence ================= *)
Theorem core_step m b o : Core b -> op_ok (strict_of b) o = true ->
  exists b', step m b o = Ok b' /\ Core b' /\ strict_of b' = strict_of b /\ payload b' = payload_after (payload b) o.
Proof.
  intros HC Hok. destruct o as [c|d|c|k|node rt clock]; cbn [step op_ok payload_after] in *.
  - destruct (core_add b c HC Hok) as (H1 & H2 & H3). eauto.
  - destruct (core_set_payload b d HC Hok) as (H1 & H2 & H3). eauto.
  - apply andb_true_iff in Hok as [Hok Ht]. apply N.eqb_eq in Ht.
    assert (Hw : wf_canonical_u (set_c_num c 1) = true) by (apply (arg_block_good _ _ 1 Hok); [vm_compute; reflexivity|reflexivity]).
    destruct (type1_data _ Hw) as [d Hd]; [destruct c; assumption|].
    assert (Hd' : c_data c = Data d) by (destruct c; assumption). rewrite Hd'.
    destruct (core_set_payload_block b c d HC Hok Ht Hd') as (H1 & H2 & H3). eauto.
  - destruct (core_set_crc b k HC Hok) as (H1 & H2 & H3). eauto.
  - btrue. apply N.leb_le in H0.
    destruct (core_update m clock node rt b HC) as (r & b' & -> & K1 & K2 & K3); try assumption. cbn [bind snd].
    exists b'. split; [reflexivity|split; [assumption|split; [|assumption]]]. unfold strict_of, is_admin_record. rewrite K2. reflexivity.
Qed.

Theorem core_steps m strict ops : forall b, Core b -> strict_of b = strict -> Forall (fun o => op_ok strict o = true) ops ->
  exists b', fold_res (step m) ops b = Ok b' /\ Core b' /\ payload b' = fold_left payload_after ops (payload b).
Proof.
  induction ops as [|o t IH]; intros b HC Hs Hall; cbn [fold_res fold_left].
  - eauto.
  - inversion Hall; subst. destruct (core_step m b o HC H1) as (b1 & -> & HC1 & Hs1 & Hp1). cbn [bind].
    destruct (IH b1 HC1 Hs1 H2) as (b' & E & HC' & Hp'). exists b'. rewrite <- Hp1. auto.
Qed.

(* preservation by a single call, stated on the invariant itself *)
Theorem inv_step m b o : Inv b -> op_admissible b o ->
  exists b', step m b o = Ok b' /\ Inv b' /\ payload b' = payload_after (payload b) o.
Proof.
  intros HI Hok. apply core_inv in HI. destruct (core_step m b o HI Hok) as (b' & E & HC & _ & Hp).
  exists b'. rewrite <- core_inv. auto.
Qed.

Theorem roundtrip_of_inv b : Inv b -> let '(bs, b') := to_cbor b in from_cbor bs = Ok b'.
Proof.
  intros (_ & _ & _ & _ & _ & _ & Hwf). pose proof (to_cbor_roundtrip_u b Hwf) as H. destruct (to_cbor b) as [bs b']. tauto.
Qed.

Theorem invariant_all m b0 ops : start_ok b0 -> Forall (op_admissible b0) ops ->
  exists b, fold_res (step m) ops b0 = Ok b /\ Inv b /\ payload b = last_payload_set b0 ops
            /\ (let '(bs, b') := to_cbor b in from_cbor bs = Ok b').
Proof.
  intros Hs Hall. pose proof (start_core b0 Hs) as HC.
  destruct (core_steps m (strict_of b0) ops b0 HC eq_refl Hall) as (b & E & HCb & Hp).
  apply core_inv in HCb. exists b. split; [assumption|split; [assumption|split; [assumption|]]]. apply roundtrip_of_inv. assumption.
Qed.
Theorem start_inv b : start_ok b -> Inv b.
Proof. intros H. apply core_inv, start_core, H. Qed.

(* ================= the builders produce start states ================= *)
Lemma builder_build_built p cs b : builder_build p cs = Some b -> built_by_builders b.
Proof.
  unfold builder_build. cbv zeta. destruct (last_opt (sort_desc cs)) as [c|] eqn:El; [|discriminate].
  destruct (carries_data c) eqn:Ec; [|discriminate]. intros H. inversion H; subst. unfold built_by_builders. cbn [b_canonicals].
  split; [exists cs; reflexivity|exists c; split; assumption].
Qed.
Lemma std_bundle_eq src dst t seq data :
  new_std_payload_bundle src dst t seq data =
  mkbundle (mkprimary 7 131076 CrcNo dst src src t seq 3600000 0 0)
           [mkcanonical 10 2 0 CrcNo (HopCount 32 0); mkcanonical 1 1 0 CrcNo (Data data)].
Proof. reflexivity. Qed.
Lemma std_bundle_built src dst t seq data : built_by_builders (new_std_payload_bundle src dst t seq data).
Proof.
  split.
  - exists [mkcanonical 1 1 0 CrcNo (Data data); mkcanonical 10 2 0 CrcNo (HopCount 32 0)]. reflexivity.
  - eexists. split; reflexivity.
Qed.
Lemma wf_eid_valid e : wf_eid e = true -> eid_valid e = true.
Proof.
  destruct e as [c s|c a|c n s]; cbn [wf_eid eid_valid]; intros H; btrue; [reflexivity|rewrite H, H0; reflexivity|].
  rewrite H. apply N.leb_le in H2. assert (n <? 1 = false) as -> by (apply N.ltb_ge; assumption). reflexivity.
Qed.
(* new_std_payload_bundle yields a start state for every valid source/destination and a non-zero creation time
   (with creation time 0 the bundle has no bundle age block and does not validate) *)
Theorem std_bundle_start src dst t seq data :
  wf_eid src = true -> wf_eid dst = true -> t <> 0 -> t < two64 -> seq < two64 -> Nlen data < two64 ->
  start_ok (new_std_payload_bundle src dst t seq data).
Proof.
  intros Hs Hd Ht Ht64 Hq Hl. split; [apply std_bundle_built|]. rewrite std_bundle_eq. split.
  - apply validate_nil_iff. cbn [b_primary b_canonicals].
    split; [|split; [|split; [|split; [|split]]]].
    + unfold primary_validate. cbn [p_version p_flags p_dst p_src p_rpt]. rewrite !wf_eid_valid by assumption. reflexivity.
    + destruct (strict_of _); reflexivity.
    + reflexivity.
    + intros ty _. cbn [map c_type count]. destruct (ty =? 10) eqn:E1, (ty =? 1) eqn:E2; try lia.
      apply N.eqb_eq in E1, E2. subst. discriminate.
    + unfold age_rule. cbn [p_time]. apply N.eqb_neq in Ht. rewrite Ht. reflexivity.
    + discriminate.
  - unfold wf_bundle_u. cbn [b_primary b_canonicals]. apply andb_true_iff. split.
    + unfold wf_primary_u. cbn [p_version p_flags p_crc p_dst p_src p_rpt p_time p_seq p_lifetime p_frag_off p_total_len].
      apply N.ltb_lt in Ht64, Hq. rewrite Hs, Hd, Ht64, Hq. reflexivity.
    + cbn [forallb]. unfold wf_canonical_u. cbn [c_type c_num c_flags c_crc c_data wf_data]. apply N.ltb_lt in Hl. rewrite Hl. reflexivity.
Qed.

(* ================= readings of the invariant ================= *)
Lemma strictly_desc_strongly l : strictly_desc l <-> StronglySorted (fun a b => b < a) l.
Proof.
  induction l as [|a t IH]; cbn [strictly_desc]; [split; [constructor|trivial]|]. split.
  - intros [H1 H2]. constructor; [apply IH; assumption|apply Forall_forall; assumption].
  - intros H. inversion H; subst. split; [apply Forall_forall; assumption|apply IH; assumption].
Qed.
(* each block number is greater than the next one *)
Lemma strictly_desc_adjacent l : strictly_desc l <-> Sorted (fun a b => b < a) l.
Proof.
  rewrite strictly_desc_strongly. split; [apply StronglySorted_Sorted|apply Sorted_StronglySorted].
  intros x y z H1 H2. lia.
Qed.
Lemma singletons_once_explicit cs :
  singletons_once cs <-> at_most_once 6 cs = true /\ at_most_once 7 cs = true /\ at_most_once 10 cs = true.
Proof.
  unfold singletons_once, at_most_once, is_singleton_type, BUNDLE_AGE_BLOCK, HOP_COUNT_BLOCK, PREVIOUS_NODE_BLOCK. split.
  - intros H. pose proof (H 6 eq_refl) as H6. pose proof (H 7 eq_refl) as H7. pose proof (H 10 eq_refl) as H10.
    repeat split; apply Nat.leb_le; assumption.
  - intros (H6 & H7 & H10) ty Hty. apply Nat.leb_le in H6, H7, H10.
    apply orb_true_iff in Hty as [Hty|Hty]; [apply orb_true_iff in Hty as [Hty|Hty]|]; apply N.eqb_eq in Hty; subst; assumption.
Qed.
(* the payload block is the last block and the only one of type 1 *)
Lemma payload_last_reading cs : payload_last cs ->
  (exists pb, last_opt cs = Some pb /\ c_type pb = 1 /\ c_num pb = 1 /\ carries_data pb = true)
  /\ count 1 (map c_type cs) = 1%nat.
Proof.
  intros (front & pb & d & -> & H1 & H2 & H3 & Hf). split.
  - exists pb. unfold carries_data. rewrite H3. repeat split; try assumption.
    clear. induction front as [|a t IH]; [reflexivity|]. destruct t; [reflexivity|exact IH].
  - rewrite map_app. cbn [map]. rewrite H1. clear - Hf. induction front as [|a t IH]; [reflexivity|].
    cbn [map app]. rewrite count_cons.
    assert ((1 =? c_type a) = false) as -> by (apply N.eqb_neq; intros E; apply (Hf a (or_introl eq_refl)); symmetry; exact E).
    apply IH. intros; apply Hf; right; assumption.
Qed.
