(* from_tokens (to_tokens b) = b for every well-formed bundle, bottom-up on token lists: integers,
   byte sequences, EIDs, timestamps, the primary block (8/9/10/11 elements, with the repaired rule for
   the fragment fields when there is no size hint), canonical blocks (nested CBOR block data), the
   block list by induction.  Reuses the CRC-recomputation facts and the nested block-data lemma of
   Proofs/CodecProofs.v. *)
From BP7 Require Import Base.Prelude Base.Utf8 Gen.Consts Cbor.Item Cbor.SerdeDe Spec.CrcSpec.
From BP7 Require Import Model.Types Model.Encode Model.Decode Model.Wf Model.Json Proofs.CborLemmas Proofs.CodecProofs.

(* ---------- the access layer ---------- *)
Lemma jfield_cons {A B} (p : jtok -> res A) t r a (k : A -> list jtok -> res B * list jtok) :
  p t = Ok a -> jfield p (t :: r) k = k a r.
Proof. intros H. unfold jfield, jnext. rewrite H. reflexivity. Qed.

(* jseq_loop is the `while let Some(x) = next_element()?` loop over jnext *)
Lemma jseq_loop_unfold {A} (p : jtok -> res A) acc :
  jseq_loop p acc =
  let '(r, acc1) := jnext p acc in
  match r with
  | Ok None => (Ok [], acc1)
  | Ok (Some a) => let '(r', acc2) := jseq_loop p acc1 in (rmap (cons a) r', acc2)
  | Err e => (Err e, acc1)
  | Panic q => (Panic q, acc1)
  end.
Proof. destruct acc as [|t r]; cbn [jseq_loop jnext]; [reflexivity|]. destruct (p t); reflexivity. Qed.

Lemma j_uint_ok bound n : n < bound -> j_uint bound (JNum n) = Ok n.
Proof. intros H. unfold j_uint. apply N.ltb_lt in H. rewrite H. reflexivity. Qed.
Lemma j_u64_ok n : n < two64 -> j_u64 (JNum n) = Ok n.
Proof. apply j_uint_ok. Qed.
Lemma j_u32_ok n : n < 4294967296 -> j_u32 (JNum n) = Ok n.
Proof. apply j_uint_ok. Qed.
Lemma j_u8_ok n : n < 256 -> j_u8 (JNum n) = Ok n.
Proof. apply j_uint_ok. Qed.

Lemma jseq_loop_bytes b : jseq_loop j_u8 (map (fun x => JNum (b2n x)) b) = (Ok (map b2n b), []).
Proof.
  induction b as [|x b IH]; cbn [map jseq_loop]; [reflexivity|].
  rewrite j_u8_ok by apply b2n_lt. rewrite IH. reflexivity.
Qed.
Lemma map_n2b_b2n b : map n2b (map b2n b) = b.
Proof. induction b as [|x b IH]; cbn [map]; [reflexivity|]. rewrite n2b_b2n, IH. reflexivity. Qed.
Lemma j_bytebuf_ok b : j_bytebuf (j_bytes b) = Ok b.
Proof.
  unfold j_bytebuf, j_bytes, j_seq. rewrite jseq_loop_bytes. cbn [rmap bind]. rewrite map_n2b_b2n. reflexivity.
Qed.

Lemma j_pair_ok b1 b2 x y : x < b1 -> y < b2 -> j_pair b1 b2 (JSeq [JNum x; JNum y]) = Ok (x, y).
Proof.
  intros Hx Hy. unfold j_pair, j_seq, jpair_body.
  rewrite (jfield_cons _ _ _ x) by (apply j_uint_ok; assumption).
  rewrite (jfield_cons _ _ _ y) by (apply j_uint_ok; assumption). reflexivity.
Qed.

(* ---------- endpoint IDs ---------- *)
Theorem j_eid_ok e : wf_eid e = true -> j_eid_de (j_eid e) = Ok e.
Proof.
  intros Hwf. unfold j_eid_de, j_eid, j_seq, jeid_body.
  destruct e as [c s|c a|c n sv]; cbn [wf_eid] in Hwf; bools Hwf; nat_facts; subst;
    unfold ENDPOINT_URI_SCHEME_DTN, ENDPOINT_URI_SCHEME_IPN in *.
  - rewrite (jfield_cons _ _ _ 1) by (apply j_u8_ok; lia). ground_N.
    cbn [jnext_string]. destruct s; [discriminate|]. reflexivity.
  - (* dtn:none = [1,0]: the 0 is rejected by the String deserializer, consumed, and the error swallowed *)
    rewrite (jfield_cons _ _ _ 1) by (apply j_u8_ok; lia). ground_N.
    cbn [jnext_string]. reflexivity.
  - rewrite (jfield_cons _ _ _ 2) by (apply j_u8_ok; lia). ground_N.
    rewrite (jfield_cons _ _ _ (n, sv)) by (apply j_pair_ok; assumption).
    cbn [fst snd]. assert (n <? 1 = false) as -> by (apply N.ltb_ge; lia). reflexivity.
Qed.

(* ---------- the CRC field ---------- *)
Lemma jcrc_field_ok {B} c r (k : crc_value -> list jtok -> res B * list jtok) :
  crc_filled c = true -> jcrc_field (crc_code c) (j_crc_field c ++ r) k = k c r.
Proof.
  intros Hc. unfold jcrc_field, j_crc_field.
  destruct c as [| | |b|b|code]; cbn [crc_filled] in Hc; try discriminate; cbn [has_crc crc_code crc_bytes app];
    unfold CRC_NO, CRC_16, CRC_32; ground_N.
  - reflexivity.
  - rewrite (jfield_cons _ _ _ b) by apply j_bytebuf_ok. rewrite Hc. reflexivity.
  - rewrite (jfield_cons _ _ _ b) by apply j_bytebuf_ok. rewrite Hc. reflexivity.
Qed.

(* what `rest` is without a size hint, for a block whose stored CRC is filled in *)
Lemma json_rest_frag flags c : crc_filled c = true ->
  (1 <? json_rest flags (crc_code c)) = bundle_flag flags BUNDLE_IS_FRAGMENT.
Proof.
  intros Hc. unfold json_rest.
  destruct c; cbn [crc_filled] in Hc; try discriminate; cbn [crc_code]; unfold CRC_NO, CRC_16, CRC_32; ground_N; cbn [orb];
    destruct (bundle_flag flags BUNDLE_IS_FRAGMENT); reflexivity.
Qed.

Ltac jfld a L := rewrite (jfield_cons _ _ _ a) by L.

(* ---------- primary block ---------- *)
Theorem j_primary_ok p : wf_primary p = true -> crc_filled (p_crc p) = true -> j_primary_de (j_primary p) = Ok p.
Proof.
  intros Hwf Hc. unfold j_primary_de, j_primary, j_seq, jprimary_body, jprimary_body_with.
  destruct p as [ver flags crc dst src rpt t q life off len].
  unfold wf_primary in Hwf. cbn [p_version p_flags p_crc p_dst p_src p_rpt p_time p_seq p_lifetime p_frag_off p_total_len] in *.
  bools Hwf. nat_facts.
  assert (Hcode : crc_code crc < 256) by (destruct crc; cbn in *; try discriminate; unfold CRC_NO, CRC_16, CRC_32; lia).
  cbn [app].
  jfld ver ltac:(apply j_u32_ok; assumption).
  jfld flags ltac:(apply j_u64_ok; assumption).
  jfld (crc_code crc) ltac:(apply j_u8_ok; assumption).
  jfld dst ltac:(apply j_eid_ok; assumption).
  jfld src ltac:(apply j_eid_ok; assumption).
  jfld rpt ltac:(apply j_eid_ok; assumption).
  jfld (t, q) ltac:(apply j_pair_ok; assumption).
  jfld life ltac:(apply j_u64_ok; assumption).
  rewrite json_rest_frag by assumption.
  unfold has_fragmentation in *. cbn [p_flags fst snd] in *.
  destruct (bundle_flag flags BUNDLE_IS_FRAGMENT) eqn:Efrag.
  - (* fragment: offset and total length are read because the flag says so *)
    cbn [app].
    jfld off ltac:(apply j_u64_ok; assumption).
    jfld len ltac:(apply j_u64_ok; assumption).
    rewrite <- (app_nil_r (j_crc_field crc)). rewrite jcrc_field_ok by assumption. reflexivity.
  - cbn [app orb] in *.
    rewrite <- (app_nil_r (j_crc_field crc)). rewrite jcrc_field_ok by assumption.
    match goal with H : (_ =? 0) && (_ =? 0) = true |- _ => bools H end. nat_facts. subst. reflexivity.
Qed.

(* ---------- canonical block ---------- *)
Lemma j_canonical_raw c : j_canonical c =
  JSeq ([JNum (c_type c); JNum (c_num c); JNum (c_flags c); JNum (crc_code (c_crc c)); j_bytes (raw_of (c_data c))]
        ++ j_crc_field (c_crc c)).
Proof. unfold j_canonical, raw_of. destruct (c_data c); reflexivity. Qed.

Theorem j_canonical_ok c : wf_canonical c = true -> crc_filled (c_crc c) = true -> j_canonical_de (j_canonical c) = Ok c.
Proof.
  intros Hwf Hc. rewrite j_canonical_raw. unfold j_canonical_de, j_seq, jcanonical_body.
  destruct c as [ty num fl crc data].
  unfold wf_canonical in Hwf. cbn [c_type c_num c_flags c_crc c_data] in *. bools Hwf. nat_facts.
  assert (Hcode : crc_code crc < 256) by (destruct crc; cbn in *; try discriminate; unfold CRC_NO, CRC_16, CRC_32; lia).
  cbn [app].
  jfld ty ltac:(apply j_u64_ok; assumption).
  jfld num ltac:(apply j_u64_ok; assumption).
  jfld fl ltac:(apply j_u8_ok; assumption).
  jfld (crc_code crc) ltac:(apply j_u8_ok; assumption).
  jfld (raw_of data) ltac:(apply j_bytebuf_ok).
  rewrite (decode_cdata_ok ty data) by assumption.
  rewrite <- (app_nil_r (j_crc_field crc)). rewrite jcrc_field_ok by assumption. reflexivity.
Qed.

(* ---------- the block list ---------- *)
Lemma jseq_loop_ok cs : Forall block_ok cs -> jseq_loop j_canonical_de (map j_canonical cs) = (Ok cs, []).
Proof.
  induction cs as [|c cs IH]; intros Hall; cbn [map jseq_loop]; [reflexivity|].
  inversion Hall as [|? ? [Hwf Hc] Hrest]; subst.
  rewrite j_canonical_ok by assumption. rewrite IH by assumption. reflexivity.
Qed.

Theorem from_tokens_j_bundle b : wf_bundle b = true -> crcs_filled b = true -> from_tokens (j_bundle b) = Ok b.
Proof.
  intros Hwf Hc. destruct b as [p cs]. unfold wf_bundle, crcs_filled in *. cbn [b_primary b_canonicals] in *.
  apply andb_true_iff in Hwf as [Hwp Hwc]. apply andb_true_iff in Hc as [Hcp Hcc].
  assert (Hall : Forall block_ok cs).
  { rewrite forallb_forall in Hwc, Hcc. apply Forall_forall. intros c Hin. split; [apply Hwc|apply Hcc]; assumption. }
  unfold from_tokens, j_bundle, j_seq, jbundle_body, jbundle_body_with. cbn [b_primary b_canonicals].
  jfld p ltac:(apply j_primary_ok; assumption).
  rewrite jseq_loop_ok by assumption. reflexivity.
Qed.

(* ---------- C15 ---------- *)
Theorem to_tokens_roundtrip b : wf_bundle b = true ->
  let '(t, b') := to_tokens b in
  from_tokens t = Ok b' /\ only_crc_changed b b' /\ crcs_filled b' = true.
Proof.
  intros H. unfold to_tokens. destruct (bundle_calc_facts b H) as (W & F & O & _).
  split; [apply from_tokens_j_bundle; assumption|split; assumption].
Qed.
(* the text form: what to_json prints is the print of the tokens that parse back *)
Theorem to_json_tokens b : to_json b = (print (fst (to_tokens b)), snd (to_tokens b)).
Proof. unfold to_json. destruct (to_tokens b). reflexivity. Qed.
(* serialising twice gives the same tokens (the CRCs are already in place) *)
Theorem to_tokens_idempotent b : wf_bundle b = true ->
  let '(t, b') := to_tokens b in to_tokens b' = (t, b').
Proof.
  intros H. unfold to_tokens. destruct (bundle_calc_facts b H) as (_ & _ & _ & I). rewrite I. reflexivity.
Qed.

(* ---------- the pinned tree (D12): every fragment's own JSON fails to parse back ---------- *)
Lemma jprimary_pinned_fragment p : wf_primary p = true -> crc_filled (p_crc p) = true ->
  has_fragmentation p = true ->
  exists e, j_seq (jprimary_body_with json_rest_pinned) (j_primary p) = Err e.
Proof.
  intros Hwf Hc Hfrag. unfold j_primary, j_seq, jprimary_body_with.
  destruct p as [ver flags crc dst src rpt t q life off len].
  unfold wf_primary in Hwf. cbn [p_version p_flags p_crc p_dst p_src p_rpt p_time p_seq p_lifetime p_frag_off p_total_len] in *.
  bools Hwf. nat_facts.
  assert (Hcode : crc_code crc < 256) by (destruct crc; cbn in *; try discriminate; unfold CRC_NO, CRC_16, CRC_32; lia).
  rewrite Hfrag. cbn [app].
  jfld ver ltac:(apply j_u32_ok; assumption).
  jfld flags ltac:(apply j_u64_ok; assumption).
  jfld (crc_code crc) ltac:(apply j_u8_ok; assumption).
  jfld dst ltac:(apply j_eid_ok; assumption).
  jfld src ltac:(apply j_eid_ok; assumption).
  jfld rpt ltac:(apply j_eid_ok; assumption).
  jfld (t, q) ltac:(apply j_pair_ok; assumption).
  jfld life ltac:(apply j_u64_ok; assumption).
  unfold json_rest_pinned. ground_N. unfold jcrc_field.
  destruct crc as [| | |b|b|code]; cbn [crc_filled] in Hc; try discriminate; cbn [crc_code];
    unfold CRC_NO, CRC_16, CRC_32; ground_N.
  - (* no CRC: the block is built, the two fragment fields are left over: trailing characters *)
    eexists. reflexivity.
  - (* CRC-16: the offset (a number) is offered to the byte-buffer deserializer *)
    eexists. reflexivity.
  - eexists. reflexivity.
Qed.
Theorem from_tokens_pinned_fragment_fails b : wf_bundle b = true ->
  has_fragmentation (b_primary b) = true ->
  exists e, from_tokens_pinned (fst (to_tokens b)) = Err e.
Proof.
  intros H Hfrag. unfold to_tokens. cbn [fst].
  destruct (bundle_calc_facts b H) as (W & F & O & _). cbv zeta in *.
  set (b' := bundle_calculate_crc b) in *.
  assert (Hfrag' : has_fragmentation (b_primary b') = true).
  { destruct O as [[Hs _] _]. unfold has_fragmentation in *.
    assert (E : p_flags (b_primary b') = p_flags (b_primary b)).
    { change (p_flags (b_primary b')) with (p_flags (set_p_crc (b_primary b') CrcNo)). rewrite <- Hs. reflexivity. }
    rewrite E. exact Hfrag. }
  destruct b' as [p cs]. unfold wf_bundle, crcs_filled in *. cbn [b_primary b_canonicals] in *.
  apply andb_true_iff in W as [Hwp _]. apply andb_true_iff in F as [Hcp _].
  destruct (jprimary_pinned_fragment p Hwp Hcp Hfrag') as [e He].
  unfold from_tokens_pinned, j_bundle, j_seq at 1, jbundle_body_with. cbn [b_primary b_canonicals].
  unfold jfield, jnext. rewrite He. cbn [rmap bind]. eexists. reflexivity.
Qed.
