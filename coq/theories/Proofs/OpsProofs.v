(* C08: update_extensions (model) returns false exactly when hop limit, bundle age or lifetime is exceeded,
   computed on mathematical integers, and otherwise changes exactly the three extension blocks. *)
From BP7 Require Import Base.Prelude Gen.Consts Model.Types Model.Validate Model.DtnTime Model.Ops Proofs.DecodeImage.

(* ---- specification side: the selected extension blocks and the arithmetic on unbounded N ---- *)
Definition sel_hop (b : bundle) : option (N * N) :=
  match ext_block_by_type HOP_COUNT_BLOCK (b_canonicals b) with
  | Some c => match c_data c with HopCount l k => Some (l, k) | _ => None end
  | None => None end.
Definition sel_age (b : bundle) : option N :=
  match ext_block_by_type BUNDLE_AGE_BLOCK (b_canonicals b) with
  | Some c => match c_data c with BundleAge a => Some a | _ => None end
  | None => None end.
Definition hop_exceeded_after (b : bundle) : Prop := exists l k, sel_hop b = Some (l, k) /\ l < k + 1.
Definition age_exceeded_after (rt : N) (b : bundle) : Prop := exists a, sel_age b = Some a /\ p_lifetime (b_primary b) < a + rt.
Definition expired (now : N) (b : bundle) : Prop :=
  p_time (b_primary b) <> 0 /\ p_time (b_primary b) + p_lifetime (b_primary b) <= now.

Definition bump_hop (c : canonical) : canonical :=
  match c_data c with HopCount l k => set_c_data c (HopCount l (k + 1)) | _ => c end.
Definition bump_age (rt : N) (c : canonical) : canonical :=
  match c_data c with BundleAge a => set_c_data c (BundleAge (a + rt)) | _ => c end.
Definition put_prev (node : eid) (c : canonical) : canonical :=
  match c_data c with PreviousNode _ => set_c_data c (PreviousNode node) | _ => c end.
(* the forwarded bundle: hop count + 1, age + residence time, previous node = node; everything else as before *)
Definition forwarded (node : eid) (rt : N) (b : bundle) : bundle :=
  mkbundle (b_primary b)
    (update_first (sel_type BUNDLE_AGE_BLOCK) (bump_age rt)
      (update_first (sel_type PREVIOUS_NODE_BLOCK) (put_prev node)
        (update_first (sel_type HOP_COUNT_BLOCK) bump_hop (b_canonicals b)))).

(* ---- lemmas about find / update_first ---- *)
Lemma find_update_other (s s' : canonical -> bool) f cs :
  (forall c, s' c = true -> s c = false /\ s (f c) = false) ->
  find s (update_first s' f cs) = find s cs.
Proof.
  intros Hd. induction cs as [|c cs IH]; [reflexivity|]. cbn [update_first find].
  destruct (s' c) eqn:E.
  - cbn [find]. destruct (Hd c E) as [-> ->]. reflexivity.
  - cbn [find]. rewrite IH. reflexivity.
Qed.
Lemma update_first_ext (s : canonical -> bool) f g cs :
  (forall c, s c = true -> f c = g c) -> update_first s f cs = update_first s g cs.
Proof.
  intros H. induction cs as [|c cs IH]; [reflexivity|]. cbn [update_first]. destruct (s c) eqn:E; [rewrite (H c E); reflexivity|rewrite IH; reflexivity].
Qed.
Lemma update_first_found (s : canonical -> bool) f cs c : find s cs = Some c ->
  forall g, (g c = f c) -> update_first s f cs = update_first s g cs.
Proof.
  intros Hfind g Hg. induction cs as [|x cs IH]; [reflexivity|]. cbn [find update_first] in *.
  destruct (s x) eqn:E; [inversion Hfind; subst; rewrite Hg; reflexivity|rewrite IH by assumption; reflexivity].
Qed.
Lemma update_first_none (s : canonical -> bool) f cs : find s cs = None -> update_first s f cs = cs.
Proof.
  induction cs as [|x cs IH]; [reflexivity|]. cbn [find update_first]. destruct (s x); [discriminate|]. intros H. rewrite IH by assumption. reflexivity.
Qed.
Lemma find_sel c t cs : find (sel_type t) cs = Some c -> c_type c = t /\ extension_valid c = true.
Proof. intros H. apply find_some in H as [_ H]. unfold sel_type in H. apply andb_true_iff in H as [H1 H2]. apply N.eqb_eq in H1. auto. Qed.

Lemma sel_set_data t c d : extension_valid (set_c_data c d) = extension_valid c -> sel_type t (set_c_data c d) = sel_type t c.
Proof. unfold sel_type. intros ->. destruct c; reflexivity. Qed.
Lemma sel_disjoint t t' c : t <> t' -> sel_type t' c = true -> sel_type t c = false.
Proof. unfold sel_type. intros Hne H. apply andb_true_iff in H as [H _]. apply N.eqb_eq in H. apply andb_false_iff. left. apply N.eqb_neq. congruence. Qed.

Lemma shape_in b c : decodable_shape b = true -> In c (b_canonicals b) -> dec_canonical c = true.
Proof. unfold decodable_shape. intros H Hin. apply andb_true_iff in H as [_ H]. rewrite forallb_forall in H. auto. Qed.

Definition hopx (b : bundle) : bool := match sel_hop b with Some (l, k) => l <? k + 1 | None => false end.
Definition agex (rt : N) (b : bundle) : bool := match sel_age b with Some a => p_lifetime (b_primary b) <? a + rt | None => false end.
Definition expx (now : N) (b : bundle) : bool :=
  negb (p_time (b_primary b) =? 0) && (p_time (b_primary b) + p_lifetime (b_primary b) <=? now).

Lemma hopx_iff b : hopx b = true <-> hop_exceeded_after b.
Proof. unfold hopx, hop_exceeded_after. destruct (sel_hop b) as [[l k]|]; [rewrite N.ltb_lt|]; split.
  - intros H. eauto. - intros (l' & k' & E & H). inversion E; subst. assumption.
  - discriminate. - intros (? & ? & E & _). discriminate. Qed.
Lemma agex_iff rt b : agex rt b = true <-> age_exceeded_after rt b.
Proof. unfold agex, age_exceeded_after. destruct (sel_age b) as [a|]; [rewrite N.ltb_lt|]; split.
  - intros H. eauto. - intros (a' & E & H). inversion E; subst. assumption.
  - discriminate. - intros (? & E & _). discriminate. Qed.
Lemma expx_iff now b : expx now b = true <-> expired now b.
Proof. unfold expx, expired. rewrite andb_true_iff, negb_true_iff, N.eqb_neq, N.leb_le. tauto. Qed.

(* selection of a typed block in a decoder-shaped block list determines the data variant *)
Lemma shape_hop c : dec_canonical c = true -> c_type c = HOP_COUNT_BLOCK -> exists l k, c_data c = HopCount l k /\ l < 256 /\ k < 256.
Proof.
  unfold dec_canonical. intros H Ht. repeat (apply andb_true_iff in H as [H ?]). unfold dec_data in *. rewrite Ht in *.
  destruct (c_data c); try discriminate; unfold HOP_COUNT_BLOCK, PAYLOAD_BLOCK, BUNDLE_AGE_BLOCK, PREVIOUS_NODE_BLOCK in *; try discriminate.
  repeat match goal with H : _ && _ = true |- _ => apply andb_true_iff in H as [H ?] end.
  repeat match goal with H : (_ <? _) = true |- _ => apply N.ltb_lt in H end. eauto.
Qed.
Lemma shape_age c : dec_canonical c = true -> c_type c = BUNDLE_AGE_BLOCK -> exists a, c_data c = BundleAge a /\ a < two64.
Proof.
  unfold dec_canonical. intros H Ht. repeat (apply andb_true_iff in H as [H ?]). unfold dec_data in *. rewrite Ht in *.
  destruct (c_data c); try discriminate; unfold HOP_COUNT_BLOCK, PAYLOAD_BLOCK, BUNDLE_AGE_BLOCK, PREVIOUS_NODE_BLOCK in *; try discriminate.
  repeat match goal with H : _ && _ = true |- _ => apply andb_true_iff in H as [H ?] end.
  repeat match goal with H : (_ <? _) = true |- _ => apply N.ltb_lt in H end. eauto.
Qed.
Lemma shape_prev c : dec_canonical c = true -> c_type c = PREVIOUS_NODE_BLOCK -> exists e, c_data c = PreviousNode e.
Proof.
  unfold dec_canonical. intros H Ht. repeat (apply andb_true_iff in H as [H ?]). unfold dec_data in *. rewrite Ht in *.
  destruct (c_data c); try discriminate; unfold HOP_COUNT_BLOCK, PAYLOAD_BLOCK, BUNDLE_AGE_BLOCK, PREVIOUS_NODE_BLOCK in *; try discriminate.
  eauto.
Qed.

Ltac ne_consts := let H := fresh in intro H; vm_compute in H; discriminate H.

Lemma ext_find t cs : ext_block_by_type t cs = find (sel_type t) cs.
Proof. reflexivity. Qed.

Lemma in_find (s : canonical -> bool) cs c : find s cs = Some c -> In c cs.
Proof. intros H. apply find_some in H. tauto. Qed.

Lemma sel_other_after_set t t' c d : t <> t' -> sel_type t' c = true ->
  sel_type t c = false /\ sel_type t (set_c_data c d) = false.
Proof.
  intros Hne H. unfold sel_type in *. apply andb_true_iff in H as [H _]. apply N.eqb_eq in H.
  destruct c as [ty num fl crc data]. cbn [c_type set_c_data] in *. subst ty.
  assert (t' =? t = false) as -> by (apply N.eqb_neq; congruence). split; reflexivity.
Qed.

Theorem update_extensions_spec m clock node rt b :
  decodable_shape b = true -> MS1970_TO2K <= clock -> rt < two128 ->
  exists b', update_extensions m clock node rt b
             = Ok (negb (hopx b || agex rt b || expx (clock - MS1970_TO2K) b), b')
     /\ (hopx b || agex rt b || expx (clock - MS1970_TO2K) b = false -> b' = forwarded node rt b).
Proof.
  intros Hs Hc Hrt. unfold update_extensions, forwarded.
  set (cs0 := b_canonicals b). set (p := b_primary b).
  assert (Hin : forall c, In c cs0 -> dec_canonical c = true) by (intros; eapply shape_in; eassumption).
  assert (Hlife : p_lifetime p < two64).
  { unfold decodable_shape in Hs. apply andb_true_iff in Hs as [Hp _]. unfold dec_primary in Hp.
    repeat (apply andb_true_iff in Hp as [Hp ?]). fold p in H1. apply N.ltb_lt. assumption. }
  rewrite !ext_find.
  (* --- hop count --- *)
  set (cs1 := update_first (sel_type HOP_COUNT_BLOCK) bump_hop cs0).
  assert (Hhop : exists hx,
            hopx b = hx /\
            (match find (sel_type HOP_COUNT_BLOCK) cs0 with
             | Some hc => match c_data hc with
                          | HopCount limit count =>
                            if count =? 255 then Some (true, cs0)
                            else Some (limit <? count + 1,
                                       update_first (sel_type HOP_COUNT_BLOCK) (fun c => set_c_data c (HopCount limit (count + 1))) cs0)
                          | _ => Some (false, cs0) end
             | None => Some (false, cs0) end) = Some (hx, if hx then (if match find (sel_type HOP_COUNT_BLOCK) cs0 with Some c => match c_data c with HopCount _ k => k =? 255 | _ => false end | None => false end then cs0 else cs1) else cs1)).
  { destruct (find (sel_type HOP_COUNT_BLOCK) cs0) as [hc|] eqn:Eh.
    - destruct (find_sel _ _ _ Eh) as [Ht _]. destruct (shape_hop hc (Hin _ (in_find _ _ _ Eh)) Ht) as (l & k & Ed & Hl & Hk).
      rewrite Ed. destruct (k =? 255) eqn:E255.
      + apply N.eqb_eq in E255. subst k. exists true.
        split; [unfold hopx, sel_hop; rewrite ext_find; fold cs0; rewrite Eh, Ed; apply N.ltb_lt; lia|reflexivity].
      + exists (l <? k + 1). split; [unfold hopx, sel_hop; rewrite ext_find; fold cs0; rewrite Eh, Ed; reflexivity|].
        assert (update_first (sel_type HOP_COUNT_BLOCK) (fun c => set_c_data c (HopCount l (k + 1))) cs0 = cs1) as ->.
        { unfold cs1. symmetry. eapply update_first_found; [exact Eh|]. unfold bump_hop. rewrite Ed. reflexivity. }
        destruct (l <? k + 1); reflexivity.
    - exists false. split; [unfold hopx, sel_hop; rewrite ext_find; fold cs0; rewrite Eh; reflexivity|].
      unfold cs1. rewrite update_first_none by assumption. reflexivity. }
  destruct Hhop as (hx & Hhx & Hstage). rewrite Hhx, Hstage. clear Hstage.
  destruct hx; cbn [orb negb]; cbv beta iota zeta; rewrite ?ext_find.
  { eexists. split; [reflexivity|intros Hx; cbn [orb] in Hx; discriminate Hx]. }
  (* --- previous node --- *)
  assert (Hf6 : find (sel_type PREVIOUS_NODE_BLOCK) cs1 = find (sel_type PREVIOUS_NODE_BLOCK) cs0).
  { unfold cs1. apply find_update_other. intros c Hc6. unfold bump_hop. destruct (c_data c); try (split; [|]; (eapply sel_disjoint; [|eassumption]; ne_consts)).
    eapply sel_other_after_set; [|eassumption]; ne_consts. }
  set (cs2 := update_first (sel_type PREVIOUS_NODE_BLOCK) (put_prev node) cs1).
  assert (Hprev : (match find (sel_type PREVIOUS_NODE_BLOCK) cs1 with
                   | Some pn => match c_data pn with
                                | PreviousNode _ => update_first (sel_type PREVIOUS_NODE_BLOCK) (fun c => set_c_data c (PreviousNode node)) cs1
                                | _ => cs1 end
                   | None => cs1 end) = cs2).
  { destruct (find (sel_type PREVIOUS_NODE_BLOCK) cs1) as [pn|] eqn:Ep.
    - assert (Ep0 : find (sel_type PREVIOUS_NODE_BLOCK) cs0 = Some pn) by (symmetry; exact Hf6).
      destruct (find_sel _ _ _ Ep0) as [Ht _].
      destruct (shape_prev pn (Hin _ (in_find _ _ _ Ep0)) Ht) as (e & Ed).
      rewrite Ed. unfold cs2. symmetry. eapply update_first_found; [exact Ep|]. unfold put_prev. rewrite Ed. reflexivity.
    - unfold cs2. rewrite update_first_none by assumption. reflexivity. }
  rewrite Hprev. clear Hprev.
  (* --- bundle age --- *)
  assert (Hf7 : find (sel_type BUNDLE_AGE_BLOCK) cs2 = find (sel_type BUNDLE_AGE_BLOCK) cs0).
  { unfold cs2. rewrite find_update_other.
    - unfold cs1. apply find_update_other. intros c Hc7. unfold bump_hop. destruct (c_data c); try (split; [|]; (eapply sel_disjoint; [|eassumption]; ne_consts)).
      eapply sel_other_after_set; [|eassumption]; ne_consts.
    - intros c Hc7. unfold put_prev. destruct (c_data c); try (split; [|]; (eapply sel_disjoint; [|eassumption]; ne_consts)).
      eapply sel_other_after_set; [|eassumption]; ne_consts. }
  rewrite Hf7.
  destruct (find (sel_type BUNDLE_AGE_BLOCK) cs0) as [ba|] eqn:Ea.
  - destruct (find_sel _ _ _ Ea) as [Ht _]. destruct (shape_age ba (Hin _ (in_find _ _ _ Ea)) Ht) as (a & Ed & Ha).
    rewrite Ed. cbn [fst snd].
    assert (Hagex : agex rt b = (p_lifetime p <? a + rt)) by (unfold agex, sel_age; rewrite ext_find; fold cs0 p; rewrite Ea, Ed; reflexivity).
    rewrite Hagex.
    assert (Hsat : (p_lifetime p <? sat_add128 a rt) = (p_lifetime p <? a + rt)).
    { unfold sat_add128. destruct (a + rt <? two128) eqn:E; [reflexivity|]. apply N.ltb_ge in E.
      unfold two128, two64 in *. transitivity true; [|symmetry]; apply N.ltb_lt; lia. }
    rewrite Hsat. destruct (p_lifetime p <? a + rt) eqn:Eax; cbn [orb negb].
    + eexists. split; [reflexivity|intros Hx; cbn [orb] in Hx; discriminate Hx].
    + apply N.ltb_ge in Eax.
      assert (Hna : sat_u64 (sat_add128 a rt) = a + rt).
      { unfold sat_add128, sat_u64. assert (a + rt <? two128 = true) as -> by (apply N.ltb_lt; unfold two128, two64 in *; lia).
        assert (a + rt <? two64 = true) as -> by (apply N.ltb_lt; lia). reflexivity. }
      rewrite Hna.
      assert (Hcs3 : update_first (sel_type BUNDLE_AGE_BLOCK) (fun c => set_c_data c (BundleAge (a + rt))) cs2
                     = update_first (sel_type BUNDLE_AGE_BLOCK) (bump_age rt) cs2).
      { symmetry. eapply update_first_found; [exact Hf7|]. unfold bump_age. rewrite Ed. reflexivity. }
      rewrite Hcs3.
      unfold is_lifetime_exceeded, expx. fold p.
      destruct (p_time p =? 0) eqn:Et; cbn [negb andb bind].
      * eexists. split; [reflexivity|]. intros _. reflexivity.
      * unfold now, sub64. assert (MS1970_TO2K <=? clock = true) as -> by (apply N.leb_le; assumption). cbn [bind].
        eexists. split; [reflexivity|]. intros _. reflexivity.
  - cbn [fst snd orb].
    assert (Hagex : agex rt b = false) by (unfold agex, sel_age; rewrite ext_find; fold cs0; rewrite Ea; reflexivity).
    rewrite Hagex. cbn [orb].
    assert (Hcs3 : cs2 = update_first (sel_type BUNDLE_AGE_BLOCK) (bump_age rt) cs2).
    { rewrite update_first_none; [reflexivity|]. exact Hf7. }
    unfold is_lifetime_exceeded, expx. fold p.
    destruct (p_time p =? 0) eqn:Et; cbn [negb andb bind].
    + eexists. split; [reflexivity|]. intros _. rewrite <- Hcs3. reflexivity.
    + unfold now, sub64. assert (MS1970_TO2K <=? clock = true) as -> by (apply N.leb_le; assumption). cbn [bind].
      eexists. split; [reflexivity|]. intros _. rewrite <- Hcs3. reflexivity.
Qed.

Theorem update_exact m clock node rt b :
  decodable_shape b = true -> MS1970_TO2K <= clock -> rt < two128 ->
  exists r b', update_extensions m clock node rt b = Ok (r, b') /\
    (r = false <-> hop_exceeded_after b \/ age_exceeded_after rt b \/ expired (clock - MS1970_TO2K) b) /\
    (r = true -> b' = forwarded node rt b).
Proof.
  intros Hs Hc Hrt. destruct (update_extensions_spec m clock node rt b Hs Hc Hrt) as (b' & Hu & Hb).
  eexists. exists b'. split; [exact Hu|]. split.
  - rewrite negb_false_iff, !orb_true_iff, hopx_iff, agex_iff, expx_iff. tauto.
  - intros Hr. apply negb_true_iff in Hr. auto.
Qed.

(* frame: only block data changes, and only in blocks of the three extension types *)
Definition only_data_differs (c c' : canonical) : Prop :=
  c_type c' = c_type c /\ c_num c' = c_num c /\ c_flags c' = c_flags c /\ c_crc c' = c_crc c
  /\ (c_data c' = c_data c \/ c_type c = HOP_COUNT_BLOCK \/ c_type c = BUNDLE_AGE_BLOCK \/ c_type c = PREVIOUS_NODE_BLOCK).
Lemma only_data_refl c : only_data_differs c c.
Proof. unfold only_data_differs. tauto. Qed.
Lemma only_data_trans a b c : only_data_differs a b -> only_data_differs b c -> only_data_differs a c.
Proof.
  unfold only_data_differs. intros (H1 & H2 & H3 & H4 & H5) (G1 & G2 & G3 & G4 & G5).
  repeat split; try congruence. rewrite H1 in G5. destruct H5 as [H5|H5]; [|tauto]. destruct G5 as [G5|G5]; [left; congruence|tauto].
Qed.
Lemma update_first_frame t f cs :
  (forall c, sel_type t c = true -> only_data_differs c (f c)) ->
  Forall2 only_data_differs cs (update_first (sel_type t) f cs).
Proof.
  intros H. induction cs as [|c cs IH]; cbn [update_first]; [constructor|].
  destruct (sel_type t c) eqn:E.
  - constructor; [apply H; assumption|]. clear. induction cs; constructor; [apply only_data_refl|assumption].
  - constructor; [apply only_data_refl|assumption].
Qed.
Lemma Forall2_trans_odd l1 l2 l3 : Forall2 only_data_differs l1 l2 -> Forall2 only_data_differs l2 l3 -> Forall2 only_data_differs l1 l3.
Proof.
  intros H. revert l3. induction H; intros l3 G; inversion G; subst; constructor; [eapply only_data_trans; eassumption|auto].
Qed.
Lemma sel_type_eq t c : sel_type t c = true -> c_type c = t.
Proof. unfold sel_type. intros H. apply andb_true_iff in H as [H _]. apply N.eqb_eq. assumption. Qed.

Theorem forwarded_frame node rt b :
  b_primary (forwarded node rt b) = b_primary b /\
  Forall2 only_data_differs (b_canonicals b) (b_canonicals (forwarded node rt b)).
Proof.
  split; [reflexivity|]. unfold forwarded. cbn [b_canonicals].
  eapply Forall2_trans_odd; [|apply update_first_frame].
  eapply Forall2_trans_odd; [|apply update_first_frame].
  apply update_first_frame.
  - intros c Hc. apply sel_type_eq in Hc. unfold bump_hop. destruct (c_data c) eqn:E; try apply only_data_refl.
    destruct c; unfold only_data_differs; cbn in *; tauto.
  - intros c Hc. apply sel_type_eq in Hc. unfold put_prev. destruct (c_data c) eqn:E; try apply only_data_refl.
    destruct c; unfold only_data_differs; cbn in *; tauto.
  - intros c Hc. apply sel_type_eq in Hc. unfold bump_age. destruct (c_data c) eqn:E; try apply only_data_refl.
    destruct c; unfold only_data_differs; cbn in *; tauto.
Qed.

Definition fmap_fst {A B} (r : res (A * B)) : res A := rmap fst r.
