(* C05, "an uncorrupted bundle always passes the check" for what a forwarding node emits: a received bundle - whatever CRC values its
   blocks arrived with - gets a new payload (set_payload) and a new lifetime, and to_cbor's output passes the CRC check in memory and
   after decoding.  (Model/Ops.v reenc; REENC lines of the K-corrupt channel.) *)
From BP7 Require Import Base.Prelude Gen.Consts Cbor.Item Spec.CrcSpec.
From BP7 Require Import Model.Types Model.Encode Model.Decode Model.Wf Model.Validate Model.Ops.
From BP7 Require Import Proofs.CodecProofs Proofs.CorruptionProofs.

Lemma wf_primary_lifetime p l : wf_primary p = true -> l < two64 -> wf_primary (set_p_lifetime p l) = true.
Proof.
  intros H Hl. destruct p as [ver flags crc dst src rpt t q life off len]. unfold wf_primary, set_p_lifetime, has_fragmentation in *.
  cbn [p_version p_flags p_crc p_dst p_src p_rpt p_time p_seq p_lifetime p_frag_off p_total_len] in *.
  apply N.ltb_lt in Hl. bools H. rewrite H, H10, H9, H8, H7, H6, H5, H4, Hl, H2, H1, H0. reflexivity.
Qed.

Lemma wf_update_first sel f cs : forallb wf_canonical cs = true ->
  (forall c, sel c = true -> wf_canonical c = true -> wf_canonical (f c) = true) ->
  forallb wf_canonical (update_first sel f cs) = true.
Proof.
  intros H Hf. induction cs as [|c cs IH]; [reflexivity|]. cbn [forallb] in H. apply andb_true_iff in H as [Hc Hcs].
  cbn [update_first]. destruct (sel c) eqn:E; cbn [forallb].
  - rewrite (Hf c E Hc), Hcs. reflexivity.
  - rewrite Hc, (IH Hcs). reflexivity.
Qed.

Lemma wf_set_payload_data c d : sel_type PAYLOAD_BLOCK c = true -> Nlen d < two64 -> wf_canonical c = true ->
  wf_canonical (set_c_data c (Data d)) = true.
Proof.
  intros Hs Hd H. unfold sel_type in Hs. apply andb_true_iff in Hs as [Ht _].
  destruct c as [ty num fl crc data]. unfold wf_canonical, set_c_data in *. cbn [c_type c_num c_flags c_crc c_data] in *.
  bools H. rewrite H, H3, H2, H1. cbn [wf_data]. rewrite Ht. apply N.ltb_lt in Hd. rewrite Hd. reflexivity.
Qed.

(* the bundle carries a payload block the library finds (the case of every bundle that validates; without one set_payload goes through
   add_canonical_block, which is C11's subject) *)
Theorem wf_reenc b d l : wf_bundle b = true -> ext_block_by_type PAYLOAD_BLOCK (b_canonicals b) <> None ->
  Nlen d < two64 -> l < two64 -> wf_bundle (reenc b d l) = true.
Proof.
  intros H Hp Hd Hl. unfold reenc, set_payload. destruct (ext_block_by_type PAYLOAD_BLOCK (b_canonicals b)) as [c|]; [|congruence].
  unfold wf_bundle in *. cbn [b_primary b_canonicals]. apply andb_true_iff in H as [H1 H2].
  rewrite (wf_primary_lifetime _ _ H1 Hl). cbn [andb].
  apply wf_update_first; [exact H2|]. intros c0 Hs Hw. apply wf_set_payload_data; assumption.
Qed.

Theorem reencoded_passes b d l : wf_bundle b = true -> ext_block_by_type PAYLOAD_BLOCK (b_canonicals b) <> None ->
  Nlen d < two64 -> l < two64 ->
  exists b', from_cbor (fst (to_cbor (reenc b d l))) = Ok b' /\ b' = snd (to_cbor (reenc b d l)) /\ crc_valid b' = true.
Proof. intros H Hp Hd Hl. apply uncorrupted_passes. apply wf_reenc; assumption. Qed.
