(* C13, the clause "a status report's reference to a bundle equals that bundle's ID", for reports that come off the wire:
   a normal-form status report about a bundle b (a fragment or not) - encoded by the reporting node, decoded by the receiver through
   the size_hint-branching visitors - prints, as refbundle(), exactly Bundle::id() of b.  Composition of the record round trip
   (Proofs/AdminProofs.v) with the two textual forms of Model/BundleId.v. *)
From BP7 Require Import Base.Prelude Gen.Consts Model.Types Model.AdminRecord Model.BundleId Proofs.AdminProofs.

(* the fields of a StatusReport that refbundle() reads *)
Definition sr_view (sr : status_report) : id_status_report :=
  mk_id_sr (sr_src sr) (sr_time sr) (sr_seq sr) (sr_frag_off sr) (sr_frag_len sr).

(* sr is a report about bundle b: source and creation timestamp copied; for a fragment its offset and a non-zero length, otherwise
   no fragment fields *)
Definition reports_about (sr : status_report) (b : bundle) : Prop :=
  let p := b_primary b in
  sr_src sr = p_src p /\ sr_time sr = p_time p /\ sr_seq sr = p_seq p /\
  (if has_fragmentation p then sr_frag_off sr = p_frag_off p /\ 0 < sr_frag_len sr else sr_frag_len sr = 0).

Theorem received_report_refers sr b : nf_report sr = true -> reports_about sr b ->
  exists sr', admin_from_bytes (enc_admin_record (BundleStatusReport sr)) = Ok (BundleStatusReport sr')
              /\ id_refbundle (sr_view sr') = bundle_id b.
Proof.
  intros Hnf (Hs & Ht & Hq & Hf). exists sr. split.
  - apply record_roundtrip. exact Hnf.
  - unfold id_refbundle, bundle_id, sr_view. cbn [id_sr_source id_sr_time id_sr_seq id_sr_frag_offset id_sr_frag_len].
    rewrite Hs, Ht, Hq. destruct (has_fragmentation (b_primary b)).
    + destruct Hf as (Ho & Hl). apply N.ltb_lt in Hl. rewrite Hl, Ho. reflexivity.
    + rewrite Hf. reflexivity.
Qed.
