(* C16: the model of security.rs (Model/Security.v) against the RFC 9173 / RFC 9172 specification (Spec/Rfc9173.v).
     ippt_create_general / ippt_create_spec   IPPT = RFC 9173 3.7 concatenation
     compute_hmac_shape (Section, hash abstract) / compute_hmac_sha2   result = one (1, HMAC) pair per IPPT entry
     asb_layout / bib_pipeline                ASB bytes = ser of the RFC 9172 3.6 items
     ippt_spec_injective / ippt_injective_target   unique decodability of the IPPT *)
From BP7 Require Import Base.Prelude Base.Utf8 Gen.Consts Cbor.Item Cbor.SerdeDe Spec.CrcSpec Spec.Rfc9171 Spec.Rfc9173.
From BP7 Require Import Model.Types Model.Encode Model.Decode Model.Wf Model.Hmac Model.Security.
From BP7 Require Import Proofs.CborLemmas Proofs.CodecProofs Proofs.SpecProofs.

(* ---------- scope flags: bitflags `contains` after from_bits_truncate = the RFC's bit test ---------- *)
Lemma land_pow2_eqb w i : (N.land w (2 ^ i) =? 2 ^ i) = N.testbit w i.
Proof.
  destruct (N.testbit w i) eqn:E.
  - apply N.eqb_eq. apply N.bits_inj. intros j. rewrite N.land_spec, N.pow2_bits_eqb.
    destruct (N.eqb_spec i j) as [<-|Hij]; [rewrite E; reflexivity|apply andb_false_r].
  - apply N.eqb_neq. intros H. apply (f_equal (fun x => N.testbit x i)) in H.
    rewrite N.land_spec, E, N.pow2_bits_true in H. discriminate.
Qed.
Lemma scope_flag_primary w : scope_flag w INTEGRITY_PRIMARY_HEADER = scope_primary w.
Proof.
  unfold scope_flag, has_bits, scope_primary. rewrite <- N.land_assoc.
  change (N.land INTEGRITY_ALL_BITS INTEGRITY_PRIMARY_HEADER) with (2 ^ 0).
  change INTEGRITY_PRIMARY_HEADER with (2 ^ 0). apply land_pow2_eqb.
Qed.
Lemma scope_flag_target w : scope_flag w INTEGRITY_PAYLOAD_HEADER = scope_target_header w.
Proof.
  unfold scope_flag, has_bits, scope_target_header. rewrite <- N.land_assoc.
  change (N.land INTEGRITY_ALL_BITS INTEGRITY_PAYLOAD_HEADER) with (2 ^ 1).
  change INTEGRITY_PAYLOAD_HEADER with (2 ^ 1). apply land_pow2_eqb.
Qed.
Lemma scope_flag_security w : scope_flag w INTEGRITY_SECURITY_HEADER = scope_security_header w.
Proof.
  unfold scope_flag, has_bits, scope_security_header. rewrite <- N.land_assoc.
  change (N.land INTEGRITY_ALL_BITS INTEGRITY_SECURITY_HEADER) with (2 ^ 2).
  change INTEGRITY_SECURITY_HEADER with (2 ^ 2). apply land_pow2_eqb.
Qed.
Lemma scope_flags_small flags : flags < 8 -> scope_flags_canonical flags = flags.
Proof.
  intros H. unfold scope_flags_canonical. change 7 with (N.ones 3). rewrite N.land_ones.
  apply N.mod_small. exact H.
Qed.

(* ---------- the pieces ---------- *)
Lemma enc_primary_nocrc p : p_crc p = CrcNo -> enc_primary p = ser (primary_item p).
Proof.
  intros H. rewrite enc_primary_ser. unfold primary_item, crc_items. rewrite H. cbn [has_crc crc_code].
  unfold with_crc. change (CRC_NO =? 1) with false. change (CRC_NO =? 2) with false. cbv iota.
  rewrite app_nil_r. reflexivity.
Qed.
Lemma target_contents_ser d : target_contents d = ser (BStr (data_bytes d)).
Proof.
  rewrite data_bytes_raw. destruct d; cbn [target_contents raw_of enc_cdata ser]; reflexivity.
Qed.
Lemma enc_header3_ser t n f : enc_header3 t n f = concat (map ser (header_items (mkhdr t n f))).
Proof.
  unfold enc_header3, header_items, enc_uint. cbn [map concat ser h_type h_num h_flags].
  rewrite app_nil_r. reflexivity.
Qed.

Definition hdr_of (h : sec_header) : block_header := mkhdr (sh_type h) (sh_num h) (sh_flags h).

(* every scope-flag word: the optional parts and the target data are the RFC's; the leading integer is the RAW word
   (the RFC wants the unassigned bits cleared: they agree exactly when flags < 8) *)
Theorem ippt_create_general flags pb target sh : p_crc pb = CrcNo ->
  ippt_create flags (Some pb) (Some sh) target =
  ser (UInt flags) ++ concat (map ser (ippt_rest_items flags pb target (hdr_of sh))).
Proof.
  intros Hc. unfold ippt_create, ippt_optional, ippt_rest_items.
  rewrite scope_flag_primary, scope_flag_target, scope_flag_security.
  rewrite (enc_primary_nocrc pb Hc), target_contents_ser, !enc_header3_ser.
  unfold enc_uint, hdr_of, header_of. cbn [ser]. f_equal.
  rewrite !map_app, !concat_app.
  destruct (scope_primary flags), (scope_target_header flags), (scope_security_header flags);
    cbn [map concat app]; rewrite ?app_nil_r, <- ?app_assoc; reflexivity.
Qed.
Theorem ippt_create_spec flags pb target sh : flags < 8 -> p_crc pb = CrcNo ->
  ippt_create flags (Some pb) (Some sh) target = ippt_spec flags pb target (hdr_of sh).
Proof.
  intros Hf Hc. rewrite ippt_create_general by exact Hc.
  unfold ippt_spec, ippt_items. rewrite scope_flags_small by exact Hf. reflexivity.
Qed.
(* a part whose flag is clear is not needed at all (None is as good as Some) *)
Theorem ippt_create_unselected flags pb sh target :
  scope_primary flags = false -> scope_security_header flags = false ->
  ippt_create flags pb sh target = ippt_create flags None None target.
Proof.
  intros H0 H2. unfold ippt_create, ippt_optional.
  rewrite scope_flag_primary, scope_flag_security, H0, H2. reflexivity.
Qed.

(* ---------- compute_hmac: parametric in the keyed hash ---------- *)
(* the loop reads the block only through its targets and parameters: the results it carries are irrelevant *)
Lemma sha_variant_of_set ib r : sha_variant_of (set_ib_results ib r) = sha_variant_of ib.
Proof. reflexivity. Qed.
Lemma hmac_loop_results_irrelevant mac ib r key : forall ippts acc,
  hmac_loop mac (set_ib_results ib r) key ippts acc = hmac_loop mac ib key ippts acc.
Proof.
  induction ippts as [|[num ippt] rest IH]; intros acc; cbn [hmac_loop]; [reflexivity|].
  cbn [set_ib_results ib_targets]. destruct (memN num (ib_targets ib)); [|apply IH].
  unfold hmac_result. rewrite sha_variant_of_set.
  destruct (sha_variant_of ib) as [v| |]; cbn [bind]; try reflexivity.
  destruct (mac v key ippt); cbn [bind]; [apply IH|reflexivity].
Qed.
(* compute_hmac = reset, then the loop from the empty list *)
Lemma compute_hmac_with_unfold mac key ippts ib :
  compute_hmac_with mac key ippts ib = (do rs <- hmac_loop mac ib key ippts []; Ok (set_ib_results ib rs)).
Proof.
  unfold compute_hmac_with, reset_results. cbv zeta. cbn [ib_results set_ib_results].
  rewrite hmac_loop_results_irrelevant. reflexivity.
Qed.
(* signing a block that already carries results (signed before, built with results, decoded) = signing the fresh block *)
Theorem compute_hmac_ignores_results mac key ippts ib r :
  compute_hmac_with mac key ippts (set_ib_results ib r) = compute_hmac_with mac key ippts ib.
Proof.
  rewrite !compute_hmac_with_unfold, hmac_loop_results_irrelevant. reflexivity.
Qed.
Theorem compute_hmac_resign mac k1 k2 ippts1 ippts2 ib ib1 :
  compute_hmac_with mac k1 ippts1 ib = Ok ib1 ->
  compute_hmac_with mac k2 ippts2 ib1 = compute_hmac_with mac k2 ippts2 ib.
Proof.
  rewrite compute_hmac_with_unfold. destruct (hmac_loop mac ib k1 ippts1 []) as [rs| |]; cbn [bind]; try discriminate.
  intros H. inversion H. apply compute_hmac_ignores_results.
Qed.
Section ResultShape.
  Variable mac : N -> list byte -> list byte -> option (list byte).
  Variable h : list byte -> list byte.        (* the MAC function selected by the variant, for the given key *)
  Variable key : list byte.
  Variable v : N.
  Hypothesis mac_selected : forall m, mac v key m = Some (h m).

  Definition selected (ib : integrity_block) (nm : N * list byte) : bool := memN (fst nm) (ib_targets ib).
  Definition result_of (nm : N * list byte) : list sec_result := [(BIB_HMAC_SHA2_RESULT_ID, h (snd nm))].

  Lemma hmac_loop_shape ib : sha_variant_of ib = Ok v -> forall ippts acc,
    hmac_loop mac ib key ippts acc = Ok (acc ++ map result_of (filter (selected ib) ippts)).
  Proof.
    intros Hv. induction ippts as [|[num ippt] rest IH]; intros acc; cbn [hmac_loop filter map].
    - rewrite app_nil_r. reflexivity.
    - unfold selected at 1. cbn [fst]. destruct (memN num (ib_targets ib)).
      + unfold hmac_result. rewrite Hv. cbn [bind]. rewrite mac_selected. cbn [bind].
        rewrite IH. cbn [map]. rewrite <- app_assoc. reflexivity.
      + apply IH.
  Qed.
  Theorem compute_hmac_shape ib ippts : sha_variant_of ib = Ok v ->
    compute_hmac_with mac key ippts ib = Ok (set_ib_results ib (map result_of (filter (selected ib) ippts))).
  Proof.
    intros Hv. rewrite compute_hmac_with_unfold, (hmac_loop_shape ib Hv). reflexivity.
  Qed.
  Lemma filter_all ib ippts : (forall nm, In nm ippts -> In (fst nm) (ib_targets ib)) -> filter (selected ib) ippts = ippts.
  Proof.
    induction ippts as [|nm rest IH]; intros H; [reflexivity|]. cbn [filter].
    assert (E : selected ib nm = true) by (apply memN_In, H; left; reflexivity).
    rewrite E, IH; [reflexivity|]. intros x Hx. apply H. right. exact Hx.
  Qed.
End ResultShape.

(* the three supported variants, concretely *)
Definition sha2_mac (v : N) : list byte -> list byte -> list byte :=
  if v =? HMAC_SHA_256 then hmac_sha256 else if v =? HMAC_SHA_384 then hmac_sha384 else hmac_sha512.
Lemma hmac_sha2_supported v key m : v = HMAC_SHA_256 \/ v = HMAC_SHA_384 \/ v = HMAC_SHA_512 ->
  hmac_sha2 v key m = Some (sha2_mac v key m).
Proof. intros [->|[->| ->]]; reflexivity. Qed.

Lemma sha_variant_of_ok ib ps pid v : ib_params ib = Some ps -> bp_sha ps = Some (pid, v) -> sha_variant_of ib = Ok v.
Proof. intros H1 H2. unfold sha_variant_of. rewrite H1, H2. reflexivity. Qed.

Theorem compute_hmac_sha2 key v pid ps ib ippts :
  ib_params ib = Some ps -> bp_sha ps = Some (pid, v) ->
  v = HMAC_SHA_256 \/ v = HMAC_SHA_384 \/ v = HMAC_SHA_512 ->
  (forall nm, In nm ippts -> In (fst nm) (ib_targets ib)) ->
  compute_hmac key ippts ib =
    Ok (set_ib_results ib (map (fun nm => [(RESULT_EXPECTED_HMAC, sha2_mac v key (snd nm))]) ippts)).
Proof.
  intros Hp Hs Hv Hin. unfold compute_hmac.
  rewrite (compute_hmac_shape hmac_sha2 (sha2_mac v key) key v (fun m => hmac_sha2_supported v key m Hv) ib ippts
             (sha_variant_of_ok ib ps pid v Hp Hs)).
  rewrite filter_all by exact Hin. reflexivity.
Qed.
(* what the code does outside the supported variants / without the parameter: it panics as soon as one IPPT is selected *)
Theorem compute_hmac_unsupported key v pid ps ib num ippt rest :
  ib_params ib = Some ps -> bp_sha ps = Some (pid, v) ->
  v <> HMAC_SHA_256 -> v <> HMAC_SHA_384 -> v <> HMAC_SHA_512 -> In num (ib_targets ib) ->
  compute_hmac key ((num, ippt) :: rest) ib = Panic PUnimplemented.
Proof.
  intros Hp Hs H5 H6 H7 Hin. unfold compute_hmac. rewrite compute_hmac_with_unfold. cbn [hmac_loop].
  apply memN_In in Hin. rewrite Hin. unfold hmac_result. rewrite (sha_variant_of_ok ib ps pid v Hp Hs). cbn [bind].
  assert (E : hmac_sha2 v key ippt = None) by (apply hmac_sha2_none; auto).
  rewrite E. reflexivity.
Qed.
Theorem compute_hmac_no_variant key ps ib num ippt rest :
  ib_params ib = Some ps -> bp_sha ps = None -> In num (ib_targets ib) ->
  compute_hmac key ((num, ippt) :: rest) ib = Panic PUnwrap.
Proof.
  intros Hp Hs Hin. unfold compute_hmac. rewrite compute_hmac_with_unfold. cbn [hmac_loop].
  apply memN_In in Hin. rewrite Hin. unfold hmac_result, sha_variant_of. rewrite Hp, Hs. reflexivity.
Qed.

(* ---------- abstract security block ---------- *)
Definition params_items (ps : bib_params) : list id_value :=
  (match bp_sha ps with Some (i, v) => [(i, UInt v)] | None => [] end) ++
  (match bp_wrapped_key ps with Some (i, k) => [(i, BStr k)] | None => [] end) ++
  (match bp_scope ps with Some (i, v) => [(i, UInt v)] | None => [] end).
Definition result_set (r : sec_result) : list id_value := [(fst r, BStr (snd r))].
Definition asb_of (ib : integrity_block) (ps : bib_params) (rs : list sec_result) : asb :=
  mkasb (ib_targets ib) (ib_ctx_id ib) (ib_ctx_flags ib) (ib_source ib) (params_items ps) (map result_set rs).

Lemma concat_map_ser_uint ts : concat (map ser (map UInt ts)) = concat (map enc_uint ts).
Proof. rewrite map_map. reflexivity. Qed.
Lemma enc_targets_ser ts : enc_targets ts = ser (Arr (map UInt ts)).
Proof. rewrite ser_arr. unfold enc_targets, enc_arr, Nlen. rewrite map_length, concat_map_ser_uint. reflexivity. Qed.
Lemma enc_bib_params_ser ps : enc_bib_params ps = ser (Arr (map pair_item (params_items ps))).
Proof.
  rewrite ser_arr. unfold enc_bib_params, bib_params_count, params_items, enc_arr, enc_uint, enc_bytes, Nlen.
  destruct (bp_sha ps) as [[i1 v1]|], (bp_wrapped_key ps) as [[i2 k2]|], (bp_scope ps) as [[i3 v3]|];
    cbn [app map concat ser pair_item fst snd length]; unfold Nlen; cbn [length];
    rewrite ?app_nil_r, <- ?app_assoc; reflexivity.
Qed.
Lemma enc_results_ser rs : enc_results rs = ser (Arr (map (fun set => Arr (map pair_item set)) (map result_set rs))).
Proof.
  rewrite ser_arr. unfold enc_results, enc_arr, Nlen. rewrite !map_length. f_equal.
  induction rs as [|[i m] rs IH]; [reflexivity|].
  cbn [map concat]. rewrite IH. f_equal.
  unfold enc_result, result_set, enc_arr, enc_uint, enc_bytes, Nlen.
  cbn [map concat ser pair_item fst snd length]. unfold Nlen. cbn [length].
  rewrite ?app_nil_r, <- ?app_assoc. reflexivity.
Qed.

(* consistent block: parameters given and the "parameters present" bit set *)
Theorem asb_layout ib ps rs :
  ib_params ib = Some ps -> params_present (ib_ctx_flags ib) = true ->
  asb_results (length (ib_targets ib)) (ib_results ib) = Ok rs ->
  asb_to_cbor ib = Ok (asb_bytes (asb_of ib ps rs)).
Proof.
  intros Hp Hf Hr. unfold asb_to_cbor. rewrite Hr. cbn [bind]. f_equal.
  unfold asb_bytes, asb_items, asb_of.
  cbn [asb_targets asb_ctx_id asb_ctx_flags asb_source asb_params asb_results]. rewrite Hf.
  rewrite Hp. cbn [enc_opt_params].
  rewrite enc_targets_ser, enc_bib_params_ser, enc_results_ser, <- ser_eid_item.
  unfold enc_uint. cbn [app map concat ser]. rewrite ?app_nil_r, <- ?app_assoc. reflexivity.
Qed.

(* one result per target is exactly what to_cbor reads back *)
Lemma asb_results_singletons (f : N * list byte -> sec_result) ippts :
  asb_results (length ippts) (map (fun nm => [f nm]) ippts) = Ok (map f ippts).
Proof.
  induction ippts as [|nm rest IH]; [reflexivity|]. cbn [length map asb_results]. rewrite IH. reflexivity.
Qed.

(* IPPTs -> results -> ASB: one IPPT per target, in target order *)
Theorem bib_pipeline key v pid ps ib ippts :
  ib_params ib = Some ps -> bp_sha ps = Some (pid, v) ->
  v = HMAC_SHA_256 \/ v = HMAC_SHA_384 \/ v = HMAC_SHA_512 ->
  map fst ippts = ib_targets ib -> params_present (ib_ctx_flags ib) = true ->
  exists ib', compute_hmac key ippts ib = Ok ib' /\
    ib_results ib' = map (fun nm => [(RESULT_EXPECTED_HMAC, sha2_mac v key (snd nm))]) ippts /\
    asb_to_cbor ib' = Ok (asb_bytes (mkasb (ib_targets ib) (ib_ctx_id ib) (ib_ctx_flags ib) (ib_source ib) (params_items ps)
                                          (map (fun nm => hmac_result_set (sha2_mac v key (snd nm))) ippts))).
Proof.
  intros Hp Hs Hv Ht Hf.
  assert (Hin : forall nm, In nm ippts -> In (fst nm) (ib_targets ib)).
  { intros nm H. rewrite <- Ht. apply in_map. exact H. }
  eexists. split; [apply (compute_hmac_sha2 key v pid ps ib ippts Hp Hs Hv Hin)|]. split; [reflexivity|].
  set (f := fun nm : N * list byte => (RESULT_EXPECTED_HMAC, sha2_mac v key (snd nm))).
  erewrite asb_layout with (ps := ps) (rs := map f ippts); [|exact Hp|exact Hf|].
  - unfold asb_of. cbn [ib_targets ib_ctx_id ib_ctx_flags ib_source set_ib_results]. rewrite map_map. reflexivity.
  - cbn [ib_targets ib_results set_ib_results]. rewrite <- Ht, map_length.
    apply (asb_results_singletons f).
Qed.

(* the BIB as a canonical block: type 11, no CRC, the ASB as opaque data; its encoding is the RFC 9171 block *)
Lemma new_integrity_block_spec num fl a : new_integrity_block num fl (asb_bytes a) = bib_block num fl CrcNo a.
Proof. reflexivity. Qed.
Lemma enc_integrity_block num fl sb : enc_canonical (new_integrity_block num fl sb) = ser (canonical_item (new_integrity_block num fl sb)).
Proof.
  rewrite enc_canonical_ser. unfold canonical_item, crc_items, new_integrity_block. cbn [c_crc has_crc crc_code].
  unfold with_crc. change (CRC_NO =? 1) with false. change (CRC_NO =? 2) with false. cbv iota. rewrite app_nil_r. reflexivity.
Qed.

(* ---------- unique decodability of the IPPT ---------- *)
Lemma head_inj m n n' x y : m < 8 -> n < two64 -> n' < two64 -> head m n ++ x = head m n' ++ y -> n = n' /\ x = y.
Proof.
  intros Hm Hn Hn' H.
  destruct (head_spec m n x 0 Hm Hn) as (b & r0 & ai & Hh & _ & Hai & _ & Harg).
  destruct (head_spec m n' y 0 Hm Hn') as (b' & r0' & ai' & Hh' & _ & Hai' & _ & Harg').
  rewrite Hh, Hh' in H. inversion H; subst b' r0'. rewrite Hai in Hai'. subst ai'.
  rewrite Harg in Harg'. inversion Harg'. split; reflexivity.
Qed.
Lemma uint_inj n n' x y : n < two64 -> n' < two64 -> ser (UInt n) ++ x = ser (UInt n') ++ y -> n = n' /\ x = y.
Proof. intros Hn Hn'. cbn [ser]. apply head_inj; [lia|assumption|assumption]. Qed.
Lemma app_same_length {A} (a a' x y : list A) : length a = length a' -> a ++ x = a' ++ y -> a = a' /\ x = y.
Proof.
  revert a'. induction a as [|c a IH]; intros [|c' a'] Hl H; cbn [length] in Hl; try discriminate.
  - split; [reflexivity|exact H].
  - cbn [app] in H. inversion H; subst. destruct (IH a' ltac:(lia) H2) as [-> ->]. split; reflexivity.
Qed.
Lemma bstr_inj b b' x y : Nlen b < two64 -> Nlen b' < two64 -> ser (BStr b) ++ x = ser (BStr b') ++ y -> b = b' /\ x = y.
Proof.
  intros Hb Hb'. cbn [ser]. rewrite <- !app_assoc. intros H.
  apply head_inj in H as [Hl H]; [|lia|assumption|assumption].
  apply app_same_length in H; [exact H|]. unfold Nlen in Hl. lia.
Qed.
Lemma primary_inj p p' x y : wf_primary p = true -> wf_primary p' = true -> p_crc p = CrcNo -> p_crc p' = CrcNo ->
  ser (primary_item p) ++ x = ser (primary_item p') ++ y -> p = p' /\ x = y.
Proof.
  intros Hw Hw' Hc Hc' H. rewrite <- !enc_primary_nocrc in H by assumption.
  assert (Hf : crc_filled (p_crc p) = true) by (rewrite Hc; reflexivity).
  assert (Hf' : crc_filled (p_crc p') = true) by (rewrite Hc'; reflexivity).
  pose proof (p_primary_ok 0 p x 5 Hw Hf ltac:(lia)) as E.
  pose proof (p_primary_ok 0 p' y 5 Hw' Hf' ltac:(lia)) as E'.
  rewrite H in E. rewrite E in E'. inversion E'. split; reflexivity.
Qed.

Definition hdr_wf (h : block_header) : Prop := h_type h < two64 /\ h_num h < two64 /\ h_flags h < two64.
Lemma header_inj h h' x y : hdr_wf h -> hdr_wf h' ->
  concat (map ser (header_items h)) ++ x = concat (map ser (header_items h')) ++ y -> h = h' /\ x = y.
Proof.
  intros (H1 & H2 & H3) (H1' & H2' & H3'). destruct h as [t n f], h' as [t' n' f'].
  cbn [h_type h_num h_flags header_items map concat] in *. rewrite !app_nil_r, <- !app_assoc. intros H.
  apply uint_inj in H as [-> H]; [|assumption|assumption].
  apply uint_inj in H as [-> H]; [|assumption|assumption].
  apply uint_inj in H as [-> H]; [|assumption|assumption].
  split; [reflexivity|exact H].
Qed.

Definition primaries_ok (flags : N) (pb pb' : primary) : Prop :=
  scope_primary flags = true ->
  wf_primary pb = true /\ wf_primary pb' = true /\ p_crc pb = CrcNo /\ p_crc pb' = CrcNo.

Theorem ippt_spec_injective flags pb pb' t t' sh sh' :
  primaries_ok flags pb pb' ->
  hdr_wf (header_of t) -> hdr_wf (header_of t') -> hdr_wf sh -> hdr_wf sh' ->
  Nlen (data_bytes (c_data t)) < two64 -> Nlen (data_bytes (c_data t')) < two64 ->
  ippt_spec flags pb t sh = ippt_spec flags pb' t' sh' ->
  data_bytes (c_data t) = data_bytes (c_data t') /\
  (scope_primary flags = true -> pb = pb') /\
  (scope_target_header flags = true -> header_of t = header_of t') /\
  (scope_security_header flags = true -> sh = sh').
Proof.
  intros Hp Ht Ht' Hs Hs' Hd Hd'. unfold ippt_spec, ippt_items. cbn [app map concat]. intros H.
  apply app_inv_head in H. unfold ippt_rest_items in H. rewrite !map_app, !concat_app in H.
  remember (concat (map ser [BStr (data_bytes (c_data t))])) as T eqn:ET.
  remember (concat (map ser [BStr (data_bytes (c_data t'))])) as T' eqn:ET'.
  (* primary *)
  assert (H0 : (scope_primary flags = true -> pb = pb') /\
               concat (map ser (if scope_target_header flags then header_items (header_of t) else [])) ++
               concat (map ser (if scope_security_header flags then header_items sh else [])) ++ T =
               concat (map ser (if scope_target_header flags then header_items (header_of t') else [])) ++
               concat (map ser (if scope_security_header flags then header_items sh' else [])) ++ T').
  { destruct (scope_primary flags) eqn:E0.
    - destruct (Hp E0) as (W & W' & C & C'). cbn [map concat] in H. rewrite ?app_nil_r, <- ?app_assoc in H.
      apply primary_inj in H as [-> H]; try assumption. split; [reflexivity|exact H].
    - cbn [map concat app] in H. split; [discriminate|exact H]. }
  destruct H0 as [R0 H0]. clear H.
  assert (H1 : (scope_target_header flags = true -> header_of t = header_of t') /\
               concat (map ser (if scope_security_header flags then header_items sh else [])) ++ T =
               concat (map ser (if scope_security_header flags then header_items sh' else [])) ++ T').
  { destruct (scope_target_header flags) eqn:E1.
    - apply header_inj in H0 as [E H0]; try assumption. split; [intros _; exact E|exact H0].
    - cbn [map concat app] in H0. split; [discriminate|exact H0]. }
  destruct H1 as [R1 H1]. clear H0.
  assert (H2 : (scope_security_header flags = true -> sh = sh') /\ T = T').
  { destruct (scope_security_header flags) eqn:E2.
    - apply header_inj in H1 as [E H1]; try assumption. split; [intros _; exact E|exact H1].
    - cbn [map concat app] in H1. split; [discriminate|exact H1]. }
  destruct H2 as [R2 H2]. clear H1. subst T T'.
  cbn [map concat] in H2. apply bstr_inj in H2 as [E _]; try assumption.
  split; [exact E|]. split; [exact R0|]. split; [exact R1|exact R2].
Qed.

(* with the target header in scope, well-formed targets with the same IPPT agree on everything but the (unprotected) CRC *)
Lemma wf_hdr c : wf_canonical c = true -> hdr_wf (header_of c).
Proof.
  unfold wf_canonical. intros H. bools H. nat_facts. unfold hdr_wf, header_of. cbn [h_type h_num h_flags].
  unfold two64 in *. lia.
Qed.
Lemma wf_data_len c : wf_canonical c = true -> Nlen (data_bytes (c_data c)) < two64.
Proof.
  unfold wf_canonical. intros H. bools H. rewrite data_bytes_raw. eapply raw_len. eassumption.
Qed.
Theorem ippt_injective_target flags pb pb' t t' sh sh' :
  primaries_ok flags pb pb' -> wf_canonical t = true -> wf_canonical t' = true -> hdr_wf sh -> hdr_wf sh' ->
  scope_target_header flags = true ->
  ippt_spec flags pb t sh = ippt_spec flags pb' t' sh' ->
  c_type t = c_type t' /\ c_num t = c_num t' /\ c_flags t = c_flags t' /\ c_data t = c_data t'.
Proof.
  intros Hp Hw Hw' Hs Hs' H1 H.
  destruct (ippt_spec_injective flags pb pb' t t' sh sh' Hp (wf_hdr t Hw) (wf_hdr t' Hw') Hs Hs'
              (wf_data_len t Hw) (wf_data_len t' Hw') H) as (Ed & _ & Eh & _).
  specialize (Eh H1). unfold header_of in Eh. injection Eh as Et En Ef.
  split; [exact Et|]. split; [exact En|]. split; [exact Ef|].
  unfold wf_canonical in Hw, Hw'. bools Hw. bools Hw'.
  rewrite !data_bytes_raw in Ed.
  match goal with A : wf_data (c_type t) (c_data t) = true, B : wf_data (c_type t') (c_data t') = true |- _ =>
    pose proof (decode_cdata_ok _ _ A) as D; pose proof (decode_cdata_ok _ _ B) as D' end.
  rewrite Et, Ed in D. rewrite D in D'. inversion D'. reflexivity.
Qed.
