(* The model encoder produces exactly the RFC 9171 item tree serialization (C02), the CRC on the wire is
   the catalogue CRC of the block with a zero-filled CRC field (C04), conformant input is accepted (C03). *)
From BP7 Require Import Base.Prelude Base.Utf8 Gen.Consts Cbor.Item Cbor.SerdeDe Spec.CrcSpec Spec.Rfc9171.
From BP7 Require Import Model.Types Model.Encode Model.Decode Model.Wf Proofs.CborLemmas Proofs.CodecProofs.

Lemma ser_eid_item e : ser (eid_item e) = enc_eid e.
Proof. destruct e; cbn [eid_item ser map concat]; unfold enc_eid, enc_arr, enc_uint, enc_text, Nlen; cbn [length];
  rewrite ?app_nil_r, <- ?app_assoc; reflexivity. Qed.

Lemma frag_bit flags : bundle_flag flags BUNDLE_IS_FRAGMENT = is_fragment flags.
Proof.
  unfold bundle_flag, has_bits, is_fragment, BUNDLE_IS_FRAGMENT, BUNDLE_ALL_BITS.
  rewrite <- N.land_assoc. change (N.land 516735 1) with 1.
  destruct (N.testbit flags 0) eqn:E.
  - apply N.eqb_eq. apply N.bits_inj. intros i. rewrite N.land_spec.
    destruct (N.eq_dec i 0) as [->|Hi]; [rewrite E; reflexivity|].
    replace (N.testbit 1 i) with false; [apply andb_false_r|]. symmetry. destruct i; [congruence|]. destruct p; reflexivity.
  - apply N.eqb_neq. intros H. apply (f_equal (fun x => N.testbit x 0)) in H. rewrite N.land_spec, E in H. discriminate.
Qed.

Definition crc_items (c : crc_value) : list item :=
  if has_crc c then match crc_bytes c with Some b => [BStr b] | None => [] end else [].

Lemma enc_crc_field_ser c : enc_crc_field c = concat (map ser (crc_items c)).
Proof. unfold enc_crc_field, crc_items. destruct (has_crc c); [|reflexivity]. destruct (crc_bytes c); [|reflexivity].
  cbn [map concat ser]. rewrite app_nil_r. reflexivity. Qed.

Lemma ser_arr l : ser (Arr l) = head 4 (Nlen l) ++ concat (map ser l).
Proof. reflexivity. Qed.

Lemma primary_len p : Nlen (primary_items p ++ crc_items (p_crc p)) = primary_num_elems p.
Proof.
  unfold primary_items, primary_num_elems, has_fragmentation. rewrite frag_bit. unfold crc_items, Nlen.
  destruct (has_crc (p_crc p)) eqn:Ec; destruct (is_fragment (p_flags p));
    try (destruct (p_crc p); cbn in Ec; try discriminate); cbn [crc_bytes app length]; reflexivity.
Qed.

Lemma enc_primary_ser p : enc_primary p = ser (Arr (primary_items p ++ crc_items (p_crc p))).
Proof.
  rewrite ser_arr, primary_len. unfold enc_primary, enc_arr. f_equal.
  rewrite map_app, concat_app, <- enc_crc_field_ser.
  unfold primary_items, has_fragmentation. rewrite frag_bit.
  destruct (is_fragment (p_flags p)); cbn [app map concat ser]; rewrite !ser_eid_item;
    unfold enc_uint, enc_arr, Nlen; cbn [length]; rewrite ?app_nil_r, <- ?app_assoc; reflexivity.
Qed.

Lemma data_bytes_raw d : data_bytes d = raw_of d.
Proof. destruct d; cbn [data_bytes raw_of enc_cdata ser map concat]; rewrite ?ser_eid_item;
  unfold enc_uint, enc_arr, Nlen; cbn [length]; rewrite ?app_nil_r, <- ?app_assoc; reflexivity. Qed.

Lemma canonical_len c : Nlen (canonical_items c ++ crc_items (c_crc c)) = (if has_crc (c_crc c) then 6 else 5).
Proof.
  unfold canonical_items, crc_items, Nlen.
  destruct (has_crc (c_crc c)) eqn:Ec; try (destruct (c_crc c); cbn in Ec; try discriminate); cbn [crc_bytes app length]; reflexivity.
Qed.

Lemma enc_canonical_ser c : enc_canonical c = ser (Arr (canonical_items c ++ crc_items (c_crc c))).
Proof.
  rewrite ser_arr, canonical_len, enc_canonical_raw. unfold enc_arr. f_equal.
  rewrite map_app, concat_app, <- enc_crc_field_ser.
  unfold canonical_items. cbn [app map concat ser]. rewrite data_bytes_raw.
  unfold enc_uint, enc_bytes; rewrite ?app_nil_r, <- ?app_assoc; reflexivity.
Qed.

(* the block after update_crc serializes to the RFC item with its CRC computed by the specification *)
Lemma primary_update_ser p : wf_crc (p_crc p) = true ->
  enc_primary (primary_update_crc p) = ser (primary_item p).
Proof.
  intros Hc. rewrite enc_primary_ser. unfold primary_item, with_crc, primary_update_crc, primary_calc_crc, calculate_crc.
  assert (Hitems : forall c, crc_code c = crc_code (p_crc p) -> primary_items (set_p_crc p c) = primary_items p).
  { intros c Hcc. unfold primary_items. destruct p as [ver flags crc dst src rpt t q life off len]; cbn [set_p_crc p_version p_flags p_crc p_dst p_src p_rpt p_time p_seq p_lifetime p_frag_off p_total_len] in *. rewrite Hcc. reflexivity. }
  destruct (p_crc p) eqn:E; cbn [wf_crc crc_code] in *; try discriminate; unfold CRC_NO, CRC_16, CRC_32 in *; ground_N;
    rewrite p_crc_set; cbn [reset_crc]; rewrite ?Hitems by reflexivity;
    rewrite ?enc_primary_ser, ?p_crc_set, ?Hitems by reflexivity; cbn [crc_items has_crc crc_bytes]; rewrite ?app_nil_r; reflexivity.
Qed.
Lemma canonical_update_ser c : wf_crc (c_crc c) = true ->
  enc_canonical (canonical_update_crc c) = ser (canonical_item c).
Proof.
  intros Hc. rewrite enc_canonical_ser. unfold canonical_item, with_crc, canonical_update_crc, canonical_calc_crc, calculate_crc.
  assert (Hitems : forall k, crc_code k = crc_code (c_crc c) -> canonical_items (set_c_crc c k) = canonical_items c).
  { intros k Hk. unfold canonical_items. destruct c as [ty num fl crc data]; cbn [set_c_crc c_type c_num c_flags c_crc c_data] in *. rewrite Hk. reflexivity. }
  destruct (c_crc c) eqn:E; cbn [wf_crc crc_code] in *; try discriminate; unfold CRC_NO, CRC_16, CRC_32 in *; ground_N;
    rewrite c_crc_set; cbn [reset_crc]; rewrite ?Hitems by reflexivity;
    rewrite ?enc_canonical_ser, ?c_crc_set, ?Hitems by reflexivity; cbn [crc_items has_crc crc_bytes]; rewrite ?app_nil_r; reflexivity.
Qed.

Theorem to_cbor_is_rfc b : wf_bundle b = true -> fst (to_cbor b) = rfc_bytes b.
Proof.
  intros H. destruct b as [p cs]. unfold wf_bundle in H. cbn [b_primary b_canonicals] in H.
  apply andb_true_iff in H as [Hp Hcs].
  unfold to_cbor, rfc_bytes, rfc_item, bundle_bytes, bundle_calculate_crc. cbn [fst b_primary b_canonicals ser map concat].
  f_equal. rewrite <- app_assoc. f_equal.
  - apply primary_update_ser. unfold wf_primary in Hp. bools Hp. assumption.
  - f_equal. rewrite map_map, map_map. f_equal. apply map_ext_in. intros c Hin.
    apply canonical_update_ser. rewrite forallb_forall in Hcs. specialize (Hcs c Hin). unfold wf_canonical in Hcs. bools Hcs. assumption.
Qed.

(* ---------- C04: the CRC on the wire ---------- *)
Definition crc_on_wire (code : N) (items : list item) (stored : crc_value) (bytes : list byte) : Prop :=
  if code =? 0 then stored = CrcNo /\ bytes = ser (Arr items)
  else if code =? 1 then
    let v := be_enc 2 (crc16_x25 (ser (Arr (items ++ [BStr (zeros 2)])))) in
    stored = Crc16 v /\ bytes = ser (Arr (items ++ [BStr v]))
  else if code =? 2 then
    let v := be_enc 4 (crc32c (ser (Arr (items ++ [BStr (zeros 4)])))) in
    stored = Crc32 v /\ bytes = ser (Arr (items ++ [BStr v]))
  else False.

Lemma primary_crc_on_wire p : wf_crc (p_crc p) = true ->
  crc_on_wire (crc_code (p_crc p)) (primary_items p) (p_crc (primary_update_crc p)) (enc_primary (primary_update_crc p)).
Proof.
  intros Hc. rewrite (primary_update_ser p Hc). unfold crc_on_wire, primary_item, with_crc, primary_update_crc, primary_calc_crc, calculate_crc.
  assert (Hitems : forall c, crc_code c = crc_code (p_crc p) -> primary_items (set_p_crc p c) = primary_items p).
  { intros c Hcc. unfold primary_items. destruct p as [ver flags crc dst src rpt t q life off len]; cbn [set_p_crc p_version p_flags p_crc p_dst p_src p_rpt p_time p_seq p_lifetime p_frag_off p_total_len] in *. rewrite Hcc. reflexivity. }
  rewrite p_crc_set.
  destruct (p_crc p) eqn:E; cbn [wf_crc crc_code] in *; try discriminate; unfold CRC_NO, CRC_16, CRC_32 in *; ground_N; cbv zeta;
    cbn [reset_crc]; rewrite ?enc_primary_ser, ?p_crc_set, ?Hitems by reflexivity; cbn [crc_items has_crc crc_bytes]; split; reflexivity.
Qed.
Lemma canonical_crc_on_wire c : wf_crc (c_crc c) = true ->
  crc_on_wire (crc_code (c_crc c)) (canonical_items c) (c_crc (canonical_update_crc c)) (enc_canonical (canonical_update_crc c)).
Proof.
  intros Hc. rewrite (canonical_update_ser c Hc). unfold crc_on_wire, canonical_item, with_crc, canonical_update_crc, canonical_calc_crc, calculate_crc.
  assert (Hitems : forall k, crc_code k = crc_code (c_crc c) -> canonical_items (set_c_crc c k) = canonical_items c).
  { intros k Hk. unfold canonical_items. destruct c as [ty num fl crc data]; cbn [set_c_crc c_type c_num c_flags c_crc c_data] in *. rewrite Hk. reflexivity. }
  rewrite c_crc_set.
  destruct (c_crc c) eqn:E; cbn [wf_crc crc_code] in *; try discriminate; unfold CRC_NO, CRC_16, CRC_32 in *; ground_N; cbv zeta;
    cbn [reset_crc]; rewrite ?enc_canonical_ser, ?c_crc_set, ?Hitems by reflexivity; cbn [crc_items has_crc crc_bytes]; split; reflexivity.
Qed.

Lemma opt_bytes_eqb_refl o : opt_bytes_eqb o o = true.
Proof. destruct o; cbn; [apply bytes_eqb_refl|reflexivity]. Qed.

Theorem fresh_crc_valid b : wf_bundle b = true -> crc_valid (snd (to_cbor b)) = true.
Proof.
  intros H. destruct (bundle_calc_facts b H) as (_ & _ & _ & I). unfold to_cbor. cbn [snd].
  set (b' := bundle_calculate_crc b) in *. unfold crc_valid. unfold bundle_calculate_crc in I.
  destruct b' as [p' cs']. cbn [b_primary b_canonicals] in *. injection I as Ip Ics.
  apply andb_true_iff. split.
  - unfold primary_check_crc. destruct (has_crc (p_crc p')); [|reflexivity].
    apply (f_equal p_crc) in Ip. unfold primary_update_crc in Ip. rewrite p_crc_set in Ip. rewrite Ip. apply opt_bytes_eqb_refl.
  - apply forallb_forall. intros c Hin. unfold canonical_check_crc. destruct (has_crc (c_crc c)); [|reflexivity].
    assert (Hc : canonical_update_crc c = c).
    { clear - Ics Hin. induction cs' as [|x xs IH]; [contradiction|]. cbn [map] in Ics. injection Ics as Hx Hxs.
      destruct Hin as [->|Hin]; [assumption|apply IH; assumption]. }
    apply (f_equal c_crc) in Hc. unfold canonical_update_crc in Hc. rewrite c_crc_set in Hc. rewrite Hc. apply opt_bytes_eqb_refl.
Qed.

(* ---------- C03: conformant input (bytes of the specification encoder) ---------- *)
Theorem accepts_conformant b : wf_bundle b = true ->
  exists b', from_cbor (rfc_bytes b) = Ok b' /\ only_crc_changed b b' /\ crcs_filled b' = true
             /\ crc_valid b' = true /\ fst (to_cbor b') = rfc_bytes b /\ snd (to_cbor b') = b'.
Proof.
  intros H. pose proof (to_cbor_roundtrip b H) as R. pose proof (to_cbor_idempotent b H) as I.
  pose proof (to_cbor_is_rfc b H) as S. pose proof (fresh_crc_valid b H) as V.
  destruct (to_cbor b) as [bs b'] eqn:E. cbn [fst snd] in *. destruct R as (R1 & R2 & R3).
  exists b'. subst bs. rewrite I. cbn [fst snd].
  split; [exact R1|split; [exact R2|split; [exact R3|split; [exact V|split; reflexivity]]]].
Qed.
