(* The exhaustive tie: Gen/Tables.v holds the COMPLETE behaviour of six finite-domain functions of the compiled crate (written by
   `harness --tables` from /repo's working tree on every run).  Here the model functions are proved equal to those tables on their
   whole domain: one vm_compute pass over every row, lifted to a universally quantified statement by `walk_spec`.  Unlike the
   sampled correspondence this is checked by the kernel and leaves no input of these functions out:
     BlockControlFlagsType::validate          every u8                       (outside the property's don't-care mask 0xF0)
     BundleControlFlagsType::validate         every combination of the 14 bits the function looks at  (outside don't-care 0xE218)
     hop_count_increase / _exceeded / _get    every (limit, count) in u8 x u8
     set_crc_type / crc_type / has_crc / bytes  every u8 type code
     hexify                                   every single byte
     unhexify                                 every string of two ASCII characters *)
From Coq Require Import Strings.String Strings.Ascii.
From BP7 Require Import Base.Prelude Gen.Consts Gen.Tables Spec.CrcSpec Model.Types Model.Validate Model.Ops Model.Api Model.Hex.

(* ---------- rows of a table ---------- *)
Definition flat (rows : list string) : list byte := concat (map list_byte_of_string rows).
Definition code_row (tbl : list byte) (w : nat) (j : nat) : list byte := firstn w (skipn (j * w) tbl).
Fixpoint walk (f : N -> list byte -> bool) (w : nat) (i : N) (l : list byte) (n : nat) : bool :=
  match n with
  | O => match l with [] => true | _ => false end
  | S n' => f i (firstn w l) && walk f w (i + 1) (skipn w l) n'
  end.
Lemma skipn_skipn {A} (a b : nat) (l : list A) : skipn a (skipn b l) = skipn (b + a) l.
Proof.
  revert l. induction b as [|b IH]; intros l; [reflexivity|]. destruct l as [|x l]; [rewrite !skipn_nil; reflexivity|].
  cbn [skipn plus]. apply IH.
Qed.
Lemma walk_spec f w : forall n i l, walk f w i l n = true ->
  forall j, (j < n)%nat -> f (i + N.of_nat j) (code_row l w j) = true.
Proof.
  induction n as [|n IH]; intros i l H j Hj; [lia|]. cbn [walk] in H. apply andb_true_iff in H as [H0 H].
  destruct j as [|j].
  - unfold code_row. cbn [Nat.mul skipn]. replace (i + N.of_nat 0) with i by lia. exact H0.
  - specialize (IH (i + 1) (skipn w l) H j ltac:(lia)). unfold code_row in *. rewrite skipn_skipn in IH.
    replace (S j * w)%nat with (w + j * w)%nat by lia. replace (i + N.of_nat (S j)) with (i + 1 + N.of_nat j) by lia. exact IH.
Qed.

(* ---------- rendering of the model's answers in the format of harness/src/tables.rs ---------- *)
Definition ch (b : bool) : byte := if b then x31 else x30.              (* '1' / '0' *)
Definition hex2 (n : N) : list byte := hexify [n2b n].
Definition digit (n : N) : byte := n2b (48 + n).

(* BLOCKFLAGS: row w = validate(w).is_ok() *)
Definition block_flags_ok (w : N) : bool := negb (block_flag w BLOCK_CFRESERVED_FIELDS).
Definition bf_row (w : N) (r : list byte) : bool := (N.land w 240 =? 240) || bytes_eqb r [ch (block_flags_ok w)].
(* BUNDLEFLAGS: row i = validate(word i).is_ok(), word i = the bits of T_BUNDLE_BITS selected by i *)
Fixpoint word_of (bits : list N) (i : N) : N :=
  match bits with [] => 0 | b :: t => (if N.odd i then b else 0) + word_of t (N.div2 i) end.
Definition bundle_flags_ok (w : N) : bool := match bundle_flags_validate w with [] => true | _ => false end.
Definition uf_row (i : N) (r : list byte) : bool :=
  let w := word_of T_BUNDLE_BITS i in (N.land w 57880 =? 57880) || bytes_eqb r [ch (bundle_flags_ok w)].
(* HOP: row l*256+k = increase result, exceeded afterwards, count read back *)
Definition hop_answer (l k : N) : list byte :=
  let c := mkcanonical HOP_COUNT_BLOCK 2 0 CrcNo (HopCount l k) in
  let '(inc, c') := hop_count_increase c in
  match hop_count_get c' with
  | Some (l2, k2) => if l2 =? l then [ch inc; ch (hop_count_exceeded c')] ++ hex2 k2 else []
  | None => []
  end.
Definition hop_row (i : N) (r : list byte) : bool := bytes_eqb r (hop_answer (i / 256) (i mod 256)).
(* CRCCODE: row k = type code read back, has_crc, number of CRC bytes after set_crc_type(k) *)
Definition crc_answer (k : N) : list byte :=
  let c := crc_of_type k in
  hex2 (crc_code c) ++ [ch (has_crc c); digit (match crc_bytes c with Some b => Nlen b | None => 0 end)].
Definition crc_row (k : N) (r : list byte) : bool := bytes_eqb r (crc_answer k).
(* HEXIFY: row b = hexify [b] *)
Definition hexify_row (b : N) (r : list byte) : bool := bytes_eqb r (hexify [n2b b]).
(* UNHEX2: row a*128+b = unhexify of the two-character string: the byte, or -- *)
Definition unhex_answer (a b : N) : list byte :=
  match unhexify [n2b a; n2b b] with
  | Ok (Some [x]) => hex2 (b2n x)
  | Ok None => [x2d; x2d]
  | _ => []
  end.
Definition unhex_row (i : N) (r : list byte) : bool := bytes_eqb r (unhex_answer (i / 128) (i mod 128)).

(* CRC16B / CRC32B: row b = checksum of the one-byte message [b], 4 / 8 hex digits *)
Definition crc16_row (b : N) (r : list byte) : bool := bytes_eqb r (hexify (be_enc 2 (crc16_x25 [n2b b]))).
Definition crc32_row (b : N) (r : list byte) : bool := bytes_eqb r (hexify (be_enc 4 (crc32c [n2b b]))).

(* ---------- one pass over every row of every table ---------- *)
Lemma all_tables_ok :
  walk bf_row T_BLOCKFLAGS_W 0 (flat T_BLOCKFLAGS) 256 = true
  /\ walk uf_row T_BUNDLEFLAGS_W 0 (flat T_BUNDLEFLAGS) (N.to_nat 16384) = true
  /\ walk hop_row T_HOP_W 0 (flat T_HOP) (N.to_nat 65536) = true
  /\ walk crc_row T_CRCCODE_W 0 (flat T_CRCCODE) 256 = true
  /\ walk hexify_row T_HEXIFY_W 0 (flat T_HEXIFY) 256 = true
  /\ walk unhex_row T_UNHEX2_W 0 (flat T_UNHEX2) (N.to_nat 16384) = true
  /\ walk crc16_row T_CRC16B_W 0 (flat T_CRC16B) 256 = true
  /\ walk crc32_row T_CRC32B_W 0 (flat T_CRC32B) 256 = true.
Proof. vm_compute. repeat split; reflexivity. Qed.

(* ---------- the statements ---------- *)
(* what the compiled code answered for input number j *)
Definition code_block_flags (w : N) : list byte := code_row (flat T_BLOCKFLAGS) T_BLOCKFLAGS_W (N.to_nat w).
Definition code_bundle_flags (i : N) : list byte := code_row (flat T_BUNDLEFLAGS) T_BUNDLEFLAGS_W (N.to_nat i).
Definition code_hop (l k : N) : list byte := code_row (flat T_HOP) T_HOP_W (N.to_nat (l * 256 + k)).
Definition code_crc (k : N) : list byte := code_row (flat T_CRCCODE) T_CRCCODE_W (N.to_nat k).
Definition code_hexify (b : N) : list byte := code_row (flat T_HEXIFY) T_HEXIFY_W (N.to_nat b).
Definition code_unhex (a b : N) : list byte := code_row (flat T_UNHEX2) T_UNHEX2_W (N.to_nat (a * 128 + b)).

Lemma walk_at f w l n : walk f w 0 l n = true -> forall j, (N.to_nat j < n)%nat -> f j (code_row l w (N.to_nat j)) = true.
Proof. intros H j Hj. pose proof (walk_spec f w n 0 l H (N.to_nat j) Hj) as W. rewrite N2Nat.id, N.add_0_l in W. exact W. Qed.

Theorem tie_block_flags w : w < 256 -> N.land w 240 <> 240 -> code_block_flags w = [ch (block_flags_ok w)].
Proof.
  intros Hw Hd. destruct all_tables_ok as (H & _). pose proof (walk_at _ _ _ _ H w ltac:(lia)) as H0.
  unfold bf_row in H0. apply orb_true_iff in H0 as [H0|H0]; [apply N.eqb_eq in H0; contradiction|apply bytes_eqb_eq in H0; exact H0].
Qed.
Theorem tie_bundle_flags i : i < 16384 -> N.land (word_of T_BUNDLE_BITS i) 57880 <> 57880 ->
  code_bundle_flags i = [ch (bundle_flags_ok (word_of T_BUNDLE_BITS i))].
Proof.
  intros Hi Hd. destruct all_tables_ok as (_ & H & _). pose proof (walk_at _ _ _ _ H i ltac:(lia)) as H0.
  unfold uf_row in H0. cbv zeta in H0. apply orb_true_iff in H0 as [H0|H0]; [apply N.eqb_eq in H0; contradiction|apply bytes_eqb_eq in H0; exact H0].
Qed.
Theorem tie_hop l k : l < 256 -> k < 256 -> code_hop l k = hop_answer l k.
Proof.
  intros Hl Hk. destruct all_tables_ok as (_ & _ & H & _). pose proof (walk_at _ _ _ _ H (l * 256 + k) ltac:(lia)) as H0.
  unfold hop_row in H0. apply bytes_eqb_eq in H0. unfold code_hop. rewrite H0.
  replace ((l * 256 + k) / 256) with l by (apply N.div_unique with k; lia).
  replace ((l * 256 + k) mod 256) with k by (apply N.mod_unique with l; lia). reflexivity.
Qed.
Theorem tie_crc_code k : k < 256 -> code_crc k = crc_answer k.
Proof.
  intros Hk. destruct all_tables_ok as (_ & _ & _ & H & _). pose proof (walk_at _ _ _ _ H k ltac:(lia)) as H0.
  unfold crc_row in H0. apply bytes_eqb_eq in H0. exact H0.
Qed.
Theorem tie_hexify b : b < 256 -> code_hexify b = hexify [n2b b].
Proof.
  intros Hb. destruct all_tables_ok as (_ & _ & _ & _ & H & _). pose proof (walk_at _ _ _ _ H b ltac:(lia)) as H0.
  unfold hexify_row in H0. apply bytes_eqb_eq in H0. exact H0.
Qed.
Theorem tie_unhex a b : a < 128 -> b < 128 -> code_unhex a b = unhex_answer a b.
Proof.
  intros Ha Hb. destruct all_tables_ok as (_ & _ & _ & _ & _ & H & _). pose proof (walk_at _ _ _ _ H (a * 128 + b) ltac:(lia)) as H0.
  unfold unhex_row in H0. apply bytes_eqb_eq in H0. unfold code_unhex. rewrite H0.
  replace ((a * 128 + b) / 128) with a by (apply N.div_unique with b; lia).
  replace ((a * 128 + b) mod 128) with b by (apply N.mod_unique with a; lia). reflexivity.
Qed.

Definition code_crc16 (b : N) : list byte := code_row (flat T_CRC16B) T_CRC16B_W (N.to_nat b).
Definition code_crc32 (b : N) : list byte := code_row (flat T_CRC32B) T_CRC32B_W (N.to_nat b).
(* the library's two checksum functions on every one-byte message are the bitwise catalogue CRCs of Spec/CrcSpec.v: with the fixed
   initial register each entry of a 256-entry lookup table is exercised by exactly one of these messages *)
Theorem tie_crc_bytes b : b < 256 ->
  code_crc16 b = hexify (be_enc 2 (crc16_x25 [n2b b])) /\ code_crc32 b = hexify (be_enc 4 (crc32c [n2b b])).
Proof.
  intros Hb. destruct all_tables_ok as (_ & _ & _ & _ & _ & _ & H16 & H32).
  pose proof (walk_at _ _ _ _ H16 b ltac:(lia)) as A. pose proof (walk_at _ _ _ _ H32 b ltac:(lia)) as B.
  unfold crc16_row in A. unfold crc32_row in B. apply bytes_eqb_eq in A, B. split; assumption.
Qed.
