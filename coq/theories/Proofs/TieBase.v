(* The exhaustive tie, common part: rows of a table and the lemma that lifts one pass over all rows to a universally quantified
   statement.  Gen/Tbl_<NAME>.v hold the COMPLETE behaviour of finite-domain functions of the compiled crate (written by
   `harness --tables` from /repo's working tree on every run); Proofs/Tie*.v prove the model functions equal to those tables on their
   whole domain by one vm_compute pass over every row.  One file per property, so that a changed table breaks the proof obligations of
   the property it belongs to and of no other. *)
From Coq Require Import Strings.String Strings.Ascii.
From BP7 Require Import Base.Prelude Model.Hex.

(* ---------- rows of a table ---------- *)
Definition flat (rows : list string) : list byte := concat (map list_byte_of_string rows).
Definition code_row (tbl : list byte) (w : nat) (j : nat) : list byte := firstn w (skipn (j * w) tbl).
Fixpoint walk (f : N -> list byte -> bool) (w : nat) (i : N) (l : list byte) (n : nat) : bool :=
  match n with
  | O => match l with [] => true | _ => false end
  | S n' => f i (firstn w l) && walk f w (i + 1) (skipn w l) n'
  end.
Lemma skipn_skipn {A} (a b : nat) (l : list A) : skipn a (skipn b l) = skipn (b + a) l.
Proof.
  revert l. induction b as [|b IH]; intros l; [reflexivity|]. destruct l as [|x l]; [rewrite !skipn_nil; reflexivity|].
  cbn [skipn plus]. apply IH.
Qed.
Lemma walk_spec f w : forall n i l, walk f w i l n = true ->
  forall j, (j < n)%nat -> f (i + N.of_nat j) (code_row l w j) = true.
Proof.
  induction n as [|n IH]; intros i l H j Hj; [lia|]. cbn [walk] in H. apply andb_true_iff in H as [H0 H].
  destruct j as [|j].
  - unfold code_row. cbn [Nat.mul skipn]. replace (i + N.of_nat 0) with i by lia. exact H0.
  - specialize (IH (i + 1) (skipn w l) H j ltac:(lia)). unfold code_row in *. rewrite skipn_skipn in IH.
    replace (S j * w)%nat with (w + j * w)%nat by lia. replace (i + N.of_nat (S j)) with (i + 1 + N.of_nat j) by lia. exact IH.
Qed.

Lemma walk_at f w l n : walk f w 0 l n = true -> forall j, (N.to_nat j < n)%nat -> f j (code_row l w (N.to_nat j)) = true.
Proof. intros H j Hj. pose proof (walk_spec f w n 0 l H (N.to_nat j) Hj) as W. rewrite N2Nat.id, N.add_0_l in W. exact W. Qed.

(* ---------- rendering of the model's answers in the format of harness/src/tables.rs ---------- *)
Definition ch (b : bool) : byte := if b then x31 else x30.              (* '1' / '0' *)
Definition hex2 (n : N) : list byte := hexify [n2b n].
Definition digit (n : N) : byte := n2b (48 + n).
