(* C04: the two checksum functions on every one-byte message, against the compiled crate's complete tables *)
From Coq Require Import Strings.String Strings.Ascii.
From BP7 Require Import Base.Prelude Gen.Consts Gen.Tbl_CRC16B Gen.Tbl_CRC32B Proofs.TieBase Spec.CrcSpec Model.Hex.

(* CRC16B / CRC32B: row b = checksum of the one-byte message [b], 4 / 8 hex digits *)
Definition crc16_row (b : N) (r : list byte) : bool := bytes_eqb r (hexify (be_enc 2 (crc16_x25 [n2b b]))).
Definition crc32_row (b : N) (r : list byte) : bool := bytes_eqb r (hexify (be_enc 4 (crc32c [n2b b]))).

Lemma table_ok :
  walk crc16_row T_CRC16B_W 0 (flat T_CRC16B) 256 = true
  /\ walk crc32_row T_CRC32B_W 0 (flat T_CRC32B) 256 = true.
Proof. vm_compute. repeat split; reflexivity. Qed.

Definition code_crc16 (b : N) : list byte := code_row (flat T_CRC16B) T_CRC16B_W (N.to_nat b).
Definition code_crc32 (b : N) : list byte := code_row (flat T_CRC32B) T_CRC32B_W (N.to_nat b).

Theorem tie_crc_bytes b : b < 256 ->
  code_crc16 b = hexify (be_enc 2 (crc16_x25 [n2b b])) /\ code_crc32 b = hexify (be_enc 4 (crc32c [n2b b])).
Proof.
  intros Hb. destruct table_ok as (H16 & H32).
  pose proof (walk_at _ _ _ _ H16 b ltac:(lia)) as A. pose proof (walk_at _ _ _ _ H32 b ltac:(lia)) as B.
  unfold crc16_row in A. unfold crc32_row in B. apply bytes_eqb_eq in A, B. split; assumption.
Qed.

