(* C11: set_crc_type on every u8 code, against the compiled crate's complete table *)
From Coq Require Import Strings.String Strings.Ascii.
From BP7 Require Import Base.Prelude Gen.Consts Gen.Tbl_CRCCODE Proofs.TieBase Model.Types Model.Hex.

(* CRCCODE: row k = type code read back, has_crc, number of CRC bytes after set_crc_type(k) *)
Definition crc_answer (k : N) : list byte :=
  let c := crc_of_type k in
  hex2 (crc_code c) ++ [ch (has_crc c); digit (match crc_bytes c with Some b => Nlen b | None => 0 end)].
Definition crc_row (k : N) (r : list byte) : bool := bytes_eqb r (crc_answer k).

Lemma table_ok :
  walk crc_row T_CRCCODE_W 0 (flat T_CRCCODE) 256 = true.
Proof. vm_compute. repeat split; reflexivity. Qed.

Definition code_crc (k : N) : list byte := code_row (flat T_CRCCODE) T_CRCCODE_W (N.to_nat k).

Theorem tie_crc_code k : k < 256 -> code_crc k = crc_answer k.
Proof.
  intros Hk. pose proof table_ok as H. pose proof (walk_at _ _ _ _ H k ltac:(lia)) as H0.
  unfold crc_row in H0. apply bytes_eqb_eq in H0. exact H0.
Qed.

