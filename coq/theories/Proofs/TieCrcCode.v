(* C11: Bundle::set_crc(k) followed by Bundle::to_cbor for every u8 code, against the compiled crate's complete table *)
From Coq Require Import Strings.String Strings.Ascii.
From BP7 Require Import Base.Prelude Gen.Consts Gen.Tbl_CRCCODE Proofs.TieBase Model.Types Model.Encode Model.Ops Model.Hex.

(* CRCCODE: row k = type code read back, has_crc, number of CRC bytes after set_crc_type(k) *)
(* CRCCODE: row k = hex of Bundle::to_cbor after Bundle::set_crc(k) on the bundle [hop count (32,0) #2; payload "x" #1], padded with '.' to
   200 characters *)
Definition crc_bundle : bundle :=
  mkbundle (mkprimary 7 0 CrcNo (Dtn 1 [x2f; x2f; x64; x2f]) (Dtn 1 [x2f; x2f; x73; x2f]) eid_none 1000 0 3600000 0 0)
           [mkcanonical HOP_COUNT_BLOCK 2 0 CrcNo (HopCount 32 0); mkcanonical 1 1 0 CrcNo (Data [x78])].
Definition pad200 (l : list byte) : list byte := l ++ repeat_byte x2e (200 - length l).
Definition crc_answer (k : N) : list byte := pad200 (hexify (fst (to_cbor (set_crc crc_bundle k)))).
Definition crc_row (k : N) (r : list byte) : bool := bytes_eqb r (crc_answer k).

Lemma table_ok :
  walk crc_row T_CRCCODE_W 0 (flat T_CRCCODE) 256 = true.
Proof. vm_compute. repeat split; reflexivity. Qed.

Definition code_crc (k : N) : list byte := code_row (flat T_CRCCODE) T_CRCCODE_W (N.to_nat k).

Theorem tie_crc_code k : k < 256 -> code_crc k = crc_answer k.
Proof.
  intros Hk. pose proof table_ok as H. pose proof (walk_at _ _ _ _ H k ltac:(lia)) as H0.
  unfold crc_row in H0. apply bytes_eqb_eq in H0. exact H0.
Qed.

