(* C07: the two flag validations and Bundle::validate over the block-list rule space, against the compiled crate's complete tables *)
From Coq Require Import Strings.String Strings.Ascii.
From BP7 Require Import Base.Prelude Gen.Consts Gen.Tbl_BLOCKFLAGS Gen.Tbl_BUNDLEFLAGS Gen.Tbl_RULESPACE Proofs.TieBase Model.Types Model.Validate Model.Hex.

(* the otherwise valid bundle of harness/src/tables.rs: named endpoints, creation time 1000, one payload block "x" *)
Definition base_primary (flags : N) : primary :=
  mkprimary 7 flags CrcNo (Dtn 1 [x2f; x2f; x64; x2f]) (Dtn 1 [x2f; x2f; x73; x2f]) eid_none 1000 0 3600000 0 0.
Definition flags_bundle (bundle_flags block_flags : N) : bundle :=
  mkbundle (base_primary bundle_flags) [mkcanonical 1 1 block_flags CrcNo (Data [x78])].
(* BLOCKFLAGS: row w = Bundle::validate of that bundle with block control flags w on the payload block *)
Definition block_flags_ok (w : N) : bool := is_valid (flags_bundle 0 w).
Definition bf_row (w : N) (r : list byte) : bool := (N.land w 240 =? 240) || bytes_eqb r [ch (block_flags_ok w)].
(* BUNDLEFLAGS: row i = Bundle::validate of that bundle with bundle control flags word i = the bits of T_BUNDLE_BITS selected by i *)
Fixpoint word_of (bits : list N) (i : N) : N :=
  match bits with [] => 0 | b :: t => (if N.odd i then b else 0) + word_of t (N.div2 i) end.
Definition bundle_flags_ok (w : N) : bool := is_valid (flags_bundle w 0).
Definition uf_row (i : N) (r : list byte) : bool :=
  let w := word_of T_BUNDLE_BITS i in (N.land w 57880 =? 57880) || bytes_eqb r [ch (bundle_flags_ok w)].
Definition rs_block (o : N) : canonical :=
  let num := (o mod 6) / 2 + 1 in
  let flags := if o mod 2 =? 1 then 2 else 0 in
  match o / 6 with
  | 0 => mkcanonical 1 num flags CrcNo (Data [x78])
  | 1 => mkcanonical 6 num flags CrcNo (PreviousNode (Dtn 1 [x2f; x2f; x6e; x2f]))
  | 2 => mkcanonical 7 num flags CrcNo (BundleAge 0)
  | 3 => mkcanonical 10 num flags CrcNo (HopCount 32 0)
  | _ => mkcanonical 192 num flags CrcNo (Unknown [])
  end.
Definition rs_list (j : N) : list canonical :=
  if j <? 1 then []
  else if j <? 31 then [rs_block (j - 1)]
  else if j <? 931 then let k := j - 31 in [rs_block (k / 30); rs_block (k mod 30)]
  else let k := j - 931 in [rs_block (k / 900); rs_block ((k / 30) mod 30); rs_block (k mod 30)].
Definition rs_bundle (i : N) : bundle :=
  let c := i / 27931 in
  mkbundle (mkprimary 7 (if N.testbit c 2 then 2 else 0) CrcNo (Dtn 1 [x2f; x2f; x64; x2f])
                      (if N.testbit c 1 then eid_none else Dtn 1 [x2f; x2f; x73; x2f]) eid_none
                      (if N.testbit c 0 then 0 else 1000) 0 1000 0 0)
           (rs_list (i mod 27931)).
Definition rs_row (i : N) (r : list byte) : bool := bytes_eqb r [ch (is_valid (rs_bundle i))].

Lemma table_ok :
  walk bf_row T_BLOCKFLAGS_W 0 (flat T_BLOCKFLAGS) 256 = true
  /\ walk uf_row T_BUNDLEFLAGS_W 0 (flat T_BUNDLEFLAGS) (N.to_nat 16384) = true
  /\ walk rs_row T_RULESPACE_W 0 (flat T_RULESPACE) (N.to_nat 223448) = true.
Proof. vm_compute. repeat split; reflexivity. Qed.

(* what the compiled code answered for input number j *)
Definition code_block_flags (w : N) : list byte := code_row (flat T_BLOCKFLAGS) T_BLOCKFLAGS_W (N.to_nat w).
Definition code_bundle_flags (i : N) : list byte := code_row (flat T_BUNDLEFLAGS) T_BUNDLEFLAGS_W (N.to_nat i).
Definition code_rule_space (i : N) : list byte := code_row (flat T_RULESPACE) T_RULESPACE_W (N.to_nat i).

Theorem tie_block_flags w : w < 256 -> N.land w 240 <> 240 -> code_block_flags w = [ch (block_flags_ok w)].
Proof.
  intros Hw Hd. destruct table_ok as (H & _). pose proof (walk_at _ _ _ _ H w ltac:(lia)) as H0.
  unfold bf_row in H0. apply orb_true_iff in H0 as [H0|H0]; [apply N.eqb_eq in H0; contradiction|apply bytes_eqb_eq in H0; exact H0].
Qed.

Theorem tie_bundle_flags i : i < 16384 -> N.land (word_of T_BUNDLE_BITS i) 57880 <> 57880 ->
  code_bundle_flags i = [ch (bundle_flags_ok (word_of T_BUNDLE_BITS i))].
Proof.
  intros Hi Hd. destruct table_ok as (_ & H & _). pose proof (walk_at _ _ _ _ H i ltac:(lia)) as H0.
  unfold uf_row in H0. cbv zeta in H0. apply orb_true_iff in H0 as [H0|H0]; [apply N.eqb_eq in H0; contradiction|apply bytes_eqb_eq in H0; exact H0].
Qed.

Theorem tie_rule_space i : i < 223448 -> code_rule_space i = [ch (is_valid (rs_bundle i))].
Proof.
  intros Hi. destruct table_ok as (_ & _ & H).
  pose proof (walk_at _ _ _ _ H i ltac:(lia)) as A. unfold rs_row in A. apply bytes_eqb_eq in A. exact A.
Qed.

