(* C18: hexify on every byte and unhexify on every two-character ASCII string, against the compiled crate's complete tables *)
From Coq Require Import Strings.String Strings.Ascii.
From BP7 Require Import Base.Prelude Gen.Consts Gen.Tbl_HEXIFY Gen.Tbl_UNHEX2 Proofs.TieBase Model.Hex.

(* HEXIFY: row b = hexify [b] *)
Definition hexify_row (b : N) (r : list byte) : bool := bytes_eqb r (hexify [n2b b]).
Definition unhex_answer (a b : N) : list byte :=
  match unhexify [n2b a; n2b b] with
  | Ok (Some [x]) => hex2 (b2n x)
  | Ok None => [x2d; x2d]
  | _ => []
  end.
Definition unhex_row (i : N) (r : list byte) : bool := bytes_eqb r (unhex_answer (i / 128) (i mod 128)).

Lemma table_ok :
  walk hexify_row T_HEXIFY_W 0 (flat T_HEXIFY) 256 = true
  /\ walk unhex_row T_UNHEX2_W 0 (flat T_UNHEX2) (N.to_nat 16384) = true.
Proof. vm_compute. repeat split; reflexivity. Qed.

Definition code_hexify (b : N) : list byte := code_row (flat T_HEXIFY) T_HEXIFY_W (N.to_nat b).
Definition code_unhex (a b : N) : list byte := code_row (flat T_UNHEX2) T_UNHEX2_W (N.to_nat (a * 128 + b)).

Theorem tie_hexify b : b < 256 -> code_hexify b = hexify [n2b b].
Proof.
  intros Hb. destruct table_ok as (H & _). pose proof (walk_at _ _ _ _ H b ltac:(lia)) as H0.
  unfold hexify_row in H0. apply bytes_eqb_eq in H0. exact H0.
Qed.

Theorem tie_unhex a b : a < 128 -> b < 128 -> code_unhex a b = unhex_answer a b.
Proof.
  intros Ha Hb. destruct table_ok as (_ & H). pose proof (walk_at _ _ _ _ H (a * 128 + b) ltac:(lia)) as H0.
  unfold unhex_row in H0. apply bytes_eqb_eq in H0. unfold code_unhex. rewrite H0.
  replace ((a * 128 + b) / 128) with a by (apply N.div_unique with b; lia).
  replace ((a * 128 + b) mod 128) with b by (apply N.mod_unique with a; lia). reflexivity.
Qed.

