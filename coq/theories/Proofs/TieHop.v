(* C08: hop_count_increase / _exceeded / _get on every (limit, count), against the compiled crate's complete table *)
From Coq Require Import Strings.String Strings.Ascii.
From BP7 Require Import Base.Prelude Gen.Consts Gen.Tbl_HOP Proofs.TieBase Model.Types Model.Validate Model.Ops Model.Api Model.Hex.

Definition hop_answer (l k : N) : list byte :=
  let c := mkcanonical HOP_COUNT_BLOCK 2 0 CrcNo (HopCount l k) in
  let '(inc, c') := hop_count_increase c in
  match hop_count_get c' with
  | Some (l2, k2) => if l2 =? l then [ch inc; ch (hop_count_exceeded c')] ++ hex2 k2 else []
  | None => []
  end.
Definition hop_row (i : N) (r : list byte) : bool := bytes_eqb r (hop_answer (i / 256) (i mod 256)).

Lemma table_ok :
  walk hop_row T_HOP_W 0 (flat T_HOP) (N.to_nat 65536) = true.
Proof. vm_compute. repeat split; reflexivity. Qed.

Definition code_hop (l k : N) : list byte := code_row (flat T_HOP) T_HOP_W (N.to_nat (l * 256 + k)).

Theorem tie_hop l k : l < 256 -> k < 256 -> code_hop l k = hop_answer l k.
Proof.
  intros Hl Hk. pose proof table_ok as H. pose proof (walk_at _ _ _ _ H (l * 256 + k) ltac:(lia)) as H0.
  unfold hop_row in H0. apply bytes_eqb_eq in H0. unfold code_hop. rewrite H0.
  replace ((l * 256 + k) / 256) with l by (apply N.div_unique with k; lia).
  replace ((l * 256 + k) mod 256) with k by (apply N.mod_unique with l; lia). reflexivity.
Qed.

