(* C08: Bundle::update_extensions on every hop count block (limit, count), against the compiled crate's complete table *)
From Coq Require Import Strings.String Strings.Ascii.
From BP7 Require Import Base.Prelude Gen.Consts Gen.Tbl_HOP Proofs.TieBase Model.Types Model.Validate Model.Ops Model.Hex.

(* HOP: row l*256+k = Bundle::update_extensions (node dtn://h/, residence 0, clock 2000-01-01 + 2 s) on the bundle [hop count (l,k) #2;
   payload #1] with creation time 1000 and a one-hour lifetime: the returned bool; when true the count afterwards; when false only
   whether the count went down (`ww`), which is all the property says about that case *)
Definition hop_bundle (l k : N) : bundle :=
  mkbundle (mkprimary 7 0 CrcNo (Dtn 1 [x2f; x2f; x64; x2f]) (Dtn 1 [x2f; x2f; x73; x2f]) eid_none 1000 0 3600000 0 0)
           [mkcanonical HOP_COUNT_BLOCK 2 0 CrcNo (HopCount l k); mkcanonical 1 1 0 CrcNo (Data [x78])].
Definition count_of (b : bundle) : option N :=
  match find (fun c => c_type c =? HOP_COUNT_BLOCK) (b_canonicals b) with
  | Some c => match c_data c with HopCount _ k2 => Some k2 | _ => None end
  | None => None
  end.
Definition hop_answer (l k : N) : list byte :=
  match update_extensions Checked 946684802000 (Dtn 1 [x2f; x2f; x68; x2f]) 0 (hop_bundle l k) with
  | Ok (ret, b') =>
    match count_of b' with
    | Some k2 => if ret then x31 :: hex2 k2 else if k2 <? k then [x30; x77; x77] else [x30; x2d; x2d]
    | None => []
    end
  | _ => []
  end.
Definition hop_row (i : N) (r : list byte) : bool := bytes_eqb r (hop_answer (i / 256) (i mod 256)).

Lemma table_ok :
  walk hop_row T_HOP_W 0 (flat T_HOP) (N.to_nat 65536) = true.
Proof. vm_compute. repeat split; reflexivity. Qed.

Definition code_hop (l k : N) : list byte := code_row (flat T_HOP) T_HOP_W (N.to_nat (l * 256 + k)).

Theorem tie_hop l k : l < 256 -> k < 256 -> code_hop l k = hop_answer l k.
Proof.
  intros Hl Hk. pose proof table_ok as H. pose proof (walk_at _ _ _ _ H (l * 256 + k) ltac:(lia)) as H0.
  unfold hop_row in H0. apply bytes_eqb_eq in H0. unfold code_hop. rewrite H0.
  replace ((l * 256 + k) / 256) with l by (apply N.div_unique with k; lia).
  replace ((l * 256 + k) mod 256) with k by (apply N.mod_unique with l; lia). reflexivity.
Qed.

