(* C06: the decoder model never panics, for any byte string; the recursion budget is effective; every
   length claim is checked against the remaining input before bytes are taken. *)
From BP7 Require Import Base.Prelude Base.Utf8 Gen.Consts Cbor.SerdeDe Model.Types Model.Decode Proofs.DecodeImage.

Lemma recursion_checked_panic {A} (f : st -> res A * st) s p s' :
  recursion_checked f s = (Panic p, s') -> exists s1 s2, f s1 = (Panic p, s2).
Proof.
  unfold recursion_checked. intros H. repeat inv_step H; try discriminate. inversion H; subst. eauto.
Qed.

(* a Panic out of parse_value can only come out of a visitor method *)
Definition panicked {A} (v : visitor A) (p : psite) : Prop :=
  (exists n, v_uint v n = Panic p) \/ v_nint v = Panic p \/ (exists x, v_bytes v x = Panic p)
  \/ (exists x, v_text v x = Panic p) \/ (exists b, v_bool v b = Panic p) \/ v_unit v = Panic p
  \/ v_float v = Panic p \/ v_map v = Panic p
  \/ (exists body acc s1 acc' s2, v_seq v = Some body /\ body acc s1 = (Panic p, acc', s2)).

Lemma arg_of_no_panic ai s p s' : arg_of ai s <> (Panic p, s').
Proof. unfold arg_of, read_arg. intros H. repeat inv_step H; discriminate. Qed.

Lemma chunks_no_panic major f : forall buf s p s', chunks major f buf s <> (Panic p, s').
Proof.
  induction f as [|f IH]; intros buf s p s' H; [discriminate|]. cbn [chunks] in H.
  repeat inv_step H; try discriminate; try (eapply IH; eassumption).
  all: try match goal with E : arg_of _ _ = (Panic _, _) |- _ => eapply arg_of_no_panic; eassumption end.
Qed.

Lemma parse_array_panic {A} (v : visitor A) n s p s' : parse_array v n s = (Panic p, s') -> panicked v p.
Proof.
  unfold parse_array. intros H. apply recursion_checked_panic in H as (s1 & s2 & H).
  repeat inv_step H; try discriminate. inversion H; subst. unfold panicked. do 8 right. eauto 10.
Qed.
Lemma parse_indef_array_panic {A} (v : visitor A) s p s' : parse_indef_array v s = (Panic p, s') -> panicked v p.
Proof.
  unfold parse_indef_array. intros H. apply recursion_checked_panic in H as (s1 & s2 & H).
  repeat inv_step H; try discriminate. inversion H; subst. unfold panicked. do 8 right. eauto 10.
Qed.

Lemma parse_value_panic {A} (v : visitor A) f : forall s p s', parse_value v f s = (Panic p, s') -> panicked v p.
Proof.
  induction f as [|f IH]; intros s p s' H; [discriminate|].
  cbn [parse_value] in H.
  destruct (inp s) as [|b r]; [discriminate|].
  destruct (b2n b / 32 =? 0).
  { destruct (arg_of _ _) as [[n|e|q] s2] eqn:E; try discriminate; [|exfalso; eapply arg_of_no_panic; eassumption].
    inversion H; subst. left. eauto. }
  destruct (b2n b / 32 =? 1).
  { destruct (arg_of _ _) as [[n|e|q] s2] eqn:E; try discriminate; [|exfalso; eapply arg_of_no_panic; eassumption].
    inversion H; subst. right; left. assumption. }
  destruct (b2n b / 32 =? 2).
  { destruct (b2n b mod 32 =? 31).
    - destruct (chunks 2 f [] _) as [[buf|e|q] s2] eqn:E; try discriminate; [|exfalso; eapply chunks_no_panic; eassumption].
      inversion H; subst. right; right; left. eauto.
    - destruct (arg_of _ _) as [[n|e|q] s2] eqn:E; try discriminate; [|exfalso; eapply arg_of_no_panic; eassumption].
      destruct (takeN n (inp s2)) as [[x r']|]; try discriminate. inversion H; subst. right; right; left. eauto. }
  destruct (b2n b / 32 =? 3).
  { destruct (b2n b mod 32 =? 31).
    - destruct (chunks 3 f [] _) as [[buf|e|q] s2] eqn:E; try discriminate; [|exfalso; eapply chunks_no_panic; eassumption].
      destruct (utf8_valid buf); try discriminate. inversion H; subst. do 3 right; left. eauto.
    - destruct (arg_of _ _) as [[n|e|q] s2] eqn:E; try discriminate; [|exfalso; eapply arg_of_no_panic; eassumption].
      destruct (takeN n (inp s2)) as [[x r']|]; try discriminate. destruct (utf8_valid x); try discriminate.
      inversion H; subst. do 3 right; left. eauto. }
  destruct (b2n b / 32 =? 4).
  { destruct (b2n b mod 32 =? 31); [eapply parse_indef_array_panic; eassumption|].
    destruct (arg_of _ _) as [[n|e|q] s2] eqn:E; try discriminate; [|exfalso; eapply arg_of_no_panic; eassumption].
    eapply parse_array_panic; eassumption. }
  destruct (b2n b / 32 =? 5).
  { destruct (b2n b mod 32 =? 31).
    - apply recursion_checked_panic in H as (s1 & s2 & H). inversion H; subst. do 7 right; left. assumption.
    - destruct (arg_of _ _) as [[n|e|q] s2] eqn:E; try discriminate; [|exfalso; eapply arg_of_no_panic; eassumption].
      apply recursion_checked_panic in H as (s1 & s3 & H). inversion H; subst. do 7 right; left. assumption. }
  destruct (b2n b / 32 =? 6).
  { destruct (arg_of _ _) as [[n|e|q] s2] eqn:E; try discriminate; [|exfalso; eapply arg_of_no_panic; eassumption].
    apply recursion_checked_panic in H as (s1 & s3 & H). eapply IH; eassumption. }
  repeat inv_step H; try discriminate; inversion H; subst.
  - do 4 right; left; eauto.
  - do 4 right; left; eauto.
  - do 5 right; left; assumption.
  - do 6 right; left; assumption.
  - do 6 right; left; assumption.
  - do 6 right; left; assumption.
Qed.

(* primitive visitors never panic *)
Lemma uint_no_panic bound f s p s' : parse_value (vis_uint bound) f s <> (Panic p, s').
Proof.
  intros H. apply parse_value_panic in H. unfold panicked in H. cbn [v_uint v_nint v_bytes v_text v_bool v_unit v_float v_map v_seq vis_uint] in H.
  destruct H as [(k & H)|[H|[(x & H)|[(x & H)|[(b & H)|[H|[H|[H|(body & ? & ? & ? & ? & H & _)]]]]]]]]; try discriminate.
  destruct (k <? bound); discriminate.
Qed.
Lemma string_no_panic f s p s' : parse_value vis_string f s <> (Panic p, s').
Proof.
  intros H. apply parse_value_panic in H. unfold panicked in H. cbn [v_uint v_nint v_bytes v_text v_bool v_unit v_float v_map v_seq vis_string] in H.
  destruct H as [(k & H)|[H|[(x & H)|[(x & H)|[(b & H)|[H|[H|[H|(body & ? & ? & ? & ? & H & _)]]]]]]]]; try discriminate.
  destruct (utf8_valid x); discriminate.
Qed.

Lemma seq_panic {A} (body : seq_access -> st -> res A * seq_access * st) f s p s' :
  parse_value (vis_seq body) f s = (Panic p, s') -> exists acc s1 acc' s2, body acc s1 = (Panic p, acc', s2).
Proof.
  intros H. apply parse_value_panic in H. unfold panicked in H. cbn [v_uint v_nint v_bytes v_text v_bool v_unit v_float v_map v_seq vis_seq] in H.
  destruct H as [(k & H)|[H|[(x & H)|[(x & H)|[(b & H)|[H|[H|[H|(body' & acc & s1 & acc' & s2 & Hb & H)]]]]]]]]; try discriminate.
  inversion Hb; subst. eauto.
Qed.

Lemma next_element_panic {A} (p : st -> res A * st) acc s q acc' s' :
  next_element p acc s = (Panic q, acc', s') -> exists s0 s1, p s0 = (Panic q, s1).
Proof.
  unfold next_element. intros H. repeat inv_step H; try discriminate;
    match goal with E : p _ = (?r, _) |- _ => destruct r; cbn [rmap bind] in H; try discriminate; inversion H; subst; eauto end.
Qed.

(* a parser that never panics, composed through `field`, panics only if the continuation does *)
Definition never_panics {A} (p : st -> res A * st) : Prop := forall s q s', p s <> (Panic q, s').

Lemma field_panic {A B} (p : st -> res A * st) acc s (k : A -> seq_access -> st -> res B * seq_access * st) q acc' s' :
  never_panics p -> field p acc s k = (Panic q, acc', s') -> exists a acc1 s1, k a acc1 s1 = (Panic q, acc', s').
Proof.
  intros Hp. unfold field. intros H. destruct (next_element p acc s) as [[r acc1] s1] eqn:E.
  destruct r as [[a|]|e|q']; try discriminate; [eauto|].
  apply next_element_panic in E as (s0 & s2 & E). exfalso. eapply Hp; eassumption.
Qed.

Lemma seq_loop_no_panic {A} (p : st -> res A * st) : never_panics p ->
  forall f acc s q acc' s', seq_loop p f acc s <> (Panic q, acc', s').
Proof.
  intros Hp. induction f as [|f IH]; intros acc s q acc' s' H; [discriminate|].
  cbn [seq_loop] in H. destruct (next_element p acc s) as [[r acc1] s1] eqn:E.
  destruct r as [[a|]|e|q']; try discriminate.
  - destruct (seq_loop p f acc1 s1) as [[r' acc2] s2] eqn:E2.
    destruct r' as [l'|e|q']; cbn [rmap bind] in H; try discriminate. inversion H; subst. eapply IH; eassumption.
  - apply next_element_panic in E as (s0 & s2 & E). eapply Hp; eassumption.
Qed.

Lemma p_uint_np bound f : never_panics (parse_value (vis_uint bound) f).
Proof. intros s q s'. apply uint_no_panic. Qed.

Lemma bytebuf_np f : never_panics (p_bytebuf f).
Proof.
  intros s q s' H. unfold p_bytebuf in H. apply parse_value_panic in H. unfold panicked in H.
  cbn [v_uint v_nint v_bytes v_text v_bool v_unit v_float v_map v_seq vis_bytebuf] in H.
  destruct H as [(k & H)|[H|[(x & H)|[(x & H)|[(b & H)|[H|[H|[H|(body & acc & s1 & acc' & s2 & Hb & H)]]]]]]]]; try discriminate.
  inversion Hb; subst. clear Hb.
  destruct (seq_loop (parse_value (vis_uint u8_bound) f) f acc s1) as [[r a2] s3] eqn:E.
  destruct r as [l|e|q']; cbn [rmap bind] in H; try discriminate. inversion H; subst.
  eapply seq_loop_no_panic; [apply p_uint_np|eassumption].
Qed.

Lemma pair_np b1 b2 f : never_panics (p_pair b1 b2 f).
Proof.
  intros s q s' H. apply seq_panic in H as (acc & s1 & acc' & s2 & H). unfold pair_body in H.
  apply field_panic in H as (a & acc1 & s3 & H); [|apply p_uint_np].
  apply field_panic in H as (b & acc2 & s4 & H); [|apply p_uint_np]. discriminate.
Qed.

Lemma eid_np f : never_panics (p_eid f).
Proof.
  intros s q s' H. apply seq_panic in H as (acc & s1 & acc' & s2 & H). unfold eid_body in H.
  apply field_panic in H as (t & acc1 & s3 & H); [|apply p_uint_np].
  destruct (t =? ENDPOINT_URI_SCHEME_DTN).
  - destruct (next_element (parse_value vis_string f) acc1 s3) as [[r acc2] s4] eqn:E.
    destruct r as [[[|c n]|]|e|q']; try discriminate.
    apply next_element_panic in E as (s5 & s6 & E). eapply string_no_panic; eassumption.
  - destruct (t =? ENDPOINT_URI_SCHEME_IPN); [|discriminate].
    apply field_panic in H as (ns & acc2 & s4 & H); [|apply pair_np]. destruct (fst ns <? 1); discriminate.
Qed.

Lemma crc_field_panic {B} f ct acc s (k : crc_value -> seq_access -> st -> res B * seq_access * st) q acc' s' :
  crc_field f ct acc s k = (Panic q, acc', s') -> exists c acc1 s1, k c acc1 s1 = (Panic q, acc', s').
Proof.
  unfold crc_field. intros H.
  destruct (ct =? CRC_NO); [eauto|].
  destruct (ct =? CRC_16).
  { apply field_panic in H as (buf & acc1 & s1 & H); [|apply bytebuf_np]. destruct (Nat.eqb (length buf) 2); [eauto|discriminate]. }
  destruct (ct =? CRC_32).
  { apply field_panic in H as (buf & acc1 & s1 & H); [|apply bytebuf_np]. destruct (Nat.eqb (length buf) 4); [eauto|discriminate]. }
  eauto.
Qed.

Lemma primary_np f : never_panics (p_primary f).
Proof.
  intros s q s' H. apply seq_panic in H as (acc & s1 & acc' & s2 & H). unfold primary_body in H.
  apply field_panic in H as (ver & a1 & ? & H); [|apply p_uint_np].
  apply field_panic in H as (flags & a2 & ? & H); [|apply p_uint_np].
  apply field_panic in H as (ct & a3 & ? & H); [|apply p_uint_np].
  apply field_panic in H as (dst & a4 & ? & H); [|apply eid_np].
  apply field_panic in H as (src & a5 & ? & H); [|apply eid_np].
  apply field_panic in H as (rpt & a6 & ? & H); [|apply eid_np].
  apply field_panic in H as (ts & a7 & ? & H); [|apply pair_np].
  apply field_panic in H as (life & a8 & sl & H); [|apply p_uint_np].
  cbv zeta in H.
  match type of H with (if ?c then _ else _) = _ => destruct c end.
  - apply field_panic in H as (off & a9 & ? & H); [|apply p_uint_np].
    apply field_panic in H as (len & a10 & ? & H); [|apply p_uint_np].
    apply crc_field_panic in H as (c & ? & ? & H). discriminate.
  - apply crc_field_panic in H as (c & ? & ? & H). discriminate.
Qed.

Lemma from_slice_np {A} (p : nat -> st -> res A * st) bs : (forall f, never_panics (p f)) -> forall q, from_slice p bs <> Panic q.
Proof.
  intros Hp q H. unfold from_slice in H. destruct (p (S (length bs)) (mkst bs 128)) as [r s] eqn:E.
  destruct r as [a|e|q']; try discriminate; [destruct (inp s); discriminate|]. eapply Hp; eassumption.
Qed.

Lemma decode_cdata_np ty raw q : decode_cdata ty raw <> Panic q.
Proof.
  unfold decode_cdata. intros H.
  destruct (ty =? PAYLOAD_BLOCK); [discriminate|].
  destruct (ty =? BUNDLE_AGE_BLOCK).
  { destruct (from_slice p_u64 raw) as [a|e|q'] eqn:E; try discriminate. eapply (from_slice_np p_u64); [|eassumption]. intros f. apply p_uint_np. }
  destruct (ty =? HOP_COUNT_BLOCK).
  { destruct (from_slice (p_pair u8_bound u8_bound) raw) as [a|e|q'] eqn:E; try discriminate.
    eapply (from_slice_np (p_pair u8_bound u8_bound)); [|eassumption]. intros f. apply pair_np. }
  destruct (ty =? PREVIOUS_NODE_BLOCK).
  { destruct (from_slice p_eid raw) as [a|e|q'] eqn:E; try discriminate. eapply (from_slice_np p_eid); [|eassumption]. intros f. apply eid_np. }
  discriminate.
Qed.

Lemma canonical_np f : never_panics (p_canonical f).
Proof.
  intros s q s' H. apply seq_panic in H as (acc & s1 & acc' & s2 & H). unfold canonical_body in H.
  apply field_panic in H as (ty & a1 & ? & H); [|apply p_uint_np].
  apply field_panic in H as (num & a2 & ? & H); [|apply p_uint_np].
  apply field_panic in H as (fl & a3 & ? & H); [|apply p_uint_np].
  apply field_panic in H as (ct & a4 & ? & H); [|apply p_uint_np].
  apply field_panic in H as (raw & a5 & ? & H); [|apply bytebuf_np].
  destruct (decode_cdata ty raw) as [d|e|q'] eqn:Ed; try discriminate.
  - apply crc_field_panic in H as (c & ? & ? & H). discriminate.
  - eapply decode_cdata_np; eassumption.
Qed.

Lemma bundle_np f : never_panics (p_bundle f).
Proof.
  intros s q s' H. apply seq_panic in H as (acc & s1 & acc' & s2 & H). unfold bundle_body in H.
  apply field_panic in H as (prim & a1 & s3 & H); [|apply primary_np].
  destruct (seq_loop (p_canonical f) f a1 s3) as [[r a2] s4] eqn:E.
  destruct r as [cs|e|q']; cbn [rmap bind] in H; try discriminate. inversion H; subst.
  eapply seq_loop_no_panic; [apply canonical_np|eassumption].
Qed.

Theorem decode_total bs : no_panic (from_cbor bs).
Proof. intros q. unfold from_cbor. apply from_slice_np. intros f. apply bundle_np. Qed.

(* every string read is bounds-checked first: content is only ever obtained through takeN *)
Theorem length_claims_checked n l x r : takeN n l = Some (x, r) -> n <= Nlen l /\ l = x ++ r /\ Nlen x = n.
Proof.
  intros H. pose proof (takeN_some n l x r H) as [Hl Hn]. unfold takeN in H. rewrite at_least_leb in H.
  destruct (n <=? N.of_nat (length l)) eqn:E; [|discriminate]. apply N.leb_le in E. unfold Nlen. auto.
Qed.

(* the recursion budget is effective: as many nested tags as the remaining depth are rejected *)
Definition tag_byte : byte := n2b 193.          (* 0xc1: tag 1 *)
Lemma nested_tags_rejected {A} (v : visitor A) : forall k d f r, (N.to_nat d <= k)%nat -> (1 <= k)%nat ->
  exists e s', parse_value v f (mkst (repeat_byte tag_byte k ++ r) d) = (Err e, s').
Proof.
  induction k as [|k IH]; intros d f r Hd Hk; [lia|].
  destruct f as [|f]; [eexists; eexists; reflexivity|].
  cbn [repeat_byte app parse_value inp]. assert (Htb : b2n tag_byte = 193) by (vm_compute; reflexivity). rewrite !Htb.
  change (193 / 32) with 6. change (193 mod 32) with 1.
  change (6 =? 0) with false. change (6 =? 1) with false. change (6 =? 2) with false. change (6 =? 3) with false.
  change (6 =? 4) with false. change (6 =? 5) with false. change (6 =? 6) with true. cbv iota.
  unfold arg_of. change (1 <? 24) with true. cbv iota. unfold set_inp. cbn [inp depth].
  unfold recursion_checked. cbn [inp depth].
  destruct (d - 1 =? 0) eqn:E; [eexists; eexists; reflexivity|].
  apply N.eqb_neq in E.
  destruct (IH (d - 1) f r ltac:(lia) ltac:(lia)) as (e & s' & H). rewrite H. eexists; eexists; reflexivity.
Qed.

Theorem depth_bounded bs k : (128 <= k)%nat -> exists e, from_cbor (repeat_byte tag_byte k ++ bs) = Err e.
Proof.
  intros Hk. unfold from_cbor, from_slice, p_bundle.
  destruct (nested_tags_rejected (vis_seq (bundle_body (S (length (repeat_byte tag_byte k ++ bs))))) k 128
              (S (length (repeat_byte tag_byte k ++ bs))) bs ltac:(cbn; lia) ltac:(lia)) as (e & s' & H).
  rewrite H. eexists. reflexivity.
Qed.
