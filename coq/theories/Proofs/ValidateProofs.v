(* C07: Bundle::validate (model) accepts exactly the bundles satisfying the rules of Spec/Rules.v. *)
From BP7 Require Import Base.Prelude Gen.Consts Model.Types Model.Validate Spec.Rules Proofs.DecodeImage.

Lemma has_bits_sub w mask f : N.land mask f = f -> has_bits w mask f = bit_set w f.
Proof. intros H. unfold has_bits, bit_set. rewrite <- N.land_assoc, H. reflexivity. Qed.
Ltac flag_eq := unfold bundle_flag, block_flag; apply has_bits_sub; vm_compute; reflexivity.
Lemma bf_frag w : bundle_flag w BUNDLE_IS_FRAGMENT = bit_set w 1. Proof. flag_eq. Qed.
Lemma bf_admin w : bundle_flag w BUNDLE_ADMINISTRATIVE_RECORD_PAYLOAD = bit_set w 2. Proof. flag_eq. Qed.
Lemma bf_nofrag w : bundle_flag w BUNDLE_MUST_NOT_FRAGMENTED = bit_set w 4. Proof. flag_eq. Qed.
Lemma bf_rcv w : bundle_flag w BUNDLE_STATUS_REQUEST_RECEPTION = bit_set w 16384. Proof. flag_eq. Qed.
Lemma bf_fwd w : bundle_flag w BUNDLE_STATUS_REQUEST_FORWARD = bit_set w 65536. Proof. flag_eq. Qed.
Lemma bf_dlv w : bundle_flag w BUNDLE_STATUS_REQUEST_DELIVERY = bit_set w 131072. Proof. flag_eq. Qed.
Lemma bf_del w : bundle_flag w BUNDLE_STATUS_REQUEST_DELETION = bit_set w 262144. Proof. flag_eq. Qed.
Lemma bf_res w : bundle_flag w BUNDLE_CFRESERVED_FIELDS = bit_set w 57880. Proof. flag_eq. Qed.
Lemma kf_status w : block_flag w BLOCK_STATUS_REPORT = bit_set w 2. Proof. flag_eq. Qed.
Lemma kf_res w : block_flag w BLOCK_CFRESERVED_FIELDS = bit_set w 240. Proof. flag_eq. Qed.

Lemma eid_valid_wf e : eid_valid e = eid_well_formed e.
Proof.
  destruct e; cbn [eid_valid eid_well_formed]; unfold ENDPOINT_URI_SCHEME_IPN, ENDPOINT_URI_SCHEME_DTN; try reflexivity.
  f_equal. destruct (node <? 1) eqn:E; [apply N.ltb_lt in E|apply N.ltb_ge in E]; cbn [negb]; symmetry;
    [apply N.leb_gt; lia|apply N.leb_le; lia].
Qed.
Lemma extension_valid_ok c : extension_valid c = block_data_ok c.
Proof.
  unfold extension_valid, block_data_ok, PAYLOAD_BLOCK, BUNDLE_AGE_BLOCK, HOP_COUNT_BLOCK, PREVIOUS_NODE_BLOCK.
  destruct (c_data c); try reflexivity. rewrite eid_valid_wf. reflexivity.
Qed.

Definition b2nat (b : bool) : nat := if b then 1%nat else 0%nat.
Definition block_clean (strict : bool) (c : canonical) : bool :=
  negb (block_flag (c_flags c) BLOCK_CFRESERVED_FIELDS) && extension_valid c
  && negb (strict && block_flag (c_flags c) BLOCK_STATUS_REPORT).

Lemma block_clean_iff strict c : block_clean strict c = true <->
  block_flag (c_flags c) BLOCK_CFRESERVED_FIELDS = false /\ extension_valid c = true
  /\ strict && block_flag (c_flags c) BLOCK_STATUS_REPORT = false.
Proof. unfold block_clean. rewrite !andb_true_iff, !negb_true_iff. tauto. Qed.

Lemma app_nil_iff {A} (x y : list A) : x ++ y = [] <-> x = [] /\ y = [].
Proof. split; [apply app_eq_nil|intros [-> ->]; reflexivity]. Qed.
Lemma if_nil_iff {A} (c : bool) (x : list A) : x <> [] -> ((if c then x else []) = [] <-> c = false).
Proof. intros Hx. destruct c; split; intros H; try reflexivity; try discriminate; contradiction. Qed.
Lemma if_nil_iff' {A} (c : bool) (x : list A) : x <> [] -> ((if c then [] else x) = [] <-> c = true).
Proof. intros Hx. destruct c; split; intros H; try reflexivity; try discriminate; contradiction. Qed.

Lemma count_cons x y l : count x (y :: l) = ((if N.eqb x y then 1 else 0) + count x l)%nat.
Proof. reflexivity. Qed.

(* the per-block loop has no error iff every block is clean, numbers are fresh and pairwise distinct, and
   each singleton type occurs at most once (counting what was seen before) *)
Lemma block_loop_spec strict cs : forall nums types,
  fst (block_loop strict cs nums types) = [] <->
  (forallb (block_clean strict) cs = true
   /\ nodupb (map c_num cs) = true /\ (forall c, In c cs -> memN (c_num c) nums = false)
   /\ (forall ty, is_singleton_type ty = true -> (count ty (map c_type cs) + b2nat (memN ty types) <= 1)%nat)).
Proof.
  induction cs as [|c cs IH]; intros nums types.
  - cbn [block_loop fst forallb map nodupb count]. split; [intros _|reflexivity].
    repeat split; try reflexivity; [intros ? []|]. intros ty _. destruct (memN ty types); cbn; lia.
  - cbn [block_loop]. destruct (block_loop strict cs (c_num c :: nums) (c_type c :: types)) as [rest tys] eqn:E.
    specialize (IH (c_num c :: nums) (c_type c :: types)). rewrite E in IH. cbn [fst] in *.
    unfold canonical_validate. rewrite !app_nil_iff.
    rewrite (if_nil_iff (block_flag _ _)), (if_nil_iff' (extension_valid c)), (if_nil_iff (strict && _)),
            (if_nil_iff (memN (c_num c) nums)), (if_nil_iff (memN (c_type c) types && _)) by discriminate.
    rewrite IH. cbn [forallb map nodupb].
    rewrite (andb_true_iff (block_clean strict c)), block_clean_iff, (andb_true_iff (negb _)), negb_true_iff.
    split.
    + intros (((Hres & Hext) & Hst & Hnum & Hty) & Hall & Hnd & Hfresh & Hcount).
      repeat split; try assumption.
      * destruct (memN (c_num c) (map c_num cs)) eqn:Em; [|reflexivity].
        apply memN_In in Em. apply in_map_iff in Em as (c' & Heq & Hin).
        specialize (Hfresh c' Hin). cbn [memN] in Hfresh. rewrite Heq, N.eqb_refl in Hfresh. discriminate.
      * intros c' [<-|Hin]; [assumption|]. specialize (Hfresh c' Hin). cbn [memN] in Hfresh.
        apply orb_false_iff in Hfresh as [_ H]. exact H.
      * intros ty Hs. specialize (Hcount ty Hs). rewrite count_cons. cbn [memN] in Hcount.
        destruct (ty =? c_type c) eqn:Ety.
        -- apply N.eqb_eq in Ety. subst ty. cbn [orb b2nat] in Hcount. rewrite Hs, andb_true_r in Hty. rewrite Hty. cbn [b2nat]. lia.
        -- cbn [orb] in Hcount. lia.
    + intros (((Hres & Hext & Hst) & Hall) & (Hnot & Hnd) & Hfresh & Hcount).
      assert (Hnum : memN (c_num c) nums = false) by (apply Hfresh; left; reflexivity).
      assert (Hty : memN (c_type c) types && is_singleton_type (c_type c) = false).
      { destruct (is_singleton_type (c_type c)) eqn:Es; [|apply andb_false_r]. rewrite andb_true_r.
        specialize (Hcount (c_type c) Es). rewrite count_cons, N.eqb_refl in Hcount. destruct (memN (c_type c) types); [cbn in Hcount; lia|reflexivity]. }
      repeat split; try assumption.
      * intros c' Hin. cbn [memN]. apply orb_false_iff. split.
        -- apply N.eqb_neq. intros Heq. destruct (memN (c_num c) (map c_num cs)) eqn:Em; [discriminate|].
           assert (In (c_num c) (map c_num cs)) by (rewrite <- Heq; apply in_map; assumption).
           apply memN_In in H. congruence.
        -- apply Hfresh. right. assumption.
      * intros ty Hs. specialize (Hcount ty Hs). rewrite count_cons in Hcount. cbn [memN].
        destruct (ty =? c_type c) eqn:Ety; cbn [orb b2nat] in *; [|lia].
        apply N.eqb_eq in Ety. subst ty. rewrite Hs, andb_true_r in Hty. rewrite Hty in Hcount. cbn [b2nat] in Hcount. lia.
Qed.

Lemma block_loop_types strict cs : forall nums types ty,
  memN ty (snd (block_loop strict cs nums types)) = memN ty (map c_type cs) || memN ty types.
Proof.
  induction cs as [|c cs IH]; intros nums types ty; [reflexivity|].
  cbn [block_loop]. destruct (block_loop strict cs (c_num c :: nums) (c_type c :: types)) as [rest tys] eqn:E.
  specialize (IH (c_num c :: nums) (c_type c :: types) ty). rewrite E in IH. cbn [snd] in *. rewrite IH.
  cbn [map memN]. destruct (ty =? c_type c), (memN ty (map c_type cs)), (memN ty types); reflexivity.
Qed.

Lemma has_type_mem ty cs : has_type ty cs = memN ty (map c_type cs).
Proof.
  unfold has_type. induction cs as [|c cs IH]; [reflexivity|]. cbn [existsb map memN]. rewrite IH, (N.eqb_sym ty). reflexivity.
Qed.

(* under the decoder's shape and with every block's data consistent, a payload is present iff a type-1 block is *)
Lemma payload_present b : decodable_shape b = true -> forallb extension_valid (b_canonicals b) = true ->
  ((match payload b with None => [VNoPayload] | Some _ => [] end) = [] <-> has_type 1 (b_canonicals b) = true).
Proof.
  unfold decodable_shape, payload, ext_block_by_type, has_type. intros Hs Hv. apply andb_true_iff in Hs as [_ Hs].
  induction (b_canonicals b) as [|c cs IH]; cbn [find existsb forallb] in *.
  - split; discriminate.
  - apply andb_true_iff in Hs as [Hc Hs]. apply andb_true_iff in Hv as [Hvc Hv]. rewrite Hvc, andb_true_r.
    unfold PAYLOAD_BLOCK. destruct (c_type c =? 1) eqn:E; cbn [orb].
    + unfold dec_canonical in Hc. repeat (apply andb_true_iff in Hc as [Hc ?]).
      apply N.eqb_eq in E. unfold dec_data in H. rewrite E in H.
      destruct (c_data c); try discriminate; split; reflexivity.
    + apply IH; assumption.
Qed.

Theorem validate_iff_rules b : decodable_shape b = true -> reserved_clear b = true ->
  (validate b = [] <-> rules b = true).
Proof.
  intros Hshape Hres. unfold reserved_clear in Hres. apply andb_true_iff in Hres as [Hr1 Hr2]. apply negb_true_iff in Hr1.
  unfold validate, rules. cbv zeta.
  destruct (block_loop _ (b_canonicals b) [] []) as [errs types] eqn:E.
  pose proof (block_loop_spec (is_admin_record b || eid_eqb (p_src (b_primary b)) eid_none) (b_canonicals b) [] []) as HL.
  pose proof (fun ty => block_loop_types (is_admin_record b || eid_eqb (p_src (b_primary b)) eid_none) (b_canonicals b) [] [] ty) as HT.
  rewrite E in HL, HT. cbn [fst snd] in HL, HT.
  set (p := b_primary b) in *. set (cs := b_canonicals b) in *. set (f := p_flags p) in *.
  unfold is_admin_record, primary_validate, bundle_flags_validate, status_request_mask_clear in *. fold p f in HL |- *.
  rewrite bf_admin, bf_frag, bf_nofrag, bf_rcv, bf_fwd, bf_dlv, bf_del, bf_res, Hr1 in *.
  rewrite !eid_valid_wf. unfold DTN_VERSION, BUNDLE_AGE_BLOCK, eid_none, ENDPOINT_URI_SCHEME_DTN in *.
  rewrite !app_nil_iff.
  rewrite (if_nil_iff' (p_version p =? 7)), (if_nil_iff (bit_set f 1 && bit_set f 4)),
          (if_nil_iff' (negb (bit_set f 2) || _)), !(if_nil_iff' (eid_well_formed _)), (if_nil_iff ((p_time p =? 0) && _)) by discriminate.
  rewrite HL, HT. cbn [memN orb app]. rewrite orb_false_r, <- has_type_mem.
  rewrite !andb_true_iff.
  set (strict := bit_set f 2 || eid_eqb (p_src p) (DtnNone 1 0)) in *.
  assert (Hclean : forallb (block_clean strict) cs = true <->
            forallb block_data_ok cs = true /\ (negb strict || forallb (fun c => negb (bit_set (c_flags c) 2)) cs) = true).
  { clear - Hr2. unfold block_clean. induction cs as [|c cs IH]; cbn [forallb].
    - destruct strict; split; auto.
    - apply andb_true_iff in Hr2 as [Hc Hr2]. rewrite kf_res, kf_status, extension_valid_ok, Hc. cbn [andb].
      rewrite !andb_true_iff, (IH Hr2). destruct strict; cbn [negb orb andb]; rewrite ?negb_true_iff; [|tauto].
      rewrite andb_true_iff, negb_true_iff. tauto. }
  assert (Hcount : (forall ty, is_singleton_type ty = true -> (count ty (map c_type cs) + b2nat false <= 1)%nat) <->
                   at_most_once 6 cs = true /\ at_most_once 7 cs = true /\ at_most_once 10 cs = true).
  { unfold at_most_once, is_singleton_type, BUNDLE_AGE_BLOCK, HOP_COUNT_BLOCK, PREVIOUS_NODE_BLOCK. cbn [b2nat]. split.
    - intros H. pose proof (H 6 eq_refl) as H6. pose proof (H 7 eq_refl) as H7. pose proof (H 10 eq_refl) as H10.
      repeat split; apply Nat.leb_le; lia.
    - intros (H6 & H7 & H10) ty Hty. apply Nat.leb_le in H6, H7, H10.
      apply orb_true_iff in Hty as [Hty|Hty]; [apply orb_true_iff in Hty as [Hty|Hty]|]; apply N.eqb_eq in Hty; subst; lia. }
  assert (Hpay : forallb block_data_ok cs = true ->
            ((match payload b with None => [VNoPayload] | Some _ => [] end) = [] <-> has_type 1 cs = true)).
  { intros Hd. apply payload_present; [assumption|]. fold cs.
    clear - Hd. induction cs as [|c cs IH]; [reflexivity|]. cbn [forallb] in *. apply andb_true_iff in Hd as [H1 H2].
    rewrite extension_valid_ok, H1, (IH H2). reflexivity. }
  rewrite Hclean, Hcount.
  split.
  - intros ((Hv & ((_ & Hfr & Had) & Hd & Hs & Hr) ) & (((Hdo & Hst) & Hnd & _ & H6 & H7 & H10) & Hage & Hp)).
    apply Hpay in Hp; [|assumption].
    repeat split; try assumption.
    + apply negb_true_iff. assumption.
    + destruct (bit_set f 2); cbn [negb orb] in *; [|reflexivity]. rewrite !andb_true_iff in Had. rewrite !negb_true_iff in Had.
      destruct Had as (((-> & ->) & ->) & ->). reflexivity.
    + destruct (p_time p =? 0); cbn [andb negb orb] in *; [|reflexivity]. apply negb_false_iff. assumption.
  - intros (((((((((((((Hv & Hfr) & Had) & Hd) & Hs) & Hr) & Hdo) & Hnd) & H6) & H7) & H10) & Hp) & Hst) & Hage).
    apply negb_true_iff in Hfr.
    repeat split; try assumption; try (intros ? []).
    + destruct (bit_set f 2); cbn [negb orb] in *; [|reflexivity]. rewrite !andb_true_iff, !negb_true_iff.
      apply negb_true_iff in Had. repeat (apply orb_false_iff in Had as [Had ?]). repeat split; assumption.
    + destruct (p_time p =? 0); cbn [andb negb orb] in *; [|reflexivity]. apply negb_false_iff. assumption.
    + apply Hpay; assumption.
Qed.
(* ---- the same equivalence for EVERY bundle value (built through the API as well as decoded): the decoder's shape was only used to know
   that a payload-typed block carries payload data; all that is needed is that no block of type 1 carries CanonicalData::Unknown (the
   one corner where validate - which accepts Unknown under any type, then finds no payload data - and the rule list differ) ---- *)
Definition typed_payload (b : bundle) : bool :=
  forallb (fun c => negb (c_type c =? 1) || match c_data c with Unknown _ => false | _ => true end) (b_canonicals b).
Lemma payload_present_any b : typed_payload b = true -> forallb extension_valid (b_canonicals b) = true ->
  ((match payload b with None => [VNoPayload] | Some _ => [] end) = [] <-> has_type 1 (b_canonicals b) = true).
Proof.
  unfold typed_payload, payload, ext_block_by_type, has_type. intros Hs Hv.
  induction (b_canonicals b) as [|c cs IH]; cbn [find existsb forallb] in *.
  - split; discriminate.
  - apply andb_true_iff in Hs as [Hc Hs]. apply andb_true_iff in Hv as [Hvc Hv]. rewrite Hvc, andb_true_r.
    unfold PAYLOAD_BLOCK. destruct (c_type c =? 1) eqn:E; cbn [orb negb] in *.
    + apply N.eqb_eq in E. unfold extension_valid in Hvc. rewrite E in Hvc.
      unfold PAYLOAD_BLOCK, BUNDLE_AGE_BLOCK, HOP_COUNT_BLOCK, PREVIOUS_NODE_BLOCK in Hvc.
      destruct (c_data c); try discriminate; split; reflexivity.
    + apply IH; assumption.
Qed.
Theorem validate_iff_rules_any b : typed_payload b = true -> reserved_clear b = true ->
  (validate b = [] <-> rules b = true).
Proof.
  intros Hshape Hres. unfold reserved_clear in Hres. apply andb_true_iff in Hres as [Hr1 Hr2]. apply negb_true_iff in Hr1.
  unfold validate, rules. cbv zeta.
  destruct (block_loop _ (b_canonicals b) [] []) as [errs types] eqn:E.
  pose proof (block_loop_spec (is_admin_record b || eid_eqb (p_src (b_primary b)) eid_none) (b_canonicals b) [] []) as HL.
  pose proof (fun ty => block_loop_types (is_admin_record b || eid_eqb (p_src (b_primary b)) eid_none) (b_canonicals b) [] [] ty) as HT.
  rewrite E in HL, HT. cbn [fst snd] in HL, HT.
  set (p := b_primary b) in *. set (cs := b_canonicals b) in *. set (f := p_flags p) in *.
  unfold is_admin_record, primary_validate, bundle_flags_validate, status_request_mask_clear in *. fold p f in HL |- *.
  rewrite bf_admin, bf_frag, bf_nofrag, bf_rcv, bf_fwd, bf_dlv, bf_del, bf_res, Hr1 in *.
  rewrite !eid_valid_wf. unfold DTN_VERSION, BUNDLE_AGE_BLOCK, eid_none, ENDPOINT_URI_SCHEME_DTN in *.
  rewrite !app_nil_iff.
  rewrite (if_nil_iff' (p_version p =? 7)), (if_nil_iff (bit_set f 1 && bit_set f 4)),
          (if_nil_iff' (negb (bit_set f 2) || _)), !(if_nil_iff' (eid_well_formed _)), (if_nil_iff ((p_time p =? 0) && _)) by discriminate.
  rewrite HL, HT. cbn [memN orb app]. rewrite orb_false_r, <- has_type_mem.
  rewrite !andb_true_iff.
  set (strict := bit_set f 2 || eid_eqb (p_src p) (DtnNone 1 0)) in *.
  assert (Hclean : forallb (block_clean strict) cs = true <->
            forallb block_data_ok cs = true /\ (negb strict || forallb (fun c => negb (bit_set (c_flags c) 2)) cs) = true).
  { clear - Hr2. unfold block_clean. induction cs as [|c cs IH]; cbn [forallb].
    - destruct strict; split; auto.
    - apply andb_true_iff in Hr2 as [Hc Hr2]. rewrite kf_res, kf_status, extension_valid_ok, Hc. cbn [andb].
      rewrite !andb_true_iff, (IH Hr2). destruct strict; cbn [negb orb andb]; rewrite ?negb_true_iff; [|tauto].
      rewrite andb_true_iff, negb_true_iff. tauto. }
  assert (Hcount : (forall ty, is_singleton_type ty = true -> (count ty (map c_type cs) + b2nat false <= 1)%nat) <->
                   at_most_once 6 cs = true /\ at_most_once 7 cs = true /\ at_most_once 10 cs = true).
  { unfold at_most_once, is_singleton_type, BUNDLE_AGE_BLOCK, HOP_COUNT_BLOCK, PREVIOUS_NODE_BLOCK. cbn [b2nat]. split.
    - intros H. pose proof (H 6 eq_refl) as H6. pose proof (H 7 eq_refl) as H7. pose proof (H 10 eq_refl) as H10.
      repeat split; apply Nat.leb_le; lia.
    - intros (H6 & H7 & H10) ty Hty. apply Nat.leb_le in H6, H7, H10.
      apply orb_true_iff in Hty as [Hty|Hty]; [apply orb_true_iff in Hty as [Hty|Hty]|]; apply N.eqb_eq in Hty; subst; lia. }
  assert (Hpay : forallb block_data_ok cs = true ->
            ((match payload b with None => [VNoPayload] | Some _ => [] end) = [] <-> has_type 1 cs = true)).
  { intros Hd. apply payload_present_any; [assumption|]. fold cs.
    clear - Hd. induction cs as [|c cs IH]; [reflexivity|]. cbn [forallb] in *. apply andb_true_iff in Hd as [H1 H2].
    rewrite extension_valid_ok, H1, (IH H2). reflexivity. }
  rewrite Hclean, Hcount.
  split.
  - intros ((Hv & ((_ & Hfr & Had) & Hd & Hs & Hr) ) & (((Hdo & Hst) & Hnd & _ & H6 & H7 & H10) & Hage & Hp)).
    apply Hpay in Hp; [|assumption].
    repeat split; try assumption.
    + apply negb_true_iff. assumption.
    + destruct (bit_set f 2); cbn [negb orb] in *; [|reflexivity]. rewrite !andb_true_iff in Had. rewrite !negb_true_iff in Had.
      destruct Had as (((-> & ->) & ->) & ->). reflexivity.
    + destruct (p_time p =? 0); cbn [andb negb orb] in *; [|reflexivity]. apply negb_false_iff. assumption.
  - intros (((((((((((((Hv & Hfr) & Had) & Hd) & Hs) & Hr) & Hdo) & Hnd) & H6) & H7) & H10) & Hp) & Hst) & Hage).
    apply negb_true_iff in Hfr.
    repeat split; try assumption; try (intros ? []).
    + destruct (bit_set f 2); cbn [negb orb] in *; [|reflexivity]. rewrite !andb_true_iff, !negb_true_iff.
      apply negb_true_iff in Had. repeat (apply orb_false_iff in Had as [Had ?]). repeat split; assumption.
    + destruct (p_time p =? 0); cbn [andb negb orb] in *; [|reflexivity]. apply negb_false_iff. assumption.
    + apply Hpay; assumption.
Qed.
Lemma shape_typed_payload b : decodable_shape b = true -> typed_payload b = true.
Proof.
  unfold decodable_shape, typed_payload. intros H. apply andb_true_iff in H as [_ H]. rewrite forallb_forall in *. intros c Hin.
  specialize (H c Hin). unfold dec_canonical in H. repeat (apply andb_true_iff in H as [H ?]).
  destruct (c_type c =? 1) eqn:E; [|reflexivity]. cbn [negb orb]. apply N.eqb_eq in E. unfold dec_data in H0. rewrite E in H0.
  destruct (c_data c); try reflexivity. cbn in H0. discriminate.
Qed.


Theorem validate_rejects_nonempty b : decodable_shape b = true -> reserved_clear b = true ->
  rules b = false -> validate b <> [].
Proof. intros Hs Hr Hf Hv. apply validate_iff_rules in Hv; [congruence|assumption|assumption]. Qed.
