(* C01 — CBOR round trip: decoding an encoded bundle returns the same bundle; encoding is deterministic,
   idempotent and changes nothing but the stored CRC values.   Statements only (proofs: Proofs/CodecProofs.v).
   to_cbor : bundle -> bytes * bundle   models Bundle::to_cbor(&mut self) (returns the bundle with its
   freshly stored CRCs); from_cbor models Bundle::try_from(&[u8]) on the serde_cbor stream-parser model.
   wf_bundle is the C01 domain: any number of blocks, any CRC state of type 0/1/2 per block, dtn/ipn/none
   EIDs with arbitrary UTF-8 names, full-range u64 fields, fragment and non-fragment primaries, known and
   unknown block types with arbitrary data. *)
From BP7 Require Import Base.Prelude Gen.Consts Cbor.Item Spec.Vectors.
From BP7 Require Import Model.Types Model.Encode Model.Decode Model.Wf Proofs.CodecProofs Proofs.CodecSerdeRoute.

Theorem C01_roundtrip : forall b, wf_bundle b = true ->
  let '(bs, b') := to_cbor b in
  from_cbor bs = Ok b' /\ only_crc_changed b b' /\ crcs_filled b' = true.
Proof. exact to_cbor_roundtrip. Qed.

Theorem C01_deterministic_idempotent : forall b, wf_bundle b = true ->
  let '(bs, b') := to_cbor b in to_cbor b' = (bs, b').
Proof. exact to_cbor_idempotent. Qed.

(* decoding inverts encoding for any well-formed bundle whose CRC values are already filled in *)
Theorem C01_decode_encode : forall b, wf_bundle b = true -> crcs_filled b = true -> from_cbor (bundle_bytes b) = Ok b.
Proof. exact from_cbor_bundle_bytes. Qed.

(* the crate's SECOND public encoding route - serde's `Serialize for Bundle`, i.e. serde_cbor::to_vec(&bundle): a definite-length outer array
   whose head has 1, 2, 3, 5 or 9 bytes - decodes to the same bundle as well (block count below 2^64 - 1: the array head is a u64) *)
Theorem C01_serde_route : forall b, wf_bundle b = true -> Nlen (b_canonicals b) < two64 - 1 ->
  from_cbor (bundle_bytes_serde (snd (to_cbor b))) = Ok (snd (to_cbor b)).
Proof. exact serde_route_roundtrip. Qed.
Theorem C01_serde_route_filled : forall b, wf_bundle b = true -> crcs_filled b = true -> Nlen (b_canonicals b) < two64 - 1 ->
  from_cbor (bundle_bytes_serde b) = Ok b.
Proof. exact from_cbor_bundle_bytes_serde. Qed.

(* non-vacuity: concrete bundles in the domain, including one with 30 extension blocks (beyond 23) *)
Fixpoint many_blocks (n : nat) : list canonical :=
  match n with
  | O => [mkcanonical 1 1 0 Crc32Empty (Data (map n2b [1;2;3]))]
  | S k => mkcanonical 192 (N.of_nat n + 1) 0 (Crc16 (map n2b [9;9])) (Unknown (map n2b [7])) :: many_blocks k
  end.
Definition ex_bundle : bundle :=
  mkbundle (mkprimary 7 1 Crc32Empty (Ipn 2 18446744073709551615 0) (Dtn 1 (map n2b [47;47;110;47])) eid_none 5 6 7 8 9)
           (mkcanonical 10 3 0 CrcNo (HopCount 32 1) :: mkcanonical 7 2 1 Crc16Empty (BundleAge 18446744073709551615) :: many_blocks 30).
Example C01_ex_wf : wf_bundle ex_bundle = true /\ wf_bundle golden_bundle = true /\ length (b_canonicals ex_bundle) = 33%nat.
Proof. vm_compute. repeat split; reflexivity. Qed.
Example C01_ex_roundtrip : from_cbor (fst (to_cbor ex_bundle)) = Ok (snd (to_cbor ex_bundle)).
Proof. vm_compute. reflexivity. Qed.
Example C01_ex_serde_route :       (* 34 elements: a two-byte array head 0x98 0x22 *)
  firstn 2 (bundle_bytes_serde (snd (to_cbor ex_bundle))) = map n2b [152; 34]
  /\ from_cbor (bundle_bytes_serde (snd (to_cbor ex_bundle))) = Ok (snd (to_cbor ex_bundle)).
Proof. vm_compute. split; reflexivity. Qed.

Check C01_roundtrip : forall b, wf_bundle b = true ->
  let '(bs, b') := to_cbor b in from_cbor bs = Ok b' /\ only_crc_changed b b' /\ crcs_filled b' = true.
Print Assumptions C01_roundtrip.
Print Assumptions C01_deterministic_idempotent.
Check C01_serde_route : forall b, wf_bundle b = true -> Nlen (b_canonicals b) < two64 - 1 ->
  from_cbor (bundle_bytes_serde (snd (to_cbor b))) = Ok (snd (to_cbor b)).
Print Assumptions C01_decode_encode.
Print Assumptions C01_serde_route.
Print Assumptions C01_serde_route_filled.
