(* C02 — the encoder emits exactly the RFC 9171 wire format: for every well-formed bundle the bytes of
   Bundle::to_cbor equal the serialization (generic shortest-form CBOR writer) of the RFC 9171 section 4
   item tree built by Spec/Rfc9171.v, whose CRCs are computed by the bitwise catalogue definition.
   The specification encoder is pinned to published vectors in Spec/Vectors.v.  Statements only. *)
From BP7 Require Import Base.Prelude Gen.Consts Cbor.Item Spec.CrcSpec Spec.Rfc9171 Spec.Vectors.
From BP7 Require Import Model.Types Model.Encode Model.Wf Proofs.SpecProofs.

Theorem C02_wire_format : forall b, wf_bundle b = true -> fst (to_cbor b) = rfc_bytes b.
Proof. exact to_cbor_is_rfc. Qed.

(* the model encoder on the crate's documented golden bundle gives the documented bytes *)
Example C02_golden : fst (to_cbor golden_bundle) = golden_bytes.
Proof. vm_compute. reflexivity. Qed.
Example C02_spec_pinned : rfc_bytes golden_bundle = golden_bytes.
Proof. exact golden_vector. Qed.

Check C02_wire_format : forall b, wf_bundle b = true -> fst (to_cbor b) = rfc_bytes b.
Print Assumptions C02_wire_format.
