(* C03 — the decoder accepts every conformant RFC 9171 bundle and recovers its content.  The input bytes
   come from the specification encoder (Spec/Rfc9171.v: own item tree, CRCs by CrcSpec), not from the
   library's encoder.  Statements only. *)
From BP7 Require Import Base.Prelude Gen.Consts Cbor.Item Spec.Rfc9171 Spec.Vectors.
From BP7 Require Import Model.Types Model.Encode Model.Decode Model.Wf Proofs.SpecProofs.

Theorem C03_accepts_conformant : forall b, wf_bundle b = true ->
  exists b', from_cbor (rfc_bytes b) = Ok b'
             /\ only_crc_changed b b'              (* every field of every block as put on the wire *)
             /\ crcs_filled b' = true              (* with the CRC values that were on the wire *)
             /\ crc_valid b' = true                (* passes the library's CRC check *)
             /\ fst (to_cbor b') = rfc_bytes b     (* and re-encodes to the bytes received *)
             /\ snd (to_cbor b') = b'.
Proof. exact accepts_conformant. Qed.

Example C03_golden : from_cbor golden_bytes = Ok (snd (to_cbor golden_bundle))
  /\ crc_valid (snd (to_cbor golden_bundle)) = true /\ fst (to_cbor (snd (to_cbor golden_bundle))) = golden_bytes.
Proof. vm_compute. repeat split; reflexivity. Qed.

Print Assumptions C03_accepts_conformant.
