(* C04 — emitted CRCs are CRC-16/X.25 resp. CRC-32C (big-endian) of the block's own encoding with the CRC
   value bytes zero-filled; type-0 blocks carry no CRC field; this holds for every prior CRC state of the
   block (wf_crc admits absent, empty placeholder and any stale value of either width), and a freshly
   encoded bundle passes the CRC check after decoding.   crc16_x25 / crc32c are the bitwise definitions of
   Spec/CrcSpec.v instantiated with the catalogue parameters regenerated from the Rust source.
   Statements only (proofs: Proofs/SpecProofs.v). *)
From BP7 Require Import Base.Prelude Gen.Consts Cbor.Item Spec.CrcSpec Spec.Rfc9171.
From BP7 Require Import Model.Types Model.Encode Model.Decode Model.Wf Model.Hex Proofs.CodecProofs Proofs.SpecProofs Proofs.TieBase Proofs.TieCrcBytes.

(* crc_on_wire code items stored bytes:
     code 0: stored = CrcNo and bytes = ser (Arr items)
     code 1: v = be2 (crc16_x25 (ser (Arr (items ++ [BStr 00 00])))), stored = Crc16 v, bytes = ser (Arr (items ++ [BStr v]))
     code 2: likewise with crc32c and four bytes;  any other code: False *)
Theorem C04_primary : forall p, wf_crc (p_crc p) = true ->
  crc_on_wire (crc_code (p_crc p)) (primary_items p) (p_crc (primary_update_crc p)) (enc_primary (primary_update_crc p)).
Proof. exact primary_crc_on_wire. Qed.
Theorem C04_canonical : forall c, wf_crc (c_crc c) = true ->
  crc_on_wire (crc_code (c_crc c)) (canonical_items c) (c_crc (canonical_update_crc c)) (enc_canonical (canonical_update_crc c)).
Proof. exact canonical_crc_on_wire. Qed.
(* the bundle encoding is 0x9f, the blocks updated as above, 0xff *)
Theorem C04_bundle_layout : forall b,
  fst (to_cbor b) = n2b 159 :: enc_primary (primary_update_crc (b_primary b))
                    ++ concat (map (fun c => enc_canonical (canonical_update_crc c)) (b_canonicals b)) ++ [n2b 255].
Proof. intros b. unfold to_cbor, bundle_bytes, bundle_calculate_crc. cbn [fst b_primary b_canonicals]. rewrite map_map. reflexivity. Qed.

Theorem C04_fresh_passes : forall b, wf_bundle b = true ->
  exists b', from_cbor (fst (to_cbor b)) = Ok b' /\ crc_valid b' = true.
Proof.
  intros b H. pose proof (to_cbor_roundtrip b H) as R. pose proof (fresh_crc_valid b H) as V.
  destruct (to_cbor b) as [bs b']. destruct R as (R & _). exists b'. split; assumption.
Qed.

(* anchors: the two algorithms are the RFC 9171 ones (catalogue check values), and results fit their width *)
Example C04_check_values : crc16_x25 check_msg = 36974 /\ crc32c check_msg = 3808858755.
Proof. vm_compute. split; reflexivity. Qed.

(* the exhaustive tie to the crc crate: the two checksum functions src/crc.rs selects, evaluated by the compiled crate on every
   one-byte message (tables regenerated on every run), are the bitwise catalogue CRCs these theorems are stated with *)
Theorem C04_tie_crc_single_bytes : forall b, b < 256 ->
  code_crc16 b = hexify (be_enc 2 (crc16_x25 [n2b b])) /\ code_crc32 b = hexify (be_enc 4 (crc32c [n2b b])).
Proof. exact tie_crc_bytes. Qed.

Print Assumptions C04_primary.
Print Assumptions C04_canonical.
Print Assumptions C04_bundle_layout.
Print Assumptions C04_fresh_passes.
Print Assumptions C04_tie_crc_single_bytes.
