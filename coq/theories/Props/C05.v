(* C05 — the CRC check rejects single-bit and short-burst corruption of a CRC-protected block.
   Setting.  b0 is any bundle of the C01 domain (wf_bundle), b = snd (to_cbor b0) the bundle as emitted
   (every CRC recomputed), all of whose blocks carry CRC-16 or CRC-32C (all_crc).  r is the encoding of b in
   which the bytes X of ONE block k (0 = primary block) were replaced by X' (corrupted_bundle_bytes), where
     CrcValueChange : X' differs from X only inside the last 2 resp. 4 bytes (the CRC value), X' <> X;
     ContentWindow  : X' differs from X only inside a window of at most 2 resp. 4 consecutive bytes that
                      lies in front of the CRC value (anywhere from the array head to the CRC field's head);
     SingleBit      : exactly one bit of one byte of X is flipped, anywhere in the block.
   b' is what the decoder returns for r (from_cbor r = Ok b'; a decoding error needs no theorem), and the
   property's alarm condition reencodes_to b b' r says: the blocks of b', each encoded with its STORED CRC
   value (Block::to_cbor, no recomputation), give back exactly r and have the lengths of the blocks of b.
   Conclusion: Bundle::crc_valid reports false for b'.
   The ContentWindow class carries the extra premise "block k of b' has the CRC type of block k of b".
   Without it the statement (C05_full) is FALSE for the BPv7 wire format itself: C05_full_refuted exhibits a
   CRC-16 payload block that a two-byte window turns into a VALID CRC-32C block of the same length.  The
   SingleBit and CrcValueChange classes need no such premise (for single bits: both generator polynomials
   contain the factor x+1, so a valid block has even parity under either algorithm and a one-bit change is
   invalid under both).  The oracle of tools/props/c05.py counts window corruptions that change the decoded
   CRC type and does not judge them.
   Statements only (proofs: Proofs/CorruptionProofs.v; CRC algebra: Proofs/CrcAlgebra.v). *)
From BP7 Require Import Base.Prelude Gen.Consts Cbor.Item Spec.CrcSpec.
From BP7 Require Import Model.Types Model.Encode Model.Decode Model.Wf.
From BP7 Require Import Model.Validate Model.Ops.
From BP7 Require Import Proofs.CrcAlgebra Proofs.CodecProofs Proofs.DecodeImage Proofs.SpecProofs Proofs.CorruptionProofs Proofs.ReencProofs.

(* ---- per block (generic theorems instantiated for the two block kinds) ---- *)
(* stored c: a computed CRC value of the right length (Crc16 [2 bytes] / Crc32 [4 bytes]);
   dec_crc c: what the decoder can produce (no placeholder, Unknown only for codes other than 0, 1, 2) *)
Theorem C05_crc_value_change_canonical : forall c c',
  stored (c_crc c) = true -> canonical_check_crc c = true -> dec_crc (c_crc c') = true ->
  value_change (crc_width (crc_code (c_crc c))) (enc_canonical c) (enc_canonical c') -> canonical_check_crc c' = false.
Proof. exact canonical_value_change. Qed.
Theorem C05_content_window_canonical : forall c c',
  stored (c_crc c) = true -> canonical_check_crc c = true -> dec_crc (c_crc c') = true ->
  crc_code (c_crc c') = crc_code (c_crc c) ->
  window_change (crc_width (crc_code (c_crc c))) (enc_canonical c) (enc_canonical c') -> canonical_check_crc c' = false.
Proof. exact canonical_window_change. Qed.
Theorem C05_single_bit_canonical : forall c c' i,
  stored (c_crc c) = true -> canonical_check_crc c = true -> dec_crc (c_crc c') = true ->
  bit_flip_at i (enc_canonical c) (enc_canonical c') -> canonical_check_crc c' = false.
Proof. exact canonical_single_bit. Qed.
Theorem C05_crc_value_change_primary : forall p p',
  stored (p_crc p) = true -> primary_check_crc p = true -> dec_crc (p_crc p') = true ->
  value_change (crc_width (crc_code (p_crc p))) (enc_primary p) (enc_primary p') -> primary_check_crc p' = false.
Proof. exact primary_value_change. Qed.
Theorem C05_content_window_primary : forall p p',
  stored (p_crc p) = true -> primary_check_crc p = true -> dec_crc (p_crc p') = true ->
  crc_code (p_crc p') = crc_code (p_crc p) ->
  window_change (crc_width (crc_code (p_crc p))) (enc_primary p) (enc_primary p') -> primary_check_crc p' = false.
Proof. exact primary_window_change. Qed.
Theorem C05_single_bit_primary : forall p p' i,
  stored (p_crc p) = true -> primary_check_crc p = true -> dec_crc (p_crc p') = true ->
  bit_flip_at i (enc_primary p) (enc_primary p') -> primary_check_crc p' = false.
Proof. exact primary_single_bit. Qed.

(* ---- the pipeline: emitted bundle, corruption of one block, decoder, alarm condition, crc_valid ----
   "_partial" only with respect to C05_full below (the window class carries the same-CRC-type premise);
   C05_full is refuted, so this is the strongest true form. *)
Theorem C05_no_silent_corruption_partial : forall cls b0 b' k r,
  wf_bundle b0 = true -> all_crc (snd (to_cbor b0)) = true ->
  corrupted_bundle_bytes cls (snd (to_cbor b0)) k r ->
  from_cbor r = Ok b' -> reencodes_to (snd (to_cbor b0)) b' r ->
  (cls = ContentWindow ->
     crc_code (nth k (block_crcs b') CrcNo) = crc_code (nth k (block_crcs (snd (to_cbor b0))) CrcNo)) ->
  crc_valid b' = false.
Proof. exact no_silent_corruption. Qed.
(* the clauses that hold without any premise on the decoded CRC type *)
Theorem C05_single_bit : forall b0 b' k r,
  wf_bundle b0 = true -> all_crc (snd (to_cbor b0)) = true ->
  corrupted_bundle_bytes SingleBit (snd (to_cbor b0)) k r ->
  from_cbor r = Ok b' -> reencodes_to (snd (to_cbor b0)) b' r -> crc_valid b' = false.
Proof. intros b0 b' k r W A C D R. apply (no_silent_corruption SingleBit b0 b' k r W A C D R). discriminate. Qed.
Theorem C05_crc_value_change : forall b0 b' k r,
  wf_bundle b0 = true -> all_crc (snd (to_cbor b0)) = true ->
  corrupted_bundle_bytes CrcValueChange (snd (to_cbor b0)) k r ->
  from_cbor r = Ok b' -> reencodes_to (snd (to_cbor b0)) b' r -> crc_valid b' = false.
Proof. intros b0 b' k r W A C D R. apply (no_silent_corruption CrcValueChange b0 b' k r W A C D R). discriminate. Qed.
(* the same for any bundle value b' that re-encodes to r, decoder-independent: only the shape of the decoder's
   image is used (decodable_shape: field widths and CRC values as from_cbor produces them, C07_decoded_shape) *)
Theorem C05_any_decoder : forall cls b b' k r,
  crcs_filled b = true -> all_crc b = true -> crc_valid b = true ->
  corrupted_bundle_bytes cls b k r -> decodable_shape b' = true -> reencodes_to b b' r ->
  (cls = ContentWindow -> crc_code (nth k (block_crcs b') CrcNo) = crc_code (nth k (block_crcs b) CrcNo)) ->
  crc_valid b' = false.
Proof. exact corruption_detected. Qed.
(* the CRC types requested by the caller are the ones on the wire *)
Theorem C05_all_crc_emitted : forall b0, wf_bundle b0 = true -> all_crc (snd (to_cbor b0)) = all_crc b0.
Proof. exact all_crc_to_cbor. Qed.

(* ---- the statement without the same-CRC-type premise, and its refutation ---- *)
Definition C05_full : Prop :=
  forall cls b0 b' k r,
    wf_bundle b0 = true -> all_crc (snd (to_cbor b0)) = true ->
    corrupted_bundle_bytes cls (snd (to_cbor b0)) k r ->
    from_cbor r = Ok b' -> reencodes_to (snd (to_cbor b0)) b' r ->
    crc_valid b' = false.
(* Not provable for ANY BPv7 decoder, because false for the wire format: the payload block
     86 01 01 00 [01 4c] 00 36 55 7d 00 00 00 00 00 00 44 6d 42 f3 a9     (CRC-16 f3a9, 12 payload bytes)
   with the window [01 4c] overwritten by [02 4a] is
     86 01 01 00 [02 4a] 00 36 55 7d 00 00 00 00 00 00 44 6d 42 f3 a9     (CRC-32C 6d42f3a9, 10 payload bytes)
   - same length, decodes, re-encodes to itself, and 6d42f3a9 is the correct CRC-32C of the new block. *)
Theorem C05_full_refuted : ~ C05_full.
Proof. exact no_silent_corruption_full_refuted. Qed.
(* the reinterpretation corner at the encoding level: two blocks of different CRC types whose encodings have the
   same length and differ only inside one 2-byte window; both pass the CRC check *)
Example C05_full_refuted_shape :
  let c  := mkcanonical 1 1 0 (Crc16 (map n2b [243; 169])) (Data w_payload) in
  let c' := mkcanonical 1 1 0 (Crc32 (map n2b [109; 66; 243; 169])) (Data (firstn 10 w_payload)) in
  wf_canonical c = true /\ wf_canonical c' = true /\ dec_canonical c' = true /\
  crc_code (c_crc c) = CRC_16 /\ crc_code (c_crc c') = CRC_32 /\
  canonical_check_crc c = true /\ canonical_check_crc c' = true /\
  enc_canonical c  = map n2b [134; 1; 1; 0] ++ map n2b [1; 76] ++ map n2b [0; 54; 85; 125; 0; 0; 0; 0; 0; 0; 68; 109; 66; 243; 169] /\
  enc_canonical c' = map n2b [134; 1; 1; 0] ++ map n2b [2; 74] ++ map n2b [0; 54; 85; 125; 0; 0; 0; 0; 0; 0; 68; 109; 66; 243; 169].
Proof. vm_compute. repeat split; reflexivity. Qed.

(* the SECOND mechanism behind C05_full_refuted (audit of DESIGN D-27): a two-byte window over the ARRAY HEAD of the CRC-16 payload block
     86 01 01 00 01 44 00 00 00 43 42 7a 05   ->   85 1a 01 00 01 44 00 00 00 43 42 7a 05
   re-frames the block: type 0x01000144, number 0, flags 0, CRC type 0 (a payload byte), data 43 42 7a 05.  The decoded block carries NO
   CRC, has the same length, re-encodes to the received bytes and passes the check trivially - the premise "the decoded block keeps
   its CRC type" of the window class excludes it, nothing weaker does *)
Definition reframe_sent : list byte := map n2b [159; 137; 7; 0; 1; 130; 2; 130; 1; 1; 130; 2; 130; 1; 1; 130; 2; 130; 1; 1; 130; 0; 0; 26; 0; 54; 238; 128; 66; 240; 36; 134; 10; 2; 0; 1; 68; 130; 24; 32; 0; 66; 136; 17; 134; 1; 1; 0; 1; 68; 0; 0; 0; 67; 66; 122; 5; 255].
Definition reframe_received : list byte := map n2b [159; 137; 7; 0; 1; 130; 2; 130; 1; 1; 130; 2; 130; 1; 1; 130; 2; 130; 1; 1; 130; 0; 0; 26; 0; 54; 238; 128; 66; 240; 36; 134; 10; 2; 0; 1; 68; 130; 24; 32; 0; 66; 136; 17; 133; 26; 1; 0; 1; 68; 0; 0; 0; 67; 66; 122; 5; 255].
Definition reframe_view (b : bundle) :=
  (crc_valid b, map crc_code (block_crcs b), bundle_bytes b,
   map (fun x => Nlen x) (enc_primary (b_primary b) :: map enc_canonical (b_canonicals b))).
Example C05_ex_reframed :
  rmap reframe_view (from_cbor reframe_sent) = Ok (true, [1; 1; 1], reframe_sent, [30; 13; 13])
  /\ firstn 44 reframe_received = firstn 44 reframe_sent /\ skipn 46 reframe_received = skipn 46 reframe_sent
  /\ rmap reframe_view (from_cbor reframe_received) = Ok (true, [1; 1; 0], reframe_received, [30; 13; 13]).
Proof. vm_compute. repeat split; reflexivity. Qed.

(* ---- an uncorrupted bundle passes; a bundle without CRC fields passes trivially ---- *)
Theorem C05_uncorrupted_passes : forall b0, wf_bundle b0 = true ->
  exists b', from_cbor (fst (to_cbor b0)) = Ok b' /\ b' = snd (to_cbor b0) /\ crc_valid b' = true.
Proof. exact uncorrupted_passes. Qed.
(* .. in particular what a forwarding node emits after it changed a received bundle (new payload through set_payload, new lifetime),
   whatever CRC values the blocks arrived with: stale values are recomputed, never kept *)
Theorem C05_reencoded_passes : forall b d l, wf_bundle b = true -> ext_block_by_type PAYLOAD_BLOCK (b_canonicals b) <> None ->
  Nlen d < two64 -> l < two64 ->
  exists b', from_cbor (fst (to_cbor (reenc b d l))) = Ok b' /\ b' = snd (to_cbor (reenc b d l)) /\ crc_valid b' = true.
Proof. exact reencoded_passes. Qed.
Example C05_ex_reencoded :     (* the witness bundle as received (CRC values filled in), payload replaced: premises hold, stored value was stale *)
  wf_bundle (snd (to_cbor w_b0)) = true /\ ext_block_by_type PAYLOAD_BLOCK (b_canonicals (snd (to_cbor w_b0))) <> None
  /\ crc_valid (reenc (snd (to_cbor w_b0)) (map n2b [1; 2; 3]) 12345) = false
  /\ crc_valid (snd (to_cbor (reenc (snd (to_cbor w_b0)) (map n2b [1; 2; 3]) 12345))) = true.
Proof. vm_compute. repeat split; try reflexivity. discriminate. Qed.
Theorem C05_no_crc_passes : forall b,
  forallb (fun c => negb (has_crc c)) (block_crcs b) = true -> crc_valid b = true.
Proof. exact no_crc_passes. Qed.
Corollary C05_all_crcno_passes : forall b,
  p_crc (b_primary b) = CrcNo -> (forall c, In c (b_canonicals b) -> c_crc c = CrcNo) -> crc_valid b = true.
Proof.
  intros b Hp Hc. apply no_crc_passes. unfold block_crcs. cbn [forallb]. rewrite Hp. cbn [has_crc negb andb].
  apply forallb_forall. intros x Hx. apply in_map_iff in Hx as (c & <- & Ic). rewrite (Hc c Ic). reflexivity.
Qed.

(* ---- the algebra the pipeline rests on (Proofs/CrcAlgebra.v), restated ---- *)
Theorem C05_crc16_detects_window : forall pre win win' suf : list byte,
  length win = length win' -> (length win <= 2)%nat -> win <> win' ->
  crc16_x25 (pre ++ win ++ suf) <> crc16_x25 (pre ++ win' ++ suf).
Proof. exact crc16_detects_window. Qed.
Theorem C05_crc32c_detects_window : forall pre win win' suf : list byte,
  length win = length win' -> (length win <= 4)%nat -> win <> win' ->
  crc32c (pre ++ win ++ suf) <> crc32c (pre ++ win' ++ suf).
Proof. exact crc32c_detects_window. Qed.
(* a valid block has an even number of one bits, under either algorithm *)
Theorem C05_valid_block_even_parity : forall code X, bytes_valid code X -> lpar X = false.
Proof. exact bytes_valid_even. Qed.

(* ---- non-vacuity: each class has instances satisfying every premise (bundle w_b0 of CorruptionProofs.v:
        CRC-16 primary block + CRC-16 payload block of 12 bytes) ---- *)
Definition ex_b : bundle := snd (to_cbor w_b0).
Definition ex_pl : list byte := map n2b [134; 1; 1; 0; 1; 76; 0; 54; 85; 125; 0; 0; 0; 0; 0; 0; 68; 109; 66; 243; 169].
Definition ex_r (X' : list byte) : list byte := n2b 159 :: enc_primary (b_primary ex_b) ++ X' ++ [n2b 255].
Example C05_ex_domain : wf_bundle w_b0 = true /\ all_crc ex_b = true /\ blocks ex_b = [enc_primary (b_primary ex_b); ex_pl].
Proof. vm_compute. repeat split; reflexivity. Qed.
(* CRC value f3 a9 -> f3 a8 *)
Definition ex_X1 : list byte := map n2b [134; 1; 1; 0; 1; 76; 0; 54; 85; 125; 0; 0; 0; 0; 0; 0; 68; 109; 66; 243; 168].
Example C05_ex_value_change :
  corrupted_bundle_bytes CrcValueChange ex_b 1 (ex_r ex_X1) /\
  (exists b', from_cbor (ex_r ex_X1) = Ok b' /\ reencodes_to ex_b b' (ex_r ex_X1) /\ crc_valid b' = false).
Proof.
  split.
  - exists [enc_primary (b_primary ex_b)], ex_pl, ex_X1, [].
    split; [vm_compute; reflexivity|split; [reflexivity|split]].
    + split; [reflexivity|split; [vm_compute; reflexivity|vm_compute; discriminate]].
    + unfold ex_r. cbn [app concat]. rewrite app_nil_r. reflexivity.
  - exists (mkbundle (b_primary ex_b) [mkcanonical 1 1 0 (Crc16 (map n2b [243; 168])) (Data w_payload)]).
    split; [vm_compute; reflexivity|split; [split; vm_compute; reflexivity|vm_compute; reflexivity]].
Qed.
(* one flipped bit in the payload: 36 -> 37 *)
Definition ex_X2 : list byte := map n2b [134; 1; 1; 0; 1; 76; 0; 55; 85; 125; 0; 0; 0; 0; 0; 0; 68; 109; 66; 243; 169].
Example C05_ex_single_bit :
  corrupted_bundle_bytes SingleBit ex_b 1 (ex_r ex_X2) /\
  (exists b', from_cbor (ex_r ex_X2) = Ok b' /\ reencodes_to ex_b b' (ex_r ex_X2) /\ crc_valid b' = false).
Proof.
  split.
  - exists [enc_primary (b_primary ex_b)], ex_pl, ex_X2, [].
    split; [vm_compute; reflexivity|split; [reflexivity|split]].
    + exists 7%nat, (map n2b [134; 1; 1; 0; 1; 76; 0]), (n2b 54), (map n2b [85; 125; 0; 0; 0; 0; 0; 0; 68; 109; 66; 243; 169]), 1.
      split; [vm_compute; reflexivity|split; [vm_compute; reflexivity|split; [left; reflexivity|reflexivity]]].
    + unfold ex_r. cbn [app concat]. rewrite app_nil_r. reflexivity.
  - exists (mkbundle (b_primary ex_b) [mkcanonical 1 1 0 (Crc16 (map n2b [243; 169]))
                                         (Data (map n2b [0; 55; 85; 125; 0; 0; 0; 0; 0; 0; 68; 109]))]).
    split; [vm_compute; reflexivity|split; [split; vm_compute; reflexivity|vm_compute; reflexivity]].
Qed.
(* a two-byte window in the payload that keeps the CRC type: 55 7d -> ff 00 *)
Definition ex_X3 : list byte := map n2b [134; 1; 1; 0; 1; 76; 0; 54; 255; 0; 0; 0; 0; 0; 0; 0; 68; 109; 66; 243; 169].
Example C05_ex_window :
  corrupted_bundle_bytes ContentWindow ex_b 1 (ex_r ex_X3) /\
  (exists b', from_cbor (ex_r ex_X3) = Ok b' /\ reencodes_to ex_b b' (ex_r ex_X3) /\
              crc_code (nth 1 (block_crcs b') CrcNo) = crc_code (nth 1 (block_crcs ex_b) CrcNo) /\ crc_valid b' = false).
Proof.
  split.
  - exists [enc_primary (b_primary ex_b)], ex_pl, ex_X3, [].
    split; [vm_compute; reflexivity|split; [reflexivity|split]].
    + exists (map n2b [134; 1; 1; 0; 1; 76; 0; 54]), (map n2b [85; 125]), (map n2b [255; 0]),
             (map n2b [0; 0; 0; 0; 0; 0; 68; 109; 66; 243; 169]).
      split; [vm_compute; reflexivity|split; [vm_compute; reflexivity|split; [reflexivity|split; [|split]]]].
      * vm_compute. repeat constructor.
      * vm_compute. discriminate.
      * vm_compute. repeat constructor.
    + unfold ex_r. cbn [app concat]. rewrite app_nil_r. reflexivity.
  - exists (mkbundle (b_primary ex_b) [mkcanonical 1 1 0 (Crc16 (map n2b [243; 169]))
                                         (Data (map n2b [0; 54; 255; 0; 0; 0; 0; 0; 0; 0; 68; 109]))]).
    split; [vm_compute; reflexivity|split; [split; vm_compute; reflexivity|split; vm_compute; reflexivity]].
Qed.

Check C05_no_silent_corruption_partial : forall cls b0 b' k r,
  wf_bundle b0 = true -> all_crc (snd (to_cbor b0)) = true ->
  corrupted_bundle_bytes cls (snd (to_cbor b0)) k r ->
  from_cbor r = Ok b' -> reencodes_to (snd (to_cbor b0)) b' r ->
  (cls = ContentWindow ->
     crc_code (nth k (block_crcs b') CrcNo) = crc_code (nth k (block_crcs (snd (to_cbor b0))) CrcNo)) ->
  crc_valid b' = false.
Check C05_single_bit : forall b0 b' k r,
  wf_bundle b0 = true -> all_crc (snd (to_cbor b0)) = true ->
  corrupted_bundle_bytes SingleBit (snd (to_cbor b0)) k r ->
  from_cbor r = Ok b' -> reencodes_to (snd (to_cbor b0)) b' r -> crc_valid b' = false.
Check C05_full_refuted : ~ C05_full.
Check C05_uncorrupted_passes : forall b0, wf_bundle b0 = true ->
  exists b', from_cbor (fst (to_cbor b0)) = Ok b' /\ b' = snd (to_cbor b0) /\ crc_valid b' = true.
Check C05_no_crc_passes : forall b,
  forallb (fun c => negb (has_crc c)) (block_crcs b) = true -> crc_valid b = true.

Print Assumptions C05_crc_value_change_canonical.
Print Assumptions C05_content_window_canonical.
Print Assumptions C05_single_bit_canonical.
Print Assumptions C05_crc_value_change_primary.
Print Assumptions C05_content_window_primary.
Print Assumptions C05_single_bit_primary.
Print Assumptions C05_no_silent_corruption_partial.
Print Assumptions C05_single_bit.
Print Assumptions C05_crc_value_change.
Print Assumptions C05_any_decoder.
Print Assumptions C05_all_crc_emitted.
Print Assumptions C05_full_refuted.
Print Assumptions C05_full_refuted_shape.
Print Assumptions C05_uncorrupted_passes.
Print Assumptions C05_reencoded_passes.
Print Assumptions C05_no_crc_passes.
Print Assumptions C05_all_crcno_passes.
Print Assumptions C05_crc16_detects_window.
Print Assumptions C05_crc32c_detects_window.
Print Assumptions C05_valid_block_even_parity.
Print Assumptions C05_ex_value_change.
Print Assumptions C05_ex_single_bit.
Print Assumptions C05_ex_window.
