(* C06 — no input from the network can panic or exhaust the receive path.
   Statements only (proofs: Proofs/TotalProofs.v, Proofs/OpsProofs.v, Proofs/DtnTimeProofs.v, Proofs/DecodeImage.v).
   `res` carries an explicit Panic outcome for every Rust operation that can panic (integer overflow in the
   checked mode, unwrap/expect, slicing, unimplemented!); the theorems say no Panic is reachable from ANY byte
   string.  Receive-path operations that are total functions of the model by type (validate, crc_valid, payload,
   previous_node, is_administrative_record, add_canonical_block, set_payload, sort, to_cbor, bundle_bytes) have
   no Panic outcome to exclude; their agreement with the code — including on inputs where the original code
   panicked — is what the K-rx channel checks in debug and release builds.
   Partial (see MANIFEST level_note): allocation volume inside serde and stack bytes per frame are runtime
   behaviour; EID accessors / bundle IDs / JSON re-encoding are covered by the theorems of C10, C13 and C15 on the
   decoder's image; administrative-record decoding of the payload by C06_admin_record_total below. *)
From BP7 Require Import Base.Prelude Gen.Consts Cbor.SerdeDe Model.Types Model.Decode Model.Validate Model.DtnTime Model.Ops.
From BP7 Require Import Model.AdminRecord Proofs.DecodeImage Proofs.TotalProofs Proofs.OpsProofs Proofs.DtnTimeProofs Proofs.AdminTotal.

Theorem C06_decode_total : forall bs : list byte, no_panic (from_cbor bs).
Proof. exact decode_total. Qed.

Theorem C06_receive_path_total : forall bs b m clock node rt,
  from_cbor bs = Ok b -> MS1970_TO2K <= clock -> rt < two128 ->
  no_panic (update_extensions m clock node rt b)
  /\ no_panic (is_lifetime_exceeded m clock (b_primary b))
  /\ no_panic (timestamp_to_string (p_time (b_primary b)) (p_seq (b_primary b)))
  /\ no_panic (string (p_time (b_primary b)))
  /\ no_panic (unix m (p_time (b_primary b))).
Proof.
  intros bs b m clock node rt Hd Hc Hrt. pose proof (from_cbor_image bs b Hd) as Hs.
  split; [|split; [|split; [|split]]].
  - intros p. destruct (update_exact m clock node rt b Hs Hc Hrt) as (r & b' & -> & _). discriminate.
  - intros p. unfold is_lifetime_exceeded. destruct (p_time (b_primary b) =? 0); [discriminate|].
    rewrite now_ok by (unfold MS1970_TO2K in Hc; exact Hc). cbn [bind]. discriminate.
  - apply timestamp_to_string_total.
  - apply string_total.
  - apply unix_total. unfold decodable_shape in Hs. apply andb_true_iff in Hs as [Hp _]. unfold dec_primary in Hp.
    repeat (apply andb_true_iff in Hp as [Hp ?]). apply N.ltb_lt. assumption.
Qed.

(* the recursion budget of the parser (128) is effective: deeper nesting is an error, not a stack overflow *)
Theorem C06_depth_bounded : forall bs k, (128 <= k)%nat -> exists e, from_cbor (repeat_byte tag_byte k ++ bs) = Err e.
Proof. exact depth_bounded. Qed.

(* every string/byte-string read of claimed length n is checked against the remaining input before bytes are
   taken (the only way content leaves the input in the parser model is takeN) *)
Theorem C06_length_claims_checked : forall n l x r, takeN n l = Some (x, r) -> n <= Nlen l /\ l = x ++ r /\ Nlen x = n.
Proof. exact length_claims_checked. Qed.

(* what a receiver does with the payload of an administrative-record bundle (serde_cbor::from_slice::<AdministrativeRecord>): for EVERY
   byte string Ok or Err, never Panic - the status-item / status-report visitors branch on SeqAccess::size_hint, which is None for
   indefinite-length arrays *)
Theorem C06_admin_record_total : forall bs : list byte, no_panic (admin_from_bytes bs).
Proof. exact admin_decode_total. Qed.

Example C06_ex_admin_indefinite_item :
  admin_from_bytes (map n2b [130; 1; 132; 129; 159; 245; 255; 0; 130; 1; 0; 130; 0; 0])
  = Ok (BundleStatusReport (mk_sr [mk_item true 0 false] 0 (DtnNone 1 0) 0 0 0 0)).
Proof. vm_compute. reflexivity. Qed.

(* every decodable bundle has the decoder's shape (integer ranges, data variant by block type, EID forms) *)
Theorem C06_decoded_shape : forall bs b, from_cbor bs = Ok b -> decodable_shape b = true.
Proof. exact from_cbor_image. Qed.

Example C06_ex_huge_claim : from_cbor (map n2b [159; 91; 255; 255; 255; 255; 255; 255; 255; 255]) = Err EEof.
Proof. vm_compute. reflexivity. Qed.

Print Assumptions C06_decode_total.
Print Assumptions C06_receive_path_total.
Print Assumptions C06_depth_bounded.
Print Assumptions C06_length_claims_checked.
Print Assumptions C06_decoded_shape.
Print Assumptions C06_admin_record_total.
