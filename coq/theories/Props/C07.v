(* C07 — validation accepts exactly the bundles satisfying the RFC 9171 rules it checks.
   `validate` (Model/Validate.v) is the transcription of Bundle::validate and returns the error list ([] = Ok);
   `rules` (Spec/Rules.v) is the rule list of the property text on raw flag words and the block list;
   `decodable_shape` holds for every bundle the decoder can return (C07_decoded_shape, proved by inverting the
   stream parser); `reserved_clear` is the property's don't-care for the stale reserved-bits masks.
   Statements only (proofs: Proofs/ValidateProofs.v, Proofs/DecodeImage.v). *)
From BP7 Require Import Base.Prelude Gen.Consts Model.Types Model.Decode Model.Validate Spec.Rules.
From BP7 Require Import Proofs.DecodeImage Proofs.ValidateProofs Proofs.TieBase Proofs.TieFlags.

Theorem C07_decoded_shape : forall bs b, from_cbor bs = Ok b -> decodable_shape b = true.
Proof. exact from_cbor_image. Qed.

Theorem C07_validate_iff : forall b, decodable_shape b = true -> reserved_clear b = true ->
  (validate b = [] <-> rules b = true).
Proof. exact validate_iff_rules. Qed.

(* a bundle violating any one rule is rejected with a non-empty error list *)
Theorem C07_rejects_nonempty : forall b, decodable_shape b = true -> reserved_clear b = true ->
  rules b = false -> validate b <> [].
Proof. exact validate_rejects_nonempty. Qed.

(* end-to-end form: for every byte string that decodes *)
Theorem C07_on_decoded : forall bs b, from_cbor bs = Ok b -> reserved_clear b = true ->
  (validate b = [] <-> rules b = true).
Proof. intros bs b H. apply validate_iff_rules. eapply from_cbor_image; eassumption. Qed.

(* beyond the property's quantifier ("every decodable bundle"): the same equivalence for EVERY bundle value, decoded or built through the
   public API with any widths, CRC states and mismatched block data - provided no block of type 1 carries CanonicalData::Unknown, the one
   corner where validate (which accepts Unknown under any block type and then finds no payload data) and the rule list differ
   (C07_ex_unknown_payload); every decodable bundle satisfies the proviso (C07_decodable_typed) *)
Theorem C07_validate_iff_any : forall b, typed_payload b = true -> reserved_clear b = true -> (validate b = [] <-> rules b = true).
Proof. exact validate_iff_rules_any. Qed.
Theorem C07_decodable_typed : forall b, decodable_shape b = true -> typed_payload b = true.
Proof. exact shape_typed_payload. Qed.
Example C07_ex_unknown_payload :
  let b := mkbundle (b_primary (mkbundle (mkprimary 7 4 CrcNo (Dtn 1 (map n2b [47;47;97;47])) (Ipn 2 1 1) eid_none 5 0 1000 0 0) []))
                    [mkcanonical 1 1 0 CrcNo (Unknown [])] in
  typed_payload b = false /\ validate b = [VNoPayload] /\ rules b = true.
Proof. vm_compute. repeat split; reflexivity. Qed.
(* an API-built bundle with data that does not belong to the block type is rejected, as the rule list says *)
Example C07_ex_api_mismatch :
  let b := mkbundle (mkprimary 7 4 CrcNo (Dtn 1 (map n2b [47;47;97;47])) (Ipn 2 1 1) eid_none 5 0 1000 0 0)
                    [mkcanonical 7 2 0 CrcNo (HopCount 3 1); mkcanonical 1 1 0 CrcNo (Data [])] in
  typed_payload b = true /\ reserved_clear b = true /\ validate b <> [] /\ rules b = false.
Proof. vm_compute. repeat split; try reflexivity. discriminate. Qed.

(* non-vacuity: a valid 3-block bundle, and the creation-time-zero rule in both directions *)
Definition ex_valid : bundle :=
  mkbundle (mkprimary 7 4 CrcNo (Dtn 1 (map n2b [47;47;97;47])) (Ipn 2 1 1) eid_none 0 0 1000 0 0)
           [mkcanonical 10 3 0 CrcNo (HopCount 32 0); mkcanonical 7 2 0 CrcNo (BundleAge 0); mkcanonical 1 1 0 CrcNo (Data [])].
Example C07_ex_valid : decodable_shape ex_valid = true /\ reserved_clear ex_valid = true /\ validate ex_valid = [] /\ rules ex_valid = true.
Proof. vm_compute. repeat split; reflexivity. Qed.
Example C07_ex_age_missing :
  let b := mkbundle (b_primary ex_valid) [mkcanonical 1 1 0 CrcNo (Data [])] in validate b = [VAgeMissing] /\ rules b = false.
Proof. vm_compute. split; reflexivity. Qed.

(* the exhaustive tie (Gen/Tbl_<NAME>.v are rewritten from the compiled crate on every run): Bundle::validate of the library on an otherwise
   valid bundle carrying block control flags w (every u8) resp. bundle control flags made of every combination of the 14 bits the
   validation looks at, outside the property's don't-care masks, accepts exactly when the model's validate does - checked by the kernel
   over all 256 + 16384 rows (flags_bundle: Proofs/TieFlags.v) *)
Theorem C07_tie_block_flags : forall w, w < 256 -> N.land w 240 <> 240 -> code_block_flags w = [ch (block_flags_ok w)].
Proof. exact tie_block_flags. Qed.
Theorem C07_tie_bundle_flags : forall i, i < 16384 -> N.land (word_of Gen.Tbl_BUNDLEFLAGS.T_BUNDLE_BITS i) 57880 <> 57880 ->
  code_bundle_flags i = [ch (bundle_flags_ok (word_of Gen.Tbl_BUNDLEFLAGS.T_BUNDLE_BITS i))].
Proof. exact tie_bundle_flags. Qed.
(* Bundle::validate of the compiled crate accepts exactly when the model's validate does on EVERY bundle of the block-list part of the
   property's finite rule space: 8 contexts (administrative record? anonymous source? creation time zero?) x all 27931 lists of up to 3
   blocks from {payload, previous node, bundle age, hop count, unknown} x numbers {1,2,3} x status-report flag (enumeration: rs_bundle,
   Proofs/TieFlags.v) - 223448 rows checked by the kernel; together with C07_validate_iff: the CODE accepts such a bundle iff the
   rule list of the property text holds *)
Theorem C07_tie_rule_space : forall i, i < 223448 -> code_rule_space i = [ch (is_valid (rs_bundle i))].
Proof. exact tie_rule_space. Qed.
Check C07_validate_iff : forall b, decodable_shape b = true -> reserved_clear b = true -> (validate b = [] <-> rules b = true).
Print Assumptions C07_decoded_shape.
Print Assumptions C07_validate_iff.
Print Assumptions C07_rejects_nonempty.
Print Assumptions C07_on_decoded.
Print Assumptions C07_validate_iff_any.
Print Assumptions C07_decodable_typed.
Print Assumptions C07_tie_block_flags.
Print Assumptions C07_tie_bundle_flags.
Print Assumptions C07_tie_rule_space.
