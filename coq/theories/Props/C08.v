(* C08 — forwarding update enforces hop limit, bundle age and lifetime exactly.
   update_extensions m clock node rt b models Bundle::update_extensions(node, rt: u128) with the hooked clock
   (Unix ms) in overflow mode m; the right-hand sides are arithmetic on unbounded N (mathematical integers):
   the theorem says the Rust arithmetic agrees with them on the whole u8/u64/u128 range and never aborts.
   Quantified over every bundle in the decoder's image (C07_decoded_shape).  Statements only. *)
From BP7 Require Import Base.Prelude Gen.Consts Model.Types Model.Validate Model.Ops Model.Api Model.WfExt Proofs.DecodeImage Proofs.OpsProofs Proofs.ApiProofs Proofs.TieBase Proofs.TieHop.

Theorem C08_update_exact : forall m clock node rt b,
  decodable_shape b = true -> MS1970_TO2K <= clock -> rt < two128 ->
  exists r b', update_extensions m clock node rt b = Ok (r, b') /\
    (r = false <-> hop_exceeded_after b \/ age_exceeded_after rt b \/ expired (clock - MS1970_TO2K) b) /\
    (r = true -> b' = forwarded node rt b).
Proof. exact update_exact. Qed.

(* no combination of values aborts the update, in debug and release arithmetic *)
Theorem C08_update_total : forall m clock node rt b,
  decodable_shape b = true -> MS1970_TO2K <= clock -> rt < two128 -> no_panic (update_extensions m clock node rt b).
Proof. intros m clock node rt b H1 H2 H3 p. destruct (update_exact m clock node rt b H1 H2 H3) as (r & b' & -> & _). discriminate. Qed.

(* the forwarded bundle differs from the original only in the data of hop-count / bundle-age / previous-node blocks *)
Theorem C08_frame : forall node rt b,
  b_primary (forwarded node rt b) = b_primary b /\
  Forall2 only_data_differs (b_canonicals b) (b_canonicals (forwarded node rt b)).
Proof. exact forwarded_frame. Qed.

(* update_extensions as bundle.rs writes it - the block is selected by extension_block_by_type_mut, then hop_count_get /
   hop_count_increase / hop_count_exceeded, previous_node_update, bundle_age_get / bundle_age_update are applied to it in
   place (Model/Api.v) - IS the function the theorems above are about, for every bundle whose hop counts are u8 values *)
Theorem C08_code_structure : forall m clock node rt b, hop_u8 (b_canonicals b) = true ->
  update_extensions_api m clock node rt b = update_extensions m clock node rt b.
Proof. exact update_extensions_api_eq. Qed.
Theorem C08_code_structure_wf : forall m clock node rt b, wf_bundle_u b = true ->
  update_extensions_api m clock node rt b = update_extensions m clock node rt b.
Proof. intros m clock node rt b H. apply update_extensions_api_eq, wf_hop_u8, H. Qed.

(* the exhaustive tie for the hop count - the first quantifier of the property, "all 65 536 (limit, count) pairs": for EVERY pair the
   library's Bundle::update_extensions on a bundle carrying that hop count block (table written from the compiled crate on every run)
   returns what the model returns, with the count the model computes when it returns true, and never a lower count when false
   (hop_bundle / hop_answer: Proofs/TieHop.v) *)
Theorem C08_tie_hop_count : forall l k, l < 256 -> k < 256 -> code_hop l k = hop_answer l k.
Proof. exact tie_hop. Qed.

(* non-vacuity and the boundary witnesses of the defects repaired in /repo *)
Definition ex_fwd (hop : N * N) (age life t : N) : bundle :=
  mkbundle (mkprimary 7 0 CrcNo (Dtn 1 (map n2b [47;47;100;47])) (Dtn 1 (map n2b [47;47;115;47])) eid_none t 0 life 0 0)
    [mkcanonical 10 4 0 CrcNo (HopCount (fst hop) (snd hop)); mkcanonical 7 3 0 CrcNo (BundleAge age);
     mkcanonical 6 2 0 CrcNo (PreviousNode eid_none); mkcanonical 1 1 0 CrcNo (Data [])].
Example C08_ex_shape : decodable_shape (ex_fwd (32, 1) 5 3600000 1000) = true. Proof. vm_compute. reflexivity. Qed.
Example C08_ex_true : fmap_fst (update_extensions Checked 946684802000 (Ipn 2 7 0) 10 (ex_fwd (32, 1) 5 3600000 1000)) = Ok true.
Proof. vm_compute. reflexivity. Qed.
Example C08_ex_age_ms : fmap_fst (update_extensions Checked 946684802000 eid_none 1 (ex_fwd (32, 1) 3600000 3600000 1000)) = Ok false.
Proof. vm_compute. reflexivity. Qed.
Example C08_ex_hop_255 : fmap_fst (update_extensions Checked 946684802000 eid_none 0 (ex_fwd (255, 255) 0 3600000 1000)) = Ok false.
Proof. vm_compute. reflexivity. Qed.
Example C08_ex_age_max : fmap_fst (update_extensions Checked 946684802000 eid_none 340282366920938463463374607431768211455
                                     (ex_fwd (32, 1) 18446744073709551615 18446744073709551615 1000)) = Ok false.
Proof. vm_compute. reflexivity. Qed.

Print Assumptions C08_update_exact.
Print Assumptions C08_update_total.
Print Assumptions C08_frame.
Print Assumptions C08_code_structure.
Print Assumptions C08_code_structure_wf.
Print Assumptions C08_tie_hop_count.
