(* C09 — creation timestamps are unique under any interleaving.
   "No two calls that generate a fresh creation timestamp (CreationTimestamp::now) ever return the same
    (time, sequence number) pair within a process, whatever the thread interleaving and whatever the clock
    returns (same millisecond, later, or stepped back).  When calls do not overlap, consecutive calls within
    the same millisecond return consecutive sequence numbers and the first call in a later millisecond
    returns sequence number 0."

   Statements only; proofs in Proofs/ClockProofs.v.  Model: Model/Clock.v —
     config            per thread, the clock readings (DTN ms) its successive calls obtain: any number of
                       threads, any number of calls, arbitrary readings;
     step s t          one scheduler grant to thread t on the instrumented, REPAIRED now(): the thread runs
                       to its next yield point (the "lock" yield) or to the end of the call;
     run cfg sched     fold of step over the schedule (any list of thread ids) from a fresh process;
                       the returned (thread, time, seq) triples in completion order;
     run_from c ..     the same from arbitrary prior contents c of the static inside now();
     pinned_run        the same for the ORIGINAL two-atomics code (yield before swap, store, fetch_add).
   The tie to the Rust code is the K-now channel (harness/src/chan_now.rs executes the same schedules on the
   real now() with N OS threads).  Assumption of the model: grants interleave sequentially consistently. *)
From BP7 Require Import Base.Prelude Model.Clock Proofs.ClockProofs Proofs.ClockSublist.

(* uniqueness: every thread count, every assignment of calls and clock readings, every schedule *)
Theorem C09_unique : forall (cfg : config) (sched : list tid), NoDup (returned (run cfg sched)).
Proof. exact unique. Qed.

(* ... and whatever earlier calls in the process left in the static *)
Theorem C09_unique_from : forall (c : cell) (cfg : config) (sched : list tid),
  NoDup (returned (run_from c cfg sched)).
Proof. exact unique_from. Qed.

(* the statement is not vacuous: once the unfinished calls are completed (thread after thread, as the
   K-now channel does) every call has returned exactly one pair *)
Theorem C09_complete : forall (cfg : config) (sched : list tid),
  length (run_all cfg sched) = total_calls cfg /\ NoDup (returned (run_all cfg sched)).
Proof. exact complete_unique. Qed.

(* entry points that draw SEVERAL fresh timestamps per call and hand out some of them (helpers::rnd_bundle, ffi::helper_rnd_bundle draw two
   and hand out the first): whatever subsequence of the generator's answers is handed out, no pair is handed out twice *)
Theorem C09_handed_out_unique : forall (c : cell) (cfg : config) (sched : list tid) l,
  subseq l (returned (run_from c cfg sched)) -> NoDup l.
Proof. exact handed_out_unique. Qed.
Example C09_ex_handed_out :      (* four draws, the first of each pair handed out *)
  subseq [(1000, 0); (1000, 2)] (returned (run_all [[1000; 1000; 1000; 1000]] [])).
Proof. vm_compute. apply subseq_keep, subseq_skip, subseq_keep, subseq_skip, subseq_nil. Qed.

(* sequential clause.  Calls that do not overlap (each call gets its two grants consecutively, threads in
   any order): for consecutive calls a, b —
     b's clock reading is not later than the time a returned (same millisecond, or stepped back):
         b returns a's time with the next sequence number;
     b's clock reading is later: b returns its own reading with sequence number 0. *)
Theorem C09_sequential : forall (c : cell) (cfg : config) (order : list tid) pre a b post,
  trace_from c cfg (non_overlapping order) = pre ++ a :: b :: post ->
  (r_reading b <= r_time a -> r_time b = r_time a /\ r_seq b = r_seq a + 1) /\
  (r_time a < r_reading b -> r_time b = r_reading b /\ r_seq b = 0).
Proof. exact sequential. Qed.

(* the first call of a process returns its own reading with sequence number 0 *)
Theorem C09_sequential_first : forall (cfg : config) (order : list tid) a post,
  trace cfg (non_overlapping order) = a :: post -> r_time a = r_reading a /\ r_seq a = 0.
Proof. exact sequential_first. Qed.

(* the calls recorded by the trace are the calls the order prescribes, with the configured readings *)
Theorem C09_sequential_calls : forall (c : cell) (cfg : config) (order : list tid),
  map (fun r => (r_tid r, r_reading r)) (trace_from c cfg (non_overlapping order)) = dispatch cfg order.
Proof. exact sequential_calls. Qed.

(* the ORIGINAL code violates the property: a two-thread race, and one thread with the clock stepping back *)
Theorem C09_pinned_refuted :
  (exists cfg sched, ~ NoDup (returned (pinned_run cfg sched))) /\
  (exists readings sched, ~ NoDup (returned (pinned_run [readings] sched))).
Proof. exact pinned_refuted. Qed.

(* witnesses, spelled out (the same lines are in the K-now corpus) *)
Example C09_ex_pinned_race :
  pinned_run [[1000]; [1000]] [0; 0; 1; 1; 1; 0; 0]%nat = [(1%nat, 1000, 0); (0%nat, 1000, 0)].
Proof. exact pinned_race_dup. Qed.
Example C09_ex_pinned_stepback :
  pinned_run [[999; 1000; 999]] [0;0;0;0; 0;0;0;0; 0;0;0;0]%nat = [(0%nat, 999, 0); (0%nat, 1000, 0); (0%nat, 999, 0)].
Proof. exact pinned_stepback_dup. Qed.
Example C09_ex_repaired_race :
  run_all [[1000]; [1000]] [0; 0; 1; 1; 1; 0; 0]%nat = [(0%nat, 1000, 0); (1%nat, 1000, 1)].
Proof. exact repaired_race. Qed.
Example C09_ex_repaired_stepback :
  run_all [[999; 1000; 999]] [0;0;0;0; 0;0;0;0; 0;0;0;0]%nat = [(0%nat, 999, 0); (0%nat, 1000, 0); (0%nat, 1000, 1)].
Proof. exact repaired_stepback. Qed.
(* a genuinely interleaved 2-thread schedule of the repaired code: four calls, four distinct pairs *)
Example C09_ex_interleaved :
  run [[1000; 1001]; [1000; 1000]] [0; 1; 1; 0; 1; 0; 0; 1]%nat
  = [(1%nat, 1000, 0); (0%nat, 1000, 1); (0%nat, 1001, 0); (1%nat, 1001, 1)].
Proof. exact ex_run. Qed.

Check C09_unique : forall (cfg : config) (sched : list tid), NoDup (returned (run cfg sched)).
Check C09_unique_from : forall (c : cell) (cfg : config) (sched : list tid), NoDup (returned (run_from c cfg sched)).
Check C09_complete : forall (cfg : config) (sched : list tid),
  length (run_all cfg sched) = total_calls cfg /\ NoDup (returned (run_all cfg sched)).
Check C09_sequential : forall (c : cell) (cfg : config) (order : list tid) pre a b post,
  trace_from c cfg (non_overlapping order) = pre ++ a :: b :: post ->
  (r_reading b <= r_time a -> r_time b = r_time a /\ r_seq b = r_seq a + 1) /\
  (r_time a < r_reading b -> r_time b = r_reading b /\ r_seq b = 0).
Check C09_sequential_first : forall (cfg : config) (order : list tid) a post,
  trace cfg (non_overlapping order) = a :: post -> r_time a = r_reading a /\ r_seq a = 0.
Check C09_sequential_calls : forall (c : cell) (cfg : config) (order : list tid),
  map (fun r => (r_tid r, r_reading r)) (trace_from c cfg (non_overlapping order)) = dispatch cfg order.
Check C09_pinned_refuted :
  (exists cfg sched, ~ NoDup (returned (pinned_run cfg sched))) /\
  (exists readings sched, ~ NoDup (returned (pinned_run [readings] sched))).
Print Assumptions C09_unique.
Print Assumptions C09_unique_from.
Print Assumptions C09_complete.
Print Assumptions C09_sequential.
Print Assumptions C09_sequential_first.
Print Assumptions C09_sequential_calls.
Print Assumptions C09_pinned_refuted.
Print Assumptions C09_handed_out_unique.
