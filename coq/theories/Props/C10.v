(* C10 — endpoint IDs: parse and print are inverse, accessors agree.
   Model/EidText.v transcribes eid.rs (Display, TryFrom<&str>, with_dtn, with_ipn, new_endpoint, node, node_id,
   service_name, is_node_id) on UTF-8 byte lists, after the repair of D15 (node_name: unwrap_or("") instead of expect).
   The accessors node / node_id / service_name / is_node_id / is_non_singleton / eid_print are TOTAL Gallina functions
   (no outcome type: they contain no partial Rust primitive any more); the parser, with_dtn and new_endpoint return
   `eres` because of the slice `host_string[2..]` and `self.node().unwrap()`, and C10_total shows EPanic is unreachable.

   `from_api e`: e is returned by try_from(&str) / with_dtn / with_ipn / none / new_endpoint on Rust values
   (valid UTF-8 strings, u64 numbers).  C10_api_image: this is exactly the boolean normal form `api_eid`.
   Values assembled from the public enum variants directly (EndpointID::Dtn(7, ..)) are outside the property.

   Never judged (accepted by code and model, neither canonical nor in a listed rejection class): ipn numbers written
   with a leading '+' or leading zeros ("ipn:+5.1", "ipn:005.1" parse to Ipn 2 5 1, which prints "ipn:5.1"), and
   "dtn://node" without the trailing slash (parses to the node ID "dtn://node/").  A node NAMED none with a trailing
   slash ("dtn://none/", "dtn://none/x") is canonical and accepted; only the exact string "dtn://none" is rejected.
   Statements only. *)
From BP7 Require Import Base.Prelude Base.Decimal Base.Utf8 Base.Str Gen.Consts Cbor.SerdeDe.
From BP7 Require Import Model.Types Model.Encode Model.Decode Model.EidText Proofs.EidProofs.

(* printing then parsing gives the same endpoint ID back *)
Theorem C10_print_parse : forall e, from_api e -> eid_parse (eid_print e) = EOk e.
Proof. intros e H. apply print_parse, from_api_normal, H. Qed.

(* serde_cbor::from_slice(serde_cbor::to_vec(e)) = e   (eid_fits: the name is shorter than 2^64 bytes) *)
Theorem C10_cbor_roundtrip : forall e, from_api e -> eid_fits e = true -> from_slice p_eid (enc_eid e) = Ok e.
Proof. intros e H. apply cbor_roundtrip, from_api_normal, H. Qed.

(* canonical strings are accepted and their parts reported unchanged
   ("dtn:none"; "dtn://" node "/" service for every valid-UTF-8 node without '/' -- also the empty one and "none" --
   and every valid-UTF-8 service incl. the empty one and ones containing '/'; "ipn:" n "." s in plain decimal) *)
Theorem C10_accepts_canonical :
  eid_parse (s_dtn ++ [c_colon] ++ s_none) = EOk eid_none /\
  (forall n svc, utf8_valid n = true -> mem_byte c_slash n = false -> utf8_valid svc = true ->
     exists e, eid_parse (s_dtn_url ++ n ++ [c_slash] ++ svc) = EOk e /\
               e = Dtn ENDPOINT_URI_SCHEME_DTN (s_slashes ++ n ++ [c_slash] ++ svc) /\
               node e = Some n /\ service_name e = opt_nonempty svc) /\
  (forall n s, 1 <= n < two64 -> s < two64 ->
     exists e, eid_parse (s_ipn ++ [c_colon] ++ dec n ++ [c_dot] ++ dec s) = EOk e /\
               e = Ipn ENDPOINT_URI_SCHEME_IPN n s /\
               node e = Some (dec n) /\ service_name e = (if s =? 0 then None else Some (dec s))).
Proof. exact accepts_canonical. Qed.

(* the rejection classes of the property text as one decidable predicate on the string
   (EidProofs.rejected_class = no ':' | unknown scheme | dtn without "//" (and not "none") | "dtn://none" |
    ipn node number 0 | ipn field not accepted by u64::from_str (+?[0-9]+ below 2^64) | ipn field count <> 2) *)
Theorem C10_rejects : forall s, rejected_class s = true -> exists k, eid_parse s = EErr k.
Proof. exact rejected_class_err. Qed.

(* the same classes in explicit form, with the error returned *)
Theorem C10_rejects_explicit :
  (forall s, mem_byte c_colon s = false -> eid_parse s = EErr InvalidUrlFormat) /\
  (forall sch ssp, mem_byte c_colon sch = false -> sch <> s_dtn -> sch <> s_ipn ->
     eid_parse (sch ++ c_colon :: ssp) = EErr UnknownScheme) /\
  (forall ssp, ssp <> s_none -> starts_with s_slashes ssp = false -> eid_parse (s_dtn ++ c_colon :: ssp) = EErr InvalidUrlFormat) /\
  eid_parse (s_dtn_url ++ s_none) = EErr NoneNotValidHost /\
  (forall a b s, mem_byte c_dot a = false -> mem_byte c_dot b = false -> parse_u64 a = Some 0 -> parse_u64 b = Some s ->
     eid_parse (s_ipn ++ c_colon :: a ++ c_dot :: b) = EErr InvalidNodeNumber) /\
  (forall a b, mem_byte c_dot a = false -> mem_byte c_dot b = false -> parse_u64 a = None \/ parse_u64 b = None ->
     eid_parse (s_ipn ++ c_colon :: a ++ c_dot :: b) = EErr CouldNotParseNumber) /\
  (forall ssp, count_byte c_dot ssp <> 1%nat -> eid_parse (s_ipn ++ c_colon :: ssp) = EErr WrongNumberOfFieldsInIpn).
Proof.
  split; [exact rej_no_colon|split; [exact rej_unknown_scheme|split; [exact rej_dtn_no_slashes|split; [exact rej_dtn_none_host|
  split; [exact rej_ipn_node_zero|split; [exact rej_ipn_non_numeric|exact rej_ipn_field_count]]]]]].
Qed.

(* the node ID is a parseable node ID with the same node part *)
Theorem C10_node_id : forall e id, from_api e -> node_id e = Some id ->
  exists e', eid_parse id = EOk e' /\ is_node_id e' = true /\ node e' = node e.
Proof. exact node_id_api. Qed.
(* ... also for every EID the CBOR decoder can produce (any valid-UTF-8 dtn name, e.g. "abc") *)
Theorem C10_node_id_decoded : forall e id, eid_utf8 e = true -> (forall c n s, e = Ipn c n s -> 1 <= n < two64) ->
  node_id e = Some id ->
  exists e', eid_parse id = EOk e' /\ is_node_id e' = true /\ node e' = node e /\ api_eid e' = true.
Proof. exact node_id_parses. Qed.

(* a sibling endpoint keeps the node part and reports the new service: dtn -- the string itself (None when empty);
   ipn -- the decimal value of the white-space-trimmed argument (None for 0), InvalidService when it is not a number;
   last clause: ASCII white space around a decimal number is what trim() removes *)
Theorem C10_new_endpoint :
  (forall c s ep, from_api (Dtn c s) -> utf8_valid ep = true ->
     exists e', new_endpoint (Dtn c s) ep = EOk e' /\ from_api e' /\
                node e' = node (Dtn c s) /\ service_name e' = opt_nonempty ep) /\
  (forall c n s ep k, from_api (Ipn c n s) -> parse_u64 (trim ep) = Some k ->
     exists e', new_endpoint (Ipn c n s) ep = EOk e' /\ from_api e' /\
                node e' = node (Ipn c n s) /\ service_name e' = (if k =? 0 then None else Some (dec k))) /\
  (forall c n s ep, parse_u64 (trim ep) = None -> new_endpoint (Ipn c n s) ep = EErr InvalidService) /\
  (forall c a ep, new_endpoint (DtnNone c a) ep = EErr NoneHasNoService) /\
  (forall p1 p2 k, forallb ws1 p1 = true -> forallb ws1 p2 = true -> k < two64 ->
     parse_u64 (trim (p1 ++ dec k ++ p2)) = Some k).
Proof. exact new_endpoint_spec. Qed.

(* the API image is exactly the normal form: Dtn 1 "//…/…" (valid UTF-8), DtnNone 1 0, Ipn 2 n>=1 s *)
Theorem C10_api_image : forall e, from_api e <-> api_eid e = true.
Proof. intros e. split; [apply from_api_normal|apply api_from_api]. Qed.

(* no panic: the slice in with_dtn and the unwrap in new_endpoint are never reached outside their domain;
   new_endpoint even for every EID whatsoever with a valid-UTF-8 name (decoder image, C06) *)
Theorem C10_total :
  (forall s, utf8_valid s = true -> e_no_panic (eid_parse s)) /\
  (forall s, utf8_valid s = true -> e_no_panic (with_dtn s)) /\
  (forall n s, e_no_panic (with_ipn n s)) /\
  (forall e ep, eid_utf8 e = true -> utf8_valid ep = true -> e_no_panic (new_endpoint e ep)).
Proof. exact api_total. Qed.

(* non-vacuity and boundary witnesses *)
Definition B_ (l : list N) : list byte := map n2b l.
Example C10_ex_parse :   (* "dtn://n1/in" *)
  eid_parse (B_ [100;116;110;58;47;47;110;49;47;105;110]) = EOk (Dtn 1 (B_ [47;47;110;49;47;105;110])).
Proof. vm_compute. reflexivity. Qed.
Example C10_ex_from_api : from_api (Dtn 1 (B_ [47;47;110;49;47;105;110])).
Proof. apply api_from_api. vm_compute. reflexivity. Qed.
Example C10_ex_plus : (* "ipn:+5.01" is accepted and prints as "ipn:5.1" -- outside both classes *)
  eid_parse (B_ [105;112;110;58;43;53;46;48;49]) = EOk (Ipn 2 5 1) /\ rejected_class (B_ [105;112;110;58;43;53;46;48;49]) = false.
Proof. vm_compute. split; reflexivity. Qed.
Example C10_ex_none_named_node : (* "dtn://none/" *)
  eid_parse (B_ [100;116;110;58;47;47;110;111;110;101;47]) = EOk (Dtn 1 (B_ [47;47;110;111;110;101;47])).
Proof. vm_compute. reflexivity. Qed.
Example C10_ex_rejected : (* "ipn:0.1", "dtn:n1/", "ipn:1.2.3", "x:1", "ipn:-1.2" *)
  forallb rejected_class [B_ [105;112;110;58;48;46;49]; B_ [100;116;110;58;110;49;47]; B_ [105;112;110;58;49;46;50;46;51];
                          B_ [120;58;49]; B_ [105;112;110;58;45;49;46;50]] = true.
Proof. vm_compute. reflexivity. Qed.
Example C10_ex_d15 : (* decoded name "abc" (no slashes): the repaired node_name is "", new_endpoint gives "dtn:///x" *)
  node (Dtn 1 (B_ [97;98;99])) = Some [] /\ new_endpoint (Dtn 1 (B_ [97;98;99])) (B_ [120]) = EOk (Dtn 1 (B_ [47;47;47;120])).
Proof. vm_compute. split; reflexivity. Qed.
Example C10_ex_trim : (* " 42\t" and U+3000 "7" U+0085 *)
  new_endpoint (Ipn 2 5 6) (B_ [32;52;50;9]) = EOk (Ipn 2 5 42) /\
  new_endpoint (Ipn 2 5 6) (B_ [227;128;128;55;194;133]) = EOk (Ipn 2 5 7).
Proof. vm_compute. split; reflexivity. Qed.

Check C10_print_parse : forall e, from_api e -> eid_parse (eid_print e) = EOk e.
Check C10_cbor_roundtrip : forall e, from_api e -> eid_fits e = true -> from_slice p_eid (enc_eid e) = Ok e.
Check C10_rejects : forall s, rejected_class s = true -> exists k, eid_parse s = EErr k.
Check C10_node_id : forall e id, from_api e -> node_id e = Some id ->
  exists e', eid_parse id = EOk e' /\ is_node_id e' = true /\ node e' = node e.

Print Assumptions C10_print_parse.
Print Assumptions C10_cbor_roundtrip.
Print Assumptions C10_accepts_canonical.
Print Assumptions C10_rejects.
Print Assumptions C10_rejects_explicit.
Print Assumptions C10_node_id.
Print Assumptions C10_node_id_decoded.
Print Assumptions C10_new_endpoint.
Print Assumptions C10_api_image.
Print Assumptions C10_total.
