(* C11 — block-list invariants survive any sequence of bundle mutations.
   Operations, start states, admissible arguments and the invariant are defined in Model/OpSeq.v over the mutators
   of Model/Ops.v (add_canonical_block with checked automatic numbering, set_payload, set_payload_block, set_crc,
   update_extensions); `step m b o` is the bundle after the call in overflow mode m.  Statements only.

   Start state (start_ok): what BundleBuilder::build / new_std_payload_bundle guarantee about the block list
   (built_by_builders: it is the output of the stable descending sort and its last block carries payload data),
   Bundle::validate accepts it, and wf_bundle_u (Model/WfExt.v: the C01 domain extended to unknown CRC types — integer
   widths, EIDs in constructor normal form, CRC value of the right length or CrcUnknown k with 3 <= k <= 255, block data
   variant determined by the block type — the last one is not implied by validate, which accepts CanonicalData::Unknown
   under any block type).  wf_bundle implies wf_bundle_u (C11_wf_conservative).
   SetCrc takes EVERY u8 code: an unknown type (3..255) is stored as CrcUnknown, has no CRC field on the wire, and the
   round trip of such bundles is C11_roundtrip_unknown_crc (Proofs/CodecUnknownCrc.v; Model/Wf.v and Proofs/CodecProofs.v
   are unchanged).
   Admissible arguments (op_admissible b0): see Model/OpSeq.v op_ok; requested block numbers, payload bytes,
   residence times (any N, not only u128) and clock values >= 2000-01-01 are arbitrary. *)
From Coq Require Import Sorting.Sorted.
From BP7 Require Import Base.Prelude Gen.Consts Model.Types Model.Encode Model.Decode Model.Wf Model.WfExt Model.Validate Model.Ops
  Model.OpSeq Model.Api Spec.Rules Proofs.CodecUnknownCrc Proofs.InvariantProofs Proofs.ApiProofs Proofs.TieBase Proofs.TieCrcCode.

Theorem C11_invariant : forall m b0 ops, start_ok b0 -> Forall (op_admissible b0) ops ->
  exists b, fold_res (step m) ops b0 = Ok b
            /\ Inv b
            /\ payload b = last_payload_set b0 ops
            /\ (let '(bs, b') := to_cbor b in from_cbor bs = Ok b').
Proof. exact invariant_all. Qed.

(* the round trip the last conjunct rests on, for every bundle of the extended domain (any mix of CRC types 0/1/2 and unknown
   types 3..255 over the blocks); nothing but stored CRC values changes; and the extension is conservative *)
Theorem C11_roundtrip_unknown_crc : forall b, wf_bundle_u b = true ->
  let '(bs, b') := to_cbor b in from_cbor bs = Ok b' /\ only_crc_changed b b' /\ crcs_filled_u b' = true.
Proof. exact to_cbor_roundtrip_u. Qed.
Theorem C11_wf_conservative : forall b, wf_bundle b = true -> wf_bundle_u b = true.
Proof. exact wf_bundle_u_of_wf. Qed.

(* the builders establish the invariant *)
Theorem C11_start : forall b, start_ok b -> Inv b.
Proof. exact start_inv. Qed.
Theorem C11_builder_build : forall p cs b, builder_build p cs = Some b -> built_by_builders b.
Proof. exact builder_build_built. Qed.
Theorem C11_std_bundle : forall src dst t seq data,
  wf_eid src = true -> wf_eid dst = true -> t <> 0 -> t < two64 -> seq < two64 -> Nlen data < two64 ->
  start_ok (new_std_payload_bundle src dst t seq data).
Proof. exact std_bundle_start. Qed.

(* every single admissible call preserves it (no abort in either overflow mode) and sets the payload as told *)
Theorem C11_step : forall m b o, Inv b -> op_admissible b o ->
  exists b', step m b o = Ok b' /\ Inv b' /\ payload b' = payload_after (payload b) o.
Proof. exact inv_step. Qed.

(* the invariant in the words of the property *)
Theorem C11_inv_reading : forall b, Inv b ->
  let cs := b_canonicals b in
  NoDup (map c_num cs) /\ ~ In 0 (map c_num cs)
  /\ Sorted (fun a b => b < a) (map c_num cs)                                       (* each number greater than the next *)
  /\ (exists pb, last_opt cs = Some pb /\ c_type pb = 1 /\ c_num pb = 1 /\ carries_data pb = true)
  /\ count 1 (map c_type cs) = 1%nat
  /\ at_most_once 6 cs = true /\ at_most_once 7 cs = true /\ at_most_once 10 cs = true
  /\ validate b = []
  /\ (let '(bs, b') := to_cbor b in from_cbor bs = Ok b').
Proof.
  intros b HI. pose proof (roundtrip_of_inv b HI) as Hrt. destruct HI as (H1 & H2 & H3 & H4 & H5 & H6 & H7). cbv zeta.
  apply strictly_desc_adjacent in H3. apply singletons_once_explicit in H5 as (A & B & C).
  destruct (payload_last_reading _ H4) as [P1 P2].
  split; [assumption|]. split; [assumption|]. split; [assumption|]. split; [assumption|]. split; [assumption|].
  split; [assumption|]. split; [assumption|]. split; [assumption|]. split; assumption.
Qed.

(* ---- non-vacuity ---- *)
Definition ex_primary (t : N) : primary :=
  mkprimary 7 0 CrcNo (Dtn 1 (map n2b [47;47;100;47])) (Dtn 1 (map n2b [47;47;115;47])) eid_none t 0 3600000 0 0.
(* BundleBuilder: canonicals handed over in arbitrary order, payload() pushes the payload block, build() sorts *)
Definition ex_blocks : list canonical :=
  [mkcanonical 7 2 0 CrcNo (BundleAge 0); mkcanonical 10 4 0 CrcNo (HopCount 32 0);
   mkcanonical 6 3 0 CrcNo (PreviousNode eid_none); new_payload_block 0 (map n2b [65;66;67])].
Definition ex_b4 : bundle :=
  mkbundle (ex_primary 1000)
    [mkcanonical 10 4 0 CrcNo (HopCount 32 0); mkcanonical 6 3 0 CrcNo (PreviousNode eid_none);
     mkcanonical 7 2 0 CrcNo (BundleAge 0); mkcanonical 1 1 0 CrcNo (Data (map n2b [65;66;67]))].
Example C11_ex_build : builder_build (ex_primary 1000) ex_blocks = Some ex_b4.
Proof. vm_compute. reflexivity. Qed.
Example C11_ex_start : start_ok ex_b4.
Proof.
  split; [exact (builder_build_built _ _ _ C11_ex_build)|]. split; vm_compute; reflexivity.
Qed.
Definition ex_ops : list op :=
  [AddBlock (mkcanonical 192 0 1 CrcNo (Unknown (map n2b [1;2])));          (* requested number 0 -> gets 5 *)
   AddBlock (mkcanonical 10 666 0 CrcNo (HopCount 3 0));                     (* hop count already present: ignored *)
   SetPayload (map n2b [120]);
   SetCrc 2;
   SetPayloadBlock (mkcanonical 1 18446744073709551615 4 CrcNo (Data (map n2b [121; 122])));
   UpdateExt (Ipn 2 23 0) 10 946684802000].
Definition ex_final : bundle :=
  mkbundle (mkprimary 7 0 Crc32Empty (Dtn 1 (map n2b [47;47;100;47])) (Dtn 1 (map n2b [47;47;115;47])) eid_none 1000 0 3600000 0 0)
    [mkcanonical 192 5 1 Crc32Empty (Unknown (map n2b [1;2])); mkcanonical 10 4 0 Crc32Empty (HopCount 32 1);
     mkcanonical 6 3 0 Crc32Empty (PreviousNode (Ipn 2 23 0)); mkcanonical 7 2 0 Crc32Empty (BundleAge 10);
     mkcanonical 1 1 4 CrcNo (Data (map n2b [121; 122]))].
Example C11_ex_admissible : Forall (op_admissible ex_b4) ex_ops.
Proof. repeat constructor. Qed.
Example C11_ex_run : fold_res (step Checked) ex_ops ex_b4 = Ok ex_final.
Proof. vm_compute. reflexivity. Qed.
Example C11_ex_final_inv : Inv ex_final /\ payload ex_final = Some (map n2b [121; 122]).
Proof.
  destruct (C11_invariant Checked ex_b4 ex_ops C11_ex_start C11_ex_admissible) as (b & E & HI & HP & _).
  rewrite C11_ex_run in E. inversion E; subst. split; [assumption|]. rewrite HP. vm_compute. reflexivity.
Qed.

(* an unknown CRC type: every block keeps its five (primary: eight) elements, no CRC field, and the bundle decodes again *)
Definition ex_ops_u : list op := [SetCrc 200; AddBlock (mkcanonical 192 0 0 (CrcUnknown 7) (Unknown [])); SetPayload [n2b 1]; SetCrc 1; SetCrc 255].
Example C11_ex_admissible_u : Forall (op_admissible ex_b4) ex_ops_u.
Proof. repeat constructor. Qed.
Example C11_ex_unknown_crc_run :
  match fold_res (step Checked) [SetCrc 200] ex_b4 with
  | Ok b => forallb (fun c => crc_eqb (c_crc c) (CrcUnknown 200)) (b_canonicals b) && crc_eqb (p_crc (b_primary b)) (CrcUnknown 200)
            && (let '(bs, b') := to_cbor b in match from_cbor bs with Ok d => bundle_eqb d b && bundle_eqb b' b | _ => false end)
  | _ => false end = true.
Proof. vm_compute. reflexivity. Qed.

(* boundary witnesses of the two defects of the pinned tree that touched this property *)
(* highest block number 2^64-1: the checked numbering adds nothing (the original `+ 1` overflowed) *)
Definition ex_max : bundle :=
  mkbundle (ex_primary 1000) [mkcanonical 192 18446744073709551615 0 CrcNo (Unknown []); mkcanonical 1 1 0 CrcNo (Data [])].
Example C11_ex_max_start : start_ok ex_max.
Proof. split; [split; [exists (b_canonicals ex_max); vm_compute; reflexivity|eexists; split; vm_compute; reflexivity]|split; vm_compute; reflexivity]. Qed.
Example C11_ex_max_add : add_canonical_block ex_max (mkcanonical 7 0 0 CrcNo (BundleAge 0)) = ex_max.
Proof. vm_compute. reflexivity. Qed.
(* creation time 0: valid only with a bundle age block; adding one to a payload-only bundle makes it valid *)
Definition ex_t0 : bundle := mkbundle (ex_primary 0) [mkcanonical 1 1 0 CrcNo (Data [])].
Example C11_ex_t0_invalid : validate ex_t0 = [VAgeMissing].
Proof. vm_compute. reflexivity. Qed.
Example C11_ex_t0_add : validate (add_canonical_block ex_t0 (mkcanonical 7 0 0 CrcNo (BundleAge 0))) = [].
Proof. vm_compute. reflexivity. Qed.

(* why start_ok asks for wf_bundle_u on top of validate: a bundle age block (type 7) carrying CanonicalData::Unknown is accepted by
   validate, yet it does not survive to_cbor / from_cbor (the decoder re-reads the bytes as BundleAge) *)
Definition ex_unk7 : bundle :=
  mkbundle (ex_primary 1000) [mkcanonical 7 2 0 CrcNo (Unknown [n2b 5]); mkcanonical 1 1 0 CrcNo (Data [])].
Example C11_ex_unknown_typed :
  validate ex_unk7 = [] /\ wf_bundle_u ex_unk7 = false /\
  (let '(bs, b') := to_cbor ex_unk7 in match from_cbor bs with Ok d => bundle_eqb d b' | _ => false end) = false.
Proof. vm_compute. repeat split; reflexivity. Qed.

(* ================= the public constructors and builders (Model/Api.v; proofs: Proofs/ApiProofs.v) =================
   "Starting from any valid bundle built through the public builders": BundleBuilder with its three optional setters
   (primary / canonicals / payload), PrimaryBlockBuilder with its nine optional setters, the new_*_block constructors. *)
(* BundleBuilder is builder_build on the block list with the payload() block pushed last; what it returns is a start state
   as soon as it validates and its values are well formed - hence the invariant holds after every admissible sequence *)
Theorem C11_bundle_builder : forall p cs pl,
  bundle_builder_build p cs pl =
  builder_build (dflt p primary_new) (dflt cs [] ++ match pl with Some d => [new_payload_block 0 d] | None => [] end).
Proof. exact bundle_builder_is_builder_build. Qed.
Theorem C11_from_builder : forall m p cs pl b0 ops,
  bundle_builder_build p cs pl = Some b0 -> validate b0 = [] -> wf_bundle_u b0 = true -> Forall (op_admissible b0) ops ->
  exists b, fold_res (step m) ops b0 = Ok b /\ Inv b /\ payload b = last_payload_set b0 ops
            /\ (let '(bs, b') := to_cbor b in from_cbor bs = Ok b').
Proof. intros m p cs pl b0 ops Hb Hv Hw. apply invariant_all. eapply bundle_builder_start; eassumption. Qed.
(* extension blocks numbered above 1, in any order, and payload(d): build() succeeds, the payload block is last *)
Theorem C11_builder_payload_last : forall p cs d, (forall c, In c cs -> 1 < c_num c) ->
  exists b, bundle_builder_build (Some p) (Some cs) (Some d) = Some b
            /\ b_primary b = p /\ last_opt (b_canonicals b) = Some (new_payload_block 0 d)
            /\ b_canonicals b = sort_desc (cs ++ [new_payload_block 0 d]).
Proof. exact bundle_builder_payload. Qed.
(* every constructor call with in-range arguments is an admissible argument of add_canonical_block / set_payload_block *)
Theorem C11_constructors_admissible : forall strict num flags, flags_ok strict flags = true ->
  (forall limit, limit < 256 -> arg_block_ok strict (new_hop_count_block num flags limit) = true)
  /\ (forall age, age < two64 -> arg_block_ok strict (new_bundle_age_block num flags age) = true)
  /\ (forall e, wf_eid e = true -> Nlen (enc_eid e) < two64 -> arg_block_ok strict (new_previous_node_block num flags e) = true)
  /\ (forall d, Nlen d < two64 -> arg_block_ok strict (new_payload_block flags d) = true)
  /\ (forall ty d, ty < two64 -> is_unique_type ty = false -> Nlen d < two64 ->
        arg_block_ok strict (new_canonical_block ty num flags (Unknown d)) = true).
Proof. exact constructors_admissible. Qed.
Theorem C11_constructors_valid : forall num flags,
  (forall limit, extension_valid (new_hop_count_block num flags limit) = true)
  /\ (forall age, extension_valid (new_bundle_age_block num flags age) = true)
  /\ (forall e, extension_valid (new_previous_node_block num flags e) = eid_valid e)
  /\ (forall d, extension_valid (new_payload_block flags d) = true)
  /\ (forall ty d, extension_valid (new_canonical_block ty num flags (Unknown d)) = true).
Proof. exact constructors_extension_valid. Qed.
(* PrimaryBlockBuilder refuses exactly the null destination, copies every field it was given (defaults otherwise), and the
   block validates iff the flag word and the endpoint IDs do *)
Theorem C11_primary_builder : forall pb,
  (primary_builder_build pb = None <-> dflt (pb_dst pb) eid_none = eid_none)
  /\ (forall p, primary_builder_build pb = Some p ->
        p_version p = DTN_VERSION /\ p_flags p = dflt (pb_flags pb) 0 /\ p_crc p = dflt (pb_crc pb) CrcNo
        /\ Some (p_dst p) = pb_dst pb /\ p_dst p <> eid_none
        /\ p_src p = dflt (pb_src pb) eid_none /\ p_rpt p = dflt (pb_rpt pb) eid_none
        /\ (p_time p, p_seq p) = dflt (pb_ts pb) (0, 0) /\ p_lifetime p = dflt (pb_lifetime pb) 0
        /\ p_frag_off p = dflt (pb_off pb) 0 /\ p_total_len p = dflt (pb_len pb) 0).
Proof. intros pb. split; [apply primary_builder_refuses|apply primary_builder_fields]. Qed.
(* new_std_payload_bundle with its builder unwrap: aborts exactly for the null destination, otherwise the start state of C11_std_bundle *)
Theorem C11_std_bundle_api : forall src dst t seq data,
  new_std_payload_bundle_api src dst t seq data =
  if eid_eqb dst eid_none then Panic PUnwrap else Ok (new_std_payload_bundle src dst t seq data).
Proof. exact std_bundle_api_spec. Qed.
(* the block-level mutators update_extensions is written with *)
Theorem C11_block_ops : forall c,
  (forall l k, hop_count_get c = Some (l, k) -> k < 256 ->
     (k < 255 -> fst (hop_count_increase c) = true /\ hop_count_get (snd (hop_count_increase c)) = Some (l, k + 1)
                 /\ set_c_data (snd (hop_count_increase c)) (c_data c) = c)
     /\ (k = 255 -> hop_count_increase c = (false, c)))
  /\ (forall a age, bundle_age_get c = Some a ->
        fst (bundle_age_update c age) = true /\ bundle_age_get (snd (bundle_age_update c age)) = Some (N.min age (two64 - 1))
        /\ set_c_data (snd (bundle_age_update c age)) (c_data c) = c)
  /\ (forall age, bundle_age_get c = None -> bundle_age_update c age = (false, c))
  /\ (forall e node, previous_node_get c = Some e ->
        fst (previous_node_update c node) = true /\ previous_node_get (snd (previous_node_update c node)) = Some node
        /\ set_c_data (snd (previous_node_update c node)) (c_data c) = c)
  /\ (forall node, previous_node_get c = None -> previous_node_update c node = (false, c))
  /\ (hop_count_exceeded c = true <-> exists l k, hop_count_get c = Some (l, k) /\ l < k).
Proof.
  intros c. split; [intros l k; apply hop_count_increase_law|]. split; [intros a age; apply bundle_age_update_law|].
  split; [intros age; apply bundle_age_update_none|]. split; [intros e node; apply previous_node_update_law|].
  split; [intros node; apply previous_node_update_none|apply hop_count_exceeded_iff].
Qed.
(* non-vacuity: the bundle of C11_ex_build made with the constructors and BundleBuilder.payload() *)
Example C11_ex_api_build :
  bundle_builder_build (Some (ex_primary 1000))
    (Some [new_bundle_age_block 2 0 0; new_hop_count_block 4 0 32; new_previous_node_block 3 0 eid_none])
    (Some (map n2b [65;66;67])) = Some ex_b4.
Proof. vm_compute. reflexivity. Qed.
Example C11_ex_primary_builder :
  primary_builder_build (mkpb None None (Some (Dtn 1 (map n2b [47;47;100;47]))) (Some (Dtn 1 (map n2b [47;47;115;47]))) None
                              (Some (1000, 0)) (Some 3600000) None None) = Some (ex_primary 1000)
  /\ primary_builder_build (mkpb (Some 4) None None (Some (Ipn 2 1 1)) None None None None None) = None.
Proof. vm_compute. split; reflexivity. Qed.

(* the exhaustive tie for set_crc: for EVERY u8 type code k the library's Bundle::set_crc(k) followed by Bundle::to_cbor (table written
   from the compiled crate on every run) emits the bytes the model emits (crc_bundle / crc_answer: Proofs/TieCrcCode.v) *)
Theorem C11_tie_crc_code : forall k, k < 256 -> code_crc k = crc_answer k.
Proof. exact tie_crc_code. Qed.

Check C11_invariant : forall m b0 ops, start_ok b0 -> Forall (op_admissible b0) ops ->
  exists b, fold_res (step m) ops b0 = Ok b /\ Inv b /\ payload b = last_payload_set b0 ops
            /\ (let '(bs, b') := to_cbor b in from_cbor bs = Ok b').
Check C11_step : forall m b o, Inv b -> op_admissible b o ->
  exists b', step m b o = Ok b' /\ Inv b' /\ payload b' = payload_after (payload b) o.
Check C11_start : forall b, start_ok b -> Inv b.

Print Assumptions C11_invariant.
Print Assumptions C11_start.
Print Assumptions C11_roundtrip_unknown_crc.
Print Assumptions C11_wf_conservative.
Print Assumptions C11_builder_build.
Print Assumptions C11_std_bundle.
Print Assumptions C11_step.
Print Assumptions C11_inv_reading.
Print Assumptions C11_ex_final_inv.
Print Assumptions C11_bundle_builder.
Print Assumptions C11_from_builder.
Print Assumptions C11_builder_payload_last.
Print Assumptions C11_constructors_admissible.
Print Assumptions C11_constructors_valid.
Print Assumptions C11_primary_builder.
Print Assumptions C11_std_bundle_api.
Print Assumptions C11_block_ops.
Print Assumptions C11_tie_crc_code.
