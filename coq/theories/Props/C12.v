(* C12 — administrative records round-trip; status reports describe the right bundle.
   Statements only (proofs: Proofs/AdminProofs.v; model: Model/AdminRecord.v; layout: Spec/Rfc9171Admin.v).

   enc_admin_record models serde_cbor::to_vec(&AdministrativeRecord), admin_from_bytes models
   serde_cbor::from_slice::<AdministrativeRecord> on the stream-parser model; new_status_report_bundle m clock
   gen B src crc pos reason models administrative_record::new_status_report_bundle(&B, src, crc, pos, reason)
   with the hooked clock (Unix ms), overflow mode m, and `gen` the contents of CreationTimestamp::now()'s
   static before the call.

   normal_form is the property's domain of record values: time present only on asserted, time-reporting
   items; fragment offset only with non-zero fragment length; unknown records with a type code other than 1;
   no Mismatched; integers in their Rust ranges, source EID constructor-normal, fewer than 2^64 items/bytes.

   The subject bundle B ranges over the decoder's image (decodable_shape, C07_decoded_shape) whose source
   name is shorter than 2^64 bytes (wf_eid), not a fragment, report-to not dtn:none.  Environment
   assumptions stated in the theorem: the reporting node's EID passes EndpointID::validate (otherwise the
   report bundle cannot be valid), the clock is after 2000-01-01T00:00:00.000Z (dtn_time_now underflows
   before it; at exactly the epoch the creation time would be 0 and section 4.2.7 of RFC 9171 then demands
   a bundle age block) and fits u64, and the timestamp generator has not handed out 2^64 - 1 timestamps
   within one millisecond (gen_ok). *)
From BP7 Require Import Base.Prelude Gen.Consts Cbor.Item Cbor.SerdeDe Model.Types Model.Wf Model.Validate Model.AdminRecord.
From BP7 Require Import Spec.Rfc9171Admin Proofs.DecodeImage Proofs.AdminProofs.

Theorem C12_record_roundtrip : forall r, normal_form r = true ->
  admin_from_bytes (enc_admin_record r) = Ok r.
Proof. exact record_roundtrip. Qed.

Theorem C12_record_layout : forall r, normal_form r = true ->
  enc_admin_record r = ser (record_item r).
Proof. intros r _. exact (record_layout r). Qed.

Theorem C12_status_report_bundle : forall m clock gen B src crc pos reason,
  decodable_shape B = true -> wf_eid (p_src (b_primary B)) = true ->
  has_fragmentation (b_primary B) = false -> eid_eqb (p_rpt (b_primary B)) eid_none = false ->
  eid_valid src = true -> pos < 4 -> reason < u32_bound -> crc <= 2 ->
  MS1970_TO2K < clock -> clock < two64 -> gen_ok gen = true ->
  exists R sr,
    new_status_report_bundle m clock gen B src crc pos reason = Ok R /\
    validate R = [] /\ is_admin_record R = true /\
    p_dst (b_primary R) = p_rpt (b_primary B) /\ p_src (b_primary R) = src /\
    p_lifetime (b_primary R) = p_lifetime (b_primary B) /\
    creation_now m clock gen = Ok (p_time (b_primary R), p_seq (b_primary R)) /\
    crc_code (p_crc (b_primary R)) = crc /\ Forall (fun c => crc_code (c_crc c) = crc) (b_canonicals R) /\
    (exists data, payload R = Some data /\ admin_from_bytes data = Ok (BundleStatusReport sr)) /\
    sr_src sr = p_src (b_primary B) /\ sr_time sr = p_time (b_primary B) /\ sr_seq sr = p_seq (b_primary B) /\
    sr_frag_len sr = 0 /\
    asserted_exactly sr pos /\
    time_iff_requested sr pos (requests_status_time (b_primary B)) (clock - MS1970_TO2K) /\
    sr_reason sr = reason.
Proof. exact status_report_bundle. Qed.

(* no panic on the property's domain, in debug and release arithmetic *)
Theorem C12_status_report_bundle_total : forall m clock gen B src crc pos reason,
  decodable_shape B = true -> wf_eid (p_src (b_primary B)) = true ->
  has_fragmentation (b_primary B) = false -> eid_eqb (p_rpt (b_primary B)) eid_none = false ->
  eid_valid src = true -> pos < 4 -> reason < u32_bound -> crc <= 2 ->
  MS1970_TO2K < clock -> clock < two64 -> gen_ok gen = true ->
  no_panic (new_status_report_bundle m clock gen B src crc pos reason).
Proof.
  intros m clock gen B src crc pos reason H1 H2 H3 H4 H5 H6 H7 H8 H9 H10 H11 p.
  destruct (status_report_bundle m clock gen B src crc pos reason H1 H2 H3 H4 H5 H6 H7 H8 H9 H10 H11) as (R & sr & -> & _).
  discriminate.
Qed.

(* outside the domain the code aborts, and the model says so: fragments hit `unimplemented!()`, a subject
   bundle without report-to endpoint makes PrimaryBlockBuilder::build fail and the `unwrap` panic *)
Theorem C12_fragment_unimplemented : forall m clock gen B src crc pos reason,
  has_fragmentation (b_primary B) = true ->
  new_status_report_bundle m clock gen B src crc pos reason = Panic PUnimplemented.
Proof. exact status_report_bundle_fragment. Qed.
Theorem C12_no_report_to_panics : forall m clock gen B src crc pos reason,
  has_fragmentation (b_primary B) = false -> MS1970_TO2K < clock -> gen_ok gen = true ->
  p_rpt (b_primary B) = eid_none ->
  new_status_report_bundle m clock gen B src crc pos reason = Panic PUnwrap.
Proof. exact status_report_bundle_no_report_to. Qed.

(* ---- non-vacuity: a concrete record of each kind round-trips; a concrete B gives a valid report bundle ---- *)
Definition ex_dtn (l : list N) : eid := Dtn 1 (map n2b l).
Definition ex_report_time : admin_record :=
  BundleStatusReport (mk_sr [mk_item false 0 false; mk_item true 0 false; mk_item false 0 false; mk_item true 712345678901 true]
                            4294967295 (ex_dtn [47;47;110;49;47;97]) 18446744073709551615 7 0 0).
Definition ex_report_frag : admin_record :=
  BundleStatusReport (mk_sr [mk_item true 0 true; mk_item true 18446744073709551615 true] 12 (Ipn 2 18446744073709551615 0)
                            0 0 0 4096).
Definition ex_report_empty : admin_record := BundleStatusReport (mk_sr [] 0 eid_none 1 2 3 4).
Definition ex_unknown : admin_record := UnknownRecord 4294967295 (map n2b [130; 1; 255]).
Definition ex_unknown0 : admin_record := UnknownRecord 0 [].
Example C12_ex_nf : forallb normal_form [ex_report_time; ex_report_frag; ex_report_empty; ex_unknown; ex_unknown0] = true.
Proof. vm_compute. reflexivity. Qed.
Example C12_ex_roundtrip :
  map (fun r => admin_from_bytes (enc_admin_record r)) [ex_report_time; ex_report_frag; ex_report_empty; ex_unknown; ex_unknown0]
  = map Ok [ex_report_time; ex_report_frag; ex_report_empty; ex_unknown; ex_unknown0].
Proof. vm_compute. reflexivity. Qed.
Example C12_ex_layout : enc_admin_record ex_report_frag = ser (record_item ex_report_frag). Proof. vm_compute. reflexivity. Qed.
(* outside the normal form the round trip fails: a time on a non-asserted item, a fragment offset without
   length, an unknown record with the status-report type code *)
Example C12_ex_not_nf_item :
  admin_from_bytes (enc_admin_record (BundleStatusReport (mk_sr [mk_item false 5 true] 0 eid_none 0 0 0 0)))
  = Ok (BundleStatusReport (mk_sr [mk_item false 0 false] 0 eid_none 0 0 0 0)).
Proof. vm_compute. reflexivity. Qed.
Example C12_ex_not_nf_frag :
  admin_from_bytes (enc_admin_record (BundleStatusReport (mk_sr [] 0 eid_none 0 0 9 0)))
  = Ok (BundleStatusReport (mk_sr [] 0 eid_none 0 0 0 0)).
Proof. vm_compute. reflexivity. Qed.
Example C12_ex_not_nf_unknown1 : is_err (admin_from_bytes (enc_admin_record (UnknownRecord 1 []))) = true.
Proof. vm_compute. reflexivity. Qed.

(* subject bundle: dtn source, ipn report-to, requests status time (0x40) and deletion reports (0x40000) *)
Definition ex_subject (flags : N) : bundle :=
  mkbundle (mkprimary 7 flags (Crc16 (map n2b [1; 2])) (ex_dtn [47;47;100;47]) (ex_dtn [47;47;115;47;120]) (Ipn 2 23 42)
                      700000000000 3 3600000 0 0)
           [mkcanonical 7 2 0 CrcNo (BundleAge 5); mkcanonical 1 1 0 CrcNo (Data (map n2b [104; 105]))].
Definition ex_clock : N := 946684800000 + 800000000000.
Example C12_ex_hyps :
  decodable_shape (ex_subject 262208) = true /\ wf_eid (p_src (b_primary (ex_subject 262208))) = true /\
  has_fragmentation (b_primary (ex_subject 262208)) = false /\
  eid_eqb (p_rpt (b_primary (ex_subject 262208))) eid_none = false /\ eid_valid (Ipn 2 1 0) = true /\
  MS1970_TO2K <? ex_clock = true /\ gen_ok (Some (800000000000, 4)) = true.
Proof. vm_compute. repeat split; reflexivity. Qed.
Example C12_ex_report_bundle :
  match new_status_report_bundle Checked ex_clock (Some (800000000000, 4)) (ex_subject 262208) (Ipn 2 1 0) 2 3 1 with
  | Ok R =>
      (validate R, p_dst (b_primary R), p_time (b_primary R), p_seq (b_primary R), p_crc (b_primary R),
       match payload R with Some d => admin_from_bytes d | None => Err ECustom end)
      = ([], Ipn 2 23 42, 800000000000, 5, Crc32Empty,
         Ok (BundleStatusReport (mk_sr [mk_item false 0 false; mk_item false 0 false; mk_item false 0 false;
                                        mk_item true 800000000000 true]
                                       1 (ex_dtn [47;47;115;47;120]) 700000000000 3 0 0)))
  | _ => False
  end.
Proof. vm_compute. reflexivity. Qed.
Example C12_ex_report_bundle_no_time :
  match new_status_report_bundle Wrapping ex_clock None (ex_subject 0) eid_none 0 0 11 with
  | Ok R => match payload R with
            | Some d => admin_from_bytes d
                        = Ok (BundleStatusReport (mk_sr [mk_item true 0 false; mk_item false 0 false; mk_item false 0 false;
                                                         mk_item false 0 false] 11 (ex_dtn [47;47;115;47;120]) 700000000000 3 0 0))
                        /\ p_seq (b_primary R) = 0
            | None => False end
  | _ => False
  end.
Proof. vm_compute. split; reflexivity. Qed.
(* the boundary the clock hypothesis excludes: at exactly the DTN epoch the report bundle gets creation time 0
   and no bundle age block, which validate rejects *)
Example C12_ex_epoch_clock :
  rmap validate (new_status_report_bundle Checked 946684800000 None (ex_subject 0) (Ipn 2 1 0) 0 0 0) = Ok [VAgeMissing].
Proof. vm_compute. reflexivity. Qed.
Example C12_ex_before_epoch :
  new_status_report_bundle Checked 946684799999 None (ex_subject 0) (Ipn 2 1 0) 0 0 0 = Panic POverflow.
Proof. vm_compute. reflexivity. Qed.

Check C12_record_roundtrip : forall r, normal_form r = true -> admin_from_bytes (enc_admin_record r) = Ok r.
Check C12_record_layout : forall r, normal_form r = true -> enc_admin_record r = ser (record_item r).
Check C12_status_report_bundle : forall m clock gen B src crc pos reason,
  decodable_shape B = true -> wf_eid (p_src (b_primary B)) = true ->
  has_fragmentation (b_primary B) = false -> eid_eqb (p_rpt (b_primary B)) eid_none = false ->
  eid_valid src = true -> pos < 4 -> reason < u32_bound -> crc <= 2 ->
  MS1970_TO2K < clock -> clock < two64 -> gen_ok gen = true ->
  exists R sr,
    new_status_report_bundle m clock gen B src crc pos reason = Ok R /\
    validate R = [] /\ is_admin_record R = true /\
    p_dst (b_primary R) = p_rpt (b_primary B) /\ p_src (b_primary R) = src /\
    p_lifetime (b_primary R) = p_lifetime (b_primary B) /\
    creation_now m clock gen = Ok (p_time (b_primary R), p_seq (b_primary R)) /\
    crc_code (p_crc (b_primary R)) = crc /\ Forall (fun c => crc_code (c_crc c) = crc) (b_canonicals R) /\
    (exists data, payload R = Some data /\ admin_from_bytes data = Ok (BundleStatusReport sr)) /\
    sr_src sr = p_src (b_primary B) /\ sr_time sr = p_time (b_primary B) /\ sr_seq sr = p_seq (b_primary B) /\
    sr_frag_len sr = 0 /\
    asserted_exactly sr pos /\
    time_iff_requested sr pos (requests_status_time (b_primary B)) (clock - MS1970_TO2K) /\
    sr_reason sr = reason.
Print Assumptions C12_record_roundtrip.
Print Assumptions C12_record_layout.
Print Assumptions C12_status_report_bundle.
Print Assumptions C12_status_report_bundle_total.
Print Assumptions C12_fragment_unimplemented.
Print Assumptions C12_no_report_to_panics.
