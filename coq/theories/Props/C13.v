(* C13 — bundle IDs identify bundles.
   bundle_id = Bundle::id(): <source text>-<time>-<seq>[-<fragment offset>], source text = Display of the source EID.
   ident b = (source endpoint ID, creation time, sequence number, is-fragment, offset if fragment else 0).
   Domain id_wf: the source is an EID as the textual API or the CBOR decoder produce it (scheme code 1 for dtn / none,
   2 for ipn, u64 numbers, ANY dtn name) and time, sequence number and offset are u64.

   The full "if and only if" of the property text (C13_full) is FALSE by design of the ID format; it is kept as a
   Definition, refuted by machine-checked witnesses (C13_refuted), and what holds is proved:
     C13_depends_only_on_ident     the ID is a function of ident                             (all bundles)
     C13_injective_outside_known   equal IDs -> equal ident, outside two decidable classes   (id_wf)
       id-dash-source (known_dash): one bundle is a fragment, the other is not, and the non-fragment's source text is
           the fragment's source text followed by "-" and decimal digits  (dtn://n/a-5 (1,2) vs fragment dtn://n/a (5,1) off 2);
           C13_fragment_collides: EVERY fragment with a dtn source has such a colliding partner, so the class cannot be
           narrowed further without looking at the numbers;
       id-none-name (known_none_name): equal source text, different source value; C13_known_none_name_narrow: inside id_wf
           this is exactly the decoded dtn name "none" (CBOR [1,"none"]) against the none endpoint (CBOR [1,0]).
   Equality of sources is equality of EID VALUES (not of texts): eid_print is injective on the domain except for that
   one pair (C13_known_none_name_narrow).
   C13_refbundle: for a non-fragment bundle the status report built by new_status_report prints the bundle's ID
   (for a fragment new_status_report is `unimplemented!()`; DESIGN.md section 11).   Statements only. *)
From BP7 Require Import Base.Prelude Base.Decimal Base.Str Gen.Consts Model.Types Model.EidText Model.BundleId Model.AdminRecord Proofs.BundleIdProofs Proofs.ReportRefProofs.
From BP7 Require Import Model.Api Proofs.ApiProofs Proofs.BuilderRoute.

Definition C13_full : Prop := forall b1 b2, id_wf b1 = true -> id_wf b2 = true ->
  (bundle_id b1 = bundle_id b2 <-> ident b1 = ident b2).

Theorem C13_depends_only_on_ident : forall b1 b2, ident b1 = ident b2 -> bundle_id b1 = bundle_id b2.
Proof. exact id_of_ident. Qed.

Theorem C13_injective_outside_known : forall b1 b2, id_wf b1 = true -> id_wf b2 = true -> known_c13 b1 b2 = false ->
  bundle_id b1 = bundle_id b2 -> ident b1 = ident b2.
Proof. exact id_injective. Qed.

(* the property's "if and only if", for every pair outside the known classes *)
Theorem C13_iff_outside_known : forall b1 b2, id_wf b1 = true -> id_wf b2 = true -> known_c13 b1 b2 = false ->
  (bundle_id b1 = bundle_id b2 <-> ident b1 = ident b2).
Proof. intros b1 b2 W1 W2 K. split; [apply id_injective; assumption|apply id_of_ident]. Qed.

(* witnesses *)
Definition B_ (l : list N) : list byte := map n2b l.
Definition ex_bundle (src : eid) (flags t q off : N) : bundle :=
  mkbundle (mkprimary 7 flags CrcNo eid_none src eid_none t q 3600000 off (if flags =? 0 then 0 else 100)) [].
Definition w1 := ex_bundle (Dtn 1 (B_ [47;47;110;47;97;45;53])) 0 1 2 0.                     (* dtn://n/a-5 , (1,2) *)
Definition w2 := ex_bundle (Dtn 1 (B_ [47;47;110;47;97])) BUNDLE_IS_FRAGMENT 5 1 2.          (* dtn://n/a , (5,1), fragment offset 2 *)
Definition w3 := ex_bundle (Dtn 1 (B_ [110;111;110;101])) 0 1 2 0.                           (* decoded name "none" *)
Definition w4 := ex_bundle eid_none 0 1 2 0.                                                 (* dtn:none *)

Example C13_witness_same_id : bundle_id w1 = bundle_id w2 /\ bundle_id w1 = B_ [100;116;110;58;47;47;110;47;97;45;53;45;49;45;50].
Proof. vm_compute. split; reflexivity. Qed.                                                  (* "dtn://n/a-5-1-2" *)
Example C13_witness_classes : known_dash w1 w2 = true /\ known_none_name w1 w2 = false /\
                              known_none_name w3 w4 = true /\ known_dash w3 w4 = false /\ known_c13 w1 w4 = false.
Proof. vm_compute. repeat split; reflexivity. Qed.

Theorem C13_refuted : ~ C13_full.
Proof.
  intros F. destruct (F w1 w2) as [F1 _]; [vm_compute; reflexivity|vm_compute; reflexivity|].
  assert (H : ident w1 = ident w2) by (apply F1; vm_compute; reflexivity).
  vm_compute in H. discriminate H.
Qed.
(* the second class refutes it as well *)
Theorem C13_refuted_none_name : ~ C13_full.
Proof.
  intros F. destruct (F w3 w4) as [F1 _]; [vm_compute; reflexivity|vm_compute; reflexivity|].
  assert (H : ident w3 = ident w4) by (apply F1; vm_compute; reflexivity).
  vm_compute in H. discriminate H.
Qed.

(* every fragment with a dtn source collides with a non-fragment whose source is "<source>-<time>" *)
Theorem C13_fragment_collides : forall b c ssp, p_src (b_primary b) = Dtn c ssp -> is_frag b = true ->
  bundle_id (partner b ssp) = bundle_id b /\ ident (partner b ssp) <> ident b /\ known_dash b (partner b ssp) = true.
Proof. exact fragment_collides. Qed.

(* equal printed sources with different values: only Dtn 1 "none" against DtnNone 1 0 *)
Theorem C13_known_none_name_narrow : forall e1 e2, id_src_wf e1 = true -> id_src_wf e2 = true ->
  eid_print e1 = eid_print e2 -> e1 <> e2 ->
  (e1 = Dtn ENDPOINT_URI_SCHEME_DTN s_none /\ e2 = eid_none) \/ (e2 = Dtn ENDPOINT_URI_SCHEME_DTN s_none /\ e1 = eid_none).
Proof. exact print_inj. Qed.

(* the ID does not depend on HOW the primary block was made: PrimaryBlockBuilder with every field handed to its setter builds the very
   primary block the public fields describe (version 7, destination not dtn:none - the builder refuses that one), hence the same ID *)
Theorem C13_builder_route : forall p cs, p_version p = DTN_VERSION -> p_dst p <> eid_none ->
  exists p', primary_builder_build (builder_of p) = Some p' /\ bundle_id (mkbundle p' cs) = bundle_id (mkbundle p cs).
Proof. exact builder_route_id. Qed.

(* the reference printed by a status report about a (non-fragment) bundle is the bundle's ID *)
Theorem C13_refbundle : forall b, has_fragmentation (b_primary b) = false ->
  exists sr, id_new_status_report b = Ok sr /\ id_refbundle sr = bundle_id b.
Proof. exact refbundle_is_id. Qed.

(* ... and for a report that comes off the wire (encoded by the reporting node, decoded by the receiver), about a fragment or not:
   what the decoded report prints as refbundle() is Bundle::id() of the bundle it is about *)
Theorem C13_received_report_refers : forall sr b, nf_report sr = true -> reports_about sr b ->
  exists sr', admin_from_bytes (enc_admin_record (BundleStatusReport sr)) = Ok (BundleStatusReport sr')
              /\ id_refbundle (sr_view sr') = bundle_id b.
Proof. exact received_report_refers. Qed.

(* hypotheses are satisfiable: a report about the FRAGMENT w2 (offset 2 of 100) and one about the whole bundle w1 *)
Definition ex_report_w2 := mk_sr [mk_item true 0 false; mk_item false 0 false] 0 (Dtn 1 (B_ [47;47;110;47;97])) 5 1 2 100.
Definition ex_report_w1 := mk_sr [mk_item true 0 false] 9 (Dtn 1 (B_ [47;47;110;47;97;45;53])) 1 2 0 0.
Example C13_ex_received_report :
  nf_report ex_report_w2 = true /\ reports_about ex_report_w2 w2 /\ nf_report ex_report_w1 = true /\ reports_about ex_report_w1 w1
  /\ id_refbundle (sr_view ex_report_w2) = B_ [100;116;110;58;47;47;110;47;97;45;53;45;49;45;50].     (* "dtn://n/a-5-1-2" *)
Proof. unfold reports_about. vm_compute. repeat split; reflexivity. Qed.

(* non-vacuity *)
Example C13_ex_wf : id_wf w1 = true /\ id_wf w2 = true /\ id_wf w3 = true /\ id_wf w4 = true.
Proof. vm_compute. repeat split; reflexivity. Qed.
Example C13_ex_ref : rmap id_refbundle (id_new_status_report w1) = Ok (bundle_id w1).
Proof. vm_compute. reflexivity. Qed.
Example C13_ex_to_string :  (* "dtn://n/a-5-1-2_dtn:none" *)
  bundle_to_string w1 = B_ [100;116;110;58;47;47;110;47;97;45;53;45;49;45;50;95;100;116;110;58;110;111;110;101].
Proof. vm_compute. reflexivity. Qed.

Check C13_refuted : ~ C13_full.
Check C13_depends_only_on_ident : forall b1 b2, ident b1 = ident b2 -> bundle_id b1 = bundle_id b2.
Check C13_injective_outside_known : forall b1 b2, id_wf b1 = true -> id_wf b2 = true -> known_c13 b1 b2 = false ->
  bundle_id b1 = bundle_id b2 -> ident b1 = ident b2.
Check C13_refbundle : forall b, has_fragmentation (b_primary b) = false ->
  exists sr, id_new_status_report b = Ok sr /\ id_refbundle sr = bundle_id b.

Print Assumptions C13_depends_only_on_ident.
Print Assumptions C13_injective_outside_known.
Print Assumptions C13_iff_outside_known.
Print Assumptions C13_refuted.
Print Assumptions C13_refuted_none_name.
Print Assumptions C13_fragment_collides.
Print Assumptions C13_known_none_name_narrow.
Print Assumptions C13_refbundle.
Print Assumptions C13_builder_route.
Print Assumptions C13_received_report_refers.
