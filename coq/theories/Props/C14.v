(* C14 — through the C interface, a buffer that is not a valid bundle yields a null pointer instead of an abort; a
   valid one yields a bundle whose metadata, payload, validity and re-encoding agree with the Rust API; every
   buffer, bundle and metadata object handed out can be released exactly once with its own free function, after
   which no allocation made by the library remains.
   Statements only (proofs: Proofs/FfiProofs.v).  Model/Ffi.v: the heap of objects that crossed the interface
   (handles in creation order), one `fcall` per exported function of src/ffi.rs, `fstep` = new heap, what the C
   caller sees, and the change in the number of live library allocations; from_cbor / validate / payload /
   to_cbor are the functions of Model/Decode.v, Validate.v, Encode.v (the Rust API of C01 / C06 / C07).
   `protocol_ok` is the caller's side of bp7.h, decided from the return values alone (a pointer or NULL): every
   argument is a live object of the documented kind, every object is given back exactly once to the free function
   of its kind, in any order.  A dead or wrong-kind handle is undefined behaviour in C: the model returns
   RProtocolError (C14_use_after_free_flagged: it really does) and the theorem says it never happens.
   PARTIAL (MANIFEST level_note): out-of-bounds reads or writes INSIDE a call are runtime behaviour; what is
   proved here and compared with the implementation under a counting allocator is the ownership protocol, the
   null-on-failure behaviour and the allocation counts. *)
From Coq Require Import ZArith.
(* EidText first: its `validate` (of an EID) is shadowed by Model.Validate.validate (of a bundle) below *)
From BP7 Require Import Model.EidText.
From BP7 Require Import Base.Prelude Gen.Consts Model.Types Model.Encode Model.Decode Model.Wf Model.Validate Model.DtnTime Model.Ffi.
From BP7 Require Import Proofs.FfiProofs.

(* undecodable (no b at all) or invalid (validate reports errors): NULL, heap untouched, nothing allocated *)
Theorem C14_null_on_invalid : forall m s h bs, buffer_data s h = Some (Some bs) ->
  (forall b, from_cbor bs = Ok b -> validate b <> []) ->
  fstep m s (FromCbor h) = (s, RNull, 0%Z).
Proof. exact null_on_invalid. Qed.

(* the empty buffer {NULL, 0} *)
Theorem C14_null_on_empty : forall m s h, buffer_data s h = Some None -> fstep m s (FromCbor h) = (s, RNull, 0%Z).
Proof. exact null_on_empty. Qed.

(* a valid bundle: a fresh handle holding exactly the decoded bundle *)
Theorem C14_valid_gives_bundle : forall m s h bs b,
  buffer_data s h = Some (Some bs) -> from_cbor bs = Ok b -> validate b = [] ->
  fstep m s (FromCbor h) = (fpush s (BundleCell b), RHandle (fresh s), bundle_allocs b)
  /\ fget (fpush s (BundleCell b)) (fresh s) = Some (BundleCell b).
Proof. exact valid_gives_bundle. Qed.

(* bundle_from_cbor has no other outcome: never an abort, and NULL leaves nothing behind *)
Theorem C14_from_cbor_outcomes : forall m s h s' r d, fstep m s (FromCbor h) = (s', r, d) ->
  r = RProtocolError \/ (r = RNull /\ s' = s /\ d = 0%Z)
  \/ (exists bs b, buffer_data s h = Some (Some bs) /\ from_cbor bs = Ok b /\ validate b = [] /\
                   r = RHandle (fresh s) /\ s' = fpush s (BundleCell b) /\ d = bundle_allocs b).
Proof. exact from_cbor_outcomes. Qed.

(* validity, payload, re-encoding and metadata obtained through the interface are those of the Rust API on the
   stored bundle; bundle_to_cbor stores the recomputed CRCs (`&mut`).  An EID text containing U+0000 is not a C
   string: bundle_get_metadata then returns NULL, heap untouched, nothing allocated (repaired; the original code
   aborted the process there: C14_pinned_refuted) *)
Theorem C14_agrees_with_rust_api : forall m s k b, fget s k = Some (BundleCell b) ->
  fstep m s (IsValid k) = (s, RBool (is_valid b), 0%Z)
  /\ fstep m s (Payload k) = (fpush s (BufferCell (payload b)), RHandle (fresh s), buffer_allocs (payload b))
  /\ fstep m s (ToCbor k) = (fpush (fset s k (BundleCell (snd (to_cbor b)))) (BufferCell (Some (fst (to_cbor b)))),
                            RHandle (fresh s), 2%Z)
  /\ (has_nul (eid_print (p_src (b_primary b))) || has_nul (eid_print (p_dst (b_primary b))) = false ->
      fstep m s (GetMetadata k) =
        (fpush s (MetaCell (eid_print (p_src (b_primary b))) (eid_print (p_dst (b_primary b)))
                           (p_time (b_primary b)) (p_seq (b_primary b)) (p_lifetime (b_primary b))),
         RHandle (fresh s), 3%Z))
  /\ (has_nul (eid_print (p_src (b_primary b))) || has_nul (eid_print (p_dst (b_primary b))) = true ->
      fstep m s (GetMetadata k) = (s, RNull, 0%Z)).
Proof. exact queries_agree. Qed.

(* end to end on the C01 domain: every well-formed bundle that validates, encoded, handed to bundle_from_cbor,
   comes back as that bundle (with its CRCs filled in): valid, same payload, re-encoding = the bytes decoded *)
Theorem C14_roundtrip_through_ffi : forall m s h b, wf_bundle b = true -> validate b = [] ->
  buffer_data s h = Some (Some (fst (to_cbor b))) ->
  let b' := snd (to_cbor b) in
  let k := fresh s in
  fstep m s (FromCbor h) = (fpush s (BundleCell b'), RHandle k, bundle_allocs b)
  /\ forall s1, fget s1 k = Some (BundleCell b') ->
       fstep m s1 (IsValid k) = (s1, RBool true, 0%Z)
    /\ fstep m s1 (Payload k) = (fpush s1 (BufferCell (payload b)), RHandle (fresh s1), buffer_allocs (payload b))
    /\ fstep m s1 (ToCbor k) = (fpush s1 (BufferCell (Some (fst (to_cbor b)))), RHandle (fresh s1), 2%Z)
    /\ only_crc_changed b b'.
Proof. exact roundtrip_through_ffi. Qed.

(* every call changes the number of live library allocations by exactly the delta it reports *)
Theorem C14_step_allocations : forall m s c s' r d, fstep m s c = (s', r, d) -> live_allocs s' = (live_allocs s + d)%Z.
Proof. exact fstep_live. Qed.

(* any call sequence, any order the header permits *)
Theorem C14_no_leak_no_double_free : forall m calls, protocol_ok m calls = true ->
  let '(s, tr) := frun m finit calls in
  library_cells s = [] /\ no_protocol_error tr /\ net_allocs tr = 0%Z /\ live_allocs s = 0%Z.
Proof. exact no_leak_no_double_free. Qed.

Theorem C14_net_allocations_zero : forall m calls, protocol_ok m calls = true ->
  net_allocs (snd (frun m finit calls)) = 0%Z.
Proof.
  intros m calls H. pose proof (no_leak_no_double_free m calls H) as N.
  destruct (frun m finit calls) as [s tr]. cbn [snd]. tauto.
Qed.

(* from any heap: what a protocol-respecting stretch of calls acquires and gives back again is balanced *)
Theorem C14_balanced_from : forall m s calls s' tr bk, frun m s calls = (s', tr) -> book_run (book_of s) tr = Some bk ->
  no_protocol_error tr /\ live_allocs s' = (live_allocs s + net_allocs tr)%Z /\ bk = book_of s'.
Proof. exact balanced_from. Qed.

(* the protocol error outcome is real: any use of a handle after its release (in particular a second free) *)
Theorem C14_use_after_free_flagged : forall m s c h p, call_uses c = Some (h, p) ->
  fstep m (fkill s h) c = (fkill s h, RProtocolError, 0%Z).
Proof. exact use_after_free_flagged. Qed.
Theorem C14_book_rejects_exactly_protocol_errors : forall m s c s' r d, fstep m s c = (s', r, d) ->
  (book_step (book_of s) c r = None <-> r = RProtocolError).
Proof. exact book_reject_protocol. Qed.

(* the process can abort ONLY on a caller error: bundle_new_default on bad arguments (invalid UTF-8 / unparsable
   EID / dtn:none destination / payload buffer {NULL,0} / clock before 2000); nothing that comes from the network
   (buffer contents, decoded bundles) can make any exported function abort *)
Theorem C14_aborts_only_on_caller_error : forall m s c s' d, fstep m s c = (s', RAbort, d) -> abort_cause m s c.
Proof. exact aborts_only. Qed.
Theorem C14_no_abort_outside_new_default : forall m s c s' r d, fstep m s c = (s', r, d) ->
  (forall src dst life ph clock, c <> NewDefault src dst life ph clock) -> r <> RAbort.
Proof. exact no_abort_outside_new_default. Qed.
Theorem C14_new_default_returns : forall m s src dst life ph clock, new_default_ok m s src dst ph clock = true ->
  exists b l, fstep m s (NewDefault src dst life ph clock) =
              (fpush (mk_fstate (f_cells s) l) (BundleCell b), RHandle (fresh s), bundle_allocs b)
              /\ payload b = match buffer_data s ph with Some (Some d) => Some d | _ => None end.
Proof. exact new_default_returns. Qed.

(* ---------- examples (hypotheses are satisfiable; the original code is refuted) ---------- *)
Definition ex_bundle : bundle :=
  mkbundle (mkprimary 7 4 Crc16Empty (Dtn 1 (map n2b [47;47;110;50;47;105;110])) (Dtn 1 (map n2b [47;47;110;49;47])) eid_none 1000 3 3600000 0 0)
           [mkcanonical 10 2 0 CrcNo (HopCount 32 0); mkcanonical 1 1 0 Crc32Empty (Data (map n2b [65;66;67]))].
Definition ex_bytes : list byte := fst (to_cbor ex_bundle).
(* examples/ffi/bp7-test.c: helper_rnd_bundle; bundle_from_cbor; bundle_get_metadata; bundle_metadata_free;
   bundle_payload; buffer_free(payload); bundle_free; buffer_free(buf) *)
Definition c_example : list fcall :=
  [HelperRndBundle ex_bytes; FromCbor 0; GetMetadata 1; MetaFree 2; Payload 1; BufferFree 3; BundleFree 1; BufferFree 0].
Definition rets (x : fstate * ftrace) : list fret := map (fun y => snd (fst y)) (snd x).
Definition deltas (x : fstate * ftrace) : list Z := map snd (snd x).

Example C14_ex_domain : wf_bundle ex_bundle = true /\ validate ex_bundle = [] /\ length ex_bytes = 64%nat.
Proof. vm_compute. repeat split; reflexivity. Qed.
Example C14_ex_c_example :
  protocol_ok Checked c_example = true
  /\ rets (frun Checked finit c_example) = [RHandle 0; RHandle 1; RHandle 2; RUnit; RHandle 3; RUnit; RUnit; RUnit]
  /\ deltas (frun Checked finit c_example) = [2; 5; 3; -3; 2; -2; -5; -2]%Z
  /\ library_cells (fst (frun Checked finit c_example)) = [].
Proof. vm_compute. repeat split; reflexivity. Qed.
(* other orders: free the bundle first, the objects derived from it afterwards *)
Example C14_ex_other_order :
  let calls := [MakeBuffer ex_bytes; FromCbor 0; ToCbor 1; GetMetadata 1; Payload 1; BundleFree 1; DropBuffer 0;
                FromCbor 2; BufferFree 4; MetaFree 3; IsValid 5; BufferFree 2; BundleFree 5] in
  protocol_ok Checked calls = true /\ net_allocs (snd (frun Checked finit calls)) = 0%Z
  /\ nth 10%nat (rets (frun Checked finit calls)) RAbort = RBool true.
Proof. vm_compute. repeat split; reflexivity. Qed.
(* not a bundle: NULL, and the protocol goes on *)
Example C14_ex_null :
  rets (frun Checked finit [BufferTest; FromCbor 0; BufferFree 0; MakeBuffer []; FromCbor 1; MakeNullBuffer; FromCbor 2])
  = [RHandle 0; RNull; RUnit; RHandle 1; RNull; RHandle 2; RNull].
Proof. vm_compute. reflexivity. Qed.
(* a double free is not protocol_ok, and the model flags it *)
Example C14_ex_double_free :
  let calls := [BufferTest; BufferFree 0; BufferFree 0] in
  protocol_ok Checked calls = false /\ rets (frun Checked finit calls) = [RHandle 0; RUnit; RProtocolError].
Proof. vm_compute. split; reflexivity. Qed.
(* bundle_new_default: dtn://a -> dtn://a/ ; two calls in the same millisecond get sequence numbers 0 and 1 *)
Example C14_ex_new_default :
  let src := map n2b [100;116;110;58;47;47;97] in let dst := map n2b [105;112;110;58;49;46;50] in
  let calls := [MakeBuffer (map n2b [65]); NewDefault src dst 5000 0 946684801000; NewDefault src dst 5000 0 946684801000;
                GetMetadata 1; GetMetadata 2; MetaFree 3; MetaFree 4; BundleFree 2; BundleFree 1; DropBuffer 0] in
  protocol_ok Checked calls = true
  /\ fget (fst (frun Checked finit (firstn 5 calls))) 4%nat
     = Some (MetaCell (map n2b [100;116;110;58;47;47;97;47]) dst 1000 1 5000).
Proof. vm_compute. split; reflexivity. Qed.

(* a bundle whose source is dtn://a<U+0000>b/ decodes and validates; its text is not a C string:
   bundle_get_metadata returns NULL and allocates nothing, the other queries work, everything frees cleanly *)
Definition nul_bundle : bundle :=
  mkbundle (mkprimary 7 0 CrcNo (Dtn 1 (map n2b [47;47;100;47;120])) (Dtn 1 (map n2b [47;47;97;0;98;47])) eid_none 5 0 1000 0 0)
           [mkcanonical 1 1 0 CrcNo (Data (map n2b [104;105]))].
Definition nul_calls : list fcall :=
  [MakeBuffer (fst (to_cbor nul_bundle)); FromCbor 0; IsValid 1; GetMetadata 1; Payload 1; BufferFree 2; BundleFree 1; DropBuffer 0].
Example C14_ex_metadata_nul_null :
  wf_bundle nul_bundle = true /\ validate nul_bundle = []
  /\ rets (frun Checked finit nul_calls) = [RHandle 0; RHandle 1; RBool true; RNull; RHandle 2; RUnit; RUnit; RUnit]
  /\ deltas (frun Checked finit nul_calls) = [0; 5; 0; 0; 2; -2; -5; 0]%Z
  /\ protocol_ok Checked nul_calls = true.
Proof. vm_compute. repeat split; reflexivity. Qed.

(* the ORIGINAL ffi.rs (variant Pinned = D11 + the metadata unwrap): aborts on an undecodable buffer; the C example's
   own sequence leaks 3 allocations (one per buffer with data, one per metadata struct) although everything was
   freed; bundle_get_metadata aborts on a valid bundle whose EID text contains U+0000 *)
Theorem C14_pinned_refuted :
  rets (frun_v Pinned Checked finit [MakeBuffer []; FromCbor 0]) = [RHandle 0; RAbort]
  /\ rets (frun_v Pinned Checked finit (firstn 4 nul_calls)) = [RHandle 0; RHandle 1; RBool true; RAbort]
  /\ rets (frun_v Pinned Checked finit [BufferTest; FromCbor 0]) = [RHandle 0; RAbort]
  /\ net_allocs (snd (frun_v Pinned Checked finit c_example)) = 3%Z
  /\ library_cells (fst (frun_v Pinned Checked finit c_example)) = []
  /\ net_allocs (snd (frun_v Pinned Checked finit [BufferTest; BufferFree 0])) = 1%Z.
Proof. vm_compute. repeat split; reflexivity. Qed.

Check C14_null_on_invalid : forall m s h bs, buffer_data s h = Some (Some bs) ->
  (forall b, from_cbor bs = Ok b -> validate b <> []) -> fstep m s (FromCbor h) = (s, RNull, 0%Z).
Check C14_no_leak_no_double_free : forall m calls, protocol_ok m calls = true ->
  let '(s, tr) := frun m finit calls in
  library_cells s = [] /\ no_protocol_error tr /\ net_allocs tr = 0%Z /\ live_allocs s = 0%Z.
Check C14_net_allocations_zero : forall m calls, protocol_ok m calls = true -> net_allocs (snd (frun m finit calls)) = 0%Z.
Print Assumptions C14_null_on_invalid.
Print Assumptions C14_null_on_empty.
Print Assumptions C14_valid_gives_bundle.
Print Assumptions C14_from_cbor_outcomes.
Print Assumptions C14_agrees_with_rust_api.
Print Assumptions C14_roundtrip_through_ffi.
Print Assumptions C14_step_allocations.
Print Assumptions C14_no_leak_no_double_free.
Print Assumptions C14_net_allocations_zero.
Print Assumptions C14_balanced_from.
Print Assumptions C14_use_after_free_flagged.
Print Assumptions C14_book_rejects_exactly_protocol_errors.
Print Assumptions C14_aborts_only_on_caller_error.
Print Assumptions C14_no_abort_outside_new_default.
Print Assumptions C14_new_default_returns.
Print Assumptions C14_pinned_refuted.
