(* C15 — JSON codec round trip: serialising any well-formed bundle to the library's JSON form and parsing that
   string back yields an equal bundle, for fragments and non-fragments and all CRC types alike.
   Statements only (proofs: Proofs/JsonProofs.v).
   to_tokens : bundle -> jtok * bundle  models Bundle::to_json(&mut self) up to serde_json's text layer: the serde
   token tree bp7's Serialize impls emit into serde_json's serializer, and the bundle with its freshly stored CRCs
   (to_json calls calculate_crc first; the CRCs are those of the CBOR encoding of each block).
   from_tokens : jtok -> res bundle  models Bundle::try_from(String): bp7's Deserialize visitors on serde_json's
   sequence access, whose size_hint() is None — with the repair of D12 (primary.rs: without a size hint the
   'is fragment' flag decides whether the two fragment fields are read).
   wf_bundle is the C01 domain (Model/Wf.v).
   TRUSTED, not proved: serde_json's text layer, i.e. parse (print t) = t for the token trees to_tokens produces
   (Model/Json.v `print` reproduces the compact writer and is diffed byte for byte against to_json by the K-json
   channel; there is no JSON text parser in the model). *)
From Coq Require Import Strings.String.
From BP7 Require Import Base.Prelude Gen.Consts.
From BP7 Require Import Model.Types Model.Encode Model.Wf Model.Json Proofs.JsonProofs.

Theorem C15_json_roundtrip : forall b, wf_bundle b = true ->
  let '(t, b') := to_tokens b in
  from_tokens t = Ok b' /\ only_crc_changed b b' /\ crcs_filled b' = true.
Proof. exact to_tokens_roundtrip. Qed.

(* parsing inverts serialising for any well-formed bundle whose CRC values are already in place *)
Theorem C15_decode_encode : forall b, wf_bundle b = true -> crcs_filled b = true -> from_tokens (j_bundle b) = Ok b.
Proof. exact from_tokens_j_bundle. Qed.

(* the text to_json returns is the compact print of exactly these tokens *)
Theorem C15_text_is_print : forall b, to_json b = (print (fst (to_tokens b)), snd (to_tokens b)).
Proof. exact to_json_tokens. Qed.

Theorem C15_idempotent : forall b, wf_bundle b = true ->
  let '(t, b') := to_tokens b in to_tokens b' = (t, b').
Proof. exact to_tokens_idempotent. Qed.

(* the pinned tree (D12, `rest = size_hint().unwrap_or(0)`): the JSON of EVERY well-formed fragment fails to parse back *)
Theorem C15_pinned_refuted : forall b, wf_bundle b = true -> has_fragmentation (b_primary b) = true ->
  exists e, from_tokens_pinned (fst (to_tokens b)) = Err e.
Proof. exact from_tokens_pinned_fragment_fails. Qed.

(* ---- non-vacuity and anchors to the text observed from the real library (serde_json 1.0.151) ---- *)
Definition S_ (s : string) : list byte := list_byte_of_string s.
Definition dx : eid := Dtn 1 (S_ "//d/x").
(* a fragment with CRC-32 on the primary block, a hop-count block with CRC-16, a payload without CRC *)
Definition ex_frag : bundle :=
  mkbundle (mkprimary 7 1 Crc32Empty dx eid_none (Ipn 2 5 7) 1000 2 3600000 10 20)
           [mkcanonical 10 2 0 Crc16Empty (HopCount 32 1); mkcanonical 1 1 0 CrcNo (Data (map n2b [1; 2]))].
Example C15_ex_wf : wf_bundle ex_frag = true /\ has_fragmentation (b_primary ex_frag) = true.
Proof. vm_compute. split; reflexivity. Qed.
Example C15_ex_frag_roundtrip : from_tokens (fst (to_tokens ex_frag)) = Ok (snd (to_tokens ex_frag)).
Proof. vm_compute. reflexivity. Qed.
Example C15_ex_frag_pinned_fails : from_tokens_pinned (fst (to_tokens ex_frag)) = Err EType.
Proof. vm_compute. reflexivity. Qed.
(* Bundle::to_json of this bundle, as printed by the library *)
Example C15_ex_frag_text : fst (to_json ex_frag) =
  S_ "[[7,1,2,[1,""//d/x""],[1,0],[2,[5,7]],[1000,2],3600000,10,20,[218,135,101,166]],[10,2,0,1,[130,24,32,1],[148,170]],[1,1,0,0,[1,2]]]".
Proof. vm_compute. reflexivity. Qed.
Definition ex_plain : bundle :=
  mkbundle (mkprimary 7 0 CrcNo dx eid_none (Ipn 2 5 7) 1000 2 3600000 0 0)
           [mkcanonical 1 1 0 CrcNo (Data (map n2b [1; 2]))].
Example C15_ex_plain_text : fst (to_json ex_plain) =
  S_ "[[7,0,0,[1,""//d/x""],[1,0],[2,[5,7]],[1000,2],3600000],[1,1,0,0,[1,2]]]".
Proof. vm_compute. reflexivity. Qed.
(* string escapes: quote, backslash, \n, \u001f escaped; 0x7f and multi-byte UTF-8 verbatim; bundle age, previous
   node (CBOR inside the byte sequence), unknown block and payload with empty data *)
Definition ex_esc : bundle :=
  mkbundle (mkprimary 7 1 CrcNo (Dtn 1 (map n2b [47;47;100;34;92;10;31;127;195;164;47;120])) eid_none (Ipn 2 5 7) 1000 2 3600000 10 20)
           [mkcanonical 7 3 0 CrcNo (BundleAge 300); mkcanonical 6 2 0 CrcNo (PreviousNode (Dtn 1 (S_ "//a")));
            mkcanonical 200 4 0 CrcNo (Unknown []); mkcanonical 1 1 0 CrcNo (Data [])].
Example C15_ex_esc_text : wf_bundle ex_esc = true /\ fst (to_json ex_esc) = map n2b
  [91;91;55;44;49;44;48;44;91;49;44;34;47;47;100;92;34;92;92;92;110;92;117;48;48;49;102;127;195;164;47;120;34;93;44;91;49;44;48;93;44;91;50;44;91;53;44;55;93;93;44;91;49;48;48;48;44;50;93;44;51;54;48;48;48;48;48;44;49;48;44;50;48;93;44;91;55;44;51;44;48;44;48;44;91;50;53;44;49;44;52;52;93;93;44;91;54;44;50;44;48;44;48;44;91;49;51;48;44;49;44;57;57;44;52;55;44;52;55;44;57;55;93;93;44;91;50;48;48;44;52;44;48;44;48;44;91;93;93;44;91;49;44;49;44;48;44;48;44;91;93;93;93].
Proof. vm_compute. split; reflexivity. Qed.
(* dtn:none decodes from [1,0] because the swallowed type error has consumed the 0; an array in that position is
   not consumed and the EID fails with trailing elements (both observed on the library) *)
Example C15_ex_none : j_eid_de (JSeq [JNum 1; JNum 0]) = Ok eid_none /\ j_eid_de (JSeq [JNum 1; JNull]) = Ok eid_none
  /\ j_eid_de (JSeq [JNum 1]) = Ok eid_none /\ j_eid_de (JSeq [JNum 1; JSeq [JNum 2]]) = Err ETrailing
  /\ j_eid_de (JSeq [JNum 1; JNum 0; JNum 5]) = Err ETrailing.
Proof. vm_compute. repeat split; reflexivity. Qed.

Check C15_json_roundtrip : forall b, wf_bundle b = true ->
  let '(t, b') := to_tokens b in from_tokens t = Ok b' /\ only_crc_changed b b' /\ crcs_filled b' = true.
Check C15_pinned_refuted : forall b, wf_bundle b = true -> has_fragmentation (b_primary b) = true ->
  exists e, from_tokens_pinned (fst (to_tokens b)) = Err e.
Print Assumptions C15_json_roundtrip.
Print Assumptions C15_decode_encode.
Print Assumptions C15_text_is_print.
Print Assumptions C15_idempotent.
Print Assumptions C15_pinned_refuted.
