(* C16 — BPSec integrity: IPPT and HMAC follow RFC 9173 for every target, key, scope.  Statements only.
   Model: Model/Security.v = src/security.rs AFTER the repair of defect D13 (.cache/c16/fix_d13.patch: result id 1 instead
   of the target's block number; Unknown-typed block data wrapped in a byte string once, not twice).
   Specification: Spec/Rfc9173.v (RFC 9173 3.7 IPPT, RFC 9172 3.6 ASB, Appendix A.1 vectors checked by the kernel).
   The SHA-2 / HMAC functions (Model/Sha2.v, Model/Hmac.v) are anchored to RFC 4231 and RFC 9173 A.1 by vm_compute and
   tied to the sha2/hmac crates by the K-sec channel; C16_result_shape itself is proved for an abstract keyed hash. *)
From Coq Require Import Strings.String.
From BP7 Require Import Base.Prelude Gen.Consts Cbor.Item Spec.Rfc9171 Spec.Rfc9173.
From BP7 Require Import Model.Types Model.Encode Model.Wf Model.Sha2 Model.Hmac Model.Security Proofs.SecurityProofs.

(* --- IPPT = RFC 9173 3.7 concatenation: every primary without CRC, every target block (any type, any data, no
       well-formedness needed), every security header, all 8 scope-flag combinations --- *)
Theorem C16_ippt : forall flags pb target sh, flags < 8 -> p_crc pb = CrcNo ->
  ippt_create flags (Some pb) (Some sh) target = ippt_spec flags pb target (hdr_of sh).
Proof. exact ippt_create_spec. Qed.

(* beyond bit 2: from_bits_truncate drops the unassigned bits for the three tests (so the optional parts are the RFC's for
   `flags land 7`), but the leading integer is the raw u16 word where the RFC wants the unassigned bits cleared.
   Outside the property's domain ("Bits 3-15: Unassigned. Do NOT set." in the crate's documentation). *)
Theorem C16_ippt_raw_flags : forall flags pb target sh, p_crc pb = CrcNo ->
  ippt_create flags (Some pb) (Some sh) target =
  ser (UInt flags) ++ concat (map ser (ippt_rest_items flags pb target (hdr_of sh))).
Proof. exact ippt_create_general. Qed.

(* --- one (result id 1, HMAC-SHA2 over the IPPT with the key) pair per IPPT entry, in IPPT order; every key (any length),
       the three SHA variants.  `sha2_mac v` is hmac_sha256 / hmac_sha384 / hmac_sha512 of Model/Hmac.v --- *)
Theorem C16_result_shape : forall key v pid ps ib ippts,
  ib_params ib = Some ps -> bp_sha ps = Some (pid, v) ->
  v = HMAC_SHA_256 \/ v = HMAC_SHA_384 \/ v = HMAC_SHA_512 ->
  (forall nm, In nm ippts -> In (fst nm) (ib_targets ib)) ->
  compute_hmac key ippts ib =
    Ok (set_ib_results ib (map (fun nm => [(RESULT_EXPECTED_HMAC, sha2_mac v key (snd nm))]) ippts)).
Proof. exact compute_hmac_sha2. Qed.
(* the same for ANY keyed hash selected by the variant: the glue is independent of SHA-2; IPPTs whose number is not a
   security target are skipped *)
Theorem C16_result_shape_generic : forall mac h key v ib ippts,
  (forall m, mac v key m = Some (h m)) -> sha_variant_of ib = Ok v ->
  compute_hmac_with mac key ippts ib =
    Ok (set_ib_results ib (map (result_of h) (filter (selected ib) ippts))).
Proof. intros mac h key v ib ippts Hm Hv. exact (compute_hmac_shape mac h key v Hm ib ippts Hv). Qed.
(* outside: an unsupported variant or a missing SHA-variant parameter aborts (explicit panic! / unwrap in the code) *)
Theorem C16_unsupported_variant_panics : forall key v pid ps ib num ippt rest,
  ib_params ib = Some ps -> bp_sha ps = Some (pid, v) ->
  v <> HMAC_SHA_256 -> v <> HMAC_SHA_384 -> v <> HMAC_SHA_512 -> In num (ib_targets ib) ->
  compute_hmac key ((num, ippt) :: rest) ib = Panic PUnimplemented.
Proof. exact compute_hmac_unsupported. Qed.

(* --- signing again (key rotation, re-signing after a change, a block built with results or decoded from CBOR): compute_hmac
       first clears `security_results` (security.rs:531), so the outcome is that of signing the fresh block — exactly one result
       set per IPPT entry, under the LAST key; nothing of an earlier signature survives --- *)
Theorem C16_results_ignored : forall key ippts ib r,
  compute_hmac key ippts (set_ib_results ib r) = compute_hmac key ippts ib.
Proof. intros key ippts ib r. apply compute_hmac_ignores_results. Qed.
Theorem C16_resign_replaces : forall k1 k2 ippts1 ippts2 ib ib1,
  compute_hmac k1 ippts1 ib = Ok ib1 ->
  compute_hmac k2 ippts2 ib1 = compute_hmac k2 ippts2 ib.
Proof. intros k1 k2 ippts1 ippts2 ib ib1. apply compute_hmac_resign. Qed.
(* ... and therefore the signed-twice block serializes with the HMACs of the last key only *)
Theorem C16_resign_pipeline : forall k1 ippts1 key v pid ps ib ib1 ippts,
  compute_hmac k1 ippts1 ib = Ok ib1 ->
  ib_params ib = Some ps -> bp_sha ps = Some (pid, v) ->
  v = HMAC_SHA_256 \/ v = HMAC_SHA_384 \/ v = HMAC_SHA_512 ->
  map fst ippts = ib_targets ib -> params_present (ib_ctx_flags ib) = true ->
  exists ib', compute_hmac key ippts ib1 = Ok ib' /\
    ib_results ib' = map (fun nm => [(RESULT_EXPECTED_HMAC, sha2_mac v key (snd nm))]) ippts /\
    asb_to_cbor ib' = Ok (asb_bytes (mkasb (ib_targets ib) (ib_ctx_id ib) (ib_ctx_flags ib) (ib_source ib) (params_items ps)
                                          (map (fun nm => hmac_result_set (sha2_mac v key (snd nm))) ippts))).
Proof.
  intros k1 ippts1 key v pid ps ib ib1 ippts H1 Hp Hs Hv Ht Hf.
  destruct (bib_pipeline key v pid ps ib ippts Hp Hs Hv Ht Hf) as (ib' & Hc & Hr & Ha).
  exists ib'. split; [|split; assumption].
  rewrite <- Hc. apply (compute_hmac_resign hmac_sha2 k1 key ippts1 ippts ib ib1 H1).
Qed.

(* --- the ASB bytes are the concatenation of `ser` of the RFC 9172 3.6 items, for a consistent block (parameters given
       and the "parameters present" flag set).  Not covered, kept as the code has it: with `security_context_parameters =
       None` (impossible through the builder) the code emits CBOR null where the RFC omits the field. --- *)
Theorem C16_asb_layout : forall ib ps rs,
  ib_params ib = Some ps -> params_present (ib_ctx_flags ib) = true ->
  asb_results (length (ib_targets ib)) (ib_results ib) = Ok rs ->
  asb_to_cbor ib = Ok (asb_bytes (asb_of ib ps rs)).
Proof. exact asb_layout. Qed.
(* IPPT list -> results -> ASB, one IPPT per target in target order: no panic, and the ASB carries exactly the RFC 9173 3.4
   result sets [(1, HMAC)] *)
Theorem C16_bib_pipeline : forall key v pid ps ib ippts,
  ib_params ib = Some ps -> bp_sha ps = Some (pid, v) ->
  v = HMAC_SHA_256 \/ v = HMAC_SHA_384 \/ v = HMAC_SHA_512 ->
  map fst ippts = ib_targets ib -> params_present (ib_ctx_flags ib) = true ->
  exists ib', compute_hmac key ippts ib = Ok ib' /\
    ib_results ib' = map (fun nm => [(RESULT_EXPECTED_HMAC, sha2_mac v key (snd nm))]) ippts /\
    asb_to_cbor ib' = Ok (asb_bytes (mkasb (ib_targets ib) (ib_ctx_id ib) (ib_ctx_flags ib) (ib_source ib) (params_items ps)
                                          (map (fun nm => hmac_result_set (sha2_mac v key (snd nm))) ippts))).
Proof. exact bib_pipeline. Qed.
(* the BIB is the opaque canonical block of type 11 of RFC 9172 carrying the ASB, encoded as an RFC 9171 block *)
Theorem C16_bib_block : forall num fl a,
  new_integrity_block num fl (asb_bytes a) = bib_block num fl CrcNo a /\
  enc_canonical (new_integrity_block num fl (asb_bytes a)) = ser (canonical_item (bib_block num fl CrcNo a)).
Proof. intros num fl a. split; [apply new_integrity_block_spec|apply enc_integrity_block]. Qed.

(* --- two inputs with the same scope flags and the same IPPT agree on every protected field --- *)
Theorem C16_ippt_injective : forall flags pb pb' t t' sh sh',
  primaries_ok flags pb pb' ->
  hdr_wf (header_of t) -> hdr_wf (header_of t') -> hdr_wf sh -> hdr_wf sh' ->
  Nlen (data_bytes (c_data t)) < two64 -> Nlen (data_bytes (c_data t')) < two64 ->
  ippt_spec flags pb t sh = ippt_spec flags pb' t' sh' ->
  data_bytes (c_data t) = data_bytes (c_data t') /\
  (scope_primary flags = true -> pb = pb') /\
  (scope_target_header flags = true -> header_of t = header_of t') /\
  (scope_security_header flags = true -> sh = sh').
Proof. exact ippt_spec_injective. Qed.
(* with the target header in scope, well-formed targets agree on type, number, flags and the typed data *)
Theorem C16_ippt_injective_target : forall flags pb pb' t t' sh sh',
  primaries_ok flags pb pb' -> wf_canonical t = true -> wf_canonical t' = true -> hdr_wf sh -> hdr_wf sh' ->
  scope_target_header flags = true ->
  ippt_spec flags pb t sh = ippt_spec flags pb' t' sh' ->
  c_type t = c_type t' /\ c_num t = c_num t' /\ c_flags t = c_flags t' /\ c_data t = c_data t'.
Proof. exact ippt_injective_target. Qed.

Check C16_ippt : forall flags pb target sh, flags < 8 -> p_crc pb = CrcNo ->
  ippt_create flags (Some pb) (Some sh) target = ippt_spec flags pb target (hdr_of sh).
Check C16_result_shape : forall key v pid ps ib ippts,
  ib_params ib = Some ps -> bp_sha ps = Some (pid, v) ->
  v = HMAC_SHA_256 \/ v = HMAC_SHA_384 \/ v = HMAC_SHA_512 ->
  (forall nm, In nm ippts -> In (fst nm) (ib_targets ib)) ->
  compute_hmac key ippts ib =
    Ok (set_ib_results ib (map (fun nm => [(RESULT_EXPECTED_HMAC, sha2_mac v key (snd nm))]) ippts)).
Check C16_resign_replaces : forall k1 k2 ippts1 ippts2 ib ib1,
  compute_hmac k1 ippts1 ib = Ok ib1 ->
  compute_hmac k2 ippts2 ib1 = compute_hmac k2 ippts2 ib.
Check C16_asb_layout : forall ib ps rs,
  ib_params ib = Some ps -> params_present (ib_ctx_flags ib) = true ->
  asb_results (length (ib_targets ib)) (ib_results ib) = Ok rs ->
  asb_to_cbor ib = Ok (asb_bytes (asb_of ib ps rs)).
Check C16_ippt_injective : forall flags pb pb' t t' sh sh',
  primaries_ok flags pb pb' ->
  hdr_wf (header_of t) -> hdr_wf (header_of t') -> hdr_wf sh -> hdr_wf sh' ->
  Nlen (data_bytes (c_data t)) < two64 -> Nlen (data_bytes (c_data t')) < two64 ->
  ippt_spec flags pb t sh = ippt_spec flags pb' t' sh' ->
  data_bytes (c_data t) = data_bytes (c_data t') /\
  (scope_primary flags = true -> pb = pb') /\
  (scope_target_header flags = true -> header_of t = header_of t') /\
  (scope_security_header flags = true -> sh = sh').

(* ---------- anchors and non-vacuity ---------- *)
Module C16Examples.
  Import A1. Import HmacVectors.
  Local Open Scope string_scope.
  Definition a1_sec_header : sec_header := mksh INTEGRITY_BLOCK 2 0.
  Definition a1_params : bib_params := mkparams (Some (1, HMAC_SHA_512)) None (Some (3, 0)).
  Definition a1_ib : integrity_block := mkib [1] BIB_HMAC_SHA2_ID SEC_CONTEXT_PRESENT (Ipn 2 2 1) (Some a1_params) [].

  (* the model reproduces RFC 9173 A.1 end to end: IPPT, signature, ASB, BIB block *)
  Example a1_ippt : ippt_create 0 (Some primary_block) (Some a1_sec_header) payload_block = ippt.
  Proof. vm_compute. reflexivity. Qed.
  Example a1_build : ib_build (Some [1]) SEC_CONTEXT_PRESENT (Ipn 2 2 1) (Some a1_params) = inl a1_ib.
  Proof. reflexivity. Qed.
  Example a1_results : rmap ib_results (compute_hmac key9173 [(1, ippt)] a1_ib) = Ok [[(1, signature)]].
  Proof. vm_compute. reflexivity. Qed.
  Example a1_asb : asb_to_cbor (set_ib_results a1_ib [[(1, signature)]]) = Ok asb_hex.
  Proof. vm_compute. reflexivity. Qed.
  Example a1_bib : enc_canonical (new_integrity_block 2 0 asb_hex) = (hex_bytes "850b0200005856" ++ asb_hex)%list.
  Proof. vm_compute. reflexivity. Qed.

  (* the hypotheses of the theorems are satisfiable (on the A.1 values) *)
  Example hyp_primary : wf_primary primary_block = true /\ p_crc primary_block = CrcNo.
  Proof. split; vm_compute; reflexivity. Qed.
  Example hyp_target : wf_canonical payload_block = true. Proof. vm_compute. reflexivity. Qed.
  Example hyp_consistent : ib_params a1_ib = Some a1_params /\ params_present (ib_ctx_flags a1_ib) = true /\
                           map fst [(1, ippt)] = ib_targets a1_ib /\ bp_sha a1_params = Some (1, HMAC_SHA_512).
  Proof. repeat split. Qed.

  (* all eight scope-flag values on a non-payload target: the full-scope IPPT written out by hand from RFC 9173 3.7 *)
  Definition age_block : canonical := mkcanonical 7 5 1 CrcNo (BundleAge 1000).
  Example full_scope : ippt_create 7 (Some primary_block) (Some a1_sec_header) age_block
    = (hex_bytes "07" ++ hex_bytes "88070000820282010282028202018202820201820018281a000f4240"
       ++ hex_bytes "070501" ++ hex_bytes "0b0200" ++ hex_bytes "431903e8")%list.
  Proof. vm_compute. reflexivity. Qed.
  Example unknown_target : ippt_create 0 None None (mkcanonical 192 3 0 CrcNo (Unknown (hex_bytes "010203")))
    = hex_bytes "0043010203".
  Proof. vm_compute. reflexivity. Qed.

  (* D13 on the pinned tree, kept machine-checked: (a) the pinned code wrapped every non-`Data` variant a second time,
     (b) it pushed the target's block number as result id.  Neither agrees with the specification. *)
  Definition target_contents_pinned (d : cdata) : list byte :=
    match d with Data _ => enc_cdata d | _ => enc_bytes (enc_cdata d) end.
  Example pinned_unknown_refuted :
    target_contents_pinned (Unknown (hex_bytes "010203")) = hex_bytes "4443010203" /\
    target_contents_pinned (Unknown (hex_bytes "010203")) <> ser (BStr (data_bytes (Unknown (hex_bytes "010203")))).
  Proof. split; [vm_compute; reflexivity|vm_compute; discriminate]. Qed.
  Example pinned_result_id_refuted : forall mac : list byte,
    hmac_result_set mac <> [(5, BStr mac)].      (* what the pinned code produced for a target with block number 5 *)
  Proof. intros mac H. inversion H. Qed.

  (* signing twice: first with the all-zero key, then with the RFC key — only the RFC signature remains *)
  Example a1_resign :
    rmap ib_results (bind (compute_hmac (repeat_byte x00 16) [(1, ippt)] a1_ib) (compute_hmac key9173 [(1, ippt)]))
    = Ok [[(1, signature)]].
  Proof. vm_compute. reflexivity. Qed.
  (* the seeded change C16-m1 (results not reset: the loop pushes onto what the block already carries), kept machine-checked:
     a second signature then sits BEHIND the stale one and to_cbor (which reads result i for target i) emits the stale one *)
  Definition compute_hmac_noreset (key : list byte) (ippts : list (N * list byte)) (ib : integrity_block) : res integrity_block :=
    do rs <- hmac_loop hmac_sha2 ib key ippts (ib_results ib); Ok (set_ib_results ib rs).
  Definition stale : list (list sec_result) := [[(1, hex_bytes "00")]].
  Example noreset_refuted :
    rmap (fun ib => (length (ib_results ib), asb_results 1 (ib_results ib)))
         (compute_hmac_noreset key9173 [(1, ippt)] (set_ib_results a1_ib stale)) = Ok (2%nat, Ok [(1, hex_bytes "00")]) /\
    rmap ib_results (compute_hmac key9173 [(1, ippt)] (set_ib_results a1_ib stale)) = Ok [[(1, signature)]].
  Proof. split; vm_compute; reflexivity. Qed.

  (* beyond bit 2: scope flags 8 are serialized raw, the RFC's canonical form clears the unassigned bit *)
  Example flags_beyond_bit2 :
    ippt_create 8 (Some primary_block) (Some a1_sec_header) payload_block = (hex_bytes "08" ++ tl ippt)%list /\
    ippt_spec 8 primary_block payload_block bib_header = ippt.
  Proof. split; vm_compute; reflexivity. Qed.

  (* injectivity is not vacuous and needs the type in scope: without the target header a payload `01` and an
     unknown-typed block `01` share their IPPT (the RFC protects the type only through bit 1) *)
  Example same_ippt_without_header :
    ippt_spec 0 primary_block (mkcanonical 1 1 0 CrcNo (Data (hex_bytes "01"))) bib_header =
    ippt_spec 0 primary_block (mkcanonical 192 9 4 CrcNo (Unknown (hex_bytes "01"))) bib_header.
  Proof. vm_compute. reflexivity. Qed.
End C16Examples.

Print Assumptions C16_ippt.
Print Assumptions C16_ippt_raw_flags.
Print Assumptions C16_result_shape.
Print Assumptions C16_result_shape_generic.
Print Assumptions C16_unsupported_variant_panics.
Print Assumptions C16_results_ignored.
Print Assumptions C16_resign_replaces.
Print Assumptions C16_resign_pipeline.
Print Assumptions C16_asb_layout.
Print Assumptions C16_bib_pipeline.
Print Assumptions C16_bib_block.
Print Assumptions C16_ippt_injective.
Print Assumptions C16_ippt_injective_target.
