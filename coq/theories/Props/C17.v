(* C17 — DTN time conversion and formatting are total and match the epoch definition.
   Statements only; proofs in Proofs/DtnTimeProofs.v.  Model: Model/DtnTime.v (src/dtntime.rs +
   humantime's RFC 3339 formatter); specification: Spec/Calendar.v (days-from-civil, RFC 3339 rendering).
   Constants SECONDS1970_TO2K / MS1970_TO2K come from Gen/Consts.v, i.e. from the Rust source. *)
From Coq Require Import ZArith.
From BP7 Require Import Base.Prelude Base.Decimal Gen.Consts Spec.Calendar Model.DtnTime Proofs.DtnTimeProofs.

(* conversion to Unix seconds: floor(t/1000) + 946 684 800, in both overflow modes, never a panic *)
Theorem C17_unix : forall m t, t < two64 -> unix m t = Ok (t / 1000 + 946684800).
Proof. exact unix_ok. Qed.

(* the human-readable form denotes exactly that instant, for every time up to 9999-12-31T23:59:59.999Z:
   it is the RFC 3339 UTC rendering of calendar fields that form a valid date/time and whose instant
   (milliseconds since the Unix epoch, by days-from-civil) is t + 946 684 800 000 *)
Theorem C17_string_denotes : forall t, t <= 252455615999999 ->
  exists f, string t = Ok (render f) /\ valid_fields f = true
            /\ instant_of f = (Z.of_N t + 946684800000)%Z.
Proof. exact string_denotes. Qed.

(* formatting never panics, for any time and sequence number *)
Theorem C17_format_total : forall t seq, no_panic (string t) /\ no_panic (timestamp_to_string t seq).
Proof. intros t s. split; [apply string_total|apply timestamp_to_string_total]. Qed.

(* the current DTN time is the Unix clock in ms minus the offset (clock not before 2000-01-01) *)
Theorem C17_now : forall m clock, 946684800000 <= clock -> now m clock = Ok (clock - 946684800000).
Proof. exact now_ok. Qed.

(* every calendar day: humantime's date algorithm agrees with days-from-civil (used by C17_string_denotes) *)
Theorem C17_civil_correct : forall days, let '(y, m, d) := civil days in dfc y m d = days /\ valid_date y m d = true.
Proof. exact civil_correct. Qed.

(* anchors / non-vacuity *)
Example C17_ex_epoch : string 0 = Ok (map n2b [50;48;48;48;45;48;49;45;48;49;84;48;48;58;48;48;58;48;48;90]).  (* 2000-01-01T00:00:00Z *)
Proof. vm_compute. reflexivity. Qed.
Example C17_ex_last : string 252455615999999
  = Ok (map n2b [57;57;57;57;45;49;50;45;51;49;84;50;51;58;53;57;58;53;57;46;57;57;57;48;48;48;48;48;48;90]). (* 9999-12-31T23:59:59.999000000Z *)
Proof. vm_compute. reflexivity. Qed.
Example C17_ex_leap : dfc 2000 2 29 = 11016%Z /\ dfc 1970 1 1 = 0%Z /\ dfc 9999 12 31 = 2932896%Z /\ dfc 2000 1 1 = 10957%Z.
Proof. vm_compute. repeat split; reflexivity. Qed.
Example C17_ex_unix_max : unix Checked 18446744073709551615 = Ok 18446745020394351 /\ unix Wrapping 18446744073709551615 = Ok 18446745020394351.
Proof. vm_compute. split; reflexivity. Qed.

Check C17_unix : forall m t, t < two64 -> unix m t = Ok (t / 1000 + 946684800).
Check C17_string_denotes : forall t, t <= 252455615999999 ->
  exists f, string t = Ok (render f) /\ valid_fields f = true /\ instant_of f = (Z.of_N t + 946684800000)%Z.
Print Assumptions C17_unix.
Print Assumptions C17_string_denotes.
Print Assumptions C17_format_total.
Print Assumptions C17_now.
Print Assumptions C17_civil_correct.
