(* C18 — Hex helpers are mutually inverse and reject malformed text without panic.
   Statements only; proofs live in Proofs/HexProofs.v.  Strings are UTF-8 byte lists;
   unhexify returns Ok (Some bytes) | Ok None (= Err(ParseIntError)) | Panic. *)
From BP7 Require Import Base.Prelude Model.Hex Proofs.HexProofs Proofs.TieBase Proofs.TieHex.

Theorem C18_unhex_hex : forall bs : list byte, unhexify (hexify bs) = Ok (Some bs).
Proof. exact unhex_hex. Qed.

Theorem C18_hex_unhex : forall s : list byte, even_length s -> all_hex_digits s ->
  exists bs, unhexify s = Ok (Some bs) /\ hexify bs = lower s.
Proof. exact hex_unhex. Qed.

(* every other string (odd length, non-hex, non-ASCII, sign characters): an error value,
   never a panic and never a byte string *)
Theorem C18_rejects : forall s : list byte, ~ (even_length s /\ all_hex_digits s) -> unhexify s = Ok None.
Proof. exact unhex_rejects. Qed.

Theorem C18_total : forall s : list byte, no_panic (unhexify s).
Proof. exact unhex_total. Qed.

(* the exhaustive tie (Gen/Tbl_<NAME>.v is rewritten from the compiled crate on every run): on EVERY single byte the library's hexify,
   and on EVERY string of two ASCII characters the library's unhexify, answer what the model answers - all 256 + 16384 rows checked
   by the kernel.  (hexify works byte by byte and unhexify pair by pair in the model: hexify_app / the pair loop of Model/Hex.v) *)
Theorem C18_tie_hexify : forall b, b < 256 -> code_hexify b = hexify [n2b b].
Proof. exact tie_hexify. Qed.
Theorem C18_tie_unhexify : forall a b, a < 128 -> b < 128 -> code_unhex a b = unhex_answer a b.
Proof. exact tie_unhex. Qed.

(* non-vacuity: the premises are met by concrete non-trivial strings, and the classes named in the
   property are really outside the accepted set *)
Example C18_ex_accept : even_length (map n2b [65;98;48;70]) /\ all_hex_digits (map n2b [65;98;48;70])
  /\ unhexify (map n2b [65;98;48;70]) = Ok (Some (map n2b [171; 15])).
Proof. vm_compute. repeat split; reflexivity. Qed.
Example C18_ex_sign : unhexify (map n2b [43; 102]) = Ok None.             (* "+f" *)
Proof. vm_compute. reflexivity. Qed.
Example C18_ex_odd : unhexify (map n2b [97; 98; 99]) = Ok None.           (* "abc" *)
Proof. vm_compute. reflexivity. Qed.
Example C18_ex_multibyte : unhexify (map n2b [48; 195; 169]) = Ok None.   (* "0é" *)
Proof. vm_compute. reflexivity. Qed.

Check C18_unhex_hex : forall bs : list byte, unhexify (hexify bs) = Ok (Some bs).
Check C18_rejects : forall s : list byte, ~ (even_length s /\ all_hex_digits s) -> unhexify s = Ok None.
Print Assumptions C18_unhex_hex.
Print Assumptions C18_hex_unhex.
Print Assumptions C18_rejects.
Print Assumptions C18_total.
Print Assumptions C18_tie_hexify.
Print Assumptions C18_tie_unhexify.
