(* C19 — structurally malformed bundles are rejected by the decoder, never accepted.
   Statements only (definitions: Spec/Faults.v; proofs: Proofs/FaultProofs.v).

   `fault` (Spec/Faults.v) enumerates the property's fault classes as data, each with its position:
     DropItem / ExtraItem            BDrop i, BExtra x (primary, canonical);  PDrop i, PExtra x (creation timestamp, ipn
                                     pair, hop-count pair)
     EidExtraItem / EidDropScheme    EExtra x, EDropScheme
     CrcWrongLength                  ICrcLen b           (any byte string whose length differs from the CRC's)
     CrcPresentButType0 / CrcAbsentButType12             BCrcPresent b, BCrcAbsent
     WrongKind                       IKind x / PKind i x / ESchemeKind x with `wrong_uint x` (negative, float16/32/64, null,
                                     text, bytes, array, map — any such item, not one representative) at every unsigned field
     ArrayReplaced                   IKind x / ESspKind x / FBlockKind i x with `wrong_arr x` (integer, negative, text, bytes, map)
                                     at every EID, timestamp, ipn ssp and block
     BytesReplacedByInt              IKind x with `is_int x` at block data and CRC value
     UnknownScheme / IpnNodeZero     EScheme k (k not 1, 2), EIpnZero
     BadExtData                      IExt: XRepl x (other shape), XTrail bytes (trailing bytes), XPair / XEid (faults inside)
     NoBreak / TrailingByte          FNoBreak, FTrailing bytes
   `apply_fault f b` edits the RFC 9171 item tree of `b` (CRC values: the specification's own, Rfc9171.with_crc) and
   serializes it with the generic writer; it is None where the fault is not applicable.  The decoder's documented
   leniencies are not constructors (no fault at a dtn scheme-specific part, items added / removed one at a time, ...).

   The theorem is proved for ALL classes (no `closed_class` restriction was needed). *)
From BP7 Require Import Base.Prelude Gen.Consts Cbor.Item Cbor.SerdeDe Spec.Rfc9171 Spec.Faults.
From BP7 Require Import Model.Types Model.Decode Model.Wf Proofs.SpecProofs Proofs.FaultProofs.

Theorem C19_faults_rejected : forall (b : bundle) (f : fault) (bytes : list byte),
  wf_bundle b = true -> apply_fault f b = Some bytes -> exists e, from_cbor bytes = Err e.
Proof. exact faults_rejected. Qed.

(* the tree the injector edits is the conformant encoding, and without a fault it is accepted:
   the rejections above are caused by the fault *)
Theorem C19_fault_tree_is_rfc : forall b, wf_bundle b = true -> ArrIndef (blocks_of b) = rfc_item b.
Proof. exact blocks_of_rfc. Qed.
Theorem C19_baseline_accepted : forall b, wf_bundle b = true -> exists b', from_cbor (rfc_bytes b) = Ok b'.
Proof. intros b H. destruct (accepts_conformant b H) as (b' & E & _). exists b'. exact E. Qed.

(* ---------- every class is applicable somewhere in a concrete bundle, and rejected by the model ---------- *)
Definition ex_b : bundle :=
  mkbundle (mkprimary 7 1 Crc16Empty (Dtn 1 (map n2b [47; 47; 100; 47; 120])) (Ipn 2 5 7) (DtnNone 1 0) 1000 3 86400000 10 100)
    [mkcanonical 6 4 0 CrcNo (PreviousNode (Ipn 2 9 1)); mkcanonical 10 3 0 Crc32Empty (HopCount 32 1);
     mkcanonical 7 2 0 CrcNo (BundleAge 300); mkcanonical 1 1 0 CrcNo (Data [n2b 65])].
Definition ex_faults : list fault :=
  [ FPrimary (BDrop 7); FCanonical 0 (BDrop 1); FPrimary (BAt 6 (IPair (PDrop 0))); FPrimary (BAt 4 (IEid (EIpn (PDrop 1))));
    FPrimary (BExtra (UInt 0)); FCanonical 3 (BExtra (BStr [])); FPrimary (BAt 6 (IPair (PExtra (UInt 0))));
    FPrimary (BAt 4 (IEid (EIpn (PExtra Null))));
    FPrimary (BAt 3 (IEid (EExtra (UInt 0)))); FPrimary (BAt 5 (IEid (EExtra (UInt 0)))); FPrimary (BAt 5 (IEid EDropScheme));
    FPrimary (BAt 10 (ICrcLen (zeros 4))); FCanonical 1 (BAt 5 (ICrcLen (zeros 2))); FCanonical 1 (BAt 5 (ICrcLen []));
    FCanonical 0 (BCrcPresent (zeros 2)); FPrimary BCrcAbsent; FCanonical 1 BCrcAbsent;
    FPrimary (BAt 0 (IKind (NInt 0))); FPrimary (BAt 1 (IKind (F16 15360))); FPrimary (BAt 2 (IKind (F32 0)));
    FPrimary (BAt 7 (IKind (F64 0))); FPrimary (BAt 8 (IKind Null)); FPrimary (BAt 9 (IKind (TStr [n2b 97])));
    FCanonical 0 (BAt 0 (IKind (Arr []))); FCanonical 1 (BAt 3 (IKind (Map []))); FCanonical 2 (BAt 1 (IKind (BStr [])));
    FPrimary (BAt 3 (IEid (ESchemeKind (NInt 0)))); FPrimary (BAt 6 (IPair (PKind 1 Null)));
    FPrimary (BAt 4 (IEid (EIpn (PKind 0 (TStr [])))));
    FPrimary (BAt 3 (IKind (UInt 0))); FPrimary (BAt 6 (IKind (TStr []))); FPrimary (BAt 4 (IEid (ESspKind (UInt 1))));
    FBlockKind 0 (UInt 0); FBlockKind 2 (Map []); FBlockKind 4 (TStr []);
    FCanonical 3 (BAt 4 (IKind (UInt 0))); FPrimary (BAt 10 (IKind (NInt 5)));
    FPrimary (BAt 3 (IEid (EScheme 3))); FPrimary (BAt 4 (IEid (EScheme 0))); FPrimary (BAt 4 (IEid EIpnZero));
    FCanonical 0 (BAt 4 (IExt (XRepl (UInt 0)))); FCanonical 0 (BAt 4 (IExt (XEid EIpnZero))); FCanonical 0 (BAt 4 (IExt (XTrail [n2b 0])));
    FCanonical 1 (BAt 4 (IExt (XPair (PDrop 0)))); FCanonical 1 (BAt 4 (IExt (XRepl (TStr []))));
    FCanonical 2 (BAt 4 (IExt (XRepl Null))); FCanonical 2 (BAt 4 (IExt (XTrail [n2b 0])));
    FNoBreak; FTrailing [n2b 0]; FTrailing [n2b 255] ].
Definition ex_rejected (f : fault) : bool :=
  match apply_fault f ex_b with Some bs => is_err (from_cbor bs) | None => false end.

Example C19_classes_inhabited :
  wf_bundle ex_b = true /\ is_ok (from_cbor (rfc_bytes ex_b)) = true /\ forallb ex_rejected ex_faults = true
  /\ map (fun f => class_of f ex_b) ex_faults =
     [ CDropItem; CDropItem; CDropItem; CDropItem; CExtraItem; CExtraItem; CExtraItem; CExtraItem;
       CEidExtraItem; CEidExtraItem; CEidDropScheme; CCrcWrongLength; CCrcWrongLength; CCrcWrongLength;
       CCrcPresentButType0; CCrcAbsentButType12; CCrcAbsentButType12;
       CWrongKind; CWrongKind; CWrongKind; CWrongKind; CWrongKind; CWrongKind; CWrongKind; CWrongKind; CWrongKind;
       CWrongKind; CWrongKind; CWrongKind;
       CArrayReplaced; CArrayReplaced; CArrayReplaced; CArrayReplaced; CArrayReplaced; CArrayReplaced;
       CBytesReplacedByInt; CBytesReplacedByInt; CUnknownScheme; CUnknownScheme; CIpnNodeZero;
       CBadExtData; CBadExtData; CBadExtData; CBadExtData; CBadExtData; CBadExtData; CBadExtData;
       CNoBreak; CTrailingByte; CTrailingByte ].
Proof. vm_compute. repeat split; reflexivity. Qed.

(* the exclusions are needed: what the fault classes leave out really is accepted by the decoder model
   (two extra unsigned items turn a non-fragment primary block into a "fragment by count"; a dtn EID
   without scheme-specific part reads as dtn:none) *)
Definition ex_p0 : primary := mkprimary 7 0 CrcNo (DtnNone 1 0) (DtnNone 1 0) (DtnNone 1 0) 0 0 0 0 0.
Definition ex_payload : item := Arr [UInt 1; UInt 1; UInt 0; UInt 0; BStr [n2b 65]].
Example C19_ex_two_extra_items_accepted :
  is_ok (from_cbor (ser (ArrIndef [Arr (map slot_item (prim_slots ex_p0) ++ [UInt 5; UInt 9]); ex_payload]))) = true
  /\ ex_rejected (FPrimary (BExtra (UInt 5))) = true.
Proof. vm_compute. split; reflexivity. Qed.
Example C19_ex_dtn_without_ssp_accepted :
  is_ok (from_cbor (ser (ArrIndef [Arr (replace_nth 3 (Arr [UInt 1]) (map slot_item (prim_slots ex_p0))); ex_payload]))) = true.
Proof. vm_compute. reflexivity. Qed.

Check C19_faults_rejected : forall (b : bundle) (f : fault) (bytes : list byte),
  wf_bundle b = true -> apply_fault f b = Some bytes -> exists e, from_cbor bytes = Err e.

Print Assumptions C19_faults_rejected.
Print Assumptions C19_fault_tree_is_rfc.
Print Assumptions C19_baseline_accepted.
Print Assumptions C19_classes_inhabited.
