(* C20 — the command-line tool agrees with the library.
   Statements only (proofs: Proofs/CliProofs.v).  Model: Model/Cli.v, `run : cli_input -> cli_output`, the
   transcription of src/main.rs (argument dispatch, manifest_to_primary, generate_bundle, decode, dtntime, d2u) on top
   of the library models (Encode/Decode/Validate/Hex/DtnTime/EidText) and a complete model of humantime's
   parse_duration.  The binary itself is tied to `run` by the K-cli channel (Run/RunCli.v, harness/src/chan_cli.rs).

   manifest_ok text f  : the manifest is valid UTF-8, the tool's loop accepts every line of it and ends with the fields f
                         (destination, source, report-to, lifetime in ms, flag word); the endpoint IDs are valid
                         (wf_eid), the destination is not dtn:none, the lifetime fits the wire format (u64 ms).
                         C20_manifest_canonical shows that the canonical five-line manifests are in this set.
   valid_flags w       : the flag word passes BundleControlFlags validation.
   encode_post o ...   : exit status 0 and standard output that the library decodes (after unhexify of the text minus the
                         final newline in -x mode) to a bundle that validates and has exactly the manifest's five fields,
                         creation time = clock - MS1970_TO2K, sequence number 0 and the given payload.
   Not covered here (see Model/Cli.v): non-UTF-8 manifests, the Debug dump of `decode` without -p, `rnd`, `benchmark`. *)
From Coq Require Strings.String.
Import Strings.String.StringSyntax.
From BP7 Require Import Base.Prelude Base.Decimal Base.Utf8 Gen.Consts.
From BP7 Require Import Model.Types Model.Encode Model.Decode Model.Wf Model.Validate Model.Hex Model.Cli.
From BP7 Require Model.DtnTime Model.EidText.
From BP7 Require Import Proofs.CliProofs.

(* encode <manifest> <payloadfile> [-x]: every accepted manifest, every payload, both output modes *)
Theorem C20_encode : forall a0 mpath ppath text pl sin fs clock hex f,
  utf8_valid a0 = true -> utf8_valid mpath = true -> utf8_valid ppath = true -> is_ ppath "-" = false ->
  lookup mpath fs = Some text -> lookup ppath fs = Some pl ->
  manifest_ok text f -> valid_flags (f_flags f) -> MS1970_TO2K < clock < two64 -> Nlen pl < two64 ->
  encode_post (run (mkin (encode_argv a0 mpath ppath hex) sin fs clock)) hex f clock pl.
Proof. exact encode_file. Qed.

(* encode <manifest> - [-x]: the payload is read from standard input *)
Theorem C20_encode_stdin : forall a0 mpath text pl fs clock hex f,
  utf8_valid a0 = true -> utf8_valid mpath = true -> lookup mpath fs = Some text ->
  manifest_ok text f -> valid_flags (f_flags f) -> MS1970_TO2K < clock < two64 -> Nlen pl < two64 ->
  encode_post (run (mkin (encode_argv a0 mpath (B "-") hex) pl fs clock)) hex f clock pl.
Proof. exact encode_stdin. Qed.

(* decode <hex> -p on any encoded bundle of the C01 domain prints exactly the payload bytes (nothing when the bundle
   has no payload block), exit status 0, nothing on stderr *)
Theorem C20_decode_payload : forall a0 b sin fs clock, utf8_valid a0 = true -> wf_bundle b = true ->
  run (mkin [a0; B "decode"; hexify (fst (to_cbor b)); B "-p"] sin fs clock) = exits (payload_bytes b) false 0.
Proof. exact decode_payload_hex. Qed.
(* the raw form on standard input *)
Theorem C20_decode_payload_stdin : forall a0 b fs clock, utf8_valid a0 = true -> wf_bundle b = true ->
  run (mkin [a0; B "decode"; B "-"; B "-p"] (fst (to_cbor b)) fs clock) = exits (payload_bytes b) false 0.
Proof. exact decode_payload_stdin. Qed.

(* dtntime <t>, dtntime, d2u <t> print the library conversions *)
Theorem C20_time_commands : forall a0 t sin fs clock, utf8_valid a0 = true -> t < two64 ->
  (exists s, DtnTime.string t = Ok s /\ run (mkin [a0; B "dtntime"; dec t] sin fs clock) = exits (s ++ [nl]) false 0)
  /\ run (mkin [a0; B "d2u"; dec t] sin fs clock) = exits (dec (t / 1000 + 946684800) ++ [nl]) false 0
  /\ (MS1970_TO2K <= clock -> run (mkin [a0; B "dtntime"] sin fs clock) = exits (dec (clock - MS1970_TO2K) ++ [nl]) false 0).
Proof.
  intros a0 t sin fs clock Ha Ht. split; [apply dtntime_arg; assumption|]. split; [apply d2u_arg; assumption|].
  intros Hc. apply dtntime_now; assumption.
Qed.

(* the canonical manifests (five lines key=value in the order destination, source, report_to, lifetime, flags; values
   without surrounding white space) are accepted with exactly the fields their values denote *)
Theorem C20_manifest_canonical : forall d s r l w ed es er dl,
  clean d = true -> clean s = true -> clean r = true -> clean l = true ->
  EidText.eid_parse d = EidText.EOk ed -> EidText.eid_parse s = EidText.EOk es -> EidText.eid_parse r = EidText.EOk er ->
  EidText.eid_fits ed = true -> EidText.eid_fits es = true -> EidText.eid_fits er = true -> ed <> eid_none ->
  parse_duration l = Ok dl -> dur_millis dl < two64 -> w < two64 ->
  manifest_ok (render_manifest d s r l w) (mkfields ed es er (dur_millis dl) w).
Proof. exact manifest_canonical. Qed.

(* ---------- non-vacuity ---------- *)
(* the README session: manifest with three keys (source first), payload "hallo welt\n" on stdin, -x *)
Definition ex_manifest : list byte :=
  B "source=dtn://node1/bla" ++ [nl] ++ B "destination=dtn://node2/incoming" ++ [nl] ++ B "lifetime=1h" ++ [nl].
Definition ex_fields : manifest_fields :=
  mkfields (Dtn 1 (B "//node2/incoming")) (Dtn 1 (B "//node1/bla")) eid_none 3600000 0.
Example C20_ex_manifest_ok : manifest_ok ex_manifest ex_fields /\ valid_flags (f_flags ex_fields).
Proof.
  split; [|reflexivity]. exists (mkbuilder 0 (Dtn 1 (B "//node2/incoming")) (Dtn 1 (B "//node1/bla")) eid_none (3600, 0)), false.
  split; [vm_compute; reflexivity|]. split; [reflexivity|]. vm_compute. repeat split; try reflexivity. discriminate.
Qed.
Example C20_ex_readme :
  run (mkin [B "bp7"; B "encode"; B "@m"; B "-"; B "-x"] (B "hallo welt" ++ [nl]) [(B "@m", ex_manifest)] 1627483500707)
  = exits (B "9f880700008201702f2f6e6f6465322f696e636f6d696e6782016b2f2f6e6f6465312f626c61820100821b0000009e82c3c4a3001a0036ee8085010100004b68616c6c6f2077656c740aff"
           ++ [nl]) false 0.
Proof. vm_compute. reflexivity. Qed.
(* a non-canonical manifest: padding with ASCII and Unicode white space, comment and blank lines, an unknown key
   (reported on stderr), a multi-byte UTF-8 node name, an ipn source, a composite lifetime, the last flags line wins *)
Definition ex_manifest2 : list byte :=
  B "# comment" ++ [nl] ++ [nl] ++ [x09] ++ B "lifetime = 1h 30m" ++ [xc2; xa0] ++ [nl]
  ++ B "priority=high" ++ [nl] ++ B "flags=4" ++ [nl]
  ++ B " destination =" ++ [xe2; x80; x83] ++ B "dtn://kn" ++ [xc3; xb6] ++ B "ten/in" ++ [nl]
  ++ B "source=ipn:23.42" ++ [nl] ++ B "flags = 131076".
Example C20_ex_manifest2 :
  parse_manifest ex_manifest2
  = Ok (mkbuilder 131076 (Dtn 1 (B "//kn" ++ [xc3; xb6] ++ B "ten/in")) (Ipn 2 23 42) eid_none (5400, 0), true).
Proof. vm_compute. reflexivity. Qed.
(* a canonical manifest through C20_manifest_canonical *)
Example C20_ex_canonical :
  manifest_ok (render_manifest (B "ipn:1.2") (B "dtn://a/b") (B "dtn:none") (B "2weeks 1.5h 250ms") 131076)
              (mkfields (Ipn 2 1 2) (Dtn 1 (B "//a/b")) eid_none 1215000250 131076).
Proof.
  apply (manifest_canonical (B "ipn:1.2") (B "dtn://a/b") (B "dtn:none") (B "2weeks 1.5h 250ms") 131076
                            (Ipn 2 1 2) (Dtn 1 (B "//a/b")) eid_none (1215000, 250000000));
    try (vm_compute; reflexivity). discriminate.
Qed.
(* humantime grammar: every unit, sums with and without blanks, fractions, the errors *)
Example C20_ex_durations :
  map parse_duration [B "1ns"; B "2us"; B "3ms"; B "4s"; B "5sec"; B "6m"; B "7min"; B "8h"; B "9hr"; B "1d"; B "2days"; B "1w";
                      B "1week"; B "1M"; B "1y"; B "1h 30m"; B "1h30m"; B "0"; B "500ms 500ms"; B "0.001s"]
  = map Ok [(0, 1); (0, 2000); (0, 3000000); (4, 0); (5, 0); (360, 0); (420, 0); (28800, 0); (32400, 0); (86400, 0); (172800, 0);
            (604800, 0); (604800, 0); (2630016, 0); (31557600, 0); (5400, 0); (5400, 0); (0, 0); (1, 0); (0, 1000000)]
  /\ map (fun s => is_ok (parse_duration s)) [B ""; B "5"; B "h"; B "1x"; B "1.h"; B "0.5ns"; B "18446744073709551616s"; B "-1h"]
     = [false; false; false; false; false; false; false; false].
Proof. vm_compute. split; reflexivity. Qed.
(* outside the domain the tool aborts: no destination, invalid flag word, clock at the DTN epoch (creation time 0) *)
Example C20_ex_aborts :
  status (run (mkin [B "bp7"; B "encode"; B "@m"; B "-"] [] [(B "@m", B "source=dtn://a/b")] 1627483500707)) = Aborted
  /\ status (run (mkin [B "bp7"; B "encode"; B "@m"; B "-"] [] [(B "@m", B "destination=dtn://a/b" ++ [nl] ++ B "flags=5")] 1627483500707)) = Aborted
  /\ status (run (mkin [B "bp7"; B "encode"; B "@m"; B "-"] [] [(B "@m", B "destination=dtn://a/b")] 946684800000)) = Aborted.
Proof. vm_compute. repeat split; reflexivity. Qed.

Check C20_encode : forall a0 mpath ppath text pl sin fs clock hex f,
  utf8_valid a0 = true -> utf8_valid mpath = true -> utf8_valid ppath = true -> is_ ppath "-" = false ->
  lookup mpath fs = Some text -> lookup ppath fs = Some pl ->
  manifest_ok text f -> valid_flags (f_flags f) -> MS1970_TO2K < clock < two64 -> Nlen pl < two64 ->
  encode_post (run (mkin (encode_argv a0 mpath ppath hex) sin fs clock)) hex f clock pl.
Check C20_decode_payload : forall a0 b sin fs clock, utf8_valid a0 = true -> wf_bundle b = true ->
  run (mkin [a0; B "decode"; hexify (fst (to_cbor b)); B "-p"] sin fs clock) = exits (payload_bytes b) false 0.
Print Assumptions C20_encode.
Print Assumptions C20_encode_stdin.
Print Assumptions C20_decode_payload.
Print Assumptions C20_decode_payload_stdin.
Print Assumptions C20_time_commands.
Print Assumptions C20_manifest_canonical.
