(* Rendering / parsing of model values in the case-line format (DESIGN.md appendix A):
   B P <ver> <flags> <crc> <dst> <src> <rpt> <t> <seq> <life> <foff> <flen> [ C <type> <num> <flags> <crc> <data> ... ]
   <crc>  ::= N | E16 | E32 | V16 x.. | V32 x.. | U <code>
   <eid>  ::= DTN <code> x<utf8> | NONE <code> <addr> | IPN <code> <node> <svc>
   <data> ::= DATA x.. | AGE n | HOP l c | PREV <eid> | UNK x.. | DERR *)
From Coq Require Import Strings.String.
From BP7 Require Import Base.Prelude Model.Types Run.Proto.

Definition show_crc (c : crc_value) : list byte :=
  match c with
  | CrcNo => S_ "N" | Crc16Empty => S_ "E16" | Crc32Empty => S_ "E32"
  | Crc16 b => join [S_ "V16"; show_bytes b] | Crc32 b => join [S_ "V32"; show_bytes b]
  | CrcUnknown k => join [S_ "U"; show_N k]
  end.
Definition show_eid (e : eid) : list byte :=
  match e with
  | Dtn c s => join [S_ "DTN"; show_N c; show_bytes s]
  | DtnNone c a => join [S_ "NONE"; show_N c; show_N a]
  | Ipn c n s => join [S_ "IPN"; show_N c; show_N n; show_N s]
  end.
Definition show_data (d : cdata) : list byte :=
  match d with
  | Data b => join [S_ "DATA"; show_bytes b]
  | BundleAge a => join [S_ "AGE"; show_N a]
  | HopCount l c => join [S_ "HOP"; show_N l; show_N c]
  | PreviousNode e => join [S_ "PREV"; show_eid e]
  | Unknown b => join [S_ "UNK"; show_bytes b]
  | DecodingError => S_ "DERR"
  end.
Definition show_primary (p : primary) : list byte :=
  join [S_ "P"; show_N (p_version p); show_N (p_flags p); show_crc (p_crc p); show_eid (p_dst p); show_eid (p_src p);
        show_eid (p_rpt p); show_N (p_time p); show_N (p_seq p); show_N (p_lifetime p); show_N (p_frag_off p);
        show_N (p_total_len p)].
Definition show_canonical (c : canonical) : list byte :=
  join [S_ "C"; show_N (c_type c); show_N (c_num c); show_N (c_flags c); show_crc (c_crc c); show_data (c_data c)].
Definition show_bundle (b : bundle) : list byte :=
  join ([S_ "B"; show_primary (b_primary b); S_ "["] ++ map show_canonical (b_canonicals b) ++ [S_ "]"]).

(* ---- parsing: token stream -> value * rest ---- *)
Definition P (A : Type) := list tok -> option (A * list tok).
Definition pN : P N := fun ts => match ts with t :: r => match get_N t with Some n => Some (n, r) | None => None end | [] => None end.
Definition pBytes : P (list byte) := fun ts =>
  match ts with t :: r => match get_bytes t with Some b => Some (b, r) | None => None end | [] => None end.
Definition pTag (s : string) : P unit := fun ts =>
  match ts with t :: r => if tok_is t s then Some (tt, r) else None | [] => None end.
Definition pbind {A B} (p : P A) (f : A -> P B) : P B := fun ts =>
  match p ts with Some (a, r) => f a r | None => None end.
Definition pret {A} (a : A) : P A := fun ts => Some (a, ts).
Notation "'let*' x := p 'in' k" := (pbind p (fun x => k)) (at level 200, x pattern, p at level 100, k at level 200).

Definition parse_crc : P crc_value := fun ts =>
  match ts with
  | t :: r =>
    if tok_is t "N" then Some (CrcNo, r) else if tok_is t "E16" then Some (Crc16Empty, r)
    else if tok_is t "E32" then Some (Crc32Empty, r)
    else if tok_is t "V16" then (let* b := pBytes in pret (Crc16 b)) r
    else if tok_is t "V32" then (let* b := pBytes in pret (Crc32 b)) r
    else if tok_is t "U" then (let* k := pN in pret (CrcUnknown k)) r
    else None
  | [] => None
  end.
Definition parse_eid : P eid := fun ts =>
  match ts with
  | t :: r =>
    if tok_is t "DTN" then (let* c := pN in let* s := pBytes in pret (Dtn c s)) r
    else if tok_is t "NONE" then (let* c := pN in let* a := pN in pret (DtnNone c a)) r
    else if tok_is t "IPN" then (let* c := pN in let* n := pN in let* s := pN in pret (Ipn c n s)) r
    else None
  | [] => None
  end.
Definition parse_data : P cdata := fun ts =>
  match ts with
  | t :: r =>
    if tok_is t "DATA" then (let* b := pBytes in pret (Data b)) r
    else if tok_is t "AGE" then (let* a := pN in pret (BundleAge a)) r
    else if tok_is t "HOP" then (let* l := pN in let* c := pN in pret (HopCount l c)) r
    else if tok_is t "PREV" then (let* e := parse_eid in pret (PreviousNode e)) r
    else if tok_is t "UNK" then (let* b := pBytes in pret (Unknown b)) r
    else if tok_is t "DERR" then Some (DecodingError, r)
    else None
  | [] => None
  end.
Definition parse_primary : P primary :=
  let* _ := pTag "P" in let* v := pN in let* f := pN in let* c := parse_crc in
  let* d := parse_eid in let* s := parse_eid in let* r := parse_eid in
  let* t := pN in let* q := pN in let* l := pN in let* o := pN in let* n := pN in
  pret (mkprimary v f c d s r t q l o n).
Definition parse_canonical : P canonical :=
  let* _ := pTag "C" in let* t := pN in let* n := pN in let* f := pN in let* c := parse_crc in
  let* d := parse_data in pret (mkcanonical t n f c d).
Fixpoint parse_canonicals (fuel : nat) : P (list canonical) := fun ts =>
  match fuel with
  | O => None
  | S f =>
    match ts with
    | t :: r => if tok_is t "]" then Some ([], r)
                else match parse_canonical ts with
                     | Some (c, r') => match parse_canonicals f r' with Some (l, r'') => Some (c :: l, r'') | None => None end
                     | None => None
                     end
    | [] => None
    end
  end.
Definition parse_bundle : P bundle := fun ts =>
  (let* _ := pTag "B" in let* p := parse_primary in let* _ := pTag "[" in
   let* cs := parse_canonicals (S (length ts)) in pret (mkbundle p cs)) ts.
