(* run_line: one case line in, one result line out.  Evaluated by the extracted OCaml driver
   (volume) and inside coqc by vm_compute (cross-check of extraction and driver). *)
From Coq Require Import Strings.String.
From BP7 Require Import Base.Prelude Base.Decimal Model.Hex Model.DtnTime Cbor.Item Spec.CrcSpec Spec.Rfc9171 Model.Types Model.Encode Model.Decode Run.Proto Run.BundleIO Run.RunClock Run.RunOps Run.RunApi Run.RunEid Run.RunSec Run.RunJson Run.RunCorrupt Run.RunAdmin Run.RunFfi Run.RunFault Run.RunId Run.RunCli.

Definition show_res {A} (show : A -> list byte) (r : res A) : list byte :=
  match r with
  | Ok a => join [S_ "OK"; show a]
  | Err _ => S_ "ERR"
  | Panic _ => S_ "PANIC"
  end.

Definition run_hex (args : list tok) : list byte :=
  match args with
  | [t] => match get_bytes t with Some bs => join [S_ "S"; show_bytes (hexify bs)] | None => bad_case end
  | _ => bad_case
  end.
Definition run_unhex (args : list tok) : list byte :=
  match args with
  | [t] => match get_bytes t with
           | Some s => match unhexify s with
                       | Ok (Some bs) => join [S_ "OK"; show_bytes bs]
                       | Ok None => S_ "ERR"
                       | Err _ => S_ "ERR"
                       | Panic _ => S_ "PANIC"
                       end
           | None => bad_case end
  | _ => bad_case
  end.

(* ---- K-time ---- *)
Definition run_unix (m : ovf_mode) (args : list tok) : list byte :=
  match args with
  | [t] => match get_N t with Some n => show_res show_N (unix m n) | None => bad_case end
  | _ => bad_case
  end.
Definition run_tstr (args : list tok) : list byte :=
  match args with
  | [t] => match get_N t with Some n => show_res show_bytes (string n) | None => bad_case end
  | _ => bad_case
  end.
Definition run_tsfmt (args : list tok) : list byte :=
  match args with
  | [t; q] => match get_N t, get_N q with
              | Some n, Some k => show_res show_bytes (timestamp_to_string n k)
              | _, _ => bad_case end
  | _ => bad_case
  end.
Definition run_now (m : ovf_mode) (args : list tok) : list byte :=
  match args with
  | [t] => match get_N t with Some n => show_res show_N (now m n) | None => bad_case end
  | _ => bad_case
  end.
(* TICK <r1> <r2> ..: dtn_time_now() under a ticking clock (every clock read takes the next reading): the model reads the clock once *)
Definition run_tick (m : ovf_mode) (args : list tok) : list byte :=
  match args with
  | t :: _ => match get_N t with
              | Some n => match now m n with
                          | Ok v => join [S_ "OK"; show_N v; S_ "READS"; show_N 1; S_ "FIRST"; show_N n; S_ "LAST"; show_N n]
                          | Err _ => S_ "ERR" | Panic _ => S_ "PANIC"
                          end
              | None => bad_case end
  | _ => bad_case
  end.

(* ---- K-dec / K-enc / K-crc ---- *)
Definition run_dec (args : list tok) : list byte :=
  match args with
  | [t] => match get_bytes t with Some bs => show_res show_bundle (from_cbor bs) | None => bad_case end
  | _ => bad_case
  end.
Definition run_enc (args : list tok) : list byte :=
  match parse_bundle args with
  | Some (b, []) => let '(bs, b') := to_cbor b in join [S_ "OK"; show_bytes bs; show_bundle b']
  | _ => bad_case
  end.
Definition run_crcv (args : list tok) : list byte :=
  match args with
  | [t] => match get_bytes t with
           | Some bs => show_res show_bool (rmap crc_valid (from_cbor bs))
           | None => bad_case end
  | _ => bad_case
  end.

(* RT <bundle>: encode, decode the bytes, encode the stored-CRC bundle again *)
Definition run_rt (args : list tok) : list byte :=
  match parse_bundle args with
  | Some (b, []) =>
      let '(bs, b') := to_cbor b in
      let '(bs2, _) := to_cbor b' in
      join [S_ "OK"; show_bytes bs; show_bundle b'; S_ "DECODED"; show_res show_bundle (from_cbor bs); S_ "AGAIN"; show_bytes bs2]
  | _ => bad_case
  end.
(* RTV <bundle>: encode; the library's own CRC check on the bundle just encoded (in memory) and on the decoded wire image *)
Definition run_rtv (args : list tok) : list byte :=
  match parse_bundle args with
  | Some (b, []) =>
      let '(bs, b') := to_cbor b in
      join [S_ "OK"; S_ "MEM"; show_bool (crc_valid b'); S_ "WIRE"; show_res show_bool (rmap crc_valid (from_cbor bs))]
  | _ => bad_case
  end.
(* SERDE <bundle>: to_cbor (CRC values calculated), then the bytes of serde's Serialize for Bundle (definite-length outer array) and what
   the decoder makes of them *)
Definition run_serde (args : list tok) : list byte :=
  match parse_bundle args with
  | Some (b, []) =>
      let b' := snd (to_cbor b) in
      let bs := bundle_bytes_serde b' in
      join [S_ "OK"; show_bytes bs; S_ "DECODED"; show_res show_bundle (from_cbor bs)]
  | _ => bad_case
  end.
(* SPEC <bundle>: the RFC 9171 specification encoder (compared with the implementation's to_cbor) *)
Definition run_spec (args : list tok) : list byte :=
  match parse_bundle args with
  | Some (b, []) => join [S_ "OK"; show_bytes (rfc_bytes b)]
  | _ => bad_case
  end.
(* DECRT x<bytes>: decode, CRC check, re-encode *)
Definition run_decrt (args : list tok) : list byte :=
  match args with
  | [t] => match get_bytes t with
           | Some bs => match from_cbor bs with
                        | Ok b => join [S_ "OK"; show_bundle b; S_ "V"; show_bool (crc_valid b); S_ "RE"; show_bytes (fst (to_cbor b))]
                        | Err _ => S_ "ERR" | Panic _ => S_ "PANIC"
                        end
           | None => bad_case end
  | _ => bad_case
  end.
Definition run_crc16 (args : list tok) : list byte :=
  match args with
  | [t] => match get_bytes t with Some bs => join [S_ "OK"; show_N (crc16_x25 bs)] | None => bad_case end
  | _ => bad_case
  end.
Definition run_crc32 (args : list tok) : list byte :=
  match args with
  | [t] => match get_bytes t with Some bs => join [S_ "OK"; show_N (crc32c bs)] | None => bad_case end
  | _ => bad_case
  end.

Definition run_cmd (m : ovf_mode) (cmd : tok) (args : list tok) : list byte :=
  if tok_is cmd "HEX" then run_hex args
  else if tok_is cmd "UNHEX" then run_unhex args
  else if tok_is cmd "UNIX" then run_unix m args
  else if tok_is cmd "TSTR" then run_tstr args
  else if tok_is cmd "TSFMT" then run_tsfmt args
  else if tok_is cmd "TSTRESS" then     (* formatting by 8 threads at once must give what one thread alone gives: the model is a function *)
    match args with
    | [_; _; c] => match get_N c with Some n => join [S_ "OK"; show_N n; S_ "SAME"] | None => bad_case end
    | _ => bad_case
    end
  else if tok_is cmd "NOW" then run_now m args
  else if tok_is cmd "TICK" then run_tick m args
  else if tok_is cmd "REALNOW" then S_ "OK"     (* the real clock: the implementation's answers are bracketed by the harness' own clock readings *)
  else if tok_is cmd "SCHED" then run_sched args
  else if tok_is cmd "SCHEDX" then run_sched args     (* implementation side: the calls go through other entry points that generate fresh timestamps *)
  else if tok_is cmd "SCHEDR" then run_sched args     (* implementation side: calls through the random-bundle helpers (two draws per call); judged by the oracle alone *)
  else if tok_is cmd "SCHEDT" then run_sched args     (* implementation side: the clock ticks inside every call; judged by the oracle alone *)
  else if tok_is cmd "STRESS" then       (* free-running threads on the real clock: threads * calls distinct pairs (C09_unique for any schedule) *)
    match args with
    | [t; c] => match get_N t, get_N c with Some a, Some b => join [S_ "OK"; show_N (a * b); S_ "UNIQUE"] | _, _ => bad_case end
    | _ => bad_case
    end
  else if tok_is cmd "SCHEDP" then run_sched_pinned args
  else if tok_is cmd "VALIDATE" then run_validate args
  else if tok_is cmd "OPS" then run_ops m args
  else if tok_is cmd "OPSA" then run_opsa m args
  else if tok_is cmd "API" then run_api m args
  else if tok_is cmd "DEC" then run_dec args
  else if tok_is cmd "DECA" then S_ "NA"        (* allocation measurement: implementation only *)
  else if tok_is cmd "ENC" then run_enc args
  else if tok_is cmd "CRCV" then run_crcv args
  else if tok_is cmd "RT" then run_rt args
  else if tok_is cmd "RTV" then run_rtv args
  else if tok_is cmd "RTBIG" then S_ "NA"       (* sizes beyond what the model evaluates in reasonable time: implementation + reference encoder only *)
  else if tok_is cmd "SERDE" then run_serde args
  else if tok_is cmd "SPEC" then run_spec args
  else if tok_is cmd "SPECX" then S_ "NA"
  else if tok_is cmd "DECRT" then run_decrt args
  else if tok_is cmd "CRC16" then run_crc16 args
  else if tok_is cmd "CRC32" then run_crc32 args
  else if tok_is cmd "CLI" then run_cli args
  else if tok_is cmd "CLIX" then S_ "NA"
  else if tok_is cmd "ID" then run_id args
  else if tok_is cmd "IDPAIR" then run_idpair args
  else if tok_is cmd "IDREF" then run_idref args
  else if tok_is cmd "SRREF" then run_srref args
  else if tok_is cmd "SRREFE" then run_srrefe args
  else if tok_is cmd "FAULT" then run_fault args
  else if tok_is cmd "FFI" then run_ffi m args
  else if tok_is cmd "FFIP" then run_ffi_pinned m args
  else if tok_is cmd "ADMENC" then run_admenc args
  else if tok_is cmd "ADMSPEC" then run_admspec args
  else if tok_is cmd "ADMDEC" then run_admdec args
  else if tok_is cmd "SRB" then run_srb m args
  else if tok_is cmd "CORR" then run_corr args
  else if tok_is cmd "REENC" then run_reenc args
  else if tok_is cmd "JSON" then run_json args
  else if tok_is cmd "JSONX" then S_ "NA"       (* megabyte-sized bundles: implementation + oracle only *)
  else if tok_is cmd "OPSX" then S_ "NA"
  else if tok_is cmd "JTOK" then run_jtok args
  else if tok_is cmd "JSONDEC" then run_jsondec args
  else if tok_is cmd "IPPT" then run_ippt args
  else if tok_is cmd "BIB" then run_bib args
  else if tok_is cmd "EID" then run_eid args
  else if tok_is cmd "EIDDTN" then run_eiddtn args
  else if tok_is cmd "EIDIPN" then run_eidipn args
  else if tok_is cmd "EIDNEW" then run_eidnew args
  else if tok_is cmd "EIDCBOR" then run_eidcbor args
  else bad_case.

(* PAIR <cmd> <args> || <cmd> <args> [|| ..]: several commands on one line, executed one after the other by the same thread of the
   implementation (state that survives between calls - caches, thread-locals, statics - is then shared); the model is stateless, so its
   answer is simply the answers of the parts *)
Fixpoint split_bars (ts : list tok) (cur : list tok) : list (list tok) :=
  match ts with
  | [] => [rev_append cur []]
  | t :: ts' => if tok_is t "||" then rev_append cur [] :: split_bars ts' [] else split_bars ts' (t :: cur)
  end.
Fixpoint join_bars (outs : list (list byte)) : list byte :=
  match outs with
  | [] => []
  | [o] => o
  | o :: rest => join [o; S_ "||"; join_bars rest]
  end.
(* REPEAT <n> <cmd> ..: the implementation runs the command n times in a row on one thread and reports whether every answer was the
   first answer; the model is a function: its answer, and SAME *)
Definition run_seg (m : ovf_mode) (seg : list tok) : list byte :=
  match seg with
  | c :: a =>
    if tok_is c "REPEAT" then
      match a with
      | _ :: c' :: a' => join [run_cmd m c' a'; S_ "SAME"]
      | _ => bad_case
      end
    else run_cmd m c a
  | [] => bad_case
  end.
Definition run_cmds (m : ovf_mode) (cmd : tok) (args : list tok) : list byte :=
  if tok_is cmd "PAIR" then join_bars (map (run_seg m) (split_bars args [])) else run_seg m (cmd :: args).

(* an optional first token D / R selects the overflow mode of the build the line is compared with *)
Definition run_line (line : list byte) : list byte :=
  match tokens line with
  | [] => bad_case
  | cmd :: args =>
      if tok_is cmd "D" then match args with c :: a => run_cmds Checked c a | [] => bad_case end
      else if tok_is cmd "R" then match args with c :: a => run_cmds Wrapping c a | [] => bad_case end
      else run_cmds Checked cmd args
  end.
