(* run_line: one case line in, one result line out.  Evaluated by the extracted OCaml driver
   (volume) and inside coqc by vm_compute (cross-check of extraction and driver). *)
From Coq Require Import Strings.String.
From BP7 Require Import Base.Prelude Base.Decimal Model.Hex Model.DtnTime Run.Proto.

Definition show_res {A} (show : A -> list byte) (r : res A) : list byte :=
  match r with
  | Ok a => join [S_ "OK"; show a]
  | Err _ => S_ "ERR"
  | Panic _ => S_ "PANIC"
  end.

Definition run_hex (args : list tok) : list byte :=
  match args with
  | [t] => match get_bytes t with Some bs => join [S_ "S"; show_bytes (hexify bs)] | None => bad_case end
  | _ => bad_case
  end.
Definition run_unhex (args : list tok) : list byte :=
  match args with
  | [t] => match get_bytes t with
           | Some s => match unhexify s with
                       | Ok (Some bs) => join [S_ "OK"; show_bytes bs]
                       | Ok None => S_ "ERR"
                       | Err _ => S_ "ERR"
                       | Panic _ => S_ "PANIC"
                       end
           | None => bad_case end
  | _ => bad_case
  end.

(* ---- K-time ---- *)
Definition run_unix (m : ovf_mode) (args : list tok) : list byte :=
  match args with
  | [t] => match get_N t with Some n => show_res show_N (unix m n) | None => bad_case end
  | _ => bad_case
  end.
Definition run_tstr (args : list tok) : list byte :=
  match args with
  | [t] => match get_N t with Some n => show_res show_bytes (string n) | None => bad_case end
  | _ => bad_case
  end.
Definition run_tsfmt (args : list tok) : list byte :=
  match args with
  | [t; q] => match get_N t, get_N q with
              | Some n, Some k => show_res show_bytes (timestamp_to_string n k)
              | _, _ => bad_case end
  | _ => bad_case
  end.
Definition run_now (m : ovf_mode) (args : list tok) : list byte :=
  match args with
  | [t] => match get_N t with Some n => show_res show_N (now m n) | None => bad_case end
  | _ => bad_case
  end.

Definition run_cmd (m : ovf_mode) (cmd : tok) (args : list tok) : list byte :=
  if tok_is cmd "HEX" then run_hex args
  else if tok_is cmd "UNHEX" then run_unhex args
  else if tok_is cmd "UNIX" then run_unix m args
  else if tok_is cmd "TSTR" then run_tstr args
  else if tok_is cmd "TSFMT" then run_tsfmt args
  else if tok_is cmd "NOW" then run_now m args
  else bad_case.

(* an optional first token D / R selects the overflow mode of the build the line is compared with *)
Definition run_line (line : list byte) : list byte :=
  match tokens line with
  | [] => bad_case
  | cmd :: args =>
      if tok_is cmd "D" then match args with c :: a => run_cmd Checked c a | [] => bad_case end
      else if tok_is cmd "R" then match args with c :: a => run_cmd Wrapping c a | [] => bad_case end
      else run_cmd Checked cmd args
  end.
