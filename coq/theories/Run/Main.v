(* run_line: one case line in, one result line out.  Evaluated by the extracted OCaml driver
   (volume) and inside coqc by vm_compute (cross-check of extraction and driver). *)
From Coq Require Import Strings.String.
From BP7 Require Import Base.Prelude Base.Decimal Model.Hex Run.Proto.

Definition run_hex (args : list tok) : list byte :=
  match args with
  | [t] => match get_bytes t with Some bs => join [S_ "S"; show_bytes (hexify bs)] | None => bad_case end
  | _ => bad_case
  end.
Definition run_unhex (args : list tok) : list byte :=
  match args with
  | [t] => match get_bytes t with
           | Some s => match unhexify s with
                       | Ok (Some bs) => join [S_ "OK"; show_bytes bs]
                       | Ok None => S_ "ERR"
                       | Err _ => S_ "ERR"
                       | Panic _ => S_ "PANIC"
                       end
           | None => bad_case end
  | _ => bad_case
  end.

Definition run_line (line : list byte) : list byte :=
  match tokens line with
  | [] => bad_case
  | cmd :: args =>
      if tok_is cmd "HEX" then run_hex args
      else if tok_is cmd "UNHEX" then run_unhex args
      else bad_case
  end.
