(* Case-line protocol shared by the Rust harness and the extracted model (DESIGN.md appendix A):
   space separated tokens; unsigned decimals; byte strings as x<hex>; upper-case tags. *)
From Coq Require Import Strings.String.
From BP7 Require Import Base.Prelude Base.Decimal Model.Hex.

Definition tok := list byte.
Definition S_ (s : string) : list byte := list_byte_of_string s.

Fixpoint split_on (sep : byte) (l : list byte) (cur : list byte) : list (list byte) :=
  match l with
  | [] => [rev_append cur []]
  | b :: t => if byte_eqb b sep then rev_append cur [] :: split_on sep t [] else split_on sep t (b :: cur)
  end.
Definition tokens (line : list byte) : list tok :=
  filter (fun t => match t with [] => false | _ => true end) (split_on (n2b 32) line []).

Definition tok_is (t : tok) (s : string) : bool := bytes_eqb t (S_ s).

Definition get_N (t : tok) : option N := parse_dec_any t.
Fixpoint unhex_pairs (l : list byte) : option (list byte) :=
  match l with
  | [] => Some []
  | [_] => None
  | a :: b :: t => match hexval a, hexval b, unhex_pairs t with
                   | Some x, Some y, Some r => Some (n2b (x * 16 + y) :: r)
                   | _, _, _ => None
                   end
  end.
Definition get_bytes (t : tok) : option (list byte) :=
  match t with
  | c :: rest => if b2n c =? 120 then unhex_pairs rest else None
  | [] => None
  end.

Definition show_N (n : N) : list byte := dec_any n.
Definition show_bytes (l : list byte) : list byte := n2b 120 :: hexify l.
Definition sp : list byte := [n2b 32].
Fixpoint join (l : list (list byte)) : list byte :=
  match l with [] => [] | [x] => x | x :: t => x ++ sp ++ join t end.
Definition show_bool (b : bool) : list byte := if b then S_ "T" else S_ "F".
Definition get_bool (t : tok) : option bool :=
  if tok_is t "T" then Some true else if tok_is t "F" then Some false else None.

Definition bad_case : list byte := S_ "BADCASE".
