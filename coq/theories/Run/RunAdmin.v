(* K-adm channel on the model (C12): administrative record encode / decode / RFC layout, and
   new_status_report_bundle with the hooked clock.

   Case-line grammar (tokens as in Run/Proto.v; <eid> and <bundle> as in Run/BundleIO.v):
     <bool>   ::= T | F
     <item>   ::= I <asserted:bool> <time> <status_requested:bool>
     <record> ::= SR <n> <item>*n <reason> <source:eid> <time> <seq> <frag_offset> <frag_len>
                | UNK <code> <data>
                | MIS <code> <data>
     <data>   ::= x<hex> | r<count>x<hex>      (the hex pattern repeated <count> <= 2^20 times: large contents on a short line)
   Commands:
     ADMENC <record>          -> OK x<bytes> DEC <record> | OK x<bytes> DEC ERR
                                 (serde_cbor::to_vec, then serde_cbor::from_slice of those bytes)
     ADMSPEC <record>         -> OK x<bytes>      model side: ser (record_item r), the RFC 9171 section 6.1 layout;
                                                  implementation side: serde_cbor::to_vec
     ADMDEC x<bytes>          -> OK <record> | ERR
     SRB <clock_ms> <crc_type> <pos> <reason> <src:eid> <bundle B>
                              -> OK <bundle R> V <VALID | INVALID n> REC <record> | ... REC ERR | ... REC NOPAYLOAD
                               | PANIC
        new_status_report_bundle(&B, src, crc_type, pos, reason) with the clock hook at clock_ms and a fresh
        timestamp generator (first call of CreationTimestamp::now() in the process); REC is
        serde_cbor::from_slice::<AdministrativeRecord>(R.payload()). *)
From Coq Require Import Strings.String.
From BP7 Require Import Base.Prelude Base.Decimal Gen.Consts Cbor.Item Model.Hex Model.Types Model.Validate Model.AdminRecord.
From BP7 Require Import Spec.Rfc9171Admin Run.Proto Run.BundleIO.

Definition show_item (i : status_item) : list byte :=
  join [S_ "I"; show_bool (si_asserted i); show_N (si_time i); show_bool (si_requested i)].
Definition show_record (r : admin_record) : list byte :=
  match r with
  | BundleStatusReport sr =>
      join ([S_ "SR"; show_N (Nlen (sr_items sr))] ++ map show_item (sr_items sr) ++
            [show_N (sr_reason sr); show_eid (sr_src sr); show_N (sr_time sr); show_N (sr_seq sr);
             show_N (sr_frag_off sr); show_N (sr_frag_len sr)])
  | UnknownRecord c d => join [S_ "UNK"; show_N c; show_bytes d]
  | Mismatched c d => join [S_ "MIS"; show_N c; show_bytes d]
  end.

Definition pBool : P bool := fun ts =>
  match ts with t :: r => match get_bool t with Some b => Some (b, r) | None => None end | [] => None end.
Definition parse_item : P status_item :=
  let* _ := pTag "I" in let* a := pBool in let* t := pN in let* q := pBool in pret (mk_item a t q).
Fixpoint parse_items (n : nat) : P (list status_item) :=
  match n with
  | O => pret []
  | S k => let* i := parse_item in let* l := parse_items k in pret (i :: l)
  end.
(* <data> ::= x<hex> | r<count>x<hex> *)
Fixpoint split_at_x (l acc : list byte) : option (list byte * list byte) :=
  match l with
  | [] => None
  | b :: t => if b2n b =? 120 then Some (rev acc, l) else split_at_x t (b :: acc)
  end.
Definition get_data (t : tok) : option (list byte) :=
  match t with
  | c :: rest =>
    if b2n c =? 114 then
      match split_at_x rest [] with
      | Some (digits, hex) =>
        match get_N digits, get_bytes hex with
        | Some n, Some pat => if n <=? 1048576 then Some (concat (repeat pat (N.to_nat n))) else None
        | _, _ => None
        end
      | None => None
      end
    else get_bytes t
  | [] => None
  end.
Definition pData : P (list byte) := fun ts =>
  match ts with t :: r => match get_data t with Some b => Some (b, r) | None => None end | [] => None end.

Definition parse_record : P admin_record := fun ts =>
  match ts with
  | t :: r =>
    if tok_is t "SR" then
      (let* n := pN in
       fun ts' => if N.of_nat (length ts') <? n then None else
       (let* its := parse_items (N.to_nat n) in
        let* rsn := pN in let* e := parse_eid in let* tm := pN in let* sq := pN in let* fo := pN in let* fl := pN in
        pret (BundleStatusReport (mk_sr its rsn e tm sq fo fl))) ts') r
    else if tok_is t "UNK" then (let* c := pN in let* d := pData in pret (UnknownRecord c d)) r
    else if tok_is t "MIS" then (let* c := pN in let* d := pData in pret (Mismatched c d)) r
    else None
  | [] => None
  end.

Definition show_dec (r : res admin_record) : list byte :=
  match r with Ok x => show_record x | Err _ => S_ "ERR" | Panic _ => S_ "PANIC" end.

Definition run_admenc (args : list tok) : list byte :=
  match parse_record args with
  | Some (r, []) => let bs := enc_admin_record r in join [S_ "OK"; show_bytes bs; S_ "DEC"; show_dec (admin_from_bytes bs)]
  | _ => bad_case
  end.
Definition run_admspec (args : list tok) : list byte :=
  match parse_record args with
  | Some (r, []) => join [S_ "OK"; show_bytes (record_bytes r)]
  | _ => bad_case
  end.
Definition run_admdec (args : list tok) : list byte :=
  match args with
  | [t] => match get_bytes t with
           | Some bs => match admin_from_bytes bs with
                        | Ok r => join [S_ "OK"; show_record r]
                        | Err _ => S_ "ERR" | Panic _ => S_ "PANIC" end
           | None => bad_case end
  | _ => bad_case
  end.

Definition adm_show_validity (b : bundle) : list byte :=
  match validate b with [] => S_ "VALID" | l => join [S_ "INVALID"; show_N (Nlen l)] end.

Definition run_srb (m : ovf_mode) (args : list tok) : list byte :=
  match (let* clock := pN in let* crc := pN in let* pos := pN in let* rsn := pN in let* e := parse_eid in
         let* b := parse_bundle in pret (clock, crc, pos, rsn, e, b)) args with
  | Some ((clock, crc, pos, rsn, e, b), []) =>
      match new_status_report_bundle m clock None b e crc pos rsn with
      | Ok R =>
          let rec := match payload R with
                     | Some d => show_dec (admin_from_bytes d)
                     | None => S_ "NOPAYLOAD" end in
          join [S_ "OK"; show_bundle R; S_ "V"; adm_show_validity R; S_ "REC"; rec]
      | Err _ => S_ "ERR"
      | Panic _ => S_ "PANIC"
      end
  | _ => bad_case
  end.
