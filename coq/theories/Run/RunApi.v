(* K-api channel on the model: the public constructors, builders and per-block operations of Model/Api.v.
     API BLK HOP <num> <flags> <limit> | AGE <num> <flags> <age> | PREV <num> <flags> <eid> | PAYLOAD <flags> x<data>
             | CANON <type> <num> <flags> <data> | NEW | DEFAULT | BUILD <opt type> <opt num> <opt flags> <opt crc> <opt data>
         -> OK <C ...> <accessors> | ERR
     API BOPS <C ...> ; HOPINC | AGEUPD <n> | PREVUPD <eid> ...     -> OK ; <T|F> <C ...> <accessors> ; ...
     API PB <opt flags> <opt crc> <opt dst> <opt src> <opt rpt> <opt t seq> <opt lifetime> <opt offset> <opt length>
         -> OK <P ...> <VALID|INVALID n> | ERR
     API PNEW                                   -> OK <P ...> <P ...>          (PrimaryBlock::new(), ::default())
     API NEWPRIM x<dst> x<src> <t> <seq> <life> -> OK <P ...> | PANIC
     API BB <opt primary> <opt [ blocks ]> <opt x<payload>>          -> OK <B ...> <validity> | ERR
     API BDEFAULT                               -> OK <B ...> <validity>
     API STD <src> <dst> x<data> <clock>        -> OK <B ...> <validity> | PANIC    (sequence number printed as 0)
     API PREVNODE <bundle>                      -> OK <eid> | OK -
   <opt v> ::= - | + v        (a builder setter that is not called / called with v) *)
From Coq Require Import Strings.String.
From BP7 Require Import Base.Prelude Gen.Consts Model.Types Model.Validate Model.Ops Model.DtnTime Model.EidText Model.Api.
From BP7 Require Import Run.Proto Run.BundleIO Run.RunOps.

Definition pOpt {A} (p : P A) : P (option A) := fun ts =>
  match ts with
  | t :: r => if tok_is t "-" then Some (None, r)
              else if tok_is t "+" then match p r with Some (a, r') => Some (Some a, r') | None => None end
              else None
  | [] => None
  end.
Definition show_opt {A} (show : A -> list byte) (o : option A) : list byte := match o with Some a => show a | None => S_ "-" end.
Definition show_accessors (c : canonical) : list byte :=
  join [S_ "PD"; show_opt show_bytes (payload_data c);
        S_ "HG"; show_opt (fun lk => join [show_N (fst lk); show_N (snd lk)]) (hop_count_get c);
        S_ "HX"; show_bool (hop_count_exceeded c);
        S_ "AG"; show_opt show_N (bundle_age_get c);
        S_ "PG"; show_opt show_eid (previous_node_get c);
        S_ "EV"; show_bool (extension_valid c)].
Definition show_block (c : canonical) : list byte := join [show_canonical c; show_accessors c].

Definition run_blk (args : list tok) : list byte :=
  match args with
  | k :: r =>
    let fin (x : option (canonical * list tok)) :=
        match x with Some (c, []) => join [S_ "OK"; show_block c] | _ => bad_case end in
    if tok_is k "HOP" then fin ((let* n := pN in let* f := pN in let* l := pN in pret (new_hop_count_block n f l)) r)
    else if tok_is k "AGE" then fin ((let* n := pN in let* f := pN in let* a := pN in pret (new_bundle_age_block n f a)) r)
    else if tok_is k "PREV" then fin ((let* n := pN in let* f := pN in let* e := parse_eid in pret (new_previous_node_block n f e)) r)
    else if tok_is k "PAYLOAD" then fin ((let* f := pN in let* d := pBytes in pret (new_payload_block f d)) r)
    else if tok_is k "CANON" then
      fin ((let* t := pN in let* n := pN in let* f := pN in let* d := parse_data in pret (new_canonical_block t n f d)) r)
    else if tok_is k "NEW" then fin (Some (canonical_new, r))
    else if tok_is k "DEFAULT" then fin (Some (canonical_new, r))
    else if tok_is k "BUILD" then
      match (let* t := pOpt pN in let* n := pOpt pN in let* f := pOpt pN in let* c := pOpt parse_crc in let* d := pOpt parse_data in
             pret (canonical_builder_build (dflt t 0) (dflt n 0) (dflt f 0) (dflt c CrcNo) d)) r with
      | Some (Some c, []) => join [S_ "OK"; show_block c]
      | Some (None, []) => S_ "ERR"
      | _ => bad_case
      end
    else bad_case
  | [] => bad_case
  end.

Inductive bop := BHopInc | BAgeUpd (n : N) | BPrevUpd (e : eid).
Definition parse_bop : P bop := fun ts =>
  match ts with
  | t :: r =>
    if tok_is t "HOPINC" then Some (BHopInc, r)
    else if tok_is t "AGEUPD" then (let* n := pN in pret (BAgeUpd n)) r
    else if tok_is t "PREVUPD" then (let* e := parse_eid in pret (BPrevUpd e)) r
    else None
  | [] => None
  end.
Fixpoint run_bops (fuel : nat) (c : canonical) (ts : list tok) : option (list (list byte)) :=
  match fuel with
  | O => None
  | S f =>
    match ts with
    | [] => Some []
    | t :: r =>
      if tok_is t ";" then
        match parse_bop r with
        | Some (o, r') =>
          let '(ret, c') := match o with
                            | BHopInc => hop_count_increase c
                            | BAgeUpd n => bundle_age_update c n
                            | BPrevUpd e => previous_node_update c e
                            end in
          match run_bops f c' r' with
          | Some rest => Some (join [S_ ";"; show_bool ret; show_block c'] :: rest)
          | None => None
          end
        | None => None
        end
      else None
    end
  end.
Definition run_bops_cmd (args : list tok) : list byte :=
  match parse_canonical args with
  | Some (c, r) => match run_bops (S (length r)) c r with Some outs => join (S_ "OK" :: outs) | None => bad_case end
  | None => bad_case
  end.

Definition pPair : P (N * N) := let* a := pN in let* b := pN in pret (a, b).
Definition run_pb (args : list tok) : list byte :=
  match (let* f := pOpt pN in let* c := pOpt parse_crc in let* d := pOpt parse_eid in let* s := pOpt parse_eid in
         let* r := pOpt parse_eid in let* ts := pOpt pPair in let* l := pOpt pN in let* o := pOpt pN in let* n := pOpt pN in
         pret (mkpb f c d s r ts l o n)) args with
  | Some (pb, []) =>
    match primary_builder_build pb with
    | Some p => join [S_ "OK"; show_primary p; match primary_validate p with [] => S_ "VALID" | l => join [S_ "INVALID"; show_N (Nlen l)] end]
    | None => S_ "ERR"
    end
  | _ => bad_case
  end.
Definition run_newprim (args : list tok) : list byte :=
  match (let* d := pBytes in let* s := pBytes in let* t := pN in let* q := pN in let* l := pN in pret (new_primary_block d s t q l)) args with
  | Some (Ok p, []) => join [S_ "OK"; show_primary p]
  | Some (Err _, []) => S_ "ERR"
  | Some (Panic _, []) => S_ "PANIC"
  | _ => bad_case
  end.
Definition pBlocks : P (list canonical) := fun ts => (let* _ := pTag "[" in parse_canonicals (S (length ts))) ts.
Definition run_bb (args : list tok) : list byte :=
  match (let* p := pOpt parse_primary in let* cs := pOpt pBlocks in let* d := pOpt pBytes in pret (bundle_builder_build p cs d)) args with
  | Some (Some b, []) => join [S_ "OK"; show_bundle b; show_validity b]
  | Some (None, []) => S_ "ERR"
  | _ => bad_case
  end.
Definition run_std (m : ovf_mode) (args : list tok) : list byte :=
  match (let* s := parse_eid in let* d := parse_eid in let* data := pBytes in let* clock := pN in pret (s, d, data, clock)) args with
  | Some ((s, d, data, clock), []) =>
    match now m clock with
    | Ok t => match new_std_payload_bundle_api s d t 0 data with
              | Ok b => join [S_ "OK"; show_bundle b; show_validity b]
              | Err _ => S_ "ERR" | Panic _ => S_ "PANIC"
              end
    | Err _ => S_ "ERR" | Panic _ => S_ "PANIC"
    end
  | _ => bad_case
  end.

Definition run_api (m : ovf_mode) (args : list tok) : list byte :=
  match args with
  | k :: r =>
    if tok_is k "BLK" then run_blk r
    else if tok_is k "BOPS" then run_bops_cmd r
    else if tok_is k "PB" then run_pb r
    else if tok_is k "PNEW" then join [S_ "OK"; show_primary primary_new; show_primary primary_new]
    else if tok_is k "NEWPRIM" then run_newprim r
    else if tok_is k "BB" then run_bb r
    else if tok_is k "BDEFAULT" then join [S_ "OK"; show_bundle bundle_default; show_validity bundle_default]
    else if tok_is k "STD" then run_std m r
    else if tok_is k "PREVNODE" then
      match parse_bundle r with
      | Some (b, []) => join [S_ "OK"; show_opt show_eid (bundle_previous_node b)]
      | _ => bad_case
      end
    else bad_case
  | [] => bad_case
  end.
