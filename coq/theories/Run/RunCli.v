(* K-cli: the CLI case line evaluated on Model/Cli.v.

     CLI <clock> <nargs> x<arg0> ... x<arg(nargs-1)> x<stdin> <nfiles> x<name> x<content> ... (nfiles pairs)

   every x<..> byte string may be continued by tokens +<hex> (chunks; the generator cuts at 1024 bytes)
   <clock>   Unix milliseconds (< 2^64) returned by helpers::ts_ms() in the child (BP7_VERIF_CLOCK_MS)
   <argK>    the argument vector, argv[0] included (it is passed as the child's argv[0]); no NUL bytes; nargs >= 1
   <stdin>   the bytes fed to the child's standard input
   <name>    a file name: starts with '@', no NUL byte; an argument (index >= 2) equal to a name denotes that
             file (the harness writes it to a fresh directory and substitutes the real path; the first pair
             with that name wins); an '@' argument without a pair is a file that does not exist
   Result:   OK <exit code | ABORT> <T|F: stderr not empty> x<stdout>
             OK 0 F ?            decode without -p (stdout = Debug dump, its text is not modelled)
             RND 0 T T           `rnd`: exit 0, stdout decodes to a bundle that validates, stderr is its id + "\n"
                                 (the model states this expectation, the harness checks it on the real output)
             UNMODELLED          model only: the case is outside the modelled behaviour
             BADCASE             malformed line *)
From Coq Require Import Strings.String.
From BP7 Require Import Base.Prelude Base.Decimal Gen.Consts Model.Hex Model.Cli Run.Proto.

Definition has_nul (l : list byte) : bool := existsb (fun b => b2n b =? 0) l.
Definition file_name_ok (l : list byte) : bool :=
  match l with c :: _ => (b2n c =? 64) && negb (has_nul l) | [] => false end.

(* a byte string: one token x<hex> followed by any number of continuation tokens +<hex> (long strings are
   written in chunks; Proto.tokens reverses every token with the quadratic List.rev) *)
Fixpoint take_conts (ts : list tok) : list byte * list tok :=
  match ts with
  | (c :: h) :: r =>
      if b2n c =? 43 then
        match unhex_pairs h with
        | Some b => let '(bs, r') := take_conts r in (b ++ bs, r')
        | None => ([], ts)
        end
      else ([], ts)
  | _ => ([], ts)
  end.
Definition take_bytes (ts : list tok) : option (list byte * list tok) :=
  match ts with
  | t :: r => match get_bytes t with
              | Some b => let '(bs, r') := take_conts r in Some (b ++ bs, r')
              | None => None
              end
  | [] => None
  end.
Fixpoint take_args (n : nat) (ts : list tok) : option (list (list byte) * list tok) :=
  match n with
  | O => Some ([], ts)
  | S k => match take_bytes ts with
           | Some (b, r) => match take_args k r with
                            | Some (l, r') => Some (b :: l, r')
                            | None => None
                            end
           | None => None
           end
  end.
Fixpoint take_files (n : nat) (ts : list tok) : option (list (list byte * list byte) * list tok) :=
  match n with
  | O => Some ([], ts)
  | S k => match take_bytes ts with
           | Some (x, r) =>
             match take_bytes r with
             | Some (y, r') => match take_files k r' with
                               | Some (l, r'') => Some ((x, y) :: l, r'')
                               | None => None
                               end
             | None => None
             end
           | None => None
           end
  end.
Definition small_count (t : tok) (bound : nat) : option nat :=
  match get_N t with
  | Some n => if n <=? N.of_nat bound then Some (N.to_nat n) else None
  | None => None
  end.

Definition parse_cli (args : list tok) : option cli_input :=
  match args with
  | tc :: tn :: rest =>
    match get_N tc, small_count tn (length rest) with
    | Some clock, Some nargs =>
      match take_args nargs rest with
      | Some (av, rest1) =>
        match take_bytes rest1 with
        | Some (inp, tf :: rest') =>
        match small_count tf (length rest') with
        | Some nf =>
          match take_files nf rest' with
          | Some (fs, []) =>
            if (clock <? two64) && Nat.ltb 0 nargs && negb (existsb has_nul av)
               && forallb (fun f => file_name_ok (fst f)) fs
            then Some (mkin av inp fs clock) else None
          | _ => None
          end
        | None => None
        end
        | _ => None
        end
      | None => None
      end
    | _, _ => None
    end
  | _ => None
  end.

Definition show_status (s : cli_status) : list byte :=
  match s with Exit c => show_N c | Aborted => S_ "ABORT" | Unmodelled => S_ "UNMODELLED" end.
Definition show_output (i : cli_input) (o : cli_output) : list byte :=
  match status o with
  | Unmodelled =>
      if bytes_eqb (arg 1 (argv i)) (S_ "rnd") && (MS1970_TO2K <? clock_ms i) then S_ "RND 0 T T"
      else S_ "UNMODELLED"
  | s => join [S_ "OK"; show_status s; show_bool (stderr_nonempty o);
               if dump o then S_ "?" else show_bytes (stdout o)]
  end.

Definition run_cli (args : list tok) : list byte :=
  match parse_cli args with
  | Some i => show_output i (run i)
  | None => bad_case
  end.
