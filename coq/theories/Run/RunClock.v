(* K-now: the SCHED case line evaluated on Model/Clock.v.

     SCHED <n> T <r> <r> ... T <r> ...  S <tid> <tid> ...        one grant per entry
     SCHED <n> T <r> <r> ... T <r> ...  O <tid> <tid> ...        one whole call per entry (no overlap)

   <n> threads (1..64), exactly n `T` groups; group i lists the clock readings, in Unix milliseconds
   (946684800000 <= r < 2^64), that thread i's successive calls of now() obtain from the clock hook;
   the model subtracts MS1970_TO2K as dtn_time_now() does.  Then the schedule: thread ids < n.
     S: each entry is one scheduler grant (the thread runs to its next yield point or to the end of
        its call; a grant to a thread that has no call left is a no-op).
     O: each entry lets that thread make one complete call while nobody else runs (no-op when it has no
        call left); for the repaired code this is `non_overlapping`, two grants per entry.
   Calls still unfinished at the end are completed thread after thread in thread-id order (`drain`).
   Result: OK <tid>:<time>:<seq> ... in completion order (time in DTN ms); BADCASE on a malformed line.

   `run_sched` is the repaired code (the model the implementation is compared with);
   `run_sched_pinned` evaluates the same line on the model of the original two-atomics code. *)
From Coq Require Import Strings.String.
From BP7 Require Import Base.Prelude Base.Decimal Gen.Consts Model.Hex Model.Clock Run.Proto.

Definition colon : list byte := [n2b 58].
Definition show_triple (x : tid * N * N) : list byte :=
  let '(t, time, seq) := x in
  show_N (N.of_nat t) ++ colon ++ show_N time ++ colon ++ show_N seq.
Definition show_returned (l : list (tid * N * N)) : list byte := join (S_ "OK" :: map show_triple l).

Definition push_group (cur : option (list N)) (acc : list (list N)) : list (list N) :=
  match cur with None => acc | Some l => rev_append l [] :: acc end.

(* the T groups up to the S / O marker: (config in DTN ms, true for O, remaining tokens) *)
Fixpoint parse_threads (toks : list tok) (cur : option (list N)) (acc : list (list N))
  : option (config * bool * list tok) :=
  match toks with
  | [] => None
  | t :: rest =>
      if tok_is t "T" then parse_threads rest (Some []) (push_group cur acc)
      else if tok_is t "S" then Some (rev_append (push_group cur acc) [], false, rest)
      else if tok_is t "O" then Some (rev_append (push_group cur acc) [], true, rest)
      else match cur, get_N t with
           | Some l, Some r =>
               if (MS1970_TO2K <=? r) && (r <? two64)
               then parse_threads rest (Some (r - MS1970_TO2K :: l)) acc
               else None
           | _, _ => None
           end
  end.

Fixpoint parse_tids (n : N) (toks : list tok) : option (list tid) :=
  match toks with
  | [] => Some []
  | t :: rest =>
      match get_N t, parse_tids n rest with
      | Some k, Some l => if k <? n then Some (N.to_nat k :: l) else None
      | _, _ => None
      end
  end.

(* (config, whole-call mode, schedule entries) *)
Definition parse_sched (args : list tok) : option (config * bool * list tid) :=
  match args with
  | nt :: rest =>
      match get_N nt, parse_threads rest None [] with
      | Some n, Some (cfg, whole, sched_toks) =>
          if (1 <=? n) && (n <=? 64) && (n =? N.of_nat (length cfg)) then
            match parse_tids n sched_toks with
            | Some sched => Some (cfg, whole, sched)
            | None => None
            end
          else None
      | _, _ => None
      end
  | [] => None
  end.

(* run_all with the linear list reversal (Coq's List.rev is quadratic: a burst of 66000 calls took minutes); equal to run_all *)
Definition run_all_fast (cfg : config) (sched : list tid) : list (tid * N * N) :=
  map ret_triple (rev_append (g_out (exec (init_from None cfg) (sched ++ drain cfg))) []).
Lemma run_all_fast_eq cfg sched : run_all_fast cfg sched = run_all cfg sched.
Proof. unfold run_all_fast, run_all, run, run_from, trace_from. rewrite rev_append_rev, app_nil_r. reflexivity. Qed.
Definition run_sched (args : list tok) : list byte :=
  match parse_sched args with
  | Some (cfg, whole, entries) =>
      show_returned (run_all_fast cfg (if whole then non_overlapping entries else entries))
  | None => bad_case
  end.

(* the same line on the original code's model *)
Definition pinned_run_all (cfg : config) (whole : bool) (entries : list tid) : list (tid * N * N) :=
  let s := if whole then pinned_exec_calls (pinned_init cfg) entries
           else pinned_exec (pinned_init cfg) entries in
  map ret_triple (rev (p_out (pinned_exec_calls s (drain_order cfg)))).
Definition run_sched_pinned (args : list tok) : list byte :=
  match parse_sched args with
  | Some (cfg, whole, entries) => show_returned (pinned_run_all cfg whole entries)
  | None => bad_case
  end.
