(* K-corrupt channel on the model (C05).
   CORR x<bytes> [<tag>]  ->  OK V <T|F> SAME <T|F> LENS <n0> <n1> ... CRCS <code0> <code1> ...  |  ERR
   decode the bytes; V = crc_valid; SAME = (0x9f ++ every block's own encoding with its STORED CRC value ++ 0xff
   is the input); LENS = byte length of every block's encoding (primary first); CRCS = the CRC type codes.
   SAME and LENS together are the property's alarm condition `reencodes_to` of Proofs/CorruptionProofs.v. *)
From Coq Require Import Strings.String.
From BP7 Require Import Base.Prelude Base.Decimal Model.Types Model.Encode Model.Decode Model.Ops Run.Proto.

Definition corr_blocks (b : bundle) : list (list byte) :=
  enc_primary (b_primary b) :: map enc_canonical (b_canonicals b).
Definition corr_codes (b : bundle) : list N :=
  crc_code (p_crc (b_primary b)) :: map (fun c => crc_code (c_crc c)) (b_canonicals b).
Definition show_corr (bs : list byte) (b : bundle) : list byte :=
  join ([S_ "OK"; S_ "V"; show_bool (crc_valid b); S_ "SAME"; show_bool (bytes_eqb (bundle_bytes b) bs); S_ "LENS"]
        ++ map (fun x => show_N (Nlen x)) (corr_blocks b) ++ [S_ "CRCS"] ++ map show_N (corr_codes b)).

Definition corr_bytes (t : tok) : list byte :=
  match get_bytes t with
  | Some bs => match from_cbor bs with
               | Ok b => show_corr bs b
               | Err _ => S_ "ERR"
               | Panic _ => S_ "PANIC"
               end
  | None => bad_case
  end.
(* an optional second token (the generator's description of the corruption, used by the oracle and kept in
   replays) is ignored by both sides *)
Definition run_corr (args : list tok) : list byte :=
  match args with
  | [t] => corr_bytes t
  | [t; _] => corr_bytes t
  | _ => bad_case
  end.

(* REENC x<bytes> x<payload>  ->  OK MEM <T|F> WIRE <T|F|ERR>  |  ERR
   a node receives the bundle, changes it (new payload through set_payload, lifetime 12345 ms through the public field) and sends it
   on: what to_cbor emits is an uncorrupted bundle, so it passes the check in memory (MEM) and after decoding (WIRE) - whatever CRC
   values the received blocks carried *)
Definition run_reenc (args : list tok) : list byte :=
  match args with
  | [t; pl] =>
    match get_bytes t, get_bytes pl with
    | Some bs, Some d =>
      match from_cbor bs with
      | Ok b =>
        let '(bytes2, b3) := to_cbor (reenc b d 12345) in
        join [S_ "OK"; S_ "MEM"; show_bool (crc_valid b3); S_ "WIRE";
              match from_cbor bytes2 with Ok b4 => show_bool (crc_valid b4) | Err _ => S_ "ERR" | Panic _ => S_ "PANIC" end]
      | Err _ => S_ "ERR"
      | Panic _ => S_ "PANIC"
      end
    | _, _ => bad_case
    end
  | _ => bad_case
  end.

(* the uncorrupted witness bundle of C05 (Proofs/CorruptionProofs.v, w_b0), one flipped payload bit, and the
   cross-type reinterpretation of C05_full_refuted: accepted, but under the other CRC type *)
Example corr_ex_plain :
  run_corr [S_ "x9f890700018202820101820282010182028201018200001a0036ee8042f02486010100014c0036557d000000000000446d42f3a9ff"]
  = S_ "OK V T SAME T LENS 30 21 CRCS 1 1".
Proof. vm_compute. reflexivity. Qed.
Example corr_ex_bit :
  run_corr [S_ "x9f890700018202820101820282010182028201018200001a0036ee8042f02486010100014c0037557d000000000000446d42f3a9ff"]
  = S_ "OK V F SAME T LENS 30 21 CRCS 1 1".
Proof. vm_compute. reflexivity. Qed.
Example corr_ex_cross_type :
  run_corr [S_ "x9f890700018202820101820282010182028201018200001a0036ee8042f02486010100024a0036557d000000000000446d42f3a9ff"; S_ "W/1/30,21/1,1"]
  = S_ "OK V T SAME T LENS 30 21 CRCS 1 2".
Proof. vm_compute. reflexivity. Qed.
