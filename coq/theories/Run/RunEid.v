(* K-eid channel on the model (C10; the accessors also serve C06 on decoder-image EIDs).
   EID x<utf8>                -> OK <info> | ERR <kind>              EndpointID::try_from(&str)
   EIDDTN x<utf8>             -> OK <info> | ERR <kind>              EndpointID::with_dtn
   EIDIPN <node> <service>    -> OK <info> | ERR <kind>              EndpointID::with_ipn
   EIDNEW <eid> x<utf8>       -> (OK <info> | ERR <kind>) SN <opt>   <eid>.new_endpoint(service); SN = <eid>.node()
   EIDCBOR x<bytes>           -> OK <info> | DECERR                  serde_cbor::from_slice::<EndpointID>
   <info> ::= <eid> P x<to_string> N <opt node> NID <opt node_id> SVC <opt service_name> ISN <is_node_id>
              NS <is_non_singleton> RT <parse(to_string) == self> CB <from_slice(to_vec) == self>
              NR <node of parse(node_id): - | ERR | NONE | x..> NI <is_node_id of parse(node_id): - | T | F>
   <opt>  ::= - | x<utf8>;  <eid> as in Run/BundleIO.v;  a panic anywhere gives the line PANIC. *)
From Coq Require Import Strings.String.
From BP7 Require Import Base.Prelude Base.Decimal Base.Utf8 Base.Str Gen.Consts Cbor.SerdeDe Model.Types Model.Encode Model.Decode.
From BP7 Require Import Model.EidText Run.Proto Run.BundleIO.

Definition show_opt (o : option (list byte)) : list byte :=
  match o with Some b => show_bytes b | None => S_ "-" end.
Definition show_kind (k : eid_err) : list byte :=
  S_ (match k with
      | SchemeMissing => "SchemeMissing" | SchemeMismatch => "SchemeMismatch" | UnknownScheme => "UnknownScheme"
      | InvalidNodeNumber => "InvalidNodeNumber" | WrongNumberOfFieldsInIpn => "WrongNumberOfFieldsInIpn"
      | InvalidService => "InvalidService" | NoneHasNoService => "NoneHasNoService" | NoneNotZero => "NoneNotZero"
      | InvalidUrlFormat => "InvalidUrlFormat" | NoneNotValidHost => "NoneNotValidHost"
      | CouldNotParseNumber => "CouldNotParseNumber" | UnknownEidError => "Unknown"
      end).

(* None = a panic occurred *)
Definition eid_info (e : eid) : option (list byte) :=
  let rt := match eid_parse (eid_print e) with
            | EOk e' => Some (eid_eqb e' e) | EErr _ => Some false | EPanic _ => None end in
  let cb := match from_slice p_eid (enc_eid e) with
            | Ok e' => Some (eid_eqb e' e) | Err _ => Some false | Panic _ => None end in
  let nid := match node_id e with
             | None => Some (S_ "-", S_ "-")
             | Some id =>
               match eid_parse id with
               | EOk e' => Some (match node e' with Some n => show_bytes n | None => S_ "NONE" end, show_bool (is_node_id e'))
               | EErr _ => Some (S_ "ERR", S_ "-")
               | EPanic _ => None
               end
             end in
  match rt, cb, nid with
  | Some rt, Some cb, Some (nr, ni) =>
    Some (join [show_eid e; S_ "P"; show_bytes (eid_print e); S_ "N"; show_opt (node e); S_ "NID"; show_opt (node_id e);
                S_ "SVC"; show_opt (service_name e); S_ "ISN"; show_bool (is_node_id e); S_ "NS"; show_bool (is_non_singleton e);
                S_ "RT"; show_bool rt; S_ "CB"; show_bool cb; S_ "NR"; nr; S_ "NI"; ni])
  | _, _, _ => None
  end.
Definition show_eres (r : eres eid) : option (list byte) :=
  match r with
  | EOk e => match eid_info e with Some i => Some (join [S_ "OK"; i]) | None => None end
  | EErr k => Some (join [S_ "ERR"; show_kind k])
  | EPanic _ => None
  end.
Definition or_panic (o : option (list byte)) : list byte := match o with Some l => l | None => S_ "PANIC" end.

Definition get_str (t : tok) : option (list byte) :=
  match get_bytes t with Some b => if utf8_valid b then Some b else None | None => None end.

Definition run_eid (args : list tok) : list byte :=
  match args with
  | [t] => match get_str t with Some s => or_panic (show_eres (eid_parse s)) | None => bad_case end
  | _ => bad_case
  end.
Definition run_eiddtn (args : list tok) : list byte :=
  match args with
  | [t] => match get_str t with Some s => or_panic (show_eres (with_dtn s)) | None => bad_case end
  | _ => bad_case
  end.
Definition run_eidipn (args : list tok) : list byte :=
  match args with
  | [a; b] => match get_N a, get_N b with
              | Some n, Some s => if (n <? two64) && (s <? two64) then or_panic (show_eres (with_ipn n s)) else bad_case
              | _, _ => bad_case end
  | _ => bad_case
  end.
(* what the harness can build through the public enum: u8 scheme codes, u64 numbers, String names *)
Definition eid_expressible (e : eid) : bool :=
  match e with
  | Dtn c s => (c <? 256) && utf8_valid s
  | DtnNone c a => (c <? 256) && (a <? 256)
  | Ipn c n s => (c <? 256) && (n <? two64) && (s <? two64)
  end.
Definition run_eidnew (args : list tok) : list byte :=
  match parse_eid args with
  | Some (e, [t]) =>
    match get_str t with
    | Some ep =>
      if eid_expressible e then
        match show_eres (new_endpoint e ep) with
        | Some r => join [r; S_ "SN"; show_opt (node e)]
        | None => S_ "PANIC"
        end
      else S_ "SKIP"
    | None => bad_case
    end
  | _ => bad_case
  end.
Definition run_eidcbor (args : list tok) : list byte :=
  match args with
  | [t] => match get_bytes t with
           | Some bs => match from_slice p_eid bs with
                        | Ok e => or_panic (match eid_info e with Some i => Some (join [S_ "OK"; i]) | None => None end)
                        | Err _ => S_ "DECERR"
                        | Panic _ => S_ "PANIC"
                        end
           | None => bad_case end
  | _ => bad_case
  end.
