(* Model-side command of the C19 fault channel:  FAULT <fault> ; <bundle>  ->  OK x<bytes> | NA
   (the exact faulty encoding `apply_fault` of Spec/Faults.v produces; NA when the fault is not applicable).
   The Python injector of tools/props/c19.py is compared with it byte for byte.
   <item>  ::= U n | NI n | BS x.. | TS x.. | NULL | F16 r | F32 r | F64 r | ARR k <item>*k | MAP k (<item> <item>)*k
   <pf>    ::= PDROP i | PEXTRA <item> | PKIND i <item>
   <ef>    ::= EEXTRA <item> | EDROPSCHEME | ESCHEME k | ESCHEMEKIND <item> | ESSPKIND <item> | EIPN <pf> | EIPNZERO
   <xf>    ::= XREPL <item> | XTRAIL x.. | XPAIR <pf> | XEID <ef>
   <itf>   ::= KIND <item> | PAIR <pf> | EID <ef> | CRCLEN x.. | EXT <xf>
   <bf>    ::= DROP i | EXTRA <item> | CRCPRESENT x.. | CRCABSENT | AT i <itf>
   <fault> ::= PRIM <bf> | CAN i <bf> | BLOCKKIND i <item> | NOBREAK | TRAILING x..            *)
From Coq Require Import Strings.String.
From BP7 Require Import Base.Prelude Cbor.Item Model.Types Spec.Faults Run.Proto Run.BundleIO.

Fixpoint parse_n {A} (p : P A) (k : nat) : P (list A) :=
  match k with
  | O => pret []
  | S k' => let* a := p in let* l := parse_n p k' in pret (a :: l)
  end.
Definition pCount : P nat := let* k := pN in if k <? 4096 then pret (N.to_nat k) else fun _ => None.

Fixpoint parse_item (fuel : nat) : P item := fun ts =>
  match fuel with
  | O => None
  | S f =>
    match ts with
    | t :: r =>
      if tok_is t "U" then (let* n := pN in pret (UInt n)) r
      else if tok_is t "NI" then (let* n := pN in pret (NInt n)) r
      else if tok_is t "BS" then (let* b := pBytes in pret (BStr b)) r
      else if tok_is t "TS" then (let* b := pBytes in pret (TStr b)) r
      else if tok_is t "NULL" then Some (Null, r)
      else if tok_is t "F16" then (let* n := pN in pret (F16 n)) r
      else if tok_is t "F32" then (let* n := pN in pret (F32 n)) r
      else if tok_is t "F64" then (let* n := pN in pret (F64 n)) r
      else if tok_is t "ARR" then (let* k := pCount in let* l := parse_n (parse_item f) k in pret (Arr l)) r
      else if tok_is t "MAP" then
        (let* k := pCount in
         let* l := parse_n (let* a := parse_item f in let* b := parse_item f in pret (a, b)) k in pret (Map l)) r
      else None
    | [] => None
    end
  end.
Definition pItem : P item := fun ts => parse_item (S (length ts)) ts.

Definition parse_pf : P pair_fault := fun ts =>
  match ts with
  | t :: r =>
    if tok_is t "PDROP" then (let* i := pCount in pret (PDrop i)) r
    else if tok_is t "PEXTRA" then (let* x := pItem in pret (PExtra x)) r
    else if tok_is t "PKIND" then (let* i := pCount in let* x := pItem in pret (PKind i x)) r
    else None
  | [] => None
  end.
Definition parse_ef : P eid_fault := fun ts =>
  match ts with
  | t :: r =>
    if tok_is t "EEXTRA" then (let* x := pItem in pret (EExtra x)) r
    else if tok_is t "EDROPSCHEME" then Some (EDropScheme, r)
    else if tok_is t "ESCHEME" then (let* k := pN in pret (EScheme k)) r
    else if tok_is t "ESCHEMEKIND" then (let* x := pItem in pret (ESchemeKind x)) r
    else if tok_is t "ESSPKIND" then (let* x := pItem in pret (ESspKind x)) r
    else if tok_is t "EIPN" then (let* pf := parse_pf in pret (EIpn pf)) r
    else if tok_is t "EIPNZERO" then Some (EIpnZero, r)
    else None
  | [] => None
  end.
Definition parse_xf : P ext_fault := fun ts =>
  match ts with
  | t :: r =>
    if tok_is t "XREPL" then (let* x := pItem in pret (XRepl x)) r
    else if tok_is t "XTRAIL" then (let* b := pBytes in pret (XTrail b)) r
    else if tok_is t "XPAIR" then (let* pf := parse_pf in pret (XPair pf)) r
    else if tok_is t "XEID" then (let* ef := parse_ef in pret (XEid ef)) r
    else None
  | [] => None
  end.
Definition parse_itf : P item_fault := fun ts =>
  match ts with
  | t :: r =>
    if tok_is t "KIND" then (let* x := pItem in pret (IKind x)) r
    else if tok_is t "PAIR" then (let* pf := parse_pf in pret (IPair pf)) r
    else if tok_is t "EID" then (let* ef := parse_ef in pret (IEid ef)) r
    else if tok_is t "CRCLEN" then (let* b := pBytes in pret (ICrcLen b)) r
    else if tok_is t "EXT" then (let* xf := parse_xf in pret (IExt xf)) r
    else None
  | [] => None
  end.
Definition parse_bf : P blk_fault := fun ts =>
  match ts with
  | t :: r =>
    if tok_is t "DROP" then (let* i := pCount in pret (BDrop i)) r
    else if tok_is t "EXTRA" then (let* x := pItem in pret (BExtra x)) r
    else if tok_is t "CRCPRESENT" then (let* b := pBytes in pret (BCrcPresent b)) r
    else if tok_is t "CRCABSENT" then Some (BCrcAbsent, r)
    else if tok_is t "AT" then (let* i := pCount in let* itf := parse_itf in pret (BAt i itf)) r
    else None
  | [] => None
  end.
Definition parse_fault : P fault := fun ts =>
  match ts with
  | t :: r =>
    if tok_is t "PRIM" then (let* bf := parse_bf in pret (FPrimary bf)) r
    else if tok_is t "CAN" then (let* i := pCount in let* bf := parse_bf in pret (FCanonical i bf)) r
    else if tok_is t "BLOCKKIND" then (let* i := pCount in let* x := pItem in pret (FBlockKind i x)) r
    else if tok_is t "NOBREAK" then Some (FNoBreak, r)
    else if tok_is t "TRAILING" then (let* b := pBytes in pret (FTrailing b)) r
    else None
  | [] => None
  end.

Definition run_fault (args : list tok) : list byte :=
  match (let* f := parse_fault in let* _ := pTag ";" in let* b := parse_bundle in pret (f, b)) args with
  | Some ((f, b), []) =>
      match apply_fault f b with
      | Some bs => join [S_ "OK"; show_bytes bs]
      | None => S_ "NA"
      end
  | _ => bad_case
  end.
